"""Implementation side of C15 (DSSP).

stdin : {"repo": path of the mdtraj tree the shim must #include, "tmp": scratch dir,
         "shim": path of dssp_shim.cpp,
         "tables": [ {"n":int, "chain":[int], "missing":[bitmask], "frames":[{"hb":[[acc,..]..], "turn":[deg..]}]} ],
         "bridge_probe": [ {"n":..,"chain":..,"hb":..,"i":..,"j":..} ],
         "e2e": [ {"file": name in tests/data, "frame": int, "n_frames": int, "noise": float, "seed": int,
                   "delete": [[residue_index, atom_name], ...], "keep_residues": [lo, hi] | null,
                   "history": optional [ {"op":"call"} | {"op":"rename_atom","res":i,"old":s,"new":s} |
                                          {"op":"rename_residue","res":i,"name":s} ]  executed on ONE object } ]}
stdout: last line JSON {"tables": [[str per frame]], "bridge_probe":[int], "e2e":[{...}]}

Synthetic H-bond tables go through the shim (mdtraj's dssp() with kabsch_sander replaced, see the
header of dssp_shim.cpp).  End-to-end cases go through md.compute_dssp / md.kabsch_sander only; what is
returned besides mdtraj's answers is a description of the object as it is: residue and atom names, chain
index per residue, the CA coordinates of every frame as exact integers ("ca": float32 values in a common
power-of-two unit; the model decides kappa > 70 degrees on them).  "skip" and "geom" (float64 kappa flags with
a 2e-3 rad guard) are the older, independently computed facts; the check no longer uses them.
"aim_kappa": [[r, delta_deg], ...] rotates the CA of residue r+2 about the CA of r so that kappa(r) = 70 + delta degrees.
"rename_residues": [[r, name], ...] renames residues in memory before the first call.
"collapse_ca": [r, ...] puts the CA of residue r+2 exactly on the CA of residue r in every frame.
"""
import ctypes
import json
import os
import subprocess
import sys
import warnings

import numpy as np

warnings.filterwarnings("ignore")


def build_shim(repo, shim, tmp):
    so = os.path.join(tmp, "dssp_shim.so")
    g = os.path.join(repo, "mdtraj", "geometry")
    cmd = ["g++", "-shared", "-fPIC", "-O1", "-w", "--std=c++11", "-msse2", "-mssse3",
           "-I" + os.path.join(g, "include"), "-I" + os.path.join(g, "src", "kernels"), "-I" + os.path.join(g, "src"),
           shim, "-o", so]
    r = subprocess.run(cmd, stdout=subprocess.PIPE, stderr=subprocess.STDOUT, text=True)
    if r.returncode != 0:
        raise RuntimeError("shim build failed:\n" + r.stdout[-3000:])
    return ctypes.CDLL(so)


def iarr(x):
    return np.ascontiguousarray(np.array(x, dtype=np.int32).ravel())


def ptr(a):
    return a.ctypes.data_as(ctypes.POINTER(ctypes.c_int))


def hb_slots(hb, n):
    out = np.full((n, 2), -1, dtype=np.int32)
    for d, accs in enumerate(hb):
        assert len(accs) <= 2
        for k, a in enumerate(accs):
            out[d, k] = a
    return out


def run_tables(lib, tables):
    res = []
    for t in tables:
        n = t["n"]
        F = len(t["frames"])
        hb = np.concatenate([hb_slots(fr["hb"], n).ravel() for fr in t["frames"]]).astype(np.int32)
        # synthetic energies (all below -0.5); "strength" per frame lets bonds weaken / strengthen over frames
        en = np.concatenate([np.full(2 * n, -float(fr.get("strength", 1.0)), dtype=np.float32) -
                             0.01 * np.tile(np.arange(2, dtype=np.float32), n) for fr in t["frames"]]).astype(np.float32)
        turn = iarr([fr["turn"] for fr in t["frames"]])
        chain = iarr(t["chain"])
        missing = iarr(t["missing"])
        out = ctypes.create_string_buffer(F * n + 1)
        nf = lib.shim_dssp(F, n, ptr(hb), en.ctypes.data_as(ctypes.POINTER(ctypes.c_float)), ptr(chain), ptr(missing), ptr(turn), out)
        assert nf == F
        s = out.raw[:F * n].decode("ascii")
        strings = [s[f * n:(f + 1) * n] for f in range(F)]
        if t.get("pylayer"):
            res.append({"c": strings, "py": run_pylayer(t, strings)})
        else:
            res.append({"c": strings})
    return res


def run_pylayer(t, strings):
    """dssp.py on top of a stubbed _geometry._dssp that returns `strings` (what mdtraj's dssp() produced for the
    synthetic table): exercises the simplified translation, the reshape and the 'NA' overlay with all 8 codes."""
    import mdtraj as md
    from mdtraj.geometry import dssp as dssp_mod
    n = t["n"]
    top = md.Topology()
    chains = {}
    for i in range(n):
        c = t["chain"][i]
        if c not in chains:
            chains[c] = top.add_chain()
        res = top.add_residue("ALA", chains[c])
        m = t["missing"][i]
        for bit, name, el in ((1, "N", md.element.nitrogen), (8, "CA", md.element.carbon),
                              (2, "C", md.element.carbon), (4, "O", md.element.oxygen)):
            if not (m & bit):
                top.add_atom(name, el, res)
        if m == 15:
            top.add_atom("OW", md.element.oxygen, res)
    F = len(strings)
    traj = md.Trajectory(np.zeros((F, top.n_atoms, 3), dtype=np.float32), top)
    seen = {}

    class Stub:
        @staticmethod
        def _dssp(xyz, nco, ca, pro, chain_ids):
            seen["chain"] = [int(x) for x in chain_ids]
            seen["skip"] = [int(min(int(a), int(b), int(c), int(d)) < 0) for (a, b, c), d in zip(nco.tolist(), ca.tolist())]
            seen["shape"] = list(xyz.shape)
            seen["k"] = len(ca)
            if len(ca) != n:
                # the wrapper hands only some of the residues to the kernel: the recorded output of dssp() for the full table
                # does not apply (no comparison at this layer; the end-to-end stream decides whether that wrapper is right)
                return " " * (int(xyz.shape[0]) * len(ca))
            return "".join(strings)

    orig = dssp_mod._geometry
    dssp_mod._geometry = Stub()
    try:
        full = md.compute_dssp(traj, simplified=False)
        simp = md.compute_dssp(traj, simplified=True)
    except Exception as e:  # noqa: BLE001
        return {"error": "%s: %s" % (type(e).__name__, str(e)[:300]), "subset_call": seen.get("k") not in (None, n)}
    finally:
        dssp_mod._geometry = orig
    if seen.get("k") != n:
        return {"subset_call": True, "k": seen.get("k")}
    args_ok = (seen.get("chain") == [sorted(set(t["chain"])).index(c) for c in t["chain"]]
               and seen.get("skip") == [int(m != 0) for m in t["missing"]] and seen.get("shape") == [F, top.n_atoms, 3])
    return {"full": [[str(x) for x in row] for row in full], "simp": [[str(x) for x in row] for row in simp],
            "args_ok": bool(args_ok), "shape": list(full.shape)}


def run_bridge_probe(lib, probes):
    res = []
    for p in probes:
        hb = hb_slots(p["hb"], p["n"]).ravel().astype(np.int32)
        res.append(int(lib.shim_test_bridge(p["i"], p["j"], p["n"], ptr(iarr(p["chain"])), ptr(hb))))
    return res


# ------------------------------------------------------------------------------------------ end to end
def kappa_flags(ca_xyz, have):
    """ca_xyz: (n,3) float64 with nan rows where CA is absent -> list of 1/0/None (None = within the
    guard band of 70 degrees or undefined)."""
    n = len(ca_xyz)
    out = [0] * n
    thr = np.radians(70.0)
    for i in range(2, n - 2):
        if not (have[i - 2] and have[i] and have[i + 2]):
            out[i] = 0          # never read by the model: the guard needs all three CA
            continue
        u = ca_xyz[i - 2] - ca_xyz[i]
        v = ca_xyz[i] - ca_xyz[i + 2]
        nu, nv = np.linalg.norm(u), np.linalg.norm(v)
        if nu < 1e-6 or nv < 1e-6:
            out[i] = 1 if (nu == 0 or nv == 0) else None      # 0/0 -> NaN -> CLIP gives -1 -> kappa = pi: a bend
            continue
        c = float(np.dot(u, v) / (nu * nv))
        k = np.arccos(max(-1.0, min(1.0, c)))
        out[i] = None if abs(k - thr) < 2e-3 else int(k > thr)
    return out


def exact_ints(rows):
    """rows: list of None | three float32 -> the same numbers as integers in a common power-of-two unit (every float32 is a
    dyadic rational; the bend test does not depend on the unit)"""
    from fractions import Fraction
    fr = [[Fraction(float(c)) for c in r] if r is not None else None for r in rows]
    D = max([c.denominator for r in fr if r is not None for c in r] + [1])
    return [[int(c * D) for c in r] if r is not None else None for r in fr]


def run_e2e(cases, repo):
    import mdtraj as md
    res = []
    cache = {}
    for c in cases:
        path = os.path.join(repo, "tests", "data", c["file"])
        if path not in cache:
            cache[path] = md.load(path)
        t0 = cache[path][c.get("frame", 0) % cache[path].n_frames]
        if c.get("keep_residues"):
            lo, hi = c["keep_residues"]
            t0 = t0.atom_slice([a.index for a in t0.top.atoms if lo <= a.residue.index < hi])
        dele = {(r, nm) for r, nm in c.get("delete", [])}
        if dele:
            t0 = t0.atom_slice([a.index for a in t0.top.atoms if (a.residue.index, a.name) not in dele])
        F = c["n_frames"]
        rng = np.random.RandomState(c["seed"])
        n_atoms = t0.n_atoms
        # one extra leading frame of the same buffer: an out-of-range atom index -1 in frame 0 then reads
        # known data (see known finding C14 ks hydrogen position)
        big = np.zeros((F + 1, n_atoms, 3), dtype=np.float32)
        big[0] = t0.xyz[0] + 0.3
        for f in range(F):
            if c.get("schedule"):
                scale = c["noise"] * c["schedule"][f]
            else:
                scale = c["noise"] * (f + 1) / F if c.get("ramp") else c["noise"]
            big[f + 1] = t0.xyz[0] + rng.normal(0.0, 1.0, size=(n_atoms, 3)).astype(np.float32) * scale
        traj = md.Trajectory(big[1:], t0.topology)
        top = traj.topology
        if c.get("aim_kappa"):
            # CA of residue r+2 rotated about CA of r so that kappa(r) = 70 degrees + delta (a few 1/1000 .. 1/10 degree):
            # probes the bend threshold right outside the guard band; the model sees the float32 result exactly
            ca0 = [next((a.index for a in r.atoms if a.name == "CA"), None) for r in top.residues]
            for r, delta in c["aim_kappa"]:
                if r < 2 or r + 2 >= len(ca0) or None in (ca0[r - 2], ca0[r], ca0[r + 2]):
                    continue
                for f in range(1, F + 1):
                    p_, t_, n_ = (np.asarray(big[f, ca0[k]], dtype=np.float64) for k in (r - 2, r, r + 2))
                    d1, d2 = t_ - p_, n_ - t_
                    l1, l2 = np.linalg.norm(d1), np.linalg.norm(d2)
                    if l1 < 1e-3 or l2 < 1e-3:
                        continue
                    e1 = d1 / l1
                    w = d2 - np.dot(d2, e1) * e1
                    if np.linalg.norm(w) < 1e-6:
                        w = np.cross(e1, [1.0, 0.0, 0.0] if abs(e1[0]) < 0.9 else [0.0, 1.0, 0.0])
                    e2 = w / np.linalg.norm(w)
                    th = np.radians(70.0 + delta)
                    big[f, ca0[r + 2]] = (t_ + l2 * (np.cos(th) * e1 + np.sin(th) * e2)).astype(np.float32)
        for r, nm in c.get("rename_residues", []):
            if r < top.n_residues:
                top.residue(r).name = nm
        if c.get("collapse_ca"):
            # CA of residue r+2 put exactly on CA of residue r (coinciding atoms: the kappa of r and r+2 is 0/0)
            ca0 = [next((a.index for a in r.atoms if a.name == "CA"), None) for r in top.residues]
            for r in c["collapse_ca"]:
                if r + 2 < len(ca0) and ca0[r] is not None and ca0[r + 2] is not None:
                    big[1:, ca0[r + 2]] = big[1:, ca0[r]]

        def observe():
            """mdtraj's answers for the object as it is now + the facts recomputed independently from the current names"""
            full = md.compute_dssp(traj, simplified=False)
            simp = md.compute_dssp(traj, simplified=True)
            ks = md.kabsch_sander(traj)
            n = top.n_residues
            names = [[a.name for a in r.atoms] for r in top.residues]
            skip = [int(not all(x in nm for x in ("N", "CA", "C", "O"))) for nm in names]
            chain = [r.chain.index for r in top.residues]
            ca_idx = [next((a.index for a in r.atoms if a.name == "CA"), None) for r in top.residues]
            frames = []
            for f in range(F):
                m = ks[f].tocoo()
                hb = [[] for _ in range(n)]
                for acc, don in zip(m.row.tolist(), m.col.tolist()):
                    hb[don].append(acc)
                xyz = np.asarray(traj.xyz[f], dtype=np.float64)
                ca = np.array([xyz[i] if i is not None else [np.nan] * 3 for i in ca_idx])
                geom = kappa_flags(ca, [i is not None for i in ca_idx])
                ca_exact = exact_ints([traj.xyz[f][i] if i is not None else None for i in ca_idx])
                frames.append({"hb": hb, "geom": geom, "ca": ca_exact, "full": [str(x) for x in full[f]],
                               "simp": [str(x) for x in simp[f]]})
            return {"n": n, "skip": skip, "chain": chain, "frames": frames,
                    "names": [[r.name, nm] for r, nm in zip(top.residues, names)],
                    "shape_full": list(full.shape), "shape_simp": list(simp.shape)}

        if c.get("history"):
            # calls interleaved with in-place renames on ONE Trajectory/Topology object
            snaps = []
            for st in c["history"]:
                if st["op"] == "call":
                    snaps.append(observe())
                elif st["op"] == "rename_atom":
                    r = top.residue(st["res"])
                    for a in r.atoms:
                        if a.name == st["old"]:
                            a.name = st["new"]
                            break
                elif st["op"] == "rename_residue":
                    top.residue(st["res"]).name = st["name"]
            res.append({"snapshots": snaps})
        else:
            res.append(observe())
    return res


def main():
    p = json.load(sys.stdin)
    out = {}
    if p.get("tables") or p.get("bridge_probe"):
        lib = build_shim(p["repo"], p["shim"], p["tmp"])
        lib.shim_dssp.restype = ctypes.c_int
        out["tables"] = run_tables(lib, p.get("tables", []))
        out["bridge_probe"] = run_bridge_probe(lib, p.get("bridge_probe", []))
    if p.get("e2e"):
        out["e2e"] = run_e2e(p["e2e"], p["repo"])
    print(json.dumps(out))


if __name__ == "__main__":
    main()
