"""Implementation-side runner for C07: angles, dihedrals and named torsions through mdtraj's public API.

stdin : {"inputs": npz, "outputs": npz, "geom": [{"id": k, "has_box": bool, "ops": [{"op": "angles"|"dihedrals",
         "opt": bool, "periodic": bool}]}], "topo": [{"id": k, "chains": [[{"name": resname, "atoms": [names]}]], "steps": [[edit, ...], ...]}]}
        (edits: rename_atom i name | rename_residue r name | delete_atom i | add_atom r name | add_chain [residues];
         the named torsions are recomputed on the SAME Topology object after every step -> "history")
        arrays: g<k>_xyz (F,n,3) float32, g<k>_idx (m,3|4) int, g<k>_box (F,3,3) float32 (rows = cell vectors)
        "front": [{"id": k, "kind": "validate", "op", "n", "F", "rows" | "empty_width"}            -> status / shape / error text
                  {"id": k, "kind": "flag", "op", "has_box", "calls": [[opt, flagcode], ...]}     -> arrays f<k>_c<j>
                  {"id": k, "kind": "nearortho", "op", "calls": [[opt, flagcode], ...]}           -> f<k>_c<j>, f<k>_vectors]
        (flag codes: 0 True, 1 False, 2 numpy.True_, 3 numpy.False_, 4 int 1, 5 int 0; arrays f<k>_xyz, f<k>_idx,
         f<k>_box (F,3,3) or f<k>_lengths/f<k>_angles (F,3))
stdout: last line {"errors": {...}, "topo": {k: {"indices": {name: [[...]]}, "compute_equal": bool}}, "front": {k: {...}}}; arrays g<k>_o<j>.
Only mdtraj is exercised here; all comparisons happen in harness/props/C07.py.
"""
import json
import sys
import warnings

import numpy as np

warnings.filterwarnings("ignore")
import mdtraj as md  # noqa: E402
from mdtraj.geometry import dihedral as dih  # noqa: E402

NAMES = ["phi", "psi", "omega", "chi1", "chi2", "chi3", "chi4", "chi5"]


def plain_traj(xyz, box):
    xyz = np.array(xyz, dtype=np.float32, copy=True)
    top = md.Topology()
    ch = top.add_chain()
    for _ in range(xyz.shape[1]):
        r = top.add_residue("ALA", ch)
        top.add_atom("CA", md.element.carbon, r)
    t = md.Trajectory(xyz, top)
    if box is not None:
        t.unitcell_vectors = np.array(box, dtype=np.float32, copy=True)
    return t


def build_top(chains):
    top = md.Topology()
    for c in chains:
        ch = top.add_chain()
        for r in c:
            res = top.add_residue(r["name"], ch)
            for a in r["atoms"]:
                el = {"C": md.element.carbon, "N": md.element.nitrogen, "O": md.element.oxygen,
                      "S": md.element.sulfur, "H": md.element.hydrogen}.get(a[0], md.element.carbon)
                top.add_atom(a, el, res)
    return top


ELEMENTS = {"C": md.element.carbon, "N": md.element.nitrogen, "O": md.element.oxygen, "S": md.element.sulfur,
            "H": md.element.hydrogen}


def apply_edit(top, ed):
    """in-place edits of a Topology through its public objects/methods"""
    k = ed[0]
    if k == "rename_atom":
        top.atom(ed[1]).name = ed[2]
    elif k == "rename_residue":
        top.residue(ed[1]).name = ed[2]
    elif k == "delete_atom":
        top.delete_atom_by_index(ed[1])
    elif k == "add_atom":
        top.add_atom(ed[2], ELEMENTS.get(ed[2][0], md.element.carbon), top.residue(ed[1]))
    elif k == "add_chain":
        ch = top.add_chain()
        for r in ed[1]:
            res = top.add_residue(r["name"], ch)
            for a in r["atoms"]:
                top.add_atom(a, ELEMENTS.get(a[0], md.element.carbon), res)
    else:
        raise ValueError("unknown edit %r" % (ed,))


def named(top, rs):
    ind = {nm: np.asarray(getattr(dih, "indices_" + nm)(top)).reshape(-1, 4).astype(int).tolist() for nm in NAMES}
    t = md.Trajectory(rs.randn(2, top.n_atoms, 3).astype(np.float32), top)
    same = t.topology is top
    for nm in NAMES:
        i2, ang = getattr(md, "compute_" + nm)(t)
        i2 = np.asarray(i2).reshape(-1, 4).astype(int).tolist()
        if i2 != ind[nm]:
            same = False
        if len(i2):
            ref = md.compute_dihedrals(t, np.array(i2))
            if ang.shape != ref.shape or not np.array_equal(np.asarray(ang), np.asarray(ref)):
                same = False
        elif np.asarray(ang).shape != (2, 0):
            same = False
    return {"indices": ind, "compute_equal": same}


FLAGS = {0: True, 1: False, 2: np.True_, 3: np.False_, 4: 1, 5: 0}


def run_front(c, data, out):
    """the Python front ends: index validation, the `periodic` argument as an arbitrary object, nearly orthorhombic cells"""
    k = c["id"]
    fn = md.compute_angles if c["op"] == "angles" else md.compute_dihedrals
    if c["kind"] == "validate":
        t = plain_traj(np.zeros((c["F"], c["n"], 3), dtype=np.float32) + np.arange(c["n"], dtype=np.float32)[None, :, None] * 0.1, None)
        idx = np.zeros((0, c["empty_width"]), dtype=int) if "empty_width" in c else np.array(c["rows"], dtype=int)
        try:
            v = fn(t, idx)
            return {"status": "ok", "shape": list(np.asarray(v).shape)}
        except Exception as e:
            return {"status": "raise", "exc": type(e).__name__, "msg": str(e)[:200]}
    xyz = data["f%d_xyz" % k]
    if c["kind"] == "flag":
        t = plain_traj(xyz, data["f%d_box" % k] if c["has_box"] else None)
    else:
        t = plain_traj(xyz, None)
        t.unitcell_lengths = np.array(data["f%d_lengths" % k], dtype=np.float32)
        t.unitcell_angles = np.array(data["f%d_angles" % k], dtype=np.float32)
        out["f%d_vectors" % k] = np.asarray(t.unitcell_vectors, dtype=np.float32)
    idx = data["f%d_idx" % k]
    res = {}
    for j, (opt, code) in enumerate(c["calls"]):
        try:
            out["f%d_c%d" % (k, j)] = np.asarray(fn(t, idx, periodic=FLAGS[code], opt=bool(opt)))
        except Exception as e:
            res["c%d" % j] = "%s: %s" % (type(e).__name__, str(e)[:200])
    return {"status": "ok", "errors": res}


def run_named(c, data, out):
    """every named-torsion helper under every (periodic, opt) combination on a trajectory with a unit cell"""
    k = c["id"]
    top = build_top(c["chains"])
    t = md.Trajectory(np.array(data["n%d_xyz" % k], dtype=np.float32, copy=True), top)
    if c["has_box"]:
        t.unitcell_vectors = np.array(data["n%d_box" % k], dtype=np.float32, copy=True)
    res = {"indices": {}, "same": {}}
    for nm in NAMES:
        for per in (True, False):
            for opt in (True, False):
                tag = "%s_%d%d" % (nm, int(per), int(opt))
                i2, ang = getattr(md, "compute_" + nm)(t, periodic=per, opt=opt)
                i2 = np.asarray(i2).reshape(-1, 4).astype(int)
                res["indices"][nm] = i2.tolist()
                ang = np.asarray(ang)
                out["n%d_%s" % (k, tag)] = ang
                if len(i2):
                    ref = np.asarray(md.compute_dihedrals(t, i2, periodic=per, opt=opt))
                    res["same"][tag] = bool(ang.shape == ref.shape and np.array_equal(ang, ref))
                else:
                    res["same"][tag] = bool(ang.shape == (t.n_frames, 0))
    return res


def main():
    req = json.loads(sys.stdin.read())
    data = np.load(req["inputs"]) if (req.get("geom") or req.get("front") or req.get("named")) else {}
    out, errors, topo_out = {}, {}, {}
    front_out = {}
    for c in req.get("front", []):
        try:
            front_out[str(c["id"])] = run_front(c, data, out)
        except Exception as e:
            errors["f%d" % c["id"]] = "%s: %s" % (type(e).__name__, str(e)[:300])
    for c in req.get("geom", []):
        k = c["id"]
        t = plain_traj(data["g%d_xyz" % k], data["g%d_box" % k] if c["has_box"] else None)
        idx = data["g%d_idx" % k]
        for j, op in enumerate(c["ops"]):
            key = "g%d_o%d" % (k, j)
            try:
                if op["op"] == "angles":
                    v = md.compute_angles(t, idx, periodic=op["periodic"], opt=op["opt"])
                else:
                    v = md.compute_dihedrals(t, idx, periodic=op["periodic"], opt=op["opt"])
                out[key] = np.asarray(v)
            except Exception as e:
                errors[key] = "%s: %s" % (type(e).__name__, str(e)[:300])
    rs = np.random.RandomState(12345)
    for c in req.get("topo", []):
        k = c["id"]
        try:
            top = build_top(c["chains"])
            ind = {nm: np.asarray(getattr(dih, "indices_" + nm)(top)).reshape(-1, 4).astype(int).tolist() for nm in NAMES}
            t = md.Trajectory(rs.randn(2, top.n_atoms, 3).astype(np.float32), top)
            same = True
            for nm in NAMES:
                i2, ang = getattr(md, "compute_" + nm)(t)
                i2 = np.asarray(i2).reshape(-1, 4).astype(int).tolist()
                if i2 != ind[nm]:
                    same = False
                if len(i2):
                    ref = md.compute_dihedrals(t, np.array(i2))
                    if ang.shape != ref.shape or not np.array_equal(np.asarray(ang), np.asarray(ref)):
                        same = False
                elif np.asarray(ang).shape != (2, 0):
                    same = False
            topo_out[str(k)] = {"indices": ind, "compute_equal": same}
            if c.get("steps"):
                # history on ONE Topology object: calls interleaved with in-place edits
                hist = []
                for step in c["steps"]:
                    for ed in step:
                        apply_edit(top, ed)
                    hist.append(named(top, rs))
                topo_out[str(k)]["history"] = hist
        except Exception as e:
            errors["t%d" % k] = "%s: %s" % (type(e).__name__, str(e)[:300])
    named_out = {}
    for c in req.get("named", []):
        try:
            named_out[str(c["id"])] = run_named(c, data, out)
        except Exception as e:
            errors["n%d" % c["id"]] = "%s: %s" % (type(e).__name__, str(e)[:300])
    if req.get("geom") or req.get("front") or req.get("named"):
        np.savez(req["outputs"], **out)
    print(json.dumps({"errors": errors, "topo": topo_out, "front": front_out, "named": named_out}))


if __name__ == "__main__":
    main()
