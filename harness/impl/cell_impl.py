"""Implementation side of C17 (formulas): push generated cells through mdtraj's public API.

stdin : {"cells": [{"lengths": [[a,b,c]..per frame], "angles": [[alpha,beta,gamma]..], "rotated": [[[..3x3 rows a,b,c..]]..per frame],
                    "via": "direct" | "join" (+ "split": [n1, n2, ..]) | "reassign" | "reverse" | "setattr_angles"}],
         "saveload": bool}
"via" is the route by which the trajectory that is asked for its vectors gets its per-frame cell: constructor
arguments, a join of separately built segments (e.g. a cubic run joined to a hexagonal run of the same edge), a
constant cell later overwritten per frame, a reversed trajectory sliced back with [::-1].
stdout: last line JSON {"cells": [result..], "saveload": {...}}

Every number in the payload is already a float32 value (the caller rounds), so mdtraj sees exactly the inputs the
oracle uses.
"""
import json
import os
import sys
import tempfile
import shutil
import warnings

import numpy as np

warnings.filterwarnings("ignore")


def lst(a):
    return None if a is None else np.asarray(a, dtype=np.float64).tolist()


def err(e):
    return {"error": type(e).__name__}


def run_cell(md, c):
    from mdtraj.utils import unitcell as uc
    L = np.array(c["lengths"], dtype=np.float32)
    A = np.array(c["angles"], dtype=np.float32)
    nf = L.shape[0]
    top = md.Topology()
    top.add_atom("C", md.element.carbon, top.add_residue("ALA", top.add_chain()))
    out = {}
    # 1. lengths/angles -> vectors, volumes   (Trajectory glue included)
    via = c.get("via", "direct")

    def fresh(n, l=None, a=None):
        return md.Trajectory(np.zeros((n, 1, 3), dtype=np.float32), top, unitcell_lengths=l, unitcell_angles=a)

    try:
        if via == "join":
            segs, k = [], 0
            for n in c["split"]:
                segs.append(fresh(n, L[k:k + n].copy(), A[k:k + n].copy()))
                k += n
            t = segs[0]
            for i, sg in enumerate(segs[1:]):
                t = (t + sg) if i % 2 == 0 else md.join([t, sg])
        elif via == "join_overlap":
            # segments that overlap by one frame (all coordinates are zero, so the boundary frames coincide) joined with
            # discard_overlapping_frames=True: the duplicate is dropped, every remaining frame keeps ITS cell
            bounds, k = [], 0
            for n in c["split"]:
                bounds.append((k, k + n))
                k += n
            segs = [fresh(min(b + 1, nf) - a, L[a:min(b + 1, nf)].copy(), A[a:min(b + 1, nf)].copy()) for a, b in bounds]
            how = c.get("how", "method")
            if how == "mdjoin":
                t = md.join(segs, discard_overlapping_frames=True)
            elif how == "list":
                t = segs[0].join(segs[1:], discard_overlapping_frames=True)
            else:
                t = segs[0]
                for sg in segs[1:]:
                    t = t.join(sg, discard_overlapping_frames=True)
        elif via == "reassign":
            t = fresh(nf, np.repeat(L[:1], nf, axis=0), np.repeat(A[:1], nf, axis=0))
            _ = t.unitcell_vectors, t.unitcell_volumes            # anything cached from the constant cell must not survive
            t.unitcell_angles = A
            t.unitcell_lengths = L
        elif via == "reverse":
            t = fresh(nf, L[::-1].copy(), A[::-1].copy())[::-1]
        elif via == "setattr_angles":
            t = fresh(nf, L.copy(), np.repeat(A[:1], nf, axis=0))
            t.unitcell_angles = A
        else:
            t = fresh(nf)
            t.unitcell_lengths = L
            t.unitcell_angles = A
    except Exception as e:  # noqa: BLE001   (building the trajectory by join / slicing / assignment must not raise)
        return {"vectors": err(e), "built": False}
    try:
        out["vectors"] = lst(t.unitcell_vectors)
        out["volumes"] = lst(t.unitcell_volumes)
        out["have"] = bool(t._have_unitcell)
        out["stored_lengths"] = lst(t.unitcell_lengths)
        out["stored_angles"] = lst(t.unitcell_angles)
        # the same getters asked frame by frame on one-frame slices
        out["vectors_by_frame"] = [lst(t[i].unitcell_vectors[0]) for i in range(t.n_frames)]
        out["volumes_by_frame"] = [float(t[i].unitcell_volumes[0]) for i in range(t.n_frames)]
    except Exception as e:  # noqa: BLE001
        out["vectors"] = err(e)
    # 2. the utils function on float64 scalars of frame 0
    try:
        a, b, cc = uc.lengths_and_angles_to_box_vectors(*[float(x) for x in L[0]], *[float(x) for x in A[0]])
        out["utils_vectors"] = [lst(a), lst(b), lst(cc)]
    except Exception as e:  # noqa: BLE001
        out["utils_vectors"] = err(e)
    # 3. a rotated description -> setter -> lengths, angles, volumes, vectors
    W = np.array(c["rotated"], dtype=np.float32)
    t2 = md.Trajectory(np.zeros((nf, 1, 3), dtype=np.float32), top)
    try:
        t2.unitcell_vectors = W
        out["back_lengths"] = lst(t2.unitcell_lengths)
        out["back_angles"] = lst(t2.unitcell_angles)
        out["back_volumes"] = lst(t2.unitcell_volumes)
        out["back_vectors"] = lst(t2.unitcell_vectors)
    except Exception as e:  # noqa: BLE001
        out["back_lengths"] = err(e)
    # 4. the utils inverse on frame 0 (float64)
    try:
        r = uc.box_vectors_to_lengths_and_angles(*[np.array(W[0][i], dtype=np.float64) for i in range(3)])
        out["utils_back"] = [float(x) for x in r]
    except Exception as e:  # noqa: BLE001
        out["utils_back"] = err(e)
    # 4b. tilt factors: float64 scalars of frame 0, and the float32 per-frame arrays as one vectorised call
    try:
        out["tilt_scalar"] = lst(uc.lengths_and_angles_to_tilt_factors(*[float(x) for x in L[0]], *[float(x) for x in A[0]]))
        tv = uc.lengths_and_angles_to_tilt_factors(L[:, 0], L[:, 1], L[:, 2], A[:, 0], A[:, 1], A[:, 2])
        out["tilt_frames"] = lst(np.asarray(tv).T)            # one row (lx, ly, lz, xy, xz, yz) per frame
    except Exception as e:  # noqa: BLE001
        out["tilt_scalar"] = err(e)
    # 5. all-zero / None vectors mean "no cell"
    t3 = md.Trajectory(np.zeros((nf, 1, 3), dtype=np.float32), top, unitcell_lengths=L.copy(), unitcell_angles=A.copy())
    t3.unitcell_vectors = np.zeros((nf, 3, 3), dtype=np.float32)
    out["zero_vectors_no_cell"] = (t3.unitcell_lengths is None and t3.unitcell_angles is None and t3.unitcell_vectors is None
                                   and t3.unitcell_volumes is None and not t3._have_unitcell)
    t3.unitcell_lengths, t3.unitcell_angles = L.copy(), A.copy()
    t3.unitcell_vectors = None
    out["none_vectors_no_cell"] = (t3.unitcell_lengths is None and t3.unitcell_angles is None and not t3._have_unitcell)
    return out


NEEDS_TOP = (".xtc", ".trr", ".dcd", ".nc", ".netcdf", ".ncdf", ".ncrst", ".crd", ".mdcrd", ".lammpstrj", ".xyz", ".xyz.gz",
             ".rst7", ".dtr")


EXTRA_CELLS = {"obtuse2": [85.0, 100.0, 110.0], "obtuse2b": [95.0, 91.0, 93.0], "obtuse3": [109.4712206] * 3,
               "mixed90a": [90.0, 90.0, 120.0], "mixed90b": [90.0, 105.0, 90.0], "mixed90c": [60.0, 60.0, 90.0]}


def saveload(md, d, exts, atom_counts=(4,)):
    """every writable format x {no cell, triclinic cell, rectilinear cell} x {1, 3 frames}: what comes back.
    -> {ext: {"none/1": outcome, ...}}; outcome = {"refused": errclass} | {"have": bool, "half": bool, "frames": n,
    "per_frame": bool, "values_ok": bool} | {"load_error": ...}"""
    res = {}
    tops = {}
    for na in set(atom_counts) | {4}:
        tp = md.Topology()
        ch = tp.add_chain()
        for i in range(na):
            tp.add_atom("CA", md.element.carbon, tp.add_residue("ALA", ch))
        tops[na] = tp
    top = tops[4]
    import inspect
    OPTION_VALUES = {"force_overwrite": [False], "header": [False], "ter": [False], "bfactors": ["per-atom"], "precision": [5, 1],
                     "mode": ["a"]}
    for ext in exts:
        row = {}
        # the number of atoms varies too (odd / even counts fill the last coordinate line of the text formats differently)
        combos = [(cell, nf, None, None, na) for na in atom_counts for cell in ("none", "triclinic", "rectilinear") for nf in (1, 3)]
        # cells with two / three obtuse angles, and non-rectilinear cells that contain exact 90 degree angles
        combos += [(cell, nf, None, None, atom_counts[0]) for cell in EXTRA_CELLS for nf in (1, 3)]
        # every keyword argument the saver accepts (found by introspection), switched away from its default
        probe = md.Trajectory(np.zeros((1, 4, 3), dtype=np.float32), tops[4])
        params = [p_ for p_ in list(inspect.signature(probe._savers()[ext]).parameters)[1:]]
        for o in params:
            if o not in OPTION_VALUES:
                row["opt:%s=?/triclinic/1" % o] = {"unknown_option": o}
                continue
            for val in OPTION_VALUES[o]:
                for cell in ("none", "triclinic", "rectilinear"):
                    # (save_pdb(header=False) writes no MODEL records, so several frames read back as one: single frame)
                    for nf in ((1,) if (o == "header" or ext in (".rst7", ".ncrst")) else (1, 3)):
                        combos.append((cell, nf, o, val, atom_counts[(len(combos)) % len(atom_counts)]))
        for cell, nf, o, val, na in combos:
            if ext in (".crd", ".mdcrd") and na == 1:
                # inherent to the format, not judged: the coordinate line of a one-atom frame (three numbers) cannot be told
                # from a box line, so the reader's box detection has nothing to go by (OSError "Inconsistent box information")
                continue
            if True:
                top = tops[na]
                rng = np.random.RandomState(5)
                xyz = rng.rand(nf, na, 3).astype(np.float32)
                L = (np.array([[3.0, 4.0, 5.0]]) + 0.125 * np.arange(nf)[:, None]).astype(np.float32)
                A = np.array([EXTRA_CELLS.get(cell, [80.0, 95.0, 110.0] if cell == "triclinic" else [90.0, 90.0, 90.0])] * nf, dtype=np.float32)
                t = md.Trajectory(xyz.copy(), top, unitcell_lengths=L if cell != "none" else None,
                                  unitcell_angles=A if cell != "none" else None)
                p = os.path.join(d, "%s_%d_%d_%s%s%s" % (cell, nf, na, o or "", str(val).replace("-", ""), ext))
                key = ("opt:%s=%s/%s/%d/a%d" % (o, val, cell, nf, na)) if o else ("%s/%d/a%d" % (cell, nf, na))
                kw = {}
                if o:
                    kw[o] = np.linspace(0.0, 9.0, na) if val == "per-atom" else val
                try:
                    t.save(p, **kw)
                except Exception as e:  # noqa: BLE001
                    row[key] = {"refused": type(e).__name__}
                    continue
                try:
                    files = [p]
                    if ext in (".rst7", ".ncrst") and nf > 1:
                        # one numbered file per frame (name.rst7.1 ...): give each its extension back to load it
                        loaded = []
                        for i in range(nf):
                            q = os.path.join(d, "%s_%d_%d_part%d%s" % (cell, nf, na, i + 1, ext))
                            shutil.copy("%s.%d" % (p, i + 1), q)
                            loaded.append(md.load(q, top=top))
                    else:
                        loaded = [md.load(p, top=top) if ext in NEEDS_TOP else md.load(p)]
                    have = all(bool(u._have_unitcell) for u in loaded)
                    anyhave = any(bool(u._have_unitcell) for u in loaded)
                    half = any((u.unitcell_lengths is None) != (u.unitcell_angles is None) for u in loaded)
                    frames = sum(u.n_frames for u in loaded)
                    if any(u.n_atoms != na for u in loaded):
                        raise RuntimeError("loaded %s atoms, saved %d" % ([u.n_atoms for u in loaded], na))
                    per_frame = all(u.unitcell_lengths is None or u.unitcell_lengths.shape == (u.n_frames, 3) for u in loaded)
                    ok = True
                    if have and cell != "none":
                        gl = np.concatenate([u.unitcell_lengths for u in loaded])
                        ga = np.concatenate([u.unitcell_angles for u in loaded])
                        ok = bool(gl.shape == L.shape and np.abs(gl - L).max() < 2e-2 and np.abs(ga - A).max() < 5e-2)
                    row[key] = {"have": have, "mixed": have != anyhave, "half": half, "frames": frames, "per_frame": per_frame,
                                "values_ok": ok}
                except Exception as e:  # noqa: BLE001
                    row[key] = {"load_error": type(e).__name__ + ": " + str(e)[:60]}
        res[ext] = row
    return res


def observe(t):
    o = {"lengths": lst(t.unitcell_lengths), "angles": lst(t.unitcell_angles)}
    for nm in ("vectors", "volumes"):
        try:
            o[nm] = lst(getattr(t, "unitcell_" + nm))
        except Exception as e:  # noqa: BLE001
            o[nm] = err(e)
    return o


def run_getter_history(md, h):
    """one trajectory object, a sequence of reads / assignments / item assignments; after EVERY op all four getters are
    recorded.  ops: ["read", which] | ["set_lengths", rows|None] | ["set_angles", rows|None] | ["set_vectors", mats|None]
    | ["poke_lengths", f, i, value]  (t.unitcell_lengths[f, i] = value: the getter returns the stored array itself)
    | ["poke_angles", f, i, value] | ["poke_returned_vectors"] (scales the array the vectors getter returned)"""
    top = md.Topology()
    ch = top.add_chain()
    for i in range(3):
        top.add_atom("C", md.element.carbon, top.add_residue("ALA", ch))
    nf = h["frames"]
    xyz = (np.random.RandomState(11).rand(nf, 3, 3) * 8).astype(np.float32)
    f32 = lambda x: None if x is None else np.array(x, dtype=np.float32)   # noqa: E731
    t = md.Trajectory(xyz, top, unitcell_lengths=f32(h["lengths"]), unitcell_angles=f32(h["angles"]))
    out = []
    for op in h["ops"]:
        rec = {}
        try:
            k = op[0]
            if k == "read":
                if op[1] == "distances":
                    try:
                        rec["distances"] = md.compute_distances(t, np.array([[0, 2]]), periodic=True).ravel().astype(float).tolist()
                    except Exception as e:  # noqa: BLE001
                        rec["distances"] = err(e)
                else:
                    getattr(t, "unitcell_" + op[1])
            elif k in ("set_lengths", "set_angles", "set_vectors"):
                setattr(t, "unitcell_" + k[4:], f32(op[1]))
            elif k == "poke_lengths":
                t.unitcell_lengths[op[1], op[2]] = op[3]
            elif k == "poke_angles":
                t.unitcell_angles[op[1], op[2]] = op[3]
            elif k == "poke_returned_vectors":
                v = t.unitcell_vectors
                if v is not None:
                    v *= 2.0
            rec["status"] = "ok"
        except Exception as e:  # noqa: BLE001
            rec["status"] = type(e).__name__
        rec["obs"] = observe(t)
        out.append(rec)
    return out


def run_guard(md, d, g):
    """validity guards.  g["kind"]:
    "check_valid": state (hl, ha, nl, na) -> error class of t._check_valid_unitcell() and of t.save(<.pdb>, <.dcd>), and what
                   unitcell_volumes does;
    "from_vectors": utils.box_vectors_to_lengths_and_angles on arrays of the given shapes;
    "radians": utils.lengths_and_angles_to_box_vectors with all angles below 2 pi degrees: a warning, not an error."""
    from mdtraj.utils import unitcell as uc
    k = g["kind"]
    if k == "check_valid":
        nf = g["frames"]
        top = md.Topology()
        top.add_atom("C", md.element.carbon, top.add_residue("ALA", top.add_chain()))
        L = np.array(g["lengths"], dtype=np.float32) if g["lengths"] is not None else None
        A = np.array(g["angles"], dtype=np.float32) if g["angles"] is not None else None
        t = md.Trajectory(np.zeros((nf, 1, 3), dtype=np.float32), top, unitcell_lengths=L, unitcell_angles=A)
        out = {}
        try:
            t._check_valid_unitcell()
            out["check"] = "ok"
        except Exception as e:  # noqa: BLE001
            out["check"] = type(e).__name__
        for ext in (".pdb", ".dcd"):
            try:
                t.save(os.path.join(d, "g%d%s" % (g["id"], ext)))
                out["save" + ext] = "ok"
            except Exception as e:  # noqa: BLE001
                out["save" + ext] = type(e).__name__
        try:
            v = t.unitcell_volumes
            out["volumes"] = "none" if v is None else ["array", int(np.asarray(v).shape[0])]
        except Exception as e:  # noqa: BLE001
            out["volumes"] = type(e).__name__
        out["have"] = bool(t._have_unitcell)
        return out
    if k == "from_vectors":
        try:
            arrs = [np.ones(sh, dtype=np.float64) + i for i, sh in enumerate(g["shapes"])]
            with np.errstate(all="ignore"):
                r = uc.box_vectors_to_lengths_and_angles(*arrs)
            return {"result": "ok", "shape": list(np.asarray(r[0]).shape)}
        except Exception as e:  # noqa: BLE001
            return {"result": type(e).__name__}
    if k == "radians":
        with warnings.catch_warnings(record=True) as w:
            warnings.simplefilter("always")
            try:
                a, b, c = uc.lengths_and_angles_to_box_vectors(*[float(x) for x in g["lengths"]], *[float(x) for x in g["angles"]])
                return {"result": "ok", "warned": any("radians" in str(x.message) for x in w), "vectors": [lst(a), lst(b), lst(c)]}
            except Exception as e:  # noqa: BLE001
                return {"result": type(e).__name__}
    if k == "tiny_description":
        # a (possibly tiny, possibly relabelled) description assigned to unitcell_vectors: kept unless ALL entries are below 1e-15
        top = md.Topology()
        top.add_atom("C", md.element.carbon, top.add_residue("ALA", top.add_chain()))
        W = np.array(g["vectors"], dtype=np.float64)
        t = md.Trajectory(np.zeros((W.shape[0], 1, 3), dtype=np.float32), top)
        try:
            with np.errstate(all="ignore"):
                t.unitcell_vectors = W
            return {"result": "ok", "lengths": lst(t.unitcell_lengths), "angles": lst(t.unitcell_angles)}
        except Exception as e:  # noqa: BLE001
            return {"result": type(e).__name__}
    return {"result": "unknown guard kind"}


def main():
    payload = json.load(sys.stdin)
    import mdtraj as md
    out = {"cells": [run_cell(md, c) for c in payload.get("cells", [])]}
    if payload.get("getter_histories"):
        out["getter_histories"] = [run_getter_history(md, h) for h in payload["getter_histories"]]
    if payload.get("guards"):
        d = tempfile.mkdtemp(prefix="c17g-", dir=".")
        try:
            out["guards"] = [run_guard(md, d, g) for g in payload["guards"]]
        finally:
            shutil.rmtree(d, ignore_errors=True)
    if payload.get("saveload"):
        d = tempfile.mkdtemp(prefix="c17sl-", dir=".")
        try:
            out["saveload"] = saveload(md, d, payload["saveload"], tuple(payload.get("atom_counts") or (4,)))
        finally:
            shutil.rmtree(d, ignore_errors=True)
    print(json.dumps(out))


if __name__ == "__main__":
    main()
