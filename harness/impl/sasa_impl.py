"""Implementation-side runner for C13 (and the SASA part of C08): calls md.shrake_rupley through the
public API on trajectories built from integer coordinates.

stdin : {"cases": [{"elems": [...], "resid": [...], "nres": k, "xyz": [[[X,Y,Z]...]...]  (integers, unit 2^-grid nm),
                    "grid": 20, "probe": float, "nsp": int, "mode": "atom"|"residue",
                    "change": {sym: float}|null, "sel": [int...]|null}, ...]}
stdout: last line {"out": [ {"rows": [[float...]...]} | {"err": "ValueError"|...} ...], "radii_table": {...}}
All floats are float32 values written as exact Python floats.
"""
import json
import sys

import numpy as np


def build_top(md, elems, resid, nres):
    from mdtraj.core import element as E
    top = md.Topology()
    ch = top.add_chain()
    residues = [top.add_residue("R%d" % i, ch) for i in range(nres)]
    for i, (sym, r) in enumerate(zip(elems, resid)):
        top.add_atom("%s%d" % (sym, i), E.Element.getBySymbol(sym), residues[r])
    return top


def run_case(md, c):
    top = build_top(md, c["elems"], c["resid"], c["nres"])
    xyz = (np.array(c["xyz"], dtype=np.int64).astype(np.float64) / float(2 ** c["grid"])).astype(np.float32)
    traj = md.Trajectory(xyz, top)
    kw = {}
    if c.get("sel") is not None:
        form = c.get("sel_form") or ("ndarray" if c.get("sel_as_array") else "list")
        n_atoms = len(c["elems"])
        if form == "list":
            kw["atom_indices"] = list(c["sel"])
        elif form == "ndarray":
            kw["atom_indices"] = np.array(c["sel"], dtype=int)
        elif form == "int64":
            kw["atom_indices"] = [np.int64(i) for i in c["sel"]]
        elif form == "tuple":
            kw["atom_indices"] = tuple(c["sel"])
        elif form == "bool":
            kw["atom_indices"] = [i in set(c["sel"]) for i in range(n_atoms)]
        elif form == "boolarray":
            kw["atom_indices"] = np.array([i in set(c["sel"]) for i in range(n_atoms)], dtype=bool)
        else:
            raise ValueError("unknown sel_form %r" % form)
    if c.get("get_mapping"):
        kw["get_mapping"] = True
    if c.get("change") is not None:
        kw["change_radii"] = dict(c["change"])
    try:
        out = md.shrake_rupley(traj, probe_radius=c["probe"], n_sphere_points=c["nsp"], mode=c["mode"], **kw)
    except (ValueError, KeyError, IndexError, TypeError) as e:
        return {"err": type(e).__name__, "msg": str(e)[:200]}
    if c.get("get_mapping"):
        out, mapping = out
        return {"rows": [[float(v) for v in row] for row in np.asarray(out)], "mapping": [int(v) for v in mapping]}
    out = np.asarray(out)
    return {"rows": [[float(v) for v in row] for row in out], "dtype": str(out.dtype)}


def run_history(md, c):
    """Several calls on ONE Topology object (and trajectories sharing it) with in-place edits in between.
    c: {"elems","resid","nres","xyz","grid","steps":[...]}; a step is
       {"op":"call","probe","nsp","mode","change","sel","view"}   view: "traj" | "slice_shared" (traj.slice(..., copy=False)) | "new_traj" (new Trajectory, same topology)
       {"op":"set_element","atom":i,"sym":s} | {"op":"move_atom","atom":i,"res":r} | {"op":"rename","atom":i,"name":str}
       {"op":"add_atom","sym":s,"res":r,"xyz":[[X,Y,Z] per frame]} | {"op":"delete_atom","atom":i}
    returns {"calls": [result of every call step, in order]}"""
    from mdtraj.core import element as E
    top = build_top(md, c["elems"], c["resid"], c["nres"])
    xyz = (np.array(c["xyz"], dtype=np.int64).astype(np.float64) / float(2 ** c["grid"])).astype(np.float32)
    traj = md.Trajectory(xyz, top)
    calls = []
    for st in c["steps"]:
        op = st["op"]
        if op == "call":
            kw = {}
            if st.get("sel") is not None:
                kw["atom_indices"] = list(st["sel"])
            if st.get("change") is not None:
                kw["change_radii"] = dict(st["change"])
            view = st.get("view", "traj")
            if view == "slice_shared":
                t = traj.slice(list(range(traj.n_frames)), copy=False)
            elif view == "new_traj":
                t = md.Trajectory(np.array(traj.xyz, copy=True), traj.topology)
            else:
                t = traj
            try:
                out = md.shrake_rupley(t, probe_radius=st["probe"], n_sphere_points=st["nsp"], mode=st["mode"], **kw)
                calls.append({"rows": [[float(v) for v in row] for row in np.asarray(out)], "same_topology_object": t.topology is top})
            except (ValueError, KeyError, IndexError, TypeError) as e:
                calls.append({"err": type(e).__name__, "msg": str(e)[:200]})
        elif op == "set_element":
            top.atom(st["atom"]).element = E.Element.getBySymbol(st["sym"])
        elif op == "rename":
            top.atom(st["atom"]).name = st["name"]
        elif op == "move_atom":
            a = top.atom(st["atom"])
            a.residue._atoms.remove(a)
            new = top.residue(st["res"])
            new._atoms.append(a)
            a.residue = new
        elif op == "add_atom":
            top.add_atom("%sX" % st["sym"], E.Element.getBySymbol(st["sym"]), top.residue(st["res"]))
            extra = (np.array(st["xyz"], dtype=np.int64).astype(np.float64) / float(2 ** c["grid"])).astype(np.float32)
            traj = md.Trajectory(np.concatenate([traj.xyz, extra[:, None, :]], axis=1), top)
        elif op == "delete_atom":
            top.delete_atom_by_index(st["atom"])
            traj = md.Trajectory(np.delete(traj.xyz, st["atom"], axis=1), top)
        else:
            raise ValueError("unknown history op %r" % op)
    return {"calls": calls}


def main():
    payload = json.load(sys.stdin)
    import mdtraj as md
    from mdtraj.geometry import sasa as S
    from mdtraj.core import element as E
    res = [run_history(md, c) if c.get("steps") is not None else run_case(md, c) for c in payload["cases"]]
    symbols = sorted({e.symbol for e in E.Element._elements_by_symbol.values()})
    print(json.dumps({"out": res, "radii_table": dict(S._ATOMIC_RADII), "symbols": symbols}))


if __name__ == "__main__":
    main()
