"""Implementation-side runner for C13 (and the SASA part of C08): calls md.shrake_rupley through the
public API on trajectories built from integer coordinates.

stdin : {"cases": [{"elems": [...], "resid": [...], "nres": k, "xyz": [[[X,Y,Z]...]...]  (integers, unit 2^-grid nm),
                    "grid": 20, "probe": float, "nsp": int, "mode": "atom"|"residue",
                    "change": {sym: float}|null, "sel": [int...]|null}, ...]}
stdout: last line {"out": [ {"rows": [[float...]...]} | {"err": "ValueError"|...} ...], "radii_table": {...}}
All floats are float32 values written as exact Python floats.
"""
import json
import sys

import numpy as np


def build_top(md, elems, resid, nres):
    from mdtraj.core import element as E
    top = md.Topology()
    ch = top.add_chain()
    residues = [top.add_residue("R%d" % i, ch) for i in range(nres)]
    for i, (sym, r) in enumerate(zip(elems, resid)):
        top.add_atom("%s%d" % (sym, i), E.Element.getBySymbol(sym), residues[r])
    return top


def run_case(md, c):
    top = build_top(md, c["elems"], c["resid"], c["nres"])
    xyz = (np.array(c["xyz"], dtype=np.int64).astype(np.float64) / float(2 ** c["grid"])).astype(np.float32)
    traj = md.Trajectory(xyz, top)
    kw = {}
    if c.get("sel") is not None:
        kw["atom_indices"] = list(c["sel"]) if not c.get("sel_as_array") else np.array(c["sel"], dtype=int)
    if c.get("change") is not None:
        kw["change_radii"] = dict(c["change"])
    try:
        out = md.shrake_rupley(traj, probe_radius=c["probe"], n_sphere_points=c["nsp"], mode=c["mode"], **kw)
    except (ValueError, KeyError, IndexError, TypeError) as e:
        return {"err": type(e).__name__, "msg": str(e)[:200]}
    out = np.asarray(out)
    return {"rows": [[float(v) for v in row] for row in out], "dtype": str(out.dtype)}


def main():
    payload = json.load(sys.stdin)
    import mdtraj as md
    from mdtraj.geometry import sasa as S
    from mdtraj.core import element as E
    res = [run_case(md, c) for c in payload["cases"]]
    symbols = sorted({e.symbol for e in E.Element._elements_by_symbol.values()})
    print(json.dumps({"out": res, "radii_table": dict(S._ATOMIC_RADII), "symbols": symbols}))


if __name__ == "__main__":
    main()
