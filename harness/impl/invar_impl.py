"""Implementation-side runner for C09 (metamorphic runs through mdtraj's public API).

stdin : {"jobs": [{"structure": {"pdb": "1vii.pdb", "frame": 0} | {"xyz": [[ix,iy,iz],...], "grid": 10},
                   "snap": bool (round the coordinates to the 2^-10 nm grid), "center_in_box": bool,
                   "box": [[3x3 floats]] | null, "seed": int, "cutoff": float,
                   "observables": [...names...],
                   "variants": [{"kind": "ref"} | {"kind": "jitter", "eps": e, "seed": s} |
                                {"kind": "rigid", "q": [a,b,c,d], "t": [tx,ty,tz]} |
                                {"kind": "lattice", "shifts": [[n1,n2,n3],...] | "random", "range": k, "whole": [..]}]}]}
stdout: last line = {"jobs": [{"n_atoms": N, "box_seen": [...], "index_sets": {...},
                               "variants": [{"maxabs": m, "obs": {name: value}}]}]}
Observable values are lists of floats (float32/float64 widened exactly), ints or strings; an exception inside an
observable is reported as {"err": class name}.

"periodic_flag": false on a job with a box = every observable is called with periodic=False although the Trajectory
carries a unit cell; "observables_nojitter" = names not evaluated on the jitter variants (slow reference paths).
MULTI-FRAME jobs ("multi": {"n_frames": m, "boxes": [3x3 per frame] | null}): every variant becomes ONE m-frame
Trajectory in which EACH FRAME carries its own transformation of the same structure (rigid: variant["per_frame"][f] =
{"q","t"}; lattice: shifts drawn from RandomState(seed + 7919 f) in the cell of frame f, "whole_per_frame"[f]; jitter:
RandomState(seed + 7919 f); ref: the untransformed structure in every frame) and, for periodic jobs, its own cell.
Each observable is computed by ONE call on the m-frame trajectory and split by frame; the answer has
"frames": [per-frame result in the single-frame layout].
"""
import json
import os
import sys
import warnings

import numpy as np

warnings.filterwarnings("ignore")
DATA = os.path.join(os.environ.get("VERIF_REPO", "/repo"), "tests", "data")


def fl(a):
    return [float(x) for x in np.asarray(a, dtype=np.float64).ravel()]


def quat_matrix(q):
    a, b, c, d = [float(x) for x in q]
    n = a * a + b * b + c * c + d * d
    return np.array([[a * a + b * b - c * c - d * d, 2 * (b * c - a * d), 2 * (b * d + a * c)],
                     [2 * (b * c + a * d), a * a - b * b + c * c - d * d, 2 * (c * d - a * b)],
                     [2 * (b * d - a * c), 2 * (c * d + a * b), a * a - b * b - c * c + d * d]]) / n


def load_structure(md, job):
    s = job["structure"]
    if "pdb" in s:
        t = md.load(os.path.join(DATA, s["pdb"]))[s.get("frame", 0)]
        t.unitcell_vectors = None
        xyz = t.xyz[0].astype(np.float64)
        top = t.topology
    else:
        xyz = np.array(s["xyz"], dtype=np.float64) * 2.0 ** (-s.get("grid", 10))
        top = md.Topology()
        ch = top.add_chain()
        for i in range(len(xyz)):
            res = top.add_residue("X", ch)
            top.add_atom("C", md.element.carbon, res)
    if job.get("center_in_box") and job.get("box") is not None:
        b = np.array(job["box"], dtype=np.float64)
        xyz = xyz - xyz.mean(0) + 0.5 * (b[0] + b[1] + b[2])
    if job.get("snap"):
        xyz = np.round(xyz * 1024.0) / 1024.0
    return top, xyz


def index_sets(n, rng, top):
    k = min(40, n * (n - 1) // 2)
    pairs = np.array([sorted(rng.choice(n, 2, replace=False)) for _ in range(k)]) if n >= 2 else np.zeros((0, 2), int)
    trip = np.array([rng.choice(n, 3, replace=False) for _ in range(min(30, n))]) if n >= 3 else np.zeros((0, 3), int)
    quad = np.array([rng.choice(n, 4, replace=False) for _ in range(min(30, n))]) if n >= 4 else np.zeros((0, 4), int)
    # bonded-like sets as well (consecutive indices): realistic, well conditioned
    if n >= 4:
        st = rng.choice(n - 3, size=min(20, n - 3), replace=False)
        trip = np.vstack([trip, np.array([[s, s + 1, s + 2] for s in st])])
        quad = np.vstack([quad, np.array([[s, s + 1, s + 2, s + 3] for s in st])])
    query = np.sort(rng.choice(n, size=max(1, n // 6), replace=False))
    return {"pairs": pairs, "triplets": trip, "quartets": quad, "query": query}


def observe(md, make_t, make_ref, idx, job, names):
    """Every observable gets a FRESH Trajectory: md.rmsd centres its arguments in place, so re-using one object
    would hand already-centred coordinates to everything computed after it."""
    out = {}
    cutoff = job.get("cutoff", 0.5)
    for name in names:
        t = make_t()
        ref_t = make_ref()
        periodic = t.unitcell_vectors is not None
        if job.get("periodic_flag") is not None:
            # the trajectory CARRIES a cell but the caller asks for plain Euclidean geometry (or the reverse)
            periodic = bool(job["periodic_flag"])
        try:
            if name.startswith("tors:"):
                # named torsion helper with explicit flags: "tors:<phi|psi|omega|chi1..5>:<periodic T|F>:<opt T|F>"
                _t, which, pf, of = name.split(":")
                ind, val = getattr(md, "compute_" + which)(t, periodic=(pf == "T"), opt=(of == "T"))
                v = {"idx": np.asarray(ind).astype(int).tolist(), "v": fl(val)}
            elif name.startswith("contacts:"):
                scheme = name.split(":", 1)[1]
                sel = [r.index for r in t.topology.residues if r.name != "GLY"]
                prs = [[a, b] for i, a in enumerate(sel) for b in sel[i + 3:]]
                d, rp = md.compute_contacts(t, contacts=prs, scheme=scheme, periodic=periodic)
                v = {"d": fl(d), "pairs": [int(x) for x in rp.ravel()][:4000]}
            elif name == "wernet_nilsson":
                v = sorted([int(a), int(b), int(c)] for a, b, c in md.wernet_nilsson(t, periodic=periodic)[0])
            elif name == "distances":
                v = fl(md.compute_distances(t, idx["pairs"], periodic=periodic))
            elif name == "displacements_norm":
                d = md.compute_displacements(t, idx["pairs"], periodic=periodic)
                v = fl(np.sqrt((d.astype(np.float64) ** 2).sum(-1)))
            elif name == "angles":
                v = fl(md.compute_angles(t, idx["triplets"], periodic=periodic))
            elif name == "dihedrals":
                v = fl(md.compute_dihedrals(t, idx["quartets"], periodic=periodic))
            elif name == "rmsd":
                # reference structure = a deformed copy, moved together with the trajectory
                v = fl(md.rmsd(t, ref_t))
            elif name == "rg":
                v = fl(md.compute_rg(t))
            elif name == "gyration_moments":
                v = fl(md.principal_moments(t))
            elif name == "gyration_tensor":
                v = fl(md.compute_gyration_tensor(t))
            elif name == "contacts":
                d, prs = md.compute_contacts(t, contacts="all", scheme="closest-heavy", periodic=periodic)
                v = {"d": fl(d), "pairs": [int(x) for x in prs.ravel()][:2000]}
            elif name == "baker_hubbard":
                h = md.baker_hubbard(t, periodic=periodic)
                v = sorted([int(a), int(b), int(c)] for a, b, c in h)
            elif name == "kabsch_sander":
                m = md.kabsch_sander(t)[0].tocoo()
                v = sorted([int(i), int(j), float(e)] for i, j, e in zip(m.row, m.col, m.data))
            elif name == "dssp":
                v = "".join(md.compute_dssp(t, simplified=False)[0])
            elif name == "neighbors":
                v = [int(x) for x in md.compute_neighbors(t, cutoff, idx["query"], periodic=periodic)[0]]
            elif name == "neighborlist":
                nl = md.compute_neighborlist(t, cutoff, frame=0, periodic=periodic)
                v = [sorted(int(x) for x in l) for l in nl]
            elif name == "drid":
                v = fl(md.compute_drid(t))
            elif name == "sasa":
                v = fl(md.shrake_rupley(t, n_sphere_points=job.get("n_sphere_points", 480)))
            else:
                raise RuntimeError("unknown observable " + name)
            out[name] = v
        except Exception as e:  # reported, compared as an error class
            out[name] = {"err": type(e).__name__, "msg": str(e)[:200]}
    return out




def observe_multi(md, make_t, make_ref, idx, job, names, m):
    """One call per observable on the m-frame trajectory; returns {name: [value of frame 0, ..., value of frame m-1]}."""
    out = {}
    cutoff = job.get("cutoff", 0.5)
    for name in names:
        t = make_t()
        periodic = t.unitcell_vectors is not None
        try:
            if name == "distances":
                v = [fl(r) for r in md.compute_distances(t, idx["pairs"], periodic=periodic)]
            elif name == "displacements_norm":
                d = md.compute_displacements(t, idx["pairs"], periodic=periodic)
                v = [fl(r) for r in np.sqrt((d.astype(np.float64) ** 2).sum(-1))]
            elif name == "angles":
                v = [fl(r) for r in md.compute_angles(t, idx["triplets"], periodic=periodic)]
            elif name == "dihedrals":
                v = [fl(r) for r in md.compute_dihedrals(t, idx["quartets"], periodic=periodic)]
            elif name == "rmsd":
                v = []
                for f in range(m):
                    v.append(fl(md.rmsd(make_t(), make_ref(), frame=f)[f:f + 1]))
            elif name == "rg":
                v = [fl(r) for r in md.compute_rg(t)]
            elif name == "gyration_moments":
                v = [fl(r) for r in md.principal_moments(t)]
            elif name == "contacts":
                d, prs = md.compute_contacts(t, contacts="all", scheme="closest-heavy", periodic=periodic)
                v = [{"d": fl(r), "pairs": [int(x) for x in prs.ravel()][:2000]} for r in d]
            elif name == "wernet_nilsson":
                v = [sorted([int(a), int(b), int(c)] for a, b, c in h) for h in md.wernet_nilsson(t, periodic=periodic)]
            elif name == "kabsch_sander":
                v = []
                for mat in md.kabsch_sander(t):
                    mc = mat.tocoo()
                    v.append(sorted([int(i), int(j), float(e)] for i, j, e in zip(mc.row, mc.col, mc.data)))
            elif name == "dssp":
                v = ["".join(r) for r in md.compute_dssp(t, simplified=False)]
            elif name == "neighbors":
                v = [[int(x) for x in r] for r in md.compute_neighbors(t, cutoff, idx["query"], periodic=periodic)]
            elif name == "neighborlist":
                v = []
                for f in range(m):
                    v.append([sorted(int(x) for x in l) for l in md.compute_neighborlist(t, cutoff, frame=f, periodic=periodic)])
            elif name == "drid":
                v = [fl(r) for r in md.compute_drid(t)]
            elif name == "sasa":
                v = [fl(r) for r in md.shrake_rupley(t, n_sphere_points=job.get("n_sphere_points", 480))]
            else:
                raise RuntimeError("unknown observable " + name)
            if len(v) != m:
                raise RuntimeError("observable %s returned %d rows for %d frames" % (name, len(v), m))
            out[name] = v
        except Exception as e:  # reported, compared as an error class
            out[name] = [{"err": type(e).__name__, "msg": str(e)[:200]}] * m
    return out


def multi_job(md, job):
    top, xyz0 = load_structure(md, job)
    n = len(xyz0)
    m = int(job["multi"]["n_frames"])
    rng = np.random.RandomState(job.get("seed", 0))
    idx = index_sets(n, rng, top)
    ref0 = xyz0 + rng.normal(scale=0.05, size=xyz0.shape)
    if job.get("snap"):
        ref0 = np.round(ref0 * 1024.0) / 1024.0
    boxes = job["multi"].get("boxes")
    boxes = None if boxes is None else np.array(boxes, dtype=np.float32)

    def make(xs):
        t = md.Trajectory(np.array(xs, dtype=np.float64).astype(np.float32), top)
        if boxes is not None:
            t.unitcell_vectors = boxes
        return t
    seen = None
    if boxes is not None:
        seen = np.asarray(make([xyz0] * m).unitcell_vectors, dtype=np.float64)
    per_variant = []
    for v in job["variants"]:
        kind = v["kind"]
        xs, xrs, extras = [], [], []
        for f in range(m):
            extra = {}
            if kind == "ref":
                x, xr = xyz0, ref0
            elif kind == "jitter":
                r2 = np.random.RandomState(v["seed"] + 7919 * f)
                x = xyz0 + r2.uniform(-v["eps"], v["eps"], size=xyz0.shape)
                xr = ref0 + r2.uniform(-v["eps"], v["eps"], size=xyz0.shape)
            elif kind == "rigid":
                pf = v["per_frame"][f]
                R = quat_matrix(pf["q"])
                tv = np.array(pf["t"], dtype=np.float64)
                x = xyz0 @ R.T + tv
                xr = ref0 @ R.T + tv
            elif kind == "lattice":
                r2 = np.random.RandomState(v["seed"] + 7919 * f)
                sh = r2.randint(-v["range"], v["range"] + 1, size=(n, 3))
                w = np.array((v.get("whole_per_frame") or [[0, 0, 0]] * m)[f], dtype=np.float64)
                x = xyz0 + sh.astype(np.float64) @ seen[f] + w
                xr = ref0 + w
                fr = x @ np.linalg.inv(seen[f])
                extra["outside"] = [int(i) for i in np.nonzero(np.any((fr < -1e-9) | (fr >= 1 + 1e-9), axis=1))[0]]
            else:
                raise RuntimeError("unknown variant " + kind)
            xs.append(x)
            xrs.append(xr)
            extras.append(extra)
        obs = observe_multi(md, (lambda xs=xs: make(xs)), (lambda xrs=xrs: make(xrs)), idx, job, job["observables"], m)
        per_variant.append((xs, extras, obs))
    frames = []
    for f in range(m):
        variants = []
        for xs, extras, obs in per_variant:
            x32 = xs[f].astype(np.float32).astype(np.float64)
            variants.append(dict(extras[f], maxabs=float(np.abs(x32).max()), exact=bool(np.all(x32 == xs[f])),
                                 obs={name: obs[name][f] for name in job["observables"]}))
        frames.append({"n_atoms": n, "box_seen": None if seen is None else fl(seen[f]),
                       "index_sets": {k: np.asarray(a).tolist() for k, a in idx.items()},
                       "xyz0": fl(xyz0.astype(np.float32)), "ref0": fl(ref0.astype(np.float32)),
                       "heavy": [int(a.index) for a in top.atoms if a.element.symbol != "H"],
                       "xyz_grid": None, "variants": variants})
    return {"frames": frames}


def main():
    payload = json.load(sys.stdin)
    import mdtraj as md
    res = []
    for job in payload["jobs"]:
        if job.get("multi"):
            res.append(multi_job(md, job))
            continue
        top, xyz0 = load_structure(md, job)
        n = len(xyz0)
        rng = np.random.RandomState(job.get("seed", 0))
        idx = index_sets(n, rng, top)
        # deformed copy used as RMSD reference
        ref0 = xyz0 + rng.normal(scale=0.05, size=xyz0.shape)
        if job.get("snap"):
            ref0 = np.round(ref0 * 1024.0) / 1024.0
        box = None if job.get("box") is None else np.array(job["box"], dtype=np.float32)

        def make(x):
            t = md.Trajectory(x.astype(np.float32)[None], top)
            if box is not None:
                t.unitcell_vectors = box[None]
            return t
        seen = None
        if box is not None:
            seen = np.asarray(make(xyz0).unitcell_vectors[0], dtype=np.float64)
        variants = []
        for v in job["variants"]:
            kind = v["kind"]
            extra = {}
            if kind == "ref":
                x, xr = xyz0, ref0
            elif kind == "jitter":
                r2 = np.random.RandomState(v["seed"])
                x = xyz0 + r2.uniform(-v["eps"], v["eps"], size=xyz0.shape)
                xr = ref0 + r2.uniform(-v["eps"], v["eps"], size=xyz0.shape)
            elif kind == "rigid":
                R = quat_matrix(v["q"])
                tv = np.array(v["t"], dtype=np.float64)
                x = xyz0 @ R.T + tv
                xr = ref0 @ R.T + tv
            elif kind == "lattice":
                if v["shifts"] == "random":
                    r2 = np.random.RandomState(v["seed"])
                    sh = r2.randint(-v["range"], v["range"] + 1, size=(n, 3))
                else:
                    sh = np.array(v["shifts"], dtype=np.int64)
                w = np.array(v.get("whole", [0, 0, 0]), dtype=np.float64)
                x = xyz0 + sh.astype(np.float64) @ seen + w
                xr = ref0 + w
                fr = x @ np.linalg.inv(seen)
                extra["outside"] = [int(i) for i in np.nonzero(np.any((fr < -1e-9) | (fr >= 1 + 1e-9), axis=1))[0]]
            else:
                raise RuntimeError("unknown variant " + kind)
            x32 = x.astype(np.float32).astype(np.float64)
            names = [o for o in job["observables"] if not (kind == "jitter" and o in job.get("observables_nojitter", []))]
            variants.append(dict(extra, maxabs=float(np.abs(x32).max()),
                                 exact=bool(np.all(x32 == x)),
                                 obs=observe(md, (lambda x=x: make(x)), (lambda xr=xr: make(xr)), idx, job, names)))
        res.append({"n_atoms": n, "box_seen": None if seen is None else fl(seen),
                    "index_sets": {k: np.asarray(a).tolist() for k, a in idx.items()},
                    "xyz0": fl(xyz0.astype(np.float32)), "ref0": fl(ref0.astype(np.float32)),
                    "heavy": [int(a.index) for a in top.atoms if a.element.symbol != "H"],
                    "xyz_grid": [[int(round(c * 1024)) for c in a] for a in xyz0] if job.get("snap") or "xyz" in job["structure"] else None,
                    "variants": variants})
    print(json.dumps({"jobs": res}))


if __name__ == "__main__":
    main()
