"""Implementation side of C18 / C02: run op sequences and partial loads on real files.

stdin : {"T":int,"n_atoms":int,"formats":[..],"cursor":[case..],"load":[case..]}
stdout: last line JSON {"cursor":[...], "load":[...]}

Frame i has xyz[i,a,:] = (i + 1, a + 1, 0.5) * 0.1 nm, time i, cubic cell length i + 2 nm, so that a
frame read back *is* its identifier in every field.
"""
import json
import os
import sys
import signal
import warnings

import numpy as np

warnings.filterwarnings("ignore")
import mdtraj as md  # noqa: E402
from mdtraj.formats.registry import FormatRegistry  # noqa: E402

TOPEXT = (".h5", ".lh5", ".pdb", ".pdb.gz", ".gro", ".arc", ".hoomdxml", ".gsd")


class Timeout(Exception):
    pass


def _alarm(signum, frame):
    raise Timeout()


signal.signal(signal.SIGALRM, _alarm)


def make_traj(T, n_atoms, cell=True):
    top = md.Topology()
    ch = top.add_chain()
    for a in range(n_atoms):
        res = top.add_residue("ALA", ch, resSeq=a + 1)
        top.add_atom("CA" if a % 2 == 0 else "CB", md.element.carbon, res)
    xyz = np.zeros((T, n_atoms, 3), dtype=np.float32)
    for i in range(T):
        for a in range(n_atoms):
            xyz[i, a] = ((i + 1) * 0.1, (a + 1) * 0.1, 0.05)
    t = md.Trajectory(xyz, top, time=np.arange(T, dtype=np.float32))
    if cell:
        t.unitcell_lengths = np.array([[i + 2.0] * 3 for i in range(T)], dtype=np.float32)
        t.unitcell_angles = np.full((T, 3), 90.0, dtype=np.float32)
    return t


def write_arc(path, T, n_atoms):
    with open(path, "w") as fh:
        for i in range(T):
            fh.write("%6d  frame %d\n" % (n_atoms, i))
            for a in range(n_atoms):
                fh.write("%6d  C  %18.10f %18.10f %18.10f %5d\n" % (a + 1, (i + 1) * 1.0, (a + 1) * 1.0, 0.5, 1))


def write_fixed_atom_dcd(path, T, n_atoms):
    """A CHARMM DCD with fixed atoms (frame 0 stores every atom, later frames only the free ones);
    dcdplugin supports reading them, mdtraj cannot write them.  Atoms 0..n_free-1 are free."""
    import struct
    n_free = max(1, n_atoms // 2)
    free = np.arange(n_free, dtype=np.int32)
    xyz = np.zeros((T, n_atoms, 3), dtype=np.float32)
    for i in range(T):
        for a in range(n_atoms):
            xyz[i, a] = ((i + 1) * 1.0 if a < n_free else 1.0, (a + 1) * 1.0, 0.5)

    def rec(payload):
        mark = struct.pack("<i", len(payload))
        return mark + payload + mark

    ints = [0] * 20
    ints[0] = T
    ints[2] = 1
    ints[8] = n_atoms - n_free
    ints[19] = 24
    block = bytearray(b"CORD" + struct.pack("<20i", *ints))
    block[4 + 36: 4 + 40] = struct.pack("<f", 1.0)
    out = [rec(bytes(block)), rec(struct.pack("<i", 1) + b"fixed atoms".ljust(80)), rec(struct.pack("<i", n_atoms)),
           rec((free + 1).astype("<i4").tobytes())]
    for f in range(T):
        sel = slice(None) if f == 0 else free
        for dd in range(3):
            out.append(rec(xyz[f, sel, dd].astype("<f4").tobytes()))
    with open(path, "wb") as fh:
        fh.write(b"".join(out))


def write_trr_blocks(path, xyz, box, has_v, has_f):
    """a single-precision GROMACS TRR written by hand (mdtraj's writer stores positions only): every frame has the box, the
    positions and, optionally, a velocity block and / or a force block, which a reader that is not asked for them skips"""
    import struct
    T, N, _ = xyz.shape
    out = []
    for i in range(T):
        ver = b"GMX_trn_file"
        h = struct.pack(">ii", 1993, len(ver) + 1) + struct.pack(">i", len(ver)) + ver
        sizes = [0, 0, 36, 0, 0, 0, 0, 12 * N, 12 * N if has_v else 0, 12 * N if has_f else 0]
        h += struct.pack(">10i", *sizes) + struct.pack(">iii", N, i, 0) + struct.pack(">ff", float(i), 0.0)
        body = np.asarray(box[i], dtype=">f4").tobytes() + np.asarray(xyz[i], dtype=">f4").tobytes()
        if has_v:
            body += np.full((N, 3), 7.0 + i, dtype=">f4").tobytes()
        if has_f:
            body += np.full((N, 3), -3.0 - i, dtype=">f4").tobytes()
        out.append(h + body)
    with open(path, "wb") as fh:
        fh.write(b"".join(out))


TRR_BLOCKS = {"trrv.trr": (True, False), "trrf.trr": (False, True), "trrvf.trr": (True, True)}


def make_big(T, n_atoms, fmt, d):
    """a file of more than 1 MiB (many atoms): atom 0 identifies the frame as usual, the y coordinate identifies the atom,
    everything else is float noise (so that xtc cannot compress it away)"""
    p = os.path.join(d, "big_%d_%d.%s" % (T, n_atoms, fmt))
    if not os.path.exists(p):
        t = make_traj(T, n_atoms, True)
        rng = np.random.RandomState(7)
        noise = rng.uniform(0.0, 9.0, size=(T, n_atoms, 3)).astype(np.float32)
        xyz = t.xyz.copy()
        xyz[:, 1:, 0] = noise[:, 1:, 0]
        xyz[:, 1:, 2] = noise[:, 1:, 2]
        t.xyz = xyz
        t.save(p)
    return p


def make_files(T, n_atoms, formats, d, tag="", cell=True):
    t = make_traj(T, n_atoms, cell)
    if not cell:
        tag = tag + "nocell"
    paths = {}
    for fmt in formats:
        p = os.path.join(d, "f%s_%d_%d.%s" % (tag, T, n_atoms, fmt))
        if not os.path.exists(p):
            if fmt == "arc":
                write_arc(p, T, n_atoms)
            elif fmt == "xyznonl.xyz":
                # a legal .xyz file whose last line has no final newline
                t.save(p)
                data = open(p, "rb").read().rstrip(b"\n")
                open(p, "wb").write(data)
            elif fmt == "dcdfix.dcd":
                write_fixed_atom_dcd(p, T, n_atoms)
            elif fmt == "dcd4.dcd":
                # a CHARMM DCD whose frames carry a 4th-dimension record after x, y, z (mdtraj cannot write one): an ordinary
                # cell-less DCD is written through DCDTrajectoryFile and the flag and the extra records are put in by hand
                import struct
                from mdtraj.formats import DCDTrajectoryFile
                plain = p + ".plain"
                with DCDTrajectoryFile(plain, "w") as fh:
                    fh.write(make_traj(T, n_atoms, False).xyz * 10.0)
                raw = open(plain, "rb").read()
                os.remove(plain)
                block = 4 + 4 * n_atoms + 4
                body = T * 3 * block
                header, frames_ = bytearray(raw[: len(raw) - body]), raw[len(raw) - body:]
                if not (header[4:8] == b"CORD" and struct.unpack("<2i", header[48:56]) == (0, 0)):
                    raise RuntimeError("unexpected DCD header layout")
                header[52:56] = struct.pack("<i", 1)
                w = struct.pack("<i", 4 * n_atoms) + np.full(n_atoms, 0.5, "<f4").tobytes() + struct.pack("<i", 4 * n_atoms)
                with open(p, "wb") as out:
                    out.write(bytes(header))
                    for i in range(T):
                        out.write(frames_[i * 3 * block:(i + 1) * 3 * block])
                        out.write(w)
            elif fmt in TRR_BLOCKS:
                box = np.array([np.eye(3) * ((i + 2.0) if cell else 0.0) for i in range(T)], dtype=np.float32)
                write_trr_blocks(p, t.xyz, box, *TRR_BLOCKS[fmt])
            elif fmt == "dcd0.dcd":
                # a DCD whose header frame count (NSET) was never filled in: the reader derives the number
                # of frames from the file size (supported by dcdplugin); the cursor contract is the same
                import struct
                try:
                    t.save(p)
                except (ValueError, TypeError):
                    make_traj(T, n_atoms, True).save(p)
                with open(p, "r+b") as fh:
                    fh.seek(8)
                    fh.write(struct.pack("<i", 0))
            else:
                try:
                    t.save(p)
                except (ValueError, TypeError):
                    # the format cannot be written without a cell (dtr, lammpstrj): use the cell-carrying trajectory
                    make_traj(T, n_atoms, True).save(p)
        paths[fmt] = p
    top = os.path.join(d, "top_%d.pdb" % n_atoms)
    if not os.path.exists(top):
        t[0].save(top)
    return paths, top


def frame_ids(xyz, scale):
    """xyz in file units -> list of frame identifiers, -1 for a frame that is not one we wrote."""
    xyz = np.asarray(xyz, dtype=float)
    if xyz.ndim != 3 or xyz.shape[0] == 0:
        return []
    ids = []
    for fr in xyz:
        v = fr[0, 0] / scale * 10.0 - 1.0
        r = int(round(v))
        ok = abs(v - r) < 0.02 and abs(fr[0, 2] / scale - 0.05) < 0.002
        ids.append(r if ok else -1)
    return ids


def atom_ids(xyz, scale):
    xyz = np.asarray(xyz, dtype=float)
    if xyz.ndim != 3 or xyz.shape[0] == 0:
        return []
    ids = [int(round(v / scale * 10.0 - 1.0)) for v in xyz[0, :, 1]]
    if len(ids) > 64:
        # big files: report the first four atoms (what the caller expects for "all atoms"), -1 first if any atom is off
        return ids[:4] if ids == list(range(len(ids))) else [-1] + ids[:3]
    return ids


def traj_obs(t):
    """Observation of a loaded Trajectory: frame ids from xyz, time and cell; atoms; topology atoms."""
    ids = frame_ids(t.xyz, 1.0)
    tm = [int(round(float(x))) for x in t.time]
    if t.unitcell_lengths is not None:
        cell = [int(round(float(x[0]) - 2.0)) for x in t.unitcell_lengths]
    else:
        cell = None
    return {"frames": ids, "time": tm, "cell": cell, "atoms": atom_ids(t.xyz, 1.0) if len(ids) else [],
            "top_atoms": [a.residue.resSeq - 1 for a in t.topology.atoms] if t.topology is not None else None}


UNIT = {"dcd4.dcd": 10.0, "trrv.trr": 1.0, "trrf.trr": 1.0, "trrvf.trr": 1.0, "xyznonl.xyz": 10.0, "dcdfix.dcd": 10.0, "dcd0.dcd": 10.0, "h5": 1.0, "xtc": 1.0, "trr": 1.0, "dcd": 10.0, "nc": 10.0, "mdcrd": 10.0, "xyz": 10.0,
        "lammpstrj": 10.0, "dtr": 10.0, "arc": 10.0, "gro": 1.0, "lh5": 1.0, "netcdf": 10.0}


def open_file(fmt, path, n_atoms, chunk=None):
    if fmt in ("mdcrd", "crd"):
        return md.open(path, n_atoms=n_atoms)
    if chunk is not None and fmt in ("xtc", "trr"):
        # read() without n_frames loops over _read(chunk); chunk = max(|int((approx - counter) * multiplier)|, min_chunk_size):
        # with the multiplier at its minimum the chunk is min_chunk_size for every small file
        return md.open(path, min_chunk_size=int(chunk), chunk_size_multiplier=0.01)
    return md.open(path)


def first_array(res):
    if isinstance(res, (list, tuple)):
        if len(res) == 0:
            return np.zeros((0, 0, 3))
        if hasattr(res, "coordinates"):
            return res.coordinates
        return res[0]
    return res


def _copy_over(src, dst, replace):
    """write the file (or directory, for dtr) `src` at the path `dst`: in place (same inode, truncated and rewritten)
    or as a new file moved over the old name"""
    import shutil
    if os.path.isdir(src):
        if os.path.exists(dst):
            shutil.rmtree(dst)
        shutil.copytree(src, dst)
    elif replace:
        shutil.copyfile(src, dst + ".new")
        os.replace(dst + ".new", dst)
    else:
        shutil.copyfile(src, dst)


REUSE_SEQ = [0]


def prepare_reuse(case, paths, n_atoms):
    """path reuse: a DIFFERENT trajectory (other frame count, other atom count, hence other byte layout) is written at a
    path, opened, read and closed (modes "closed": rewritten in place, "closed-replace": replaced by a new inode) or left
    open (mode "open-replace": the old handle keeps the old inode); then the path is written again with the case's trajectory.  The case's handles are opened on that path afterwards.  Whatever a reader remembers
    about a path beyond the life of a handle (offset tables, lengths) is then stale.
    -> (path, old handle or None)"""
    fmt = case["fmt"]
    ru = case["reuse"]
    d = os.getcwd()
    REUSE_SEQ[0] += 1
    P = os.path.join(d, "reuse%d.%s" % (REUSE_SEQ[0], fmt))
    first, _top = make_files(ru["T0"], ru["n_atoms0"], [fmt], d, tag="ru")
    _copy_over(first[fmt], P, False)
    old = None
    try:
        signal.alarm(20)
        old = open_file(fmt, P, ru["n_atoms0"], case.get("chunk"))
        old.read()
        for step in (lambda: old.tell(), lambda: len(old), lambda: old.seek(0), lambda: old.read(n_frames=2), lambda: old.seek(1),
                     lambda: old.read(n_frames=1)):
            try:
                step()
            except Exception:  # noqa  (arc cannot seek, mdcrd has no len, ...)
                pass
    except Exception:  # noqa
        pass
    finally:
        signal.alarm(0)
    if ru["mode"] in ("closed", "closed-replace") and old is not None:
        old.close()
        old = None
    _copy_over(paths[fmt], P, ru["mode"] != "closed")
    return P, old


def run_cursor(case, paths, n_atoms):
    fmt = case["fmt"]
    old_handle = None
    if case.get("reuse"):
        P, old_handle = prepare_reuse(case, paths, n_atoms)
        paths = dict(paths)
        paths[fmt] = P
    nh = case.get("handles", 1)
    # one atom selection for all handles, or one per handle ("atom_indices_h")
    ais = case.get("atom_indices_h") or [case.get("atom_indices")] * nh
    if case.get("big"):
        # a file larger than 1 MiB, every handle of the case open on it at the same time
        paths = dict(paths)
        paths[fmt] = make_big(case["T"], case["big"], fmt, os.getcwd())
    chunk = case.get("chunk")
    hs = [open_file(fmt, paths[fmt], n_atoms, chunk) for _ in range(nh)]
    outs = []
    try:
        for h, op, arg in case["ops"]:
            f = hs[h]
            ai = ais[h]
            try:
                signal.alarm(20)
                if op == "reopen":
                    # close this handle and open the file again (the other handle stays as it is)
                    f.close()
                    hs[h] = open_file(fmt, paths[fmt], n_atoms, chunk)
                    outs.append({"ok": True})
                elif op == "read":
                    res = f.read(n_frames=arg, atom_indices=ai)
                    outs.append({"frames": frame_ids(first_array(res), UNIT[fmt]),
                                 "atoms": atom_ids(first_array(res), UNIT[fmt])})
                elif op == "readall":
                    res = f.read(atom_indices=ai)
                    outs.append({"frames": frame_ids(first_array(res), UNIT[fmt]),
                                 "atoms": atom_ids(first_array(res), UNIT[fmt])})
                elif op == "seek":
                    f.seek(arg)
                    outs.append({"ok": True})
                elif op == "seekrel":
                    f.seek(arg, 1)
                    outs.append({"ok": True})
                elif op == "tell":
                    outs.append({"pos": int(f.tell())})
                elif op == "len":
                    outs.append({"pos": int(len(f))})
                else:
                    raise AssertionError(op)
            except Timeout:
                outs.append({"err": "Timeout"})
            except NotImplementedError:
                outs.append({"err": "NotImplemented"})
            except Exception as e:  # noqa
                outs.append({"err": type(e).__name__})
            finally:
                signal.alarm(0)
    finally:
        for f in hs + ([old_handle] if old_handle is not None else []):
            try:
                f.close()
            except Exception:
                pass
    return outs


def run_load(case, paths, top, n_atoms, d):
    fmt = case["fmt"]
    kind = case["kind"]
    ai = case.get("atom_indices")
    kw = {}
    if ("." + fmt) not in TOPEXT:
        kw["top"] = top
    if ai is not None:
        kw["atom_indices"] = ai
    try:
        signal.alarm(30)
        if kind == "load":
            if case.get("stride") is not None:
                kw["stride"] = case["stride"]
            if case.get("frame") is not None:
                kw["frame"] = case["frame"]
            t = md.load(paths[fmt], **kw)
            return traj_obs(t)
        if kind == "load_frame":
            t = md.load_frame(paths[fmt], case["frame"], **kw)
            return traj_obs(t)
        if kind == "iterload":
            chunks = []
            limit = case["limit"]
            for ch in md.iterload(paths[fmt], chunk=case["chunk"], stride=case["stride"], skip=case["skip"], **kw):
                chunks.append(traj_obs(ch))
                if len(chunks) > limit:
                    return {"err": "NonTermination", "chunks": chunks}
            return {"chunks": chunks}
        if kind == "load_list":
            files = [case["files"][i] for i in range(len(case["files"]))]
            ps = []
            for (T2, tag) in files:
                p2, _ = make_files(T2, n_atoms, [fmt], d, tag=tag)
                ps.append(p2[fmt])
            if case.get("stride") is not None:
                kw["stride"] = case["stride"]
            t = md.load(ps, **kw)
            return traj_obs(t)
        raise AssertionError(kind)
    except Timeout:
        return {"err": "Timeout"}
    except NotImplementedError:
        return {"err": "NotImplemented"}
    except Exception as e:  # noqa
        return {"err": type(e).__name__, "msg": str(e)[:200]}
    finally:
        signal.alarm(0)


def main():
    req = json.load(sys.stdin)
    d = os.getcwd()
    n_atoms = req["n_atoms"]
    out = {"cursor": [], "load": []}
    cache = {}

    def files(T, cell=True):
        if (T, cell) not in cache:
            cache[(T, cell)] = make_files(T, n_atoms, req["formats"], d, cell=cell)
        return cache[(T, cell)]

    for c in req.get("cursor", []):
        paths, top = files(c["T"], c.get("cell", True))
        out["cursor"].append(run_cursor(c, paths, n_atoms))
    for c in req.get("load", []):
        paths, top = files(c["T"])
        out["load"].append(run_load(c, paths, top, n_atoms, d))
    sys.stdout.write("\n" + json.dumps(out) + "\n")


if __name__ == "__main__":
    main()
