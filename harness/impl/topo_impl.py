"""Implementation-side runner for C04: executes op histories on real mdtraj Topology objects
(through the public API: Topology methods, Trajectory.atom_slice/stack/[...], md.load of saved
.h5/.pdb files, pickle, copy/deepcopy) and prints a canonical dump of every topology.

stdin : {"cases": [{"ops": [[name, args...], ...]}, ...]}
stdout: last line = {"results": [obs, ...]} where obs mirrors coq/Topo/Run.v:observe:
        [status per op, dump per topology, == matrix, hash-equality matrix]
"""
import copy
import json
import math
import os
import pickle
import shutil
import sys
import tempfile
import warnings

import numpy as np

warnings.simplefilter("ignore")

import mdtraj as md  # noqa: E402
from mdtraj.core import element as elem  # noqa: E402
from mdtraj.core import topology as T  # noqa: E402

BT = {None: None, "Single": T.Single, "Double": T.Double, "Triple": T.Triple, "Aromatic": T.Aromatic, "Amide": T.Amide}


def el(sym):
    return None if sym == "VS0" else elem.get_by_symbol(sym)


NAN_SERIAL = -1     # coq/Topo/Model.v:nan_serial


def norm_serial(s):
    """None stays None; a float NaN (what pandas makes of a missing serial) is reported as the sentinel;
    numbers are compared by value (10.0 == 10)."""
    if s is None:
        return None
    try:
        if isinstance(s, (float, np.floating)) and math.isnan(float(s)):
            return NAN_SERIAL
    except TypeError:
        pass
    return int(s)


# reference facts about a few elements, independent of mdtraj's tables
ELEM_REF = {"H": ("hydrogen", 1, 1.008), "D": ("deuterium", 1, 2.014), "C": ("carbon", 6, 12.011), "VS": ("virtual_site", 0, 0.0),
            "ZN": ("zinc", 30, 65.41), "CL": ("chlorine", 17, 35.45)}


def elem_token(e):
    """The element of an atom as the model sees it: its symbol -- provided the object IS the module's singleton
    registered under that symbol and its name, atomic number and mass are the ones that singleton (and, for a few
    elements, an independent reference) has.  Anything else yields a token no model output can equal."""
    sym = str(e.symbol)
    ref = elem.Element._elements_by_symbol.get(sym.strip().upper())
    ok = ref is not None and e is ref and e.name == ref.name and e.atomic_number == ref.atomic_number and float(e.mass) == float(ref.mass)
    if ok and sym.upper() in ELEM_REF:
        nm, num, mass = ELEM_REF[sym.upper()]
        ok = e.name == nm and e.atomic_number == num and abs(float(e.mass) - mass) < 0.01
    return sym if ok else "%s!%s!%s!%s" % (sym, e.name, e.atomic_number, e.mass)


def index_is(lst, obj):
    for i, x in enumerate(lst):
        if x is obj:
            return i
    return None


def dump(t):
    chains = []
    for c in t._chains:
        rs = []
        for r in c._residues:
            ats = [[str(a.name), elem_token(a.element), int(a.index), norm_serial(a.serial), a.residue is r]
                   for a in r._atoms]
            rs.append([str(r.name), int(r.index), int(r.resSeq), str(r.segment_id), r.chain is c, ats])
        chains.append([int(c.index), None if c.chain_id is None else str(c.chain_id), rs])
    cw_atoms = list(t.atoms)          # public chain-wise iteration
    cw_res = list(t.residues)
    atoms_order = [[index_is(cw_atoms, t.atom(i)), int(t.atom(i).index)] for i in range(t.n_atoms)]
    res_order = [[index_is(cw_res, t.residue(i)), int(t.residue(i).index)] for i in range(t.n_residues)]
    bonds = []
    n = t.n_atoms
    for b in t.bonds:
        i, j = int(b.atom1.index), int(b.atom2.index)
        bonds.append([i, j, None if b.type is None else repr(b.type), None if b.order is None else int(b.order),
                      bool(0 <= i < n and t.atom(i) is b.atom1), bool(0 <= j < n and t.atom(j) is b.atom2)])
    return [chains, atoms_order, res_order, int(t._numAtoms), int(t._numResidues), bonds]


def traj_of(t, frames=1):
    return md.Trajectory(np.zeros((int(frames), t.n_atoms, 3), dtype=np.float32), t)


# ---------------------------------------------------------------------------- model-free laws (deepening round)
# Facts the Coq model takes as given about the small classes, checked directly on the live objects of every case:
# Atom.__eq__ is equality of the six fields the model's atom_eqb compares and equal atoms hash equal; Bond ==, <, <=,
# >, >= are the comparisons of the tuple (atom1.index, atom2.index, float(type) or 0, order or 0) (the model's
# bond_key / key_leb, with an independent table for float(type)) and equal bonds hash equal; residues / chains with
# equal hashed fields hash equal.  Plus two differential laws on the carriers: md.load(file, atom_indices=k) is
# md.load(file).topology.subset(k); from_dataframe with a 2-column bond array / without bonds is from_dataframe of
# the 4-column array with type and order erased / with no bonds.
TYPE_VAL = {"None": 0.0, "Single": 1.0, "Amide": 1.25, "Aromatic": 1.5, "Double": 2.0, "Triple": 3.0}
LAWS = []          # violations of the current case
LAW_COUNTS = {}


def law(name, ok, detail=""):
    LAW_COUNTS[name] = LAW_COUNTS.get(name, 0) + 1
    if not ok and len(LAWS) < 20:
        LAWS.append("%s: %s" % (name, detail))


def law_try(name, thunk):
    """A differential law whose evaluation must not disturb the op it rides on."""
    try:
        ok, detail = thunk()
    except Exception as e:
        ok, detail = False, "raised %s: %s" % (type(e).__name__, str(e)[:120])
    law(name, ok, detail)


def atom_fields(a):
    return (str(a.name), int(a.index), str(a.element.name), str(a.residue.name), int(a.residue.index),
            int(a.residue.chain.index))


def bond_tuple(b):
    return (int(b.atom1.index), int(b.atom2.index), TYPE_VAL[repr(b.type)], 0 if b.order is None else int(b.order))


def check_small_classes(tops):
    atoms = [a for t in tops for a in t._atoms][:36]
    for a in atoms:
        fa = atom_fields(a)
        for b in atoms:
            e = bool(a == b)
            law("atom_eq_is_six_fields", e == (fa == atom_fields(b)), "%r %r -> %s" % (fa, atom_fields(b), e))
            if e:
                law("atom_eq_implies_hash", hash(a) == hash(b), "%r" % (fa,))
    bonds = [b for t in tops for b in t._bonds][:24]
    for x in bonds:
        tx = bond_tuple(x)
        for y in bonds:
            ty = bond_tuple(y)
            got = (bool(x == y), bool(x != y), bool(x < y), bool(x <= y), bool(x > y), bool(x >= y))
            want = (tx == ty, tx != ty, tx < ty, tx <= ty, tx > ty, tx >= ty)
            law("bond_comparisons_are_tuple_comparisons", got == want, "%r %r -> %r" % (tx, ty, got))
            if got[0]:
                law("bond_eq_implies_hash", hash(x) == hash(y), "%r" % (tx,))
    for t in tops:
        bs = list(t._bonds)
        law("sorted_bonds_by_tuple", [bond_tuple(b) for b in sorted(bs)] == sorted(bond_tuple(b) for b in bs), "")
    res = [r for t in tops for r in t._residues][:30]
    for r in res:
        for q in res:
            if (r.name, r.index, r.resSeq, r.segment_id) == (q.name, q.index, q.resSeq, q.segment_id):
                law("residue_fields_imply_hash", hash(r) == hash(q), "%s" % (r,))
    chs = [c for t in tops for c in t._chains][:20]
    for c in chs:
        for d in chs:
            if c.index == d.index:
                law("chain_index_implies_hash", hash(c) == hash(d), "%s" % (c.index,))


def every_other(n):
    return [i for i in range(n) if i % 2 == 0]


def apply(tops, op, tmp):
    k = op[0]
    if k == "new":
        tops.append(md.Topology())
        return
    t = tops[op[1]]
    if k == "hash":
        # observer (the model ignores it): the topology is hashed / used as a dict key in the middle of the history,
        # as Trajectory.__hash__ or a user's dict would; whatever is remembered there must not outlive a later edit
        {t: 1}[t]
        hash(t)
        return
    if k == "add_chain":
        t.add_chain(op[2]) if op[2] is not None else t.add_chain()
    elif k == "add_residue":
        _, _s, cp, name, rs, seg = op
        if rs is None:
            t.add_residue(name, t.chain(cp), segment_id=seg)
        else:
            t.add_residue(name, t.chain(cp), rs, seg)
    elif k == "add_atom":
        _, _s, rp, name, sym, ser = op
        t.add_atom(name, el(sym), t.residue(rp), serial=ser)
    elif k == "add_bond":
        _, _s, i, j, ty, od = op
        t.add_bond(t.atom(i), t.atom(j), type=BT[ty], order=od)
    elif k == "insert_atom":
        _, _s, rp, name, sym, index, rindex, ser = op
        t.insert_atom(name, el(sym), t.residue(rp), index=index, rindex=rindex, serial=ser)
    elif k == "delete":
        t.delete_atom_by_index(op[2])
    elif k == "copy":
        how = op[2]
        if how == "copy":
            new = t.copy()
        elif how == "copy.copy":
            new = copy.copy(t)
        elif how == "deepcopy":
            new = copy.deepcopy(t)
        else:  # Trajectory slicing deep-copies the topology
            new = traj_of(t)[0:1].topology
        tops.append(new)
    elif k == "subset":
        _, _s, keep, how = op
        if how == "list":
            new = t.subset(list(keep))
        elif how == "array":
            new = t.subset(np.array(keep, dtype=int))
        else:
            new = traj_of(t).atom_slice(np.array(keep, dtype=int)).topology
        tops.append(new)
    elif k == "join":
        _, _s, s2, keep, how = op
        u = tops[s2]
        if how == "join":
            new = t.join(u, keep_resSeq=keep)
        else:
            new = traj_of(t).stack(traj_of(u), keep_resSeq=keep).topology
        tops.append(new)
    elif k == "pickle":
        how = op[2] if len(op) > 2 else "p2"
        if how == "traj":        # a pickled Trajectory carries its topology
            tr = traj_of(t)
            tops.append(pickle.loads(pickle.dumps(tr, pickle.HIGHEST_PROTOCOL)).topology)
        else:
            tops.append(pickle.loads(pickle.dumps(t, 2 if how == "p2" else pickle.HIGHEST_PROTOCOL)))
    elif k == "df":
        first = op[2] if len(op) > 2 else None
        if first is not None:            # frames of another topology go through from_dataframe first,
            a0, b0 = tops[first].to_dataframe()      # then the frames of t are used twice
            md.Topology.from_dataframe(a0, b0)
        atoms, bonds = t.to_dataframe()
        new = md.Topology.from_dataframe(atoms, bonds)
        if first is not None:
            new = md.Topology.from_dataframe(atoms, bonds)
        # differential laws: the 2-column bond array and bonds=None
        erased = bonds.copy()
        erased[:, 2:] = 0.0
        law_try("df_two_column_bonds", lambda: (dump(md.Topology.from_dataframe(atoms.copy(), bonds[:, :2].copy())) ==
                                                dump(md.Topology.from_dataframe(atoms.copy(), erased)), ""))
        law_try("df_no_bonds", lambda: (dump(md.Topology.from_dataframe(atoms.copy(), None)) ==
                                        dump(md.Topology.from_dataframe(atoms.copy(), bonds[:0])), ""))
        tops.append(new)
    elif k == "h5":
        from mdtraj.formats import HDF5TrajectoryFile
        fn = os.path.join(tmp, "t.h5")
        if os.path.exists(fn):
            os.unlink(fn)
        first = op[2] if len(op) > 2 else None
        mode = op[3] if len(op) > 3 else "w"
        if mode in ("handle", "iter"):
            # several loads through ONE open handle / one chunked iteration: each must be an independent object.
            # The first load is scribbled on before the next one is taken; the later load is what is kept.
            md.Trajectory(np.zeros((3, t.n_atoms, 3), dtype=np.float32), t).save_hdf5(fn)

            def scribble(a):
                for r in a.residues:
                    r.name = "ZZZ"
                    r.resSeq = 77
                for c in a.chains:
                    c.chain_id = "q"
                if a.n_atoms:
                    a.delete_atom_by_index(0)
                a.add_chain("Q")
            if mode == "handle":
                with HDF5TrajectoryFile(fn, "r") as f:
                    scribble(f.topology)
                    scribble(f.read_as_traj(n_frames=1).topology)
                    f.seek(0)
                    scribble(f.read_as_traj(n_frames=1, atom_indices=[0]).topology)
                    tops.append(f.topology)
            else:
                it = md.iterload(fn, chunk=1)
                scribble(next(it).topology)
                tops.append(next(it).topology)
                it.close()
        elif first is None:
            traj_of(t, op[4] if len(op) > 4 else 1).save_hdf5(fn)
            tops.append(md.load(fn).topology)
            k = every_other(t.n_atoms)
            law_try("h5_load_atom_indices_is_subset",
                    lambda: (dump(md.load(fn, atom_indices=k).topology) == dump(md.load(fn).topology.subset(k)), ""))
        elif mode == "setter":           # low-level: the topology attribute is stored twice, no frames
            with HDF5TrajectoryFile(fn, "w") as f:
                f.topology = tops[first]
            with HDF5TrajectoryFile(fn, "a") as f:
                f.topology = t
            with HDF5TrajectoryFile(fn, "r") as f:
                tops.append(f.topology)
        else:                            # the file already holds another topology: the LAST one stored must come back
            traj_of(tops[first]).save_hdf5(fn)
            traj_of(t).save_hdf5(fn, mode=mode)
            tops.append(md.load(fn).topology)
    elif k == "pdb":
        fn = os.path.join(tmp, "t.pdb")
        first = op[3] if len(op) > 3 else None
        if first is not None:            # the path already holds another topology
            tr0 = traj_of(tops[first])
            tr0.xyz[0, :, 0] = np.arange(tops[first].n_atoms) * 1.0
            tr0.save_pdb(fn, ter=bool(op[2]))
        frames = op[4] if len(op) > 4 else 1
        tr = traj_of(t, frames)
        tr.xyz[:, :, 0] = np.arange(t.n_atoms) * 1.0     # 1 nm apart: the reader's distance-based disulfide
        tr.save_pdb(fn, ter=bool(op[2]))                  # detection (not modelled) finds nothing
        loaded = md.load(fn)
        law("pdb_frames_come_back", loaded.n_frames == frames, "%d -> %d" % (frames, loaded.n_frames))
        tops.append(loaded.topology)
        k = every_other(t.n_atoms)
        law_try("pdb_load_atom_indices_is_subset",
                lambda: (dump(md.load(fn, atom_indices=k).topology) == dump(md.load(fn).topology.subset(k)), ""))
    else:
        raise SystemExit("unknown op %r" % (op,))


CREATES = {"new", "copy", "subset", "join", "pickle", "df", "h5", "pdb"}
_RES_REPL = None


def res_replacements():
    global _RES_REPL
    if _RES_REPL is None:
        from mdtraj.formats.pdb.pdbfile import PDBTrajectoryFile
        PDBTrajectoryFile._loadNameReplacementTables()
        _RES_REPL = set(PDBTrajectoryFile._residueNameReplacements) | set(PDBTrajectoryFile._atomNameReplacements)
    return _RES_REPL


_STD_BOND_ATOMS = None


def std_bond_atoms():
    """residue name -> atom names that create_standard_bonds would bond (from residues.xml)."""
    global _STD_BOND_ATOMS
    if _STD_BOND_ATOMS is None:
        import xml.etree.ElementTree as etree
        import mdtraj.formats.pdb as pdbmod
        tree = etree.parse(os.path.join(os.path.dirname(pdbmod.__file__), "data", "residues.xml"))
        _STD_BOND_ATOMS = {}
        for res in tree.getroot().findall("Residue"):
            names = set()
            for b in res.findall("Bond"):
                names.update(b.attrib[k].lstrip("-+") for k in ("from", "to"))
            _STD_BOND_ATOMS[res.attrib["name"]] = names
    return _STD_BOND_ATOMS


def pdb_ok(t):
    """Guards of the PDB runs of the model stream (see ASSUMPTIONS in harness/props/C04.py).  The model covers
    the reader's standard bonds (residues.xml) but not its renaming tables (pdbNames.xml): a residue may carry a
    standard name when it is the canonical spelling and every atom name is either unknown to the renaming table
    of that residue or its own canonical spelling."""
    from mdtraj.formats.pdb.pdbfile import PDBTrajectoryFile
    if t.n_atoms < 1:
        return False
    res_replacements()
    rrep, arep = PDBTrajectoryFile._residueNameReplacements, PDBTrajectoryFile._atomNameReplacements
    for r in t.residues:
        name = str(r.name)
        if r.n_atoms == 0:
            return False
        short = name[:3]
        if short in rrep or short in arep or short.strip() in rrep:
            if len(name) > 3 or rrep.get(short, short) != short:
                return False
            table = arep.get(short, {})
            for a in r.atoms:
                an = str(a.name)
                if len(an) > 4 or table.get(an, an) != an:
                    return False
        if not (-9998 < int(r.resSeq) < 9999 or int(r.resSeq) == 10005):
            return False
    return True


def pick(f, n):
    return min(int(f * n), n - 1)


def concretise(tops, op):
    """Abstract op (fractions) -> concrete op for the live objects, or None when its guard fails."""
    k = op[0]
    s = pick(op[1], len(tops))
    t = tops[s]
    if k == "hash":
        return ["hash", s]
    if k == "copy":
        if op[2] == "traj_slice" and t.n_atoms < 1:
            return ["copy", s, "copy"]
        return ["copy", s, op[2]]
    if k == "subset":
        bits = op[2]
        keep = [i for i in range(t.n_atoms) if bits[i % len(bits)]]
        how = op[3]
        order = op[4] if len(op) > 4 else "asc"
        if order == "desc":
            keep = keep[::-1]
        elif order == "dup":                       # unsorted, with repeated indices
            keep = keep[1::2] + keep[::2] + keep[:2]
        if how == "atom_slice" and (t.n_atoms < 1 or not keep or order != "asc"):
            how = "array"
        return ["subset", s, keep, how]
    if k == "join":
        s2 = pick(op[2], len(tops))
        how = op[4]
        if how == "stack" and (t.n_atoms < 1 or tops[s2].n_atoms < 1):
            how = "join"
        return ["join", s, s2, bool(op[3]), how]
    if k == "pickle":
        how = op[2] if len(op) > 2 else "p2"
        if how == "traj" and t.n_atoms < 1:
            how = "phigh"
        return ["pickle", s, how]
    def other(frac, need_same_natoms, ok=lambda u: True):
        """slot of the topology stored first (None: plain round trip); prefers a different slot"""
        if frac is None:
            return None
        cand = [i for i, u in enumerate(tops) if u.n_atoms >= 1 and ok(u) and (not need_same_natoms or u.n_atoms == t.n_atoms)]
        if not cand:
            return None
        pref = [i for i in cand if i != s] or cand
        return pref[pick(frac, len(pref))]
    if k == "df":
        if t.n_atoms < 1:
            return None
        return ["df", s, other(op[2] if len(op) > 2 else None, False)]
    if k == "h5":
        if t.n_atoms < 1:
            return None
        mode = op[3] if len(op) > 3 else "w"
        first = other(op[2] if len(op) > 2 else None, mode == "a")
        return ["h5", s, first, mode, int(op[4]) if len(op) > 4 else 1]
    if k == "pdb":
        if not pdb_ok(t):
            return None
        return ["pdb", s, bool(op[2]), other(op[3] if len(op) > 3 else None, False, pdb_ok), int(op[4]) if len(op) > 4 else 1]
    if k == "add_chain":
        return ["add_chain", s, op[2]]
    if k == "add_residue":
        if t.n_chains < 1:
            return None
        return ["add_residue", s, pick(op[2], t.n_chains), op[3], op[4], op[5]]
    if k == "add_atom":
        if t.n_residues < 1:
            return None
        return ["add_atom", s, pick(op[2], t.n_residues), op[3], op[4], op[5]]
    if k == "add_bond":
        if t.n_atoms < 2:
            return None
        i = pick(op[2], t.n_atoms)
        j = pick(op[3], t.n_atoms - 1)
        if j >= i:
            j += 1
        return ["add_bond", s, i, j, op[4], op[5]]
    if k == "insert_atom":
        if t.n_residues < 1:
            return None
        rp = pick(op[2], t.n_residues)
        index = None if op[5] is None else pick(op[5], t.n_atoms + 1)
        rindex = None if op[6] is None else pick(op[6], t.residue(rp).n_atoms + 1)
        return ["insert_atom", s, rp, op[3], op[4], index, rindex, op[7]]
    if k == "delete":
        if t.n_atoms < 1:
            return ["delete", s, 0]          # raises IndexError before touching anything
        return ["delete", s, pick(op[2], t.n_atoms)]
    raise SystemExit("unknown abstract op %r" % (op,))


def run_case(case, tmp):
    tops = []
    status = []
    errors = []
    done = []
    del LAWS[:]
    todo = [(op, False) for op in case["ops"]] + [(op, True) for op in case.get("tail", [])]
    for op, abstract in todo:
        if abstract:
            op = concretise(tops, op) if tops else None
            if op is None:
                continue
        done.append(op)
        n0 = len(tops)
        if op[0] == "hash":          # observer: no status entry, never changes the registers
            try:
                apply(tops, op, tmp)
            except Exception as e:
                law("hash_observer_raises", False, "%s: %s" % (type(e).__name__, str(e)[:120]))
            continue
        try:
            apply(tops, op, tmp)
            status.append(False)
        except SystemExit:
            raise
        except Exception as e:  # the op raised: existing objects stay, a creating op yields an empty topology
            status.append(True)
            errors.append("%s: %s: %s" % (op[0], type(e).__name__, str(e)[:80]))
            del tops[n0:]
            if op[0] in CREATES:
                tops.append(md.Topology())
    dumps = [dump(t) for t in tops]
    eqm = [[bool(a == b) for b in tops] for a in tops]
    hm = [[bool(hash(a) == hash(b)) for b in tops] for a in tops]
    # equal topologies hash equal, whatever was hashed earlier in the history: a fresh copy of every register
    for t in tops:
        def fresh(t=t):
            c = t.copy()
            if not (t == c and c == t):
                return True, ""          # (copy preserving == is the model's business)
            return hash(t) == hash(c), "hash(t)=%d hash(t.copy())=%d" % (hash(t), hash(c))
        law_try("hash_equals_hash_of_fresh_copy", fresh)
    for i, a in enumerate(tops):
        for b in tops[i + 1:]:
            if a == b:
                law("eq_implies_hash_at_end", hash(a) == hash(b), "registers == but hash differently")
    try:
        check_small_classes(tops)
    except Exception as e:
        law("small_classes_raise", False, "%s: %s" % (type(e).__name__, str(e)[:120]))
    return {"ops": done, "obs": [status, dumps, eqm, hm], "errors": errors, "laws": list(LAWS)}


# ---------------------------------------------------------------------------- PDB bond-graph oracle
STD_WRITER = ["ALA", "ASN", "CYS", "GLU", "HIS", "LEU", "MET", "PRO", "THR", "TYR", "ARG", "ASP", "GLN", "GLY", "ILE",
              "LYS", "PHE", "SER", "TRP", "VAL", "A", "G", "C", "U", "I", "DA", "DG", "DC", "DT", "DI", "HOH"]


def pdb_tables(std_names, hetero_candidates):
    """Atom names of standard residues taken from mdtraj's own residues.xml (the names create_standard_bonds
    knows), and the hetero residue names that the reader will not rename."""
    import xml.etree.ElementTree as etree
    import mdtraj.formats.pdb as pdbmod
    tree = etree.parse(os.path.join(os.path.dirname(pdbmod.__file__), "data", "residues.xml"))
    atoms = {}
    for res in tree.getroot().findall("Residue"):
        if res.attrib["name"] in std_names:
            names = []
            for b in res.findall("Bond"):
                for k in ("from", "to"):
                    n = b.attrib[k]
                    if not n.startswith(("-", "+")) and n not in names:
                        names.append(n)
            atoms[res.attrib["name"]] = names
    repl = res_replacements()
    hetero = [h for h in hetero_candidates if h not in repl and h not in STD_WRITER and h not in atoms]
    return {"std_atoms": atoms, "hetero_ok": hetero}


def graph_of(t):
    return sorted({tuple(sorted((int(b.atom1.index), int(b.atom2.index)))) for b in t.bonds})


def run_pdbgraph(spec, tmp):
    """Build the topology of the spec, add the standard bonds (public create_standard_bonds) and the listed
    extra bonds, save to .pdb, load, and report both bond graphs and both atom listings."""
    t = md.Topology()
    for ch in spec["chains"]:
        c = t.add_chain(ch["id"]) if ch["id"] is not None else t.add_chain()
        for name, resseq, anames in ch["res"]:
            r = t.add_residue(name, c, resseq)
            for an in anames:
                sym = an if an in ("ZN", "NA", "CL") else an[0]
                t.add_atom(an, elem.get_by_symbol(sym.capitalize() if len(sym) == 2 else sym), r)
    if spec.get("std_bonds", True):
        t.create_standard_bonds()
    for i, j in spec["bonds"]:
        t.add_bond(t.atom(i), t.atom(j))
    xyz = np.zeros((1, t.n_atoms, 3), dtype=np.float32)
    xyz[0, :, 0] = np.arange(t.n_atoms) * 1.0          # 1 nm apart: no distance-based disulfide detection on load
    fn = os.path.join(tmp, "g.pdb")
    md.Trajectory(xyz, t).save_pdb(fn, ter=bool(spec["ter"]))
    u = md.load_pdb(fn, standard_names=bool(spec["standard_names"])).topology
    listing = lambda top: [[str(a.name), str(a.residue.name), int(a.residue.resSeq), int(a.residue.chain.index)] for a in top.atoms]
    return {"before": graph_of(t), "after": graph_of(u), "atoms_before": listing(t), "atoms_after": listing(u)}


def main():
    payload = json.load(sys.stdin)
    if "pdb_tables" in payload or "pdbgraph" in payload:
        out = {}
        if "pdb_tables" in payload:
            out["tables"] = pdb_tables(*payload["pdb_tables"])
        if "pdbgraph" in payload:
            tmp = tempfile.mkdtemp(prefix="c04pdb-", dir=os.getcwd())
            try:
                res = []
                for spec in payload["pdbgraph"]:
                    try:
                        res.append(run_pdbgraph(spec, tmp))
                    except Exception as e:
                        res.append({"error": "%s: %s" % (type(e).__name__, str(e)[:200])})
                out["pdbgraph"] = res
            finally:
                shutil.rmtree(tmp, ignore_errors=True)
        print(json.dumps(out))
        return
    tmp = tempfile.mkdtemp(prefix="c04impl-", dir=os.getcwd())
    try:
        out = [run_case(c, tmp) for c in payload["cases"]]
    finally:
        shutil.rmtree(tmp, ignore_errors=True)
    info = {}
    if payload.get("tables"):
        from mdtraj.formats.pdb.pdbfile import PDBTrajectoryFile
        PDBTrajectoryFile._loadNameReplacementTables()
        info["res_repl"] = sorted(PDBTrajectoryFile._residueNameReplacements)
    print(json.dumps({"results": out, "info": info, "law_counts": LAW_COUNTS}))


if __name__ == "__main__":
    main()
