"""Implementation-side runner for C06: runs mdtraj's public RMSD API on arrays prepared by the harness.

stdin : {"inputs": "<npz path>", "outputs": "<npz path>", "cases": [{"id": k, "ops": [op, ...]}, ...]}
        arrays in the input npz:  c<k>_target (F,n,3) float32,  c<k>_ref (G,m,3) float32
        op = {"op": "rmsd", "frame", "atom_indices", "ref_atom_indices", "parallel", "precentered"}
           | {"op": "superpose", "frame", "atom_indices", "ref_atom_indices", "parallel"}
           | {"op": "rmsf", "frame", "atom_indices", "parallel", "ref": "self"|"other"|"none"}
           | {"op": "lprmsd", "frame", "atom_indices", "permute_groups", "parallel"}
stdout: last line {"ok": true, "errors": {"c<k>_o<j>": "ExcName: text"}}; result arrays c<k>_o<j> in the output npz.
Only mdtraj is exercised here; every comparison happens in harness/props/C06.py.
"""
import json
import sys
import warnings

import numpy as np

warnings.filterwarnings("ignore")
import mdtraj as md  # noqa: E402


def make_traj(xyz):
    xyz = np.array(xyz, dtype=np.float32, copy=True)
    top = md.Topology()
    ch = top.add_chain()
    for _ in range(xyz.shape[1]):
        r = top.add_residue("ALA", ch)
        top.add_atom("CA", md.element.carbon, r)
    return md.Trajectory(xyz, top)


def run_op(op, target, ref):
    kind = op["op"]
    ai = op.get("atom_indices")
    ri = op.get("ref_atom_indices")
    par = bool(op.get("parallel", True))
    frame = int(op.get("frame", 0))
    t = make_traj(target)
    same = op.get("ref") == "self"
    r = t if same else make_traj(ref)
    if kind == "rmsd":
        if op.get("precentered"):
            t.center_coordinates()
            if not same:
                r.center_coordinates()
        return np.asarray(md.rmsd(t, r, frame, atom_indices=ai, ref_atom_indices=ri, parallel=par,
                                  precentered=bool(op.get("precentered", False))), dtype=np.float64)
    if kind == "superpose":
        out = t.superpose(r, frame, atom_indices=ai, ref_atom_indices=ri, parallel=par)
        assert out is t
        return np.asarray(t.xyz, dtype=np.float32)
    if kind == "rmsf":
        refobj = None if op.get("ref") == "none" else r
        return np.asarray(md.rmsf(t, refobj, frame, atom_indices=ai, parallel=par), dtype=np.float64)
    if kind == "lprmsd":
        return np.asarray(md.lprmsd(t, r, frame, atom_indices=ai, permute_groups=op.get("permute_groups"),
                                    parallel=par), dtype=np.float64)
    raise ValueError("unknown op %r" % kind)


def main():
    req = json.loads(sys.stdin.read())
    data = np.load(req["inputs"])
    out, errors = {}, {}
    for c in req["cases"]:
        k = c["id"]
        target = data["c%d_target" % k]
        ref = data["c%d_ref" % k]
        for j, op in enumerate(c["ops"]):
            key = "c%d_o%d" % (k, j)
            try:
                out[key] = run_op(op, target, ref)
            except Exception as e:  # reported to the harness, never swallowed
                errors[key] = "%s: %s" % (type(e).__name__, str(e)[:300])
    np.savez(req["outputs"], **out)
    print(json.dumps({"ok": True, "errors": errors}))


if __name__ == "__main__":
    main()
