"""Implementation-side runner for C06: runs mdtraj's public RMSD API on arrays prepared by the harness.

stdin : {"inputs": "<npz path>", "outputs": "<npz path>", "cases": [{"id": k, "ops": [op, ...]}, ...]}
        arrays in the input npz:  c<k>_target (F,n,3) float32,  c<k>_ref (G,m,3) float32
        op = {"op": "rmsd", "frame", "atom_indices", "ref_atom_indices", "parallel", "precentered"}
           | {"op": "superpose", "frame", "atom_indices", "ref_atom_indices", "parallel"}
           | {"op": "rmsf", "frame", "atom_indices", "parallel", "ref": "self"|"other"|"none"}
           | {"op": "lprmsd", "frame", "atom_indices", "permute_groups", "parallel"}
           | {"op": "invalid", "call": "rmsd"|"rmsf"|"superpose", ...same arguments}   (must raise)
           | {"op": "history", "steps": [...], "ref": "self"|"other", "ref_steps": [...], "frame", "parallel"}
             (steps: center | center_mass | join | superpose | slice | atom_slice | xyz_assign | inplace_partial | view_superpose | inplace_shift; extra arrays
              c<k>_o<j>_nopre/_xyz/_rxyz/_flags)
stdout: last line {"ok": true, "errors": {"c<k>_o<j>": "ExcName: text"}}; result arrays c<k>_o<j> in the output npz.
Only mdtraj is exercised here; every comparison happens in harness/props/C06.py.
"""
import json
import sys
import warnings

import numpy as np

warnings.filterwarnings("ignore")
import mdtraj as md  # noqa: E402


def make_traj(xyz):
    xyz = np.array(xyz, dtype=np.float32, copy=True)
    top = md.Topology()
    ch = top.add_chain()
    for i in range(xyz.shape[1]):
        r = top.add_residue("ALA", ch)
        # unequal masses (S 32, H 1, C 12): the centre of mass differs from the centroid; RMSD itself ignores masses
        top.add_atom("CA", (md.element.sulfur, md.element.hydrogen, md.element.carbon)[i % 3], r)
    return md.Trajectory(xyz, top)


def run_op(op, target, ref):
    kind = op["op"]
    ai = op.get("atom_indices")
    ri = op.get("ref_atom_indices")
    par = bool(op.get("parallel", True))
    frame = int(op.get("frame", 0))
    t = make_traj(target)
    same = op.get("ref") == "self"
    r = t if same else make_traj(ref)
    if kind == "rmsd":
        if op.get("precentered"):
            t.center_coordinates()
            if not same:
                r.center_coordinates()
        return np.asarray(md.rmsd(t, r, frame, atom_indices=ai, ref_atom_indices=ri, parallel=par,
                                  precentered=bool(op.get("precentered", False))), dtype=np.float64)
    if kind == "superpose":
        out = t.superpose(r, frame, atom_indices=ai, ref_atom_indices=ri, parallel=par)
        assert out is t
        return np.asarray(t.xyz, dtype=np.float32)
    if kind == "rmsf":
        refobj = None if op.get("ref") == "none" else r
        return np.asarray(md.rmsf(t, refobj, frame, atom_indices=ai, parallel=par), dtype=np.float64)
    if kind == "lprmsd":
        return np.asarray(md.lprmsd(t, r, frame, atom_indices=ai, permute_groups=op.get("permute_groups"),
                                    parallel=par), dtype=np.float64)
    if kind == "history":
        return run_history(op, target, ref)
    if kind == "invalid":
        # arguments the documentation excludes: the call must raise; 1 = raised, 0 = returned something
        call = {"rmsd": lambda: md.rmsd(t, r, frame, atom_indices=ai, ref_atom_indices=ri, parallel=par),
                "rmsf": lambda: md.rmsf(t, r, frame, atom_indices=ai, ref_atom_indices=ri, parallel=par),
                "superpose": lambda: t.superpose(r, frame, atom_indices=ai, ref_atom_indices=ri, parallel=par)}[op["call"]]
        try:
            call()
        except (ValueError, IndexError, TypeError) as e:
            return {"value": np.array([1.0]), "exc": np.array([ord(ch) for ch in type(e).__name__], dtype=np.int64)}
        return np.array([0.0])
    raise ValueError("unknown op %r" % kind)


CENTROIDS = []      # [largest |centroid component| after, largest |coordinate| before, traces present] per center_coordinates() call


def apply_steps(t, steps, ref):
    """Short history of public-API operations on a Trajectory (and one user edit, "inplace_shift")."""
    for st in steps:
        k = st[0]
        if k == "center":
            before = float(np.abs(np.asarray(t.xyz, dtype=np.float64)).max()) if t.n_frames else 0.0
            t.center_coordinates()
            if t.n_frames:
                after = float(np.abs(np.asarray(t.xyz, dtype=np.float64).mean(1)).max())
                CENTROIDS.append([after, before, 1.0 if t._rmsd_traces is not None else 0.0])
        elif k == "superpose":
            _k, centred, frame, ai, ri, par = st
            r = make_traj(ref)
            if centred:
                r.center_coordinates()
            out = t.superpose(r, frame, atom_indices=ai, ref_atom_indices=ri, parallel=bool(par))
            assert out is t
        elif k == "center_mass":
            t.center_coordinates(mass_weighted=True)
        elif k == "join":
            # a second piece that continues this trajectory: its first frame repeats the last one (within 5e-4 nm) or not
            _k, discard, overlap, centre_piece, nextra, seed = st
            rs = np.random.RandomState(seed)
            base = np.array(t.xyz, dtype=np.float64, copy=True)
            first = base[-1] + (rs.uniform(-5e-4, 5e-4, base[-1].shape) if overlap else 0.05 * rs.randn(*base[-1].shape))
            rest = [base[rs.randint(len(base))] + 0.05 * rs.randn(*base[-1].shape) for _ in range(nextra)]
            piece = md.Trajectory(np.array([first] + rest, dtype=np.float32), t.topology.copy())
            if centre_piece:
                piece.center_coordinates()
            t = t.join(piece, discard_overlapping_frames=bool(discard))
        elif k == "slice":
            t = t[slice(st[1], st[2], st[3])]
        elif k == "atom_slice":
            t = t.atom_slice(st[1], inplace=bool(st[2])) or t
        elif k == "xyz_assign":
            t.xyz = t.xyz + np.asarray(st[1], dtype=np.float32)
        elif k == "inplace_partial":        # write through the array the getter returns: first st[1] atoms move, cache untouched
            t.xyz[:, :int(st[1])] += np.asarray(st[2], dtype=np.float32)
        elif k == "view_superpose":         # API only: a no-copy slice shares memory; superposing it moves the parent's frames
            v = t.slice(slice(st[1], st[2]), copy=False)
            v.superpose(make_traj(ref), int(st[3]) % len(ref))
        elif k == "inplace_shift":          # user edit behind the back of the object (documented as unsafe)
            t.xyz[:] += np.asarray(st[1], dtype=np.float32)
        else:
            raise ValueError("unknown step %r" % (st,))
    return t


def run_history(op, target, ref):
    """rmsd(..., precentered=True) on trajectories that reached their state through a history, next to the same
    call with precentered=False on fresh copies of the final coordinates."""
    del CENTROIDS[:]
    t = apply_steps(make_traj(target), op["steps"], ref)
    if op.get("ref") == "self":
        r = t
    else:
        r = apply_steps(make_traj(ref), op.get("ref_steps", []), ref)
    frame = int(op["frame"]) % r.n_frames          # joins change the number of frames
    txyz = np.array(t.xyz, dtype=np.float32, copy=True)
    rxyz = np.array(r.xyz, dtype=np.float32, copy=True)
    flags = np.array([t._rmsd_traces is not None, r._rmsd_traces is not None, frame], dtype=np.int64)
    pre = np.asarray(md.rmsd(t, r, frame, parallel=bool(op.get("parallel", True)), precentered=True), dtype=np.float64)
    t2 = make_traj(txyz)
    r2 = t2 if op.get("ref") == "self" else make_traj(rxyz)
    nopre = np.asarray(md.rmsd(t2, r2, frame, parallel=bool(op.get("parallel", True)), precentered=False), dtype=np.float64)
    cen = np.array(CENTROIDS, dtype=np.float64).reshape(-1, 3)
    return {"value": pre, "nopre": nopre, "xyz": txyz, "rxyz": rxyz, "flags": flags, "cen": cen}


def main():
    req = json.loads(sys.stdin.read())
    data = np.load(req["inputs"])
    out, errors = {}, {}
    for c in req["cases"]:
        k = c["id"]
        target = data["c%d_target" % k]
        ref = data["c%d_ref" % k]
        for j, op in enumerate(c["ops"]):
            key = "c%d_o%d" % (k, j)
            try:
                res = run_op(op, target, ref)
                if isinstance(res, dict):
                    out[key] = res.pop("value")
                    for nm, arr in res.items():
                        out[key + "_" + nm] = arr
                else:
                    out[key] = res
            except Exception as e:  # reported to the harness, never swallowed
                errors[key] = "%s: %s" % (type(e).__name__, str(e)[:300])
    np.savez(req["outputs"], **out)
    print(json.dumps({"ok": True, "errors": errors}))


if __name__ == "__main__":
    main()
