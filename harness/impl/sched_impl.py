"""Implementation-side runner for C08: per-frame analyses of mdtraj, each computed
  (A) on the whole trajectory, (B) on every frame alone, (C) on a permuted trajectory,
and hashed per frame (sha256 of the raw bytes) so that the harness can compare bit-for-bit across
OMP settings (the environment is set by the caller for this whole process).

stdin : {"trajs": [spec...], "analyses": [name...], "perm_seed": int, "repeats": int}
   spec = {"id": str, "kind": "file", "path": p, "frames": [i...], "box": bool}
        | {"id": str, "kind": "random", "n_atoms": n, "n_frames": F, "seed": s, "box": bool}
stdout: last line {"results": {traj_id: {analysis: {"company": [hash per frame], "alone": [...], "perm": [hash per
         ORIGINAL frame index], "repeat_equal": bool, "dmax_alone": float, "dmax_perm": float, "err": str?,
         "values": [[float...]...] (only for the sasa analyses)}}},
        "threads_seen": int}
"""
import hashlib
import json
import sys

import numpy as np


def h(x):
    """Hash of one frame's result: arrays by dtype/shape/bytes, sparse matrices by their three arrays, lists recursively."""
    m = hashlib.sha256()

    def feed(v):
        if hasattr(v, "indptr") and hasattr(v, "indices"):
            v = v.tocsr()
            v.sort_indices()
            feed(np.asarray(v.indptr)); feed(np.asarray(v.indices)); feed(np.asarray(v.data))
        elif isinstance(v, (list, tuple)):
            m.update(b"[%d" % len(v))
            for e in v:
                feed(e)
        elif isinstance(v, str):
            m.update(v.encode())
        else:
            a = np.ascontiguousarray(v)
            m.update(str(a.dtype).encode() + str(a.shape).encode())
            m.update(a.tobytes())
    feed(x)
    return m.hexdigest()[:16]


def num(x):
    """Flat float64 view of a frame result for the diagnostic max-difference (not used for the verdict)."""
    try:
        if hasattr(x, "toarray"):
            x = x.toarray()
        a = np.asarray(x)
        if a.dtype.kind in "fiu":
            return a.astype(np.float64).ravel()
    except Exception:
        pass
    return None


def build_rare(md, spec):
    """>= 24 copies of one protein frame (tiny per-frame jitter) in which a few hydrogen bonds exist in only 1-2 frames:
    in every other frame the bonded hydrogen is reflected through its donor and the acceptor is pushed 0.3 nm away.  Anything that
    prefilters or aggregates over the frames of a call (frequency thresholds, candidate lists) sees these as rare events."""
    base = md.load(spec["path"])[spec["frame"]]
    bonds = md.wernet_nilsson(base, periodic=False)[0]
    rng = np.random.RandomState(spec["seed"])
    F = spec["n_frames"]
    pick = bonds[rng.choice(len(bonds), size=min(4, len(bonds)), replace=False)] if len(bonds) else np.zeros((0, 3), dtype=int)
    event_frames = sorted(rng.choice(np.arange(2, F - 2), size=spec.get("n_event_frames", 2), replace=False).tolist())
    xyz = np.repeat(base.xyz, F, axis=0).astype(np.float64)
    for f in range(F):
        if f not in event_frames:
            for d, hh, a in pick:
                xyz[f, hh] = 2 * xyz[f, d] - xyz[f, hh]            # H...A distance and D-H...A angle out of range
                u = xyz[f, a] - xyz[f, d]
                xyz[f, a] = xyz[f, a] + 0.3 * u / np.linalg.norm(u)   # D...A distance out of range as well
    xyz += rng.normal(0, 2e-4, size=xyz.shape)
    return md.Trajectory(xyz.astype(np.float32), base.topology)


def build(md, spec):
    if spec["kind"] == "rare":
        t = build_rare(md, spec)
    elif spec["kind"] == "file":
        t = md.load(spec["path"])
        t = t[spec["frames"]]
    else:
        rng = np.random.RandomState(spec["seed"])
        n, F = spec["n_atoms"], spec["n_frames"]
        top = md.Topology()
        ch = top.add_chain()
        from mdtraj.core import element as E
        for i in range(n):
            if i % 4 == 0:
                res = top.add_residue("ALA", ch)
            top.add_atom(["N", "CA", "C", "O"][i % 4], [E.nitrogen, E.carbon, E.carbon, E.oxygen][i % 4], res)
        if spec.get("cell") or spec.get("cell_series") or spec.get("cell_angles"):
            base = rng.uniform(-1.0, 4.5, size=(1, n, 3))      # atoms reach well outside the cell: every image matters
        else:
            base = rng.uniform(0, 2.0, size=(1, n, 3))
        xyz = (base + rng.normal(0, 0.15, size=(F, n, 3))).astype(np.float32)
        t = md.Trajectory(xyz, top)
    if spec.get("cell_angles"):
        # cells given as LENGTHS and ANGLES (Trajectory keeps those and converts to box vectors on every access, for all the
        # frames it holds at once) whose size varies by a factor ~10 and whose angles are exactly 90, a hair off 90
        # (tilt component L*cos(angle) of 1e-6 .. 3e-5 nm: right where "almost zero" cut-offs sit), or clearly oblique:
        #   s small + near-90   L large (20-40 nm) + exactly 90   l large + near-90   X small oblique   O small rectangular
        # anything in the conversion that is decided from all frames together (a tolerance scaled by the largest cell, a
        # kind decided once) changes a frame's box vectors with its company
        F = t.n_frames
        rng = np.random.RandomState(spec.get("cell_seed", 5))
        pat = spec["cell_angles"]
        lo, hi = spec.get("cell_size", [2.6, 3.4])
        Ls = np.zeros((F, 3), dtype=np.float64)
        An = np.full((F, 3), 90.0, dtype=np.float64)
        for f in range(F):
            k = pat[f % len(pat)]
            if k in "Ll":
                Ls[f] = rng.uniform(20.0, 40.0, size=3)
            else:
                Ls[f] = rng.uniform(lo, hi, size=3)
            if k in "sl":
                which = rng.rand(3) < 0.6
                if not which.any():
                    which[rng.randint(3)] = True
                delta = 10.0 ** rng.uniform(np.log10(3e-5), np.log10(6e-4), size=3) * rng.choice([-1.0, 1.0], size=3)
                An[f] = 90.0 + np.where(which, delta, 0.0)
            elif k == "X":
                An[f] = rng.uniform(75.0, 105.0, size=3)
        t.unitcell_lengths = Ls.astype(np.float32)
        t.unitcell_angles = An.astype(np.float32)
    elif spec.get("cell_series") == "one-component":
        # a sheared cell in which exactly ONE of the six independent components of the box matrix changes from a frame to
        # the next (a_x, b_x, b_y, c_x, c_y, c_z in turn) while all others keep their value: "has the box changed?"
        # shortcuts that look at part of the box, and anything cached from the previous frame, show up
        F = t.n_frames
        rng = np.random.RandomState(spec.get("cell_seed", 5))
        V = np.zeros((F, 3, 3), dtype=np.float64)
        base = np.array([[3.1, 0.0, 0.0], [0.9, 3.3, 0.0], [-0.7, 1.1, 3.5]])
        comps = [(2, 2), (1, 1), (2, 1), (2, 0), (1, 0), (0, 0)]
        rng.shuffle(comps)
        cur = base.copy()
        for f in range(F):
            if f > 0 and not spec.get("cell_constant"):
                i, j = comps[(f - 1) % 6]
                cur = cur.copy()
                cur[i, j] += rng.choice([-1, 1]) * rng.uniform(0.25, 0.5)
            V[f] = cur
        t.unitcell_vectors = V.astype(np.float32)
    elif spec.get("cell"):
        # per-frame cell that varies in KIND as well as size: 'O' = rectangular (exact zeros off the diagonal),
        # 'T' = sheared; pattern is cycled over the frames.  Coordinates deliberately reach outside the cell.
        F = t.n_frames
        rng = np.random.RandomState(spec.get("cell_seed", 5))
        V = np.zeros((F, 3, 3), dtype=np.float32)
        pat = spec["cell"]
        lo, hi = spec.get("cell_size", [2.4, 4.2])
        for f in range(F):
            L = rng.uniform(lo, hi, size=3)
            V[f] = np.diag(L).astype(np.float32)
            if pat[f % len(pat)] == "T":
                V[f, 1, 0] = rng.uniform(0.2, 0.45) * L[0] * rng.choice([-1, 1])
                V[f, 2, 0] = rng.uniform(0.1, 0.45) * L[0] * rng.choice([-1, 1])
                V[f, 2, 1] = rng.uniform(0.1, 0.45) * L[1] * rng.choice([-1, 1])
        t.unitcell_vectors = V
    elif spec.get("box"):
        F = t.n_frames
        rng = np.random.RandomState(7)
        L = np.tile(np.array([[3.0, 3.2, 3.4]], dtype=np.float32), (F, 1)) + rng.uniform(0, 0.2, size=(F, 3)).astype(np.float32)
        t.unitcell_lengths = L
        t.unitcell_angles = np.tile(np.array([[90.0, 90.0, 90.0]], dtype=np.float32), (F, 1))
    elif spec["kind"] == "random":
        t.unitcell_vectors = None
    return t


def _centered(t):
    t.center_coordinates()
    return t


def analyses(md, t0):
    """name -> function(traj) -> list with one entry per frame.  Index arrays are fixed from the first trajectory."""
    n = t0.n_atoms
    rng = np.random.RandomState(11)
    pairs = np.array([[i, j] for i in range(0, n, max(1, n // 12)) for j in range(i + 1, n, max(1, n // 9))][:60], dtype=np.int32)
    trip = rng.randint(0, n, size=(20, 3)).astype(np.int32)
    trip = trip[(trip[:, 0] != trip[:, 1]) & (trip[:, 1] != trip[:, 2]) & (trip[:, 0] != trip[:, 2])]
    quad = np.array([[i, i + 1, i + 2, i + 3] for i in range(0, max(1, n - 3), max(1, n // 15))][:20], dtype=np.int32)
    sub = np.arange(0, n, 2)
    query = np.arange(0, n, max(1, n // 6))[:6]
    ref0 = t0[0]

    class _Ref:      # md.rmsd / superpose centre target AND reference in place (documented): hand out fresh copies
        def __getitem__(self, _):
            return ref0.slice(slice(None), copy=True)
    refs = _Ref()
    has_box = t0.unitcell_lengths is not None
    res_pairs = np.array([[i, j] for i in range(t0.n_residues) for j in range(i + 3, t0.n_residues)][:15])
    A = {}
    A["distances"] = lambda t: list(md.compute_distances(t, pairs, periodic=False))
    A["displacements"] = lambda t: list(md.compute_displacements(t, pairs, periodic=False))
    A["angles"] = lambda t: list(md.compute_angles(t, trip, periodic=False))
    A["dihedrals"] = lambda t: list(md.compute_dihedrals(t, quad, periodic=False))
    if has_box:
        # the cell itself, as every periodic analysis reads it
        A["unitcell_vectors"] = lambda t: list(t.unitcell_vectors)
        A["unitcell_volumes"] = lambda t: list(t.unitcell_volumes)
        A["displacements_pbc"] = lambda t: list(md.compute_displacements(t, pairs, periodic=True))
        A["distances_pbc_noopt"] = lambda t: list(md.compute_distances(t, pairs, periodic=True, opt=False))
        A["displacements_pbc_noopt"] = lambda t: list(md.compute_displacements(t, pairs, periodic=True, opt=False))
        A["angles_pbc_noopt"] = lambda t: list(md.compute_angles(t, trip, periodic=True, opt=False))
        A["dihedrals_pbc_noopt"] = lambda t: list(md.compute_dihedrals(t, quad, periodic=True, opt=False))
        A["density"] = lambda t: list(md.density(t))
        A["distances_pbc"] = lambda t: list(md.compute_distances(t, pairs, periodic=True))
        A["angles_pbc"] = lambda t: list(md.compute_angles(t, trip, periodic=True))
        A["dihedrals_pbc"] = lambda t: list(md.compute_dihedrals(t, quad, periodic=True))
    A["rmsd"] = lambda t: list(md.rmsd(t, refs[0], 0))
    A["rmsd_serial"] = lambda t: list(md.rmsd(t, refs[0], 0, parallel=False))
    A["rmsd_subset"] = lambda t: list(md.rmsd(t, refs[0], 0, atom_indices=sub))
    A["superpose"] = lambda t: list(md.Trajectory(t.xyz.copy(), t.topology).superpose(refs[0], 0).xyz)
    A["superpose_serial"] = lambda t: list(md.Trajectory(t.xyz.copy(), t.topology).superpose(refs[0], 0, parallel=False).xyz)
    A["superpose_subset"] = lambda t: list(md.Trajectory(t.xyz.copy(), t.topology).superpose(refs[0], 0, atom_indices=sub).xyz)
    A["sasa_atom"] = lambda t: list(md.shrake_rupley(t, n_sphere_points=24, mode="atom"))
    A["sasa_residue"] = lambda t: list(md.shrake_rupley(t, n_sphere_points=24, mode="residue"))
    A["neighbors"] = lambda t: list(md.compute_neighbors(t, 0.45, query, periodic=has_box))
    A["neighborlist"] = lambda t: [list(md.compute_neighborlist(t, 0.45, frame=i, periodic=has_box))
                                   for i in range(t.n_frames)]
    masses = np.array([a.element.mass if a.element is not None else 1.0 for a in t0.topology.atoms])
    hay = np.arange(1, n, 3)
    A["rg_masses"] = lambda t: list(md.compute_rg(t, masses=masses))
    A["center_of_geometry"] = lambda t: list(md.compute_center_of_geometry(t))
    A["gyration_tensor"] = lambda t: list(md.compute_gyration_tensor(t))
    A["principal_moments"] = lambda t: list(md.principal_moments(t))
    A["asphericity"] = lambda t: list(md.asphericity(t))
    A["distances_noopt"] = lambda t: list(md.compute_distances(t, pairs, periodic=False, opt=False))
    A["displacements_noopt"] = lambda t: list(md.compute_displacements(t, pairs, periodic=False, opt=False))
    A["angles_noopt"] = lambda t: list(md.compute_angles(t, trip, periodic=False, opt=False))
    A["dihedrals_noopt"] = lambda t: list(md.compute_dihedrals(t, quad, periodic=False, opt=False))
    A["rmsd_ref_subset"] = lambda t: list(md.rmsd(t, refs[0], 0, atom_indices=sub, ref_atom_indices=sub))
    A["rmsd_precentered"] = lambda t: list(md.rmsd(_centered(t), _centered(refs[0]), 0, precentered=True))
    A["sasa_atom_sel"] = lambda t: list(md.shrake_rupley(t, n_sphere_points=24, mode="atom", atom_indices=list(sub)))
    A["sasa_residue_sel"] = lambda t: list(md.shrake_rupley(t, n_sphere_points=24, mode="residue", atom_indices=list(sub), probe_radius=0.1))
    A["drid_all"] = lambda t: list(md.compute_drid(t)) if n <= 120 else list(md.compute_drid(t, atom_indices=np.arange(0, n, max(1, n // 40))))
    A["neighbors_haystack"] = lambda t: list(md.compute_neighbors(t, 0.45, query, haystack_indices=hay, periodic=has_box))
    A["rg"] = lambda t: list(md.compute_rg(t))
    A["center_of_mass"] = lambda t: list(md.compute_center_of_mass(t))
    A["drid"] = lambda t: list(md.compute_drid(t, atom_indices=sub[:10]))
    A["inertia_tensor"] = lambda t: list(md.compute_inertia_tensor(t))
    if t0.n_residues >= 5 and len(res_pairs):
        A["contacts"] = lambda t: list(md.compute_contacts(t, contacts=res_pairs, scheme="closest", periodic=False)[0])
        A["contacts_ca"] = lambda t: list(md.compute_contacts(t, contacts=res_pairs, scheme="ca", periodic=False)[0])
        A["contacts_heavy_softmin"] = lambda t: list(md.compute_contacts(t, contacts=res_pairs, scheme="closest-heavy", periodic=False,
                                                                         soft_min=True)[0])
        if has_box:
            A["contacts_pbc"] = lambda t: list(md.compute_contacts(t, contacts=res_pairs, scheme="closest", periodic=True)[0])
    if any(a.name == "H" or (a.element is not None and a.element.symbol == "H") for a in t0.topology.atoms) and t0.n_residues >= 5:
        A["dssp"] = lambda t: list(md.compute_dssp(t, simplified=False))
        A["kabsch_sander"] = lambda t: list(md.kabsch_sander(t))
        A["wernet_nilsson"] = lambda t: list(md.wernet_nilsson(t, periodic=False))
        A["baker_hubbard_1"] = lambda t: [md.baker_hubbard(t[i], periodic=False) for i in range(t.n_frames)]
        if has_box:
            A["wernet_nilsson_pbc"] = lambda t: list(md.wernet_nilsson(t, periodic=True))
            A["baker_hubbard_pbc"] = lambda t: [md.baker_hubbard(t[i:i + 1], periodic=True) for i in range(t.n_frames)]
            # aggregate over frames (freq=0: bonds present in at least one frame); see AGGREGATE in main()
            A["baker_hubbard_union_pbc"] = lambda t: [np.asarray(md.baker_hubbard(t, freq=0.0, periodic=True)).reshape(-1, 3)]
        A["baker_hubbard_union"] = lambda t: [np.asarray(md.baker_hubbard(t, freq=0.0, periodic=False)).reshape(-1, 3)]
    return A


AGGREGATE = ("baker_hubbard_union", "baker_hubbard_union_pbc")   # whole-trajectory set == union of the per-frame sets


def _union(rows_list):
    s = sorted({tuple(int(v) for v in r) for rows in rows_list for r in rows})
    return np.array(s, dtype=np.int64).reshape(-1, 3)


def prime(md, t, spec):
    """Call history: run the same functions with OTHER arguments in this process - another atom count, other
    coordinates, another cell that shares the first components of the box matrix, more sphere points, other cutoffs,
    another protein - so that anything cached between calls (static tables, 'same box as last time' shortcuts) is left
    in a state that does not belong to the trajectory under test.  Results are discarded."""
    n = t.n_atoms
    keep = np.arange(0, max(8, (2 * n) // 3))
    other = t.atom_slice(keep)
    other.xyz = (other.xyz * 1.07 + 0.13).astype(np.float32)
    if t.unitcell_vectors is not None:
        V = t.unitcell_vectors.astype(np.float64).copy()
        V[:, 1, 1] *= 1.21
        V[:, 2, 2] *= 0.83
        V[:, 2, 1] += 0.37
        V[:, 2, 0] -= 0.29
        other.unitcell_vectors = (V * 1.13).astype(np.float32)   # first a completely different cell ...
        same_atoms = t.slice(slice(None), copy=True)
        same_atoms.unitcell_vectors = V.astype(np.float32)       # ... then one with the same a vector and b_x, rest different
    else:
        same_atoms = None
    done = 0
    for tr in [other, same_atoms]:
        if tr is None:
            continue
        for name, g in analyses(md, tr).items():
            if name in AGGREGATE or (spec.get("only") is not None and name not in spec["only"] and not name.startswith("sasa")):
                continue
            try:
                g(tr.slice(slice(None), copy=True))
                done += 1
            except Exception:
                pass
    for nsp in (96, 7):
        try:
            md.shrake_rupley(other[:1], n_sphere_points=nsp, probe_radius=0.2, mode="residue")
            md.shrake_rupley(t[:1], n_sphere_points=nsp)
        except Exception:
            pass
    try:
        q = np.arange(0, other.n_atoms, 5)
        md.compute_neighbors(other, 0.7, q, periodic=other.unitcell_vectors is not None)
        md.compute_neighborlist(other, 0.7, frame=0, periodic=other.unitcell_vectors is not None)
    except Exception:
        pass
    if spec.get("prime_protein"):
        try:
            p = md.load(spec["prime_protein"])[:1]
            md.compute_dssp(p); md.kabsch_sander(p); md.wernet_nilsson(p, periodic=False); md.baker_hubbard(p, periodic=False)
        except Exception:
            pass
    return done


def main():
    payload = json.load(sys.stdin)
    import mdtraj as md
    out = {}
    for spec in payload["trajs"]:
        t = build(md, spec)
        F = t.n_frames
        rng = np.random.RandomState(payload.get("perm_seed", 1))
        perm = rng.permutation(F)
        inv = np.argsort(perm)
        tp = t[perm]
        res = {}
        funcs = analyses(md, t)
        for name in payload["analyses"]:
            if name not in funcs or (spec.get("only") is not None and name not in spec["only"]):
                continue
            g = funcs[name]
            f = lambda tr, g=g: g(tr.slice(slice(None), copy=True))   # every evaluation sees a fresh copy of its input
            try:
                if name in AGGREGATE:
                    whole = _union(f(t))
                    singles = _union([f(t[i])[0] for i in range(F)])
                    wperm = _union(f(tp))
                    res[name] = {"company": [h(whole)] * F, "alone": [h(singles)] * F, "perm": [h(wperm)] * F,
                                 "repeat_equal": h(_union(f(t))) == h(whole), "dmax_alone": 0.0, "dmax_perm": 0.0,
                                 "n_bonds": int(len(whole))}
                    continue
                company = f(t)
                rec = {"company": [h(x) for x in company]}
                reps = [[h(x) for x in f(t)] for _ in range(max(0, payload.get("repeats", 1) - 1))]
                rec["repeat_equal"] = all(r == rec["company"] for r in reps)
                alone = [f(t[i])[0] for i in range(F)]
                rec["alone"] = [h(x) for x in alone]
                permuted = f(tp)
                rec["perm"] = [h(permuted[inv[i]]) for i in range(F)]
                da = dp = 0.0
                for i in range(F):
                    a, b, c = num(company[i]), num(alone[i]), num(permuted[inv[i]])
                    if a is not None and b is not None and a.shape == b.shape and a.size:
                        da = max(da, float(np.max(np.abs(a - b))))
                    if a is not None and c is not None and a.shape == c.shape and a.size:
                        dp = max(dp, float(np.max(np.abs(a - c))))
                rec["dmax_alone"], rec["dmax_perm"] = da, dp
                if name.startswith("sasa"):
                    rec["values"] = [[float(v) for v in x] for x in company]
                    rec["values_alone"] = [[float(v) for v in x] for x in alone]
            except Exception as e:  # an analysis that refuses is reported, not fatal
                rec = {"err": "%s: %s" % (type(e).__name__, str(e)[:200])}
            res[name] = rec
        # ---- short sub-selection: the frames of t[a:b] computed as a trajectory of their own
        if spec.get("sub"):
            a0 = F // 4
            b0 = min(F, a0 + max(2, F // 3))
            ts = t[a0:b0]
            for name, rec in res.items():
                if "company" not in rec:
                    continue
                g = funcs[name]
                f = lambda tr, g=g: g(tr.slice(slice(None), copy=True))
                try:
                    if name in AGGREGATE:
                        rec["sub_ok"] = h(_union(f(ts))) == h(_union([f(t[i])[0] for i in range(a0, b0)]))
                    else:
                        rec["sub_ok"] = [h(x) for x in f(ts)] == rec["company"][a0:b0]
                except Exception as e:
                    rec["sub_ok"] = False
        # ---- call history: same analyses again after the process has served other calls of the same functions
        if payload.get("history"):
            prime(md, t, spec)
            for name, rec in res.items():
                if "company" not in rec:
                    continue
                g = funcs[name]
                f = lambda tr, g=g: g(tr.slice(slice(None), copy=True))
                try:
                    again = [h(_union(f(t)))] * F if name in AGGREGATE else [h(x) for x in f(t)]
                    rec["history_equal"] = again == rec["company"]
                except Exception as e:
                    rec["history_equal"] = False
        out[spec["id"]] = res
    print(json.dumps({"results": out}))


if __name__ == "__main__":
    main()
