"""Implementation side of C14 (hydrogen bonds).

stdin : {"repo":..., "tmp":..., "shim":..., "G": grid units per nm,
         "systems": [ {"residues": [{"name":str, "chain":int, "atoms":[[name, element], ...]}],
                       "bonds": [[i,j],...],
                       "frames": [ {"xyz": [[ix,iy,iz],...] (grid integers), "box": [lx,ly,lz] | null} ],
                       "oob": [ix,iy,iz]  (content of the frame stored in front of frame 0, see below),
                       "history": optional [ {"op":"call","call":{..}} | {"op":"rename_residue","res":i,"name":s} |
                                   {"op":"rename_atom","atom":i,"name":s} | {"op":"set_element","atom":i,"element":s} |
                                   {"op":"repoint_bond","bond":k,"new":[i,j]} ]  executed in order on ONE object
                                   (replaces "calls"; the result list holds one entry per call step),
                       "calls": [ {"fn":"baker_hubbard", "freq":f, "exclude_water":b, "periodic":b, "sidechain_only":b,
                                   "distance_cutoff":x|null, "angle_cutoff":x|null},
                                  {"fn":"wernet_nilsson", ...}, {"fn":"kabsch_sander"} ] } ],
         "store": [ [[acceptor, energy_float], ...] ]   sequences for the store_energies shim }
stdout: last line JSON {"systems": [[result per call]], "store": [...]}

Coordinates are exact: integer / G with G a power of two, so the float32 arrays hold exactly the numbers the
model sees.  The xyz buffer handed to mdtraj is a view big[1:] of a larger array whose frame 0 is filled with
`oob` for every atom: an out-of-range atom index -1 in frame 0 (known finding C14-ks-hydrogen-prev-incomplete)
then reads known data instead of whatever precedes the allocation.
"""
import ctypes
import json
import os
import subprocess
import sys
import warnings

import numpy as np

warnings.filterwarnings("ignore")
import mdtraj as md  # noqa: E402


def build_top(sysd):
    top = md.Topology()
    chains = {}
    atoms = []
    for r in sysd["residues"]:
        c = r["chain"]
        if c not in chains:
            chains[c] = top.add_chain()
        res = top.add_residue(r["name"], chains[c])
        for name, el in r["atoms"]:
            atoms.append(top.add_atom(name, md.element.get_by_symbol(el), res))
    for i, j in sysd["bonds"]:
        top.add_bond(atoms[i], atoms[j])
    return top


def build_traj(sysd, G):
    top = build_top(sysd)
    F = len(sysd["frames"])
    n = top.n_atoms
    big = np.zeros((F + 1, n, 3), dtype=np.float32)
    big[0, :, :] = np.array(sysd.get("oob", [0, 0, 0]), dtype=np.float64) / G
    for f, fr in enumerate(sysd["frames"]):
        big[f + 1] = (np.array(fr["xyz"], dtype=np.float64) / G).astype(np.float32)
    traj = md.Trajectory(big[1:], top)
    assert np.shares_memory(traj.xyz, big)
    boxes = [fr.get("box") for fr in sysd["frames"]]
    if all(b is not None for b in boxes) and F > 0:
        traj.unitcell_lengths = (np.array(boxes, dtype=np.float64) / G).astype(np.float32)
        traj.unitcell_angles = np.full((F, 3), 90.0, dtype=np.float32)
    return traj, big


def apply_edit(top, st):
    """in-place edits of a Topology that keep n_atoms and n_bonds"""
    op = st["op"]
    if op == "rename_residue":
        top.residue(st["res"]).name = st["name"]
    elif op == "rename_atom":
        top.atom(st["atom"]).name = st["name"]
    elif op == "set_element":
        top.atom(st["atom"]).element = md.element.get_by_symbol(st["element"])
    elif op == "repoint_bond":
        top._bonds.pop(st["bond"])                     # no public API removes a bond
        top.add_bond(top.atom(st["new"][0]), top.atom(st["new"][1]))
    else:
        raise ValueError("unknown edit %s" % op)


def run_history(traj, steps):
    """calls interleaved with in-place edits on ONE Trajectory/Topology object; returns the results of the calls"""
    out = []
    for st in steps:
        if st["op"] == "call":
            out.append(run_call(traj, st["call"]))
        else:
            apply_edit(traj.topology, st)
    return out


def err_class(e):
    if isinstance(e, ValueError):
        return "ValueError:" + ("nobonds" if "No bonds found" in str(e) else "other")
    return type(e).__name__


def decode_sparse(m):
    """compressed sparse matrix -> {"shape", "bonds": sorted [donor(column), acceptor(row), energy]} by the textbook
    definition of the format, or {"shape", "inconsistent": description} when the three arrays do not fit together"""
    shape = [int(x) for x in m.shape]
    fmt = getattr(m, "format", None)
    if fmt not in ("csr", "csc"):
        m = m.tocoo()
        return {"shape": shape, "bonds": sorted([int(d), int(a), float(e)] for a, d, e in zip(m.row, m.col, m.data))}
    indptr = [int(x) for x in np.asarray(m.indptr)]
    indices = [int(x) for x in np.asarray(m.indices)]
    data = [float(x) for x in np.asarray(m.data)]
    major = shape[0] if fmt == "csr" else shape[1]
    minor = shape[1] if fmt == "csr" else shape[0]
    bad = None
    if len(indptr) != major + 1 or indptr[0] != 0:
        bad = "indptr has %d entries starting at %s for %d %s" % (len(indptr), indptr[:1], major, "rows" if fmt == "csr" else "columns")
    elif any(b < a for a, b in zip(indptr, indptr[1:])):
        bad = "indptr decreases"
    elif indptr[-1] != len(indices) or len(indices) != len(data):
        bad = "indptr ends at %d but there are %d indices and %d values" % (indptr[-1], len(indices), len(data))
    elif any(not (0 <= i < minor) for i in indices):
        bad = "an index is out of range"
    if bad:
        return {"shape": shape, "inconsistent": bad, "format": fmt, "indptr": indptr[:200], "n_indices": len(indices)}
    bonds = []
    for k in range(major):
        for j in range(indptr[k], indptr[k + 1]):
            row, col = (k, indices[j]) if fmt == "csr" else (indices[j], k)
            bonds.append([int(col), int(row), data[j]])      # [donor, acceptor, energy]
    return {"shape": shape, "bonds": sorted(bonds)}


def run_call(traj, c):
    fn = c["fn"]
    try:
        if fn == "baker_hubbard":
            kw = {}
            if c.get("distance_cutoff") is not None:
                kw["distance_cutoff"] = c["distance_cutoff"]
            if c.get("angle_cutoff") is not None:
                kw["angle_cutoff"] = c["angle_cutoff"]
            r = md.baker_hubbard(traj, freq=c["freq"], exclude_water=c["exclude_water"], periodic=c["periodic"],
                                 sidechain_only=c["sidechain_only"], **kw)
            return {"triplets": np.asarray(r).astype(int).reshape(-1, 3).tolist()}
        if fn == "wernet_nilsson":
            r = md.wernet_nilsson(traj, exclude_water=c["exclude_water"], periodic=c["periodic"],
                                  sidechain_only=c["sidechain_only"])
            return {"frames": [np.asarray(x).astype(int).reshape(-1, 3).tolist() for x in r]}
        if fn == "kabsch_sander":
            r = md.kabsch_sander(traj)
            # ALL matrices are read only after the call has returned, and they are decoded here from their own
            # (indptr, indices, data) arrays with bounds checks -- scipy's converters run unchecked C++ loops over these
            # arrays and corrupt the heap when a matrix is internally inconsistent (e.g. row pointers of another frame)
            out = [decode_sparse(m) for m in r]
            return {"frames": out}
    except Exception as e:  # noqa: BLE001
        return {"err": err_class(e), "msg": str(e)[:200]}
    return {"err": "unknown-fn"}


# ------------------------------------------------------------------------------------------ store_energies shim
def build_shim(repo, shim, tmp):
    so = os.path.join(tmp, "hbond_shim.so")
    g = os.path.join(repo, "mdtraj", "geometry")
    cmd = ["g++", "-shared", "-fPIC", "-O1", "-w", "--std=c++11", "-msse2", "-mssse3",
           "-I" + os.path.join(g, "include"), "-I" + os.path.join(g, "src", "kernels"), "-I" + os.path.join(g, "src"),
           shim, "-o", so]
    r = subprocess.run(cmd, stdout=subprocess.PIPE, stderr=subprocess.STDOUT, text=True)
    if r.returncode != 0:
        raise RuntimeError("shim build failed:\n" + r.stdout[-3000:])
    return ctypes.CDLL(so)


def run_store(lib, seqs):
    """each sequence: {"init": "nan"|"zero", "calls": [[acceptor, energy], ...]} on donor 1 of a 3-donor table;
    returns [[acc0, e0|None, acc1, e1|None], untouched] where untouched tells that the neighbours' slots kept their
    initial content."""
    out = []
    for s in seqs:
        hb = np.full(6, -1, dtype=np.int32)
        he = np.full(6, np.nan if s["init"] == "nan" else 0.0, dtype=np.float32)
        for a, e in s["calls"]:
            lib.shim_store(hb.ctypes.data_as(ctypes.POINTER(ctypes.c_int)),
                           he.ctypes.data_as(ctypes.POINTER(ctypes.c_float)), 1, int(a), ctypes.c_float(e))
        enc = lambda x: None if np.isnan(x) else float(x)
        untouched = bool(np.all(hb[[0, 1, 4, 5]] == -1) and
                         (np.all(np.isnan(he[[0, 1, 4, 5]])) if s["init"] == "nan" else np.all(he[[0, 1, 4, 5]] == 0.0)))
        out.append([[int(hb[2]), enc(he[2]), int(hb[3]), enc(he[3])], untouched])
    return out


def dump_systems(reqs, repo, G):
    """generator aid: describe a window of residues of a tests/data structure (names, elements, bonds, snapped
    coordinates).  Only mdtraj's file readers are involved; nothing here is compared."""
    out, cache = [], {}
    for rq in reqs:
        path = os.path.join(repo, "tests", "data", rq["file"])
        if path not in cache:
            cache[path] = md.load(path)
        t = cache[path]
        t = t[rq.get("frame", 0) % t.n_frames]
        lo, hi = rq["residues"]
        idx = [a.index for a in t.top.atoms if lo <= a.residue.index < hi]
        if not idx:
            out.append(None)
            continue
        t = t.atom_slice(idx)
        residues = [{"name": r.name, "chain": r.chain.index,
                     "atoms": [[a.name, a.element.symbol if a.element is not None else "X"] for a in r.atoms]}
                    for r in t.top.residues]
        bonds = [[a.index, b.index] for a, b in t.top.bonds]
        xyz = np.rint(np.asarray(t.xyz[0], dtype=np.float64) * G).astype(int).tolist()
        out.append({"residues": residues, "bonds": bonds, "xyz": xyz})
    return out


def main():
    p = json.load(sys.stdin)
    G = p.get("G", 1024)
    if p.get("dump"):
        print(json.dumps({"dump": dump_systems(p["dump"], p["repo"], G)}))
        return
    out = {"systems": [], "store": []}
    for sysd in p.get("systems", []):
        traj, _big = build_traj(sysd, G)
        if sysd.get("history") is not None:
            out["systems"].append(run_history(traj, sysd["history"]))
        else:
            out["systems"].append([run_call(traj, c) for c in sysd["calls"]])
    if p.get("store"):
        lib = build_shim(p["repo"], p["shim"], p["tmp"])
        out["store"] = run_store(lib, p["store"])
    print(json.dumps(out))


if __name__ == "__main__":
    main()
