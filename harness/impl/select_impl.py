"""Implementation-side runner for C12 (selection language).

stdin: JSON {"mode": "tables"} | {"mode": "run", "topologies": [...], "cases": [[topo_index, string], ...]}
stdout (last line): JSON.

mode=tables : reads the grammar data of mdtraj.core.selection *from the imported module*: keyword alias tables of the
              four token classes, and the operator list that parse_selection._initialize hands to infixNotation
              (captured by wrapping the name `infixNotation` in the module for the duration of one _initialize call
              on a fresh instance), plus the residue-name tables and the Python keyword list.
mode=run    : builds each topology through the public Topology API, then for every case runs
              parse_selection(s) (phase "parse"), Topology.select(s) (phase "eval") and
              eval(Topology.select_expression(s)) and reports index lists / exception classes.
"""
import ast
import json
import keyword
import sys


def chain_of(node):
    """ast.Attribute chain over the name `atom` -> ['residue','is_protein']; Name(True/False) -> ['True']"""
    if isinstance(node, ast.Name):
        if node.id == "atom":
            return []
        return ["#" + node.id]
    if isinstance(node, ast.Attribute):
        return chain_of(node.value) + [node.attr]
    raise ValueError("selection keyword maps to an unsupported AST node: %s" % ast.dump(node))


def op_strings(op_expr):
    """operator spellings accepted by one infixNotation level"""
    import pyparsing as pp
    if isinstance(op_expr, str):
        return [op_expr]
    if isinstance(op_expr, (pp.Literal, pp.Keyword)):
        return [op_expr.match]
    if isinstance(op_expr, (pp.MatchFirst, pp.Or)):
        out = []
        for e in op_expr.exprs:
            out += op_strings(e)
        return out
    raise ValueError("unsupported operator expression %r" % (op_expr,))


def tables():
    import mdtraj.core.selection as S
    from mdtraj.core import residue_names as RN
    captured = {}
    orig = S.infixNotation

    def capture(base, op_list, *a, **k):
        captured["ops"] = list(op_list)
        captured["extra"] = [repr(x) for x in a] + sorted(k)
        return orig(base, op_list, *a, **k)

    S.infixNotation = capture
    try:
        inst = type(S.parse_selection)()
        inst._initialize()
    finally:
        S.infixNotation = orig
    if captured.get("extra"):
        raise ValueError("infixNotation called with extra arguments %s" % captured["extra"])
    levels = []
    for entry in captured["ops"]:
        op_expr, arity, assoc, klass = (tuple(entry) + (None,))[:4]
        levels.append({"ops": op_strings(op_expr), "arity": arity, "assoc": getattr(assoc, "name", str(assoc)),
                       "klass": getattr(klass, "__name__", str(klass))})
    selkw = {k: chain_of(v) for k, v in S.SelectionKeyword.keyword_aliases.items()}
    binsem = {k: type(v).__name__ for k, v in S.BinaryInfixOperand.keyword_aliases.items()}
    unsem = {k: type(v).__name__ for k, v in S.UnaryInfixOperand.keyword_aliases.items()}
    rxsem = {k: str(v) for k, v in S.RegexInfixOperand.keyword_aliases.items()}
    return {"levels": levels, "selkw": selkw, "binsem": binsem, "unsem": unsem, "rxsem": rxsem, "nums": S.NUMS,
            "protein": {k: v for k, v in RN._AMINO_ACID_CODES.items()},
            "protein_set_is_codes_keys": set(RN._PROTEIN_RESIDUES) == set(RN._AMINO_ACID_CODES),
            "water": sorted(RN._WATER_RESIDUES), "pykw": list(keyword.kwlist)}


def build_topology(spec):
    import mdtraj as md
    from mdtraj.core import element as E
    top = md.Topology()
    atoms = []
    for ch in spec["chains"]:
        c = top.add_chain()
        for rs in ch["residues"]:
            r = top.add_residue(rs["name"], c, resSeq=rs["resSeq"], segment_id=rs["segment_id"])
            for at in rs["atoms"]:
                atoms.append(top.add_atom(at["name"], E.Element.getBySymbol(at["element"]), r))
    for i, j in spec["bonds"]:
        top.add_bond(atoms[i], atoms[j])
    return top


def describe(top):
    """what the public objects report for each atom: primitive data the Coq atom records are built from, and the
    derived attributes (compared with the model's derivation inside coqc)."""
    out = []
    for a in top.atoms:
        out.append({"name": a.name, "index": a.index, "n_bonds": a.n_bonds, "symbol": a.element.symbol,
                    "mass": repr(float(a.element.mass)), "resname": a.residue.name, "resSeq": a.residue.resSeq,
                    "resindex": a.residue.index, "chainindex": a.residue.chain.index, "segment_id": a.segment_id,
                    "is_backbone": bool(a.is_backbone), "is_sidechain": bool(a.is_sidechain),
                    "is_protein": bool(a.residue.is_protein), "is_water": bool(a.residue.is_water),
                    "code": a.residue.code})
    return out


def describe_independent(top):
    """the topology AS IT IS, read without the attributes a cache could get wrong: an atom's index is its position in
    topology.atoms, a residue's / chain's index its position in topology.residues / chains, n_bonds a tally over
    topology.bonds by object identity; the attributes the objects report are returned next to them"""
    atoms = list(top.atoms)
    # an atom's index is its position in the flat list Topology.atom(i) reads (by object identity); for a topology
    # built residue by residue this is also its position in topology.atoms, after add_atom to an EARLIER residue it
    # is not (the hierarchy iterates chains -> residues -> atoms)
    flat = {id(top.atom(i)): i for i in range(top.n_atoms)}
    if len(flat) != len(atoms) or any(id(a) not in flat for a in atoms):
        raise RuntimeError("Topology.atoms and Topology.atom(i) do not range over the same atoms")
    rpos = {id(r): i for i, r in enumerate(top.residues)}
    cpos = {id(c): i for i, c in enumerate(top.chains)}
    tally = {id(a): 0 for a in atoms}
    for b in top.bonds:
        for x in (b[0], b[1]):
            if id(x) in tally:
                tally[id(x)] += 1
    out = []
    for i, a in enumerate(atoms):
        out.append({"name": a.name, "index": flat[id(a)], "position": i, "attr_index": a.index, "n_bonds": tally[id(a)],
                    "attr_n_bonds": a.n_bonds,
                    "symbol": a.element.symbol, "mass": repr(float(a.element.mass)), "resname": a.residue.name,
                    "resSeq": a.residue.resSeq, "resindex": rpos[id(a.residue)], "attr_resindex": a.residue.index,
                    "chainindex": cpos[id(a.residue.chain)], "attr_chainindex": a.residue.chain.index,
                    "segment_id": a.residue.segment_id,
                    "is_backbone": bool(a.is_backbone), "is_sidechain": bool(a.is_sidechain),
                    "is_protein": bool(a.residue.is_protein), "is_water": bool(a.residue.is_water), "code": a.residue.code})
    return out


def apply_edit(top, e):
    """in-place edits through the public API / public attributes; returns a short status"""
    from mdtraj.core import element as E
    op = e["op"]
    atoms = list(top.atoms)
    residues = list(top.residues)
    if op == "insert":
        r = residues[e["res"]]
        before = 0
        for q in residues:
            if q is r:
                break
            before += q.n_atoms
        pos = min(e["pos"], r.n_atoms)
        el = None if e["element"] is None else E.Element.getBySymbol(e["element"])
        if e.get("append"):
            top.insert_atom(e["name"], el, r)           # index=None: appended to the topology's atom list
            return "appended"
        top.insert_atom(e["name"], el, r, index=before + pos, rindex=pos)
        return "inserted at %d" % (before + pos)
    if op == "add_late":
        # the way a structure gets patched: a missing atom is added to an earlier residue after the later ones exist
        el = None if e["element"] is None else E.Element.getBySymbol(e["element"])
        top.add_atom(e["name"], el, residues[e["res"]])
        return "added late"
    if op == "delete":
        top.delete_atom_by_index(e["index"])
        return "deleted"
    if op == "renumber":
        for r in residues:
            r.resSeq += e["shift"]
        return "renumbered"
    if op == "resegment":
        for r in residues:
            r.segment_id = e["map"].get(r.segment_id, r.segment_id)
        return "resegmented"
    if op == "bond":
        a, b = atoms[e["i"]], atoms[e["j"]]
        if a is b or any((x is a and y is b) or (x is b and y is a) for x, y in top.bonds):
            return "skipped"
        top.add_bond(a, b)
        return "bonded"
    if op == "rename_atom":
        atoms[e["index"]].name = e["name"]
    elif op == "element":
        atoms[e["index"]].element = E.Element.getBySymbol(e["element"])
    elif op == "rename_res":
        residues[e["res"]].name = e["name"]
    elif op == "resSeq":
        residues[e["res"]].resSeq = e["value"]
    elif op == "segid":
        residues[e["res"]].segment_id = e["value"]
    elif op == "chain_id":
        list(top.chains)[e["chain"]].chain_id = e["value"]
    else:
        raise ValueError(op)
    return "set"


def make_twin(top, spec, st):
    """a second Topology object describing the same atoms, residue names, elements and bonds (so that it compares ==
    and hashes like the first one), with another residue numbering / other segment and chain ids - the same system read
    from a differently numbered file.  Built through the public API, edited before it is ever queried."""
    new = top.copy() if st.get("how", "copy") == "copy" else build_topology(spec)
    for r in new.residues:
        r.resSeq += st.get("shift", 0)
        r.segment_id = st.get("segmap", {}).get(r.segment_id, r.segment_id)
    for c, cid in zip(new.chains, st.get("chain_ids", [])):
        c.chain_id = cid
    return new


def run_histories(histories):
    """per history one Topology object (plus the twins the history creates); selections interleaved with in-place
    edits.  Every selection is reported with the version (independent description) of the topology it ran on."""
    versions, results = [], []
    for h in histories:
        tops = [build_topology(h["spec"])]
        versions.append(describe_independent(tops[0]))
        cur = [len(versions) - 1]
        for st in h["steps"]:
            k = st.get("obj", 0)
            if st["op"] == "sel":
                r = run_case(tops[k], st["s"])
                r["version"] = cur[k]
                results.append(r)
                continue
            try:
                if st["op"] == "twin":
                    tops.append(make_twin(tops[st.get("from", 0)], h["spec"], st))
                    k = len(tops) - 1
                    cur.append(None)
                else:
                    apply_edit(tops[k], st)
            except Exception as e:  # noqa: BLE001
                results.append({"edit_error": "%s: %s" % (cls(e), e), "version": len(versions) - 1, "step": st})
                break
            versions.append(describe_independent(tops[k]))
            cur[k] = len(versions) - 1
    return {"atoms": versions, "results": results}


def cls(e):
    for c in (RecursionError, TypeError, SyntaxError, ValueError):
        if isinstance(e, c):
            return c.__name__
    return "Other:" + type(e).__name__


def run_case(top, s):
    import numpy as np
    from mdtraj.core.selection import parse_selection
    res = {}
    try:
        parse_selection(s)
        res["parse"] = "ok"
    except Exception as e:  # noqa: BLE001
        res["parse"] = cls(e)
    try:
        r = top.select(s)
        r = np.asarray(r)
        if r.ndim != 1 or (r.size and r.dtype.kind not in "iu"):
            res["select"] = {"err": "Other:bad-array"}
        else:
            res["select"] = {"idx": [int(x) for x in r]}
    except Exception as e:  # noqa: BLE001
        res["select"] = {"err": cls(e)}
    try:
        src = top.select_expression(s)
        res["source"] = src
        try:
            import re
            val = eval(src, {"re": re, "topology": top})
            res["src"] = {"idx": [int(x) for x in val]}
        except Exception as e:  # noqa: BLE001
            res["src"] = {"err": cls(e)}
    except Exception as e:  # noqa: BLE001
        res["src"] = {"rejected": cls(e)}
    return res


PARSE_CACHE = {}


def memoise_parser():
    """pyparsing needs ~50 ms per parenthesised group; Topology.select, select_expression and the phase probe would
    each re-parse the same string.  The name `parse_selection` that topology.py imported is wrapped by a cache keyed
    by the string (results and exceptions), so every distinct string is parsed once by the real parser."""
    import mdtraj.core.selection as S
    import mdtraj.core.topology as T
    real = S.parse_selection
    cache = PARSE_CACHE

    def cached(s):
        if s not in cache:
            try:
                cache[s] = (True, real(s))
            except Exception as e:  # noqa: BLE001
                cache[s] = (False, e)
        ok, v = cache[s]
        if ok:
            return v
        raise v

    T.parse_selection = cached
    S.parse_selection = cached


CANON_WATER = {"H2O", "HHO", "OHH", "HOH", "OH2", "SOL", "WAT", "TIP", "TIP2", "TIP3", "TIP4"}   # the VMD list
CANON_PROTEIN = {"ALA", "ARG", "ASN", "ASP", "CYS", "GLN", "GLU", "GLY", "HIS", "ILE", "LEU", "LYS", "MET", "PHE", "PRO",
                 "SER", "THR", "TRP", "TYR", "VAL"}
NAIVE = {
    "name": lambda a: a.name, "index": lambda a: a.index, "resname": lambda a: a.residue.name,
    "resid": lambda a: a.residue.index, "resSeq": lambda a: a.residue.resSeq, "chainid": lambda a: a.residue.chain.index,
    "symbol": lambda a: a.element.symbol, "mass": lambda a: float(a.element.mass), "segment_id": lambda a: a.residue.segment_id,
    "water": lambda a: a.residue.name in CANON_WATER, "protein_std": lambda a: a.residue.name in CANON_PROTEIN,
    "backbone_std": lambda a: a.residue.name in CANON_PROTEIN and a.name in ("N", "CA", "C", "O"),
}


def sel(top, s):
    try:
        r = top.select(s)
        return [int(x) for x in r]
    except Exception as e:  # noqa: BLE001
        return "ERR:" + cls(e)


def run_meta(tops, checks):
    """oracles that do not use the model: set algebra of sub-selections, range/list expansions, alias equivalence,
    and direct attribute comparison on the atoms; returns the checks that fail"""
    import operator
    bad = []
    for c in checks:
        top = tops[c["topo"]]
        allidx = [a.index for a in top.atoms]
        k = c["kind"]
        lhs = sel(top, c["lhs"])
        if k in ("and", "or", "not", "same"):
            parts = [sel(top, x) for x in c["parts"]]
            if any(isinstance(x, str) for x in parts):
                continue                      # a part raises: nothing to relate
            if k == "and":
                want = sorted(set(parts[0]).intersection(*parts[1:]))
            elif k == "or":
                want = sorted(set().union(*parts))
            elif k == "not":
                want = [i for i in allidx if i not in set(parts[0])]
            else:
                want = parts[0]
        elif k == "naive":
            f = NAIVE[c["attr"]]
            if c["op"] == "truth":
                want = [a.index for a in top.atoms if f(a)]
            elif c["op"] == "in":
                want = [a.index for a in top.atoms if f(a) in c["value"]]
            elif c["op"] == "range":
                want = [a.index for a in top.atoms if c["value"][0] <= f(a) <= c["value"][1]]
            else:
                op = {"==": operator.eq, "!=": operator.ne, "<": operator.lt, "<=": operator.le, ">": operator.gt,
                      ">=": operator.ge}[c["op"]]
                want = [a.index for a in top.atoms if op(f(a), c["value"])]
        else:
            raise ValueError(k)
        if c.get("or_reject"):
            # a form the documentation does not define (signed numbers): refusing it is fine, accepting it is fine only
            # with the plain numeric meaning
            from mdtraj.core.selection import parse_selection
            try:
                parse_selection(c["lhs"])
            except Exception:  # noqa: BLE001
                continue
        ok = lhs == want and all(b > a for a, b in zip(lhs, lhs[1:]))
        if not ok:
            d = dict(c)
            d.update(observed=lhs, expected=want)
            bad.append(d)
    return bad


DEFAULT_LIMIT = sys.getrecursionlimit()


def run_all(tops, cases):
    """Every case is first run under the interpreter's default recursion limit (what a user gets; the 19 nested
    infixNotation levels exhaust it at about three levels of parentheses).  A case that dies with RecursionError is
    flagged and run again with a large limit on a big thread stack, so that the grammar's answer is still compared."""
    import threading
    results = []

    def work():
        for ti, s in cases:
            sys.setrecursionlimit(DEFAULT_LIMIT)
            r = run_case(tops[ti], s)
            if "RecursionError" in json.dumps(r):
                PARSE_CACHE.clear()
                sys.setrecursionlimit(200000)
                r = run_case(tops[ti], s)
                r["recursion_error_at_default_limit"] = True
                sys.setrecursionlimit(DEFAULT_LIMIT)
            results.append(r)

    threading.stack_size(1024 * 1024 * 1024)
    th = threading.Thread(target=work)
    th.start()
    th.join()
    if len(results) != len(cases):
        raise RuntimeError("worker thread died after %d of %d cases" % (len(results), len(cases)))
    return results


def recursion_boundary(exprs):
    """smallest recursion limit under which parse_selection(s) does not die with RecursionError, for each s, measured
    by bisection from a shallow stack (a fresh thread: the measured number includes the `stack_depth` frames of the
    caller, which is what a user's script at module level has, give or take a handful)"""
    import threading
    from mdtraj.core.selection import parse_selection
    out = {}

    def fits(s, lim):
        sys.setrecursionlimit(lim)
        try:
            parse_selection(s)
            return True
        except RecursionError:
            return False
        except Exception:  # noqa: BLE001
            return True
        finally:
            sys.setrecursionlimit(200000)

    def work():
        d, f = 0, sys._getframe()
        while f is not None:
            d, f = d + 1, f.f_back
        out["stack_depth"] = d + 1                 # + the frame of fits()
        need = {}
        for s in exprs:
            lo, hi = 50, 50000
            while lo < hi:
                mid = (lo + hi) // 2
                if fits(s, mid):
                    hi = mid
                else:
                    lo = mid + 1
            need[s] = lo
        out["need"] = need

    threading.stack_size(1024 * 1024 * 1024)
    th = threading.Thread(target=work)
    th.start()
    th.join()
    out["default_limit"] = DEFAULT_LIMIT
    return out


def main():
    req = json.load(sys.stdin)
    if req["mode"] == "tables":
        out = tables()
    elif req["mode"] == "recursion_boundary":
        out = recursion_boundary(req["exprs"])
    elif req["mode"] == "history":
        memoise_parser()
        out = run_histories(req["histories"])
    elif req["mode"] == "meta":
        memoise_parser()
        tops = [build_topology(t) for t in req["topologies"]]
        out = {"bad": run_meta(tops, req["checks"]), "n": len(req["checks"])}
    else:
        if req.get("memo", True):
            memoise_parser()
        tops = [build_topology(t) for t in req["topologies"]]
        out = {"atoms": [describe(t) for t in tops], "results": run_all(tops, req["cases"])}
    print(json.dumps(out))


if __name__ == "__main__":
    main()
