"""Shared machinery of the /verif checks (see DESIGN.md sections 1, 2, 7).

A property module (harness/props/Cxx.py) exposes

    LEVEL      = "proof"                     # evidence level
    THEOREMS   = "Props/Cxx.v"               # file with the property theorems
    def translate(ctx)                       # optional: regenerate coq/Gen/*.v
    def correspond(ctx)                      # model vs implementation, calls ctx.fail(...)
    def search(ctx, broken)                  # oracle-only search on the implementation
    def replay(ctx, record)                  # re-run one recorded case

and the driver (harness/main.py) runs translate -> prove -> correspond ->
(search) -> decide.  Everything a run reports goes through Ctx so that the
verdict protocol (VIOLATION / KNOWN-FINDING / no-failing-input-found) is
implemented exactly once.
"""
import fcntl
import hashlib
import json
import os
import random
import re
import shutil
import subprocess
import sys
import tempfile
import time

VERIF = os.path.dirname(os.path.dirname(os.path.abspath(__file__)))
REPO = os.environ.get("VERIF_REPO", "/repo")
COQ = os.path.join(VERIF, "coq")
PY = "/venv/bin/python"

FORBIDDEN = re.compile(
    r"\b(Admitted|admit|Axiom|Axioms|Parameter|Parameters|Conjecture|Abort All|"
    r"Admit Obligations|bypass_check|native_compute)\b|Unset\s+Guard|Unset\s+Positivity|"
    r"Unset\s+Universe|type-in-type|impredicative-set")

# axioms of the Coq standard library that DESIGN.md section 6 names as allowed
ALLOWED_AXIOMS = {
    "ClassicalDedekindReals.sig_forall_dec",
    "ClassicalDedekindReals.sig_not_dec",
    "FunctionalExtensionality.functional_extensionality_dep",
    "Classical_Prop.classic",
    "Eqdep.Eq_rect_eq.eq_rect_eq",
    "ProofIrrelevance.proof_irrelevance",
    "JMeq.JMeq_eq",
}


def impl_env(extra=None, shadow=None):
    env = dict(os.environ)
    env["PYTHONPATH"] = (shadow or REPO) + os.pathsep + os.path.join(VERIF, "harness")
    env["PYTHONHASHSEED"] = "0"
    env["MDTRAJ_VERIF"] = "1"
    env.setdefault("OMP_NUM_THREADS", "4")
    if extra:
        env.update(extra)
    return env


def canon(obj):
    return json.dumps(obj, sort_keys=True, separators=(",", ":"), default=str)


def digest(obj):
    return hashlib.sha256(canon(obj).encode()).hexdigest()[:12]


# --------------------------------------------------------------------------
# Coq literal printers (used by the generated cases.v files)
def cz(n):
    n = int(n)
    return "(%d)%%Z" % n


def cnat(n):
    return "%d%%nat" % int(n)


def cbool(b):
    return "true" if b else "false"


def clist(xs, f=str):
    return "[" + "; ".join(f(x) for x in xs) + "]"


def cstr(s):
    return '"' + s.replace('"', '""') + '"%string'


def copt(x, f=str):
    return "None" if x is None else "(Some %s)" % f(x)


class Failure(dict):
    pass


class Ctx:
    def __init__(self, prop, tier, seed, module):
        self.prop = prop
        self.tier = tier
        self.seed = seed
        self.module = module
        self.rng = random.Random(seed * 1000003 + int(prop[1:]))
        self.t0 = time.time()
        self.tmp = tempfile.mkdtemp(prefix="verif-%s-" % prop, dir=os.environ.get("VERIF_TMP", "/var/tmp"))
        # every temporary file of this run (ours, the implementation runners', mdtraj's own) lands in the
        # scratch directory, which cleanup() removes: nothing is left under /tmp
        os.environ["TMPDIR"] = self.tmp
        tempfile.tempdir = None
        self.failures = []          # list of Failure
        self.cov = {"evaluations": 0, "samples": [], "histogram": {}}
        self.seen = set()
        self.nontrivial = 0
        self.obligations = []       # [{name, file, ok, assumptions}]
        self.broken = []            # names of theorems / correspondences that no longer check
        self.assumptions = []
        self.trusted = []
        self.notes = {}
        self.quiet = False

    # ---------------------------------------------------------------- util
    def log(self, *a):
        print("[%s %5.1fs]" % (self.prop, time.time() - self.t0), *a, file=sys.stderr, flush=True)

    def count(self, case, nontrivial=True, bucket=None, sample=False):
        """Record one explored case (for the evidence file)."""
        self.cov["evaluations"] += 1
        h = digest(case)
        if h not in self.seen:
            self.seen.add(h)
            if nontrivial:
                self.nontrivial += 1
        if bucket is not None:
            hist = self.cov["histogram"]
            hist[bucket] = hist.get(bucket, 0) + 1
        if sample or len(self.cov["samples"]) < 4:
            if len(self.cov["samples"]) < 12:
                self.cov["samples"].append(case)

    def fail(self, desc, case, observed=None, expected=None, tags=None, stage="correspond", broken=None):
        f = Failure(property=self.prop, desc=desc, case=case, observed=observed, expected=expected,
                    tags=tags or {}, stage=stage, broken_obligation=broken)
        self.failures.append(f)
        return f

    def break_(self, name, detail=""):
        """A theorem or a correspondence no longer checks."""
        self.broken.append({"name": name, "detail": detail[-4000:]})
        self.log("BROKEN:", name, detail[-400:])

    # ---------------------------------------------------------------- coq
    def _lock(self):
        fh = open(os.path.join(COQ, ".lock"), "w")
        fcntl.flock(fh, fcntl.LOCK_EX)
        return fh

    def ensure_makefile(self):
        mk = os.path.join(COQ, "Makefile")
        cp = os.path.join(COQ, "_CoqProject")
        gen_coqproject()
        if (not os.path.exists(mk)) or os.path.getmtime(mk) < os.path.getmtime(cp):
            subprocess.run(["coq_makefile", "-f", "_CoqProject", "-o", "Makefile"], cwd=COQ, check=True,
                           stdout=subprocess.DEVNULL)

    def write_gen(self, relpath, text):
        """Write a regenerated Coq file only if its text changed (keeps make incremental)."""
        p = os.path.join(COQ, relpath)
        old = None
        if os.path.exists(p):
            with open(p) as fh:
                old = fh.read()
        if old != text:
            os.makedirs(os.path.dirname(p), exist_ok=True)
            with open(p, "w") as fh:
                fh.write(text)
            return True
        return False

    def make(self, targets, timeout=1500):
        """make the given .vo targets; returns (ok, log)."""
        with self._lock():
            self.ensure_makefile()
            cmd = ["timeout", str(timeout), "make", "-j16"] + list(targets)
            r = subprocess.run(cmd, cwd=COQ, stdout=subprocess.PIPE, stderr=subprocess.STDOUT, text=True)
        return r.returncode == 0, r.stdout

    def dep_closure(self, props_file):
        """Transitive .v dependencies of a file inside coq/ (from coq_makefile's .Makefile.d)."""
        deps = {}
        try:
            with open(os.path.join(COQ, ".Makefile.d")) as fh:
                for line in fh:
                    if ":" not in line:
                        continue
                    lhs, rhs = line.split(":", 1)
                    tg = [t for t in lhs.split() if t.endswith(".vo")]
                    ds = [d[:-1] for d in rhs.split() if d.endswith(".vo") and not d.startswith("/")]
                    for t in tg:
                        deps[t[:-1]] = ds
        except OSError:
            return None
        if props_file not in deps:
            return None
        seen, todo = set(), [props_file]
        while todo:
            f = todo.pop()
            if f in seen:
                continue
            seen.add(f)
            todo.extend(deps.get(f, []))
        return sorted(seen)

    def hygiene(self, props_file=None):
        """No Admitted/Axiom/... in any file the property theorems depend on (fail-closed: when the
        dependency closure is unknown every file of the development is scanned)."""
        files = self.dep_closure(props_file) if props_file else None
        if files is None:
            files = []
            for root, _d, fs in os.walk(COQ):
                files += [os.path.relpath(os.path.join(root, fn), COQ) for fn in fs if fn.endswith(".v")]
        bad = []
        for rel in files:
            p = os.path.join(COQ, rel)
            try:
                fh = open(p, errors="replace")
            except OSError:
                continue
            with fh:
                for i, line in enumerate(fh, 1):
                    code = re.sub(r"\(\*.*?\*\)", "", line)
                    if FORBIDDEN.search(code):
                        bad.append("%s:%d: %s" % (rel, i, line.strip()))
        self.notes.setdefault("coverage_extra", {})["hygiene_files_scanned"] = len(files)
        return bad

    def prove(self, props_file, extra_targets=()):
        """Build everything the property theorems depend on, then re-run coqc on the
        property file itself to collect Print Assumptions.  Fills self.obligations."""
        vo = props_file[:-2] + ".vo"
        src = os.path.join(COQ, props_file)
        with open(src) as fh:
            text = fh.read()
        names = re.findall(r"^\s*(?:Theorem|Lemma|Corollary|Example)\s+([A-Za-z0-9_']+)", text, re.M)
        ok, log = self.make([vo] + list(extra_targets))
        bad = self.hygiene(props_file)
        if bad:
            self.break_("hygiene", "\n".join(bad))
        out = ""
        if ok:
            # Re-check the property file itself on every run (cheap: exact + Print Assumptions)
            with self._lock():
                r = subprocess.run(["timeout", "600", "coqc", "-Q", ".", "MD", props_file], cwd=COQ,
                                   stdout=subprocess.PIPE, stderr=subprocess.STDOUT, text=True)
            ok = r.returncode == 0
            out = r.stdout
            if not ok:
                log += "\n" + out
        axioms = self._parse_assumptions(out)
        failed_name = None
        if not ok:
            m = re.search(r'File "\./([^"]+)", line (\d+)', log)
            failed_name = self._theorem_at(m.group(1), int(m.group(2))) if m else None
            self.break_("proof:%s" % (failed_name or props_file), log)
        for i, n in enumerate(names):
            ax = axioms[i] if i < len(axioms) else None
            self.obligations.append({"name": n, "file": props_file, "ok": ok, "assumptions": ax})
        for ax in axioms:
            for a in ax:
                if a not in ALLOWED_AXIOMS:
                    self.break_("axiom:%s" % a, "theorem depends on an axiom outside the stated trusted base")
        used = sorted({a for ax in axioms for a in ax})
        self.notes["axioms_used"] = used
        if ok and self.tier == "thorough" and os.environ.get("VERIF_NO_COQCHK") != "1":
            self.coqchk(props_file)
        self.notes["coq_log_tail"] = log[-1500:] if not ok else ""
        return ok

    def coqchk(self, props_file):
        """Thorough tier: re-check the compiled property file and everything it depends on with the
        independent checker and record its context summary (axioms of every loaded library,
        type-in-type / unsafe fixpoints / assumed positivity)."""
        mod = "MD." + props_file[:-2].replace("/", ".")
        r = subprocess.run(["timeout", "2400", "coqchk", "-silent", "-o", "-Q", ".", "MD", mod], cwd=COQ,
                           stdout=subprocess.PIPE, stderr=subprocess.STDOUT, text=True)
        out = r.stdout
        summ = out[out.find("CONTEXT SUMMARY"):] if "CONTEXT SUMMARY" in out else out[-2000:]
        self.notes.setdefault("coverage_extra", {})["coqchk"] = {"exit": r.returncode, "summary": summ[:6000]}
        if r.returncode != 0:
            self.break_("coqchk:%s" % props_file, out[-3000:])
            return
        for key in ("type-in-type", "unsafe (co)fixpoints", "positivity is assumed"):
            m = re.search(re.escape(key) + r":\s*(.*)", summ)
            if m and "<none>" not in m.group(1):
                self.break_("coqchk:%s" % key, summ)
        m = re.search(r"\* Axioms:(.*?)\n\s*\n\* Constants", summ, re.S)
        if m and "<none>" not in m.group(1):
            names = re.findall(r"^\s+([A-Za-z_][A-Za-z0-9_.']*)\s*$", m.group(1), re.M)
            # coqchk prints fully qualified names (Coq.Reals....); compare by suffix with the allowed list
            for n in names:
                if not any(n.endswith(a) or a.endswith(n.split("Coq.")[-1]) for a in ALLOWED_AXIOMS):
                    self.break_("coqchk-axiom:%s" % n, "coqchk lists an axiom outside the stated trusted base")

    def _theorem_at(self, relfile, line):
        try:
            with open(os.path.join(COQ, relfile)) as fh:
                lines = fh.readlines()
        except OSError:
            return relfile
        for i in range(min(line, len(lines)) - 1, -1, -1):
            m = re.match(r"\s*(?:Theorem|Lemma|Corollary|Example|Definition|Fixpoint)\s+([A-Za-z0-9_']+)", lines[i])
            if m:
                return "%s:%s" % (relfile, m.group(1))
        return relfile

    @staticmethod
    def _parse_assumptions(out):
        """One entry per Print Assumptions, in order: [] for closed, else the axiom names.  Coq prints
        `name : type` or, for long types, the name alone on a line with the type indented below."""
        res = []
        cur = None
        for line in out.splitlines():
            if line.startswith("Closed under the global context"):
                res.append([])
                cur = None
            elif line.startswith("Axioms:"):
                cur = []
                res.append(cur)
            elif cur is not None:
                if not line.strip() or line.startswith((" ", "\t")):
                    continue
                m = re.match(r"^([A-Za-z_][A-Za-z0-9_.']*)\s*(:.*)?$", line)
                if m:
                    cur.append(m.group(1))
                else:
                    cur = None
        return res

    def coqc_text(self, name, text, timeout=600):
        """Compile a throw-away .v file (in the run's tmp dir) against the built tree."""
        p = os.path.join(self.tmp, name + ".v")
        with open(p, "w") as fh:
            fh.write(text)
        r = subprocess.run(["timeout", str(timeout), "coqc", "-Q", COQ, "MD", p], cwd=self.tmp,
                           stdout=subprocess.PIPE, stderr=subprocess.STDOUT, text=True)
        return r.returncode, r.stdout

    def coq_mismatches(self, requires, ty, eqb, model_fn, cases, shard=400, prelude=""):
        """Evaluate the Gallina model on every case inside coqc (vm_compute) and return
        the indices of cases whose model output differs from `expected`.

        cases : list of (coq_input_text, coq_expected_text)
        ty    : (input type, output type) as Coq text
        eqb   : Coq boolean equality on the output type
        model_fn : Coq term : input -> output
        Only the mismatching indices are printed, so nothing has to be parsed
        beyond a list of numbers."""
        shards = [cases[i:i + shard] for i in range(0, len(cases), shard)]
        procs = []
        for si, sh in enumerate(shards):
            lines = ["From Coq Require Import ZArith List String Bool Ascii.", "Import ListNotations.",
                     "Open Scope nat_scope.", "Set Printing Depth 1000000.", "Set Printing Width 200."]
            lines += ["Require Import %s." % r for r in requires]
            lines.append(prelude)
            lines.append("Definition cases : list (nat * (%s) * (%s)) := [" % ty)
            lines.append(";\n".join("(%d%%nat, %s, %s)" % (j, a, b) for j, (a, b) in enumerate(sh)))
            lines.append("].")
            lines.append("Definition bad := map (fun c => fst (fst c)) (filter (fun c => "
                         "negb (%s (%s (snd (fst c))) (snd c))) cases)." % (eqb, model_fn))
            lines.append('Definition tag := "MISMATCH"%string.')
            lines.append("Eval vm_compute in (tag, List.length cases, bad).")
            lines.append('Definition tag2 := "NBAD"%string.')
            lines.append("Eval vm_compute in (tag2, List.length bad).")
            p = os.path.join(self.tmp, "cases_%d.v" % si)
            with open(p, "w") as fh:
                fh.write("\n".join(lines) + "\n")
            procs.append((si, p))
        bad = []
        errors = []
        # run up to 8 in parallel
        running = []
        todo = list(procs)
        def reap(pr, si):
            out = pr.communicate()[0]
            if pr.returncode != 0:
                errors.append(out[-3000:])
                return
            m = re.search(r'\("MISMATCH"%string,\s*(\d+)(?:%nat)?,\s*(\[.*?\]|nil)\s*\)', out, re.S)
            if not m:
                errors.append("unparsed coqc output: " + out[-2000:])
                return
            found = [int(x) for x in re.findall(r"\d+", m.group(2))]
            m2 = re.search(r'\("NBAD"%string,\s*(\d+)', out)
            if not m2 or int(m2.group(1)) != len(found):
                errors.append("mismatch list was elided by the printer: %s printed, %s counted" % (
                    len(found), m2.group(1) if m2 else "?"))
            bad.extend(si * shard + x for x in found)
        while todo or running:
            while todo and len(running) < 8:
                si, p = todo.pop(0)
                pr = subprocess.Popen(["timeout", "900", "coqc", "-Q", COQ, "MD", p], cwd=self.tmp,
                                      stdout=subprocess.PIPE, stderr=subprocess.STDOUT, text=True)
                running.append((pr, si))
            pr, si = running.pop(0)
            reap(pr, si)
        return sorted(bad), errors

    def coq_eval(self, requires, expr, prelude="", timeout=600):
        """Evaluate one Coq expression with vm_compute and return the raw printed text."""
        text = "From Coq Require Import ZArith List String Bool Ascii.\nImport ListNotations.\nOpen Scope nat_scope.\n"
        text += "".join("Require Import %s.\n" % r for r in requires)
        text += prelude + "\nEval vm_compute in (%s).\n" % expr
        rc, out = self.coqc_text("eval_%d" % int(time.time() * 1e6), text, timeout)
        return rc, out

    # ---------------------------------------------------------------- implementation
    def prepare_impl(self):
        """Make sure the binaries the implementation runs reflect /repo's working tree: shadow-build
        the C/C++ extensions the property module names in EXTS when their sources changed, and
        report .pyx sources that no buildable binary reflects."""
        import build_ext
        exts = list(getattr(self.module, "EXTS", []))
        self.shadow_path = None
        if not exts:
            return
        try:
            self.shadow_path = build_ext.shadow_tree(REPO, exts, self.tmp)
        except Exception as e:
            self.break_("build:%s" % ",".join(exts), str(e))
        drift = build_ext.pyx_drift(REPO, exts)
        if drift:
            self.break_("pyx-drift", "code of %s changed but Cython is not available: no buildable binary "
                                     "reflects the source" % drift)
        self.notes.setdefault("coverage_extra", {})["shadow_build"] = bool(self.shadow_path)

    def run_impl(self, script, payload, timeout=1800, env=None, shadow=None):
        if shadow is None:
            shadow = getattr(self, "shadow_path", None)
        """Run harness/impl/<script> in /venv python against /repo (or a shadow tree) with a JSON
        payload on stdin; returns parsed JSON from stdout's last line."""
        p = os.path.join(VERIF, "harness", "impl", script)
        r = subprocess.run([PY, p], input=json.dumps(payload), stdout=subprocess.PIPE, stderr=subprocess.PIPE,
                           text=True, timeout=timeout, env=impl_env(env, shadow), cwd=self.tmp)
        if r.returncode != 0:
            raise RuntimeError("impl runner %s failed rc=%d\n%s" % (script, r.returncode, r.stderr[-4000:]))
        lines = [l for l in r.stdout.splitlines() if l.strip()]
        return json.loads(lines[-1])

    # ---------------------------------------------------------------- verdict
    def unlisted(self):
        """Failures not covered by a known finding."""
        mine = [k for k in load_known() if k.get("property") == self.prop and k.get("kind") == "known"]
        return [f for f in self.failures if match_known(mine, f) is None]

    def finish(self):
        known = load_known()
        mine = [k for k in known if k.get("property") == self.prop and k.get("kind") == "known"]
        unlisted = []
        hit = {}
        for f in self.failures:
            k = match_known(mine, f)
            if k is None:
                unlisted.append(f)
            else:
                hit.setdefault(k["id"], (k, f))
        lines = []
        for kid, (k, f) in sorted(hit.items()):
            lines.append("KNOWN-FINDING: property=%s %s [%s]" % (self.prop, k["what"], kid))
        os.makedirs(os.path.join(VERIF, "replays"), exist_ok=True)
        rc = 0
        viol = 0
        if unlisted:
            # group by desc so one defect yields one line; keep the smallest case
            groups = {}
            for f in unlisted:
                groups.setdefault(f["desc"], []).append(f)
            for desc, fs in sorted(groups.items()):
                fs.sort(key=lambda f: len(canon(f["case"])))
                f = fs[0]
                rec = dict(f)
                rec.update(seed=self.seed, tier=self.tier, n_similar=len(fs),
                           broken=[b["name"] for b in self.broken])
                path = os.path.join(VERIF, "replays", "%s-%s.json" % (self.prop, digest(rec)))
                with open(path, "w") as fh:
                    json.dump(rec, fh, indent=1, default=str)
                lines.append("VIOLATION property=%s replay=%s" % (self.prop, path))
                viol += 1
            rc = 1
        elif self.broken:
            rec = {"property": self.prop, "seed": self.seed, "tier": self.tier, "stage": "prove/tie",
                   "broken": self.broken,
                   "note": "a theorem or the model/implementation correspondence no longer checks and the "
                           "search found no failing input; the property is no longer shown to hold"}
            path = os.path.join(VERIF, "replays", "%s-%s.json" % (self.prop, digest(rec)))
            with open(path, "w") as fh:
                json.dump(rec, fh, indent=1, default=str)
            lines.append("VIOLATION property=%s replay=%s no-failing-input-found" % (self.prop, path))
            viol += 1
            rc = 1
        self.write_evidence(viol, [k for k, _ in hit.values()])
        for l in lines:
            print(l, flush=True)
        if rc == 0:
            print("OK property=%s tier=%s obligations=%d evaluations=%d wall=%.1fs" % (
                self.prop, self.tier, len(self.obligations), self.cov["evaluations"], time.time() - self.t0),
                flush=True)
        return rc

    def write_evidence(self, viol, known_hit):
        level = getattr(self.module, "LEVEL", "proof")
        cov = dict(self.cov)
        n_ob = len(self.obligations)
        n_ok = sum(1 for o in self.obligations if o["ok"])
        cov.update({
            "obligations": n_ob, "discharged": n_ok,
            "checker_cmd": "make -C /verif/coq %s.vo && coqc -Q . MD %s (Print Assumptions under every theorem)" % (
                getattr(self.module, "THEOREMS", "")[:-2], getattr(self.module, "THEOREMS", "")),
            "trusted_base": ["Coq 8.16.1 kernel + vm_compute (no native_compute)",
                             "axioms reported by Print Assumptions: %s" % (self.notes.get("axioms_used") or "none"),
                             ] + list(getattr(self.module, "TRUSTED", [])),
            "theorems": [o["name"] for o in self.obligations],
            "distinct_nontrivial": self.nontrivial,
            "traces_validated_against_impl": self.cov["evaluations"],
            "rule": getattr(self.module, "RULE", ""),
            "broken": [b["name"] for b in self.broken],
            "known_findings_reproduced": [k["id"] for k in known_hit],
        })
        cov.update(self.notes.get("coverage_extra", {}))
        if "exhaustive" in cov and not isinstance(cov["exhaustive"], bool):
            cov["exhaustive_scope"] = cov["exhaustive"]
            cov["exhaustive"] = bool(cov["exhaustive"])
        for k in ("states", "transitions", "programs", "disagreements_checked", "evaluations"):
            if k in cov and not isinstance(cov[k], int):
                cov[k + "_detail"] = cov.pop(k)
        if not cov["samples"]:
            cov["samples"] = [{"note": "no correspondence cases in this run"}]
        ev = {"property_id": self.prop, "tier": self.tier, "seed": self.seed, "level": level,
              "coverage": cov, "assumptions": list(getattr(self.module, "ASSUMPTIONS", [])),
              "wall_s": round(time.time() - self.t0, 2), "violations": viol}
        # runs against a scratch copy of the repository (VERIF_REPO) must not overwrite the evidence
        # of the registered checks, which always comes from /repo itself
        evdir = os.path.join(VERIF, "evidence") if (REPO == "/repo" and not getattr(self, "dev_run", False)) else os.environ.get(
            "VERIF_ALT_EVIDENCE", "/var/tmp/verif-alt-evidence")
        os.makedirs(evdir, exist_ok=True)
        with open(os.path.join(evdir, "%s.json" % self.prop), "w") as fh:
            json.dump(ev, fh, indent=1, default=str)

    def cleanup(self):
        shutil.rmtree(self.tmp, ignore_errors=True)


def gen_coqproject():
    """_CoqProject lists every .v file under coq/ (sorted); rewritten only when the set changes."""
    files = []
    for root, _d, fs in os.walk(COQ):
        for fn in fs:
            if fn.endswith(".v") and not fn.startswith("."):
                files.append(os.path.relpath(os.path.join(root, fn), COQ))
    text = "-Q . MD\n-arg -w -arg -notation-overridden,-deprecated-hint-without-locality,-ambiguous-paths\n" + "\n".join(sorted(files)) + "\n"
    p = os.path.join(COQ, "_CoqProject")
    old = open(p).read() if os.path.exists(p) else None
    if old != text:
        with open(p, "w") as fh:
            fh.write(text)


def load_known():
    """KNOWN_FINDINGS.json (the committed list) plus per-property fragments known_findings/*.json
    (same schema; merged into the single file by tools/merge_known.py)."""
    out = []
    seen = set()
    # the per-property fragments are the working copies and take precedence over the merged file
    paths = []
    fd = os.path.join(VERIF, "known_findings")
    if os.path.isdir(fd):
        paths += [os.path.join(fd, f) for f in sorted(os.listdir(fd)) if f.endswith(".json")]
    paths.append(os.path.join(VERIF, "KNOWN_FINDINGS.json"))
    for p in paths:
        if not os.path.exists(p):
            continue
        with open(p) as fh:
            for k in json.load(fh).get("findings", []):
                if k["id"] not in seen:
                    seen.add(k["id"])
                    out.append(k)
    return out


def _m1(val, cond):
    if isinstance(cond, dict):
        for op, v in cond.items():
            if op == "in" and val not in v:
                return False
            if op == "gt" and not (val is not None and val > v):
                return False
            if op == "ge" and not (val is not None and val >= v):
                return False
            if op == "lt" and not (val is not None and val < v):
                return False
            if op == "ne" and val == v:
                return False
        return True
    return val == cond


def match_known(known, f):
    """A failure is covered by a known finding iff every key of its matcher agrees with the
    failure's tags (narrow: a failure with different tags is a new violation)."""
    tags = f.get("tags") or {}
    for k in known:
        m = k.get("matcher") or {}
        if m and all(_m1(tags.get(key), cond) for key, cond in m.items()):
            return k
    return None
