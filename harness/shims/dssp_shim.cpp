// C15 shim: drives mdtraj's dssp() (mdtraj/geometry/src/dssp.cpp, #included below from the repo
// working tree given with -I) with SYNTHETIC hydrogen-bond tables.
//
// dssp() obtains its H-bonds by calling kabsch_sander(); this translation unit does not link
// geometry.cpp but defines kabsch_sander itself: it copies the table of the current frame into the
// output array.  Everything else (skip mask from -1 indices, calculate_beta_sheets,
// calculate_bends on real coordinates, calculate_alpha_helices, char map, frame loop) is mdtraj's code.
//
// Bends: residue i's CA is placed on one of two interleaved planar paths (even / odd residues) of unit
// steps whose direction turns by turn_deg[i] degrees at residue i, so kappa(i-2,i,i+2) = turn_deg[i].
#include "dssp.cpp"
#include <string.h>

static const int* g_hb = 0;
static const float* g_en = 0;
static int g_frame = 0;

// Like the real kabsch_sander, this stand-in does NOT initialise its output arrays: it relies on what
// dssp() hands it for the frame and only stores a bond when it beats what is already there (the logic of
// store_energies in geometry.cpp).  State carried over from a previous frame therefore shows.
static void shim_store(int* hbonds, float* henergies, int donor, int acceptor, float e) {
    float e0 = henergies[2*donor], e1 = henergies[2*donor+1];
    if (isnan(e0) || e < e0) {
        hbonds[2*donor+1] = hbonds[2*donor]; henergies[2*donor+1] = e0;
        hbonds[2*donor] = acceptor; henergies[2*donor] = e;
    } else if (isnan(e1) || e < e1) {
        hbonds[2*donor+1] = acceptor; henergies[2*donor+1] = e;
    }
}

extern "C" void kabsch_sander(const float* xyz, const int* nco_indices, const int* ca_indices,
                   const int* is_proline, const int n_frames, const int n_atoms,
                   const int n_residues, int* hbonds, float* henergies) {
    for (int d = 0; d < n_residues; d++)
        for (int k = 0; k < 2; k++) {
            int a = g_hb[g_frame * 2 * n_residues + 2*d + k];
            if (a >= 0)
                shim_store(hbonds, henergies, d, a, g_en[g_frame * 2 * n_residues + 2*d + k]);
        }
    g_frame++;
}

// missing[i] bitmask: 1 = N, 2 = C, 4 = O, 8 = CA absent
extern "C" int shim_dssp(int n_frames, int n, const int* hb, const float* en, const int* chain_ids, const int* missing,
                         const int* turn_deg, char* out) {
    const int n_atoms = 4 * n;
    std::vector<float> xyz((size_t) n_frames * n_atoms * 3, 0.0f);
    std::vector<int> nco(3 * n), ca(n), pro(n, 0);
    for (int i = 0; i < n; i++) {
        nco[3*i + 0] = (missing[i] & 1) ? -1 : 4*i;
        nco[3*i + 1] = (missing[i] & 2) ? -1 : 4*i + 2;
        nco[3*i + 2] = (missing[i] & 4) ? -1 : 4*i + 3;
        ca[i] = (missing[i] & 8) ? -1 : 4*i + 1;
    }
    for (int f = 0; f < n_frames; f++) {
        for (int par = 0; par < 2; par++) {
            double x = 0, y = 0, ang = 0;
            for (int i = par; i < n; i += 2) {
                // direction of the step arriving at residue i is `ang`; it turns by turn_deg[i] here
                float* p = &xyz[((size_t) f * n_atoms + 4*i + 1) * 3];
                p[0] = (float) x; p[1] = (float) y; p[2] = par ? 5.0f : 0.0f;
                ang += turn_deg[f * n + i] * (M_PI / 180.0);
                x += cos(ang); y += sin(ang);
            }
        }
    }
    g_hb = hb; g_en = en; g_frame = 0;
    dssp(&xyz[0], &nco[0], &ca[0], &pro[0], chain_ids, n_frames, n_atoms, n, out);
    return g_frame;
}

// direct access to the static bridge test (symmetry probe)
extern "C" int shim_test_bridge(int i, int j, int n, const int* chain_ids, const int* hb) {
    return (int) _residue_test_bridge(i, j, n, chain_ids, hb);
}
