// C14 shim: direct access to the static store_energies() of mdtraj/geometry/src/geometry.cpp
// (#included from the repo working tree given with -I), so that call sequences -- ties, NaN-initialised and
// zero-initialised slots -- can be driven exhaustively.
#include "geometry.cpp"

extern "C" void shim_store(int* hbonds, float* henergies, int donor, int acceptor, float e) {
    store_energies(hbonds, henergies, donor, acceptor, e);
}
