// Shim for C13: obtains the float32 golden-spiral sphere points exactly as mdtraj's kernel generates
// them, by including the repository's own sasa.cpp (generate_sphere_points is static there).
// Built per run from the working tree:  g++ <flags of the _geometry extension> -I<repo>/mdtraj/geometry/include
//   -I<repo>/mdtraj/geometry/src sasa_points.cpp -o sasa_points
// usage: sasa_points n1 n2 ...   ->  one line per n:  "n  bits(x0) bits(y0) bits(z0) bits(x1) ..."
#include "sasa.cpp"
#include <cstring>
#include <stdint.h>

int main(int argc, char** argv) {
    for (int a = 1; a < argc; a++) {
        int n = atoi(argv[a]);
        if (n <= 0) continue;
        float* p = (float*) malloc(sizeof(float) * 3 * n);
        generate_sphere_points(p, n);
        printf("%d", n);
        for (int i = 0; i < 3 * n; i++) {
            uint32_t u;
            memcpy(&u, &p[i], 4);
            printf(" %u", (unsigned) u);
        }
        printf("\n");
        free(p);
    }
    return 0;
}
