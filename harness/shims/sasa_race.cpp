// Stress shim for C08 (thorough tier): includes the repository's sasa.cpp, is compiled with -O0 so that variables shared
// between the threads of the omp parallel region live in memory, and runs 4000 tiny frames on 16 threads.  Prints the
// number of output entries that differ from the value every entry must have.
#include "sasa.cpp"
#include <vector>
int main(){
  int nf=4000, na=3000; std::vector<float> xyz(nf*na*3), rad(na,0.01f), out(nf*na,0.f);
  std::vector<int> map(na), mask(na,0);
  for(int i=0;i<na;i++){ map[i]=i; if(i%300==7) mask[i]=1; }
  for(int f=0;f<nf;f++) for(int i=0;i<na;i++){ xyz[(f*na+i)*3]=0.2f*(i%10); xyz[(f*na+i)*3+1]=0.2f*((i/10)%10); xyz[(f*na+i)*3+2]=0.25f*(i/100);}
  sasa(nf,na,&xyz[0],&rad[0],1,&map[0],&mask[0],na,&out[0]);
  int bad=0; float want=4.0f*3.14159265f*0.0001f;
  for(int f=0;f<nf;f++) for(int i=0;i<na;i++){ float w = mask[i]? want:0.f; if(fabs(out[f*na+i]-w)>1e-7) bad++; }
  printf("mismatching entries: %d\n",bad); return 0; }
