"""Shadow build of mdtraj's C/C++ extensions from /repo's working tree (DESIGN.md 2.3).

Cython is not installed in this sandbox, so the pre-generated glue (.c/.cpp emitted by
Cython, git-ignored, present next to the sources) is compiled instead of the .pyx.  The
ten Extension declarations of /repo/setup.py are re-stated here.

    shadow_tree(repo, exts, tmpdir) -> path to put on PYTHONPATH, or None when /repo's
                                       in-place binaries are current for all `exts`
    pyx_drift(repo)                 -> list of .pyx/.pxi whose code lines are not the
                                       ones embedded in the generated glue

Built objects are cached by source hash under $VERIF_EXTCACHE (default
/var/tmp/verif-extcache); the cache is only an optimisation.
"""
import hashlib
import json
import os
import re
import subprocess
import sys

HERE = os.path.dirname(os.path.abspath(__file__))
PYINC = "/root/.pyenv/versions/3.12.1/include/python3.12"
NPINC = "/venv/lib/python3.12/site-packages/numpy/_core/include"
SUFFIX = ".cpython-312-x86_64-linux-gnu.so"
OPT = ["-O3", "-funroll-loops", "-fopenmp", "-msse2", "-mssse3"]

# name -> (so path, C/C++ sources, generated glue, include dirs, c++?, flags, defines, pyx sources)
EXTS = {
    "xtc": ("mdtraj/formats/xtc", ["mdtraj/formats/xtc/src/xdrfile.c", "mdtraj/formats/xtc/src/xdr_seek.c",
                                   "mdtraj/formats/xtc/src/xdrfile_xtc.c"], "mdtraj/formats/xtc/xtc.c",
            ["mdtraj/formats/xtc/include/", "mdtraj/formats/xtc/"], False, ["-O2"], [], ["mdtraj/formats/xtc/xtc.pyx"]),
    "trr": ("mdtraj/formats/trr", ["mdtraj/formats/xtc/src/xdrfile.c", "mdtraj/formats/xtc/src/xdr_seek.c",
                                   "mdtraj/formats/xtc/src/xdrfile_trr.c"], "mdtraj/formats/xtc/trr.c",
            ["mdtraj/formats/xtc/include/", "mdtraj/formats/xtc/"], False, ["-O2"], [], ["mdtraj/formats/xtc/trr.pyx"]),
    "dcd": ("mdtraj/formats/dcd", ["mdtraj/formats/dcd/src/dcdplugin.c"], "mdtraj/formats/dcd/dcd.c",
            ["mdtraj/formats/dcd/include/", "mdtraj/formats/dcd/"], False, ["-O2"], [], ["mdtraj/formats/dcd/dcd.pyx"]),
    "dtr": ("mdtraj/formats/dtr", ["mdtraj/formats/dtr/src/dtrplugin.cxx"], "mdtraj/formats/dtr/dtr.cpp",
            ["mdtraj/formats/dtr/include/", "mdtraj/formats/dtr/"], True, ["-O2"], ["-DDESRES_READ_TIMESTEP2=1"],
            ["mdtraj/formats/dtr/dtr.pyx"]),
    "_rmsd": ("mdtraj/_rmsd", ["mdtraj/rmsd/src/theobald_rmsd.cpp", "mdtraj/rmsd/src/rotation.cpp",
                               "mdtraj/rmsd/src/center.cpp"], "mdtraj/rmsd/_rmsd.cpp", ["mdtraj/rmsd/include"], True,
              OPT, [], ["mdtraj/rmsd/_rmsd.pyx"]),
    "_lprmsd": ("mdtraj/_lprmsd", ["mdtraj/rmsd/src/theobald_rmsd.cpp", "mdtraj/rmsd/src/rotation.cpp",
                                   "mdtraj/rmsd/src/center.cpp", "mdtraj/rmsd/src/fancy_index.cpp",
                                   "mdtraj/rmsd/src/Munkres.cpp", "mdtraj/rmsd/src/euclidean_permutation.cpp"],
                "mdtraj/rmsd/_lprmsd.cpp", ["mdtraj/rmsd/include"], True, OPT, [], ["mdtraj/rmsd/_lprmsd.pyx"]),
    "_geometry": ("mdtraj/geometry/_geometry", ["mdtraj/geometry/src/sasa.cpp", "mdtraj/geometry/src/dssp.cpp",
                                                "mdtraj/geometry/src/geometry.cpp"], "mdtraj/geometry/src/_geometry.cpp",
                  ["mdtraj/geometry/include", "mdtraj/geometry/src/kernels", "mdtraj/geometry/src"], True, OPT, [],
                  ["mdtraj/geometry/src/_geometry.pyx", "mdtraj/geometry/src/image_molecules.pxi"]),
    "drid": ("mdtraj/geometry/drid", ["mdtraj/geometry/src/dridkernels.cpp", "mdtraj/geometry/src/moments.cpp"],
             "mdtraj/geometry/drid.cpp", ["mdtraj/geometry/include"], True, OPT, [], ["mdtraj/geometry/drid.pyx"]),
    "neighbors": ("mdtraj/geometry/neighbors", ["mdtraj/geometry/src/neighbors.cpp"], "mdtraj/geometry/neighbors.cpp",
                  ["mdtraj/geometry/include"], True, OPT, [], ["mdtraj/geometry/neighbors.pyx"]),
    "neighborlist": ("mdtraj/geometry/neighborlist", ["mdtraj/geometry/src/neighborlist.cpp"],
                     "mdtraj/geometry/neighborlist.cpp", ["mdtraj/geometry/include"], True, OPT, [],
                     ["mdtraj/geometry/neighborlist.pyx"]),
}


def _files_for_hash(repo, name):
    so, srcs, glue, incs, _cxx, _fl, _df, _pyx = EXTS[name]
    files = list(srcs) + [glue]
    # headers next to the sources (e.g. rmsd/src/theobald_rmsd_sse.h) are #included too
    for inc in list(incs) + sorted({os.path.dirname(x) for x in srcs}):
        d = os.path.join(repo, inc)
        if os.path.isdir(d):
            for fn in sorted(os.listdir(d)):
                if fn.endswith((".h", ".hpp", ".hxx")):
                    files.append(os.path.join(inc, fn))
    return sorted(set(files))


def source_hash(repo, name):
    h = hashlib.sha256()
    for rel in _files_for_hash(repo, name):
        p = os.path.join(repo, rel)
        h.update(rel.encode())
        try:
            with open(p, "rb") as fh:
                h.update(fh.read())
        except OSError:
            h.update(b"<missing>")
    return h.hexdigest()


def _manifest():
    p = os.path.join(HERE, "build_manifest.json")
    if os.path.exists(p):
        with open(p) as fh:
            return json.load(fh)
    return {}


def build(repo, name, out_so):
    so, srcs, glue, incs, cxx, flags, defines, _pyx = EXTS[name]
    cc = "g++" if cxx else "gcc"
    cmd = [cc, "-shared", "-fPIC", "-w"] + flags + (["--std=c++11"] if cxx else []) + defines
    cmd += ["-I" + os.path.join(repo, i) for i in incs] + ["-I" + NPINC, "-I" + PYINC]
    cmd += [os.path.join(repo, s) for s in srcs] + [os.path.join(repo, glue)]
    cmd += ["-o", out_so]
    if "-fopenmp" in flags:
        cmd += ["-lgomp"]
    r = subprocess.run(cmd, stdout=subprocess.PIPE, stderr=subprocess.STDOUT, text=True)
    if r.returncode != 0:
        raise RuntimeError("shadow build of %s failed:\n%s" % (name, r.stdout[-3000:]))


def need_rebuild(repo, names):
    man = _manifest()
    return [n for n in names if n in EXTS and man.get(n) != source_hash(repo, n)]


def shadow_tree(repo, names, tmpdir):
    """Return a directory to put first on PYTHONPATH in which mdtraj is /repo's tree with the
    stale extensions replaced by fresh builds; None if nothing is stale."""
    stale = need_rebuild(repo, names)
    if not stale:
        return None
    cache = os.environ.get("VERIF_EXTCACHE", "/var/tmp/verif-extcache")
    os.makedirs(cache, exist_ok=True)
    root = os.path.join(tmpdir, "shadow")
    if not os.path.isdir(root):
        os.makedirs(root)
        subprocess.run(["cp", "-as", os.path.join(repo, "mdtraj"), os.path.join(root, "mdtraj")], check=True)
    for n in stale:
        h = source_hash(repo, n)
        cached = os.path.join(cache, "%s-%s.so" % (n, h[:20]))
        if not os.path.exists(cached):
            tmp = cached + ".%d.tmp" % os.getpid()
            build(repo, n, tmp)
            os.replace(tmp, cached)
        dst = os.path.join(root, EXTS[n][0] + SUFFIX)
        if os.path.lexists(dst):
            os.unlink(dst)
        subprocess.run(["cp", cached, dst], check=True)
    return root


# ---------------------------------------------------------------------------------------------
def _code_lines(text):
    """Code lines of a .pyx/.pxi with comments, docstrings and blank lines removed."""
    text = re.sub(r'("""|\'\'\')(?:.|\n)*?\1', '""', text)
    out = []
    for line in text.splitlines():
        line = re.sub(r"#.*$", "", line).rstrip()
        if line.strip() and line.strip() != '""':
            out.append(re.sub(r"\s+", " ", line.strip()))
    return out


def pyx_code_hash(repo, rel):
    try:
        with open(os.path.join(repo, rel)) as fh:
            return hashlib.sha256("\n".join(_code_lines(fh.read())).encode()).hexdigest()
    except OSError:
        return "<missing>"


def pyx_drift(repo, names=None):
    """The .pyx/.pxi sources cannot be compiled here (no Cython).  build_manifest.json records, for
    the pinned tree, the hash of each file's code lines (comments/docstrings/blank lines stripped)
    together with the hash of the generated glue that reflects it.  A .pyx whose code changed while
    its glue did not is not reflected by any binary that can be built: reported as drift."""
    man = _manifest().get("pyx", {})
    drift = []
    for n in (names or EXTS):
        glue_rel = EXTS[n][2]
        for pyx in EXTS[n][7]:
            rec = man.get(pyx)
            if rec is None:
                continue
            if pyx_code_hash(repo, pyx) != rec["code"]:
                gh = hashlib.sha256(open(os.path.join(repo, glue_rel), "rb").read()).hexdigest() \
                    if os.path.exists(os.path.join(repo, glue_rel)) else "<missing>"
                if gh == rec["glue"]:
                    drift.append(pyx)
    return drift


if __name__ == "__main__":
    repo = sys.argv[2] if len(sys.argv) > 2 else "/repo"
    if sys.argv[1] == "record":
        man = {n: source_hash(repo, n) for n in EXTS}
        man["pyx"] = {}
        for n in EXTS:
            gh = hashlib.sha256(open(os.path.join(repo, EXTS[n][2]), "rb").read()).hexdigest()
            for pyx in EXTS[n][7]:
                man["pyx"][pyx] = {"code": pyx_code_hash(repo, pyx), "glue": gh}
        with open(os.path.join(HERE, "build_manifest.json"), "w") as fh:
            json.dump(man, fh, indent=1)
        print("recorded", len(man))
    elif sys.argv[1] == "status":
        print("stale:", need_rebuild(repo, list(EXTS)))
        print("pyx drift:", pyx_drift(repo))
    elif sys.argv[1] == "inplace":
        # rebuild /repo's in-place binaries of the named extensions (after a C/C++ 'fix:' commit)
        for n in sys.argv[3:]:
            build(repo, n, os.path.join(repo, EXTS[n][0] + SUFFIX))
            print("rebuilt", n)
