(* The bend angle of calculate_bends (dssp.cpp) on exact coordinates (C15).  Definitions only; proofs in
   Dssp/BendR.v.

     u = CA[i-2] - CA[i],  v = CA[i] - CA[i+2]
     cosangle = dot(u, v) / sqrtf(dot(u, u) * dot(v, v));   kappa = acosf(CLIP(cosangle, -1, 1));
     is_bend[i] = kappa > 70 * (M_PI / 180)

   Every float32 coordinate is a dyadic rational; the CA coordinates of a frame are handed over as integers
   in a common unit (the test does not depend on the unit).  kappa > deg degrees is decided on the integers
   D = dot(u, v), A = |u|^2, B = |v|^2 with the proved rational enclosure of cos(deg degrees) of Hbond/Angle.v:
        kappa_sure  = true   implies   acos(clip(D / sqrt(A B))) > deg degrees          (BendR.kappa_sure_sound)
        kappa_maybe = false  implies   the negation                                      (BendR.kappa_maybe_complete)
   Coinciding CA atoms (A B = 0): the C code divides 0 by 0, the NaN fails the comparison inside the MAX
   macro of CLIP, which therefore yields -1, and acosf(-1) = pi > 70 degrees: the residue IS a bend.  Modelled as
   found (kappa_gt = true); the real-valued theorems assume A, B > 0. *)
From Coq Require Import List ZArith QArith Bool Arith.
Import ListNotations.
Require Import MD.Hbond.Model MD.Hbond.Angle MD.Dssp.Model.

Definition cavec := option (Z * Z * Z).

Definition kappa_terms (p t nx : Z * Z * Z) : Z * Z * Z :=
  match p, t, nx with
  | (px, py, pz), (tx, ty, tz), (nx_, ny, nz) =>
    let ux := (px - tx)%Z in let uy := (py - ty)%Z in let uz := (pz - tz)%Z in
    let vx := (tx - nx_)%Z in let vy := (ty - ny)%Z in let vz := (tz - nz)%Z in
    ((ux * vx + uy * vy + uz * vz)%Z, (ux * ux + uy * uy + uz * uz)%Z, (vx * vx + vy * vy + vz * vz)%Z)
  end.

(* sure = true: certainly kappa > deg; sure = false: possibly *)
Definition kappa_gt (sure : bool) (deg : Q) (p t nx : Z * Z * Z) : bool :=
  match kappa_terms p t nx with
  | (D, A, B) =>
    if (A * B =? 0)%Z then true
    else if sure then angle_gt_sure deg (2 * D) A B else angle_gt_maybe deg (2 * D) A B
  end.

Definition ca_at (ca : list cavec) (i : nat) : cavec := nth i ca None.

(* the geometric flag of every residue: what the model's is_bend reads as "geom" (it is read only where the
   residues i-2, i, i+2 exist, are complete and lie in one chain; elsewhere the value is irrelevant) *)
Definition geom_flags (sure : bool) (deg : Q) (ca : list cavec) : list bool :=
  map (fun i => match (if 2 <=? i then ca_at ca (i - 2) else None), ca_at ca i, ca_at ca (i + 2) with
                | Some p, Some t, Some nx => kappa_gt sure deg p t nx
                | _, _, _ => false
                end) (seq 0 (length ca)).

(* one end-to-end case with exact CA coordinates:
   (simplified, n, chain ids, incomplete mask, H-bond table, CA coordinates, guard in degrees) *)
Definition xyz_case_ty := (bool * nat * list nat * list bool * hbtable * list cavec * Q)%type.

Definition bend_deg : Q := inject_Z (Z.of_nat MD.Gen.DsspTables.bend_angle_degrees).

(* residues whose bend flag is read by the model and is not decided by the enclosure +- guard *)
Definition bend_ambiguous (n : nat) (ch : list nat) (skip : list bool) (ca : list cavec) (guard : Q) : list nat :=
  let gs := geom_flags true (Qplus bend_deg guard) ca in
  let gm := geom_flags false (Qminus bend_deg guard) ca in
  filter (fun i => is_bend n ch skip (repeat true n) i && negb (Bool.eqb (nth i gs false) (nth i gm false)))
         (seq 0 n).

(* None: some bend flag that matters lies within the guard band of the threshold (excluded, counted) *)
Definition run_case_xyz (c : xyz_case_ty) : option (list String.string) :=
  match c with
  | (simp, n, ch, skip, hb, ca, guard) =>
    match bend_ambiguous n ch skip ca guard with
    | [] => Some (compute_dssp simp n ch skip hb (geom_flags true (Qplus bend_deg guard) ca))
    | _ => None
    end
  end.
Definition run_case_xyz_spec (c : xyz_case_ty) : option (list String.string) :=
  match c with
  | (simp, n, ch, skip, hb, ca, guard) =>
    match bend_ambiguous n ch skip ca guard with
    | [] => Some (compute_dssp_spec simp n ch skip hb (geom_flags true (Qplus 70 guard) ca))
    | _ => None
    end
  end.

Definition check_xyz (o : option (list String.string)) (e : list String.string) : bool :=
  match o with None => true | Some l => strs_eqb l e end.
Definition xyz_excluded (c : xyz_case_ty) : bool :=
  match run_case_xyz c with None => true | Some _ => false end.
Definition run_sensitive_xyz (c : xyz_case_ty) : bool :=
  match c with (_, n, ch, skip, hb, _, _) => sort_sensitive n ch skip hb end.
