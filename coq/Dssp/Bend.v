(* The bend angle of calculate_bends (dssp.cpp) on exact coordinates (C15).  Definitions only; proofs in
   Dssp/BendR.v.

     u = CA[i-2] - CA[i],  v = CA[i] - CA[i+2]
     cosangle = dot(u, v) / sqrtf(dot(u, u) * dot(v, v));   kappa = acosf(CLIP(cosangle, -1, 1));
     is_bend[i] = kappa > 70 * (M_PI / 180)

   Every float32 coordinate is a dyadic rational; the CA coordinates of a frame are handed over as integers
   in a common unit (the test does not depend on the unit).  kappa > deg degrees is decided on the integers
   D = dot(u, v), A = |u|^2, B = |v|^2 with the proved rational enclosure of cos(deg degrees) of Hbond/Angle.v:
        kappa_sure  = true   implies   acos(clip(D / sqrt(A B))) > deg degrees          (BendR.kappa_sure_sound)
        kappa_maybe = false  implies   the negation                                      (BendR.kappa_maybe_complete)
   Coinciding CA atoms (A B = 0): the C code divides 0 by 0, the NaN fails the comparison inside the MAX
   macro of CLIP, which therefore yields -1, and acosf(-1) = pi > 70 degrees: the residue IS a bend.  Modelled as
   found (kappa_gt = true); the real-valued theorems assume A, B > 0. *)
From Coq Require Import List ZArith QArith Bool Arith.
Import ListNotations.
Require Import MD.Hbond.Model MD.Hbond.Angle MD.Hbond.KsModel MD.Hbond.KsWrap MD.Dssp.Model.

Definition cavec := option (Z * Z * Z).

Definition kappa_terms (p t nx : Z * Z * Z) : Z * Z * Z :=
  match p, t, nx with
  | (px, py, pz), (tx, ty, tz), (nx_, ny, nz) =>
    let ux := (px - tx)%Z in let uy := (py - ty)%Z in let uz := (pz - tz)%Z in
    let vx := (tx - nx_)%Z in let vy := (ty - ny)%Z in let vz := (tz - nz)%Z in
    ((ux * vx + uy * vy + uz * vz)%Z, (ux * ux + uy * uy + uz * uz)%Z, (vx * vx + vy * vy + vz * vz)%Z)
  end.

(* the test against a rational bound k = (kn, kd) on cos(threshold):  D / sqrt(A B) < kn / kd *)
Definition kappa_lt_cos (k : Z * Z) (p t nx : Z * Z * Z) : bool :=
  match kappa_terms p t nx with
  | (D, A, B) => if (A * B =? 0)%Z then true else cos_lt (2 * D) A B (fst k) (snd k)
  end.

(* sure = true: lower end of the enclosure of cos(deg degrees) (certainly kappa > deg); false: upper end (possibly) *)
Definition cos_bound (sure : bool) (deg : Q) : Z * Z :=
  pair_of_q (if sure then qcosdeg_lo deg else qcosdeg_hi deg).

Definition kappa_gt (sure : bool) (deg : Q) (p t nx : Z * Z * Z) : bool := kappa_lt_cos (cos_bound sure deg) p t nx.

Definition ca_at (ca : list cavec) (i : nat) : cavec := nth i ca None.

(* the geometric flag of every residue: what the model's is_bend reads as "geom" (it is read only where the
   residues i-2, i, i+2 exist, are complete and lie in one chain; elsewhere the value is irrelevant) *)
Definition geom_flags_k (k : Z * Z) (ca : list cavec) : list bool :=
  map (fun i => match (if 2 <=? i then ca_at ca (i - 2) else None), ca_at ca i, ca_at ca (i + 2) with
                | Some p, Some t, Some nx => kappa_lt_cos k p t nx
                | _, _, _ => false
                end) (seq 0 (length ca)).
Definition geom_flags (sure : bool) (deg : Q) (ca : list cavec) : list bool := geom_flags_k (cos_bound sure deg) ca.

(* ---------------------------------------------------------------- correspondence glue *)
(* threshold of today's source (regenerated table) and the guard band that covers mdtraj's float32 evaluation
   of dot products, sqrtf and acosf (a few 1e-7 rad): 1/1000 degree = 1.7e-5 rad *)
Definition bend_deg : Q := inject_Z (Z.of_nat MD.Gen.DsspTables.bend_angle_degrees).
Definition bend_guard : Q := 1 # 1000.
(* the two bounds, evaluated once when this file is compiled (Dssp/BendR.v: bend_bounds_are_the_enclosure) *)
Definition bend_k_sure : Z * Z := Eval vm_compute in cos_bound true (Qplus bend_deg bend_guard).
Definition bend_k_maybe : Z * Z := Eval vm_compute in cos_bound false (Qminus bend_deg bend_guard).
Definition spec_k_sure : Z * Z := Eval vm_compute in cos_bound true (Qplus 70 bend_guard).
Definition spec_k_maybe : Z * Z := Eval vm_compute in cos_bound false (Qminus 70 bend_guard).

(* one end-to-end frame as the topology and the frame present it:
   (chain index per residue, residues with their atom names, H-bond table, CA coordinates).
   n = number of residues; the incomplete-residue mask (skip in dssp.cpp, not is_protein in dssp.py) is derived
   by the model of _prep_kabsch_sander_arrays (Hbond/KsWrap.v): a residue lacks an atom named N, CA, C or O *)
Definition xyz_frame_ty := (list nat * list res_desc * hbtable * list cavec)%type.
Definition skip_of (rs : list res_desc) : list bool := map (fun r => r_skip (prep_residue r)) rs.

(* residues whose bend flag is read by the model and is not decided by the enclosure +- guard *)
Definition bend_ambiguous (n : nat) (ch : list nat) (skip : list bool) (gs gm : list bool) : list nat :=
  filter (fun i => is_bend n ch skip (repeat true n) i && negb (Bool.eqb (nth i gs false) (nth i gm false)))
         (seq 0 n).

(* (full codes, simplified codes) of one frame; None: some bend flag that matters lies within the guard band of
   the threshold (the model abstains; counted) *)
Definition run_frame_k (spec : bool) (ks km : Z * Z) (c : xyz_frame_ty) : option (list String.string * list String.string) :=
  match c with
  | (ch, rs, hb, ca) =>
    let n := length rs in let skip := skip_of rs in
    let gs := geom_flags_k ks ca in
    let gm := geom_flags_k km ca in
    match bend_ambiguous n ch skip gs gm with
    | [] => if spec then Some (compute_dssp_spec false n ch skip hb gs, compute_dssp_spec true n ch skip hb gs)
            else Some (compute_dssp false n ch skip hb gs, compute_dssp true n ch skip hb gs)
    | _ => None
    end
  end.
Definition run_frame_xyz := run_frame_k false bend_k_sure bend_k_maybe.
Definition run_frame_xyz_spec := run_frame_k true spec_k_sure spec_k_maybe.

Definition check_frame (o : option (list String.string * list String.string))
           (e : list String.string * list String.string) : bool :=
  match o with None => true | Some (f, s) => strs_eqb f (fst e) && strs_eqb s (snd e) end.
Definition frame_excluded (o : option (list String.string * list String.string)) : bool :=
  match o with None => true | Some _ => false end.
Definition run_sensitive_xyz (c : xyz_frame_ty) : bool :=
  match c with (ch, rs, hb, _) => sort_sensitive (length rs) ch (skip_of rs) hb end.
