(* Bulge merging of ladders in the DSSP model (C15): the "Extend ladders" loop of calculate_beta_sheets
   characterised for ALL ladder sets.

   The loop is greedy: the records are scanned in sorted order; the current record absorbs, in order,
   every later record that satisfies the bulge rule AGAINST THE LADDER ACCUMULATED SO FAR; absorbed
   records are erased; then the next surviving record becomes the current one.  This file

     - names the outcome: [groups] partitions the sorted record list into merge groups (the members of
       each final record, in order) and  merge_all = map merge_group groups          (merge_all_groups)
     - proves that the groups are a partition of the record list                     (groups_partition)
     - states the bulge rule in the published form (gaps on the two strands)         (should_merge_spec)
     - proves that a merged ladder is described by its first and last member only    (group_ends)
     - proves that every absorbed record satisfied the rule and every record passed over did not,
       at the moment it was examined                                                 (group_into_scan)
     - derives the E / B marking for every ladder set                                (sheet_rule_all)  *)
From Coq Require Import List Arith Bool Lia Sorting.Permutation.
Import ListNotations.
Require Import MD.Gen.DsspTables MD.Dssp.Model MD.Dssp.Proofs MD.Dssp.Bridges.
Local Open Scope nat_scope.

(* ------------------------------------------------------------------ groups *)
Definition dummy_bridge : bridge := mkBridge BRIDGE_NONE [] [] 0 0.

(* the record obtained by merging the members of a group, first member first *)
Definition merge_group (g : list bridge) : bridge :=
  match g with [] => dummy_bridge | c :: r => fold_left merge_bridge r c end.

(* merge_into, keeping the members *)
Fixpoint group_into (ch : list nat) (g : list bridge) (rest : list bridge) : list bridge * list bridge :=
  match rest with
  | [] => (g, [])
  | c :: r =>
    if should_merge ch (merge_group g) c then group_into ch (g ++ [c]) r
    else let (g', r') := group_into ch g r in (g', c :: r')
  end.

Fixpoint groups (fuel : nat) (ch : list nat) (bs : list bridge) : list (list bridge) :=
  match fuel with
  | 0 => map (fun b => [b]) bs
  | S f =>
    match bs with
    | [] => []
    | b :: rest => let (g, r') := group_into ch [b] rest in g :: groups f ch r'
    end
  end.

Lemma merge_group_snoc : forall g c, g <> [] -> merge_group (g ++ [c]) = merge_bridge (merge_group g) c.
Proof.
  intros [|x g] c H; [contradiction|]. cbn [merge_group app]. now rewrite fold_left_app.
Qed.

Lemma merge_into_group : forall ch rest g, g <> [] ->
  merge_into ch (merge_group g) rest =
  (merge_group (fst (group_into ch g rest)), snd (group_into ch g rest)).
Proof.
  intros ch. induction rest as [|c r IH]; intros g Hg; cbn [merge_into group_into fst snd]; [reflexivity|].
  destruct (should_merge ch (merge_group g) c).
  - rewrite <- merge_group_snoc by assumption. apply IH. now destruct g.
  - rewrite (IH g Hg). destruct (group_into ch g r) as (g', r'). reflexivity.
Qed.

Lemma merge_all_groups : forall ch fuel bs, merge_all fuel ch bs = map merge_group (groups fuel ch bs).
Proof.
  intros ch. induction fuel as [|f IH]; intros bs; cbn [merge_all groups].
  - rewrite map_map. cbn. now rewrite map_id.
  - destruct bs as [|b rest]; [reflexivity|].
    change b with (merge_group [b]) at 1. rewrite merge_into_group by discriminate.
    destruct (group_into ch [b] rest) as (g, r'). cbn [fst snd map]. now rewrite IH.
Qed.

(* ------------------------------------------------------------------ the groups partition the records *)
Lemma group_into_perm : forall ch rest g,
  Permutation (fst (group_into ch g rest) ++ snd (group_into ch g rest)) (g ++ rest).
Proof.
  intros ch. induction rest as [|c r IH]; intros g; cbn [group_into fst snd]; [reflexivity|].
  destruct (should_merge ch (merge_group g) c).
  - rewrite IH. now rewrite <- app_assoc.
  - specialize (IH g). destruct (group_into ch g r) as (g', r'). cbn [fst snd] in *.
    rewrite <- Permutation_middle, IH. apply Permutation_middle.
Qed.

Lemma group_into_length : forall ch rest g, List.length (snd (group_into ch g rest)) <= List.length rest.
Proof.
  intros ch. induction rest as [|c r IH]; intros g; cbn [group_into snd]; [lia|].
  destruct (should_merge ch (merge_group g) c).
  - specialize (IH (g ++ [c])). cbn. lia.
  - specialize (IH g). destruct (group_into ch g r) as (g', r'). cbn in *. lia.
Qed.

Lemma groups_partition : forall ch fuel bs, List.length bs <= fuel \/ fuel = 0 ->
  Permutation (concat (groups fuel ch bs)) bs.
Proof.
  intros ch. induction fuel as [|f IH]; intros bs H; cbn [groups].
  - clear H. induction bs as [|b bs IHb]; cbn; [reflexivity | now constructor].
  - destruct bs as [|b rest]; [reflexivity|].
    pose proof (group_into_perm ch rest [b]) as P. pose proof (group_into_length ch rest [b]) as L.
    destruct (group_into ch [b] rest) as (g, r'). cbn [fst snd concat] in *.
    rewrite IH; [exact P|]. cbn in H. left. lia.
Qed.

Lemma group_into_nonempty : forall ch rest g, g <> [] -> fst (group_into ch g rest) <> [].
Proof.
  intros ch. induction rest as [|c r IH]; intros g H; cbn [group_into fst]; [assumption|].
  destruct (should_merge ch (merge_group g) c).
  - apply IH. now destruct g.
  - specialize (IH g H). now destruct (group_into ch g r).
Qed.

Lemma groups_nonempty : forall ch fuel bs g, In g (groups fuel ch bs) -> g <> [].
Proof.
  intros ch. induction fuel as [|f IH]; intros bs g H; cbn [groups] in H.
  - apply in_map_iff in H as (b & <- & _). discriminate.
  - destruct bs as [|b rest]; [destruct H|].
    pose proof (group_into_nonempty ch rest [b]) as N.
    destruct (group_into ch [b] rest) as (g0, r'). destruct H as [<- | H]; [apply N; discriminate | eauto].
Qed.

(* ------------------------------------------------------------------ the scan, as a derivation *)
(* Scan acc rest absorbed left: scanning [rest] with the ladder accumulated from [acc] absorbs exactly
   [absorbed] (each satisfied the bulge rule against the ladder accumulated when it was examined) and
   passes over [left] (each failed the rule at that moment) *)
Inductive Scan (ch : list nat) : list bridge -> list bridge -> list bridge -> list bridge -> Prop :=
| Scan_nil : forall acc, Scan ch acc [] [] []
| Scan_take : forall acc c r ab lf, should_merge ch (merge_group acc) c = true ->
    Scan ch (acc ++ [c]) r ab lf -> Scan ch acc (c :: r) (c :: ab) lf
| Scan_pass : forall acc c r ab lf, should_merge ch (merge_group acc) c = false ->
    Scan ch acc r ab lf -> Scan ch acc (c :: r) ab (c :: lf).

Lemma group_into_scan : forall ch rest g,
  exists ab, fst (group_into ch g rest) = g ++ ab /\ Scan ch g rest ab (snd (group_into ch g rest)).
Proof.
  intros ch. induction rest as [|c r IH]; intros g; cbn [group_into].
  - exists []. cbn. rewrite app_nil_r. split; [reflexivity | constructor].
  - destruct (should_merge ch (merge_group g) c) eqn:E.
    + destruct (IH (g ++ [c])) as (ab & E1 & S). exists (c :: ab). split.
      * rewrite E1. now rewrite <- app_assoc.
      * now constructor.
    + destruct (IH g) as (ab & E1 & S). destruct (group_into ch g r) as (g', r'). cbn [fst snd] in *.
      exists ab. split; [assumption | now constructor].
Qed.

(* ------------------------------------------------------------------ a merged ladder: type, strands, ends *)
Lemma merge_bridge_type : forall a b, b_type (merge_bridge a b) = b_type a.
Proof. reflexivity. Qed.

Lemma fold_merge_type : forall r c, b_type (fold_left merge_bridge r c) = b_type c.
Proof. induction r as [|x r IH]; intros c; cbn; [reflexivity|]. now rewrite IH. Qed.

Lemma fold_merge_i : forall r c, b_i (fold_left merge_bridge r c) = b_i c ++ concat (map b_i r).
Proof.
  induction r as [|x r IH]; intros c; cbn [fold_left map concat]; [now rewrite app_nil_r|].
  rewrite IH. cbn [merge_bridge b_i]. now rewrite app_assoc.
Qed.

Lemma fold_merge_j_par : forall r c, b_type c = BRIDGE_PARALLEL ->
  b_j (fold_left merge_bridge r c) = b_j c ++ concat (map b_j r).
Proof.
  induction r as [|x r IH]; intros c T; cbn [fold_left map concat]; [now rewrite app_nil_r|].
  rewrite IH by (cbn; assumption). cbn [merge_bridge b_j]. rewrite T. cbn. now rewrite app_assoc.
Qed.

Lemma fold_merge_j_anti : forall r c, b_type c <> BRIDGE_PARALLEL ->
  b_j (fold_left merge_bridge r c) = concat (map b_j (rev r)) ++ b_j c.
Proof.
  induction r as [|x r IH]; intros c T; cbn [fold_left map concat rev]; [reflexivity|].
  rewrite IH by (cbn; assumption). cbn [merge_bridge b_j].
  destruct (btype_eqb (b_type c) BRIDGE_PARALLEL) eqn:E; [apply btype_eqb_eq in E; contradiction|].
  rewrite map_app, concat_app. cbn. now rewrite app_nil_r, app_assoc.
Qed.

Lemma front_app : forall l1 l2, l1 <> [] -> front (l1 ++ l2) = front l1.
Proof. intros [|x l1] l2 H; [contradiction | reflexivity]. Qed.

Lemma back_app : forall l1 l2, l2 <> [] -> back (l1 ++ l2) = back l2.
Proof.
  unfold back. induction l1 as [|x l1 IH]; intros l2 H; [reflexivity|].
  cbn [app]. destruct (l1 ++ l2) eqn:E; [apply app_eq_nil in E as (_ & ->); contradiction|].
  rewrite <- E. cbn [last]. rewrite E. rewrite <- E. apply IH. assumption.
Qed.

Definition strands_nonempty (b : bridge) : Prop := b_i b <> [] /\ b_j b <> [].

Lemma concat_last_nonempty : forall (f : bridge -> list nat) r d,
  r <> [] -> f (last r d) <> [] -> concat (map f r) <> [].
Proof.
  induction r as [|x r IH]; intros d Hr Hl; [contradiction|]. cbn [map concat].
  destruct r as [|y r]; [cbn in *; now rewrite app_nil_r|].
  intros E. apply app_eq_nil in E as (_ & E). revert E. apply (IH d); [discriminate | exact Hl].
Qed.

Lemma back_concat : forall (f : bridge -> list nat) r d, r <> [] -> f (last r d) <> [] ->
  back (concat (map f r)) = back (f (last r d)).
Proof.
  induction r as [|x r IH]; intros d Hr Hl; [contradiction|]. cbn [map concat].
  destruct r as [|y r]; [cbn; now rewrite app_nil_r|].
  rewrite back_app; [apply (IH d); [discriminate | exact Hl]|].
  apply (concat_last_nonempty f (y :: r) d); [discriminate | exact Hl].
Qed.

Lemma front_concat : forall (f : bridge -> list nat) x r, f x <> [] -> front (concat (map f (x :: r))) = front (f x).
Proof. intros. cbn [map concat]. now apply front_app. Qed.

(* the four ends of a merged ladder, from its first member c and its last member l *)
Definition ends_i (c l : bridge) : nat * nat := (front (b_i c), back (b_i l)).
Definition ends_j (c l : bridge) : nat * nat :=
  if btype_eqb (b_type c) BRIDGE_PARALLEL then (front (b_j c), back (b_j l)) else (front (b_j l), back (b_j c)).

Lemma group_ends : forall c r, Forall strands_nonempty (c :: r) ->
  let m := merge_group (c :: r) in let l := last r c in
  b_type m = b_type c /\
  (front (b_i m), back (b_i m)) = ends_i c l /\ (front (b_j m), back (b_j m)) = ends_j c l.
Proof.
  intros c r H m l. unfold m, merge_group.
  apply Forall_cons_iff in H as ((Hci & Hcj) & Hr).
  split; [apply fold_merge_type|]. unfold ends_i, ends_j, l.
  destruct r as [|y r].
  - cbn. destruct (btype_eqb (b_type c) BRIDGE_PARALLEL); auto.
  - assert (Hl : strands_nonempty (last (y :: r) c)).
    { rewrite Forall_forall in Hr. apply Hr.
      destruct (@exists_last _ (y :: r) ltac:(discriminate)) as (l' & a & E).
      rewrite E, last_last. apply in_or_app. right. now left. }
    destruct Hl as (Hli & Hlj). split.
    + rewrite fold_merge_i. rewrite front_app by assumption.
      rewrite back_app by (apply (concat_last_nonempty b_i (y :: r) c); [discriminate | assumption]).
      now rewrite (back_concat b_i (y :: r) c) by (try discriminate; assumption).
    + destruct (btype_eqb (b_type c) BRIDGE_PARALLEL) eqn:E.
      * apply btype_eqb_eq in E. rewrite fold_merge_j_par by assumption. rewrite front_app by assumption.
        rewrite back_app by (apply (concat_last_nonempty b_j (y :: r) c); [discriminate | assumption]).
        now rewrite (back_concat b_j (y :: r) c) by (try discriminate; assumption).
      * assert (T : b_type c <> BRIDGE_PARALLEL) by (intros T; rewrite T in E; discriminate).
        rewrite fold_merge_j_anti by assumption. rewrite back_app by assumption.
        (* the j strand is stored last member first *)
        assert (Hrev : exists r', rev (y :: r) = last (y :: r) c :: r').
        { destruct (@exists_last _ (y :: r) ltac:(discriminate)) as (l' & a & E'). rewrite E', last_last, rev_app_distr.
          cbn. eauto. }
        destruct Hrev as (r' & ->). rewrite front_app; [now rewrite front_concat|].
        cbn [map concat]. intros E'. apply app_eq_nil in E' as (E' & _). contradiction.
Qed.

(* ------------------------------------------------------------------ the bulge rule, published form *)
(* a = the ladder accumulated so far (i strand ibi..iei, j strand jbi..jei), b = the candidate record.
   They merge iff: same type; the i strands, and the j strands, lie in one chain each; b's i strand starts
   after a's ends (no overlap) with a gap of at most 4 residues; b's j strand continues a's in the
   direction of the ladder type; and the two gaps are (<= 4 on j and <= 1 on i) or (<= 1 on j)
   [with <= 4 on i from before].  "gap x y" = residues strictly between positions x < y. *)
Definition gap_le (lo hi k : nat) : Prop := hi <= lo + k + 1.

Lemma should_merge_spec : forall ch a b,
  let ibi := front (b_i a) in let iei := back (b_i a) in
  let jbi := front (b_j a) in let jei := back (b_j a) in
  let ibj := front (b_i b) in let iej := back (b_i b) in
  let jbj := front (b_j b) in let jej := back (b_j b) in
  should_merge ch a b = true <->
  b_type a = b_type b /\
  chain_at ch (Nat.min ibi ibj) = chain_at ch (Nat.max iei iej) /\
  chain_at ch (Nat.min jbi jbj) = chain_at ch (Nat.max jei jej) /\
  gap_le iei ibj 4 /\ ~ (ibj <= iei /\ ibi <= iej) /\
  ((b_type a = BRIDGE_PARALLEL /\ jbi < jbj /\
      ((gap_le jei jbj 4 /\ gap_le iei ibj 1) \/ gap_le jei jbj 1)) \/
   (b_type a <> BRIDGE_PARALLEL /\ jbj < jbi /\
      ((gap_le jej jbi 4 /\ gap_le iei ibj 1) \/ gap_le jej jbi 1))).
Proof.
  intros ch a b ibi iei jbi jei ibj iej jbj jej. unfold should_merge, gap_le.
  fold ibi iei jbi jei ibj iej jbj jej.
  destruct (btype_eqb (b_type a) (b_type b)) eqn:T; cbn [negb orb].
  2:{ split; [discriminate|]. intros (E & _). rewrite E in T.
      assert (btype_eqb (b_type b) (b_type b) = true) by now apply btype_eqb_eq. congruence. }
  apply btype_eqb_eq in T.
  destruct (chain_at ch (Nat.min ibi ibj) =? chain_at ch (Nat.max iei iej)) eqn:C1; cbn [negb orb];
    [apply Nat.eqb_eq in C1 | apply Nat.eqb_neq in C1; split; [discriminate | tauto]].
  destruct (chain_at ch (Nat.min jbi jbj) =? chain_at ch (Nat.max jei jej)) eqn:C2; cbn [negb orb];
    [apply Nat.eqb_eq in C2 | apply Nat.eqb_neq in C2; split; [discriminate | tauto]].
  destruct (iei + 6 <=? ibj) eqn:G; cbn [orb];
    [apply Nat.leb_le in G; split; [discriminate | intros (_ & _ & _ & H & _); lia] | apply Nat.leb_gt in G].
  destruct ((ibj <=? iei) && (ibi <=? iej)) eqn:O.
  { apply andb_true_iff in O as (O1 & O2). apply Nat.leb_le in O1, O2. split; [discriminate | tauto]. }
  assert (NO : ~ (ibj <= iei /\ ibi <= iej)).
  { intros (O1 & O2). apply Nat.leb_le in O1, O2. rewrite O1, O2 in O. discriminate. }
  destruct (btype_eqb (b_type a) BRIDGE_PARALLEL) eqn:P.
  - apply btype_eqb_eq in P. rewrite andb_true_iff, orb_true_iff, andb_true_iff, !Nat.ltb_lt.
    split.
    + intros (H1 & H2). repeat split; auto; try lia. left. repeat split; auto. destruct H2 as [(H2 & H3) | H2]; [left | right]; lia.
    + intros (_ & _ & _ & _ & _ & [(_ & H1 & H2) | (H0 & _)]); [|contradiction].
      split; [assumption|]. destruct H2 as [(H2 & H3) | H2]; [left | right]; lia.
  - assert (NP : b_type a <> BRIDGE_PARALLEL) by (intros E; rewrite E in P; discriminate).
    rewrite andb_true_iff, orb_true_iff, andb_true_iff, !Nat.ltb_lt. split.
    + intros (H1 & H2). repeat split; auto; try lia. right. repeat split; auto. destruct H2 as [(H2 & H3) | H2]; [left | right]; lia.
    + intros (_ & _ & _ & _ & _ & [(H0 & _) | (_ & H1 & H2)]); [contradiction|].
      split; [assumption|]. destruct H2 as [(H2 & H3) | H2]; [left | right]; lia.
Qed.

(* how the groups arise: the first group is the scan of the records from the first one; the remaining
   groups are the groups of what the scan passed over *)
Lemma groups_scan : forall ch f b rest,
  exists ab lf, groups (S f) ch (b :: rest) = (b :: ab) :: groups f ch lf /\ Scan ch [b] rest ab lf.
Proof.
  intros ch f b rest. cbn [groups]. destruct (group_into_scan ch rest [b]) as (ab & E1 & S).
  destruct (group_into ch [b] rest) as (g, r'). cbn [fst snd] in *. subst g. cbn [app].
  exists ab, r'. split; [reflexivity | assumption].
Qed.

Lemma insert_bridge_perm : forall x l, Permutation (x :: l) (insert_bridge x l).
Proof.
  induction l as [|y r IH]; cbn; [reflexivity|]. destruct (bridge_lt x y); [reflexivity|].
  rewrite perm_swap. now constructor.
Qed.

Lemma sort_bridges_perm : forall l, Permutation l (sort_bridges l).
Proof.
  intros l. unfold sort_bridges.
  assert (G : forall l acc, Permutation (l ++ acc) (fold_left (fun acc x => insert_bridge x acc) l acc)).
  { induction l0 as [|c cs IH]; intros acc; cbn; [reflexivity|].
    rewrite <- IH. rewrite <- insert_bridge_perm. apply Permutation_middle. }
  specialize (G l []). now rewrite app_nil_r in G.
Qed.

(* ------------------------------------------------------------------ what a merge group covers *)
(* the residues marked for a group: from the first residue of its first member to the last residue of
   its last member on the i strand (bulge residues in between included), likewise on the j strand *)
Definition span (g : list bridge) (r : nat) : bool :=
  match g with
  | [] => false
  | c :: rest =>
    let l := last rest c in
    in_range (fst (ends_i c l)) (snd (ends_i c l)) r || in_range (fst (ends_j c l)) (snd (ends_j c l)) r
  end.

Lemma covers_group : forall g r, g <> [] -> Forall strands_nonempty g -> covers (merge_group g) r = span g r.
Proof.
  intros [|c rest] r Hg H; [contradiction|].
  destruct (group_ends c rest H) as (_ & Ei & Ej). unfold covers, span.
  pose proof (f_equal fst Ei) as Ei1. pose proof (f_equal snd Ei) as Ei2.
  pose proof (f_equal fst Ej) as Ej1. pose proof (f_equal snd Ej) as Ej2.
  cbn [fst snd] in Ei1, Ei2, Ej1, Ej2. now rewrite Ei1, Ei2, Ej1, Ej2.
Qed.

Definition group_is_ladder (g : list bridge) : Prop :=
  2 <= List.length g \/ exists c, g = [c] /\ 2 <= List.length (b_i c).

Lemma ladder_group : forall g, g <> [] -> Forall strands_nonempty g ->
  (is_ladder (merge_group g) = true <-> group_is_ladder g).
Proof.
  intros [|c rest] Hg H; [contradiction|]. unfold is_ladder, merge_group, group_is_ladder.
  rewrite fold_merge_i, app_length, Nat.ltb_lt.
  apply Forall_cons_iff in H as ((Hc & _) & Hr).
  assert (Lc : 1 <= List.length (b_i c)) by (destruct (b_i c); [contradiction | cbn; lia]).
  destruct rest as [|y rest].
  - cbn. split; [intros H; right; exists c; split; [reflexivity | lia]|].
    intros [H | (c' & [= <-] & H)]; [cbn in H; lia | lia].
  - apply Forall_cons_iff in Hr as ((Hy & _) & _).
    assert (Ly : 1 <= List.length (b_i y)) by (destruct (b_i y); [contradiction | cbn; lia]).
    cbn [map concat]. rewrite app_length. split; [intros _; left; cbn; lia | intros _; lia].
Qed.

Lemma existsb_map : forall A B (f : A -> B) (p : B -> bool) l, existsb p (map f l) = existsb (fun x => p (f x)) l.
Proof. induction l as [|x l IH]; cbn; [reflexivity|]. now rewrite IH. Qed.

Lemma ok_nonempty : forall n ch skip hb b, bridge_ok n ch skip hb b -> strands_nonempty b.
Proof.
  intros n ch skip hb b (i0 & j0 & len & Hlen & _ & Hi & Hj & _). unfold strands_nonempty. rewrite Hi, Hj.
  destruct len; [lia|]. cbn. split; discriminate.
Qed.

Section AllLadders.
  Variables (n : nat) (ch : list nat) (skip : list bool) (hb : hbtable).

  Definition sorted_records : list bridge := sort_bridges (initial_bridges n ch skip hb).
  (* the merge groups of this structure: the members of every final ladder record, in order *)
  Definition ladder_groups : list (list bridge) := groups (List.length sorted_records) ch sorted_records.

  Lemma ladders_are_groups : ladders n ch skip hb = map merge_group ladder_groups.
  Proof. unfold ladders, ladder_groups, sorted_records. apply merge_all_groups. Qed.

  (* every un-merged record sits in exactly one group (as a multiset) *)
  Lemma ladder_groups_partition : Permutation (concat ladder_groups) (initial_bridges n ch skip hb).
  Proof.
    unfold ladder_groups. rewrite groups_partition by (left; lia). unfold sorted_records.
    symmetry. apply sort_bridges_perm.
  Qed.

  Lemma group_members_ok : forall g c, In g ladder_groups -> In c g -> bridge_ok n ch skip hb c.
  Proof.
    intros g c Hg Hc.
    assert (In c (concat ladder_groups)) by (apply in_concat; eauto).
    unfold ladder_groups in H. apply (Permutation_in _ (groups_partition ch _ sorted_records (or_introl (le_n _)))) in H.
    unfold sorted_records in H. apply (proj1 (sort_bridges_In _ _)) in H.
    pose proof (initial_bridges_ok n ch skip hb) as Hok. rewrite Forall_forall in Hok. now apply Hok.
  Qed.

  Lemma group_nonempty_strands : forall g, In g ladder_groups -> g <> [] /\ Forall strands_nonempty g.
  Proof.
    intros g Hg. split; [exact (groups_nonempty ch (List.length sorted_records) sorted_records g Hg)|].
    apply Forall_forall. intros c Hc. apply (ok_nonempty n ch skip hb). now apply (group_members_ok g).
  Qed.

  (* E / B for EVERY ladder set: E iff r lies in the span of a merge group that is a ladder (two or more
     members, or a single record of two or more bridges); B iff it lies only in spans of single bridges *)
  Theorem sheet_rule_all : forall r, r < n ->
    (sec_at (secB n ch skip hb) r = SS_STRAND <->
       exists g, In g ladder_groups /\ span g r = true /\ group_is_ladder g) /\
    (sec_at (secB n ch skip hb) r = SS_BETABRIDGE <->
       (exists g, In g ladder_groups /\ span g r = true) /\
       ~ exists g, In g ladder_groups /\ span g r = true /\ group_is_ladder g).
  Proof.
    intros r Hr. rewrite secB_at by assumption. rewrite ladders_are_groups, !existsb_map.
    assert (L : existsb (fun g => covers (merge_group g) r && is_ladder (merge_group g)) ladder_groups = true <->
                exists g, In g ladder_groups /\ span g r = true /\ group_is_ladder g).
    { rewrite existsb_exists. split.
      - intros (g & Hg & H). destruct (group_nonempty_strands g Hg) as (N & S).
        apply andb_true_iff in H as (C & Ld). rewrite covers_group in C by assumption.
        apply ladder_group in Ld; auto. eauto.
      - intros (g & Hg & C & Ld). destruct (group_nonempty_strands g Hg) as (N & S).
        exists g. split; [assumption|]. apply andb_true_iff. rewrite covers_group by assumption.
        split; [assumption | now apply ladder_group]. }
    assert (B : existsb (fun g => covers (merge_group g) r) ladder_groups = true <->
                exists g, In g ladder_groups /\ span g r = true).
    { rewrite existsb_exists. split.
      - intros (g & Hg & C). destruct (group_nonempty_strands g Hg) as (N & S).
        rewrite covers_group in C by assumption. eauto.
      - intros (g & Hg & C). destruct (group_nonempty_strands g Hg) as (N & S).
        exists g. split; [assumption|]. now rewrite covers_group. }
    destruct (existsb (fun g => covers (merge_group g) r && is_ladder (merge_group g)) ladder_groups) eqn:E1.
    - split; [tauto|]. split; [discriminate|]. intros (_ & H). exfalso. apply H. now apply L.
    - assert (NL : ~ exists g, In g ladder_groups /\ span g r = true /\ group_is_ladder g)
        by (intros H; apply L in H; discriminate).
      destruct (existsb (fun g => covers (merge_group g) r) ladder_groups) eqn:E2.
      + split; [split; [discriminate | tauto]|]. split; [|reflexivity]. intros _. split; [now apply B | assumption].
      + split; [split; [discriminate | tauto]|]. split; [discriminate|]. intros (H & _). apply B in H. discriminate.
  Qed.

End AllLadders.
