(* Bridges and ladders of the DSSP model (C15): symmetry of the bridge test, what the bridge list
   built by calculate_beta_sheets contains, and the E/B rule for ladder sets without bulge merging. *)
From Coq Require Import List Arith Bool String Ascii Lia.
Import ListNotations.
Require Import MD.Gen.DsspTables MD.Dssp.Model MD.Dssp.Proofs.
Local Open Scope nat_scope.

(* ------------------------------------------------------------------ the bridge test is symmetric *)
Lemma bridge_test_symmetric : forall i j n ch hb,
  residue_test_bridge i j n ch hb = residue_test_bridge j i n ch hb.
Proof.
  intros i j n ch hb. unfold residue_test_bridge.
  destruct (1 <=? i), (i + 1 <? n), (chain_at ch (i - 1) =? chain_at ch (i + 1)),
           (1 <=? j), (j + 1 <? n), (chain_at ch (j - 1) =? chain_at ch (j + 1)); cbn [andb]; try reflexivity.
  destruct (test_bond hb (i + 1) j), (test_bond hb j (i - 1)), (test_bond hb (j + 1) i),
           (test_bond hb i (j - 1)), (test_bond hb (i + 1) (j - 1)), (test_bond hb (j + 1) (i - 1)),
           (test_bond hb j i), (test_bond hb i j); reflexivity.
Qed.

(* ------------------------------------------------------------------ what a bridge record holds *)
Lemma front_seq : forall a k, front (seq a (S k)) = a.
Proof. reflexivity. Qed.

Lemma back_seq : forall k a, back (seq a (S k)) = a + k.
Proof.
  unfold back. induction k as [|k IH]; intros a; [cbn; lia|].
  change (seq a (S (S k))) with (a :: seq (S a) (S k)).
  change (last (a :: seq (S a) (S k)) 0) with (last (seq (S a) (S k)) 0). rewrite IH. lia.
Qed.

(* position t of a ladder pairs residue i0+t with j0+t (parallel) or j0+len-1-t (antiparallel) *)
Definition partner (t : btype) (j0 len k : nat) : nat :=
  match t with BRIDGE_ANTIPARALLEL => j0 + len - 1 - k | _ => j0 + k end.

Definition good_pair n ch skip hb (t : btype) (i j : nat) : Prop :=
  residue_test_bridge j i n ch hb = t /\ skip_at skip i = false /\ skip_at skip j = false.

Definition bridge_ok n ch skip hb (b : bridge) : Prop :=
  exists i0 j0 len, 1 <= len /\ b_type b <> BRIDGE_NONE /\
    b_i b = seq i0 len /\ b_j b = seq j0 len /\
    forall k, k < len -> good_pair n ch skip hb (b_type b) (i0 + k) (partner (b_type b) j0 len k).

(* position k of record b pairs residue i with residue j *)
Definition holds_pair (b : bridge) (i j : nat) : Prop :=
  exists k, k < List.length (b_i b) /\ i = front (b_i b) + k /\
            j = partner (b_type b) (front (b_j b)) (List.length (b_i b)) k.

Lemma btype_eqb_eq : forall a b, btype_eqb a b = true <-> a = b.
Proof. intros a b; split; [destruct a, b; cbn; congruence | intros ->; destruct b; reflexivity]. Qed.

Lemma seq_snoc : forall a k, seq a k ++ [a + k] = seq a (S k).
Proof. intros. now rewrite seq_S. Qed.

Section Build.
  Variables (n : nat) (ch : list nat) (skip : list bool) (hb : hbtable).
  Notation ok := (bridge_ok n ch skip hb).
  Notation good := (good_pair n ch skip hb).

  Lemma extend_ok : forall t i j bs bs', t <> BRIDGE_NONE -> good t i j ->
    Forall ok bs -> extend_bridges t i j bs = Some bs' -> Forall ok bs'.
  Proof.
    intros t i j bs. induction bs as [|b rest IH]; intros bs' Ht Hg Hall E; cbn in E; [discriminate|].
    apply Forall_cons_iff in Hall as (Hb & Hrest).
    assert (Hrec : option_map (cons b) (extend_bridges t i j rest) = Some bs' -> Forall ok bs').
    { destruct (extend_bridges t i j rest) as [r'|] eqn:Er; cbn; [|discriminate].
      intros [= <-]. constructor; [assumption|]. now apply IH. }
    destruct (btype_eqb t (b_type b) && (i =? back (b_i b) + 1)) eqn:C1; [|auto].
    apply andb_true_iff in C1 as (Ety & Ei). apply btype_eqb_eq in Ety. apply Nat.eqb_eq in Ei.
    destruct Hb as (i0 & j0 & len & Hlen & Hnn & Hbi & Hbj & Hp).
    destruct len as [|len]; [lia|].
    rewrite Hbi, back_seq in Ei.
    destruct (btype_eqb t BRIDGE_PARALLEL && (back (b_j b) + 1 =? j)) eqn:C2.
    - apply andb_true_iff in C2 as (Ep & Ej). apply btype_eqb_eq in Ep. apply Nat.eqb_eq in Ej.
      rewrite Hbj, back_seq in Ej. injection E as <-. constructor; [|assumption].
      exists i0, j0, (S (S len)). cbn [b_type b_i b_j]. repeat split; try lia; try assumption.
      + rewrite Hbi. replace i with (i0 + S len) by lia. apply seq_snoc.
      + rewrite Hbj. replace j with (j0 + S len) by lia. apply seq_snoc.
      + destruct (Nat.eq_dec k (S len)) as [->|Hk].
        * rewrite <- Ety, Ep. cbn [partner]. replace (i0 + S len) with i by lia.
          replace (j0 + S len) with j by lia. rewrite <- Ep. apply Hg.
        * assert (Hk' : k < S len) by lia. specialize (Hp k Hk').
          rewrite <- Ety, Ep in *. cbn [partner] in *. apply Hp.
      + destruct (Nat.eq_dec k (S len)) as [->|Hk].
        * replace (i0 + S len) with i by lia. apply Hg.
        * assert (Hk' : k < S len) by lia. apply (Hp k Hk').
      + destruct (Nat.eq_dec k (S len)) as [->|Hk].
        * rewrite <- Ety, Ep. cbn [partner]. replace (j0 + S len) with j by lia. apply Hg.
        * assert (Hk' : k < S len) by lia. specialize (Hp k Hk').
          rewrite <- Ety, Ep in *. cbn [partner] in *. apply Hp.
    - destruct (btype_eqb t BRIDGE_ANTIPARALLEL && (front (b_j b) =? j + 1)) eqn:C3; [|auto].
      apply andb_true_iff in C3 as (Ea & Ej). apply btype_eqb_eq in Ea. apply Nat.eqb_eq in Ej.
      rewrite Hbj, front_seq in Ej. injection E as <-. constructor; [|assumption].
      exists i0, j, (S (S len)). cbn [b_type b_i b_j]. repeat split; try lia; try assumption.
      + rewrite Hbi. replace i with (i0 + S len) by lia. apply seq_snoc.
      + rewrite Hbj, Ej. replace (j + 1) with (S j) by lia. reflexivity.
      + destruct (Nat.eq_dec k (S len)) as [->|Hk].
        * rewrite <- Ety, Ea. cbn [partner]. replace (i0 + S len) with i by lia.
          replace (j + S (S len) - 1 - S len) with j by lia. rewrite <- Ea. apply Hg.
        * assert (Hk' : k < S len) by lia. specialize (Hp k Hk').
          rewrite <- Ety, Ea in *. cbn [partner] in *.
          replace (j + S (S len) - 1 - k) with (j0 + S len - 1 - k) by lia. apply Hp.
      + destruct (Nat.eq_dec k (S len)) as [->|Hk].
        * replace (i0 + S len) with i by lia. apply Hg.
        * assert (Hk' : k < S len) by lia. apply (Hp k Hk').
      + destruct (Nat.eq_dec k (S len)) as [->|Hk].
        * rewrite <- Ety, Ea. cbn [partner]. replace (j + S (S len) - 1 - S len) with j by lia. apply Hg.
        * assert (Hk' : k < S len) by lia. specialize (Hp k Hk').
          rewrite <- Ety, Ea in *. cbn [partner] in *.
          replace (j + S (S len) - 1 - k) with (j0 + S len - 1 - k) by lia. apply Hp.
  Qed.

  Lemma bridge_step_ok : forall bs ij, Forall ok bs -> Forall ok (bridge_step n ch skip hb bs ij).
  Proof.
    intros bs (i, j) Hall. unfold bridge_step.
    destruct (btype_eqb (residue_test_bridge j i n ch hb) BRIDGE_NONE) eqn:Et; cbn [orb]; [assumption|].
    destruct (skip_at skip i) eqn:Si; cbn [orb]; [assumption|].
    destruct (skip_at skip j) eqn:Sj; [assumption|].
    assert (Hnn : residue_test_bridge j i n ch hb <> BRIDGE_NONE).
    { intros H. rewrite H in Et. discriminate. }
    assert (Hg : good_pair n ch skip hb (residue_test_bridge j i n ch hb) i j) by (repeat split; assumption).
    destruct (extend_bridges _ i j bs) as [bs'|] eqn:E.
    - eapply extend_ok; eauto.
    - apply Forall_app. split; [assumption|]. constructor; [|constructor].
      exists i, j, 1. cbn [b_type b_i b_j seq].
      split; [lia|]. split; [assumption|]. split; [reflexivity|]. split; [reflexivity|].
      intros k Hk. assert (k = 0) by lia. subst k. rewrite Nat.add_0_r.
      replace (partner (residue_test_bridge j i n ch hb) j 1 0) with j; [exact Hg|].
      destruct (residue_test_bridge j i n ch hb); cbn [partner]; lia.
  Qed.

  Lemma fold_bridge_step_ok : forall l bs, Forall ok bs -> Forall ok (fold_left (bridge_step n ch skip hb) l bs).
  Proof. induction l as [|x l IH]; intros bs H; cbn; [assumption|]. apply IH. now apply bridge_step_ok. Qed.

  (* every bridge record built by the double loop is a run of consecutive residues i0..i0+len-1
     paired one to one with j0..j0+len-1, each pair passing the bridge test with the record's type,
     no member incomplete *)
  Lemma initial_bridges_ok : Forall ok (initial_bridges n ch skip hb).
  Proof. unfold initial_bridges. apply fold_bridge_step_ok. constructor. Qed.
End Build.

(* ------------------------------------------------------------------ sorting keeps the set *)
Lemma insert_bridge_In : forall x l b, In b (insert_bridge x l) <-> b = x \/ In b l.
Proof.
  induction l as [|y l IH]; intros b; cbn; [intuition congruence|].
  destruct (bridge_lt x y); cbn; [intuition congruence|]. rewrite IH. intuition congruence.
Qed.

Lemma sort_bridges_In : forall l b, In b (sort_bridges l) <-> In b l.
Proof.
  intros l b. unfold sort_bridges.
  assert (G : forall l acc, In b (fold_left (fun acc x => insert_bridge x acc) l acc) <-> In b l \/ In b acc).
  { induction l0 as [|x l0 IH]; intros acc; cbn; [tauto|]. rewrite IH, insert_bridge_In. intuition congruence. }
  rewrite G. cbn. tauto.
Qed.

(* ------------------------------------------------------------------ no bulge merging *)
Lemma merge_into_id : forall ch b rest, (forall c, In c rest -> should_merge ch b c = false) ->
  merge_into ch b rest = (b, rest).
Proof.
  induction rest as [|c r IH]; intros H; cbn; [reflexivity|].
  rewrite (H c) by now left. rewrite IH; [reflexivity|]. intros; apply H; now right.
Qed.

Lemma merge_all_id : forall ch fuel bs,
  (forall a b, In a bs -> In b bs -> should_merge ch a b = false) -> merge_all fuel ch bs = bs.
Proof.
  induction fuel as [|f IH]; intros bs H; cbn; [reflexivity|]. destruct bs as [|b rest]; [reflexivity|].
  rewrite merge_into_id by (intros; apply H; cbn; auto). f_equal. apply IH. intros; apply H; cbn; auto.
Qed.

(* ------------------------------------------------------------------ E / B for merge-free ladder sets *)
Lemma covers_members : forall n ch skip hb b r, bridge_ok n ch skip hb b ->
  (covers b r = true <-> In r (b_i b) \/ In r (b_j b)).
Proof.
  intros n ch skip hb b r (i0 & j0 & len & Hlen & _ & Hi & Hj & _). unfold covers.
  destruct len as [|len]; [lia|]. rewrite Hi, Hj, !front_seq, !back_seq, orb_true_iff, !in_range_iff, !in_seq. lia.
Qed.

Section Sheets.
  Variables (n : nat) (ch : list nat) (skip : list bool) (hb : hbtable).

  Definition member (b : bridge) (r : nat) : Prop := In r (b_i b) \/ In r (b_j b).

  (* E iff r belongs to a ladder of at least two consecutive bridges, B iff it only belongs to
     isolated bridges -- for H-bond patterns in which no two ladders qualify for bulge merging *)
  Lemma sheet_rule_merge_free : forall r, r < n ->
    (forall a b, In a (initial_bridges n ch skip hb) -> In b (initial_bridges n ch skip hb) ->
                 should_merge ch a b = false) ->
    (sec_at (secB n ch skip hb) r = SS_STRAND <->
       exists b, In b (initial_bridges n ch skip hb) /\ 2 <= List.length (b_i b) /\ member b r) /\
    (sec_at (secB n ch skip hb) r = SS_BETABRIDGE <->
       (exists b, In b (initial_bridges n ch skip hb) /\ member b r) /\
       ~ exists b, In b (initial_bridges n ch skip hb) /\ 2 <= List.length (b_i b) /\ member b r).
  Proof.
    intros r Hr Hfree.
    assert (EL : ladders n ch skip hb = sort_bridges (initial_bridges n ch skip hb)).
    { unfold ladders. apply merge_all_id. intros a b Ha Hb. apply Hfree; now apply (proj1 (sort_bridges_In _ _)). }
    pose proof (initial_bridges_ok n ch skip hb) as Hok. rewrite Forall_forall in Hok.
    assert (L : existsb (fun b => covers b r && is_ladder b) (ladders n ch skip hb) = true <->
                exists b, In b (initial_bridges n ch skip hb) /\ 2 <= List.length (b_i b) /\ member b r).
    { rewrite EL, existsb_exists. split.
      - intros (b & Hb & H). apply (proj1 (sort_bridges_In _ _)) in Hb. apply andb_true_iff in H as (C & Ld).
        exists b. split; [assumption|]. split; [apply Nat.ltb_lt in Ld; lia|].
        now apply (covers_members n ch skip hb b r (Hok b Hb)).
      - intros (b & Hb & Hl & Hm). exists b. split; [now apply (proj2 (sort_bridges_In _ _))|].
        apply andb_true_iff. split; [now apply (covers_members n ch skip hb b r (Hok b Hb))|].
        apply Nat.ltb_lt. lia. }
    assert (B : existsb (fun b => covers b r) (ladders n ch skip hb) = true <->
                exists b, In b (initial_bridges n ch skip hb) /\ member b r).
    { rewrite EL, existsb_exists. split.
      - intros (b & Hb & C). apply (proj1 (sort_bridges_In _ _)) in Hb. exists b. split; [assumption|].
        now apply (covers_members n ch skip hb b r (Hok b Hb)).
      - intros (b & Hb & Hm). exists b. split; [now apply (proj2 (sort_bridges_In _ _))|].
        now apply (covers_members n ch skip hb b r (Hok b Hb)). }
    rewrite secB_at by assumption.
    destruct (existsb (fun b => covers b r && is_ladder b) (ladders n ch skip hb)) eqn:E1.
    - split; [tauto|]. split; [discriminate|]. intros (_ & H). exfalso. apply H. now apply L.
    - assert (NL : ~ exists b, In b (initial_bridges n ch skip hb) /\ 2 <= List.length (b_i b) /\ member b r)
        by (intros H; apply L in H; discriminate).
      destruct (existsb (fun b => covers b r) (ladders n ch skip hb)) eqn:E2.
      + split; [split; [discriminate | tauto]|]. split; [|reflexivity]. intros _. split; [now apply B | assumption].
      + split; [split; [discriminate | tauto]|]. split; [discriminate|].
        intros (H & _). apply B in H. discriminate.
  Qed.
End Sheets.

(* ------------------------------------------------------------------ completeness of the record list *)
(* every residue pair that the double loop visits, that passes the bridge test and has no incomplete
   member, sits in some record of its type, at matching positions *)
Section Complete.
  Variables (n : nat) (ch : list nat) (skip : list bool) (hb : hbtable).
  Notation ok := (bridge_ok n ch skip hb).

  Definition qualifies (ij : nat * nat) : bool :=
    negb (btype_eqb (residue_test_bridge (snd ij) (fst ij) n ch hb) BRIDGE_NONE ||
          skip_at skip (fst ij) || skip_at skip (snd ij)).

  Definition held (bs : list bridge) (ij : nat * nat) : Prop :=
    exists b, In b bs /\ b_type b = residue_test_bridge (snd ij) (fst ij) n ch hb /\
              holds_pair b (fst ij) (snd ij).

  Lemma extend_complete : forall t i j bs bs', Forall ok bs -> extend_bridges t i j bs = Some bs' ->
    (forall b, In b bs -> exists b', In b' bs' /\ b_type b' = b_type b /\
                                    forall x y, holds_pair b x y -> holds_pair b' x y) /\
    (exists b', In b' bs' /\ b_type b' = t /\ holds_pair b' i j).
  Proof.
    intros t i j bs. induction bs as [|b rest IH]; intros bs' Hall E; cbn in E; [discriminate|].
    apply Forall_cons_iff in Hall as (Hb & Hrest).
    assert (Hrec : option_map (cons b) (extend_bridges t i j rest) = Some bs' ->
      (forall b0, In b0 (b :: rest) -> exists b', In b' bs' /\ b_type b' = b_type b0 /\
                                    forall x y, holds_pair b0 x y -> holds_pair b' x y) /\
      (exists b', In b' bs' /\ b_type b' = t /\ holds_pair b' i j)).
    { destruct (extend_bridges t i j rest) as [r'|] eqn:Er; cbn; [|discriminate].
      intros [= <-]. destruct (IH r' Hrest eq_refl) as (H1 & b' & Hb' & Ht & Hh). split.
      - intros b0 [<- | Hin]; [exists b; cbn; auto|].
        destruct (H1 b0 Hin) as (b1 & Hb1 & R). exists b1. cbn. auto.
      - exists b'. cbn. auto. }
    destruct (btype_eqb t (b_type b) && (i =? back (b_i b) + 1)) eqn:C1; [|auto].
    apply andb_true_iff in C1 as (Ety & Ei). apply btype_eqb_eq in Ety. apply Nat.eqb_eq in Ei.
    destruct Hb as (i0 & j0 & len & Hlen & Hnn & Hbi & Hbj & Hp).
    destruct len as [|len]; [lia|].
    rewrite Hbi, back_seq in Ei.
    assert (Keep : forall bnew, b_type bnew = b_type b ->
              (forall x y, holds_pair b x y -> holds_pair bnew x y) -> holds_pair bnew i j ->
              (forall b0, In b0 (b :: rest) -> exists b', In b' (bnew :: rest) /\ b_type b' = b_type b0 /\
                                    forall x y, holds_pair b0 x y -> holds_pair b' x y) /\
              (exists b', In b' (bnew :: rest) /\ b_type b' = t /\ holds_pair b' i j)).
    { intros bnew Ht Hk Hn. split.
      - intros b0 [<- | Hin]; [exists bnew; cbn; auto | exists b0; cbn; auto].
      - exists bnew. cbn. split; [auto|]. split; [congruence | assumption]. }
    destruct (btype_eqb t BRIDGE_PARALLEL && (back (b_j b) + 1 =? j)) eqn:C2.
    - apply andb_true_iff in C2 as (Ep & Ej). apply btype_eqb_eq in Ep. apply Nat.eqb_eq in Ej.
      rewrite Hbj, back_seq in Ej. injection E as <-.
      assert (Ei' : i = i0 + S len) by lia. assert (Ej' : j = j0 + S len) by lia. clear Ei Ej. subst i j.
      apply Keep; [reflexivity | |].
      + intros x y (k & Hk & Hx & Hy). exists k. cbn [b_type b_i b_j].
        rewrite Hbi, Hbj in *. rewrite <- Ety, Ep in *. cbn [partner] in *.
        rewrite !seq_snoc. rewrite seq_length in *. rewrite !front_seq in *.
        repeat split; [lia | assumption | assumption].
      + exists (S len). cbn [b_type b_i b_j]. rewrite Hbi, Hbj. rewrite <- Ety, Ep. cbn [partner].
        rewrite !seq_snoc, seq_length, !front_seq. repeat split; lia.
    - destruct (btype_eqb t BRIDGE_ANTIPARALLEL && (front (b_j b) =? j + 1)) eqn:C3; [|auto].
      apply andb_true_iff in C3 as (Ea & Ej). apply btype_eqb_eq in Ea. apply Nat.eqb_eq in Ej.
      rewrite Hbj, front_seq in Ej. injection E as <-.
      assert (Ei' : i = i0 + S len) by lia. clear Ei. subst i.
      apply Keep; [reflexivity | |].
      + intros x y (k & Hk & Hx & Hy). exists k. cbn [b_type b_i b_j].
        rewrite Hbi, Hbj in *. rewrite <- Ety, Ea in *. cbn [partner] in *.
        rewrite seq_snoc. rewrite seq_length in *. rewrite !front_seq in *. cbn [front hd].
        repeat split; [lia | assumption | lia].
      + exists (S len). cbn [b_type b_i b_j]. rewrite Hbi. rewrite <- Ety, Ea. cbn [partner].
        rewrite seq_snoc, seq_length, front_seq. cbn [front hd]. repeat split; lia.
  Qed.

  Lemma bridge_step_held : forall bs x, Forall ok bs ->
    (forall ij, held bs ij -> held (bridge_step n ch skip hb bs x) ij) /\
    (qualifies x = true -> held (bridge_step n ch skip hb bs x) x).
  Proof.
    intros bs (i, j) Hall. unfold bridge_step, qualifies. cbn [fst snd].
    destruct (btype_eqb (residue_test_bridge j i n ch hb) BRIDGE_NONE || skip_at skip i || skip_at skip j) eqn:Q.
    - split; [auto | discriminate].
    - destruct (extend_bridges (residue_test_bridge j i n ch hb) i j bs) as [bs'|] eqn:E.
      + destruct (extend_complete _ i j bs bs' Hall E) as (H1 & b' & Hb' & Ht & Hh). split.
        * intros ij (b & Hb & Tb & Hp). destruct (H1 b Hb) as (b1 & Hb1 & T1 & K).
          exists b1. repeat split; [assumption | congruence | now apply K].
        * intros _. exists b'. cbn [fst snd]. auto.
      + split.
        * intros ij (b & Hb & R). exists b. split; [apply in_or_app; now left | exact R].
        * intros _. eexists. split; [apply in_or_app; right; now left|]. cbn [fst snd b_type b_i b_j].
          split; [reflexivity|]. exists 0. unfold front. cbn [List.length hd].
          cbn [b_type b_i b_j Datatypes.length hd]. split; [lia|]. split; [lia|].
          destruct (residue_test_bridge j i n ch hb); cbn [partner]; lia.
  Qed.

  Lemma fold_held : forall l bs ij, Forall ok bs ->
    held bs ij \/ (In ij l /\ qualifies ij = true) ->
    held (fold_left (bridge_step n ch skip hb) l bs) ij.
  Proof.
    induction l as [|x l IH]; intros bs ij Hall H; cbn [fold_left].
    - destruct H as [H | (H & _)]; [assumption | destruct H].
    - destruct (bridge_step_held bs x Hall) as (K & Knew).
      apply IH; [now apply bridge_step_ok|].
      destruct H as [H | ([-> | Hin] & Q)]; [left; now apply K | left; now apply Knew | right; auto].
  Qed.

  Lemma initial_bridges_complete : forall ij, In ij (bridge_pairs n) -> qualifies ij = true ->
    held (initial_bridges n ch skip hb) ij.
  Proof. intros ij Hin Q. unfold initial_bridges. apply fold_held; [constructor | right; auto]. Qed.
End Complete.
