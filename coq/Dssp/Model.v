(* Executable model of mdtraj's DSSP (C15): a transliteration of
     mdtraj/geometry/src/dssp.cpp   _test_bond, _residue_test_bridge, calculate_beta_sheets,
                                    calculate_bends (the chain/skip guard only; the angle test is an input),
                                    calculate_alpha_helices, dssp (skip mask, char map)
     mdtraj/geometry/dssp.py        compute_dssp (simplified translation, 'NA' overlay)
   as a pure function of
     n      number of residues
     ch     chain index of every residue                       (chain_ids)
     skip   residue lacks one of N, CA, C, O                   (skip / not is_protein)
     hb     for every donor residue the list of acceptor residues reported by kabsch_sander
            (the two slots hbonds[2*d], hbonds[2*d+1] without the -1 entries)
     geom   for every residue: kappa(i-2,i,i+2) > 70 degrees   (float geometry, not modelled)
   No proofs in this file.

   Index arithmetic.  The C code uses int; residues are nat here.  Every subtraction below is
   guarded exactly where the C code guards it (a >= 0, i >= k) or is applied to a value that the
   loop bounds keep positive; comparisons of differences  x - y < c  /  x - y >= c  (c > 0) are
   written  x < y + c  /  y + c <= x , which is the same over the integers. *)
From Coq Require Import List Arith Bool String Ascii.
Import ListNotations.
Require Import MD.Gen.DsspTables.
Local Open Scope string_scope.
Local Open Scope nat_scope.

Inductive ss := SS_LOOP | SS_ALPHAHELIX | SS_BETABRIDGE | SS_STRAND | SS_HELIX_3 | SS_HELIX_5
              | SS_TURN | SS_BEND.
Inductive btype := BRIDGE_NONE | BRIDGE_PARALLEL | BRIDGE_ANTIPARALLEL.
Inductive hflag := HELIX_NONE | HELIX_START | HELIX_END | HELIX_START_AND_END | HELIX_MIDDLE.

Definition ss_eqb (a b : ss) : bool :=
  match a, b with
  | SS_LOOP, SS_LOOP | SS_ALPHAHELIX, SS_ALPHAHELIX | SS_BETABRIDGE, SS_BETABRIDGE
  | SS_STRAND, SS_STRAND | SS_HELIX_3, SS_HELIX_3 | SS_HELIX_5, SS_HELIX_5
  | SS_TURN, SS_TURN | SS_BEND, SS_BEND => true
  | _, _ => false
  end.

Definition btype_eqb (a b : btype) : bool :=
  match a, b with
  | BRIDGE_NONE, BRIDGE_NONE | BRIDGE_PARALLEL, BRIDGE_PARALLEL
  | BRIDGE_ANTIPARALLEL, BRIDGE_ANTIPARALLEL => true
  | _, _ => false
  end.

(* ---------------------------------------------------------------- small list utilities *)
Fixpoint map_idx {A} (f : nat -> A -> A) (k : nat) (l : list A) : list A :=
  match l with
  | [] => []
  | x :: r => f k x :: map_idx f (S k) r
  end.

Definition in_range (lo hi k : nat) : bool := (lo <=? k) && (k <=? hi).

(* for (k = lo; k <= hi; ++k) sec[k] = f(sec[k])  *)
Definition update_range {A} (lo hi : nat) (f : A -> A) (l : list A) : list A :=
  map_idx (fun k x => if in_range lo hi k then f x else x) 0 l.

Definition set_at {A} (i : nat) (v : A) (l : list A) : list A := update_range i i (fun _ => v) l.

Definition front (l : list nat) : nat := hd 0 l.
Definition back (l : list nat) : nat := last l 0.

(* ---------------------------------------------------------------- inputs *)
Definition hbtable := list (list nat).

Definition chain_at (ch : list nat) (i : nat) : nat := nth i ch 0.
Definition skip_at (skip : list bool) (i : nat) : bool := nth i skip false.

(* static bool _test_bond(int donor, int acceptor, const int* hbonds) *)
Definition test_bond (hb : hbtable) (donor acceptor : nat) : bool :=
  existsb (Nat.eqb acceptor) (nth donor hb []).

(* ---------------------------------------------------------------- bridges *)
(* static bridge_t _residue_test_bridge(int i, int j, int n_residues, chain_ids, hbonds) *)
Definition residue_test_bridge (i j n : nat) (ch : list nat) (hb : hbtable) : btype :=
  if (1 <=? i) && (i + 1 <? n) && (chain_at ch (i - 1) =? chain_at ch (i + 1)) &&
     (1 <=? j) && (j + 1 <? n) && (chain_at ch (j - 1) =? chain_at ch (j + 1))
  then
    let a := i - 1 in let b := i in let c := i + 1 in
    let d := j - 1 in let e := j in let f := j + 1 in
    if (test_bond hb c e && test_bond hb e a) || (test_bond hb f b && test_bond hb b d)
    then BRIDGE_PARALLEL
    else if (test_bond hb c d && test_bond hb f a) || (test_bond hb e b && test_bond hb b e)
    then BRIDGE_ANTIPARALLEL
    else BRIDGE_NONE
  else BRIDGE_NONE.

Record bridge := mkBridge { b_type : btype; b_i : list nat; b_j : list nat; b_ci : nat; b_cj : nat }.

(* the search loop over existing bridges: Some = extended the first bridge that fits *)
Fixpoint extend_bridges (t : btype) (i j : nat) (bs : list bridge) : option (list bridge) :=
  match bs with
  | [] => None
  | b :: rest =>
    if btype_eqb t (b_type b) && (i =? back (b_i b) + 1) then
      if btype_eqb t BRIDGE_PARALLEL && (back (b_j b) + 1 =? j) then
        Some (mkBridge (b_type b) (b_i b ++ [i]) (b_j b ++ [j]) (b_ci b) (b_cj b) :: rest)
      else if btype_eqb t BRIDGE_ANTIPARALLEL && (front (b_j b) =? j + 1) then
        Some (mkBridge (b_type b) (b_i b ++ [i]) (j :: b_j b) (b_ci b) (b_cj b) :: rest)
      else option_map (cons b) (extend_bridges t i j rest)
    else option_map (cons b) (extend_bridges t i j rest)
  end.

(* body of the double loop "Calculate bridges" for one pair (i, j) *)
Definition bridge_step (n : nat) (ch : list nat) (skip : list bool) (hb : hbtable)
           (bs : list bridge) (ij : nat * nat) : list bridge :=
  let (i, j) := ij in
  let t := residue_test_bridge j i n ch hb in
  if btype_eqb t BRIDGE_NONE || skip_at skip i || skip_at skip j then bs
  else match extend_bridges t i j bs with
       | Some bs' => bs'
       | None => bs ++ [mkBridge t [i] [j] (chain_at ch i) (chain_at ch j)]
       end.

(* for (i = 1; i < n-4; i++) for (j = i+3; j < n-1; j++) *)
Definition bridge_pairs (n : nat) : list (nat * nat) :=
  flat_map (fun i => map (pair i) (seq (i + 3) (n - 1 - (i + 3)))) (seq 1 (n - 4 - 1)).

Definition initial_bridges n ch skip hb : list bridge :=
  fold_left (bridge_step n ch skip hb) (bridge_pairs n) [].

(* Bridge::operator< *)
Definition bridge_lt (a b : bridge) : bool :=
  (b_ci a <? b_ci b) || ((b_ci a =? b_ci b) && (front (b_i a) <? front (b_i b))).

(* std::sort is modelled as the stable insertion sort (libstdc++ uses exactly that for at most 16
   elements; for more elements the relative order of bridges with equal keys is unspecified in
   C++, see sort_sensitive below). *)
Fixpoint insert_bridge (x : bridge) (l : list bridge) : list bridge :=
  match l with
  | [] => [x]
  | y :: r => if bridge_lt x y then x :: y :: r else y :: insert_bridge x r
  end.

Definition sort_bridges (l : list bridge) : list bridge :=
  fold_left (fun acc x => insert_bridge x acc) l [].

(* the test and the merge of the "Extend ladders" loop for bridges[i] = bi, bridges[j] = bj *)
Definition should_merge (ch : list nat) (bi bj : bridge) : bool :=
  let ibi := front (b_i bi) in let iei := back (b_i bi) in
  let jbi := front (b_j bi) in let jei := back (b_j bi) in
  let ibj := front (b_i bj) in let iej := back (b_i bj) in
  let jbj := front (b_j bj) in let jej := back (b_j bj) in
  if negb (btype_eqb (b_type bi) (b_type bj)) ||
     negb (chain_at ch (Nat.min ibi ibj) =? chain_at ch (Nat.max iei iej)) ||
     negb (chain_at ch (Nat.min jbi jbj) =? chain_at ch (Nat.max jei jej)) ||
     (iei + 6 <=? ibj) || ((ibj <=? iei) && (ibi <=? iej))
  then false
  else if btype_eqb (b_type bi) BRIDGE_PARALLEL
       then (jbi <? jbj) && (((jbj <? jei + 6) && (ibj <? iei + 3)) || (jbj <? jei + 3))
       else (jbj <? jbi) && (((jbi <? jej + 6) && (ibj <? iei + 3)) || (jbi <? jej + 3)).

Definition merge_bridge (bi bj : bridge) : bridge :=
  mkBridge (b_type bi) (b_i bi ++ b_i bj)
           (if btype_eqb (b_type bi) BRIDGE_PARALLEL then b_j bi ++ b_j bj else b_j bj ++ b_j bi)
           (b_ci bi) (b_cj bi).

(* inner loop over j > i: bridges[i] absorbs, in order, every later bridge that passes the test
   (the test is re-evaluated against the grown bridges[i]); absorbed bridges are erased *)
Fixpoint merge_into (ch : list nat) (b : bridge) (rest : list bridge) : bridge * list bridge :=
  match rest with
  | [] => (b, [])
  | c :: r =>
    if should_merge ch b c then merge_into ch (merge_bridge b c) r
    else let (b', r') := merge_into ch b r in (b', c :: r')
  end.

(* outer loop; fuel = number of bridges is always enough (the rest never grows) *)
Fixpoint merge_all (fuel : nat) (ch : list nat) (bs : list bridge) : list bridge :=
  match fuel with
  | 0 => bs
  | S f =>
    match bs with
    | [] => []
    | b :: rest => let (b', r') := merge_into ch b rest in b' :: merge_all f ch r'
    end
  end.

Definition ladders n ch skip hb : list bridge :=
  let bs := sort_bridges (initial_bridges n ch skip hb) in merge_all (List.length bs) ch bs.

(* the marking loop *)
Definition keep_strand (s x : ss) : ss := if ss_eqb x SS_STRAND then x else s.

Definition mark_bridge (sec : list ss) (b : bridge) : list ss :=
  let s := if 1 <? List.length (b_i b) then SS_STRAND else SS_BETABRIDGE in
  update_range (front (b_j b)) (back (b_j b)) (keep_strand s)
    (update_range (front (b_i b)) (back (b_i b)) (keep_strand s) sec).

Definition calculate_beta_sheets n ch skip hb (sec : list ss) : list ss :=
  fold_left mark_bridge (ladders n ch skip hb) sec.

(* true when the C++ result may legitimately depend on how std::sort orders equal keys:
   more than 16 bridges and two of them with the same key *)
Fixpoint has_equal_keys (l : list bridge) : bool :=
  match l with
  | a :: ((b :: _) as r) => (negb (bridge_lt a b) && negb (bridge_lt b a)) || has_equal_keys r
  | _ => false
  end.
Definition sort_sensitive n ch skip hb : bool :=
  let bs := sort_bridges (initial_bridges n ch skip hb) in (16 <? List.length bs) && has_equal_keys bs.

(* ---------------------------------------------------------------- bends *)
(* calculate_bends: geom i stands for  kappa > 70 degrees  *)
Definition is_bend (n : nat) (ch : list nat) (skip geom : list bool) (i : nat) : bool :=
  (2 <=? i) && (i + 2 <? n) && (chain_at ch (i - 2) =? chain_at ch (i + 2)) &&
  negb (skip_at skip (i - 2)) && negb (skip_at skip i) && negb (skip_at skip (i + 2)) &&
  nth i geom false.

(* ---------------------------------------------------------------- helix flags *)
(* std::map<int, std::vector<int>> chains, iterated in key order: residues of chain 0, then 1, ... *)
Definition chain_order (n : nat) (ch : list nat) : list nat :=
  flat_map (fun c => filter (fun i => chain_at ch i =? c) (seq 0 n)) (seq 0 (S (list_max ch))).

Definition flag_at (fl : list hflag) (i : nat) : hflag := nth i fl HELIX_NONE.

(* body of the loop over residues of one chain for one stride.  helix_flags[.][stride] for
   different strides are disjoint arrays, so each stride is modelled as its own list. *)
Definition flag_step (n : nat) (ch : list nat) (hb : hbtable) (stride : nat)
           (fl : list hflag) (i : nat) : list hflag :=
  if (i + stride <? n) && test_bond hb (i + stride) i && (chain_at ch i =? chain_at ch (i + stride))
  then
    let f1 := set_at (i + stride) HELIX_END fl in
    let f2 := update_range (i + 1) (i + stride - 1)
                (fun x => match x with HELIX_NONE => HELIX_MIDDLE | _ => x end) f1 in
    match flag_at f2 i with
    | HELIX_END => set_at i HELIX_START_AND_END f2
    | _ => set_at i HELIX_START f2
    end
  else fl.

Definition helix_flags (n : nat) (ch : list nat) (hb : hbtable) (stride : nat) : list hflag :=
  fold_left (flag_step n ch hb stride) (chain_order n ch) (repeat HELIX_NONE n).

Definition is_start (fl : list hflag) (i : nat) : bool :=
  match flag_at fl i with
  | HELIX_START | HELIX_START_AND_END => true
  | _ => false
  end.

(* ---------------------------------------------------------------- helices, turns, bends *)
Definition sec_at (sec : list ss) (i : nat) : ss := nth i sec SS_LOOP.

(* if (start[i] && start[i-1]) { empty = all ok in [i, i+w]; if (empty) fill [i, i+w] with v } *)
Definition helix_step (fl : list hflag) (w : nat) (ok : ss -> bool) (v : ss)
           (sec : list ss) (i : nat) : list ss :=
  if is_start fl i && is_start fl (i - 1) &&
     forallb (fun j => ok (sec_at sec j)) (seq i (S w))
  then update_range i (i + w) (fun _ => v) sec
  else sec.

Definition ok_alpha (_ : ss) : bool := true.
Definition ok_3 (s : ss) : bool := ss_eqb s SS_LOOP || ss_eqb s SS_HELIX_3.
Definition ok_5 (s : ss) : bool := ss_eqb s SS_LOOP || ss_eqb s SS_HELIX_5 || ss_eqb s SS_ALPHAHELIX.

Definition is_turn (f3 f4 f5 : list hflag) (i : nat) : bool :=
  existsb (fun sk : list hflag * nat => let (fl, stride) := sk in
     existsb (fun k => (k <=? i) && is_start fl (i - k)) (seq 1 (stride - 1)))
    [(f3, 3); (f4, 4); (f5, 5)].

Definition turn_step n ch skip geom f3 f4 f5 (i : nat) (s : ss) : ss :=
  if (1 <=? i) && (i + 1 <? n) && ss_eqb s SS_LOOP && negb (skip_at skip i) then
    if is_turn f3 f4 f5 i then SS_TURN
    else if is_bend n ch skip geom i then SS_BEND else s
  else s.

Definition calculate_alpha_helices n ch skip hb geom (sec : list ss) : list ss :=
  let f3 := helix_flags n ch hb 3 in
  let f4 := helix_flags n ch hb 4 in
  let f5 := helix_flags n ch hb 5 in
  (* for (i = 1; i < n-4; i++) *)
  let s1 := fold_left (helix_step f4 3 ok_alpha SS_ALPHAHELIX) (seq 1 (n - 4 - 1)) sec in
  (* for (i = 1; i < n-3; i++) *)
  let s2 := fold_left (helix_step f3 2 ok_3 SS_HELIX_3) (seq 1 (n - 3 - 1)) s1 in
  (* for (i = 1; i < n-5; i++) *)
  let s3 := fold_left (helix_step f5 4 ok_5 SS_HELIX_5) (seq 1 (n - 5 - 1)) s2 in
  (* for (i = 1; i < n-1; i++): each residue only reads its own entry *)
  map_idx (turn_step n ch skip geom f3 f4 f5) 0 s3.

(* one frame of dssp(): framesecondary *)
Definition dssp_frame n ch skip hb geom : list ss :=
  calculate_alpha_helices n ch skip hb geom
    (calculate_beta_sheets n ch skip hb (repeat SS_LOOP n)).

(* ---------------------------------------------------------------- characters, Python layer *)
Definition ss_name (s : ss) : string :=
  match s with
  | SS_LOOP => "SS_LOOP" | SS_ALPHAHELIX => "SS_ALPHAHELIX" | SS_BETABRIDGE => "SS_BETABRIDGE"
  | SS_STRAND => "SS_STRAND" | SS_HELIX_3 => "SS_HELIX_3" | SS_HELIX_5 => "SS_HELIX_5"
  | SS_TURN => "SS_TURN" | SS_BEND => "SS_BEND"
  end.

Fixpoint assoc (k : string) (t : list (string * string)) (d : string) : string :=
  match t with
  | [] => d
  | (k', v) :: r => if String.eqb k k' then v else assoc k r d
  end.

(* switch in dssp() with the table regenerated from the source *)
Definition ss_char (s : ss) : string := assoc (ss_name s) ss_char_table ss_char_default.

(* str.translate with str.maketrans(simplified_from, simplified_to), one character *)
Fixpoint translate1 (c : ascii) (from to : string) : ascii :=
  match from, to with
  | String a from', String b to' => if Ascii.eqb c a then b else translate1 c from' to'
  | _, _ => c
  end.
Fixpoint translate (s from to : string) : string :=
  match s with
  | EmptyString => EmptyString
  | String c r => String (translate1 c from to) (translate r from to)
  end.
Definition simplify (s : string) : string := translate s simplified_from simplified_to.

(* array[:, logical_not(protein_indices)] = "NA" *)
Fixpoint overlay (skip : list bool) (codes : list string) : list string :=
  match codes with
  | [] => []
  | c :: r => (if hd false skip then na_code else c) :: overlay (tl skip) r
  end.

(* md.compute_dssp(traj, simplified) for one frame *)
Definition compute_dssp (simplified : bool) n ch skip hb geom : list string :=
  overlay skip (map (fun s => if simplified then simplify (ss_char s) else ss_char s)
                    (dssp_frame n ch skip hb geom)).

(* ---------------------------------------------------------------- fixed specification tables *)
Definition char_spec (s : ss) : string :=
  match s with
  | SS_ALPHAHELIX => "H" | SS_BETABRIDGE => "B" | SS_STRAND => "E" | SS_HELIX_3 => "G"
  | SS_HELIX_5 => "I" | SS_TURN => "T" | SS_BEND => "S" | SS_LOOP => " "
  end.

(* the fixed three-letter image *)
Definition simplified_spec (s : ss) : string :=
  match s with
  | SS_ALPHAHELIX | SS_HELIX_3 | SS_HELIX_5 => "H"
  | SS_STRAND | SS_BETABRIDGE => "E"
  | SS_TURN | SS_BEND | SS_LOOP => "C"
  end.

(* the Python layer with the FIXED tables of the property instead of the regenerated ones (used by the
   search when the regenerated tables no longer match them) *)
Definition compute_dssp_spec (simplified : bool) n ch skip hb geom : list string :=
  map (fun sc : bool * ss => let (sk, s) := sc in
         if sk then "NA" else if simplified then simplified_spec s else char_spec s)
      (combine (map (skip_at skip) (seq 0 n)) (dssp_frame n ch skip hb geom)).

(* ---------------------------------------------------------------- comparison helpers *)
Fixpoint strs_eqb (a b : list string) : bool :=
  match a, b with
  | [], [] => true
  | x :: a', y :: b' => String.eqb x y && strs_eqb a' b'
  | _, _ => false
  end.

(* one correspondence case: (simplified, n, ch, skip, hb, geom) -> codes *)
Definition case_ty := (bool * nat * list nat * list bool * hbtable * list bool)%type.
Definition run_case (c : case_ty) : list string :=
  match c with (simp, n, ch, skip, hb, geom) => compute_dssp simp n ch skip hb geom end.
Definition run_sensitive (c : case_ty) : bool :=
  match c with (_, n, ch, skip, hb, _) => sort_sensitive n ch skip hb end.

(* the characters dssp() writes for one frame (C++ level, before the Python layer) *)
Definition dssp_chars n ch skip hb geom : list string := map ss_char (dssp_frame n ch skip hb geom).
Definition run_case_c (c : case_ty) : list string :=
  match c with (_, n, ch, skip, hb, geom) => dssp_chars n ch skip hb geom end.

Definition run_case_spec (c : case_ty) : list string :=
  match c with (simp, n, ch, skip, hb, geom) => compute_dssp_spec simp n ch skip hb geom end.
Definition run_case_c_spec (c : case_ty) : list string :=
  match c with (_, n, ch, skip, hb, geom) => map char_spec (dssp_frame n ch skip hb geom) end.
