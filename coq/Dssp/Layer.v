(* Character map, simplified alphabet, 'NA' overlay (dssp.py) and the role of incomplete residues (C15). *)
From Coq Require Import List Arith Bool String Ascii Lia.
Import ListNotations.
Require Import MD.Gen.DsspTables MD.Dssp.Model MD.Dssp.Proofs MD.Dssp.Bridges.
Local Open Scope string_scope.
Local Open Scope nat_scope.

(* the regenerated tables of today's source implement these *)
Lemma char_map_spec : forall s, ss_char s = char_spec s.
Proof. destruct s; reflexivity. Qed.

Lemma simplified_map_spec : forall s, simplify (ss_char s) = simplified_spec s.
Proof. destruct s; reflexivity. Qed.

Lemma na_code_spec : na_code = "NA".
Proof. reflexivity. Qed.

Lemma bend_angle_spec : bend_angle_degrees = 70.
Proof. reflexivity. Qed.

(* image of one reported code under the simplified alphabet: 'NA' stays 'NA' *)
Definition simplify_code (c : string) : string := if String.eqb c "NA" then "NA" else simplify c.

Lemma overlay_map : forall (f g : string -> string) (codes : list ss) (skip : list bool),
  (forall s, g (ss_char s) = f (ss_char s)) -> g na_code = na_code ->
  overlay skip (map (fun s => f (ss_char s)) codes) = map g (overlay skip (map ss_char codes)).
Proof.
  intros f g. induction codes as [|c r IH]; intros skip H1 H2; cbn [map overlay]; [reflexivity|].
  rewrite IH by assumption. f_equal. destruct (hd false skip); [now rewrite H2 | now rewrite H1].
Qed.

Lemma simplified_is_image : forall n ch skip hb geom,
  compute_dssp true n ch skip hb geom = map simplify_code (compute_dssp false n ch skip hb geom).
Proof.
  intros. unfold compute_dssp. apply overlay_map.
  - intros s. destruct s; reflexivity.
  - reflexivity.
Qed.

Lemma overlay_nth : forall codes skip r d, r < List.length codes ->
  nth r (overlay skip codes) d = if nth r skip false then na_code else nth r codes d.
Proof.
  induction codes as [|c codes IH]; intros skip r d Hr; cbn in Hr; [lia|].
  destruct r as [|r]; cbn [overlay nth].
  - destruct skip; reflexivity.
  - rewrite IH by lia. destruct skip; [destruct r|]; reflexivity.
Qed.

Lemma nth_map_any : forall A B (f : A -> B) l r d d', r < List.length l ->
  nth r (map f l) d = f (nth r l d').
Proof.
  induction l as [|x l IH]; intros r d d' Hr; cbn in *; [lia|]. destruct r; [reflexivity|]. apply IH. lia.
Qed.

Lemma compute_dssp_nth : forall simp n ch skip hb geom r, r < n ->
  nth r (compute_dssp simp n ch skip hb geom) "" =
  if skip_at skip r then "NA"
  else if simp then simplified_spec (sec_at (dssp_frame n ch skip hb geom) r)
       else char_spec (sec_at (dssp_frame n ch skip hb geom) r).
Proof.
  intros simp n ch skip hb geom r Hr. unfold compute_dssp.
  rewrite overlay_nth by now rewrite map_length, dssp_frame_length.
  fold (skip_at skip r). destruct (skip_at skip r); [reflexivity|].
  rewrite (nth_map_any _ _ _ _ _ _ SS_LOOP) by now rewrite dssp_frame_length.
  fold (sec_at (dssp_frame n ch skip hb geom) r).
  destruct simp; [apply simplified_map_spec | apply char_map_spec].
Qed.

(* incomplete residues are reported as 'NA' and nothing else is *)
Lemma na_overlay : forall simp n ch skip hb geom r, r < n ->
  (nth r (compute_dssp simp n ch skip hb geom) "" = "NA" <-> skip_at skip r = true).
Proof.
  intros simp n ch skip hb geom r Hr. rewrite compute_dssp_nth by assumption.
  destruct (skip_at skip r); [tauto|]. split; [|discriminate].
  destruct simp; destruct (sec_at (dssp_frame n ch skip hb geom) r); discriminate.
Qed.

Lemma codes_alphabet : forall simp n ch skip hb geom c,
  In c (compute_dssp simp n ch skip hb geom) ->
  if simp then In c ["H"; "E"; "C"; "NA"] else In c ["H"; "B"; "E"; "G"; "I"; "T"; "S"; " "; "NA"].
Proof.
  intros simp n ch skip hb geom c Hc. apply (In_nth _ _ "") in Hc as (r & Hr & <-).
  rewrite compute_dssp_length in Hr. rewrite compute_dssp_nth by assumption.
  destruct (skip_at skip r); [destruct simp; cbn; tauto|].
  destruct simp; destruct (sec_at (dssp_frame n ch skip hb geom) r); cbn; tauto.
Qed.

(* ------------------------------------------------------------------ incomplete residues *)
(* what kabsch_sander guarantees: no bond has an incomplete donor or acceptor *)
Definition hb_respects_skip (skip : list bool) (hb : hbtable) : Prop :=
  forall d a, test_bond hb d a = true -> skip_at skip d = false /\ skip_at skip a = false.

Lemma skip_no_turn : forall n ch skip hb s i, hb_respects_skip skip hb ->
  turnb n ch hb s i = true -> skip_at skip i = false /\ skip_at skip (i + s) = false.
Proof.
  intros n ch skip hb s i H T. unfold turnb in T. apply andb_true_iff in T as (T & _).
  apply andb_true_iff in T as (_ & T). apply H in T. tauto.
Qed.

Definition members_clean (skip : list bool) (b : bridge) : Prop :=
  forall x, In x (b_i b) \/ In x (b_j b) -> skip_at skip x = false.

Lemma ok_clean : forall n ch skip hb b, bridge_ok n ch skip hb b -> members_clean skip b.
Proof.
  intros n ch skip hb b (i0 & j0 & len & Hlen & _ & Hi & Hj & Hp) x Hx. rewrite Hi, Hj in Hx.
  destruct Hx as [Hx | Hx]; apply in_seq in Hx.
  - replace x with (i0 + (x - i0)) by lia. apply Hp. lia.
  - destruct (b_type b) eqn:Et.
    + replace x with (partner BRIDGE_NONE j0 len (x - j0)) by (cbn; lia). apply Hp. lia.
    + replace x with (partner BRIDGE_PARALLEL j0 len (x - j0)) by (cbn; lia). apply Hp. lia.
    + replace x with (partner BRIDGE_ANTIPARALLEL j0 len (j0 + len - 1 - x)) by (cbn; lia). apply Hp. lia.
Qed.

Lemma merge_clean : forall skip a b, members_clean skip a -> members_clean skip b ->
  members_clean skip (merge_bridge a b).
Proof.
  intros skip a b Ha Hb x Hx. unfold merge_bridge in Hx. cbn [b_i b_j] in Hx.
  destruct (btype_eqb (b_type a) BRIDGE_PARALLEL); rewrite !in_app_iff in Hx;
    destruct Hx as [[H | H] | [H | H]]; auto.
Qed.

Lemma merge_into_clean : forall skip ch rest b, members_clean skip b -> Forall (members_clean skip) rest ->
  members_clean skip (fst (merge_into ch b rest)) /\ Forall (members_clean skip) (snd (merge_into ch b rest)).
Proof.
  intros skip ch. induction rest as [|c r IH]; intros b Hb Hr; cbn [merge_into]; [cbn; auto|].
  apply Forall_cons_iff in Hr as (Hc & Hr).
  destruct (should_merge ch b c).
  - apply IH; [now apply merge_clean | assumption].
  - destruct (IH b Hb Hr) as (H1 & H2). destruct (merge_into ch b r) as (b', r'). cbn in *. auto.
Qed.

Lemma merge_all_clean : forall skip ch fuel bs, Forall (members_clean skip) bs ->
  Forall (members_clean skip) (merge_all fuel ch bs).
Proof.
  intros skip ch. induction fuel as [|f IH]; intros bs H; cbn [merge_all]; [assumption|].
  destruct bs as [|b rest]; [constructor|]. apply Forall_cons_iff in H as (Hb & Hr).
  destruct (merge_into_clean skip ch rest b Hb Hr) as (H1 & H2).
  destruct (merge_into ch b rest) as (b', r'). cbn in *. constructor; [assumption | now apply IH].
Qed.

(* no residue lacking a backbone atom is a member of any bridge or ladder, bulge merging included *)
Lemma skip_never_pairs : forall n ch skip hb b x, In b (ladders n ch skip hb) ->
  In x (b_i b) \/ In x (b_j b) -> skip_at skip x = false.
Proof.
  intros n ch skip hb b x Hb. revert x.
  assert (H : Forall (members_clean skip) (ladders n ch skip hb)).
  { unfold ladders. apply merge_all_clean. apply Forall_forall. intros c Hc.
    apply (proj1 (sort_bridges_In _ _)) in Hc. apply (ok_clean n ch skip hb).
    pose proof (initial_bridges_ok n ch skip hb) as Hok. rewrite Forall_forall in Hok. now apply Hok. }
  rewrite Forall_forall in H. exact (H b Hb).
Qed.

(* ... but the range fills of dssp.cpp can give such a residue a helix or strand code before the
   Python overlay replaces it: the C++ level statement "an incomplete residue stays blank" is false *)
Definition w_n := 12.
Definition w_skip := map (fun i => i =? 5) (seq 0 12).
Definition w_hb : hbtable := map (fun d => if (4 <=? d) && negb (d =? 5) && negb (d =? 9) then [d - 4] else []) (seq 0 12).

Lemma w_respects : hb_respects_skip w_skip w_hb.
Proof.
  intros d a H. unfold test_bond in H.
  assert (d < 12 \/ 12 <= d) as [Hd | Hd] by lia.
  - do 12 (destruct d as [|d]; [cbn in H; try discriminate; rewrite orb_false_r in H;
      apply Nat.eqb_eq in H; subst a; cbn; auto|]). lia.
  - rewrite nth_overflow in H by (cbn; lia). discriminate.
Qed.

Lemma skip_never_marked_refuted : exists n ch skip hb geom r,
  hb_respects_skip skip hb /\ r < n /\ skip_at skip r = true /\
  sec_at (dssp_frame n ch skip hb geom) r <> SS_LOOP.
Proof.
  exists w_n, (repeat 0 12), w_skip, w_hb, (repeat false 12), 5.
  split; [apply w_respects|]. split; [unfold w_n; lia|]. split; [reflexivity|]. vm_compute. discriminate.
Qed.
