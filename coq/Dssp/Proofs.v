(* Proofs about the DSSP model (C15): the sequential loops of dssp.cpp are characterised by
   declarative (order-free) rules. *)
From Coq Require Import List Arith Bool String Ascii Lia.
Import ListNotations.
Require Import MD.Gen.DsspTables MD.Dssp.Model.
Local Open Scope nat_scope.

(* ------------------------------------------------------------------ list utilities *)
Lemma map_idx_length : forall A (f : nat -> A -> A) l k, List.length (map_idx f k l) = List.length l.
Proof. induction l as [|x r IH]; intros k; cbn; [reflexivity|]. now rewrite IH. Qed.

Lemma update_range_length : forall A lo hi (f : A -> A) l, List.length (update_range lo hi f l) = List.length l.
Proof. intros. apply map_idx_length. Qed.

Lemma map_idx_nth : forall A (f : nat -> A -> A) l k r d, r < List.length l ->
  nth r (map_idx f k l) d = f (k + r) (nth r l d).
Proof.
  induction l as [|x l IH]; intros k r d Hr; cbn in *; [lia|].
  destruct r as [|r]; [now rewrite Nat.add_0_r|].
  rewrite IH by lia. now replace (S k + r) with (k + S r) by lia.
Qed.

Lemma map_idx_nth_out : forall A (f : nat -> A -> A) l k r d, List.length l <= r ->
  nth r (map_idx f k l) d = d.
Proof. intros. apply nth_overflow. now rewrite map_idx_length. Qed.

Lemma update_range_nth : forall A lo hi (f : A -> A) l r d, r < List.length l ->
  nth r (update_range lo hi f l) d = if in_range lo hi r then f (nth r l d) else nth r l d.
Proof. intros. unfold update_range. now rewrite map_idx_nth. Qed.

Lemma update_range_nth_out : forall A lo hi (f : A -> A) l r d, List.length l <= r ->
  nth r (update_range lo hi f l) d = nth r l d.
Proof. intros. unfold update_range. rewrite map_idx_nth_out by assumption. now rewrite nth_overflow. Qed.

Lemma in_range_iff : forall lo hi k, in_range lo hi k = true <-> lo <= k <= hi.
Proof. intros. unfold in_range. rewrite andb_true_iff, !Nat.leb_le. tauto. Qed.

Lemma fold_left_length : forall A B (f : list A -> B -> list A) (l : list B) (s : list A),
  (forall s x, List.length (f s x) = List.length s) -> List.length (fold_left f l s) = List.length s.
Proof. induction l as [|x l IH]; intros s H; cbn; [reflexivity|]. rewrite IH by assumption. apply H. Qed.

Lemma sec_at_update : forall lo hi (f : ss -> ss) sec r,
  sec_at (update_range lo hi f sec) r =
  if in_range lo hi r && (r <? List.length sec) then f (sec_at sec r) else sec_at sec r.
Proof.
  intros. unfold sec_at. destruct (r <? List.length sec) eqn:E.
  - apply Nat.ltb_lt in E. rewrite update_range_nth by assumption. now rewrite andb_true_r.
  - apply Nat.ltb_ge in E. rewrite update_range_nth_out by assumption. now rewrite andb_false_r.
Qed.

(* ------------------------------------------------------------------ lengths: one code per residue *)
Lemma mark_bridge_length : forall sec b, List.length (mark_bridge sec b) = List.length sec.
Proof. intros. unfold mark_bridge. now rewrite !update_range_length. Qed.

Lemma beta_length : forall n ch skip hb sec,
  List.length (calculate_beta_sheets n ch skip hb sec) = List.length sec.
Proof. intros. unfold calculate_beta_sheets. apply fold_left_length. apply mark_bridge_length. Qed.

Lemma helix_step_length : forall fl w ok v sec i, List.length (helix_step fl w ok v sec i) = List.length sec.
Proof. intros. unfold helix_step. destruct (_ && _); [apply update_range_length|reflexivity]. Qed.

Lemma alpha_length : forall n ch skip hb geom sec,
  List.length (calculate_alpha_helices n ch skip hb geom sec) = List.length sec.
Proof.
  intros. unfold calculate_alpha_helices. rewrite map_idx_length.
  rewrite !(fold_left_length _ _ (helix_step _ _ _ _)); auto using helix_step_length.
Qed.

Lemma dssp_frame_length : forall n ch skip hb geom, List.length (dssp_frame n ch skip hb geom) = n.
Proof. intros. unfold dssp_frame. now rewrite alpha_length, beta_length, repeat_length. Qed.

Lemma overlay_length : forall codes skip, List.length (overlay skip codes) = List.length codes.
Proof. induction codes as [|c r IH]; intros skip; cbn; [reflexivity|]. now rewrite IH. Qed.

Lemma compute_dssp_length : forall simp n ch skip hb geom,
  List.length (compute_dssp simp n ch skip hb geom) = n.
Proof. intros. unfold compute_dssp. now rewrite overlay_length, map_length, dssp_frame_length. Qed.

(* ------------------------------------------------------------------ the marking loop of the sheets *)
Definition covers (b : bridge) (r : nat) : bool :=
  in_range (front (b_i b)) (back (b_i b)) r || in_range (front (b_j b)) (back (b_j b)) r.
Definition is_ladder (b : bridge) : bool := 1 <? List.length (b_i b).

Lemma keep_strand_twice : forall s x, keep_strand s (keep_strand s x) = keep_strand s x.
Proof. intros s x. unfold keep_strand. destruct (ss_eqb x SS_STRAND) eqn:E; [now rewrite E|]. destruct (ss_eqb s SS_STRAND); reflexivity. Qed.

Lemma mark_bridge_at : forall sec b r, r < List.length sec ->
  sec_at (mark_bridge sec b) r =
  if covers b r then keep_strand (if is_ladder b then SS_STRAND else SS_BETABRIDGE) (sec_at sec r)
  else sec_at sec r.
Proof.
  intros sec b r Hr. unfold mark_bridge, covers, is_ladder.
  rewrite !sec_at_update, update_range_length.
  apply Nat.ltb_lt in Hr. rewrite Hr, !andb_true_r.
  destruct (in_range (front (b_j b)) _ r), (in_range (front (b_i b)) _ r); cbn; try reflexivity.
  apply keep_strand_twice.
Qed.

Lemma ss_eqb_eq : forall a b, ss_eqb a b = true <-> a = b.
Proof. intros a b; split; [destruct a, b; cbn; congruence | intros ->; destruct b; reflexivity]. Qed.

(* after the marking loop: STRAND if some ladder covers r (or it was STRAND), else BETABRIDGE if some
   bridge covers r, else unchanged *)
Lemma marking_spec : forall bs sec r, r < List.length sec ->
  sec_at (fold_left mark_bridge bs sec) r =
  if ss_eqb (sec_at sec r) SS_STRAND || existsb (fun b => covers b r && is_ladder b) bs then SS_STRAND
  else if existsb (fun b => covers b r) bs then SS_BETABRIDGE
  else sec_at sec r.
Proof.
  induction bs as [|b bs IH]; intros sec r Hr; cbn [fold_left existsb].
  - rewrite orb_false_r. destruct (ss_eqb (sec_at sec r) SS_STRAND) eqn:E; [now apply ss_eqb_eq in E|reflexivity].
  - rewrite IH by now rewrite mark_bridge_length. rewrite mark_bridge_at by assumption.
    destruct (covers b r) eqn:C; cbn [andb orb]; [|reflexivity].
    unfold keep_strand.
    destruct (ss_eqb (sec_at sec r) SS_STRAND) eqn:E; cbn [orb]; [now rewrite E|].
    destruct (is_ladder b) eqn:L; cbn [ss_eqb orb]; [reflexivity|].
    destruct (existsb (fun b0 => covers b0 r && is_ladder b0) bs); [reflexivity|].
    destruct (existsb (fun b0 => covers b0 r) bs); reflexivity.
Qed.

Lemma forallb_ext_all : forall A (f g : A -> bool) l, (forall x, f x = g x) -> forallb f l = forallb g l.
Proof. induction l as [|x l IH]; intros H; cbn; [reflexivity|]. now rewrite H, IH. Qed.

(* ------------------------------------------------------------------ one helix stage (H, G or I loop) *)
Section Stage.
  Variables (fl : list hflag) (w : nat) (ok : ss -> bool) (v : ss).
  Hypothesis ok_v : ok v = true.

  (* the loop body fires at i, judged on the secondary structure BEFORE the loop *)
  Definition trig (sec0 : list ss) (i : nat) : bool :=
    is_start fl i && is_start fl (i - 1) && forallb (fun j => ok (sec_at sec0 j)) (seq i (S w)).
  Definition stage_cov (sec0 : list ss) (is : list nat) (r : nat) : bool :=
    existsb (fun i => trig sec0 i && in_range i (i + w) r) is.

  Lemma stage_cov_ok : forall sec0 is j, stage_cov sec0 is j = true -> ok (sec_at sec0 j) = true.
  Proof.
    intros sec0 is j H. unfold stage_cov in H. apply existsb_exists in H as (i & _ & H).
    apply andb_true_iff in H as (T & R). unfold trig in T. apply andb_true_iff in T as (_ & T).
    rewrite forallb_forall in T. apply T. apply in_seq. apply in_range_iff in R. lia.
  Qed.

  Lemma stage_spec : forall is sec0, (forall i, In i is -> i + w < List.length sec0) ->
    List.length (fold_left (helix_step fl w ok v) is sec0) = List.length sec0 /\
    forall r, sec_at (fold_left (helix_step fl w ok v) is sec0) r =
              if stage_cov sec0 is r then v else sec_at sec0 r.
  Proof.
    induction is as [|i l IH] using rev_ind; intros sec0 Hb.
    - cbn. split; [reflexivity|]. intros r. reflexivity.
    - rewrite fold_left_app. cbn [fold_left].
      destruct (IH sec0) as (Hlen & Hat); [intros; apply Hb, in_or_app; now left|].
      set (cur := fold_left (helix_step fl w ok v) l sec0) in *.
      split; [now rewrite helix_step_length|].
      intros r. unfold stage_cov. rewrite existsb_app. cbn [existsb]. rewrite orb_false_r.
      fold (stage_cov sec0 l r).
      assert (Hok : forallb (fun j => ok (sec_at cur j)) (seq i (S w)) =
                    forallb (fun j => ok (sec_at sec0 j)) (seq i (S w))).
      { apply forallb_ext_all. intros j. rewrite Hat.
        destruct (stage_cov sec0 l j) eqn:C; [|reflexivity].
        rewrite ok_v. symmetry. now apply stage_cov_ok with (is := l). }
      unfold helix_step. rewrite Hok. fold (trig sec0 i).
      destruct (trig sec0 i) eqn:T; cbn [andb].
      + rewrite sec_at_update, Hat, Hlen.
        destruct (in_range i (i + w) r) eqn:R; cbn [andb].
        * assert (r < List.length sec0).
          { apply in_range_iff in R. specialize (Hb i). rewrite in_app_iff in Hb. cbn in Hb.
            assert (i + w < List.length sec0) by (apply Hb; right; now left). lia. }
          apply Nat.ltb_lt in H. rewrite H. now rewrite orb_true_r.
        * now rewrite orb_false_r.
      + rewrite Hat. now rewrite orb_false_r.
  Qed.
End Stage.

(* ------------------------------------------------------------------ helix flags = n-turns *)
Lemma nth_update_range : forall A lo hi (f : A -> A) l r d,
  nth r (update_range lo hi f l) d =
  if in_range lo hi r && (r <? List.length l) then f (nth r l d) else nth r l d.
Proof.
  intros. destruct (r <? List.length l) eqn:E.
  - apply Nat.ltb_lt in E. rewrite update_range_nth by assumption. now rewrite andb_true_r.
  - apply Nat.ltb_ge in E. rewrite update_range_nth_out by assumption. now rewrite andb_false_r.
Qed.

(* an n-turn at i with n = s: H-bond from the NH of residue i+s to the CO of residue i, same chain *)
Definition turnb (n : nat) (ch : list nat) (hb : hbtable) (s i : nat) : bool :=
  (i + s <? n) && test_bond hb (i + s) i && (chain_at ch i =? chain_at ch (i + s)).

Lemma flag_step_start : forall n ch hb s fl i r, List.length fl = n -> 1 <= s ->
  is_start (flag_step n ch hb s fl i) r =
  if turnb n ch hb s i then (if r =? i then true else if r =? i + s then false else is_start fl r)
  else is_start fl r.
Proof.
  intros n ch hb s fl i r Hlen Hs. unfold flag_step. fold (turnb n ch hb s i).
  destruct (turnb n ch hb s i) eqn:T; [|reflexivity].
  assert (Hin : i + s < n).
  { unfold turnb in T. apply andb_true_iff in T as (T & _). apply andb_true_iff in T as (T & _).
    now apply Nat.ltb_lt in T. }
  set (f1 := set_at (i + s) HELIX_END fl).
  set (g := fun x => match x with HELIX_NONE => HELIX_MIDDLE | _ => x end).
  set (f2 := update_range (i + 1) (i + s - 1) g f1).
  assert (L1 : List.length f1 = n) by (unfold f1, set_at; now rewrite update_range_length).
  assert (L2 : List.length f2 = n) by (unfold f2; now rewrite update_range_length).
  assert (Hfin : forall X, (X = HELIX_START \/ X = HELIX_START_AND_END) ->
     is_start (set_at i X f2) r =
     (if r =? i then true else if r =? i + s then false else is_start fl r)).
  { intros X HX. unfold is_start, flag_at, set_at. rewrite nth_update_range, L2.
    unfold in_range. destruct (Nat.eqb_spec r i) as [->|Hne].
    - rewrite !Nat.leb_refl. cbn [andb]. assert (E : i <? n = true) by (apply Nat.ltb_lt; lia).
      rewrite E. destruct HX as [-> | ->]; reflexivity.
    - assert (E : (i <=? r) && (r <=? i) = false).
      { destruct (i <=? r) eqn:A, (r <=? i) eqn:B; try reflexivity.
        apply Nat.leb_le in A, B. lia. }
      rewrite E. cbn [andb]. unfold f2. rewrite nth_update_range, L1.
      unfold f1. unfold set_at. rewrite !nth_update_range, Hlen.
      unfold in_range. destruct (Nat.eqb_spec r (i + s)) as [->|Hne2].
      + rewrite !Nat.leb_refl. assert (E2 : i + s <? n = true) by (apply Nat.ltb_lt; lia).
        rewrite E2. cbn [andb].
        assert (E3 : (i + s <=? i + s - 1) = false) by (apply Nat.leb_gt; lia).
        rewrite E3, andb_false_r. cbn [andb]. reflexivity.
      + assert (E2 : (i + s <=? r) && (r <=? i + s) = false).
        { destruct (i + s <=? r) eqn:A, (r <=? i + s) eqn:B; try reflexivity.
          apply Nat.leb_le in A, B. lia. }
        rewrite E2. cbn [andb].
        destruct ((i + 1 <=? r) && (r <=? i + s - 1) && (r <? n)); [|reflexivity].
        unfold g. destruct (nth r fl HELIX_NONE); reflexivity. }
  destruct (flag_at f2 i); apply Hfin; auto.
Qed.

Lemma flag_step_length : forall n ch hb s fl i, List.length (flag_step n ch hb s fl i) = List.length fl.
Proof.
  intros. unfold flag_step. destruct (_ && _); [|reflexivity].
  destruct (flag_at _ i); unfold set_at; now rewrite !update_range_length.
Qed.

(* the order in which residues are visited only has to list every residue once and to visit the
   residues of one chain in increasing order *)
Definition visits_chainwise (ch : list nat) (ord : list nat) : Prop :=
  forall l1 i l2, ord = l1 ++ i :: l2 ->
    forall j, In j l1 -> ~ (chain_at ch j = chain_at ch i /\ i <= j).

Lemma flags_fold : forall n ch hb s, 1 <= s -> forall l2 l1 fl,
  visits_chainwise ch (l1 ++ l2) ->
  List.length fl = n ->
  (forall r, is_start fl r = existsb (Nat.eqb r) l1 && turnb n ch hb s r) ->
  forall r, is_start (fold_left (flag_step n ch hb s) l2 fl) r =
            existsb (Nat.eqb r) (l1 ++ l2) && turnb n ch hb s r.
Proof.
  intros n ch hb s Hs. induction l2 as [|i l2 IH]; intros l1 fl Hv Hlen Hinv r.
  - cbn. now rewrite app_nil_r.
  - cbn [fold_left]. replace (l1 ++ i :: l2) with ((l1 ++ [i]) ++ l2) in * by now rewrite <- app_assoc.
    apply IH; [assumption | now rewrite flag_step_length |].
    intros r0. rewrite flag_step_start by assumption. rewrite existsb_app. cbn [existsb]. rewrite orb_false_r.
    destruct (turnb n ch hb s i) eqn:T.
    + destruct (Nat.eqb_spec r0 i) as [->|Hne].
      * now rewrite orb_true_r, T.
      * rewrite orb_false_r. destruct (Nat.eqb_spec r0 (i + s)) as [->|Hne2]; [|apply Hinv].
        (* i+s is in the chain of i and larger: it cannot have been visited yet *)
        destruct (existsb (Nat.eqb (i + s)) l1) eqn:E; [|reflexivity].
        exfalso. apply existsb_exists in E as (j & Hj & Ej). apply Nat.eqb_eq in Ej. subst j.
        refine (Hv l1 i l2 _ (i + s) Hj _); [now rewrite <- app_assoc|].
        unfold turnb in T. apply andb_true_iff in T as (_ & T). apply Nat.eqb_eq in T. split; [auto|lia].
    + rewrite Hinv. destruct (Nat.eqb_spec r0 i) as [->|Hne]; [|now rewrite orb_false_r].
      now rewrite T, !andb_false_r.
Qed.

(* chain_order visits chain by chain, each chain in increasing residue order *)
From Coq Require Import Sorting.Sorted.

Definition lt2 (ch : list nat) (a b : nat) : Prop :=
  chain_at ch a < chain_at ch b \/ (chain_at ch a = chain_at ch b /\ a < b).

Lemma SS_app : forall A (R : A -> A -> Prop) l1 l2,
  StronglySorted R l1 -> StronglySorted R l2 -> (forall a b, In a l1 -> In b l2 -> R a b) ->
  StronglySorted R (l1 ++ l2).
Proof.
  induction l1 as [|x l1 IH]; intros l2 H1 H2 H; cbn; [assumption|].
  apply StronglySorted_inv in H1 as (H1 & F). constructor.
  - apply IH; auto. intros; apply H; cbn; auto.
  - apply Forall_app. split; [assumption|]. apply Forall_forall. intros b Hb. apply H; cbn; auto.
Qed.

Lemma SS_seq : forall k a, StronglySorted lt (seq a k).
Proof.
  induction k as [|k IH]; intros a; cbn; constructor; [apply IH|].
  apply Forall_forall. intros x Hx. apply in_seq in Hx. lia.
Qed.

Lemma SS_filter : forall A (R : A -> A -> Prop) (p : A -> bool) l,
  StronglySorted R l -> StronglySorted R (filter p l).
Proof.
  induction l as [|x l IH]; intros H; cbn; [constructor|].
  apply StronglySorted_inv in H as (H & F). destruct (p x); [|auto].
  constructor; [auto|]. rewrite Forall_forall in *. intros y Hy. apply filter_In in Hy as (Hy & _). auto.
Qed.

Lemma SS_weaken : forall A (R S : A -> A -> Prop) l,
  (forall a b, In a l -> In b l -> R a b -> S a b) -> StronglySorted R l -> StronglySorted S l.
Proof.
  induction l as [|x l IH]; intros H HS; [constructor|].
  apply StronglySorted_inv in HS as (HS & F). constructor.
  - apply IH; [|assumption]. intros; apply H; cbn; auto.
  - rewrite Forall_forall in *. intros y Hy. apply H; cbn; auto.
Qed.

Lemma SS_split : forall A (R : A -> A -> Prop) l1 x l2,
  StronglySorted R (l1 ++ x :: l2) -> forall y, In y l1 -> R y x.
Proof.
  induction l1 as [|a l1 IH]; intros x l2 H y Hy; [destruct Hy|].
  cbn in H. apply StronglySorted_inv in H as (H & F). destruct Hy as [->|Hy].
  - rewrite Forall_forall in F. apply F. apply in_or_app. right. now left.
  - eapply IH; eauto.
Qed.

Lemma chain_order_sorted : forall n ch, StronglySorted (lt2 ch) (chain_order n ch).
Proof.
  intros n ch. unfold chain_order.
  assert (G : forall cs, StronglySorted lt cs ->
              StronglySorted (lt2 ch) (flat_map (fun c => filter (fun i => chain_at ch i =? c) (seq 0 n)) cs)).
  { induction cs as [|c cs IH]; intros H; cbn [flat_map]; [constructor|].
    apply StronglySorted_inv in H as (H & F). apply SS_app.
    - apply SS_weaken with (R := lt); [|apply SS_filter, SS_seq].
      intros a b Ha Hb Hab. apply filter_In in Ha as (_ & Ha), Hb as (_ & Hb).
      apply Nat.eqb_eq in Ha, Hb. right. split; [congruence|assumption].
    - auto.
    - intros a b Ha Hb. apply filter_In in Ha as (_ & Ha). apply Nat.eqb_eq in Ha.
      apply in_flat_map in Hb as (c' & Hc' & Hb). apply filter_In in Hb as (_ & Hb). apply Nat.eqb_eq in Hb.
      rewrite Forall_forall in F. specialize (F c' Hc'). left. lia. }
  apply G, SS_seq.
Qed.

Lemma chain_order_visits : forall n ch, visits_chainwise ch (chain_order n ch).
Proof.
  intros n ch l1 i l2 E j Hj (Hc & Hle).
  pose proof (chain_order_sorted n ch) as S. rewrite E in S.
  pose proof (SS_split _ _ _ _ _ S j Hj) as [H | (_ & H)]; lia.
Qed.

Lemma chain_le_max : forall ch i, chain_at ch i <= list_max ch.
Proof.
  intros ch i. unfold chain_at. destruct (Nat.lt_ge_cases i (List.length ch)) as [H|H].
  - pose proof (proj1 (list_max_le ch (list_max ch)) (Nat.le_refl _)) as F.
    rewrite Forall_forall in F. apply F. now apply nth_In.
  - rewrite nth_overflow by assumption. lia.
Qed.

Lemma chain_order_In : forall n ch r, In r (chain_order n ch) <-> r < n.
Proof.
  intros n ch r. unfold chain_order. rewrite in_flat_map. split.
  - intros (c & _ & H). apply filter_In in H as (H & _). apply in_seq in H. lia.
  - intros H. exists (chain_at ch r). split.
    + apply in_seq. pose proof (chain_le_max ch r). lia.
    + apply filter_In. split; [apply in_seq; lia | apply Nat.eqb_refl].
Qed.

(* helix_flags marks i as a start of an s-turn exactly when the H-bond (i+s -> i) exists in one chain *)
Lemma is_start_spec : forall n ch hb s i, 1 <= s ->
  is_start (helix_flags n ch hb s) i = turnb n ch hb s i.
Proof.
  intros n ch hb s i Hs. unfold helix_flags.
  rewrite (flags_fold n ch hb s Hs (chain_order n ch) [] (repeat HELIX_NONE n)).
  - cbn [app]. destruct (turnb n ch hb s i) eqn:T; [|now rewrite andb_false_r].
    rewrite andb_true_r. apply existsb_exists. exists i. split; [|apply Nat.eqb_refl].
    apply chain_order_In. unfold turnb in T. apply andb_true_iff in T as (T & _).
    apply andb_true_iff in T as (T & _). apply Nat.ltb_lt in T. lia.
  - apply chain_order_visits.
  - apply repeat_length.
  - intros r. cbn [existsb andb]. unfold is_start, flag_at.
    destruct (Nat.lt_ge_cases r n) as [H|H].
    + now rewrite nth_repeat.
    + rewrite nth_overflow; [reflexivity | now rewrite repeat_length].
Qed.

(* ------------------------------------------------------------------ the DSSP rules *)
Lemma sec_at_repeat : forall n r, sec_at (repeat SS_LOOP n) r = SS_LOOP.
Proof.
  intros. unfold sec_at. destruct (Nat.lt_ge_cases r n); [now rewrite nth_repeat|].
  rewrite nth_overflow; [reflexivity | now rewrite repeat_length].
Qed.

Lemma sec_at_out : forall sec r, List.length sec <= r -> sec_at sec r = SS_LOOP.
Proof. intros. unfold sec_at. now apply nth_overflow. Qed.

Section Rules.
  Variables (n : nat) (ch : list nat) (skip : list bool) (hb : hbtable) (geom : list bool).

  Definition secB : list ss := calculate_beta_sheets n ch skip hb (repeat SS_LOOP n).
  Definition fl (s : nat) : list hflag := helix_flags n ch hb s.
  Definition s1 := fold_left (helix_step (fl 4) 3 ok_alpha SS_ALPHAHELIX) (seq 1 (n - 4 - 1)) secB.
  Definition s2 := fold_left (helix_step (fl 3) 2 ok_3 SS_HELIX_3) (seq 1 (n - 3 - 1)) s1.
  Definition s3 := fold_left (helix_step (fl 5) 4 ok_5 SS_HELIX_5) (seq 1 (n - 5 - 1)) s2.

  Lemma secB_length : List.length secB = n.
  Proof. unfold secB. now rewrite beta_length, repeat_length. Qed.

  (* E, B or blank after the sheet stage, decided by the final bridge list *)
  Lemma secB_at : forall r, r < n ->
    sec_at secB r =
    if existsb (fun b => covers b r && is_ladder b) (ladders n ch skip hb) then SS_STRAND
    else if existsb (fun b => covers b r) (ladders n ch skip hb) then SS_BETABRIDGE else SS_LOOP.
  Proof.
    intros r Hr. unfold secB, calculate_beta_sheets. rewrite marking_spec by now rewrite repeat_length.
    now rewrite sec_at_repeat.
  Qed.

  Lemma secB_codes : forall r,
    sec_at secB r = SS_STRAND \/ sec_at secB r = SS_BETABRIDGE \/ sec_at secB r = SS_LOOP.
  Proof.
    intros r. destruct (Nat.lt_ge_cases r n) as [H|H].
    - rewrite secB_at by assumption. destruct (existsb _ _); auto. destruct (existsb _ _); auto.
    - right; right. apply sec_at_out. now rewrite secB_length.
  Qed.

  Definition alphab (r : nat) : bool := stage_cov (fl 4) 3 ok_alpha secB (seq 1 (n - 4 - 1)) r.
  Definition g3b (r : nat) : bool := stage_cov (fl 3) 2 ok_3 s1 (seq 1 (n - 3 - 1)) r.
  Definition i5b (r : nat) : bool := stage_cov (fl 5) 4 ok_5 s2 (seq 1 (n - 5 - 1)) r.

  Lemma s1_spec : List.length s1 = n /\
    forall r, sec_at s1 r = if alphab r then SS_ALPHAHELIX else sec_at secB r.
  Proof.
    unfold s1, alphab.
    destruct (stage_spec (fl 4) 3 ok_alpha SS_ALPHAHELIX eq_refl (seq 1 (n - 4 - 1)) secB) as (L & H).
    { intros i Hi. apply in_seq in Hi. rewrite secB_length. lia. }
    rewrite secB_length in L. split; assumption.
  Qed.

  Lemma s2_spec : List.length s2 = n /\
    forall r, sec_at s2 r = if g3b r then SS_HELIX_3 else sec_at s1 r.
  Proof.
    destruct s1_spec as (L1 & _). unfold s2, g3b.
    destruct (stage_spec (fl 3) 2 ok_3 SS_HELIX_3 eq_refl (seq 1 (n - 3 - 1)) s1) as (L & H).
    { intros i Hi. apply in_seq in Hi. rewrite L1. lia. }
    rewrite L1 in L. split; assumption.
  Qed.

  Lemma s3_spec : List.length s3 = n /\
    forall r, sec_at s3 r = if i5b r then SS_HELIX_5 else sec_at s2 r.
  Proof.
    destruct s2_spec as (L2 & _). unfold s3, i5b.
    destruct (stage_spec (fl 5) 4 ok_5 SS_HELIX_5 eq_refl (seq 1 (n - 5 - 1)) s2) as (L & H).
    { intros i Hi. apply in_seq in Hi. rewrite L2. lia. }
    rewrite L2 in L. split; assumption.
  Qed.

  (* secondary structure after the three helix loops, before turns and bends *)
  Definition helix_code (r : nat) : ss :=
    if i5b r then SS_HELIX_5 else if g3b r then SS_HELIX_3 else if alphab r then SS_ALPHAHELIX
    else sec_at secB r.

  Lemma s3_at : forall r, sec_at s3 r = helix_code r.
  Proof.
    intros r. unfold helix_code. rewrite (proj2 s3_spec), (proj2 s2_spec), (proj2 s1_spec). reflexivity.
  Qed.

  Lemma dssp_frame_at : forall r, r < n ->
    sec_at (dssp_frame n ch skip hb geom) r =
    turn_step n ch skip geom (fl 3) (fl 4) (fl 5) r (helix_code r).
  Proof.
    intros r Hr. unfold dssp_frame, calculate_alpha_helices. fold secB. fold (fl 3) (fl 4) (fl 5).
    fold s1. fold s2. fold s3. unfold sec_at at 1. rewrite map_idx_nth by now rewrite (proj1 s3_spec).
    cbn [Nat.add]. fold (sec_at s3 r). now rewrite s3_at.
  Qed.
End Rules.
