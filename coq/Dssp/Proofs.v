(* Proofs about the DSSP model (C15). *)
From Coq Require Import List Arith Bool String Ascii Lia.
Import ListNotations.
Require Import MD.Gen.DsspTables MD.Dssp.Model.
Local Open Scope nat_scope.

Lemma map_idx_length : forall A (f : nat -> A -> A) l k, List.length (map_idx f k l) = List.length l.
Proof. induction l as [|x r IH]; intros k; cbn; [reflexivity|]. now rewrite IH. Qed.

Lemma update_range_length : forall A lo hi (f : A -> A) l, List.length (update_range lo hi f l) = List.length l.
Proof. intros. apply map_idx_length. Qed.
