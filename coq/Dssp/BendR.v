(* Proofs about the bend angle test on exact coordinates (Dssp/Bend.v).  The statements over R depend on
   the standard-library axioms of the real numbers; geom_flags_nth, is_bend_xyz and kappa_dot_meaning are closed. *)
From Coq Require Import List ZArith QArith Qreals Reals Lra Lia Bool Arith.
Import ListNotations.
Require Import MD.Hbond.Model MD.Hbond.Angle MD.Hbond.WnR MD.Hbond.AngleR MD.Dssp.Model MD.Dssp.Bend.
Local Open Scope nat_scope.

(* D is the dot product of the successive virtual-bond vectors CA(i-2)->CA(i) and CA(i)->CA(i+2),
   A and B their squared lengths: kappa is the angle between these two directions *)
Lemma kappa_dot_meaning : forall px py pz tx ty tz nx ny nz : Z,
  kappa_terms (px, py, pz) (tx, ty, tz) (nx, ny, nz) =
  (((tx - px) * (nx - tx) + (ty - py) * (ny - ty) + (tz - pz) * (nz - tz))%Z,
   ((tx - px) * (tx - px) + (ty - py) * (ty - py) + (tz - pz) * (tz - pz))%Z,
   ((nx - tx) * (nx - tx) + (ny - ty) * (ny - ty) + (nz - tz) * (nz - tz))%Z).
Proof. intros. unfold kappa_terms. f_equal; [f_equal|]; ring. Qed.

(* the real-valued angle the C code computes (in exact arithmetic) *)
Definition kappa_real (D A B : Z) : R := acos (clipR (IZR D / sqrt (IZR A * IZR B))).

Lemma kappa_real_angle : forall D A B, (0 < A)%Z -> (0 < B)%Z -> angle_real (2 * D) A B = kappa_real D A B.
Proof.
  intros D A B HA HB. unfold angle_real, kappa_real. f_equal. f_equal.
  assert (Hab : (0 < IZR A * IZR B)%R) by (apply Rmult_lt_0_compat; now apply IZR_lt).
  assert (Hs : (0 < sqrt (IZR A * IZR B))%R) by now apply sqrt_lt_R0.
  rewrite mult_IZR. field. lra.
Qed.

Theorem kappa_sure_sound : forall deg p t nx D A B, kappa_terms p t nx = (D, A, B) ->
  (0 < A)%Z -> (0 < B)%Z -> (0 <= Q2R deg < 180)%R ->
  kappa_gt true deg p t nx = true -> (Q2R deg * PI / 180 < kappa_real D A B)%R.
Proof.
  intros deg p t nx D A B E HA HB Hd H. unfold kappa_gt, kappa_lt_cos in H. rewrite E in H.
  replace (A * B =? 0)%Z with false in H by (symmetry; apply Z.eqb_neq; nia).
  rewrite <- kappa_real_angle by assumption. exact (angle_gt_sure_sound deg (2 * D) A B HA HB Hd H).
Qed.

Theorem kappa_maybe_complete : forall deg p t nx D A B, kappa_terms p t nx = (D, A, B) ->
  (0 < A)%Z -> (0 < B)%Z -> (0 <= Q2R deg < 180)%R ->
  (Q2R deg * PI / 180 < kappa_real D A B)%R -> kappa_gt false deg p t nx = true.
Proof.
  intros deg p t nx D A B E HA HB Hd H. unfold kappa_gt, kappa_lt_cos. rewrite E.
  replace (A * B =? 0)%Z with false by (symmetry; apply Z.eqb_neq; nia).
  rewrite <- kappa_real_angle in H by assumption.
  exact (angle_gt_maybe_complete deg (2 * D) A B HA HB Hd H).
Qed.

(* as found: coinciding CA atoms make the residue a bend whatever the threshold *)
Lemma kappa_degenerate : forall sure deg p t nx D A B, kappa_terms p t nx = (D, A, B) ->
  (A * B = 0)%Z -> kappa_gt sure deg p t nx = true.
Proof.
  intros sure deg p t nx D A B E H. unfold kappa_gt, kappa_lt_cos. rewrite E.
  replace (A * B =? 0)%Z with true by (symmetry; now apply Z.eqb_eq). reflexivity.
Qed.

(* ------------------------------------------------------------------ the flags the model reads *)
Lemma geom_flags_length : forall sure deg ca, length (geom_flags sure deg ca) = length ca.
Proof. intros. unfold geom_flags, geom_flags_k. now rewrite map_length, seq_length. Qed.

Lemma geom_flags_nth : forall sure deg ca i, i < length ca ->
  nth i (geom_flags sure deg ca) false =
  match (if 2 <=? i then ca_at ca (i - 2) else None), ca_at ca i, ca_at ca (i + 2) with
  | Some p, Some t, Some nx => kappa_gt sure deg p t nx
  | _, _, _ => false
  end.
Proof.
  intros sure deg ca i Hi. unfold geom_flags, geom_flags_k, kappa_gt.
  set (f := fun i0 : nat => _).
  rewrite (nth_indep _ false (f 0)) by (rewrite map_length, seq_length; exact Hi).
  rewrite map_nth, seq_nth by exact Hi. reflexivity.
Qed.

(* the bend condition of the model with flags computed from coordinates, spelled out *)
Theorem is_bend_xyz : forall sure deg n ch skip ca r, length ca = n ->
  (is_bend n ch skip (geom_flags sure deg ca) r = true <->
   2 <= r /\ r + 2 < n /\ chain_at ch (r - 2) = chain_at ch (r + 2) /\
   skip_at skip (r - 2) = false /\ skip_at skip r = false /\ skip_at skip (r + 2) = false /\
   exists p t nx, ca_at ca (r - 2) = Some p /\ ca_at ca r = Some t /\ ca_at ca (r + 2) = Some nx /\
                  kappa_gt sure deg p t nx = true).
Proof.
  intros sure deg n ch skip ca r Hn. unfold is_bend.
  rewrite !andb_true_iff, !negb_true_iff, Nat.leb_le, Nat.ltb_lt, Nat.eqb_eq.
  split.
  - intros ((((((H2 & Hr) & Hc) & S1) & S2) & S3) & G).
    repeat (split; [assumption|]).
    rewrite geom_flags_nth in G by lia.
    replace (2 <=? r) with true in G by (symmetry; now apply Nat.leb_le).
    destruct (ca_at ca (r - 2)) as [p|]; [|discriminate].
    destruct (ca_at ca r) as [t|]; [|discriminate].
    destruct (ca_at ca (r + 2)) as [nx|]; [|discriminate].
    exists p, t, nx. auto.
  - intros (H2 & Hr & Hc & S1 & S2 & S3 & p & t & nx & E1 & E2 & E3 & G).
    repeat split; try assumption.
    rewrite geom_flags_nth by lia.
    replace (2 <=? r) with true by (symmetry; now apply Nat.leb_le).
    rewrite E1, E2, E3. exact G.
Qed.

(* the bounds compiled into Bend.v are the two ends of the enclosure at threshold +- guard *)
Lemma bend_bounds_are_the_enclosure :
  bend_k_sure = cos_bound true (Qplus bend_deg bend_guard) /\
  bend_k_maybe = cos_bound false (Qminus bend_deg bend_guard).
Proof. split; vm_compute; reflexivity. Qed.

(* ------------------------------------------------------------------ 'NA' from the atom names *)
Require Import MD.Hbond.KsModel MD.Hbond.KsWrap MD.Hbond.KsWrapProofs MD.Dssp.Layer.
From Coq Require Import String.

Lemma skip_of_nth : forall rs r d, r < List.length rs ->
  skip_at (skip_of rs) r = r_skip (prep_residue (nth r rs d)).
Proof.
  intros rs r d Hr. unfold skip_at, skip_of.
  rewrite (nth_indep _ false (r_skip (prep_residue d))) by (rewrite map_length; exact Hr).
  now rewrite (map_nth (fun x => r_skip (prep_residue x))).
Qed.

(* compute_dssp reports 'NA' for residue r iff the residue lacks an atom named N, CA, C or O *)
Theorem na_iff_backbone_name_missing : forall simp ch rs hb geom r d, r < List.length rs ->
  (nth r (compute_dssp simp (List.length rs) ch (skip_of rs) hb geom) ""%string = "NA"%string <->
   ~ (has_atom "N" (nth r rs d) /\ has_atom "CA" (nth r rs d) /\ has_atom "C" (nth r rs d) /\ has_atom "O" (nth r rs d))).
Proof.
  intros simp ch rs hb geom r d Hr. rewrite Layer.na_overlay by exact Hr.
  rewrite (skip_of_nth rs r d Hr). rewrite <- prep_complete_iff.
  destruct (r_skip (prep_residue (nth r rs d))).
  - split; [intros _ H; discriminate | reflexivity].
  - split; [discriminate | intros H; exfalso; now apply H].
Qed.
