(* The DSSP rules in declarative form, and the proof that the model's output obeys them (C15). *)
From Coq Require Import List Arith Bool String Ascii Lia.
Import ListNotations.
Require Import MD.Gen.DsspTables MD.Dssp.Model MD.Dssp.Proofs.
Local Open Scope nat_scope.

(* ------------------------------------------------------------------ vocabulary of the rules *)
(* s-turn at i: H-bond from NH(i+s) to CO(i), both in one chain *)
Definition turn_at n ch hb (s i : nat) : Prop := turnb n ch hb s i = true.
(* a minimal s-helix starts at residue i: two consecutive s-turns at i-1 and i *)
Definition minimal_helix n ch hb (s i : nat) : Prop :=
  1 <= i /\ turn_at n ch hb s (i - 1) /\ turn_at n ch hb s i.
(* E / B / blank as decided by the sheet stage *)
Definition sheet_code n ch skip hb (r : nat) : ss := sec_at (secB n ch skip hb) r.

Definition alpha_at n ch hb (r : nat) : Prop :=
  exists i, minimal_helix n ch hb 4 i /\ i <= r <= i + 3.
Definition g_at n ch skip hb (r : nat) : Prop :=
  exists i, minimal_helix n ch hb 3 i /\ i <= r <= i + 2 /\
            forall j, i <= j <= i + 2 -> ~ alpha_at n ch hb j /\ sheet_code n ch skip hb j = SS_LOOP.
Definition i_at n ch skip hb (r : nat) : Prop :=
  exists i, minimal_helix n ch hb 5 i /\ i <= r <= i + 4 /\
            forall j, i <= j <= i + 4 ->
              ~ g_at n ch skip hb j /\ (alpha_at n ch hb j \/ sheet_code n ch skip hb j = SS_LOOP).
(* r lies strictly inside some n-turn *)
Definition turn_inside n ch hb (r : nat) : Prop :=
  exists s k, (s = 3 \/ s = 4 \/ s = 5) /\ 1 <= k < s /\ k <= r /\ turn_at n ch hb s (r - k).
(* no helix, no sheet code *)
Definition plain n ch skip hb (r : nat) : Prop :=
  ~ alpha_at n ch hb r /\ ~ g_at n ch skip hb r /\ ~ i_at n ch skip hb r /\
  sheet_code n ch skip hb r = SS_LOOP.

(* ------------------------------------------------------------------ reflection of the stages *)
Lemma forallb_seq_iff : forall (p : nat -> bool) a k,
  forallb p (seq a k) = true <-> forall j, a <= j < a + k -> p j = true.
Proof.
  intros p a k. rewrite forallb_forall. split; intros H j Hj.
  - apply H. now apply in_seq.
  - apply in_seq in Hj. now apply H.
Qed.

Lemma turnb_bound : forall n ch hb s i, turnb n ch hb s i = true -> i + s < n.
Proof.
  intros n ch hb s i T. unfold turnb in T. apply andb_true_iff in T as (T & _).
  apply andb_true_iff in T as (T & _). now apply Nat.ltb_lt in T.
Qed.

Lemma stage_cov_iff : forall n ch hb s w ok sec0 r, 1 <= s ->
  stage_cov (helix_flags n ch hb s) w ok sec0 (seq 1 (n - s - 1)) r = true <->
  exists i, minimal_helix n ch hb s i /\ i <= r <= i + w /\
            forall j, i <= j <= i + w -> ok (sec_at sec0 j) = true.
Proof.
  intros n ch hb s w ok sec0 r Hs. unfold stage_cov. rewrite existsb_exists. split.
  - intros (i & Hi & H). apply in_seq in Hi. apply andb_true_iff in H as (T & R).
    unfold trig in T. rewrite !is_start_spec in T by assumption.
    apply andb_true_iff in T as (T & F). apply andb_true_iff in T as (T1 & T0).
    exists i. split; [|split].
    + unfold minimal_helix, turn_at. repeat split; [lia | assumption | assumption].
    + now apply in_range_iff.
    + intros j Hj. rewrite forallb_seq_iff in F. apply F. lia.
  - intros (i & (H1 & T0 & T1) & R & F). unfold turn_at in *. exists i. split.
    + apply in_seq. apply turnb_bound in T1. lia.
    + apply andb_true_iff. split; [|now apply in_range_iff].
      unfold trig. rewrite !is_start_spec by assumption. rewrite T0, T1. cbn [andb].
      apply forallb_seq_iff. intros j Hj. apply F. lia.
Qed.

Section Reflect.
  Variables (n : nat) (ch : list nat) (skip : list bool) (hb : hbtable).

  Lemma alphab_iff : forall r, alphab n ch skip hb r = true <-> alpha_at n ch hb r.
  Proof.
    intros r. unfold alphab, fl. rewrite stage_cov_iff by lia. unfold alpha_at. split.
    - intros (i & M & R & _). eauto.
    - intros (i & M & R). exists i. split; [exact M|]. split; [exact R|]. intros; reflexivity.
  Qed.

  Lemma alphab_false : forall r, alphab n ch skip hb r = false <-> ~ alpha_at n ch hb r.
  Proof. intros r. rewrite <- alphab_iff. destruct (alphab n ch skip hb r); split; congruence. Qed.

  Lemma sheet_not_helix : forall r c, sheet_code n ch skip hb r = c ->
    c = SS_STRAND \/ c = SS_BETABRIDGE \/ c = SS_LOOP.
  Proof. intros r c <-. apply secB_codes. Qed.

  Lemma ok3_s1 : forall j, ok_3 (sec_at (s1 n ch skip hb) j) = true <->
    ~ alpha_at n ch hb j /\ sheet_code n ch skip hb j = SS_LOOP.
  Proof.
    intros j. rewrite (proj2 (s1_spec n ch skip hb)). rewrite <- alphab_false.
    destruct (alphab n ch skip hb j); cbn.
    - split; [discriminate | intros (H & _); discriminate].
    - fold (sheet_code n ch skip hb j).
      destruct (sheet_not_helix j _ eq_refl) as [E | [E | E]]; rewrite E; cbn; split;
        try discriminate; try tauto; intros (_ & H); discriminate.
  Qed.

  Lemma g3b_iff : forall r, g3b n ch skip hb r = true <-> g_at n ch skip hb r.
  Proof.
    intros r. unfold g3b, fl. rewrite stage_cov_iff by lia. unfold g_at. split.
    - intros (i & M & R & F). exists i. split; [assumption|]. split; [assumption|].
      intros j Hj. apply ok3_s1, F; assumption.
    - intros (i & M & R & F). exists i. split; [assumption|]. split; [assumption|].
      intros j Hj. apply ok3_s1. auto.
  Qed.

  Lemma g3b_false : forall r, g3b n ch skip hb r = false <-> ~ g_at n ch skip hb r.
  Proof. intros r. rewrite <- g3b_iff. destruct (g3b n ch skip hb r); split; congruence. Qed.

  Lemma ok5_s2 : forall j, ok_5 (sec_at (s2 n ch skip hb) j) = true <->
    ~ g_at n ch skip hb j /\ (alpha_at n ch hb j \/ sheet_code n ch skip hb j = SS_LOOP).
  Proof.
    intros j. rewrite (proj2 (s2_spec n ch skip hb)), (proj2 (s1_spec n ch skip hb)).
    rewrite <- g3b_false, <- alphab_iff.
    destruct (g3b n ch skip hb j); cbn.
    - split; [discriminate | intros (H & _); discriminate].
    - destruct (alphab n ch skip hb j); cbn; [tauto|].
      fold (sheet_code n ch skip hb j).
      destruct (sheet_not_helix j _ eq_refl) as [E | [E | E]]; rewrite E; cbn; split;
        try discriminate; try tauto; intros (_ & [H | H]); discriminate.
  Qed.

  Lemma i5b_iff : forall r, i5b n ch skip hb r = true <-> i_at n ch skip hb r.
  Proof.
    intros r. unfold i5b, fl. rewrite stage_cov_iff by lia. unfold i_at. split.
    - intros (i & M & R & F). exists i. split; [assumption|]. split; [assumption|].
      intros j Hj. apply ok5_s2, F; assumption.
    - intros (i & M & R & F). exists i. split; [assumption|]. split; [assumption|].
      intros j Hj. apply ok5_s2. auto.
  Qed.

  Lemma i5b_false : forall r, i5b n ch skip hb r = false <-> ~ i_at n ch skip hb r.
  Proof. intros r. rewrite <- i5b_iff. destruct (i5b n ch skip hb r); split; congruence. Qed.

  (* priorities implied by the emptiness tests *)
  Lemma g_excludes_alpha : forall r, g_at n ch skip hb r -> ~ alpha_at n ch hb r.
  Proof. intros r (i & _ & R & F). apply F. exact R. Qed.

  Lemma i_excludes_g : forall r, i_at n ch skip hb r -> ~ g_at n ch skip hb r.
  Proof. intros r (i & _ & R & F). apply F. exact R. Qed.

  Lemma is_turn_iff : forall r,
    is_turn (fl n ch hb 3) (fl n ch hb 4) (fl n ch hb 5) r = true <-> turn_inside n ch hb r.
  Proof.
    intros r. unfold is_turn, turn_inside, fl. rewrite existsb_exists. split.
    - intros ((f & s) & Hin & H). rewrite existsb_exists in H. destruct H as (k & Hk & H).
      apply in_seq in Hk. apply andb_true_iff in H as (Hle & H). apply Nat.leb_le in Hle.
      cbn [In] in Hin. destruct Hin as [E | [E | [E | []]]]; inversion E; subst f s;
        rewrite is_start_spec in H by lia; [exists 3 | exists 4 | exists 5]; exists k;
        unfold turn_at; repeat split; auto; lia.
    - intros (s & k & Hs & Hk & Hle & T). unfold turn_at in T.
      exists (helix_flags n ch hb s, s). split.
      + cbn [In]. destruct Hs as [-> | [-> | ->]]; auto.
      + apply existsb_exists. exists k. split; [apply in_seq; lia|].
        apply andb_true_iff. split; [now apply Nat.leb_le|].
        rewrite is_start_spec by lia. exact T.
  Qed.
End Reflect.

(* ------------------------------------------------------------------ the rules, per residue *)
Section Final.
  Variables (n : nat) (ch : list nat) (skip : list bool) (hb : hbtable) (geom : list bool).
  Notation code r := (sec_at (dssp_frame n ch skip hb geom) r).

  Lemma helix_code_cases : forall r,
    (i_at n ch skip hb r /\ helix_code n ch skip hb r = SS_HELIX_5) \/
    (~ i_at n ch skip hb r /\ g_at n ch skip hb r /\ helix_code n ch skip hb r = SS_HELIX_3) \/
    (~ i_at n ch skip hb r /\ ~ g_at n ch skip hb r /\ alpha_at n ch hb r /\
       helix_code n ch skip hb r = SS_ALPHAHELIX) \/
    (~ i_at n ch skip hb r /\ ~ g_at n ch skip hb r /\ ~ alpha_at n ch hb r /\
       helix_code n ch skip hb r = sheet_code n ch skip hb r).
  Proof.
    intros r. unfold helix_code.
    destruct (i5b n ch skip hb r) eqn:I; [left; split; [now apply i5b_iff|reflexivity]|].
    apply i5b_false in I. right.
    destruct (g3b n ch skip hb r) eqn:G; [left; repeat split; [assumption | now apply g3b_iff]|].
    apply g3b_false in G. right.
    destruct (alphab n ch skip hb r) eqn:A; [left; repeat split; [assumption | assumption | exact (proj1 (alphab_iff n ch skip hb r) A)]|].
    apply alphab_false in A. right. repeat split; assumption.
  Qed.

  Lemma turn_step_helix : forall r c, c <> SS_LOOP ->
    turn_step n ch skip geom (fl n ch hb 3) (fl n ch hb 4) (fl n ch hb 5) r c = c.
  Proof.
    intros r c Hc. unfold turn_step.
    destruct (ss_eqb c SS_LOOP) eqn:E; [apply ss_eqb_eq in E; contradiction|].
    now rewrite andb_false_r.
  Qed.

  Lemma turn_step_loop : forall r,
    turn_step n ch skip geom (fl n ch hb 3) (fl n ch hb 4) (fl n ch hb 5) r SS_LOOP =
    if (1 <=? r) && (r + 1 <? n) && negb (skip_at skip r) then
      if is_turn (fl n ch hb 3) (fl n ch hb 4) (fl n ch hb 5) r then SS_TURN
      else if is_bend n ch skip geom r then SS_BEND else SS_LOOP
    else SS_LOOP.
  Proof. intros r. unfold turn_step. cbn [ss_eqb]. now rewrite andb_true_r. Qed.

  Lemma sheet_code_not : forall r c, c <> SS_STRAND -> c <> SS_BETABRIDGE -> c <> SS_LOOP ->
    sheet_code n ch skip hb r <> c.
  Proof. intros r c H1 H2 H3 E. destruct (sheet_not_helix n ch skip hb r c E) as [-> | [-> | ->]]; auto. Qed.

  (* H: inside a minimal 4-helix and not claimed by a pi helix *)
  Lemma helix_rule : forall r, r < n ->
    (code r = SS_ALPHAHELIX <-> alpha_at n ch hb r /\ ~ i_at n ch skip hb r).
  Proof.
    intros r Hr. rewrite dssp_frame_at by assumption.
    destruct (helix_code_cases r) as [(I & E) | [(I & G & E) | [(I & G & A & E) | (I & G & A & E)]]];
      rewrite E.
    - rewrite turn_step_helix by discriminate. split; [discriminate | tauto].
    - rewrite turn_step_helix by discriminate. split; [discriminate|].
      intros (A & _). now apply g_excludes_alpha in G.
    - rewrite turn_step_helix by discriminate. tauto.
    - split; [|tauto]. intros H. exfalso.
      destruct (sheet_not_helix n ch skip hb r _ eq_refl) as [S | [S | S]]; rewrite S in H.
      + rewrite turn_step_helix in H by discriminate. discriminate.
      + rewrite turn_step_helix in H by discriminate. discriminate.
      + rewrite turn_step_loop in H. destruct (_ && _); [|discriminate].
        destruct (is_turn _ _ _ r); [discriminate|]. destruct (is_bend _ _ _ _ r); discriminate.
  Qed.

  (* G: inside a minimal 3-helix whose three residues are free of H and of sheet codes *)
  Lemma g_rule : forall r, r < n -> (code r = SS_HELIX_3 <-> g_at n ch skip hb r).
  Proof.
    intros r Hr. rewrite dssp_frame_at by assumption.
    destruct (helix_code_cases r) as [(I & E) | [(I & G & E) | [(I & G & A & E) | (I & G & A & E)]]];
      rewrite E.
    - rewrite turn_step_helix by discriminate. split; [discriminate|].
      intros G. now apply i_excludes_g in I.
    - rewrite turn_step_helix by discriminate. tauto.
    - rewrite turn_step_helix by discriminate. split; [discriminate | tauto].
    - split; [|tauto]. intros H. exfalso.
      destruct (sheet_not_helix n ch skip hb r _ eq_refl) as [S | [S | S]]; rewrite S in H.
      + rewrite turn_step_helix in H by discriminate. discriminate.
      + rewrite turn_step_helix in H by discriminate. discriminate.
      + rewrite turn_step_loop in H. destruct (_ && _); [|discriminate].
        destruct (is_turn _ _ _ r); [discriminate|]. destruct (is_bend _ _ _ _ r); discriminate.
  Qed.

  (* I: inside a minimal 5-helix whose five residues carry no G and no sheet code (H is overridden) *)
  Lemma i_rule : forall r, r < n -> (code r = SS_HELIX_5 <-> i_at n ch skip hb r).
  Proof.
    intros r Hr. rewrite dssp_frame_at by assumption.
    destruct (helix_code_cases r) as [(I & E) | [(I & G & E) | [(I & G & A & E) | (I & G & A & E)]]];
      rewrite E.
    - rewrite turn_step_helix by discriminate. tauto.
    - rewrite turn_step_helix by discriminate. split; [discriminate | tauto].
    - rewrite turn_step_helix by discriminate. split; [discriminate | tauto].
    - split; [|tauto]. intros H. exfalso.
      destruct (sheet_not_helix n ch skip hb r _ eq_refl) as [S | [S | S]]; rewrite S in H.
      + rewrite turn_step_helix in H by discriminate. discriminate.
      + rewrite turn_step_helix in H by discriminate. discriminate.
      + rewrite turn_step_loop in H. destruct (_ && _); [|discriminate].
        destruct (is_turn _ _ _ r); [discriminate|]. destruct (is_bend _ _ _ _ r); discriminate.
  Qed.

  (* E and B survive the helix stage unless an alpha helix covers the residue *)
  Lemma sheet_rule : forall r c, r < n -> (c = SS_STRAND \/ c = SS_BETABRIDGE) ->
    (code r = c <-> sheet_code n ch skip hb r = c /\ ~ alpha_at n ch hb r).
  Proof.
    intros r c Hr Hc. rewrite dssp_frame_at by assumption.
    destruct (helix_code_cases r) as [(I & E) | [(I & G & E) | [(I & G & A & E) | (I & G & A & E)]]];
      rewrite E.
    - rewrite turn_step_helix by discriminate. split; [destruct Hc; subst c; discriminate|].
      intros (S & A). exfalso. destruct I as (i & _ & R & F). destruct (F r R) as (_ & [A' | L]); [tauto|].
      rewrite L in S. destruct Hc; subst c; discriminate.
    - rewrite turn_step_helix by discriminate. split; [destruct Hc; subst c; discriminate|].
      intros (S & A). exfalso. destruct G as (i & _ & R & F). destruct (F r R) as (_ & L).
      rewrite L in S. destruct Hc; subst c; discriminate.
    - rewrite turn_step_helix by discriminate. split; [destruct Hc; subst c; discriminate | tauto].
    - destruct (sheet_not_helix n ch skip hb r _ eq_refl) as [S | [S | S]]; rewrite S.
      + rewrite turn_step_helix by discriminate. tauto.
      + rewrite turn_step_helix by discriminate. tauto.
      + rewrite turn_step_loop. split; [|intros (H & _); destruct Hc; subst c; discriminate].
        intros H. exfalso. destruct (_ && _); [|destruct Hc; subst c; discriminate].
        destruct (is_turn _ _ _ r); [destruct Hc; subst c; discriminate|].
        destruct (is_bend _ _ _ _ r); destruct Hc; subst c; discriminate.
  Qed.

  Lemma plain_iff : forall r, plain n ch skip hb r <-> helix_code n ch skip hb r = SS_LOOP.
  Proof.
    intros r. unfold plain.
    destruct (helix_code_cases r) as [(I & E) | [(I & G & E) | [(I & G & A & E) | (I & G & A & E)]]];
      rewrite E; try (split; [tauto | discriminate]). tauto.
  Qed.

  (* T and S are only given to residues without helix or sheet code, that are complete and not at
     the two ends; T inside an n-turn, else S at a bend *)
  Lemma turn_bend_rule : forall r, r < n ->
    (code r = SS_TURN <->
       1 <= r /\ r + 1 < n /\ skip_at skip r = false /\ plain n ch skip hb r /\ turn_inside n ch hb r) /\
    (code r = SS_BEND <->
       1 <= r /\ r + 1 < n /\ skip_at skip r = false /\ plain n ch skip hb r /\
       ~ turn_inside n ch hb r /\ is_bend n ch skip geom r = true).
  Proof.
    intros r Hr. rewrite dssp_frame_at by assumption. rewrite plain_iff.
    destruct (ss_eqb (helix_code n ch skip hb r) SS_LOOP) eqn:P.
    - apply ss_eqb_eq in P. rewrite P. rewrite turn_step_loop. rewrite <- is_turn_iff.
      destruct (1 <=? r) eqn:B1; [apply Nat.leb_le in B1 | apply Nat.leb_gt in B1]; cbn [andb];
        [|split; (split; [discriminate | intros (H & _); lia])].
      destruct (r + 1 <? n) eqn:B2; [apply Nat.ltb_lt in B2 | apply Nat.ltb_ge in B2]; cbn [andb];
        [|split; (split; [discriminate | intros (_ & H & _); lia])].
      destruct (skip_at skip r); cbn [negb];
        [split; (split; [discriminate | intros (_ & _ & H & _); discriminate])|].
      destruct (is_turn _ _ _ r).
      + split; split; try discriminate; try tauto;
          try (intros (_ & _ & _ & _ & H & _); now elim H).
      + destruct (is_bend n ch skip geom r); split; split; try discriminate; try tauto;
          try (intros (_ & _ & _ & _ & H); discriminate);
          try (intros (_ & _ & _ & _ & _ & H); discriminate);
          try (intros _; repeat split; auto; discriminate).
    - assert (helix_code n ch skip hb r <> SS_LOOP) as NP by (intros H; apply ss_eqb_eq in H; congruence).
      rewrite turn_step_helix by assumption.
      assert (helix_code n ch skip hb r <> SS_TURN /\ helix_code n ch skip hb r <> SS_BEND) as (NT & NS).
      { destruct (helix_code_cases r) as [(_ & E) | [(_ & _ & E) | [(_ & _ & _ & E) | (_ & _ & _ & E)]]];
          rewrite E; try (split; discriminate).
        split; apply sheet_code_not; discriminate. }
      split; split; try tauto; intros H; exfalso; tauto.
  Qed.

  (* every residue below n gets exactly one of the eight codes: immediate from the type; the
     blank code is what remains *)
  Lemma blank_rule : forall r, r < n ->
    (code r = SS_LOOP <->
       plain n ch skip hb r /\
       (r = 0 \/ n <= r + 1 \/ skip_at skip r = true \/
        (~ turn_inside n ch hb r /\ is_bend n ch skip geom r = false))).
  Proof.
    intros r Hr. rewrite dssp_frame_at by assumption. rewrite plain_iff.
    destruct (ss_eqb (helix_code n ch skip hb r) SS_LOOP) eqn:P.
    - apply ss_eqb_eq in P. rewrite P. rewrite turn_step_loop. rewrite <- is_turn_iff.
      destruct (1 <=? r) eqn:B1; [apply Nat.leb_le in B1 | apply Nat.leb_gt in B1]; cbn [andb];
        [|split; [intros _; split; [reflexivity | left; lia] | reflexivity]].
      destruct (r + 1 <? n) eqn:B2; [apply Nat.ltb_lt in B2 | apply Nat.ltb_ge in B2]; cbn [andb];
        [|split; [intros _; split; [reflexivity | right; left; lia] | reflexivity]].
      destruct (skip_at skip r); cbn [negb];
        [split; [intros _; split; [reflexivity | right; right; left; reflexivity] | reflexivity]|].
      destruct (is_turn _ _ _ r).
      + split; [discriminate|]. intros (_ & [H | [H | [H | (H & _)]]]); try lia; try discriminate; try (now elim H).
      + destruct (is_bend n ch skip geom r).
        * split; [discriminate|]. intros (_ & [H | [H | [H | (_ & H)]]]); try lia; discriminate.
        * split; [|reflexivity]. intros _. split; [reflexivity|]. right; right; right. split; [discriminate|reflexivity].
    - assert (helix_code n ch skip hb r <> SS_LOOP) as NP by (intros H; apply ss_eqb_eq in H; congruence).
      rewrite turn_step_helix by assumption. tauto.
  Qed.
End Final.
