(* C12 - executable model of mdtraj/core/selection.py + Topology.select (definitions only, no proofs).

   string --lex--> tokens --parse (pyparsing grammar, one infixNotation level per entry of [levels])-->
   parse tree (token-class objects) --ctor_ok (constructor-time rejections)--> --to_py (.ast())-->
   Python AST --rewrite_names (_RewriteNames)--> --single-literal check, compile--> predicate
   --py_eval on every atom in order--> indices of atoms whose value is truthy.

   Modelled domain of strings (anything else: [OutOfDomain], never generated for the comparison):
   printable ASCII, blanks as the only white space; a word is a maximal run of letters/digits/underscore
   starting with a letter and is delimited (a word glued to a digit run is the bare-word string literal; glued
   Python keywords and operator words are outside);
   words having an operator word (and, or, lt, ...) as a proper prefix are outside (pyparsing matches
   operator spellings as Literal, i.e. as prefixes); quoted strings contain no quote and no backslash and are
   not directly followed by the same quote character. *)
From Coq Require Import List String Ascii ZArith Bool Arith.
Require Import MD.Select.Syntax MD.Select.Regex.
Import ListNotations.
Local Open Scope string_scope.

(* ------------------------------------------------------------------ helpers *)
Definition mem_str (s : string) (l : list string) : bool := existsb (String.eqb s) l.

Fixpoint assoc {A} (s : string) (l : list (string * A)) : option A :=
  match l with
  | [] => None
  | (k, v) :: r => if String.eqb s k then Some v else assoc s r
  end.

Definition is_selkw (cfg : config) (w : string) : bool :=
  match assoc w (sel_kws cfg) with Some _ => true | None => false end.

Definition all_ops (cfg : config) : list string := flat_map lv_ops (levels cfg).

(* ------------------------------------------------------------------ lexer *)
Definition is_digit (c : ascii) : bool := let n := code c in Nat.leb 48 n && Nat.leb n 57.
Definition is_alpha (c : ascii) : bool :=
  let n := code c in (Nat.leb 65 n && Nat.leb n 90) || (Nat.leb 97 n && Nat.leb n 122).
Definition is_nums (c : ascii) : bool := is_digit c || Ascii.eqb c "."%char.      (* NUMS = ".0123456789" *)
Definition is_wordc (c : ascii) : bool := is_alpha c || is_digit c || Ascii.eqb c "_"%char.
Definition is_quote (c : ascii) : bool := Ascii.eqb c "'"%char || Ascii.eqb c """"%char.
Definition is_backslash (c : ascii) : bool := Nat.eqb (code c) 92.

(* Python's string-literal escapes, as far as modelled: a backslash before a character that is no escape of the
   string syntax (the regex classes and punctuation) stays, a doubled backslash is one backslash; any other escape,
   and a backslash at the very end (it would escape the closing quote), is outside the model *)
Definition keeps_backslash (d : ascii) : bool :=
  existsb (Ascii.eqb d) (list_ascii_of_string "dDwWsS.*+?()[]|^${}-").
Fixpoint unescape (cs : list ascii) : option (list ascii) :=
  match cs with
  | [] => Some []
  | c :: r =>
      if is_backslash c then
        match r with
        | [] => None
        | d :: r' =>
            if is_backslash d then match unescape r' with Some l => Some (d :: l) | None => None end
            else if keeps_backslash d then match unescape r' with Some l => Some (c :: d :: l) | None => None end
            else None
        end
      else match unescape r with Some l => Some (c :: l) | None => None end
  end.

Fixpoint span (p : ascii -> bool) (cs : list ascii) : list ascii * list ascii :=
  match cs with
  | [] => ([], [])
  | c :: r => if p c then let '(a, b) := span p r in (c :: a, b) else ([], cs)
  end.

Fixpoint is_prefix (p cs : list ascii) : bool :=
  match p, cs with
  | [], _ => true
  | a :: p', c :: cs' => Ascii.eqb a c && is_prefix p' cs'
  | _ :: _, [] => false
  end.

Definition starts_alpha (s : string) : bool :=
  match s with String c _ => is_alpha c | EmptyString => false end.

Definition word_ops (cfg : config) : list string := filter starts_alpha (all_ops cfg).
Definition sym_ops (cfg : config) : list string := filter (fun s => negb (starts_alpha s)) (all_ops cfg).

(* longest symbolic operator spelling that is a prefix of cs *)
Definition longest_sym (ops : list string) (cs : list ascii) : option string :=
  fold_left (fun best o =>
               if is_prefix (list_ascii_of_string o) cs then
                 match best with
                 | Some b => if Nat.ltb (String.length b) (String.length o) then Some o else best
                 | None => Some o
                 end
               else best) ops None.

(* w has an operator word as a proper prefix: pyparsing would match the operator as a Literal *)
Definition has_op_prefix (cfg : config) (w : list ascii) : bool :=
  existsb (fun o => let lo := list_ascii_of_string o in
                    is_prefix lo w && Nat.ltb (List.length lo) (List.length w)) (word_ops cfg).

Definition blank : ascii := " "%char.

(* a quoted string whose body has backslash escapes or the other kind of quote (pyparsing's quotedString consumes a
   backslash together with the character after it, and the other quote kind as a plain character): the body up to the
   first unescaped delimiter, decoded as Python's string syntax decodes the token - a doubled backslash is one
   backslash, backslash-quote (either kind) is that quote, a backslash before a character that is no escape of the
   string syntax stays; any other escape is outside the model.  Returns (content, rest after the closing quote). *)
Fixpoint scan_quoted (delim : ascii) (cs : list ascii) : option (list ascii * list ascii) :=
  match cs with
  | [] => None
  | c :: r =>
      if Ascii.eqb c delim then Some ([], r)
      else if is_backslash c then
        match r with
        | [] => None
        | d :: r' =>
            match scan_quoted delim r' with
            | None => None
            | Some (l, rest) =>
                if is_backslash d || is_quote d then Some (d :: l, rest)
                else if keeps_backslash d then Some (c :: d :: l, rest)
                else None
            end
        end
      else match scan_quoted delim r with Some (l, rest) => Some (c :: l, rest) | None => None end
  end.

Fixpoint lex_go (cfg : config) (fuel : nat) (cs : list ascii) : option (list token) :=
  match fuel with
  | 0 => None
  | S f =>
    match cs with
    | [] => Some []
    | c :: r =>
      let cons_t (t : token) (rest : list ascii) :=
        match lex_go cfg f rest with Some ts => Some (t :: ts) | None => None end in
      if Ascii.eqb c blank then lex_go cfg f r
      else if Ascii.eqb c "("%char then cons_t TLP r
      else if Ascii.eqb c ")"%char then cons_t TRP r
      else if is_quote c then
        let '(body, rest) := span (fun x => negb (is_quote x)) r in
        (* the general form (escaped quotes, the other quote kind inside): scan_quoted *)
        let general :=
          match scan_quoted c r with
          | None => None
          | Some (content, rest') =>
              if negb (forallb printable content) then None
              else match rest' with
                   | q2 :: _ => if Ascii.eqb q2 c then None
                                else cons_t (TStr (string_of_list_ascii content)) rest'
                   | [] => cons_t (TStr (string_of_list_ascii content)) rest'
                   end
          end in
        match rest with
        | [] => Some [TBad]                                   (* unterminated: nothing consumes the quote *)
        | q :: rest' =>
          if negb (Ascii.eqb q c) then general                (* the other quote kind inside *)
          else match unescape body with
               | None => general                              (* an escape unescape does not cover: escaped quotes *)
               | Some content =>
                   if negb (forallb printable content) then None
                   else match rest' with
                        | q2 :: _ => if Ascii.eqb q2 c then None       (* 'a''b' is ONE quotedString for pyparsing *)
                                     else cons_t (TStr (string_of_list_ascii content)) rest'
                        | [] => cons_t (TStr (string_of_list_ascii content)) rest'
                        end
               end
        end
      else if is_nums c then
        let '(run, rest) := span is_nums cs in
        if String.eqb (string_of_list_ascii run) "..." then None   (* ast.parse reads it as Ellipsis: outside the model *)
        else
        match rest with
        | d :: _ =>
            if is_alpha d then
              (* a word glued to a digit run ("1e3", "0x10", "3abc"): Keyword's preceding-character test fails, so
                 the word is never a keyword or operator, only the bare-word literal = the string of that name *)
              let '(run2, rest2) := span is_wordc rest in
              let w := string_of_list_ascii run2 in
              if existsb (Ascii.eqb "_"%char) run2 then Some [TBad]       (* the underscore is consumed by nothing *)
              else if mem_str w (py_kwlist cfg) || mem_str w (word_ops cfg) || has_op_prefix cfg run2 then None
              else match lex_go cfg f rest2 with
                   | Some ts => Some (TNum (string_of_list_ascii run) :: TStr w :: ts)
                   | None => None
                   end
            else cons_t (TNum (string_of_list_ascii run)) rest
        | [] => cons_t (TNum (string_of_list_ascii run)) rest
        end
      else if is_alpha c then
        let '(run, rest) := span is_wordc cs in
        let w := string_of_list_ascii run in
        if existsb (Ascii.eqb "_"%char) run then
          (if is_selkw cfg w then cons_t (TWord w) rest else cons_t TBad rest)
        else if mem_str w (word_ops cfg) then cons_t (TOp w) rest
        else if mem_str (w ++ " ") (word_ops cfg)
                && match rest with d :: _ => Ascii.eqb d blank | [] => false end
             then cons_t (TOp (w ++ " ")) rest
        else if has_op_prefix cfg run then None
        else cons_t (TWord w) rest
      else if printable c then
        match longest_sym (sym_ops cfg) cs with
        | Some o => cons_t (TOp o) (skipn (String.length o) cs)
        | None => cons_t TBad r
        end
      else None
    end
  end.

Definition lex (cfg : config) (s : string) : option (list token) :=
  let cs := list_ascii_of_string s in lex_go cfg (S (List.length cs)) cs.

(* ------------------------------------------------------------------ parser *)
Definition parser := list token -> option (expr * list token).

Definition tok_lit (t : token) : option lit :=
  match t with
  | TWord s => Some (LWord s) | TNum s => Some (LNum s) | TStr s => Some (LStr s)
  | _ => None
  end.

Fixpoint take_lits (ts : list token) : list lit * list token :=
  match ts with
  | t :: r => match tok_lit t with
              | Some l => let '(ls, r') := take_lits r in (l :: ls, r')
              | None => ([], ts)
              end
  | [] => ([], [])
  end.

(* in_list_condition | base_expression, for a selection keyword w already consumed *)
Definition p_inlist (w : string) (r : list token) : option (expr * list token) :=
  match take_lits r with
  | ([], _) => Some (EKw w, r)
  | (ls, r') => Some (EInList w ls, r')
  end.

(* expression = range_condition | in_list_condition | base_expression ;  lastExpr = expression | ( ret ) *)
Definition p_atom (cfg : config) (nested : parser) : parser := fun ts =>
  match ts with
  | TWord w :: r =>
      if is_selkw cfg w then
        match r with
        | t1 :: TWord x :: t2 :: r' =>
            match tok_lit t1, tok_lit t2 with
            | Some l1, Some l2 => if String.eqb x "to" then Some (ERange w l1 l2, r') else p_inlist w r
            | _, _ => p_inlist w r
            end
        | _ => p_inlist w r
        end
      else Some (ELit (LWord w), r)
  | TNum s :: r => Some (ELit (LNum s), r)
  | TStr s :: r => Some (ELit (LStr s), r)
  | TLP :: r => match nested r with
                | Some (e, TRP :: r') => Some (e, r')
                | _ => None
                end
  | _ => None
  end.

(* unary, right associative:  thisExpr = FollowedBy(op thisExpr) Group(op thisExpr) | lastExpr *)
Definition p_unary (ops : list string) (lower : parser) : parser :=
  fix un (ts : list token) : option (expr * list token) :=
    match ts with
    | TOp o :: ts' =>
        if mem_str o ops then
          match un ts' with
          | Some (e, r) => Some (EUn o e, r)
          | None => lower ts
          end
        else lower ts
    | _ => lower ts
    end.

(* (op lastExpr)[1, ...] : greedy, stops at the first operator that is not followed by an operand *)
Fixpoint bin_loop (ops : list string) (lower : parser) (n : nat) (r : list token)
  : list (string * expr) * list token :=
  match n with
  | 0 => ([], r)
  | S n' =>
    match r with
    | TOp o :: r' =>
        if mem_str o ops then
          match lower r' with
          | Some (e, r'') => let '(prs, rf) := bin_loop ops lower n' r'' in ((o, e) :: prs, rf)
          | None => ([], r)
          end
        else ([], r)
    | _ => ([], r)
    end
  end.

(* binary, left associative: thisExpr = FollowedBy(last op last) Group(last (op last)+) | lastExpr *)
Definition p_binary (ops : list string) (lower : parser) : parser := fun ts =>
  match lower ts with
  | None => None
  | Some (e1, r1) =>
      match bin_loop ops lower (List.length r1) r1 with
      | ([], _) => Some (e1, r1)
      | (prs, r) => Some (EBin e1 prs, r)
      end
  end.

(* the regex level: same shape, but RegexInfixOperand's constructor raises ParseException unless there
   are exactly 3 tokens, which makes the alternative (lastExpr alone) the result *)
Definition p_regex (ops : list string) (lower : parser) : parser := fun ts =>
  match lower ts with
  | None => None
  | Some (e1, r1) =>
      match bin_loop ops lower (List.length r1) r1 with
      | ([(o, e2)], r) => Some (ERx o e1 e2, r)
      | _ => Some (e1, r1)
      end
  end.

Definition p_level (l : level) (lower : parser) : parser :=
  match lv_kind l with
  | KUnary => p_unary (lv_ops l) lower
  | KBinary => p_binary (lv_ops l) lower
  | KRegex => p_regex (lv_ops l) lower
  end.

(* levels tightest first: each wraps the previous one *)
Definition p_levels (lvs : list level) (atom : parser) : parser :=
  fold_left (fun lower l => p_level l lower) lvs atom.

Fixpoint parse (cfg : config) (fuel : nat) : parser :=
  match fuel with
  | 0 => fun _ => None
  | S f => p_levels (levels cfg) (p_atom cfg (parse cfg f))
  end.

(* parseString(..., parseAll=True) *)
Definition parse_all (cfg : config) (ts : list token) : option expr :=
  match parse cfg (S (List.length ts)) ts with
  | Some (e, []) => Some e
  | _ => None
  end.

(* ------------------------------------------------------------------ constructor-time rejections *)
Definition is_lit_expr (e : expr) : bool := match e with ELit _ => true | _ => false end.

Definition chain_sem (cfg : config) (rest : list (string * expr)) : option binsem :=
  match rest with
  | (o, _) :: _ => assoc o (bin_sem cfg)          (* self.op_token = tokens[1] *)
  | [] => None
  end.

Fixpoint ctor_ok (cfg : config) (e : expr) : bool :=
  match e with
  | EKw _ | ELit _ | ERange _ _ _ | EInList _ _ => true
  | EUn _ a => negb (is_lit_expr a) && ctor_ok cfg a                 (* "Cannot use literals as booleans." *)
  | ERx _ s p => negb (is_lit_expr s) && ctor_ok cfg s && ctor_ok cfg p  (* "Cannot do regex comparison on literal" *)
  | EBin e0 rest =>
      let operands := e0 :: map snd rest in
      ctor_ok cfg e0 && (fix all_ok (l : list (string * expr)) : bool :=
                           match l with [] => true | (_, a) :: l' => ctor_ok cfg a && all_ok l' end) rest
      && match chain_sem cfg rest with
         | Some (SBool _) => negb (existsb is_lit_expr operands)     (* "Cannot use literals as truth" *)
         | Some (SCmp _) => negb (forallb is_lit_expr operands)      (* "Cannot compare literals." *)
         | None => false
         end
  end.

(* ------------------------------------------------------------------ .ast() *)
Definition pow10 (e : nat) : Z := Z.pow 10 (Z.of_nat e).

(* value of a Word(NUMS) token under ast.parse: None = SyntaxError *)
Definition digit_val (c : ascii) : Z := Z.of_nat (code c - 48).
Definition digits_val (ds : list ascii) : Z := fold_left (fun acc c => acc * 10 + digit_val c)%Z ds 0%Z.
Definition num_value (s : string) : option (Z * nat) :=
  let cs := list_ascii_of_string s in
  let '(ip, rest) := span is_digit cs in
  match rest with
  | [] =>
      match ip with
      | [] => None
      | d :: _ => if Ascii.eqb d "0"%char && negb (Z.eqb (digits_val ip) 0) then None   (* leading zeros *)
                  else Some (digits_val ip, 0)
      end
  | _dot :: fp =>                                 (* rest starts with '.', the only other NUMS character *)
      if forallb is_digit fp then
        match ip, fp with
        | [], [] => None
        | _, _ => Some (digits_val (ip ++ fp), List.length fp)
        end
      else None                                   (* a second dot *)
  end.

Definition safe_names : list string := ["None"; "True"; "False"].

Definition lit_py (cfg : config) (l : lit) : option pyexpr :=
  match l with
  | LWord w => if mem_str w safe_names then Some (PName w)
               else if mem_str w (py_kwlist cfg) then None
               else Some (PName w)
  | LNum s => match num_value s with Some (m, e) => Some (PConst (VNum m e)) | None => None end
  | LStr s => Some (PConst (VStr s))
  end.

Definition kw_py (cfg : config) (k : string) : option pyexpr :=
  match assoc k (sel_kws cfg) with
  | Some FTrue => Some (PName "True")
  | Some FFalse => Some (PName "False")
  | Some f => Some (PAttr f)
  | None => None
  end.

Fixpoint map_opt {A B} (f : A -> option B) (l : list A) : option (list B) :=
  match l with
  | [] => Some []
  | a :: r => match f a, map_opt f r with Some b, Some bs => Some (b :: bs) | _, _ => None end
  end.

Fixpoint to_py (cfg : config) (e : expr) : option pyexpr :=
  match e with
  | EKw k => kw_py cfg k
  | ELit l => lit_py cfg l
  | ERange k lo hi =>
      match kw_py cfg k, lit_py cfg lo, lit_py cfg hi with
      | Some f, Some a, Some b => Some (PCompare a [CLe; CLe] [f; b])
      | _, _, _ => None
      end
  | EInList k ls =>
      match kw_py cfg k, map_opt (lit_py cfg) ls with
      | Some f, Some [a] => Some (PCompare f [CEq] [a])          (* implicit equality *)
      | Some f, Some els => Some (PInList f els)
      | _, _ => None
      end
  | EUn _ a => match to_py cfg a with Some p => Some (PNot p) | None => None end
  | ERx _ s p =>
      match to_py cfg p, to_py cfg s with
      | Some pp, Some ps => Some (PReMatch pp ps)
      | _, _ => None
      end
  | EBin e0 rest =>
      match to_py cfg e0,
            (fix go (l : list (string * expr)) : option (list pyexpr) :=
               match l with
               | [] => Some []
               | (_, a) :: l' => match to_py cfg a, go l' with Some p, Some ps => Some (p :: ps) | _, _ => None end
               end) rest,
            chain_sem cfg rest with
      | Some p0, Some ps, Some (SBool b) => Some (PBoolOp b (p0 :: ps))
      | Some p0, Some ps, Some (SCmp c) => Some (PCompare p0 [c] ps)   (* ops=[op]: ONE operator whatever the length *)
      | _, _, _ => None
      end
  end.

(* _RewriteNames *)
Fixpoint rewrite_names (p : pyexpr) : pyexpr :=
  match p with
  | PName id =>
      if String.eqb id "None" then PConst VNone
      else if String.eqb id "True" then PConst (VBool true)
      else if String.eqb id "False" then PConst (VBool false)
      else PConst (VStr id)
  | PConst v => PConst v
  | PAttr f => PAttr f
  | PNot a => PNot (rewrite_names a)
  | PBoolOp b es => PBoolOp b (map rewrite_names es)
  | PCompare l ops cs => PCompare (rewrite_names l) ops (map rewrite_names cs)
  | PInList l es => PInList (rewrite_names l) (map rewrite_names es)
  | PReMatch a b => PReMatch (rewrite_names a) (rewrite_names b)
  end.

(* compile(): "Compare has a different number of comparators and operands" *)
Fixpoint compile_ok (p : pyexpr) : bool :=
  match p with
  | PName _ | PConst _ | PAttr _ => true
  | PNot a => compile_ok a
  | PBoolOp _ es => forallb compile_ok es
  | PCompare l ops cs => compile_ok l && forallb compile_ok cs && Nat.eqb (List.length ops) (List.length cs)
  | PInList l es => compile_ok l && forallb compile_ok es
  | PReMatch a b => compile_ok a && compile_ok b
  end.

(* ------------------------------------------------------------------ Python values *)
Definition truthy (v : value) : bool :=
  match v with
  | VBool b => b
  | VNum m _ => negb (Z.eqb m 0)
  | VStr s => negb (String.eqb s "")
  | VNone => false
  end.

Definition as_num (v : value) : option (Z * nat) :=
  match v with
  | VBool b => Some (if b then 1%Z else 0%Z, 0)
  | VNum m e => Some (m, e)
  | _ => None
  end.

Definition num_compare (a b : Z * nat) : comparison :=
  Z.compare (fst a * pow10 (snd b)) (fst b * pow10 (snd a)).

Fixpoint str_compare (a b : string) : comparison :=
  match a, b with
  | EmptyString, EmptyString => Eq
  | EmptyString, String _ _ => Lt
  | String _ _, EmptyString => Gt
  | String c a', String d b' =>
      match Nat.compare (code c) (code d) with
      | Eq => str_compare a' b'
      | x => x
      end
  end.

Definition veq (v w : value) : bool :=
  match as_num v, as_num w with
  | Some a, Some b => match num_compare a b with Eq => true | _ => false end
  | None, None =>
      match v, w with
      | VStr s, VStr t => String.eqb s t
      | VNone, VNone => true
      | _, _ => false
      end
  | _, _ => false
  end.

Definition cmp_holds (c : cmpop) (x : comparison) : bool :=
  match c, x with
  | CLt, Lt => true
  | CLe, Lt | CLe, Eq => true
  | CGt, Gt => true
  | CGe, Gt | CGe, Eq => true
  | CEq, Eq => true
  | CNe, Lt | CNe, Gt => true
  | _, _ => false
  end.

(* ordering: numbers (bool included) among themselves, str among themselves, else TypeError *)
Definition vord (c : cmpop) (v w : value) : res bool :=
  match as_num v, as_num w with
  | Some a, Some b => Ok (cmp_holds c (num_compare a b))
  | None, None =>
      match v, w with
      | VStr s, VStr t => Ok (cmp_holds c (str_compare s t))
      | _, _ => Err TypeErr
      end
  | _, _ => Err TypeErr
  end.

Definition cmp_apply (c : cmpop) (v w : value) : res value :=
  match c with
  | CEq => Ok (VBool (veq v w))
  | CNe => Ok (VBool (negb (veq v w)))
  | _ => match vord c v w with Ok b => Ok (VBool b) | Err x => Err x end
  end.

(* the {True, False, None} membership test of parse_selection.__call__ (hash/== semantics: 1 == True) *)
Definition in_safe_set (v : value) : bool := veq v (VBool true) || veq v (VBool false) || veq v VNone.
(* the repaired test: identity with True/False/None *)
Definition is_safe_const (v : value) : bool :=
  match v with VBool _ | VNone => true | _ => false end.

(* ------------------------------------------------------------------ atoms *)
Definition backbone_names : list string := ["C"; "CA"; "N"; "O"].
Definition not_sidechain_names : list string := ["C"; "CA"; "N"; "O"; "HA"; "H"].

Definition res_is_protein (cfg : config) (a : atom) : bool :=
  match assoc (a_resname a) (amino_codes cfg) with Some _ => true | None => false end.
Definition res_code (cfg : config) (a : atom) : value :=
  match assoc (a_resname a) (amino_codes cfg) with
  | Some (Some c) => VStr c
  | _ => VNone
  end.

Definition attr (cfg : config) (a : atom) (f : field) : value :=
  match f with
  | FTrue => VBool true
  | FFalse => VBool false
  | FIsBackbone => VBool (mem_str (a_name a) backbone_names && res_is_protein cfg a)
  | FIsSidechain => VBool (negb (mem_str (a_name a) not_sidechain_names) && res_is_protein cfg a)
  | FResIsProtein => VBool (res_is_protein cfg a)
  | FResCode => res_code cfg a
  | FResIsWater => VBool (mem_str (a_resname a) (water_names cfg))
  | FName => VStr (a_name a)
  | FIndex => VNum (a_index a) 0
  | FNBonds => VNum (a_nbonds a) 0
  | FResSeq => VNum (a_resSeq a) 0
  | FResName => VStr (a_resname a)
  | FResIndex => VNum (a_resindex a) 0
  | FSegmentId => VStr (a_segid a)
  | FChainIndex => VNum (a_chainindex a) 0
  | FElemSymbol => VStr (a_symbol a)
  | FElemMass => VNum (fst (a_mass a)) (snd (a_mass a))
  end.

(* ------------------------------------------------------------------ evaluation of the compiled lambda *)
Fixpoint py_eval (env : field -> value) (e : pyexpr) {struct e} : res value :=
  match e with
  | PName _ => Err OutOfModel                       (* no Name is left after rewrite_names *)
  | PConst v => Ok v
  | PAttr f => Ok (env f)
  | PNot a => match py_eval env a with Ok v => Ok (VBool (negb (truthy v))) | Err x => Err x end
  | PBoolOp b es =>
      (fix go (es : list pyexpr) : res value :=
         match es with
         | [] => Ok (VBool (match b with BAnd => true | BOr => false end))
         | a :: r =>
             match py_eval env a with
             | Err x => Err x
             | Ok v =>
                 match r with
                 | [] => Ok v
                 | _ => if (match b with BAnd => negb (truthy v) | BOr => truthy v end) then Ok v else go r
                 end
             end
         end) es
  | PCompare l ops cs =>
      match py_eval env l with
      | Err x => Err x
      | Ok lv =>
          (fix chain (lv : value) (ops : list cmpop) (cs : list pyexpr) {struct cs} : res value :=
             match ops, cs with
             | o :: ops', c :: cs' =>
                 match py_eval env c with
                 | Err x => Err x
                 | Ok cv =>
                     match cmp_apply o lv cv with
                     | Err x => Err x
                     | Ok r =>
                         match ops' with
                         | [] => Ok r
                         | _ => if truthy r then chain cv ops' cs' else Ok r
                         end
                     end
                 end
             | _, _ => Ok (VBool true)
             end) lv ops cs
      end
  | PInList l es =>
      match py_eval env l with
      | Err x => Err x
      | Ok lv =>
          (fix go (es : list pyexpr) (acc : bool) : res value :=
             match es with
             | [] => Ok (VBool acc)
             | a :: r => match py_eval env a with
                         | Err x => Err x
                         | Ok v => go r (acc || veq lv v)
                         end
             end) es false
      end
  | PReMatch p s =>
      match py_eval env p with
      | Err x => Err x
      | Ok pv =>
          match py_eval env s with
          | Err x => Err x
          | Ok sv =>
              match pv, sv with
              | VStr ps, VStr ss =>
                  match re_match ps ss with
                  | Some b => Ok (VBool b)
                  | None => Err OutOfModel
                  end
              | _, _ => Err TypeErr
              end
          end
      end
  end.

(* ------------------------------------------------------------------ parse_selection and Topology.select *)
(* strict = false: the single-literal test as found; strict = true: the repaired test *)
Definition compile_parsed (cfg : config) (strict : bool) (oe : option expr) : option pyexpr :=
  match oe with
  | None => None
  | Some e =>
      if negb (ctor_ok cfg e) then None
      else match to_py cfg e with
           | None => None
           | Some p0 =>
               let p := rewrite_names p0 in
               let single_ok := match p with
                                | PConst v => if strict then is_safe_const v else in_safe_set v
                                | _ => true
                                end in
               if single_ok && compile_ok p then Some p else None
           end
  end.

Definition compile_tokens (cfg : config) (strict : bool) (ts : list token) : option pyexpr :=
  compile_parsed cfg strict (parse_all cfg ts).

(* [a.index for a in atoms if f(a)] : the first exception aborts *)
Fixpoint select_py (env_of : atom -> field -> value) (p : pyexpr) (atoms : list atom) : res (list Z) :=
  match atoms with
  | [] => Ok []
  | a :: r =>
      match py_eval (env_of a) p with
      | Err x => Err x
      | Ok v =>
          match select_py env_of p r with
          | Err x => Err x
          | Ok l => Ok (if truthy v then a_index a :: l else l)
          end
      end
  end.

Definition run_compiled (cfg : config) (atoms : list atom) (op : option pyexpr) : outcome :=
  match op with
  | None => Rejected
  | Some p => match select_py (attr cfg) p atoms with
              | Ok l => Sel l
              | Err x => EvalErr x
              end
  end.

Definition select_tokens (cfg : config) (strict : bool) (atoms : list atom) (ts : list token) : outcome :=
  run_compiled cfg atoms (compile_tokens cfg strict ts).

Definition select_str (cfg : config) (strict : bool) (atoms : list atom) (s : string) : outcome :=
  match lex cfg s with
  | None => OutOfDomain
  | Some ts => select_tokens cfg strict atoms ts
  end.

(* ------------------------------------------------------------------ printing a parse tree back to tokens *)
Definition lit_tok (l : lit) : token :=
  match l with LWord s => TWord s | LNum s => TNum s | LStr s => TStr s end.

(* index (1-based, tightest = 1) of the level an operator spelling belongs to; 0 = none *)
Fixpoint level_of_op (lvs : list level) (o : string) : nat :=
  match lvs with
  | [] => 0
  | l :: r => if mem_str o (lv_ops l) then 1 else match level_of_op r o with 0 => 0 | n => S n end
  end.

Definition expr_level (cfg : config) (e : expr) : nat :=
  match e with
  | EUn o _ => level_of_op (levels cfg) o
  | EBin _ ((o, _) :: _) => level_of_op (levels cfg) o
  | ERx o _ _ => level_of_op (levels cfg) o
  | _ => 0
  end.

Definition paren (ts : list token) : list token := TLP :: ts ++ [TRP].

(* minimal parentheses: an operand is wrapped iff its level is too loose for the position *)
Fixpoint print (cfg : config) (e : expr) : list token :=
  let at_most (k : nat) (a : expr) (pa : list token) :=
    if Nat.leb (expr_level cfg a) k then pa else paren pa in
  match e with
  | EKw k => [TWord k]
  | ELit l => [lit_tok l]
  | ERange k lo hi => [TWord k; lit_tok lo; TWord "to"; lit_tok hi]
  | EInList k ls => TWord k :: map lit_tok ls
  | EUn o a => TOp o :: at_most (level_of_op (levels cfg) o) a (print cfg a)
  | EBin e0 rest =>
      let k := pred (expr_level cfg e) in
      at_most k e0 (print cfg e0) ++
      (fix go (l : list (string * expr)) : list token :=
         match l with
         | [] => []
         | (o, a) :: l' => TOp o :: at_most k a (print cfg a) ++ go l'
         end) rest
  | ERx o s p =>
      let k := pred (level_of_op (levels cfg) o) in
      at_most k s (print cfg s) ++ TOp o :: at_most k p (print cfg p)
  end.

(* rendering tokens as a string: one blank between tokens *)
Definition render_tok (t : token) : string :=
  match t with
  | TLP => "(" | TRP => ")"
  | TOp s => s | TWord s => s | TNum s => s
  | TStr s => "'" ++ s ++ "'"
  | TBad => "#"
  end.
Fixpoint render (ts : list token) : string :=
  match ts with
  | [] => ""
  | [t] => render_tok t
  | t :: r => render_tok t ++ " " ++ render r
  end.
