(* C12 - semantic theorems about the model of Topology.select (evaluation, boolean algebra, ranges,
   lists, ordering of the result, rejections). *)
From Coq Require Import List String Ascii ZArith Bool Arith Lia Sorted.
Require Import MD.Select.Syntax MD.Select.Regex MD.Select.Model.
Import ListNotations.
Local Open Scope list_scope.

(* ------------------------------------------------------------------ select = filter, in order *)
Definition holds (env_of : atom -> field -> value) (p : pyexpr) (a : atom) : bool :=
  match py_eval (env_of a) p with Ok v => truthy v | Err _ => false end.

(* the generated source "[atom.index for atom in topology.atoms if <cond>]" *)
Definition comprehension (env_of : atom -> field -> value) (p : pyexpr) (atoms : list atom) : list Z :=
  map a_index (filter (holds env_of p) atoms).

Lemma select_py_ok : forall env_of p atoms l,
  select_py env_of p atoms = Ok l <->
  (forall a, In a atoms -> exists v, py_eval (env_of a) p = Ok v) /\ l = comprehension env_of p atoms.
Proof.
  intros env_of p. induction atoms as [|a r IH]; intros l.
  - simpl. split.
    + intros H. injection H as <-. split; [intros a []|reflexivity].
    + intros [_ ->]. reflexivity.
  - cbn [select_py]. unfold comprehension, holds in *. cbn [filter].
    destruct (py_eval (env_of a) p) as [v|x] eqn:Hev.
    + destruct (select_py env_of p r) as [l'|x] eqn:Hr.
      * destruct (proj1 (IH l') eq_refl) as [Hall Hl']. split.
        -- intros H. injection H as <-. split.
           ++ intros b [<-|Hb]; [exists v; assumption|apply Hall; assumption].
           ++ destruct (truthy v); cbn [map]; rewrite Hl'; reflexivity.
        -- intros [_ ->]. destruct (truthy v); cbn [map]; rewrite Hl'; reflexivity.
      * split; [discriminate|]. intros [Hall _].
        assert (Hex : exists l', Ok l' = @Err (list Z) x).
        { eexists. symmetry. apply IH. split; [|reflexivity]. intros b Hb. apply Hall. right. assumption. }
        destruct Hex as [l' Hl']. discriminate.
    + split; [discriminate|]. intros [Hall _]. destruct (Hall a (or_introl eq_refl)) as [v Hv]. congruence.
Qed.

(* an exception is the first one in atom order *)
Lemma select_py_err : forall env_of p atoms x,
  select_py env_of p atoms = Err x <->
  exists pre a post, atoms = pre ++ a :: post /\ py_eval (env_of a) p = Err x /\
                     forall b, In b pre -> exists v, py_eval (env_of b) p = Ok v.
Proof.
  intros env_of p. induction atoms as [|a r IH]; intros x.
  - simpl. split; [discriminate|]. intros [pre [a [post [H _]]]]. destruct pre; discriminate.
  - cbn [select_py]. destruct (py_eval (env_of a) p) as [v|y] eqn:Hev.
    + destruct (select_py env_of p r) as [l'|y] eqn:Hr.
      * split; [discriminate|]. intros [pre [b [post [Heq [Hb Hpre]]]]].
        destruct pre as [|c pre'].
        -- simpl in Heq. injection Heq as <- _. congruence.
        -- simpl in Heq. injection Heq as <- Hr'.
           assert (Hx : Ok l' = @Err (list Z) x).
           { apply IH. exists pre', b, post. repeat split; try assumption. intros d Hd. apply Hpre. right. assumption. }
           discriminate.
      * split.
        -- intros H. injection H as <-. destruct (proj1 (IH y) eq_refl) as [pre [b [post [Heq [Hb Hpre]]]]].
           exists (a :: pre), b, post. repeat split; [rewrite Heq; reflexivity|assumption|].
           intros d [<-|Hd]; [exists v; assumption|apply Hpre; assumption].
        -- intros [pre [b [post [Heq [Hb Hpre]]]]]. destruct pre as [|c pre'].
           ++ simpl in Heq. injection Heq as <- _. congruence.
           ++ simpl in Heq. injection Heq as <- Hr'. f_equal.
              assert (Hx : @Err (list Z) y = Err x).
              { apply IH. exists pre', b, post. repeat split; try assumption. intros d Hd. apply Hpre. right. assumption. }
              congruence.
    + split.
      * intros H. injection H as <-. exists [], a, r. repeat split; [assumption|intros b []].
      * intros [pre [b [post [Heq [Hb Hpre]]]]]. destruct pre as [|c pre'].
        -- simpl in Heq. injection Heq as <- _. congruence.
        -- simpl in Heq. injection Heq as <- _. destruct (Hpre a (or_introl eq_refl)) as [v Hv]. congruence.
Qed.

Lemma sorted_map_filter : forall (f : atom -> bool) atoms,
  StronglySorted Z.lt (map a_index atoms) -> StronglySorted Z.lt (map a_index (filter f atoms)).
Proof.
  intros f. induction atoms as [|a r IH]; intros H; [constructor|].
  cbn [map] in H. inversion H as [|? ? Hs Hall]; subst. cbn [filter]. destruct (f a).
  - cbn [map]. constructor; [apply IH; assumption|].
    rewrite Forall_forall in *. intros z Hz. apply Hall. apply in_map_iff in Hz. destruct Hz as [b [<- Hb]].
    apply in_map. apply filter_In in Hb. tauto.
  - apply IH; assumption.
Qed.

Lemma sorted_nodup : forall l, StronglySorted Z.lt l -> NoDup l.
Proof.
  induction l as [|z l IH]; intros H; [constructor|]. inversion H as [|? ? Hs Hall]; subst.
  constructor; [|apply IH; assumption]. intros Hin. rewrite Forall_forall in Hall. specialize (Hall z Hin). lia.
Qed.

(* the result is strictly increasing, without repetition, and consists of atom indices *)
Theorem select_sorted_nodup : forall cfg strict atoms s l,
  StronglySorted Z.lt (map a_index atoms) ->
  select_str cfg strict atoms s = Sel l ->
  StronglySorted Z.lt l /\ NoDup l /\ incl l (map a_index atoms).
Proof.
  intros cfg strict atoms s l Hs H. unfold select_str in H. destruct (lex cfg s) as [ts|]; [|discriminate].
  unfold select_tokens, run_compiled in H. destruct (compile_tokens cfg strict ts) as [p|]; [|discriminate].
  destruct (select_py (attr cfg) p atoms) as [l'|x] eqn:Hsel; [|discriminate]. injection H as <-.
  apply select_py_ok in Hsel. destruct Hsel as [_ ->]. unfold comprehension.
  assert (Hsorted : StronglySorted Z.lt (map a_index (filter (holds (attr cfg) p) atoms)))
    by (apply sorted_map_filter; assumption).
  repeat split; [assumption|apply sorted_nodup; assumption|].
  intros z Hz. apply in_map_iff in Hz. destruct Hz as [a [<- Ha]]. apply in_map. apply filter_In in Ha. tauto.
Qed.

(* exactly the atoms whose predicate value is truthy; an error of the predicate on any atom is the outcome *)
Theorem select_exact : forall cfg strict atoms ts p,
  compile_tokens cfg strict ts = Some p ->
  (forall a, In a atoms -> exists v, py_eval (attr cfg a) p = Ok v) ->
  select_tokens cfg strict atoms ts = Sel (comprehension (attr cfg) p atoms).
Proof.
  intros cfg strict atoms ts p Hc Hall. unfold select_tokens, run_compiled. rewrite Hc.
  destruct (select_py (attr cfg) p atoms) as [l|x] eqn:Hsel.
  - apply select_py_ok in Hsel. destruct Hsel as [_ ->]. reflexivity.
  - apply select_py_err in Hsel. destruct Hsel as [pre [a [post [Heq [Ha _]]]]].
    destruct (Hall a) as [v Hv]; [rewrite Heq; apply in_or_app; right; left; reflexivity|congruence].
Qed.

(* ------------------------------------------------------------------ and / or / not on values *)
Lemma eval_not : forall env a v, py_eval env a = Ok v ->
  py_eval env (PNot a) = Ok (VBool (negb (truthy v))).
Proof. intros env a v H. cbn [py_eval]. rewrite H. reflexivity. Qed.

(* n-ary and: when every operand evaluates, the value is truthy iff all operands are *)
Lemma eval_and : forall env es vs, es <> [] ->
  Forall2 (fun e v => py_eval env e = Ok v) es vs ->
  exists v, py_eval env (PBoolOp BAnd es) = Ok v /\ truthy v = forallb truthy vs.
Proof.
  intros env es vs Hne HF. cbn [py_eval]. induction HF as [|e v es vs He HF IH]; [contradiction|].
  rewrite He. destruct es as [|e' es'].
  - inversion HF; subst. exists v. split; [reflexivity|]. cbn [forallb]. rewrite andb_true_r. reflexivity.
  - destruct (truthy v) eqn:Hv; cbn [negb].
    + destruct IH as [w [Hw Htw]]; [discriminate|]. exists w. split; [exact Hw|]. cbn [forallb]. rewrite Hv. exact Htw.
    + exists v. split; [reflexivity|]. cbn [forallb]. rewrite Hv. reflexivity.
Qed.

Lemma eval_or : forall env es vs, es <> [] ->
  Forall2 (fun e v => py_eval env e = Ok v) es vs ->
  exists v, py_eval env (PBoolOp BOr es) = Ok v /\ truthy v = existsb truthy vs.
Proof.
  intros env es vs Hne HF. cbn [py_eval]. induction HF as [|e v es vs He HF IH]; [contradiction|].
  rewrite He. destruct es as [|e' es'].
  - inversion HF; subst. exists v. split; [reflexivity|]. cbn [existsb]. rewrite orb_false_r. reflexivity.
  - destruct (truthy v) eqn:Hv.
    + exists v. split; [reflexivity|]. cbn [existsb]. rewrite Hv. reflexivity.
    + destruct IH as [w [Hw Htw]]; [discriminate|]. exists w. split; [exact Hw|]. cbn [existsb]. rewrite Hv. exact Htw.
Qed.

Lemma in_comprehension : forall env_of p atoms i, NoDup (map a_index atoms) ->
  (In i (comprehension env_of p atoms) <-> exists a, In a atoms /\ a_index a = i /\ holds env_of p a = true).
Proof.
  intros env_of p atoms i _. unfold comprehension. rewrite in_map_iff. split.
  - intros [a [Hi Ha]]. apply filter_In in Ha. exists a. tauto.
  - intros [a [Ha [Hi Hh]]]. exists a. split; [assumption|]. apply filter_In. tauto.
Qed.

Lemma index_inj : forall atoms a b, NoDup (map a_index atoms) -> In a atoms -> In b atoms ->
  a_index a = a_index b -> a = b.
Proof.
  induction atoms as [|c r IH]; intros a b Hnd Ha Hb Heq; [contradiction|].
  cbn [map] in Hnd. inversion Hnd as [|? ? Hnotin Hnd']; subst.
  destruct Ha as [<-|Ha], Hb as [<-|Hb]; try reflexivity.
  - exfalso. apply Hnotin. rewrite Heq. apply in_map. assumption.
  - exfalso. apply Hnotin. rewrite <- Heq. apply in_map. assumption.
  - apply IH; assumption.
Qed.

(* and = intersection, or = union, not = complement (whenever the operands evaluate on every atom) *)
Theorem eval_bool_algebra_py : forall env_of p q atoms A B,
  NoDup (map a_index atoms) ->
  select_py env_of p atoms = Ok A -> select_py env_of q atoms = Ok B ->
  (exists R, select_py env_of (PBoolOp BAnd [p; q]) atoms = Ok R /\ forall i, In i R <-> In i A /\ In i B) /\
  (exists R, select_py env_of (PBoolOp BOr [p; q]) atoms = Ok R /\ forall i, In i R <-> In i A \/ In i B) /\
  (exists R, select_py env_of (PNot p) atoms = Ok R /\
             forall i, In i R <-> In i (map a_index atoms) /\ ~ In i A).
Proof.
  intros env_of p q atoms A B Hnd HA HB.
  apply select_py_ok in HA. destruct HA as [HpA ->]. apply select_py_ok in HB. destruct HB as [HqB ->].
  assert (Hand : forall a, In a atoms -> exists v, py_eval (env_of a) (PBoolOp BAnd [p; q]) = Ok v /\
                                                 truthy v = holds env_of p a && holds env_of q a).
  { intros a Ha. destruct (HpA a Ha) as [vp Hvp]. destruct (HqB a Ha) as [vq Hvq].
    destruct (eval_and (env_of a) [p; q] [vp; vq]) as [v [Hv Ht]]; [discriminate|repeat constructor; assumption|].
    exists v. split; [assumption|]. unfold holds. rewrite Hvp, Hvq, Ht. cbn [forallb]. rewrite andb_true_r. reflexivity. }
  assert (Hor : forall a, In a atoms -> exists v, py_eval (env_of a) (PBoolOp BOr [p; q]) = Ok v /\
                                                truthy v = holds env_of p a || holds env_of q a).
  { intros a Ha. destruct (HpA a Ha) as [vp Hvp]. destruct (HqB a Ha) as [vq Hvq].
    destruct (eval_or (env_of a) [p; q] [vp; vq]) as [v [Hv Ht]]; [discriminate|repeat constructor; assumption|].
    exists v. split; [assumption|]. unfold holds. rewrite Hvp, Hvq, Ht. cbn [existsb]. rewrite orb_false_r. reflexivity. }
  assert (Hnot : forall a, In a atoms -> exists v, py_eval (env_of a) (PNot p) = Ok v /\
                                                 truthy v = negb (holds env_of p a)).
  { intros a Ha. destruct (HpA a Ha) as [vp Hvp]. exists (VBool (negb (truthy vp))).
    split; [apply eval_not; assumption|]. unfold holds. rewrite Hvp. reflexivity. }
  repeat split.
  - exists (comprehension env_of (PBoolOp BAnd [p; q]) atoms). split.
    + apply select_py_ok. split; [|reflexivity]. intros a Ha. destruct (Hand a Ha) as [v [Hv _]]. exists v; assumption.
    + intros i. rewrite !in_comprehension by assumption. split.
      * intros [a [Ha [Hi Hh]]]. destruct (Hand a Ha) as [v [Hv Ht]]. unfold holds in Hh at 1. rewrite Hv, Ht in Hh.
        apply andb_true_iff in Hh. split; exists a; tauto.
      * intros [[a [Ha [Hi Hh]]] [b [Hb [Hi' Hh']]]]. assert (a = b) by (apply (index_inj atoms); congruence). subst b.
        exists a. repeat split; try assumption. destruct (Hand a Ha) as [v [Hv Ht]]. unfold holds at 1. rewrite Hv, Ht, Hh, Hh'. reflexivity.
  - exists (comprehension env_of (PBoolOp BOr [p; q]) atoms). split.
    + apply select_py_ok. split; [|reflexivity]. intros a Ha. destruct (Hor a Ha) as [v [Hv _]]. exists v; assumption.
    + intros i. rewrite !in_comprehension by assumption. split.
      * intros [a [Ha [Hi Hh]]]. destruct (Hor a Ha) as [v [Hv Ht]]. unfold holds in Hh at 1. rewrite Hv, Ht in Hh.
        apply orb_true_iff in Hh. destruct Hh; [left|right]; exists a; tauto.
      * intros [[a [Ha [Hi Hh]]]|[a [Ha [Hi Hh]]]]; exists a; repeat split; try assumption;
          destruct (Hor a Ha) as [v [Hv Ht]]; unfold holds at 1; rewrite Hv, Ht, Hh; [reflexivity|apply orb_true_r].
  - exists (comprehension env_of (PNot p) atoms). split.
    + apply select_py_ok. split; [|reflexivity]. intros a Ha. destruct (Hnot a Ha) as [v [Hv _]]. exists v; assumption.
    + intros i. rewrite !in_comprehension by assumption. split.
      * intros [a [Ha [Hi Hh]]]. destruct (Hnot a Ha) as [v [Hv Ht]]. unfold holds in Hh at 1. rewrite Hv, Ht in Hh.
        split; [rewrite <- Hi; apply in_map; assumption|].
        intros [b [Hb [Hi' Hh']]]. assert (a = b) by (apply (index_inj atoms); congruence). subst b.
        rewrite Hh' in Hh. discriminate.
      * intros [Hin Hnot']. apply in_map_iff in Hin. destruct Hin as [a [Hi Ha]]. exists a. repeat split; try assumption.
        destruct (Hnot a Ha) as [v [Hv Ht]]. unfold holds at 1. rewrite Hv, Ht.
        destruct (holds env_of p a) eqn:Hh; [|reflexivity]. exfalso. apply Hnot'. exists a. tauto.
Qed.

(* ------------------------------------------------------------------ the same on the surface syntax *)
Require Import MD.Select.ParsePrint.

Definition compile_expr (cfg : config) (strict : bool) (e : expr) : option pyexpr :=
  if negb (ctor_ok cfg e) then None
  else match to_py cfg e with
       | None => None
       | Some p0 =>
           let p := rewrite_names p0 in
           let single_ok := match p with
                            | PConst v => if strict then is_safe_const v else in_safe_set v
                            | _ => true
                            end in
           if single_ok && compile_ok p then Some p else None
       end.

Lemma compile_tokens_eq : forall cfg strict ts,
  compile_tokens cfg strict ts =
  match parse_all cfg ts with None => None | Some e => compile_expr cfg strict e end.
Proof. reflexivity. Qed.

Lemma compile_print : forall cfg strict e, NoDup (all_ops cfg) -> wf cfg e ->
  compile_tokens cfg strict (print cfg e) = compile_expr cfg strict e.
Proof. intros cfg strict e Hnd Hwf. rewrite compile_tokens_eq, (parse_print_tokens cfg Hnd e Hwf). reflexivity. Qed.

Lemma compile_expr_inv : forall cfg strict e p, compile_expr cfg strict e = Some p ->
  ctor_ok cfg e = true /\ exists p0, to_py cfg e = Some p0 /\ p = rewrite_names p0 /\ compile_ok p = true.
Proof.
  intros cfg strict e p H. unfold compile_expr in H. destruct (ctor_ok cfg e); [|discriminate]. cbn [negb] in H.
  destruct (to_py cfg e) as [p0|]; [|discriminate]. split; [reflexivity|]. exists p0.
  destruct (_ && compile_ok (rewrite_names p0)) eqn:Hc; [|discriminate]. injection H as <-.
  apply andb_true_iff in Hc. tauto.
Qed.

Lemma select_tokens_inv : forall cfg strict atoms ts l, select_tokens cfg strict atoms ts = Sel l ->
  exists p, compile_tokens cfg strict ts = Some p /\ select_py (attr cfg) p atoms = Ok l.
Proof.
  intros cfg strict atoms ts l H. unfold select_tokens, run_compiled in H. destruct (compile_tokens cfg strict ts) as [p|]; [|discriminate].
  exists p. split; [reflexivity|]. destruct (select_py (attr cfg) p atoms); [injection H as <-; reflexivity|discriminate].
Qed.

Section Surface.
  Variable cfg : config.
  Hypothesis Hnd : NoDup (all_ops cfg).
  Variable strict : bool.
  Variable atoms : list atom.
  Hypothesis Hidx : NoDup (map a_index atoms).

  Lemma wf_bin2 : forall a b o, wf cfg a -> wf cfg b -> op_kind cfg o = Some KBinary -> wf cfg (EBin a [(o, b)]).
  Proof. intros a b o Ha Hb Ho. cbn [wf]. repeat split; try assumption. discriminate. Qed.

  Lemma compile_boolop : forall a b o bo pa pb,
    assoc o (bin_sem cfg) = Some (SBool bo) -> is_lit_expr a = false -> is_lit_expr b = false ->
    compile_expr cfg strict a = Some pa -> compile_expr cfg strict b = Some pb ->
    compile_expr cfg strict (EBin a [(o, b)]) = Some (PBoolOp bo [pa; pb]).
  Proof.
    intros a b o bo pa pb Ho Hla Hlb Ha Hb.
    apply compile_expr_inv in Ha. destruct Ha as [Hca [pa0 [Hta [-> Hoa]]]].
    apply compile_expr_inv in Hb. destruct Hb as [Hcb [pb0 [Htb [-> Hob]]]].
    unfold compile_expr. cbn [ctor_ok chain_sem map snd existsb]. rewrite Ho, Hca, Hcb, Hla, Hlb. cbn [negb andb orb].
    cbn [to_py chain_sem]. rewrite Hta, Htb, Ho. cbn [rewrite_names map compile_ok forallb]. rewrite Hoa, Hob. reflexivity.
  Qed.

  Lemma compile_not : forall a o pa, is_lit_expr a = false ->
    compile_expr cfg strict a = Some pa -> compile_expr cfg strict (EUn o a) = Some (PNot pa).
  Proof.
    intros a o pa Hla Ha. apply compile_expr_inv in Ha. destruct Ha as [Hca [pa0 [Hta [-> Hoa]]]].
    unfold compile_expr. cbn [ctor_ok]. rewrite Hca, Hla. cbn [negb andb]. cbn [to_py]. rewrite Hta.
    cbn [rewrite_names compile_ok]. rewrite Hoa. reflexivity.
  Qed.

  (* "a AND b" selects the intersection, "a OR b" the union, "NOT a" the complement, for every spelling of
     the operators, with the parentheses the printer inserts for the table at hand *)
  Theorem eval_bool_algebra : forall a b A B,
    wf cfg a -> wf cfg b -> is_lit_expr a = false -> is_lit_expr b = false ->
    select_tokens cfg strict atoms (print cfg a) = Sel A ->
    select_tokens cfg strict atoms (print cfg b) = Sel B ->
    (forall o, op_kind cfg o = Some KBinary -> assoc o (bin_sem cfg) = Some (SBool BAnd) ->
       exists R, select_tokens cfg strict atoms (print cfg (EBin a [(o, b)])) = Sel R /\
                 forall i, In i R <-> In i A /\ In i B) /\
    (forall o, op_kind cfg o = Some KBinary -> assoc o (bin_sem cfg) = Some (SBool BOr) ->
       exists R, select_tokens cfg strict atoms (print cfg (EBin a [(o, b)])) = Sel R /\
                 forall i, In i R <-> In i A \/ In i B) /\
    (forall o, op_kind cfg o = Some KUnary ->
       exists R, select_tokens cfg strict atoms (print cfg (EUn o a)) = Sel R /\
                 forall i, In i R <-> In i (map a_index atoms) /\ ~ In i A).
  Proof.
    intros a b A B Hwa Hwb Hla Hlb HA HB.
    apply select_tokens_inv in HA. destruct HA as [pa [Hca HsA]]. rewrite (compile_print cfg strict a Hnd Hwa) in Hca.
    apply select_tokens_inv in HB. destruct HB as [pb [Hcb HsB]]. rewrite (compile_print cfg strict b Hnd Hwb) in Hcb.
    destruct (eval_bool_algebra_py (attr cfg) pa pb atoms A B Hidx HsA HsB) as [[R1 [H1 H1']] [[R2 [H2 H2']] [R3 [H3 H3']]]].
    repeat split.
    - intros o Hk Ho. exists R1. split; [|assumption]. unfold select_tokens, run_compiled.
      rewrite (compile_print cfg strict _ Hnd (wf_bin2 a b o Hwa Hwb Hk)).
      rewrite (compile_boolop a b o BAnd pa pb Ho Hla Hlb Hca Hcb). rewrite H1. reflexivity.
    - intros o Hk Ho. exists R2. split; [|assumption]. unfold select_tokens, run_compiled.
      rewrite (compile_print cfg strict _ Hnd (wf_bin2 a b o Hwa Hwb Hk)).
      rewrite (compile_boolop a b o BOr pa pb Ho Hla Hlb Hca Hcb). rewrite H2. reflexivity.
    - intros o Hk. exists R3. split; [|assumption]. unfold select_tokens, run_compiled.
      assert (Hw : wf cfg (EUn o a)) by (cbn [wf]; split; assumption).
      rewrite (compile_print cfg strict _ Hnd Hw). rewrite (compile_not a o pa Hla Hca). rewrite H3. reflexivity.
  Qed.
End Surface.

(* ------------------------------------------------------------------ ranges, lists, implicit equality *)
Definition lit_value (cfg : config) (l : lit) : option value :=
  match lit_py cfg l with
  | Some p => match rewrite_names p with PConst v => Some v | _ => None end
  | None => None
  end.

Lemma lit_py_const : forall cfg l p, lit_py cfg l = Some p ->
  exists v, rewrite_names p = PConst v /\ lit_value cfg l = Some v.
Proof.
  intros cfg l p H. unfold lit_value. rewrite H. destruct l as [w|s|s]; cbn [lit_py] in H.
  - assert (Hp : p = PName w).
    { destruct (mem_str w safe_names); [congruence|]. destruct (mem_str w (py_kwlist cfg)); congruence. }
    subst p. cbn [rewrite_names].
    destruct (String.eqb w "None"); [eexists; split; reflexivity|].
    destruct (String.eqb w "True"); [eexists; split; reflexivity|].
    destruct (String.eqb w "False"); eexists; split; reflexivity.
  - destruct (num_value s) as [[m e]|]; [|discriminate]. injection H as <-. eexists; split; reflexivity.
  - injection H as <-. eexists; split; reflexivity.
Qed.

Lemma kw_py_eval : forall cfg k p a, kw_py cfg k = Some p ->
  exists f, assoc k (sel_kws cfg) = Some f /\ py_eval (attr cfg a) (rewrite_names p) = Ok (attr cfg a f) /\
            compile_ok (rewrite_names p) = true /\ (forall v, rewrite_names p = PConst v -> is_safe_const v = true).
Proof.
  intros cfg k p a H. unfold kw_py in H. destruct (assoc k (sel_kws cfg)) as [f|]; [|discriminate].
  exists f. split; [reflexivity|].
  destruct f; injection H as <-; cbn; repeat split; try reflexivity; intros v Hv; try discriminate;
    injection Hv as <-; reflexivity.
Qed.

Lemma map_opt_lits : forall cfg ls ps, map_opt (lit_py cfg) ls = Some ps ->
  exists vs, map rewrite_names ps = map PConst vs /\ map_opt (lit_value cfg) ls = Some vs.
Proof.
  intros cfg. induction ls as [|l ls IH]; intros ps H; cbn [map_opt] in H.
  - injection H as <-. exists []. split; reflexivity.
  - destruct (lit_py cfg l) as [p|] eqn:Hl; [|discriminate]. destruct (map_opt (lit_py cfg) ls) as [ps'|]; [|discriminate].
    injection H as <-. destruct (IH ps' eq_refl) as [vs [Hm Hv]]. destruct (lit_py_const cfg l p Hl) as [v [Hr Hlv]].
    exists (v :: vs). cbn [map map_opt]. rewrite Hr, Hm, Hlv, Hv. split; reflexivity.
Qed.

Lemma compile_ok_consts : forall vs, forallb compile_ok (map PConst vs) = true.
Proof. induction vs; [reflexivity|assumption]. Qed.

(* "k lo to hi" is  lo <= k <= hi  with Python's chained comparison: k <= hi is only looked at when lo <= k *)
Theorem range_spec : forall cfg strict k lo hi p,
  compile_expr cfg strict (ERange k lo hi) = Some p ->
  exists f vlo vhi, assoc k (sel_kws cfg) = Some f /\ lit_value cfg lo = Some vlo /\ lit_value cfg hi = Some vhi /\
    forall a, py_eval (attr cfg a) p =
              match cmp_apply CLe vlo (attr cfg a f) with
              | Err x => Err x
              | Ok r => if truthy r then cmp_apply CLe (attr cfg a f) vhi else Ok r
              end.
Proof.
  intros cfg strict k lo hi p H. apply compile_expr_inv in H. destruct H as [_ [p0 [Ht [-> _]]]].
  cbn [to_py] in Ht. destruct (kw_py cfg k) as [pf|] eqn:Hk; [|discriminate].
  destruct (lit_py cfg lo) as [pa|] eqn:Hlo; [|discriminate]. destruct (lit_py cfg hi) as [pb|] eqn:Hhi; [|discriminate].
  injection Ht as <-. destruct (lit_py_const cfg lo pa Hlo) as [vlo [Hra Hvlo]].
  destruct (lit_py_const cfg hi pb Hhi) as [vhi [Hrb Hvhi]].
  destruct (kw_py_eval cfg k pf {| a_name := ""; a_index := 0; a_nbonds := 0; a_symbol := ""; a_mass := (0%Z, 0);
     a_resname := ""; a_resSeq := 0; a_resindex := 0; a_chainindex := 0; a_segid := "" |} Hk) as [f [Hf _]].
  exists f, vlo, vhi. repeat split; try assumption. intros a.
  destruct (kw_py_eval cfg k pf a Hk) as [f' [Hf' [Hev _]]]. assert (f' = f) by congruence. subst f'.
  cbn [rewrite_names map py_eval]. rewrite Hra, Hrb. cbn [py_eval]. rewrite Hev.
  destruct (cmp_apply CLe vlo (attr cfg a f)) as [r|x]; [|reflexivity].
  destruct (truthy r); [|reflexivity]. destruct (cmp_apply CLe (attr cfg a f) vhi); reflexivity.
Qed.

Definition num_le (a b : Z * nat) : bool := match num_compare a b with Gt => false | _ => true end.

(* for numbers this is the closed interval *)
Corollary range_numeric : forall cfg strict k lo hi p f nlo nhi a x,
  compile_expr cfg strict (ERange k lo hi) = Some p ->
  assoc k (sel_kws cfg) = Some f ->
  option_map as_num (lit_value cfg lo) = Some (Some nlo) -> option_map as_num (lit_value cfg hi) = Some (Some nhi) ->
  as_num (attr cfg a f) = Some x ->
  py_eval (attr cfg a) p = Ok (VBool (num_le nlo x && num_le x nhi)).
Proof.
  intros cfg strict k lo hi p f nlo nhi a x Hc Hf Hlo Hhi Hx.
  destruct (range_spec cfg strict k lo hi p Hc) as [f' [vlo [vhi [Hf' [Hvlo [Hvhi Hev]]]]]].
  assert (f' = f) by congruence. subst f'. rewrite Hev. rewrite Hvlo in Hlo. rewrite Hvhi in Hhi. cbn in Hlo, Hhi.
  injection Hlo as Hlo. injection Hhi as Hhi.
  unfold cmp_apply, vord. rewrite Hlo, Hhi, Hx. unfold num_le.
  destruct (num_compare nlo x); cbn; destruct (num_compare x nhi); reflexivity.
Qed.

(* "k l" is k == l *)
Theorem implicit_eq_spec : forall cfg strict k l p,
  compile_expr cfg strict (EInList k [l]) = Some p ->
  exists f v, assoc k (sel_kws cfg) = Some f /\ lit_value cfg l = Some v /\
    forall a, py_eval (attr cfg a) p = Ok (VBool (veq (attr cfg a f) v)).
Proof.
  intros cfg strict k l p H. apply compile_expr_inv in H. destruct H as [_ [p0 [Ht [-> _]]]].
  cbn [to_py map_opt] in Ht. destruct (kw_py cfg k) as [pf|] eqn:Hk; [|discriminate].
  destruct (lit_py cfg l) as [pl|] eqn:Hl; [|discriminate]. injection Ht as <-.
  destruct (lit_py_const cfg l pl Hl) as [v [Hr Hv]].
  destruct (kw_py_eval cfg k pf {| a_name := ""; a_index := 0; a_nbonds := 0; a_symbol := ""; a_mass := (0%Z, 0);
     a_resname := ""; a_resSeq := 0; a_resindex := 0; a_chainindex := 0; a_segid := "" |} Hk) as [f [Hf _]].
  exists f, v. repeat split; try assumption. intros a.
  destruct (kw_py_eval cfg k pf a Hk) as [f' [Hf' [Hev _]]]. assert (f' = f) by congruence. subst f'.
  cbn [rewrite_names map py_eval]. rewrite Hr. cbn [py_eval]. rewrite Hev. reflexivity.
Qed.

Lemma inlist_go : forall env lv vs acc,
  (fix go (es : list pyexpr) (acc : bool) : res value :=
     match es with
     | [] => Ok (VBool acc)
     | a :: r => match py_eval env a with
                 | Err x => Err x
                 | Ok v => go r (acc || veq lv v)
                 end
     end) (map PConst vs) acc = Ok (VBool (acc || existsb (veq lv) vs)).
Proof.
  intros env lv. induction vs as [|v vs IH]; intros acc.
  - cbn. rewrite orb_false_r. reflexivity.
  - cbn [map py_eval existsb]. rewrite IH. rewrite orb_assoc. reflexivity.
Qed.

(* "k l1 l2 ..." (two or more literals) is membership under Python's == *)
Theorem inlist_spec : forall cfg strict k l1 l2 ls p,
  compile_expr cfg strict (EInList k (l1 :: l2 :: ls)) = Some p ->
  exists f vs, assoc k (sel_kws cfg) = Some f /\ map_opt (lit_value cfg) (l1 :: l2 :: ls) = Some vs /\
    forall a, py_eval (attr cfg a) p = Ok (VBool (existsb (veq (attr cfg a f)) vs)).
Proof.
  intros cfg strict k l1 l2 ls p H. apply compile_expr_inv in H. destruct H as [_ [p0 [Ht [-> _]]]].
  cbn [to_py] in Ht. destruct (kw_py cfg k) as [pf|] eqn:Hk; [|discriminate].
  destruct (map_opt (lit_py cfg) (l1 :: l2 :: ls)) as [ps|] eqn:Hm; [|discriminate].
  assert (Hps : exists q1 q2 qs, ps = q1 :: q2 :: qs).
  { cbn [map_opt] in Hm. destruct (lit_py cfg l1); [|discriminate]. destruct (lit_py cfg l2); [|discriminate].
    destruct (map_opt (lit_py cfg) ls); [|discriminate]. injection Hm as <-. eexists _, _, _. reflexivity. }
  destruct Hps as [q1 [q2 [qs ->]]]. injection Ht as <-.
  destruct (map_opt_lits cfg _ _ Hm) as [vs [Hr Hvs]].
  destruct (kw_py_eval cfg k pf {| a_name := ""; a_index := 0; a_nbonds := 0; a_symbol := ""; a_mass := (0%Z, 0);
     a_resname := ""; a_resSeq := 0; a_resindex := 0; a_chainindex := 0; a_segid := "" |} Hk) as [f [Hf _]].
  exists f, vs. repeat split; try assumption. intros a.
  destruct (kw_py_eval cfg k pf a Hk) as [f' [Hf' [Hev _]]]. assert (f' = f) by congruence. subst f'.
  cbn [rewrite_names py_eval]. rewrite Hev, Hr. rewrite inlist_go. reflexivity.
Qed.

(* ------------------------------------------------------------------ the shortcut used by the correspondence run *)
Require Import MD.Select.Run MD.Select.Malformed.

Lemma kw_py_not_unsafe_const : forall cfg k p v, kw_py cfg k = Some p -> rewrite_names p = PConst v ->
  is_safe_const v = true /\ in_safe_set v = true.
Proof.
  intros cfg k p v H Hr. unfold kw_py in H. destruct (assoc k (sel_kws cfg)) as [f|]; [|discriminate].
  destruct f; injection H as <-; cbn in Hr; try discriminate; injection Hr as <-; split; reflexivity.
Qed.

(* the two single-literal variants differ at most when the parse tree is a single literal *)
Lemma compile_parsed_strict_irrelevant : forall cfg e, is_lit_expr e = false ->
  compile_parsed cfg false (Some e) = compile_parsed cfg true (Some e).
Proof.
  intros cfg e Hl. unfold compile_parsed. destruct (negb (ctor_ok cfg e)); [reflexivity|].
  destruct (to_py cfg e) as [p0|] eqn:Ht; [|reflexivity].
  assert (Hsame : forall v, rewrite_names p0 = PConst v -> is_safe_const v = in_safe_set v).
  { intros v Hv. destruct e; try discriminate; [cbn [to_py] in Ht|cbn [to_py] in Ht|cbn [to_py] in Ht|cbn [to_py] in Ht| |cbn [to_py] in Ht].
    - destruct (kw_py_not_unsafe_const cfg k p0 v Ht Hv) as [-> ->]. reflexivity.
    - destruct (kw_py cfg k); [|discriminate]. destruct (lit_py cfg lo); [|discriminate]. destruct (lit_py cfg hi); [|discriminate].
      injection Ht as <-. discriminate.
    - destruct (kw_py cfg k); [|discriminate]. destruct (map_opt (lit_py cfg) ls) as [[|a [|b r]]|]; try discriminate;
        injection Ht as <-; discriminate.
    - destruct (to_py cfg e); [|discriminate]. injection Ht as <-. discriminate.
    - rewrite Malformed.to_py_bin in Ht.
      destruct (to_py cfg e); [|discriminate]. destruct (Malformed.to_py_rest cfg rest); [|discriminate].
      destruct (chain_sem cfg rest) as [[b|c]|]; try discriminate; injection Ht as <-; discriminate.
    - destruct (to_py cfg e2); [|discriminate]. destruct (to_py cfg e1); [|discriminate]. injection Ht as <-. discriminate. }
  destruct (rewrite_names p0) eqn:Hr; try reflexivity. rewrite (Hsame v eq_refl). reflexivity.
Qed.

Theorem select_pair_correct : forall cfg atoms ts,
  select_pair cfg atoms ts = (select_tokens cfg false atoms ts, select_tokens cfg true atoms ts).
Proof.
  intros cfg atoms ts. unfold select_pair, select_tokens, compile_tokens.
  destruct (parse_all cfg ts) as [e|]; [|reflexivity].
  destruct e; try reflexivity; rewrite <- compile_parsed_strict_irrelevant by reflexivity; reflexivity.
Qed.

Theorem select_pair_t_correct : forall cfg atoms ts,
  select_pair_t cfg atoms ts = (select_pair cfg atoms ts, tokens_well_typed cfg ts).
Proof.
  intros cfg atoms ts. unfold select_pair_t, select_pair, tokens_well_typed, compile_tokens.
  destruct (parse_all cfg ts) as [e|]; [|reflexivity]. destruct e; reflexivity.
Qed.
