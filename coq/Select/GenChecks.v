(* C12 - checks of the regenerated tables (Gen/SelectTables.v), re-proved on every run by vm_compute. *)
From Coq Require Import List String Bool ZArith.
Require Import MD.Select.Syntax MD.Select.Model MD.Select.Run MD.Gen.SelectTables.
Import ListNotations.
Local Open Scope string_scope.

(* the twenty standard amino acids are protein residues with their one-letter codes, HOH is water,
   no residue name is both *)
Lemma gen_standard_residues :
  forallb (fun p => match assoc (fst p) (amino_codes gen_cfg) with
                    | Some (Some c) => String.eqb c (snd p) | _ => false end)
    [("ALA","A");("ARG","R");("ASN","N");("ASP","D");("CYS","C");("GLN","Q");("GLU","E");("GLY","G");("HIS","H");
     ("ILE","I");("LEU","L");("LYS","K");("MET","M");("PHE","F");("PRO","P");("SER","S");("THR","T");("TRP","W");
     ("TYR","Y");("VAL","V")] = true
  /\ mem_str "HOH" (water_names gen_cfg) = true
  /\ forallb (fun w => match assoc w (amino_codes gen_cfg) with Some _ => false | None => true end)
       (water_names gen_cfg) = true.
Proof. vm_compute. repeat split; reflexivity. Qed.

Require Import MD.Select.ParsePrint MD.Select.Precedence.

(* no operator spelling occurs twice in the regenerated level table: the hypothesis of parse_print *)
Lemma gen_ops_nodup : NoDup (all_ops gen_cfg).
Proof. apply nodup_strb_sound. vm_compute. reflexivity. Qed.

Lemma gen_conv_ops_nodup : NoDup (all_ops (conventional gen_cfg)).
Proof. apply nodup_strb_sound. vm_compute. reflexivity. Qed.

(* every operator of a level has a meaning in the class tables, every level is non-empty *)
Lemma gen_levels_complete :
  forallb (fun l => match lv_kind l with
                    | KBinary => forallb (fun o => match assoc o (bin_sem gen_cfg) with Some _ => true | None => false end) (lv_ops l)
                    | _ => true
                    end && negb (match lv_ops l with [] => true | _ => false end)) (levels gen_cfg) = true.
Proof. vm_compute. reflexivity. Qed.

(* a non-trivial well-formed tree over the regenerated tables:  not (name CA CB or resid 1 to 3) and mass < 5 *)
Definition demo_tree : expr :=
  EBin (EUn "not " (EBin (EInList "name" [LWord "CA"; LWord "CB"]) [("or", ERange "resid" (LNum "1") (LNum "3"))]))
       [("and", EBin (EKw "mass") [("<", ELit (LNum "5"))])].

Lemma demo_tree_wf : wf gen_cfg demo_tree.
Proof. cbn. repeat split; try reflexivity; try discriminate. Qed.

Lemma demo_atoms_sorted : Sorted.StronglySorted Z.lt (map a_index demo_atoms).
Proof. repeat constructor. Qed.

Lemma demo_select : select_str gen_cfg false demo_atoms "name CA C or water" = Sel [1%Z; 2%Z; 3%Z; 4%Z].
Proof. vm_compute. reflexivity. Qed.

(* every documented keyword, synonym and operator spelling is present with its documented meaning *)
Lemma gen_documented_meaning : documented_meaning gen_cfg = true.
Proof. vm_compute. reflexivity. Qed.

Require Import MD.Select.Layout MD.Select.LexProofs MD.Select.Sugar.

(* the lexer can work with the regenerated operator table; no keyword and no operator is listed twice *)
Lemma gen_lexcfg_ok : lexcfg_ok gen_cfg = true.
Proof. vm_compute. reflexivity. Qed.

Lemma gen_keys_nodup : NoDup (map fst (sel_kws gen_cfg)) /\ NoDup (map fst (bin_sem gen_cfg)).
Proof. split; apply nodup_strb_sound; vm_compute; reflexivity. Qed.

Lemma demo_tree_writable : writable gen_cfg demo_tree.
Proof. split; [exact demo_tree_wf|vm_compute; reflexivity]. Qed.

Lemma demo_strings :
  print_loose gen_cfg demo_tree = " not ( name CA CB or resid 1 to 3 ) and mass < 5" /\
  print_tight gen_cfg demo_tree = "not (name CA CB or resid 1 to 3)and mass<5".
Proof. vm_compute. split; reflexivity. Qed.
