(* C12 - checks of the regenerated tables (Gen/SelectTables.v), re-proved on every run by vm_compute. *)
From Coq Require Import List String Bool.
Require Import MD.Select.Syntax MD.Select.Model MD.Select.Run MD.Gen.SelectTables.
Import ListNotations.
Local Open Scope string_scope.

(* the twenty standard amino acids are protein residues with their one-letter codes, HOH is water,
   no residue name is both *)
Lemma gen_standard_residues :
  forallb (fun p => match assoc (fst p) (amino_codes gen_cfg) with
                    | Some (Some c) => String.eqb c (snd p) | _ => false end)
    [("ALA","A");("ARG","R");("ASN","N");("ASP","D");("CYS","C");("GLN","Q");("GLU","E");("GLY","G");("HIS","H");
     ("ILE","I");("LEU","L");("LYS","K");("MET","M");("PHE","F");("PRO","P");("SER","S");("THR","T");("TRP","W");
     ("TYR","Y");("VAL","V")] = true
  /\ mem_str "HOH" (water_names gen_cfg) = true
  /\ forallb (fun w => match assoc w (amino_codes gen_cfg) with Some _ => false | None => true end)
       (water_names gen_cfg) = true.
Proof. vm_compute. repeat split; reflexivity. Qed.
