(* C12 - the documented sugar, as theorems about what strings denote: aliases of keywords and operators, De Morgan and
   double negation on selections, "k lo to hi" = "(lo <= k) and (k <= hi)", "k v1 v2 ..." = "(k == v1) or (k == v2) ...". *)
From Coq Require Import List String Ascii ZArith Bool Arith Lia.
Require Import MD.Select.Syntax MD.Select.Regex MD.Select.Model MD.Select.Layout MD.Select.ParsePrint MD.Select.Proofs
               MD.Select.Malformed MD.Select.LexProofs.
Import ListNotations.
Local Open Scope list_scope.

(* what a parse tree denotes on a topology *)
Definition denote (cfg : config) (strict : bool) (atoms : list atom) (e : expr) : outcome :=
  run_compiled cfg atoms (compile_expr cfg strict e).

(* a tree that can be written: well-formed for the grammar and made of tokens of the lexer's domain *)
Definition writable (cfg : config) (e : expr) : Prop := wf cfg e /\ forallb (tok_ok cfg) (print cfg e) = true.

Section Strings.
  Variable cfg : config.
  Hypothesis Hnd : NoDup (all_ops cfg).
  Hypothesis Hlex : lexcfg_ok cfg = true.

  (* selecting with the printed string is evaluating the tree *)
  Theorem select_print_loose : forall strict atoms e, writable cfg e ->
    select_str cfg strict atoms (print_loose cfg e) = denote cfg strict atoms e.
  Proof.
    intros strict atoms e [Hwf Htok]. destruct (parse_print_string cfg Hnd Hlex e Hwf Htok) as [Hl _].
    unfold parse_string in Hl. unfold select_str. destruct (lex cfg (print_loose cfg e)) as [ts|]; [|discriminate].
    unfold select_tokens, compile_tokens, denote. rewrite Hl. reflexivity.
  Qed.

  Theorem select_print_tight : forall strict atoms e, writable cfg e ->
    select_str cfg strict atoms (print_tight cfg e) = denote cfg strict atoms e.
  Proof.
    intros strict atoms e [Hwf Htok]. destruct (parse_print_string cfg Hnd Hlex e Hwf Htok) as [_ Hl].
    unfold parse_string in Hl. unfold select_str. destruct (lex cfg (print_tight cfg e)) as [ts|]; [|discriminate].
    unfold select_tokens, compile_tokens, denote. rewrite Hl. reflexivity.
  Qed.

  (* two writable trees with the same denotation: their strings select the same, in either spacing *)
  Corollary same_denotation_same_selection : forall strict atoms e1 e2, writable cfg e1 -> writable cfg e2 ->
    denote cfg strict atoms e1 = denote cfg strict atoms e2 ->
    select_str cfg strict atoms (print_loose cfg e1) = select_str cfg strict atoms (print_loose cfg e2) /\
    select_str cfg strict atoms (print_tight cfg e1) = select_str cfg strict atoms (print_tight cfg e2).
  Proof.
    intros strict atoms e1 e2 H1 H2 Hd. rewrite !select_print_loose, !select_print_tight by assumption. split; assumption.
  Qed.
End Strings.

(* ------------------------------------------------------------------ aliases: keywords and operator spellings *)
Fixpoint respell (fk fo : string -> string) (e : expr) : expr :=
  match e with
  | EKw k => EKw (fk k)
  | ELit l => ELit l
  | ERange k lo hi => ERange (fk k) lo hi
  | EInList k ls => EInList (fk k) ls
  | EUn o a => EUn (fo o) (respell fk fo a)
  | EBin e0 rest => EBin (respell fk fo e0) (map (fun p => (fo (fst p), respell fk fo (snd p))) rest)
  | ERx o s p => ERx (fo o) (respell fk fo s) (respell fk fo p)
  end.

Fixpoint ctor_rest (cfg : config) (l : list (string * expr)) : bool :=
  match l with [] => true | (_, a) :: l' => ctor_ok cfg a && ctor_rest cfg l' end.

Lemma ctor_ok_bin : forall cfg e0 rest,
  ctor_ok cfg (EBin e0 rest) =
  ctor_ok cfg e0 && ctor_rest cfg rest
  && match chain_sem cfg rest with
     | Some (SBool _) => negb (existsb is_lit_expr (e0 :: map snd rest))
     | Some (SCmp _) => negb (forallb is_lit_expr (e0 :: map snd rest))
     | None => false
     end.
Proof.
  intros cfg e0 rest. cbn [ctor_ok]. f_equal. f_equal.
  induction rest as [|[o a] l IH]; [reflexivity|]. cbn [ctor_rest]. rewrite <- IH. reflexivity.
Qed.

Section Alias.
  Variable cfg : config.
  Variables fk fo : string -> string.
  Hypothesis Hk : forall k, assoc (fk k) (sel_kws cfg) = assoc k (sel_kws cfg).
  Hypothesis Ho : forall o, assoc (fo o) (bin_sem cfg) = assoc o (bin_sem cfg).

  Lemma kw_py_alias : forall k, kw_py cfg (fk k) = kw_py cfg k.
  Proof. intros k. unfold kw_py. rewrite Hk. reflexivity. Qed.

  Lemma is_lit_respell : forall e, is_lit_expr (respell fk fo e) = is_lit_expr e.
  Proof. destruct e; reflexivity. Qed.

  Lemma chain_sem_respell : forall rest,
    chain_sem cfg (map (fun p => (fo (fst p), respell fk fo (snd p))) rest) = chain_sem cfg rest.
  Proof. destruct rest as [|[o a] r]; [reflexivity|]. cbn. apply Ho. Qed.

  Lemma respell_same : forall e, to_py cfg (respell fk fo e) = to_py cfg e /\ ctor_ok cfg (respell fk fo e) = ctor_ok cfg e.
  Proof.
    induction e as [k|l|k lo hi|k ls|o a IHa|e0 rest IHe0 IHrest|o s p IHs IHp] using expr_ind'; cbn [respell].
    - cbn [to_py ctor_ok]. rewrite kw_py_alias. split; reflexivity.
    - split; reflexivity.
    - cbn [to_py ctor_ok]. rewrite kw_py_alias. split; reflexivity.
    - cbn [to_py ctor_ok]. rewrite kw_py_alias. split; reflexivity.
    - destruct IHa as [Ht Hc]. cbn [to_py ctor_ok]. rewrite Ht, Hc, is_lit_respell. split; reflexivity.
    - destruct IHe0 as [Ht0 Hc0].
      assert (Hrest : to_py_rest cfg (map (fun p => (fo (fst p), respell fk fo (snd p))) rest) = to_py_rest cfg rest
                      /\ ctor_rest cfg (map (fun p => (fo (fst p), respell fk fo (snd p))) rest) = ctor_rest cfg rest
                      /\ map is_lit_expr (map snd (map (fun p => (fo (fst p), respell fk fo (snd p))) rest))
                         = map is_lit_expr (map snd rest)).
      { induction IHrest as [|[o a] l [Hta Hca] _ IH]; [repeat split; reflexivity|].
        destruct IH as [H1 [H2 H3]]. cbn [map fst snd to_py_rest ctor_rest]. cbn [snd] in Hta, Hca.
        rewrite Hta, Hca, H1, H2, H3, is_lit_respell. repeat split; reflexivity. }
      destruct Hrest as [H1 [H2 H3]]. rewrite !to_py_bin, !ctor_ok_bin, chain_sem_respell, Ht0, Hc0, H1, H2.
      split; [reflexivity|]. f_equal.
      assert (He : forall (l1 l2 : list expr), map is_lit_expr l1 = map is_lit_expr l2 ->
                   existsb is_lit_expr l1 = existsb is_lit_expr l2 /\ forallb is_lit_expr l1 = forallb is_lit_expr l2).
      { induction l1 as [|x l1 IH]; intros [|y l2] Hm; try discriminate; [split; reflexivity|].
        cbn in Hm. injection Hm as Hx Hm. destruct (IH l2 Hm) as [E1 E2]. cbn. rewrite Hx, E1, E2. split; reflexivity. }
      destruct (He (respell fk fo e0 :: map snd (map (fun p => (fo (fst p), respell fk fo (snd p))) rest)) (e0 :: map snd rest))
        as [E1 E2]; [cbn [map]; rewrite is_lit_respell, H3; reflexivity|].
      rewrite E1, E2. reflexivity.
    - destruct IHs as [Hts Hcs], IHp as [Htp Hcp]. cbn [to_py ctor_ok]. rewrite Hts, Htp, Hcs, Hcp, is_lit_respell.
      split; reflexivity.
  Qed.

  (* every alias of a keyword and every spelling of an operator denote the same *)
  Theorem alias_same_denotation : forall strict atoms e,
    denote cfg strict atoms (respell fk fo e) = denote cfg strict atoms e.
  Proof.
    intros strict atoms e. unfold denote, compile_expr. destruct (respell_same e) as [Ht Hc]. rewrite Ht, Hc. reflexivity.
  Qed.
End Alias.

(* ------------------------------------------------------------------ De Morgan and double negation on selections *)
Lemma select_py_ext : forall env_of p q atoms,
  (forall a, In a atoms -> exists v, py_eval (env_of a) p = Ok v) ->
  (forall a, In a atoms -> exists v, py_eval (env_of a) q = Ok v) ->
  (forall a, In a atoms -> holds env_of p a = holds env_of q a) ->
  select_py env_of p atoms = select_py env_of q atoms.
Proof.
  intros env_of p q atoms Hp Hq Hh.
  assert (E1 : select_py env_of p atoms = Ok (comprehension env_of p atoms)) by (apply select_py_ok; split; [assumption|reflexivity]).
  assert (E2 : select_py env_of q atoms = Ok (comprehension env_of q atoms)) by (apply select_py_ok; split; [assumption|reflexivity]).
  rewrite E1, E2. unfold comprehension. f_equal. f_equal. apply filter_ext_in. assumption.
Qed.

Lemma denote_sel_inv : forall cfg strict atoms e A, denote cfg strict atoms e = Sel A ->
  exists p, compile_expr cfg strict e = Some p /\ forall a, In a atoms -> exists v, py_eval (attr cfg a) p = Ok v.
Proof.
  intros cfg strict atoms e A H. unfold denote, run_compiled in H. destruct (compile_expr cfg strict e) as [p|]; [|discriminate].
  exists p. split; [reflexivity|]. destruct (select_py (attr cfg) p atoms) as [l|x] eqn:Hs; [|discriminate].
  apply select_py_ok in Hs. tauto.
Qed.

Section Boolean.
  Variable cfg : config.
  Variable strict : bool.
  Variable atoms : list atom.

  Lemma eval2 : forall b p q a vp vq, py_eval (attr cfg a) p = Ok vp -> py_eval (attr cfg a) q = Ok vq ->
    exists v, py_eval (attr cfg a) (PBoolOp b [p; q]) = Ok v /\
              truthy v = match b with BAnd => truthy vp && truthy vq | BOr => truthy vp || truthy vq end.
  Proof.
    intros b p q a vp vq Hp Hq. destruct b.
    - destruct (eval_and (attr cfg a) [p; q] [vp; vq]) as [v [Hv Ht]]; [discriminate|repeat constructor; assumption|].
      exists v. split; [assumption|]. rewrite Ht. cbn. rewrite andb_true_r. reflexivity.
    - destruct (eval_or (attr cfg a) [p; q] [vp; vq]) as [v [Hv Ht]]; [discriminate|repeat constructor; assumption|].
      exists v. split; [assumption|]. rewrite Ht. cbn. rewrite orb_false_r. reflexivity.
  Qed.

  Definition dual (b : boolop) : boolop := match b with BAnd => BOr | BOr => BAnd end.

  (* not (a AND b) = (not a) OR (not b);  not (a OR b) = (not a) AND (not b): same selection, for every spelling *)
  Theorem de_morgan : forall a b o o' n bo A B,
    assoc o (bin_sem cfg) = Some (SBool bo) -> assoc o' (bin_sem cfg) = Some (SBool (dual bo)) ->
    is_lit_expr a = false -> is_lit_expr b = false ->
    denote cfg strict atoms a = Sel A -> denote cfg strict atoms b = Sel B ->
    denote cfg strict atoms (EUn n (EBin a [(o, b)])) = denote cfg strict atoms (EBin (EUn n a) [(o', EUn n b)]).
  Proof.
    intros a b o o' n bo A B Ho Ho' Hla Hlb HA HB.
    destruct (denote_sel_inv _ _ _ _ _ HA) as [pa [Hca Hea]]. destruct (denote_sel_inv _ _ _ _ _ HB) as [pb [Hcb Heb]].
    pose proof (compile_boolop cfg strict a b o bo pa pb Ho Hla Hlb Hca Hcb) as Hc1.
    pose proof (compile_not cfg strict (EBin a [(o, b)]) n _ eq_refl Hc1) as Hc2.
    pose proof (compile_not cfg strict a n pa Hla Hca) as Hna. pose proof (compile_not cfg strict b n pb Hlb Hcb) as Hnb.
    pose proof (compile_boolop cfg strict (EUn n a) (EUn n b) o' (dual bo) _ _ Ho' eq_refl eq_refl Hna Hnb) as Hc3.
    unfold denote. rewrite Hc2, Hc3. unfold run_compiled.
    assert (Hleft : forall x, In x atoms -> exists v, py_eval (attr cfg x) (PNot (PBoolOp bo [pa; pb])) = Ok v /\
              truthy v = negb (match bo with BAnd => holds (attr cfg) pa x && holds (attr cfg) pb x
                                         | BOr => holds (attr cfg) pa x || holds (attr cfg) pb x end)).
    { intros x Hx. destruct (Hea x Hx) as [va Hva]. destruct (Heb x Hx) as [vb Hvb].
      destruct (eval2 bo pa pb x va vb Hva Hvb) as [v [Hv Ht]]. exists (VBool (negb (truthy v))).
      split; [apply eval_not; assumption|]. unfold holds. rewrite Hva, Hvb. cbn [truthy]. rewrite Ht. reflexivity. }
    assert (Hright : forall x, In x atoms -> exists v, py_eval (attr cfg x) (PBoolOp (dual bo) [PNot pa; PNot pb]) = Ok v /\
              truthy v = match dual bo with BAnd => negb (holds (attr cfg) pa x) && negb (holds (attr cfg) pb x)
                                          | BOr => negb (holds (attr cfg) pa x) || negb (holds (attr cfg) pb x) end).
    { intros x Hx. destruct (Hea x Hx) as [va Hva]. destruct (Heb x Hx) as [vb Hvb].
      destruct (eval2 (dual bo) (PNot pa) (PNot pb) x _ _ (eval_not _ _ _ Hva) (eval_not _ _ _ Hvb)) as [v [Hv Ht]].
      exists v. split; [assumption|]. unfold holds. rewrite Hva, Hvb. rewrite Ht. reflexivity. }
    rewrite (select_py_ext (attr cfg) (PNot (PBoolOp bo [pa; pb])) (PBoolOp (dual bo) [PNot pa; PNot pb]) atoms); [reflexivity| | |].
    - intros x Hx. destruct (Hleft x Hx) as [v [Hv _]]. exists v; assumption.
    - intros x Hx. destruct (Hright x Hx) as [v [Hv _]]. exists v; assumption.
    - intros x Hx. destruct (Hleft x Hx) as [v [Hv Ht]]. destruct (Hright x Hx) as [w [Hw Hs]].
      unfold holds at 1 2. rewrite Hv, Hw, Ht, Hs. destruct bo; cbn [dual]; [apply negb_andb|apply negb_orb].
  Qed.

  (* not not a selects what a selects *)
  Theorem double_negation : forall a n n' A, is_lit_expr a = false ->
    denote cfg strict atoms a = Sel A -> denote cfg strict atoms (EUn n (EUn n' a)) = Sel A.
  Proof.
    intros a n n' A Hla HA. destruct (denote_sel_inv _ _ _ _ _ HA) as [pa [Hca Hea]].
    pose proof (compile_not cfg strict a n' pa Hla Hca) as H1. pose proof (compile_not cfg strict (EUn n' a) n _ eq_refl H1) as H2.
    unfold denote in *. rewrite H2. rewrite Hca in HA. unfold run_compiled in *.
    rewrite (select_py_ext (attr cfg) (PNot (PNot pa)) pa atoms); [assumption| |assumption|].
    - intros x Hx. destruct (Hea x Hx) as [v Hv]. eexists. apply eval_not. apply eval_not. eassumption.
    - intros x Hx. destruct (Hea x Hx) as [v Hv]. unfold holds.
      rewrite (eval_not _ _ _ (eval_not _ _ _ Hv)), Hv. cbn [truthy]. apply negb_involutive.
  Qed.
End Boolean.

(* ------------------------------------------------------------------ ranges and lists as boolean combinations *)
Lemma select_py_eval_ext : forall env_of p q atoms,
  (forall a, In a atoms -> py_eval (env_of a) p = py_eval (env_of a) q) ->
  select_py env_of p atoms = select_py env_of q atoms.
Proof.
  intros env_of p q. induction atoms as [|a r IH]; intros H; [reflexivity|].
  cbn [select_py]. rewrite (H a (or_introl eq_refl)). rewrite IH by (intros b Hb; apply H; right; assumption). reflexivity.
Qed.

(* Python's chained comparison  a <= f <= b  is  (a <= f) and (f <= b), value for value and error for error *)
Lemma chain_as_and : forall env a f b c1 c2,
  py_eval env (PCompare a [c1; c2] [f; b]) = py_eval env (PBoolOp BAnd [PCompare a [c1] [f]; PCompare f [c2] [b]]).
Proof.
  intros env a f b c1 c2. cbn [py_eval]. destruct (py_eval env a) as [va|x]; [|reflexivity].
  destruct (py_eval env f) as [vf|x]; [|reflexivity]. destruct (cmp_apply c1 va vf) as [r|x]; [|reflexivity].
  destruct (truthy r); cbn [negb]; [|reflexivity].
  destruct (py_eval env b) as [vb|x]; [|reflexivity]. destruct (cmp_apply c2 vf vb); reflexivity.
Qed.

Section RangeList.
  Variable cfg : config.
  Variable strict : bool.
  Variable atoms : list atom.

  Definition cmp_tree (a : expr) (o : string) (b : expr) : expr := EBin a [(o, b)].

  (* "k lo to hi" denotes what "(lo <= k) and (k <= hi)" denotes, for every spelling of <= and of and *)
  Theorem range_is_conjunction : forall k lo hi le le' an p,
    assoc le (bin_sem cfg) = Some (SCmp CLe) -> assoc le' (bin_sem cfg) = Some (SCmp CLe) ->
    assoc an (bin_sem cfg) = Some (SBool BAnd) ->
    compile_expr cfg strict (ERange k lo hi) = Some p ->
    denote cfg strict atoms (ERange k lo hi) =
    denote cfg strict atoms (EBin (cmp_tree (ELit lo) le (EKw k)) [(an, cmp_tree (EKw k) le' (ELit hi))]).
  Proof.
    intros k lo hi le le' an p Hle Hle' Han Hc.
    apply compile_expr_inv in Hc as Hinv. destruct Hinv as [_ [p0 [Ht [-> Hok]]]].
    cbn [to_py] in Ht. destruct (kw_py cfg k) as [pf|] eqn:Hk; [|discriminate].
    destruct (lit_py cfg lo) as [pa|] eqn:Hlo; [|discriminate]. destruct (lit_py cfg hi) as [pb|] eqn:Hhi; [|discriminate].
    injection Ht as <-. cbn [rewrite_names map compile_ok forallb] in Hok.
    assert (Hc2 : compile_expr cfg strict (EBin (cmp_tree (ELit lo) le (EKw k)) [(an, cmp_tree (EKw k) le' (ELit hi))]) =
                  Some (PBoolOp BAnd [PCompare (rewrite_names pa) [CLe] [rewrite_names pf];
                                      PCompare (rewrite_names pf) [CLe] [rewrite_names pb]])).
    { unfold compile_expr, cmp_tree. rewrite !ctor_ok_bin. cbn [ctor_rest ctor_ok chain_sem map snd forallb existsb is_lit_expr].
      rewrite Hle, Hle', Han. cbn [negb andb orb]. rewrite !to_py_bin. cbn [to_py_rest]. rewrite !to_py_bin.
      cbn [to_py_rest chain_sem to_py]. rewrite Hk, Hlo, Hhi, Hle, Hle', Han.
      cbn [rewrite_names map compile_ok forallb List.length Nat.eqb].
      repeat (apply andb_true_iff in Hok; destruct Hok as [Hok ?]).
      repeat match goal with H : _ && _ = true |- _ => apply andb_true_iff in H; destruct H end.
      repeat match goal with H : compile_ok _ = true |- _ => rewrite H end. reflexivity. }
    unfold denote. rewrite Hc, Hc2. unfold run_compiled. cbn [rewrite_names map].
    rewrite (select_py_eval_ext (attr cfg) _ _ atoms (fun a _ => chain_as_and (attr cfg a) _ _ _ CLe CLe)). reflexivity.
  Qed.
End RangeList.

Lemma or_eq_chain : forall env f fv vs, py_eval env f = Ok fv -> vs <> [] ->
  py_eval env (PBoolOp BOr (map (fun v => PCompare f [CEq] [PConst v]) vs)) = Ok (VBool (existsb (veq fv) vs)).
Proof.
  intros env f fv vs Hf Hne. cbn [py_eval]. induction vs as [|v vs IH]; [contradiction|].
  cbn [map]. cbn [py_eval]. rewrite Hf. cbn [py_eval cmp_apply]. destruct vs as [|v2 vs2].
  - cbn [map existsb]. rewrite orb_false_r. reflexivity.
  - cbn [truthy existsb]. destruct (veq fv v); [reflexivity|]. cbn [orb]. apply IH. discriminate.
Qed.

Lemma rewrite_eq_list : forall b pf ps,
  rewrite_names (PBoolOp b (map (fun pl => PCompare pf [CEq] [pl]) ps)) =
  PBoolOp b (map (fun c => PCompare (rewrite_names pf) [CEq] [c]) (map rewrite_names ps)).
Proof.
  intros b pf ps. cbn [rewrite_names]. f_equal. induction ps as [|q ps IH]; [reflexivity|]. cbn [map rewrite_names]. rewrite IH. reflexivity.
Qed.

Lemma compile_ok_eq_list : forall b f cs, compile_ok f = true -> forallb compile_ok cs = true ->
  compile_ok (PBoolOp b (map (fun c => PCompare f [CEq] [c]) cs)) = true.
Proof.
  intros b f cs Hf Hcs. cbn [compile_ok]. induction cs as [|c cs IH]; [reflexivity|]. cbn [map forallb] in *.
  apply andb_true_iff in Hcs. destruct Hcs as [Hc Hcs]. cbn [compile_ok forallb List.length Nat.eqb]. rewrite Hf, Hc. cbn [andb].
  apply IH. assumption.
Qed.

Section InList.
  Variable cfg : config.
  Variable strict : bool.
  Variable atoms : list atom.

  Definition eq_tree (k eq : string) (l : lit) : expr := EBin (EKw k) [(eq, ELit l)].

  Lemma to_py_eq_tree : forall k eq l pf pl, kw_py cfg k = Some pf -> lit_py cfg l = Some pl ->
    assoc eq (bin_sem cfg) = Some (SCmp CEq) -> to_py cfg (eq_tree k eq l) = Some (PCompare pf [CEq] [pl]).
  Proof.
    intros k eq l pf pl Hk Hl Heq. unfold eq_tree. rewrite to_py_bin. cbn [to_py_rest to_py chain_sem]. rewrite Hk, Hl, Heq. reflexivity.
  Qed.

  Lemma ctor_eq_tree : forall k eq l, assoc eq (bin_sem cfg) = Some (SCmp CEq) -> ctor_ok cfg (eq_tree k eq l) = true.
  Proof.
    intros k eq l Heq. unfold eq_tree. rewrite ctor_ok_bin. cbn [ctor_rest ctor_ok chain_sem map snd forallb is_lit_expr].
    rewrite Heq. reflexivity.
  Qed.

  Lemma eq_rest_facts : forall k eq o pf ls ps,
    kw_py cfg k = Some pf -> assoc eq (bin_sem cfg) = Some (SCmp CEq) -> map_opt (lit_py cfg) ls = Some ps ->
    to_py_rest cfg (map (fun l => (o, eq_tree k eq l)) ls) = Some (map (fun pl => PCompare pf [CEq] [pl]) ps)
    /\ ctor_rest cfg (map (fun l => (o, eq_tree k eq l)) ls) = true
    /\ existsb is_lit_expr (map snd (map (fun l => (o, eq_tree k eq l)) ls)) = false.
  Proof.
    intros k eq o pf ls. induction ls as [|l ls IH]; intros ps Hk Heq Hm.
    - cbn in Hm. injection Hm as <-. repeat split; reflexivity.
    - cbn [map_opt] in Hm. destruct (lit_py cfg l) as [pl|] eqn:Hl; [|discriminate].
      destruct (map_opt (lit_py cfg) ls) as [ps'|]; [|discriminate]. injection Hm as <-.
      destruct (IH ps' Hk Heq eq_refl) as [H1 [H2 H3]]. cbn [map to_py_rest ctor_rest snd existsb].
      rewrite (to_py_eq_tree k eq l pf pl Hk Hl Heq), (ctor_eq_tree k eq l Heq), H1, H2, H3. repeat split; reflexivity.
  Qed.

  (* "k v1 v2 ..." denotes what "(k == v1) or (k == v2) or ..." denotes, for every spelling of == and of or *)
  Theorem inlist_is_disjunction : forall k l1 l2 ls eq or p,
    assoc eq (bin_sem cfg) = Some (SCmp CEq) -> assoc or (bin_sem cfg) = Some (SBool BOr) ->
    compile_expr cfg strict (EInList k (l1 :: l2 :: ls)) = Some p ->
    denote cfg strict atoms (EInList k (l1 :: l2 :: ls)) =
    denote cfg strict atoms (EBin (eq_tree k eq l1) (map (fun l => (or, eq_tree k eq l)) (l2 :: ls))).
  Proof.
    intros k l1 l2 ls eq or p Heq Hor Hc.
    apply compile_expr_inv in Hc as Hinv. destruct Hinv as [_ [p0 [Ht [-> Hok]]]].
    cbn [to_py] in Ht. destruct (kw_py cfg k) as [pf|] eqn:Hk; [|discriminate].
    destruct (map_opt (lit_py cfg) (l1 :: l2 :: ls)) as [ps|] eqn:Hm; [|discriminate].
    assert (Hps : exists q1 q2 qs, ps = q1 :: q2 :: qs /\ lit_py cfg l1 = Some q1 /\ map_opt (lit_py cfg) (l2 :: ls) = Some (q2 :: qs)).
    { cbn [map_opt] in Hm |- *. destruct (lit_py cfg l1) as [q1|]; [|discriminate]. destruct (lit_py cfg l2) as [q2|]; [|discriminate].
      destruct (map_opt (lit_py cfg) ls) as [qs|]; [|discriminate]. injection Hm as <-. exists q1, q2, qs. repeat split; reflexivity. }
    destruct Hps as [q1 [q2 [qs [-> [Hl1 Hm2]]]]]. injection Ht as <-.
    destruct (map_opt_lits cfg _ _ Hm) as [vs [Hr Hvs]].
    destruct (eq_rest_facts k eq or pf (l2 :: ls) (q2 :: qs) Hk Heq Hm2) as [H1 [H2 H3]].
    cbn [rewrite_names compile_ok] in Hok. apply andb_true_iff in Hok. destruct Hok as [Hokf Hoks].
    assert (Hc2 : compile_expr cfg strict (EBin (eq_tree k eq l1) (map (fun l => (or, eq_tree k eq l)) (l2 :: ls))) =
                  Some (PBoolOp BOr (map (fun c => PCompare (rewrite_names pf) [CEq] [c]) (map rewrite_names (q1 :: q2 :: qs))))).
    { unfold compile_expr. rewrite ctor_ok_bin, H2, (ctor_eq_tree k eq l1 Heq).
      change (chain_sem cfg (map (fun l => (or, eq_tree k eq l)) (l2 :: ls))) with (assoc or (bin_sem cfg)).
      rewrite Hor. cbn [existsb]. rewrite H3. change (is_lit_expr (eq_tree k eq l1)) with false. cbn [negb andb orb].
      rewrite to_py_bin, (to_py_eq_tree k eq l1 pf q1 Hk Hl1 Heq), H1.
      change (chain_sem cfg (map (fun l => (or, eq_tree k eq l)) (l2 :: ls))) with (assoc or (bin_sem cfg)). rewrite Hor.
      change (PCompare pf [CEq] [q1] :: map (fun pl => PCompare pf [CEq] [pl]) (q2 :: qs))
        with (map (fun pl => PCompare pf [CEq] [pl]) (q1 :: q2 :: qs)).
      rewrite rewrite_eq_list. rewrite (compile_ok_eq_list BOr _ _ Hokf Hoks). reflexivity. }
    unfold denote. rewrite Hc, Hc2. unfold run_compiled. cbn [rewrite_names]. rewrite Hr. rewrite map_map.
    rewrite (select_py_eval_ext (attr cfg) (PInList (rewrite_names pf) (map PConst vs))
               (PBoolOp BOr (map (fun x => PCompare (rewrite_names pf) [CEq] [PConst x]) vs)) atoms); [reflexivity|].
    intros a _. destruct (kw_py_eval cfg k pf a Hk) as [f [_ [Hev _]]].
    rewrite (or_eq_chain _ _ _ vs Hev).
    - cbn [py_eval]. rewrite Hev. rewrite inlist_go. reflexivity.
    - destruct vs; [|discriminate]. cbn in Hr. discriminate.
  Qed.
End InList.

(* ------------------------------------------------------------------ canonical aliases (executable) *)
Require Import MD.Select.Run.

Lemma field_eqb_eq : forall a b, field_eqb a b = true -> a = b.
Proof. destruct a, b; try discriminate; reflexivity. Qed.
Lemma binsem_eqb_eq : forall a b, binsem_eqb a b = true -> a = b.
Proof. intros [[]|[]] [[]|[]]; try discriminate; reflexivity. Qed.

Lemma assoc_in_nodup {A} : forall (l : list (string * A)) k v, NoDup (map fst l) -> In (k, v) l -> assoc k l = Some v.
Proof.
  induction l as [|[k' v'] l IH]; intros k v Hnd Hin; [contradiction|].
  cbn [map fst] in Hnd. inversion Hnd as [|? ? Hnotin Hnd']; subst. cbn [assoc]. destruct Hin as [Heq|Hin].
  - injection Heq as -> ->. rewrite String.eqb_refl. reflexivity.
  - destruct (String.eqb k k') eqn:Hk; [|apply IH; assumption]. apply String.eqb_eq in Hk. subst.
    exfalso. apply Hnotin. apply in_map_iff. exists (k', v). split; [reflexivity|assumption].
Qed.

Definition canon {A} (eqb : A -> A -> bool) (tbl : list (string * A)) (k : string) : string :=
  match assoc k tbl with
  | Some v => match find (fun p => eqb (snd p) v) tbl with Some p => fst p | None => k end
  | None => k
  end.

Lemma canon_same {A} : forall (eqb : A -> A -> bool) tbl, (forall a b, eqb a b = true -> a = b) ->
  NoDup (map fst tbl) -> forall k, assoc (canon eqb tbl k) tbl = assoc k tbl.
Proof.
  intros eqb tbl Heqb Hnd k. unfold canon. destruct (assoc k tbl) as [v|] eqn:Hk; [|assumption].
  destruct (find (fun p => eqb (snd p) v) tbl) as [[k' v']|] eqn:Hf; [|assumption].
  apply find_some in Hf. destruct Hf as [Hin He]. cbn [snd fst] in *. apply Heqb in He. subst v'.
  apply assoc_in_nodup; assumption.
Qed.

(* the first keyword with the same attribute, the first operator spelling with the same meaning *)
Definition canon_kw (cfg : config) : string -> string := canon field_eqb (sel_kws cfg).
Definition canon_op (cfg : config) : string -> string := canon binsem_eqb (bin_sem cfg).

(* replacing every keyword and every binary operator by its canonical alias does not change what a tree denotes:
   all aliases of a keyword (resid/resi, residue/resSeq, ...) and all spellings of an operator (and/&&, or/||,
   lt/<, ...) are interchangeable *)
Theorem canonical_aliases : forall cfg, NoDup (map fst (sel_kws cfg)) -> NoDup (map fst (bin_sem cfg)) ->
  forall strict atoms e,
    denote cfg strict atoms (respell (canon_kw cfg) (canon_op cfg) e) = denote cfg strict atoms e.
Proof.
  intros cfg Hk Ho strict atoms e. apply alias_same_denotation.
  - apply canon_same; [apply field_eqb_eq|assumption].
  - apply canon_same; [apply binsem_eqb_eq|assumption].
Qed.
