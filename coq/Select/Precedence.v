(* C12 - operator precedence: what a conventional order of the levels guarantees, and that the order found in
   the code is not conventional (with the historical witnesses). *)
From Coq Require Import List String Ascii ZArith Bool Arith Lia.
Require Import MD.Select.Syntax MD.Select.Model MD.Select.Run MD.Select.ParsePrint MD.Select.Reference.
Import ListNotations.
Local Open Scope list_scope.

(* ------------------------------------------------------------------ deciding NoDup on strings *)
Fixpoint nodup_strb (l : list string) : bool :=
  match l with
  | [] => true
  | s :: r => negb (mem_str s r) && nodup_strb r
  end.

Lemma nodup_strb_sound : forall l, nodup_strb l = true -> NoDup l.
Proof.
  induction l as [|s r IH]; intros H; [constructor|]. cbn [nodup_strb] in H. apply andb_true_iff in H. destruct H as [H1 H2].
  constructor; [|apply IH; assumption]. intros Hin. apply mem_str_In in Hin. rewrite Hin in H1. discriminate.
Qed.

(* ------------------------------------------------------------------ conventional (cfg) is conventional *)
From Coq Require Import Sorted.

Lemma ranks_sorted_iff : forall l, ranks_sorted l = true <-> StronglySorted le l.
Proof.
  induction l as [|a l IH]; [split; [constructor|reflexivity]|].
  destruct l as [|b r].
  - split; [intros _; constructor; constructor|reflexivity].
  - change (ranks_sorted (a :: b :: r)) with (Nat.leb a b && ranks_sorted (b :: r)). rewrite andb_true_iff, IH. split.
    + intros [Hab Hs]. apply Nat.leb_le in Hab. constructor; [assumption|]. inversion Hs as [|? ? Hs' Hall]; subst.
      constructor; [assumption|]. rewrite Forall_forall in *. intros z Hz. specialize (Hall z Hz). lia.
    + intros Hs. inversion Hs as [|? ? Hs' Hall]; subst. split; [|assumption]. apply Nat.leb_le.
      inversion Hall; assumption.
Qed.

Lemma ss_app : forall a b x, StronglySorted le a -> StronglySorted le b ->
  (forall y, In y a -> y <= x) -> (forall y, In y b -> x <= y) -> StronglySorted le (a ++ b).
Proof.
  induction a as [|y a IH]; intros b x Ha Hb Hle Hge; [assumption|]. cbn [app].
  inversion Ha as [|? ? Ha' Hall]; subst. constructor.
  - apply (IH b x); try assumption. intros z Hz. apply Hle. right. assumption.
  - rewrite Forall_forall in *. intros z Hz. apply in_app_or in Hz. destruct Hz as [Hz|Hz]; [apply Hall; assumption|].
    transitivity x; [apply Hle; left; reflexivity|apply Hge; assumption].
Qed.

Lemma ss_const : forall (l : list nat) x, (forall y, In y l -> y = x) -> StronglySorted le l.
Proof.
  induction l as [|y l IH]; intros x H; [constructor|]. constructor.
  - apply (IH x). intros z Hz. apply H. right. assumption.
  - rewrite Forall_forall. intros z Hz. rewrite (H y (or_introl eq_refl)), (H z (or_intror Hz)). lia.
Qed.

Lemma ss_nth : forall l i j x y, StronglySorted le l -> i <= j ->
  nth_error l i = Some x -> nth_error l j = Some y -> x <= y.
Proof.
  induction l as [|a l IH]; intros i j x y Hs Hij Hi Hj; [destruct i; discriminate|].
  inversion Hs as [|? ? Hs' Hall]; subst. rewrite Forall_forall in Hall.
  destruct i as [|i'], j as [|j'].
  - injection Hi as <-. injection Hj as <-. lia.
  - injection Hi as <-. cbn in Hj. apply Hall. eapply nth_error_In; eassumption.
  - lia.
  - cbn in Hi, Hj. apply (IH i' j' x y Hs'); [lia|assumption|assumption].
Qed.

Lemma rank_of_class : forall cfg c y,
  In y (map (fun l => class_rank (level_class (conventional cfg) l)) (of_class cfg c)) -> y = class_rank c.
Proof.
  intros cfg c y H. apply in_map_iff in H. destruct H as [l [<- Hl]]. unfold of_class in Hl. apply filter_In in Hl.
  destruct Hl as [_ Hc]. assert (level_class (conventional cfg) l = level_class cfg l) by reflexivity.
  rewrite H. destruct (level_class cfg l), c; try discriminate; reflexivity.
Qed.

Theorem conventional_is_conventional : forall cfg, order_conventional (conventional cfg) = true.
Proof.
  intros cfg. unfold order_conventional. apply ranks_sorted_iff. cbn [levels conventional]. unfold conventional_levels.
  rewrite !map_app.
  set (r := fun c => map (fun l => class_rank (level_class (conventional cfg) l)) (of_class cfg c)).
  assert (Hc : forall c, StronglySorted le (r c)) by (intros c; apply (ss_const _ (class_rank c)); apply rank_of_class).
  assert (Hr : forall c y, In y (r c) -> y = class_rank c) by (intros c y; apply rank_of_class).
  change (StronglySorted le (r LUnary ++ r LCompare ++ r LAnd ++ r LOr ++ r LUnknown)).
  apply (ss_app _ _ 0); [apply Hc| |intros y Hy; rewrite (Hr _ y Hy); cbn; lia|intros; lia].
  apply (ss_app _ _ 1); [apply Hc| |intros y Hy; rewrite (Hr _ y Hy); cbn; lia|].
  2:{ intros y Hy. repeat (apply in_app_or in Hy; destruct Hy as [Hy|Hy]); rewrite (Hr _ y Hy); cbn; lia. }
  apply (ss_app _ _ 2); [apply Hc| |intros y Hy; rewrite (Hr _ y Hy); cbn; lia|].
  2:{ intros y Hy. repeat (apply in_app_or in Hy; destruct Hy as [Hy|Hy]); rewrite (Hr _ y Hy); cbn; lia. }
  apply (ss_app _ _ 3); [apply Hc|apply Hc|intros y Hy; rewrite (Hr _ y Hy); cbn; lia|].
  intros y Hy. rewrite (Hr _ y Hy). cbn. lia.
Qed.

(* ------------------------------------------------------------------ what a conventional order buys *)
Definition level_rank (cfg : config) (lv : nat) : nat :=
  match lv with
  | 0 => 0
  | S i => match nth_error (levels cfg) i with
           | Some l => class_rank (level_class cfg l)
           | None => 0
           end
  end.
Definition expr_rank (cfg : config) (e : expr) : nat := level_rank cfg (expr_level cfg e).
Definition op_rank (cfg : config) (o : string) : nat := level_rank cfg (level_of_op (levels cfg) o).

Lemma rank_lt_level_lt : forall cfg la lo, order_conventional cfg = true ->
  lo <= List.length (levels cfg) -> la <= List.length (levels cfg) ->
  level_rank cfg la < level_rank cfg lo -> la < lo.
Proof.
  intros cfg la lo Hc Hlo Hla Hr. destruct (Nat.lt_ge_cases la lo) as [|Hge]; [assumption|exfalso].
  unfold order_conventional in Hc. apply ranks_sorted_iff in Hc.
  destruct lo as [|j]; [cbn in Hr; lia|]. destruct la as [|i]; [lia|].
  cbn [level_rank] in Hr.
  destruct (nth_error (levels cfg) j) as [lj|] eqn:Hj; [|apply nth_error_None in Hj; lia].
  destruct (nth_error (levels cfg) i) as [li|] eqn:Hi; [|apply nth_error_None in Hi; lia].
  assert (class_rank (level_class cfg lj) <= class_rank (level_class cfg li)).
  { apply (ss_nth _ j i _ _ Hc); [lia| |]; rewrite nth_error_map; [rewrite Hj|rewrite Hi]; reflexivity. }
  lia.
Qed.

(* in a conventional table an operator of a looser class joins two operands of tighter classes without
   parentheses: "cmp1 and cmp2", "conj1 or conj2", "not x and y" read as expected *)
Theorem conventional_no_parens : forall cfg, NoDup (all_ops cfg) -> order_conventional cfg = true ->
  forall a b o, wf cfg a -> wf cfg b -> op_kind cfg o = Some KBinary ->
    expr_rank cfg a < op_rank cfg o -> expr_rank cfg b < op_rank cfg o ->
    parse_all cfg (print cfg a ++ TOp o :: print cfg b) = Some (EBin a [(o, b)]).
Proof.
  intros cfg Hnd Hc a b o Hwa Hwb Ho Ha Hb.
  assert (Hlo : level_of_op (levels cfg) o <= List.length (levels cfg)) by apply level_le_n.
  pose proof (rank_lt_level_lt cfg _ _ Hc Hlo (expr_level_le_n cfg a) Ha) as Hla.
  pose proof (rank_lt_level_lt cfg _ _ Hc Hlo (expr_level_le_n cfg b) Hb) as Hlb.
  assert (Hw : wf cfg (EBin a [(o, b)])) by (cbn [wf]; repeat split; try assumption; discriminate).
  pose proof (parse_print_tokens cfg Hnd _ Hw) as Hp. rewrite print_bin in Hp.
  cbn [print_rest expr_level] in Hp. unfold wrap in Hp.
  replace (Nat.leb (expr_level cfg a) (pred (level_of_op (levels cfg) o))) with true in Hp
    by (symmetry; apply Nat.leb_le; lia).
  replace (Nat.leb (expr_level cfg b) (pred (level_of_op (levels cfg) o))) with true in Hp
    by (symmetry; apply Nat.leb_le; lia).
  rewrite app_nil_r in Hp. exact Hp.
Qed.

(* ------------------------------------------------------------------ the order found in the code *)
Local Open Scope string_scope.

Definition mk (n : string) (i : Z) (sy : string) (m : Z * nat) (rn : string) (ri : Z) : atom :=
  {| a_name := n; a_index := i; a_nbonds := 0; a_symbol := sy; a_mass := m; a_resname := rn; a_resSeq := ri;
     a_resindex := ri; a_chainindex := 0; a_segid := "" |}.

(* an alanine fragment followed by a water *)
Definition demo_atoms : list atom :=
  [mk "N" 0 "N" (14006720%Z, 6) "ALA" 0; mk "CA" 1 "C" (12010780%Z, 6) "ALA" 0; mk "C" 2 "C" (12010780%Z, 6) "ALA" 0;
   mk "O" 3 "O" (15999430%Z, 6) "HOH" 1; mk "H1" 4 "H" (1007947%Z, 6) "HOH" 1].
Definition demo_protein_only : list atom := firstn 3 demo_atoms.

Lemma ref_ops_nodup : NoDup (all_ops ref_cfg).
Proof. apply nodup_strb_sound. vm_compute. reflexivity. Qed.

Lemma conv_ref_ops_nodup : NoDup (all_ops (conventional ref_cfg)).
Proof. apply nodup_strb_sound. vm_compute. reflexivity. Qed.

(* the comparisons used by the witnesses *)
Definition cmp_name_rx : expr := ERx "=~" (EKw "name") (ELit (LStr "C.*")).
Definition cmp_mass_lt : expr := EBin (EKw "mass") [("lt", ELit (LNum "5"))].
Definition cmp_mass_gt : expr := EBin (EKw "mass") [("gt", ELit (LNum "0.5"))].

(* As found: the order is not conventional, "cmp and cmp" without parentheses is not the conjunction of the
   comparisons, and the two historical strings misbehave; under the conventional order of the same
   operators both are read as intended. *)
Theorem precedence_as_found_refuted :
  order_conventional ref_cfg = false /\
  parse_all ref_cfg (print ref_cfg cmp_mass_lt ++ TOp "and" :: print ref_cfg cmp_mass_gt)
    <> Some (EBin cmp_mass_lt [("and", cmp_mass_gt)]) /\
  select_str ref_cfg false demo_atoms "protein and name =~ 'C.*'" = EvalErr TypeErr /\
  select_str ref_cfg false demo_protein_only "protein and name =~ 'C.*'" = Sel [1%Z; 2%Z] /\
  select_str ref_cfg false demo_atoms "mass lt 5 and mass gt 0.5" = Rejected /\
  select_str (conventional ref_cfg) false demo_atoms "protein and name =~ 'C.*'" = Sel [1%Z; 2%Z] /\
  select_str (conventional ref_cfg) false demo_atoms "mass lt 5 and mass gt 0.5" = Sel [4%Z].
Proof. vm_compute. repeat split; try reflexivity. discriminate. Qed.

(* the single-literal test as found lets the numbers 0 and 1 through; the repaired test does not *)
Theorem single_literal_as_found_refuted :
  select_str ref_cfg false demo_atoms "1" = Sel [0%Z; 1%Z; 2%Z; 3%Z; 4%Z] /\
  select_str ref_cfg false demo_atoms "0" = Sel [] /\
  select_str ref_cfg false demo_atoms "2" = Rejected /\
  select_str ref_cfg true demo_atoms "1" = Rejected /\ select_str ref_cfg true demo_atoms "0" = Rejected.
Proof. vm_compute. repeat split; reflexivity. Qed.
