(* C12 - kinds of Python values and the static check [type_of] on compiled predicates (definitions only; soundness
   in Typing.v). *)
From Coq Require Import List String Ascii ZArith Bool.
Require Import MD.Select.Syntax MD.Select.Model.
Import ListNotations.

(* kinds of Python values as far as errors are concerned: bool and numbers order among themselves, str among
   themselves, None with nothing *)
Inductive ty := KNum | KStr | KNone | KStrNone | KAny.

Definition ty_eqb (a b : ty) : bool :=
  match a, b with KNum, KNum | KStr, KStr | KNone, KNone | KStrNone, KStrNone | KAny, KAny => true | _, _ => false end.

Definition has_ty (v : value) (t : ty) : Prop :=
  match t, v with
  | KAny, _ => True
  | KNum, VBool _ | KNum, VNum _ _ => True
  | KStr, VStr _ => True
  | KNone, VNone => True
  | KStrNone, VStr _ | KStrNone, VNone => True
  | _, _ => False
  end.

Definition value_ty (v : value) : ty :=
  match v with VBool _ | VNum _ _ => KNum | VStr _ => KStr | VNone => KNone end.

Definition field_ty (f : field) : ty :=
  match f with
  | FTrue | FFalse | FIsBackbone | FIsSidechain | FResIsProtein | FResIsWater => KNum
  | FResCode => KStrNone
  | FName | FResName | FSegmentId | FElemSymbol => KStr
  | FIndex | FNBonds | FResSeq | FResIndex | FChainIndex | FElemMass => KNum
  end.

Definition join (a b : ty) : ty :=
  if ty_eqb a b then a
  else match a, b with
       | KStr, KNone | KNone, KStr | KStr, KStrNone | KStrNone, KStr | KNone, KStrNone | KStrNone, KNone => KStrNone
       | _, _ => KAny
       end.

Definition ord_ok (a b : ty) : bool :=
  match a, b with KNum, KNum | KStr, KStr => true | _, _ => false end.

Definition is_ordering (c : cmpop) : bool := match c with CEq | CNe => false | _ => true end.

Fixpoint type_of (p : pyexpr) : option ty :=
  match p with
  | PName _ => None
  | PConst v => Some (value_ty v)
  | PAttr f => Some (field_ty f)
  | PNot a => match type_of a with Some _ => Some KNum | None => None end
  | PBoolOp _ es =>
      (fix go (es : list pyexpr) : option ty :=
         match es with
         | [] => Some KNum
         | a :: r => match type_of a with
                     | None => None
                     | Some t => match r with
                                 | [] => Some t
                                 | _ => match go r with Some t' => Some (join t t') | None => None end
                                 end
                     end
         end) es
  | PCompare l ops cs =>
      match type_of l with
      | None => None
      | Some tl =>
          (fix chain (tl : ty) (ops : list cmpop) (cs : list pyexpr) {struct cs} : option ty :=
             match ops, cs with
             | o :: ops', c :: cs' =>
                 match type_of c with
                 | None => None
                 | Some tc => if is_ordering o && negb (ord_ok tl tc) then None else chain tc ops' cs'
                 end
             | _, _ => Some KNum
             end) tl ops cs
      end
  | PInList l es =>
      match type_of l with
      | None => None
      | Some _ => if forallb (fun e => match type_of e with Some _ => true | None => false end) es then Some KNum else None
      end
  | PReMatch a b =>
      match type_of a, type_of b with
      | Some KStr, Some KStr => Some KNum
      | _, _ => None
      end
  end.

Definition well_typed (p : pyexpr) : bool := match type_of p with Some _ => true | None => false end.
