(* C12 - independent evaluation of the Python source returned by Topology.select_expression (definitions only).

   The harness parses the source string "[atom.index for atom in topology.atoms if <cond>]" with Python's ast
   module, checks the comprehension frame literally and converts <cond> node by node (failing closed on every
   node shape not listed in Syntax.pyexpr) into a [pyexpr] term.  Here that term is evaluated with the model's
   Python semantics ([py_eval], through [run_compiled]) on the atoms of the topology and compared with what
   Topology.select returned; it is also compared, as a term, with the predicate the model compiles from the
   selection string (informational: a different but equivalent source is not a failure). *)
From Coq Require Import List String Ascii ZArith Bool Arith.
Require Import MD.Select.Syntax MD.Select.Model MD.Select.Run.
Import ListNotations.

Definition boolop_eqb (a b : boolop) : bool :=
  match a, b with BAnd, BAnd | BOr, BOr => true | _, _ => false end.

(* constants: numbers by value (the source prints 2. as 2.0) *)
Definition const_eqb (v w : value) : bool :=
  match v, w with
  | VNum m e, VNum m' e' => match num_compare (m, e) (m', e') with Eq => true | _ => false end
  | _, _ => value_eqb v w
  end.

Fixpoint pyexpr_eqb (a b : pyexpr) {struct a} : bool :=
  let fix go (xs ys : list pyexpr) {struct xs} : bool :=
    match xs, ys with
    | [], [] => true
    | x :: xs', y :: ys' => pyexpr_eqb x y && go xs' ys'
    | _, _ => false
    end in
  match a, b with
  | PName x, PName y => String.eqb x y
  | PConst v, PConst w => const_eqb v w
  | PAttr f, PAttr g => field_eqb f g
  | PNot x, PNot y => pyexpr_eqb x y
  | PBoolOp o xs, PBoolOp o' ys => boolop_eqb o o' && go xs ys
  | PCompare l ops cs, PCompare l' ops' cs' => pyexpr_eqb l l' && list_eqb cmpop_eqb ops ops' && go cs cs'
  | PInList l es, PInList l' es' => pyexpr_eqb l l' && go es es'
  | PReMatch p s, PReMatch p' s' => pyexpr_eqb p p' && pyexpr_eqb s s'
  | _, _ => false
  end.

(* code: 1 = the source, evaluated by the model's Python semantics on the atoms, does not give what Topology.select
   returned; 2 = the source is not, term by term, the predicate the model compiles from the string (as-found
   single-literal test); 8 = the model has no answer (regular expression outside the modelled subset) *)
Definition src_case_code (cfg : config) (topos : list (list atom)) (c : nat * string * pyexpr * outcome) : nat :=
  let '(ti, s, p, impl) := c in
  let o := run_compiled cfg (nth_topo topos ti) (Some p) in
  (if out_of_model o then 8 else if outcome_eqb o impl then 0 else 1)
  + match lex cfg s with
    | Some ts => match compile_tokens cfg false ts with
                 | Some q => if pyexpr_eqb q p then 0 else 2
                 | None => 2
                 end
    | None => 0
    end.

Definition src_codes (cfg : config) (topos : list (list atom)) (cases : list (nat * (nat * string * pyexpr * outcome)))
  : list (nat * nat) :=
  filter (fun p => negb (Nat.eqb (snd p) 0)) (map (fun c => (fst c, src_case_code cfg topos (snd c))) cases).
