(* C12 - definitions used by the correspondence run and by the precedence statements (no proofs). *)
From Coq Require Import List String Ascii ZArith Bool Arith.
Require Import MD.Select.Syntax MD.Select.Model MD.Select.Types.
Import ListNotations.
Local Open Scope string_scope.

Definition err_eqb (a b : err) : bool :=
  match a, b with TypeErr, TypeErr => true | OutOfModel, OutOfModel => true | _, _ => false end.

Fixpoint zlist_eqb (a b : list Z) : bool :=
  match a, b with
  | [], [] => true
  | x :: a', y :: b' => Z.eqb x y && zlist_eqb a' b'
  | _, _ => false
  end.

Definition outcome_eqb (a b : outcome) : bool :=
  match a, b with
  | Sel l, Sel m => zlist_eqb l m
  | Rejected, Rejected => true
  | EvalErr x, EvalErr y => err_eqb x y
  | OutOfDomain, OutOfDomain => true
  | _, _ => false
  end.

(* ---- conventional operator order: unary > comparisons and =~ > and > or (relative source order kept
   inside each class) *)
Inductive lclass := LUnary | LCompare | LAnd | LOr | LUnknown.
Definition lclass_eqb (a b : lclass) : bool :=
  match a, b with
  | LUnary, LUnary | LCompare, LCompare | LAnd, LAnd | LOr, LOr | LUnknown, LUnknown => true
  | _, _ => false
  end.

Definition level_class (cfg : config) (l : level) : lclass :=
  match lv_kind l with
  | KUnary => LUnary
  | KRegex => LCompare
  | KBinary =>
      match lv_ops l with
      | o :: _ => match assoc o (bin_sem cfg) with
                  | Some (SCmp _) => LCompare
                  | Some (SBool BAnd) => LAnd
                  | Some (SBool BOr) => LOr
                  | None => LUnknown
                  end
      | [] => LUnknown
      end
  end.

Definition class_rank (c : lclass) : nat :=
  match c with LUnary => 0 | LCompare => 1 | LAnd => 2 | LOr => 3 | LUnknown => 4 end.

Definition of_class (cfg : config) (c : lclass) : list level :=
  filter (fun l => lclass_eqb (level_class cfg l) c) (levels cfg).

Definition conventional_levels (cfg : config) : list level :=
  of_class cfg LUnary ++ of_class cfg LCompare ++ of_class cfg LAnd ++ of_class cfg LOr ++ of_class cfg LUnknown.

Definition conventional (cfg : config) : config :=
  {| sel_kws := sel_kws cfg; levels := conventional_levels cfg; bin_sem := bin_sem cfg;
     py_kwlist := py_kwlist cfg; amino_codes := amino_codes cfg; water_names := water_names cfg |}.

(* the order of the levels is conventional: class ranks never decrease from tightest to loosest *)
Fixpoint ranks_sorted (l : list nat) : bool :=
  match l with
  | a :: ((b :: _) as r) => Nat.leb a b && ranks_sorted r
  | _ => true
  end.
Definition order_conventional (cfg : config) : bool :=
  ranks_sorted (map (fun l => class_rank (level_class cfg l)) (levels cfg)).

(* ---- correspondence entry points *)
Definition nth_topo (topos : list (list atom)) (i : nat) : list atom := nth i topos [].

(* code: 64 = the compiled predicate passes the static check (can never raise TypeError); 32 = the as-found model rejects the string; 1 = differs from the as-found model, 2 = differs from the model with the repaired single-literal
   test, 4 = differs from both under the conventional operator order, 8 = the model has no answer
   (string or pattern outside the modelled domain) *)
Definition out_of_model (o : outcome) : bool :=
  match o with OutOfDomain => true | EvalErr OutOfModel => true | _ => false end.

(* both single-literal variants at once: they can differ only when the parse tree is a single literal
   (Proofs.select_pair_correct: this is exactly (select_tokens false, select_tokens true)) *)
Definition select_pair (cfg : config) (atoms : list atom) (ts : list token) : outcome * outcome :=
  let oe := parse_all cfg ts in
  match oe with
  | Some (ELit _) => (run_compiled cfg atoms (compile_parsed cfg false oe), run_compiled cfg atoms (compile_parsed cfg true oe))
  | _ => let o := run_compiled cfg atoms (compile_parsed cfg false oe) in (o, o)
  end.

(* the static check on the as-found compilation of a token list *)
Definition tokens_well_typed (cfg : config) (ts : list token) : bool :=
  match compile_tokens cfg false ts with Some p => well_typed p | None => false end.

(* select_pair plus the static check, sharing the parse and the compilation
   (Proofs.select_pair_t_correct: = (select_pair, tokens_well_typed)) *)
Definition select_pair_t (cfg : config) (atoms : list atom) (ts : list token) : outcome * outcome * bool :=
  let oe := parse_all cfg ts in
  let p := compile_parsed cfg false oe in
  let wt := match p with Some q => well_typed q | None => false end in
  match oe with
  | Some (ELit _) => (run_compiled cfg atoms p, run_compiled cfg atoms (compile_parsed cfg true oe), wt)
  | _ => let o := run_compiled cfg atoms p in (o, o, wt)
  end.

Definition case_code (cfg : config) (topos : list (list atom)) (c : nat * string * outcome) : nat :=
  let '(ti, s, impl) := c in
  let atoms := nth_topo topos ti in
  let cc := conventional cfg in
  match lex cfg s, lex cc s with
  | Some ts, Some ts' =>
      let '(a, b, wt) := select_pair_t cfg atoms ts in
      let '(c1, c2) := select_pair cc atoms ts' in
      (if outcome_eqb a impl then 0 else 1) + (if outcome_eqb b impl then 0 else 2)
      + (if outcome_eqb c1 impl || outcome_eqb c2 impl then 0 else 4)
      + (if out_of_model a || out_of_model c1 then 8 else 0)
      + (match a with Rejected => 32 | _ => 0 end)
      + (match a with Rejected => 0 | _ => if wt then 64 else 0 end)
  | _, _ => 15
  end.

Definition codes (cfg : config) (topos : list (list atom)) (cases : list (nat * (nat * string * outcome)))
  : list (nat * nat) :=
  filter (fun p => negb (Nat.eqb (snd p) 0)) (map (fun c => (fst c, case_code cfg topos (snd c))) cases).

(* derived attributes of an atom as the model computes them: (is_backbone, is_sidechain, is_protein, is_water, code) *)
Definition derived (cfg : config) (a : atom) : list value :=
  [attr cfg a FIsBackbone; attr cfg a FIsSidechain; attr cfg a FResIsProtein; attr cfg a FResIsWater; attr cfg a FResCode].

Definition value_eqb (v w : value) : bool :=
  match v, w with
  | VBool a, VBool b => Bool.eqb a b
  | VNum m e, VNum m' e' => Z.eqb m m' && Nat.eqb e e'
  | VStr s, VStr t => String.eqb s t
  | VNone, VNone => true
  | _, _ => false
  end.
Fixpoint vlist_eqb (a b : list value) : bool :=
  match a, b with
  | [], [] => true
  | x :: a', y :: b' => value_eqb x y && vlist_eqb a' b'
  | _, _ => false
  end.
Fixpoint vll_eqb (a b : list (list value)) : bool :=
  match a, b with
  | [], [] => true
  | x :: a', y :: b' => vlist_eqb x y && vll_eqb a' b'
  | _, _ => false
  end.

(* ---- the documented meaning of the keywords and operators (docs/atom_selection.rst), as a table check:
   every documented spelling must be present with its documented meaning; additional aliases are allowed *)
Require Import MD.Select.Reference MD.Select.ResidueReference.

Definition field_eqb (a b : field) : bool :=
  match a, b with
  | FTrue, FTrue | FFalse, FFalse | FIsBackbone, FIsBackbone | FIsSidechain, FIsSidechain
  | FResIsProtein, FResIsProtein | FResCode, FResCode | FResIsWater, FResIsWater | FName, FName | FIndex, FIndex
  | FNBonds, FNBonds | FResSeq, FResSeq | FResName, FResName | FResIndex, FResIndex | FSegmentId, FSegmentId
  | FChainIndex, FChainIndex | FElemSymbol, FElemSymbol | FElemMass, FElemMass => true
  | _, _ => false
  end.
Definition cmpop_eqb (a b : cmpop) : bool :=
  match a, b with
  | CLt, CLt | CEq, CEq | CLe, CLe | CNe, CNe | CGe, CGe | CGt, CGt => true
  | _, _ => false
  end.
Definition binsem_eqb (a b : binsem) : bool :=
  match a, b with
  | SBool BAnd, SBool BAnd | SBool BOr, SBool BOr => true
  | SCmp x, SCmp y => cmpop_eqb x y
  | _, _ => false
  end.

Definition opt_str_eqb (a b : option string) : bool :=
  match a, b with
  | Some x, Some y => String.eqb x y
  | None, None => true
  | _, _ => false
  end.

(* every documented water name is a water name, every reference protein residue is one with the same one-letter
   code (entries may be added, never lost or changed) *)
Definition residues_documented (cfg : config) : bool :=
  forallb (fun w => mem_str w (water_names cfg)) ref_water_names
  && forallb (fun p => match assoc (fst p) (amino_codes cfg) with Some c => opt_str_eqb c (snd p) | None => false end)
       ref_amino_codes.

Definition documented_meaning (cfg : config) : bool :=
  forallb (fun p => match assoc (fst p) (sel_kws cfg) with Some f => field_eqb f (snd p) | None => false end) ref_sel_kws
  && forallb (fun p => match assoc (fst p) (bin_sem cfg) with Some b => binsem_eqb b (snd p) | None => false end) ref_bin_sem
  && forallb (fun o => mem_str o (flat_map (fun l => match lv_kind l with KUnary => lv_ops l | _ => [] end) (levels cfg)))
       ["!"; "not "]
  && forallb (fun o => mem_str o (flat_map (fun l => match lv_kind l with KRegex => lv_ops l | _ => [] end) (levels cfg)))
       ["=~"]
  && forallb (fun p => mem_str (fst p) (flat_map (fun l => match lv_kind l with KBinary => lv_ops l | _ => [] end) (levels cfg)))
       ref_bin_sem
  && residues_documented cfg.

(* the tables of a configuration are literally the as-found reference tables *)
Fixpoint list_eqb {A} (eqb : A -> A -> bool) (a b : list A) : bool :=
  match a, b with
  | [], [] => true
  | x :: a', y :: b' => eqb x y && list_eqb eqb a' b'
  | _, _ => false
  end.
Definition kind_eqb (a b : kind) : bool :=
  match a, b with KUnary, KUnary | KBinary, KBinary | KRegex, KRegex => true | _, _ => false end.
Definition level_eqb (a b : level) : bool :=
  kind_eqb (lv_kind a) (lv_kind b) && list_eqb String.eqb (lv_ops a) (lv_ops b).
Definition tables_as_found (cfg : config) : bool :=
  list_eqb (fun p q => String.eqb (fst p) (fst q) && field_eqb (snd p) (snd q)) (sel_kws cfg) ref_sel_kws
  && list_eqb level_eqb (levels cfg) ref_levels
  && list_eqb (fun p q => String.eqb (fst p) (fst q) && binsem_eqb (snd p) (snd q)) (bin_sem cfg) ref_bin_sem
  && residues_documented cfg.

Definition levels_as_found (cfg : config) : bool := list_eqb level_eqb (levels cfg) ref_levels.

(* the configuration "as documented": reference keyword and operator MEANINGS and reference residue tables; the level
   structure (which is not documented) of cfg *)
Definition documented (cfg : config) : config :=
  {| sel_kws := ref_sel_kws; levels := levels cfg; bin_sem := ref_bin_sem; py_kwlist := py_kwlist cfg;
     amino_codes := ref_amino_codes; water_names := ref_water_names |}.

(* code 16: differs from the documented tables under both operator orders and both single-literal tests *)
Definition doc_code (cfg : config) (topos : list (list atom)) (c : nat * string * outcome) : nat :=
  let '(ti, s, impl) := c in
  let atoms := nth_topo topos ti in
  let d := documented cfg in
  let dc := conventional d in
  if outcome_eqb (select_str d false atoms s) impl || outcome_eqb (select_str d true atoms s) impl
     || outcome_eqb (select_str dc false atoms s) impl || outcome_eqb (select_str dc true atoms s) impl
  then 0 else 16.

Definition doc_codes (cfg : config) (topos : list (list atom)) (cases : list (nat * (nat * string * outcome)))
  : list (nat * nat) :=
  filter (fun p => negb (Nat.eqb (snd p) 0)) (map (fun c => (fst c, doc_code cfg topos (snd c))) cases).
