(* C12 - selection language of mdtraj/core/selection.py: shared types (no proofs).
   The grammar DATA (keyword tables, operator levels in the order the code hands them to
   infixNotation, residue-name tables) lives in a [config]; the generated instance is
   Gen/SelectTables.v, the hand-kept as-found copy is Select/Reference.v. *)
From Coq Require Import List String Ascii ZArith Bool.
Import ListNotations.

(* attribute chains over [atom] that SelectionKeyword.keyword_aliases may denote *)
Inductive field :=
| FTrue | FFalse                       (* ast.Name True / False *)
| FIsBackbone | FIsSidechain           (* atom.is_backbone / atom.is_sidechain *)
| FResIsProtein | FResCode | FResIsWater
| FName | FIndex | FNBonds
| FResSeq | FResName | FResIndex
| FSegmentId | FChainIndex
| FElemSymbol | FElemMass.

Inductive cmpop := CLt | CEq | CLe | CNe | CGe | CGt.
Inductive boolop := BAnd | BOr.
Inductive binsem := SBool (b : boolop) | SCmp (c : cmpop).

(* one precedence level of infixNotation: the class that is its parse action and the operator
   spellings it accepts (today exactly one spelling per level) *)
Inductive kind := KUnary | KBinary | KRegex.
Record level := { lv_kind : kind; lv_ops : list string }.

Record config := {
  sel_kws : list (string * field);      (* SelectionKeyword.keyword_aliases *)
  levels : list level;                  (* tightest first = order of the list given to infixNotation *)
  bin_sem : list (string * binsem);     (* BinaryInfixOperand.keyword_aliases *)
  py_kwlist : list string;              (* keyword.kwlist of the interpreter: bare words ast.parse refuses *)
  amino_codes : list (string * option string);  (* residue_names._AMINO_ACID_CODES; its keys = _PROTEIN_RESIDUES *)
  water_names : list string;            (* residue_names._WATER_RESIDUES *)
}.

(* tokens: the model works on strings whose word tokens are delimited (see Model.lex) *)
Inductive token :=
| TLP | TRP
| TOp (s : string)       (* an operator spelling of some level *)
| TWord (s : string)     (* Word(alphas, alphanums) or a selection keyword *)
| TNum (s : string)      (* Word(NUMS) *)
| TStr (s : string)      (* quotedString, content only *)
| TBad.                  (* a character no grammar element consumes *)

Inductive lit := LWord (s : string) | LNum (s : string) | LStr (s : string).

(* parse tree = the objects of the token classes (SelectionKeyword, Literal, RangeCondition,
   InListCondition, UnaryInfixOperand, BinaryInfixOperand, RegexInfixOperand); parentheses are
   transparent (Suppress) *)
Inductive expr :=
| EKw (k : string)
| ELit (l : lit)
| ERange (k : string) (lo hi : lit)
| EInList (k : string) (ls : list lit)
| EUn (op : string) (e : expr)
| EBin (e0 : expr) (rest : list (string * expr))   (* tokens [e0, op1, e1, op2, e2, ...] *)
| ERx (op : string) (s p : expr).

(* Python values that occur *)
Inductive value :=
| VBool (b : bool)
| VNum (m : Z) (e : nat)     (* the number m / 10^e  (int or float; Python compares them exactly) *)
| VStr (s : string)
| VNone.

(* the Python AST the token classes emit (only the node shapes selection.py builds) *)
Inductive pyexpr :=
| PName (id : string)
| PConst (v : value)
| PAttr (f : field)
| PNot (e : pyexpr)
| PBoolOp (b : boolop) (es : list pyexpr)
| PCompare (left : pyexpr) (ops : list cmpop) (comps : list pyexpr)
| PInList (left : pyexpr) (elems : list pyexpr)        (* Compare(left, [In], [List(elems)]) *)
| PReMatch (pat str : pyexpr).                         (* re.match(pat, str) is not None *)

(* atoms: the primitive data of a Topology atom *)
Record atom := {
  a_name : string; a_index : Z; a_nbonds : Z;
  a_symbol : string; a_mass : Z * nat;
  a_resname : string; a_resSeq : Z; a_resindex : Z;
  a_chainindex : Z; a_segid : string }.

Inductive err := TypeErr | OutOfModel.
Inductive res (A : Type) := Ok (a : A) | Err (e : err).
Arguments Ok {A} a.
Arguments Err {A} e.

Inductive outcome :=
| Sel (l : list Z)        (* Topology.select returned these indices *)
| Rejected                (* parse_selection raised *)
| EvalErr (e : err)       (* the compiled predicate raised on some atom *)
| OutOfDomain.            (* string outside the modelled alphabet / token discipline *)
