(* C12 - the lexer reads back what the layout writer wrote: for every table the lexer can work with and every
   layout of tokens of its domain, lex (render layout) = the tokens.  Composed with parse_print this is the
   string-level round trip. *)
From Coq Require Import List String Ascii Arith Bool Lia.
Require Import MD.Select.Syntax MD.Select.Regex MD.Select.Model MD.Select.Layout MD.Select.ParsePrint.
Import ListNotations.
Local Open Scope list_scope.

(* ------------------------------------------------------------------ character facts (256 cases each) *)
Ltac ascii_brute :=
  let c := fresh "c" in
  intros c; destruct c as [b0 b1 b2 b3 b4 b5 b6 b7];
  destruct b0, b1, b2, b3, b4, b5, b6, b7; vm_compute; intros; repeat split; try reflexivity; try discriminate.

Lemma alpha_facts : forall c, is_alpha c = true ->
  Ascii.eqb c blank = false /\ Ascii.eqb c "("%char = false /\ Ascii.eqb c ")"%char = false /\
  is_quote c = false /\ is_nums c = false /\ is_wordc c = true.
Proof. ascii_brute. Qed.

Lemma nums_facts : forall c, is_nums c = true ->
  Ascii.eqb c blank = false /\ Ascii.eqb c "("%char = false /\ Ascii.eqb c ")"%char = false /\
  is_quote c = false /\ is_alpha c = false.
Proof. ascii_brute. Qed.

Lemma alnum_wordc : forall c, is_alnum_c c = true -> is_wordc c = true /\ Ascii.eqb "_"%char c = false.
Proof. ascii_brute. Qed.

Lemma sym_start_facts : forall c, sym_start c = true ->
  Ascii.eqb c blank = false /\ Ascii.eqb c "("%char = false /\ Ascii.eqb c ")"%char = false /\
  is_quote c = false /\ is_nums c = false /\ is_alpha c = false /\ printable c = true.
Proof. ascii_brute. Qed.

Lemma wordc_not_blank : forall c, is_wordc c = true -> Ascii.eqb c blank = false.
Proof. ascii_brute. Qed.

(* ------------------------------------------------------------------ lists and strings *)
Lemma span_app : forall (p : ascii -> bool) l rest,
  forallb p l = true -> match rest with c :: _ => p c = false | [] => True end ->
  span p (l ++ rest) = (l, rest).
Proof.
  intros p. induction l as [|a l IH]; intros rest Hl Hr.
  - cbn [app]. destruct rest as [|c r]; [reflexivity|]. cbn [span]. rewrite Hr. reflexivity.
  - cbn [forallb] in Hl. apply andb_true_iff in Hl. destruct Hl as [Ha Hl]. cbn [app span]. rewrite Ha.
    rewrite (IH rest Hl Hr). reflexivity.
Qed.

Lemma str_chars : forall s, string_of_list_ascii (chars s) = s.
Proof. intros. apply string_of_list_ascii_of_string. Qed.

Lemma chars_str : forall l, chars (string_of_list_ascii l) = l.
Proof. intros. apply list_ascii_of_string_of_list_ascii. Qed.

Lemma chars_length : forall s, List.length (chars s) = String.length s.
Proof. induction s; [reflexivity|]. cbn. f_equal. assumption. Qed.

Lemma is_prefix_app : forall p rest, is_prefix p (p ++ rest) = true.
Proof. induction p as [|a p IH]; intros rest; [reflexivity|]. cbn. rewrite Ascii.eqb_refl. apply IH. Qed.

Lemma is_prefix_length : forall p cs, is_prefix p cs = true -> List.length p <= List.length cs.
Proof.
  induction p as [|a p IH]; intros cs H; [cbn; lia|]. destruct cs as [|c cs]; [discriminate|].
  cbn in H. apply andb_true_iff in H. destruct H as [_ H]. cbn. apply IH in H. lia.
Qed.

Lemma is_prefix_same_length : forall p q cs, is_prefix p cs = true -> is_prefix q cs = true ->
  List.length p = List.length q -> p = q.
Proof.
  induction p as [|a p IH]; intros q cs Hp Hq Hl.
  - destruct q; [reflexivity|discriminate].
  - destruct q as [|b q]; [discriminate|]. destruct cs as [|c cs]; [discriminate|].
    cbn in Hp, Hq. apply andb_true_iff in Hp. apply andb_true_iff in Hq. destruct Hp as [Ha Hp], Hq as [Hb Hq].
    apply Ascii.eqb_eq in Ha. apply Ascii.eqb_eq in Hb. subst. f_equal. apply (IH q cs); try assumption.
    cbn in Hl. lia.
Qed.

(* a prefix of (o ++ c :: rest) longer than o has c at position |o| *)
Lemma is_prefix_longer : forall o p c rest, is_prefix p (o ++ c :: rest) = true ->
  List.length o < List.length p -> In c p.
Proof.
  induction o as [|a o IH]; intros p c rest H Hl.
  - destruct p as [|b p]; [cbn in Hl; lia|]. cbn in H. apply andb_true_iff in H. destruct H as [Hb _].
    apply Ascii.eqb_eq in Hb. subst. left. reflexivity.
  - destruct p as [|b p]; [cbn in Hl; lia|]. cbn in H. apply andb_true_iff in H. destruct H as [_ H].
    right. apply (IH p c rest H). cbn in Hl. lia.
Qed.

Lemma skipn_app_exact {A} : forall (l r : list A), skipn (List.length l) (l ++ r) = r.
Proof. induction l; intros; [reflexivity|]. cbn. apply IHl. Qed.

(* ------------------------------------------------------------------ the longest symbolic operator *)
Lemma chars_inj : forall a b, chars a = chars b -> a = b.
Proof. intros a b H. rewrite <- (str_chars a), <- (str_chars b), H. reflexivity. Qed.

Lemma longest_sym_spec : forall ops cs o,
  In o ops -> is_prefix (chars o) cs = true ->
  (forall o', In o' ops -> is_prefix (chars o') cs = true -> String.length o' <= String.length o) ->
  longest_sym ops cs = Some o.
Proof.
  intros ops cs o Hin Hpre Hbound. unfold longest_sym.
  set (step := fun (best : option string) (o0 : string) =>
         if is_prefix (list_ascii_of_string o0) cs
         then match best with
              | Some b => if Nat.ltb (String.length b) (String.length o0) then Some o0 else best
              | None => Some o0
              end
         else best).
  assert (G : forall l best,
    (forall o', In o' l -> In o' ops) ->
    (In o l \/ best = Some o) ->
    match best with None => True | Some b => is_prefix (chars b) cs = true /\ String.length b <= String.length o end ->
    fold_left step l best = Some o).
  { induction l as [|o' r IH]; intros best Hsub Hor Hok.
    - cbn. destruct Hor as [Hf|Hb]; [destruct Hf|]. assumption.
    - cbn [fold_left]. apply IH.
      + intros x Hx. apply Hsub. right. assumption.
      + destruct (string_dec o' o) as [->|Hne].
        * right. unfold step. fold (chars o). rewrite Hpre. destruct best as [b|]; [|reflexivity].
          destruct Hok as [Hb Hlb]. destruct (Nat.ltb (String.length b) (String.length o)) eqn:Hlt; [reflexivity|].
          apply Nat.ltb_ge in Hlt. f_equal. apply chars_inj. apply (is_prefix_same_length _ _ cs Hb Hpre).
          rewrite !chars_length. lia.
        * destruct Hor as [[Heq|Hr]|Hb]; [congruence|left; assumption|]. subst best. right. unfold step. fold (chars o').
          destruct (is_prefix (chars o') cs) eqn:Hp'; [|reflexivity].
          assert (String.length o' <= String.length o) by (apply Hbound; [apply Hsub; left; reflexivity|assumption]).
          destruct (Nat.ltb (String.length o) (String.length o')) eqn:Hlt; [apply Nat.ltb_lt in Hlt; lia|reflexivity].
      + unfold step. fold (chars o'). destruct (is_prefix (chars o') cs) eqn:Hp'; [|assumption].
        assert (String.length o' <= String.length o) by (apply Hbound; [apply Hsub; left; reflexivity|assumption]).
        destruct best as [b|]; [|split; assumption]. destruct Hok as [Hb Hlb].
        destruct (Nat.ltb (String.length b) (String.length o')); split; assumption. }
  apply G; [intros; assumption|left; assumption|exact I].
Qed.

(* ------------------------------------------------------------------ one step of the lexer *)
Definition cont (cfg : config) (f : nat) (rest : list ascii) (t : token) : option (list token) :=
  match lex_go cfg f rest with Some ts => Some (t :: ts) | None => None end.

Lemma lex_blanks : forall cfg n f cs, n <= f -> lex_go cfg f (repeat blank n ++ cs) = lex_go cfg (f - n) cs.
Proof.
  intros cfg. induction n as [|n IH]; intros f cs Hle.
  - cbn. rewrite Nat.sub_0_r. reflexivity.
  - destruct f as [|f]; [lia|]. cbn [repeat app lex_go]. rewrite Ascii.eqb_refl. rewrite IH by lia. reflexivity.
Qed.

Lemma unescape_plain : forall cs, forallb (fun x => negb (is_backslash x)) cs = true -> unescape cs = Some cs.
Proof.
  induction cs as [|c r IH]; intros H; [reflexivity|]. cbn [forallb] in H. apply andb_true_iff in H. destruct H as [Hc Hr].
  cbn [unescape]. apply negb_true_iff in Hc. rewrite Hc, (IH Hr). reflexivity.
Qed.

Section Tok.
  Variable cfg : config.
  Hypothesis Hcfg : lexcfg_ok cfg = true.

  Definition after_ok (t : token) (rest : list ascii) : Prop :=
    match rest with c :: _ => follows_ok cfg t c = true | [] => ends_ok cfg t = true end.

  Lemma lex_paren_l : forall f rest, lex_go cfg (S f) ("("%char :: rest) = cont cfg f rest TLP.
  Proof. reflexivity. Qed.
  Lemma lex_paren_r : forall f rest, lex_go cfg (S f) (")"%char :: rest) = cont cfg f rest TRP.
  Proof. reflexivity. Qed.

  Lemma lex_str : forall s f rest, tok_ok cfg (TStr s) = true -> after_ok (TStr s) rest ->
    lex_go cfg (S f) (tok_text cfg (TStr s) ++ rest) = cont cfg f rest (TStr s).
  Proof.
    intros s f rest Hok Haft. cbn [tok_ok] in Hok. cbn [tok_text app].
    assert (Hbody : forallb (fun x => negb (is_quote x)) (chars s) = true).
    { apply forallb_forall. intros x Hx. rewrite forallb_forall in Hok. specialize (Hok x Hx).
      apply andb_true_iff in Hok. tauto. }
    assert (Hprint : forallb (fun x => printable x && negb (is_backslash x)) (chars s) = true).
    { apply forallb_forall. intros x Hx. rewrite forallb_forall in Hok. specialize (Hok x Hx).
      apply andb_true_iff in Hok. tauto. }
    assert (Hnb : forallb (fun x => negb (is_backslash x)) (chars s) = true).
    { apply forallb_forall. intros x Hx. rewrite forallb_forall in Hprint. specialize (Hprint x Hx).
      apply andb_true_iff in Hprint. tauto. }
    assert (Hpr : forallb printable (chars s) = true).
    { apply forallb_forall. intros x Hx. rewrite forallb_forall in Hprint. specialize (Hprint x Hx).
      apply andb_true_iff in Hprint. tauto. }
    cbn [lex_go]. change (Ascii.eqb squote blank) with false. change (Ascii.eqb squote "("%char) with false.
    change (Ascii.eqb squote ")"%char) with false. change (is_quote squote) with true. cbn match.
    rewrite <- app_assoc. cbn [app].
    rewrite (span_app (fun x => negb (is_quote x)) (chars s) (squote :: rest) Hbody) by reflexivity.
    change (negb (Ascii.eqb squote squote)) with false. cbn match. rewrite (unescape_plain _ Hnb). rewrite Hpr. cbn [negb].
    rewrite str_chars.
    destruct rest as [|c r]; [reflexivity|]. cbn [after_ok follows_ok] in Haft. apply negb_true_iff in Haft.
    rewrite Haft. reflexivity.
  Qed.

  Lemma lex_num : forall s f rest, tok_ok cfg (TNum s) = true -> after_ok (TNum s) rest ->
    lex_go cfg (S f) (tok_text cfg (TNum s) ++ rest) = cont cfg f rest (TNum s).
  Proof.
    intros s f rest Hok Haft. cbn [tok_ok] in Hok. cbn [tok_text].
    apply andb_true_iff in Hok. destruct Hok as [Hok Hne]. apply andb_true_iff in Hok. destruct Hok as [Hnil Hall].
    destruct (chars s) as [|c cs] eqn:Hcs; [discriminate|].
    assert (Hc : is_nums c = true) by (cbn [forallb] in Hall; apply andb_true_iff in Hall; tauto).
    destruct (nums_facts c Hc) as [H1 [H2 [H3 [H4 H5]]]].
    assert (Hspan : span is_nums ((c :: cs) ++ rest) = (c :: cs, rest)).
    { apply span_app; [assumption|]. destruct rest as [|d r]; [exact I|]. cbn [after_ok follows_ok] in Haft.
      apply andb_true_iff in Haft. destruct Haft as [Ha _]. apply negb_true_iff in Ha. assumption. }
    cbn [app] in *. cbn [lex_go]. rewrite H1, H2, H3, H4, Hc. rewrite Hspan. rewrite <- Hcs, str_chars.
    apply negb_true_iff in Hne. rewrite Hne.
    destruct rest as [|d r]; [reflexivity|]. cbn [after_ok follows_ok] in Haft.
    apply andb_true_iff in Haft. destruct Haft as [_ Hd]. apply negb_true_iff in Hd. rewrite Hd. reflexivity.
  Qed.

  Lemma lex_word : forall w f rest, tok_ok cfg (TWord w) = true -> after_ok (TWord w) rest ->
    lex_go cfg (S f) (tok_text cfg (TWord w) ++ rest) = cont cfg f rest (TWord w).
  Proof.
    intros w f rest Hok Haft. cbn [tok_ok] in Hok. cbn [tok_text].
    apply andb_true_iff in Hok. destruct Hok as [Hok Hcond]. apply andb_true_iff in Hok. destruct Hok as [Hfirst Hall].
    destruct (chars w) as [|c cs] eqn:Hcs; [discriminate|].
    destruct (alpha_facts c Hfirst) as [H1 [H2 [H3 [H4 [H5 H6]]]]].
    assert (Hspan : span is_wordc ((c :: cs) ++ rest) = (c :: cs, rest)).
    { apply span_app; [assumption|]. destruct rest as [|d r]; [exact I|]. cbn [after_ok follows_ok] in Haft.
      apply negb_true_iff in Haft. assumption. }
    cbn [app] in *. cbn [lex_go]. rewrite H1, H2, H3, H4, H5, Hfirst. rewrite Hspan. rewrite <- Hcs, str_chars.
    rewrite <- Hcs in Hcond.
    destruct (existsb (Ascii.eqb "_"%char) (chars w)).
    - rewrite Hcond. reflexivity.
    - apply andb_true_iff in Hcond. destruct Hcond as [Hcond Hp]. apply andb_true_iff in Hcond. destruct Hcond as [Hm1 Hm2].
      apply negb_true_iff in Hm1. apply negb_true_iff in Hm2. apply negb_true_iff in Hp.
      rewrite Hm1, Hm2, Hp. reflexivity.
  Qed.

  Lemma starts_alpha_chars : forall o c cs, chars o = c :: cs -> starts_alpha o = is_alpha c.
  Proof. intros o c cs H. destruct o; [discriminate|]. cbn in H. injection H as -> _. reflexivity. Qed.

  Lemma str_app_blank : forall w, string_of_list_ascii (w ++ [blank]) = (string_of_list_ascii w ++ " ")%string.
  Proof. induction w as [|a w IH]; [reflexivity|]. cbn. rewrite IH. reflexivity. Qed.

  Lemma word_chars_facts : forall w, is_word_chars w = true ->
    exists c cs, w = c :: cs /\ is_alpha c = true /\ forallb is_wordc w = true /\ existsb (Ascii.eqb "_"%char) w = false.
  Proof.
    intros w H. destruct w as [|c cs]; [discriminate|]. cbn [is_word_chars] in H. apply andb_true_iff in H.
    destruct H as [Hc Hall]. exists c, cs. repeat split; try assumption.
    - apply forallb_forall. intros x Hx. rewrite forallb_forall in Hall. apply alnum_wordc. apply Hall. assumption.
    - destruct (existsb (Ascii.eqb "_"%char) (c :: cs)) eqn:He; [|reflexivity]. apply existsb_exists in He.
      destruct He as [x [Hx Hex]]. rewrite forallb_forall in Hall. destruct (alnum_wordc x (Hall x Hx)) as [_ Hn]. congruence.
  Qed.

  Lemma op_in_word_ops : forall o c cs, mem_str o (all_ops cfg) = true -> chars o = c :: cs -> is_alpha c = true ->
    mem_str o (word_ops cfg) = true.
  Proof.
    intros o c cs Hm Hc Ha. apply mem_str_In. apply mem_str_In in Hm. unfold word_ops. apply filter_In.
    split; [assumption|]. rewrite (starts_alpha_chars o c cs Hc). assumption.
  Qed.

  Lemma not_in_all_not_in_word : forall w, mem_str w (all_ops cfg) = false -> mem_str w (word_ops cfg) = false.
  Proof.
    intros w H. destruct (mem_str w (word_ops cfg)) eqn:Hm; [|reflexivity]. apply mem_str_In in Hm.
    unfold word_ops in Hm. apply filter_In in Hm. destruct Hm as [Hm _]. apply (proj2 (mem_str_In w (all_ops cfg))) in Hm.
    congruence.
  Qed.

  Lemma op_shape : forall o, mem_str o (all_ops cfg) = true ->
    is_word_op o || is_blank_op cfg o || is_sym_op o = true.
  Proof.
    intros o Hm. unfold lexcfg_ok in Hcfg. apply andb_true_iff in Hcfg. destruct Hcfg as [Hc _].
    rewrite forallb_forall in Hc. apply Hc. apply mem_str_In. assumption.
  Qed.

  Lemma lex_op : forall o f rest, tok_ok cfg (TOp o) = true -> after_ok (TOp o) rest ->
    lex_go cfg (S f) (tok_text cfg (TOp o) ++ rest) = cont cfg f rest (TOp o).
  Proof.
    intros o f rest Hok Haft. cbn [tok_ok] in Hok. cbn [tok_text]. unfold after_ok in Haft. cbn [follows_ok ends_ok] in Haft.
    pose proof (op_shape o Hok) as Hshape.
    destruct (is_blank_op cfg o) eqn:Hblank.
    - (* word + one blank *)
      unfold is_blank_op in Hblank. destruct (rev (chars o)) as [|b rw] eqn:Hrev; [discriminate|].
      apply andb_true_iff in Hblank. destruct Hblank as [Hblank Hnotop]. apply andb_true_iff in Hblank.
      destruct Hblank as [Hb Hw]. apply Ascii.eqb_eq in Hb. subst b. apply negb_true_iff in Hnotop.
      assert (Hchars : chars o = rev rw ++ [blank]).
      { rewrite <- (rev_involutive (chars o)), Hrev. reflexivity. }
      rewrite Hchars, removelast_last.
      destruct rest as [|d rest0]; [discriminate|]. apply Ascii.eqb_eq in Haft. subst d.
      destruct (word_chars_facts _ Hw) as [c [cs [Hwc [Hc [Hall Hund]]]]].
      destruct (alpha_facts c Hc) as [H1 [H2 [H3 [H4 [H5 H6]]]]].
      assert (Hspan : span is_wordc (rev rw ++ blank :: rest0) = (rev rw, blank :: rest0))
        by (apply span_app; [assumption|reflexivity]).
      assert (Ho : o = (string_of_list_ascii (rev rw) ++ " ")%string).
      { apply chars_inj. rewrite Hchars, <- str_app_blank, chars_str. reflexivity. }
      assert (Hmem : mem_str (string_of_list_ascii (rev rw) ++ " ") (word_ops cfg) = true).
      { rewrite <- Ho. apply (op_in_word_ops o c (cs ++ [blank])); [assumption| |assumption].
        rewrite Hchars, Hwc. reflexivity. }
      revert Hspan. rewrite Hwc. cbn [app]. intros Hspan. cbn [lex_go]. rewrite H1, H2, H3, H4, H5, Hc, Hspan.
      rewrite <- Hwc. rewrite Hund. rewrite (not_in_all_not_in_word _ Hnotop). rewrite Hmem.
      rewrite Ascii.eqb_refl. cbn [andb]. rewrite <- Ho. reflexivity.
    - destruct (is_word_op o) eqn:Hword.
      + (* a plain word *)
        unfold is_word_op in Hword. destruct (word_chars_facts _ Hword) as [c [cs [Hwc [Hc [Hall Hund]]]]].
        destruct (alpha_facts c Hc) as [H1 [H2 [H3 [H4 [H5 H6]]]]].
        assert (Hspan : span is_wordc (chars o ++ rest) = (chars o, rest)).
        { apply span_app; [assumption|]. destruct rest as [|d r]; [exact I|]. apply negb_true_iff in Haft. assumption. }
        pose proof (op_in_word_ops o c cs Hok Hwc Hc) as Hmem.
        revert Hspan. rewrite Hwc. cbn [app]. intros Hspan. cbn [lex_go]. rewrite H1, H2, H3, H4, H5, Hc, Hspan.
        rewrite <- Hwc. rewrite Hund, str_chars, Hmem. reflexivity.
      + (* symbolic *)
        cbn [orb] in Hshape. unfold is_sym_op in Hshape. destruct (chars o) as [|c cs] eqn:Hc; [discriminate|].
        destruct (sym_start_facts c Hshape) as [H1 [H2 [H3 [H4 [H5 [H6 H7]]]]]].
        assert (Hsym : In o (sym_ops cfg)).
        { unfold sym_ops. apply filter_In. split; [apply mem_str_In; assumption|].
          rewrite (starts_alpha_chars o c cs Hc), H6. reflexivity. }
        assert (Hlong : longest_sym (sym_ops cfg) ((c :: cs) ++ rest) = Some o).
        { apply longest_sym_spec; [assumption|rewrite Hc; apply is_prefix_app|].
          intros o' Hin' Hp'. rewrite <- !chars_length.
          destruct (Nat.le_gt_cases (List.length (chars o')) (List.length (chars o))) as [|Hgt]; [assumption|exfalso].
          rewrite Hc in Hgt. destruct rest as [|d r].
          - apply is_prefix_length in Hp'. rewrite app_nil_r in Hp'. lia.
          - pose proof (is_prefix_longer _ _ _ _ Hp' Hgt) as Hin. apply negb_true_iff in Haft.
            assert (existsb (Ascii.eqb d) (sym_chars cfg) = true).
            { apply existsb_exists. exists d. split; [|apply Ascii.eqb_refl]. unfold sym_chars. apply in_flat_map.
              exists o'. split; assumption. }
            congruence. }
        cbn [app] in *. cbn [lex_go]. rewrite H1, H2, H3, H4, H5, H6, H7, Hlong.
        rewrite <- chars_length, Hc. change (c :: cs ++ rest) with ((c :: cs) ++ rest). rewrite skipn_app_exact. reflexivity.
  Qed.

  Theorem lex_tok : forall t f rest, tok_ok cfg t = true -> after_ok t rest ->
    lex_go cfg (S f) (tok_text cfg t ++ rest) = cont cfg f rest t.
  Proof.
    intros t f rest Hok Haft. destruct t; try discriminate.
    - apply lex_paren_l.
    - apply lex_paren_r.
    - apply lex_op; assumption.
    - apply lex_word; assumption.
    - apply lex_num; assumption.
    - apply lex_str; assumption.
  Qed.

  Lemma tok_text_nonempty : forall t, tok_ok cfg t = true -> tok_text cfg t <> [].
  Proof.
    intros t Hok. destruct t; try discriminate; cbn [tok_text tok_ok] in *.
    - pose proof (op_shape s Hok) as Hshape. destruct (is_blank_op cfg s) eqn:Hb.
      + unfold is_blank_op in Hb. destruct (rev (chars s)) as [|b rw] eqn:Hrev; [discriminate|].
        apply andb_true_iff in Hb. destruct Hb as [Hb _]. apply andb_true_iff in Hb. destruct Hb as [_ Hw].
        assert (Hchars : chars s = rev rw ++ [b]) by (rewrite <- (rev_involutive (chars s)), Hrev; reflexivity).
        rewrite Hchars, removelast_last. destruct (rev rw); [discriminate|discriminate].
      + destruct (is_word_op s) eqn:Hw.
        * unfold is_word_op in Hw. destruct (chars s); discriminate.
        * cbn [orb] in Hshape. unfold is_sym_op in Hshape. destruct (chars s); discriminate.
    - apply andb_true_iff in Hok. destruct Hok as [Hok _]. apply andb_true_iff in Hok. destruct Hok as [Hf _].
      destruct (chars s); discriminate.
    - apply andb_true_iff in Hok. destruct Hok as [Hok _]. apply andb_true_iff in Hok. destruct Hok as [Hf _].
      destruct (chars s); discriminate.
  Qed.

  (* lexing a rendered layout gives back its tokens *)
  Theorem lex_render : forall l trailing f,
    layout_ok cfg l trailing = true -> List.length (render_layout cfg l trailing) < f ->
    lex_go cfg f (render_layout cfg l trailing) = Some (map snd l).
  Proof.
    induction l as [|[n t] l IH]; intros trailing f Hok Hlen.
    - cbn [render_layout map] in *. rewrite <- (app_nil_r (repeat blank trailing)). rewrite repeat_length in Hlen.
      rewrite lex_blanks by lia. destruct (f - trailing) eqn:E; [lia|reflexivity].
    - cbn [layout_ok] in Hok. apply andb_true_iff in Hok. destruct Hok as [Hok Hrest]. apply andb_true_iff in Hok.
      destruct Hok as [Htok Hnext]. cbn [render_layout map snd] in *.
      rewrite !app_length, repeat_length in Hlen. pose proof (tok_text_nonempty t Htok) as Hne.
      assert (0 < List.length (tok_text cfg t)) by (destruct (tok_text cfg t); [contradiction|cbn; lia]).
      rewrite lex_blanks by lia. destruct (f - n) as [|f'] eqn:E; [lia|].
      rewrite lex_tok; [| assumption |].
      + unfold cont. rewrite (IH trailing f' Hrest) by lia. reflexivity.
      + unfold after_ok. unfold next_char in Hnext. destruct (render_layout cfg l trailing); assumption.
  Qed.
End Tok.

Theorem lex_render_string : forall cfg l, lexcfg_ok cfg = true -> layout_ok cfg l 0 = true ->
  lex cfg (render_string cfg l) = Some (map snd l).
Proof.
  intros cfg l Hcfg Hok. unfold lex, render_string. rewrite list_ascii_of_string_of_list_ascii.
  apply lex_render; [assumption|assumption|lia].
Qed.

(* ------------------------------------------------------------------ the two standard layouts are admissible *)
Section Layouts.
  Variable cfg : config.
  Hypothesis Hcfg : lexcfg_ok cfg = true.

  Lemma blank_follows : forall t, tok_ok cfg t = true -> follows_ok cfg t blank = true.
  Proof.
    intros t Hok. destruct t; try reflexivity; try discriminate. cbn [follows_ok].
    destruct (is_blank_op cfg s); [reflexivity|]. destruct (is_word_op s); [reflexivity|].
    unfold lexcfg_ok in Hcfg. apply andb_true_iff in Hcfg. tauto.
  Qed.

  Definition last_ends_ok (ts : list token) : bool :=
    match rev ts with t :: _ => ends_ok cfg t | [] => true end.

  Lemma last_ends_cons : forall t ts, ts <> [] -> last_ends_ok (t :: ts) = last_ends_ok ts.
  Proof.
    intros t ts Hne. unfold last_ends_ok. cbn [rev]. destruct (rev ts) as [|x r] eqn:Hr.
    - apply (f_equal (@rev token)) in Hr. rewrite rev_involutive in Hr. contradiction.
    - reflexivity.
  Qed.

  Lemma render_loose_head : forall t ts, exists r, render_layout cfg (loose (t :: ts)) 0 = blank :: r.
  Proof. intros. cbn. eexists. reflexivity. Qed.

  Lemma loose_ok : forall ts, forallb (tok_ok cfg) ts = true -> last_ends_ok ts = true ->
    layout_ok cfg (loose ts) 0 = true.
  Proof.
    induction ts as [|t ts IH]; intros Hall Hlast; [reflexivity|].
    cbn [forallb] in Hall. apply andb_true_iff in Hall. destruct Hall as [Ht Hall].
    cbn [loose map layout_ok]. rewrite Ht. cbn [andb]. destruct ts as [|t2 ts2].
    - cbn. unfold last_ends_ok in Hlast. cbn in Hlast. rewrite Hlast. reflexivity.
    - rewrite last_ends_cons in Hlast by discriminate. fold (loose (t2 :: ts2)).
      rewrite (IH Hall Hlast). unfold next_char. destruct (render_loose_head t2 ts2) as [r ->].
      rewrite (blank_follows t Ht). reflexivity.
  Qed.

  Lemma tight_after_ok : forall ts prev, tok_ok cfg prev = true -> forallb (tok_ok cfg) ts = true ->
    last_ends_ok (prev :: ts) = true ->
    match next_char cfg (tight_after cfg prev ts) 0 with Some c => follows_ok cfg prev c | None => ends_ok cfg prev end = true
    /\ layout_ok cfg (tight_after cfg prev ts) 0 = true.
  Proof.
    induction ts as [|t ts IH]; intros prev Hp Hall Hlast.
    - cbn. unfold last_ends_ok in Hlast. cbn in Hlast. rewrite Hlast. split; reflexivity.
    - cbn [forallb] in Hall. apply andb_true_iff in Hall. destruct Hall as [Ht Hall].
      rewrite last_ends_cons in Hlast by discriminate.
      destruct (IH t Ht Hall Hlast) as [Hnext Hok]. cbn [tight_after layout_ok]. rewrite Ht, Hnext, Hok. cbn [andb].
      split; [|reflexivity]. unfold next_char. cbn [render_layout].
      pose proof (tok_text_nonempty cfg Hcfg t Ht) as Hne.
      destruct (tok_text cfg t) as [|c cs] eqn:Htxt; [contradiction|].
      destruct (follows_ok cfg prev c) eqn:Hf; cbn; [assumption|apply blank_follows; assumption].
  Qed.

  Lemma tight_ok : forall ts, forallb (tok_ok cfg) ts = true -> last_ends_ok ts = true ->
    layout_ok cfg (tight cfg ts) 0 = true.
  Proof.
    intros ts Hall Hlast. destruct ts as [|t ts]; [reflexivity|].
    cbn [forallb] in Hall. apply andb_true_iff in Hall. destruct Hall as [Ht Hall].
    destruct (tight_after_ok ts t Ht Hall Hlast) as [Hnext Hok]. cbn [tight layout_ok]. rewrite Ht, Hnext, Hok. reflexivity.
  Qed.

  Lemma loose_tokens : forall ts, map snd (loose ts) = ts.
  Proof. induction ts; [reflexivity|]. cbn. f_equal. assumption. Qed.

  Lemma tight_after_tokens : forall ts prev, map snd (tight_after cfg prev ts) = ts.
  Proof. induction ts; intros; [reflexivity|]. cbn. f_equal. apply IHts. Qed.

  Lemma tight_tokens : forall ts, map snd (tight cfg ts) = ts.
  Proof. destruct ts; [reflexivity|]. cbn. f_equal. apply tight_after_tokens. Qed.
End Layouts.

(* the last token of a printed tree is never an operator *)
Lemma print_last : forall cfg e, exists ts t, print cfg e = ts ++ [t] /\ ends_ok cfg t = true /\ (forall o, t <> TOp o).
Proof.
  intros cfg. assert (Hwrap : forall k a, (exists ts t, print cfg a = ts ++ [t] /\ ends_ok cfg t = true /\ (forall o, t <> TOp o)) ->
                            exists ts t, wrap cfg k a = ts ++ [t] /\ ends_ok cfg t = true /\ (forall o, t <> TOp o)).
  { intros k a [ts [t [Hp Ht]]]. unfold wrap. destruct (Nat.leb (expr_level cfg a) k).
    - exists ts, t. split; assumption.
    - exists (TLP :: print cfg a), TRP. split; [reflexivity|]. split; [reflexivity|discriminate]. }
  induction e as [k|l|k lo hi|k ls|o a IHa|e0 rest IHe0 IHrest|o s p IHs IHp] using expr_ind'.
  - exists [], (TWord k). split; [reflexivity|]. split; [reflexivity|discriminate].
  - exists [], (lit_tok l). split; [reflexivity|]. split; [destruct l; reflexivity|destruct l; discriminate].
  - exists [TWord k; lit_tok lo; TWord "to"], (lit_tok hi). split; [reflexivity|].
    split; [destruct hi; reflexivity|destruct hi; discriminate].
  - destruct ls as [|l ls] using rev_ind.
    + exists [], (TWord k). split; [reflexivity|]. split; [reflexivity|discriminate].
    + exists (TWord k :: map lit_tok ls), (lit_tok l). split; [cbn [print]; rewrite map_app; reflexivity|].
      split; [destruct l; reflexivity|destruct l; discriminate].
  - rewrite print_un. destruct (Hwrap (level_of_op (levels cfg) o) a IHa) as [ts [t [Hw Ht]]].
    exists (TOp o :: ts), t. rewrite Hw. split; [reflexivity|assumption].
  - rewrite print_bin. set (k := pred (expr_level cfg (EBin e0 rest))).
    destruct rest as [|pr rest'] using rev_ind.
    + cbn [print_rest]. rewrite app_nil_r. apply Hwrap. assumption.
    + apply Forall_app in IHrest. destruct IHrest as [_ Hlast]. inversion Hlast as [|? ? Hpr _]; subst.
      destruct pr as [o a]. cbn [snd] in Hpr. destruct (Hwrap k a Hpr) as [ts [t [Hw Ht]]].
      assert (Hpr_app : forall l1 l2, print_rest cfg k (l1 ++ l2) = print_rest cfg k l1 ++ print_rest cfg k l2).
      { induction l1 as [|[o1 a1] l1 IH1]; intros l2; [reflexivity|]. cbn [app print_rest]. rewrite IH1, <- app_assoc. reflexivity. }
      rewrite Hpr_app. cbn [print_rest]. rewrite app_nil_r, Hw.
      exists (wrap cfg k e0 ++ print_rest cfg k rest' ++ TOp o :: ts), t. split; [|assumption].
      rewrite <- !app_assoc. reflexivity.
  - rewrite print_rx. destruct (Hwrap (pred (level_of_op (levels cfg) o)) p IHp) as [ts [t [Hw Ht]]].
    exists (wrap cfg (pred (level_of_op (levels cfg) o)) s ++ TOp o :: ts), t. rewrite Hw. split; [|assumption].
    rewrite <- app_assoc. reflexivity.
Qed.

(* ------------------------------------------------------------------ the string-level round trip *)
Theorem parse_print_layout : forall cfg, NoDup (all_ops cfg) -> lexcfg_ok cfg = true ->
  forall e l, wf cfg e -> map snd l = print cfg e -> layout_ok cfg l 0 = true ->
  parse_string cfg (render_string cfg l) = Some e.
Proof.
  intros cfg Hnd Hcfg e l Hwf Htoks Hok. unfold parse_string.
  rewrite (lex_render_string cfg l Hcfg Hok), Htoks. apply parse_print_tokens; assumption.
Qed.

Theorem parse_print_string : forall cfg, NoDup (all_ops cfg) -> lexcfg_ok cfg = true ->
  forall e, wf cfg e -> forallb (tok_ok cfg) (print cfg e) = true ->
  parse_string cfg (print_loose cfg e) = Some e /\ parse_string cfg (print_tight cfg e) = Some e.
Proof.
  intros cfg Hnd Hcfg e Hwf Htoks.
  assert (Hlast : last_ends_ok cfg (print cfg e) = true).
  { destruct (print_last cfg e) as [ts [t [Hp [Ht _]]]]. unfold last_ends_ok. rewrite Hp, rev_app_distr. assumption. }
  split.
  - apply parse_print_layout; try assumption; [apply loose_tokens|apply loose_ok; assumption].
  - apply parse_print_layout; try assumption; [apply tight_tokens|apply tight_ok; assumption].
Qed.
