(* C12 - the order of the result of Topology.select (definitions only, no proofs).

   Topology.select lists atom.index in the order of Topology.atoms, which walks chains -> residues -> atoms.  That
   order is the index order for a topology built residue by residue; after Topology.add_atom on an earlier residue it
   is not, and the as-found result is then not increasing ([select_str], two-variant rule: the variant as found).
   The minimal repair sorts the index list ([select_str_sorted]). *)
From Coq Require Import List String ZArith Bool.
Require Import MD.Select.Syntax MD.Select.Model.
Import ListNotations.

Fixpoint insert_z (x : Z) (l : list Z) : list Z :=
  match l with
  | [] => [x]
  | y :: r => if Z.leb x y then x :: l else y :: insert_z x r
  end.

Fixpoint isort (l : list Z) : list Z :=
  match l with
  | [] => []
  | x :: r => insert_z x (isort r)
  end.

Definition sort_outcome (o : outcome) : outcome :=
  match o with
  | Sel l => Sel (isort l)
  | _ => o
  end.

(* the repaired variant: the same outcome, an index list sorted *)
Definition select_str_sorted (cfg : config) (strict : bool) (atoms : list atom) (s : string) : outcome :=
  sort_outcome (select_str cfg strict atoms s).

Local Open Scope string_scope.

(* a patched topology: GLY (N CA C O), HOH (O), and an OXT added to the GLY afterwards (index 5, iterated before
   the water oxygen of index 4) *)
Definition patched_atom (n : string) (i : Z) (sym : string) (m : Z * nat) (rn : string) (ri : Z) : atom :=
  {| a_name := n; a_index := i; a_nbonds := 0; a_symbol := sym; a_mass := m; a_resname := rn; a_resSeq := ri + 1;
     a_resindex := ri; a_chainindex := 0; a_segid := "" |}.

Definition patched_atoms : list atom :=
  [patched_atom "N" 0 "N" (14006720%Z, 6) "GLY" 0; patched_atom "CA" 1 "C" (12010780%Z, 6) "GLY" 0;
   patched_atom "C" 2 "C" (12010780%Z, 6) "GLY" 0; patched_atom "O" 3 "O" (15999430%Z, 6) "GLY" 0;
   patched_atom "OXT" 5 "O" (15999430%Z, 6) "GLY" 0; patched_atom "O" 4 "O" (15999430%Z, 6) "HOH" 1].
