(* C12 - the derivative matcher of Select/Regex.v decides prefix membership in the language of the pattern. *)
From Coq Require Import List String Ascii Arith Bool Lia.
Require Import MD.Select.Regex.
Import ListNotations.
Local Open Scope list_scope.

Definition is_class (r : rx) : bool :=
  match r with RChr _ | RAny | RSet _ _ => true | _ => false end.

Inductive lang : rx -> list ascii -> Prop :=
| L_eps : lang REps []
| L_chr : forall r c, is_class r = true -> chr_matches r c = true -> lang r [c]
| L_seq : forall a b s1 s2, lang a s1 -> lang b s2 -> lang (RSeq a b) (s1 ++ s2)
| L_altl : forall a b s, lang a s -> lang (RAlt a b) s
| L_altr : forall a b s, lang b s -> lang (RAlt a b) s
| L_star0 : forall a, lang (RStar a) []
| L_star1 : forall a s1 s2, lang a s1 -> lang (RStar a) s2 -> lang (RStar a) (s1 ++ s2).

Lemma nullable_correct : forall r, nullable r = true <-> lang r [].
Proof.
  induction r as [| |c| |neg items|a IHa b IHb|a IHa b IHb|a IHa]; cbn [nullable].
  - split; [discriminate|]. intros H. inversion H.
  - split; [constructor|reflexivity].
  - split; [discriminate|]. intros H. inversion H.
  - split; [discriminate|]. intros H. inversion H.
  - split; [discriminate|]. intros H. inversion H.
  - split; intros H.
    + apply andb_true_iff in H. destruct H as [H1 H2]. change (@nil ascii) with (@nil ascii ++ []).
      constructor; [apply IHa|apply IHb]; assumption.
    + inversion H; subst.
      match goal with X : _ ++ _ = [] |- _ => apply app_eq_nil in X; destruct X as [-> ->] end.
      apply andb_true_iff. split; [apply IHa|apply IHb]; assumption.
  - split; intros H.
    + apply orb_true_iff in H. destruct H as [H|H]; [apply L_altl; apply IHa|apply L_altr; apply IHb]; assumption.
    + apply orb_true_iff. inversion H; subst; [left; apply IHa|right; apply IHb]; assumption.
  - split; [constructor|reflexivity].
Qed.

Lemma star_cons : forall a c s, lang (RStar a) (c :: s) ->
  exists s1 s2, s = s1 ++ s2 /\ lang a (c :: s1) /\ lang (RStar a) s2.
Proof.
  intros a c s H. remember (RStar a) as r eqn:Hr. remember (c :: s) as cs eqn:Hcs. revert a c s Hr Hcs.
  induction H as [|r c' Hcl Hm|a' b' s1 s2 H1 IH1 H2 IH2|a' b' s' H1 IH1|a' b' s' H1 IH1|a'|a' s1 s2 H1 IH1 H2 IH2];
    intros a c s Hr Hcs; try discriminate.
  - subst r. discriminate.
  - injection Hr as ->. destruct s1 as [|d s1'].
    + cbn [app] in Hcs. apply (IH2 a c s eq_refl Hcs).
    + cbn [app] in Hcs. injection Hcs as -> <-. exists s1', s2. repeat split; assumption.
Qed.

Lemma seq_inv : forall a b s, lang (RSeq a b) s -> exists s1 s2, s = s1 ++ s2 /\ lang a s1 /\ lang b s2.
Proof. intros a b s H. inversion H; subst; try discriminate. eauto. Qed.
Lemma alt_inv : forall a b s, lang (RAlt a b) s -> lang a s \/ lang b s.
Proof. intros a b s H. inversion H; subst; try discriminate; auto. Qed.
Lemma none_inv : forall s, lang RNone s -> False.
Proof. intros s H. inversion H; subst; discriminate. Qed.
Lemma eps_inv : forall s, lang REps s -> s = [].
Proof. intros s H. inversion H; subst; try discriminate; reflexivity. Qed.
Lemma class_inv : forall r s, is_class r = true -> lang r s -> exists c, s = [c] /\ chr_matches r c = true.
Proof. intros r s Hc H. inversion H; subst; try discriminate. eauto. Qed.

Lemma deriv_class : forall r c s, is_class r = true ->
  (lang (if chr_matches r c then REps else RNone) s <-> lang r (c :: s)).
Proof.
  intros r c s Hc. destruct (chr_matches r c) eqn:Hm; split; intros H.
  - apply eps_inv in H. subst s. apply L_chr; assumption.
  - destruct (class_inv r _ Hc H) as [d [Heq Hd]]. injection Heq as <- ->. constructor.
  - destruct (none_inv _ H).
  - destruct (class_inv r _ Hc H) as [d [Heq Hd]]. injection Heq as <- ->. congruence.
Qed.

Lemma deriv_correct : forall r c s, lang (deriv c r) s <-> lang r (c :: s).
Proof.
  induction r as [| |c0| |neg items|r1 IHr1 r2 IHr2|r1 IHr1 r2 IHr2|r IHr]; intros c s; cbn [deriv].
  - split; intros H; [destruct (none_inv _ H)|destruct (none_inv _ H)].
  - split; intros H; [destruct (none_inv _ H)|apply eps_inv in H; discriminate].
  - apply (deriv_class (RChr c0)). reflexivity.
  - apply (deriv_class RAny). reflexivity.
  - apply (deriv_class (RSet neg items)). reflexivity.
  - (* seq *)
    assert (Hseq : lang (RSeq (deriv c r1) r2) s -> lang (RSeq r1 r2) (c :: s)).
    { intros H. apply seq_inv in H. destruct H as [s1 [s2 [-> [H1 H2]]]]. apply IHr1 in H1.
      change (c :: s1 ++ s2) with ((c :: s1) ++ s2). constructor; assumption. }
    assert (Hback : lang (RSeq r1 r2) (c :: s) ->
                    lang (RSeq (deriv c r1) r2) s \/ (lang r1 [] /\ lang (deriv c r2) s)).
    { intros H. apply seq_inv in H. destruct H as [s1 [s2 [Heq [H1 H2]]]]. destruct s1 as [|d s1'].
      - cbn [app] in Heq. subst s2. right. split; [assumption|apply IHr2; assumption].
      - cbn [app] in Heq. injection Heq as <- ->. left. constructor; [apply IHr1; assumption|assumption]. }
    destruct (nullable r1) eqn:Hn; split; intros H.
    + apply alt_inv in H. destruct H as [H|H]; [apply Hseq; assumption|].
      change (c :: s) with ([] ++ c :: s). constructor; [apply nullable_correct; assumption|apply IHr2; assumption].
    + destruct (Hback H) as [H'|[_ H']]; [apply L_altl|apply L_altr]; assumption.
    + apply Hseq. assumption.
    + destruct (Hback H) as [H'|[H' _]]; [assumption|]. apply nullable_correct in H'. congruence.
  - split; intros H; apply alt_inv in H; destruct H as [H|H];
      [apply L_altl; apply IHr1|apply L_altr; apply IHr2|apply L_altl; apply IHr1|apply L_altr; apply IHr2]; assumption.
  - split; intros H.
    + apply seq_inv in H. destruct H as [s1 [s2 [-> [H1 H2]]]]. apply IHr in H1.
      change (c :: s1 ++ s2) with ((c :: s1) ++ s2). apply L_star1; assumption.
    + apply star_cons in H. destruct H as [s1 [s2 [-> [H1 H2]]]]. constructor; [apply IHr; assumption|assumption].
Qed.

Lemma star_simp : forall a b, (forall s, lang a s <-> lang b s) -> forall s, lang (RStar a) s -> lang (RStar b) s.
Proof.
  intros a b Hab s H. remember (RStar a) as r eqn:Hr. revert Hr.
  induction H as [|r c' Hcl Hm|a' b' s1 s2 H1 IH1 H2 IH2|a' b' s' H1 IH1|a' b' s' H1 IH1|a'|a' s1 s2 H1 IH1 H2 IH2];
    intros Hr; try discriminate.
  - subst r. discriminate.
  - constructor.
  - injection Hr as ->. apply L_star1; [apply Hab; assumption|apply IH2; reflexivity].
Qed.

Lemma seq_congr : forall a a' b b', (forall s, lang a s <-> lang a' s) -> (forall s, lang b s <-> lang b' s) ->
  forall s, lang (RSeq a b) s <-> lang (RSeq a' b') s.
Proof.
  intros a a' b b' Ha Hb s. split; intros H; apply seq_inv in H; destruct H as [s1 [s2 [-> [H1 H2]]]];
    constructor; try (apply Ha; assumption); apply Hb; assumption.
Qed.

Lemma alt_congr : forall a a' b b', (forall s, lang a s <-> lang a' s) -> (forall s, lang b s <-> lang b' s) ->
  forall s, lang (RAlt a b) s <-> lang (RAlt a' b') s.
Proof.
  intros a a' b b' Ha Hb s. split; intros H; apply alt_inv in H; destruct H as [H|H];
    [apply L_altl; apply Ha|apply L_altr; apply Hb|apply L_altl; apply Ha|apply L_altr; apply Hb]; assumption.
Qed.

Lemma mk_seq_correct : forall a b s, lang (mk_seq a b) s <-> lang (RSeq a b) s.
Proof.
  intros a b s.
  assert (Hn1 : forall b', lang RNone s <-> lang (RSeq RNone b') s).
  { intros b'. split; intros H; [destruct (none_inv _ H)|].
    apply seq_inv in H. destruct H as [s1 [s2 [_ [H1 _]]]]. destruct (none_inv _ H1). }
  assert (Hn2 : forall a', lang RNone s <-> lang (RSeq a' RNone) s).
  { intros a'. split; intros H; [destruct (none_inv _ H)|].
    apply seq_inv in H. destruct H as [s1 [s2 [_ [_ H2]]]]. destruct (none_inv _ H2). }
  assert (He1 : forall b', lang b' s <-> lang (RSeq REps b') s).
  { intros b'. split; intros H.
    - change s with ([] ++ s). constructor; [constructor|assumption].
    - apply seq_inv in H. destruct H as [s1 [s2 [-> [H1 H2]]]]. apply eps_inv in H1. subst s1. assumption. }
  assert (He2 : forall a', lang a' s <-> lang (RSeq a' REps) s).
  { intros a'. split; intros H.
    - rewrite <- (app_nil_r s). constructor; [assumption|constructor].
    - apply seq_inv in H. destruct H as [s1 [s2 [-> [H1 H2]]]]. apply eps_inv in H2. subst s2. rewrite app_nil_r. assumption. }
  destruct a; try apply Hn1; destruct b; cbn [mk_seq]; try apply Hn2; try apply He1; try apply He2; reflexivity.
Qed.

Lemma mk_alt_correct : forall a b s, lang (mk_alt a b) s <-> lang (RAlt a b) s.
Proof.
  intros a b s.
  assert (Hn1 : forall b', lang b' s <-> lang (RAlt RNone b') s).
  { intros b'. split; intros H; [apply L_altr; assumption|]. apply alt_inv in H. destruct H as [H|H]; [destruct (none_inv _ H)|assumption]. }
  assert (Hn2 : forall a', lang a' s <-> lang (RAlt a' RNone) s).
  { intros a'. split; intros H; [apply L_altl; assumption|]. apply alt_inv in H. destruct H as [H|H]; [assumption|destruct (none_inv _ H)]. }
  destruct a; try apply Hn1; destruct b; cbn [mk_alt]; try apply Hn2; reflexivity.
Qed.

Lemma simp_seq : forall a b, simp (RSeq a b) = mk_seq (simp a) (simp b).
Proof. reflexivity. Qed.
Lemma simp_alt : forall a b, simp (RAlt a b) = mk_alt (simp a) (simp b).
Proof. reflexivity. Qed.

Lemma simp_correct : forall r s, lang (simp r) s <-> lang r s.
Proof.
  induction r as [| |c0| |neg items|r1 IHr1 r2 IHr2|r1 IHr1 r2 IHr2|r IHr]; intros s; try reflexivity.
  - rewrite simp_seq, mk_seq_correct. apply seq_congr; assumption.
  - rewrite simp_alt, mk_alt_correct. apply alt_congr; assumption.
  - cbn [simp]. split; apply star_simp; intros s'; [apply IHr|symmetry; apply IHr].
Qed.

Theorem rx_match_prefix_correct : forall r s,
  rx_match_prefix r s = true <-> exists s1 s2, s = s1 ++ s2 /\ lang r s1.
Proof.
  intros r s. revert r. induction s as [|c s IH]; intros r; cbn [rx_match_prefix].
  - rewrite orb_false_r, nullable_correct. split.
    + intros H. exists [], []. split; [reflexivity|assumption].
    + intros [s1 [s2 [Heq H]]]. symmetry in Heq. apply app_eq_nil in Heq. destruct Heq as [-> _]. assumption.
  - rewrite orb_true_iff, nullable_correct, IH. split.
    + intros [H|[s1 [s2 [-> H]]]].
      * exists [], (c :: s). split; [reflexivity|assumption].
      * exists (c :: s1), s2. split; [reflexivity|]. apply deriv_correct. apply simp_correct. assumption.
    + intros [s1 [s2 [Heq H]]]. destruct s1 as [|d s1'].
      * left. assumption.
      * cbn [app] in Heq. injection Heq as <- ->. right. exists s1', s2. split; [reflexivity|].
        apply simp_correct. apply deriv_correct. assumption.
Qed.
