(* C12 - a static check on the compiled predicate that rules out TypeError: definitions and soundness.
   Exact at the level of one comparison (cmp_raises_iff), sound for whole predicates (type_of_sound). *)
From Coq Require Import List String Ascii ZArith Bool Arith Lia.
Require Import MD.Select.Syntax MD.Select.Regex MD.Select.Model MD.Select.Types MD.Select.ParsePrint MD.Select.Proofs.
Import ListNotations.
Local Open Scope list_scope.

(* ------------------------------------------------------------------ one comparison: exactly when it raises *)
Lemma value_has_ty : forall v, has_ty v (value_ty v).
Proof. destruct v; exact I. Qed.

Theorem cmp_raises_iff : forall c v w,
  cmp_apply c v w = Err TypeErr <-> is_ordering c = true /\ ord_ok (value_ty v) (value_ty w) = false.
Proof.
  intros c v w. destruct c, v, w; cbn; split; intros H; try discriminate; try (destruct H; discriminate);
    try (split; reflexivity); try reflexivity.
Qed.

Lemma cmp_ok : forall c v w tv tw, has_ty v tv -> has_ty w tw -> (is_ordering c = true -> ord_ok tv tw = true) ->
  exists b, cmp_apply c v w = Ok (VBool b).
Proof.
  intros c v w tv tw Hv Hw Hord.
  destruct (is_ordering c) eqn:Hc.
  - specialize (Hord eq_refl). destruct tv, tw; try discriminate; destruct v; try contradiction; destruct w; try contradiction;
      destruct c; try discriminate; cbn; eexists; reflexivity.
  - destruct c; try discriminate; cbn; eexists; reflexivity.
Qed.

(* ------------------------------------------------------------------ soundness for predicates *)
Definition sound_res (r : res value) (t : ty) : Prop :=
  match r with
  | Ok v => has_ty v t
  | Err TypeErr => False
  | Err OutOfModel => True
  end.

Lemma has_ty_join_l : forall v a b, has_ty v a -> has_ty v (join a b).
Proof. intros v a b H. unfold join. destruct (ty_eqb a b); [assumption|]. destruct a, b, v; try exact I; try contradiction. Qed.
Lemma has_ty_join_r : forall v a b, has_ty v b -> has_ty v (join a b).
Proof.
  intros v a b H. unfold join. destruct (ty_eqb a b) eqn:E.
  - destruct a, b; try discriminate; assumption.
  - destruct a, b, v; try exact I; try contradiction.
Qed.

Section PyInd.
  Variable P : pyexpr -> Prop.
  Hypothesis HName : forall id, P (PName id).
  Hypothesis HConst : forall v, P (PConst v).
  Hypothesis HAttr : forall f, P (PAttr f).
  Hypothesis HNot : forall a, P a -> P (PNot a).
  Hypothesis HBool : forall b es, Forall P es -> P (PBoolOp b es).
  Hypothesis HCmp : forall l ops cs, P l -> Forall P cs -> P (PCompare l ops cs).
  Hypothesis HIn : forall l es, P l -> Forall P es -> P (PInList l es).
  Hypothesis HRe : forall a b, P a -> P b -> P (PReMatch a b).

  Fixpoint pyexpr_ind' (p : pyexpr) : P p :=
    let list_ind := (fix go (l : list pyexpr) : Forall P l :=
                       match l with [] => Forall_nil _ | x :: r => Forall_cons x (pyexpr_ind' x) (go r) end) in
    match p with
    | PName id => HName id
    | PConst v => HConst v
    | PAttr f => HAttr f
    | PNot a => HNot a (pyexpr_ind' a)
    | PBoolOp b es => HBool b es (list_ind es)
    | PCompare l ops cs => HCmp l ops cs (pyexpr_ind' l) (list_ind cs)
    | PInList l es => HIn l es (pyexpr_ind' l) (list_ind es)
    | PReMatch a b => HRe a b (pyexpr_ind' a) (pyexpr_ind' b)
    end.
End PyInd.

(* ------------------------------------------------------------------ list forms of the nested recursions *)
Fixpoint bool_ty (l : list (option ty)) : option ty :=
  match l with
  | [] => Some KNum
  | a :: r => match a with
              | None => None
              | Some t => match r with
                          | [] => Some t
                          | _ => match bool_ty r with Some t' => Some (join t t') | None => None end
                          end
              end
  end.

Fixpoint chain_ty (tl : ty) (ops : list cmpop) (cs : list (option ty)) : option ty :=
  match ops, cs with
  | o :: ops', c :: cs' =>
      match c with
      | None => None
      | Some tc => if is_ordering o && negb (ord_ok tl tc) then None else chain_ty tc ops' cs'
      end
  | _, _ => Some KNum
  end.

Fixpoint eval_bool (b : boolop) (rs : list (res value)) : res value :=
  match rs with
  | [] => Ok (VBool (match b with BAnd => true | BOr => false end))
  | a :: r =>
      match a with
      | Err x => Err x
      | Ok v => match r with
                | [] => Ok v
                | _ => if (match b with BAnd => negb (truthy v) | BOr => truthy v end) then Ok v else eval_bool b r
                end
      end
  end.

Fixpoint eval_chain (lv : value) (ops : list cmpop) (cs : list (res value)) : res value :=
  match ops, cs with
  | o :: ops', c :: cs' =>
      match c with
      | Err x => Err x
      | Ok cv => match cmp_apply o lv cv with
                 | Err x => Err x
                 | Ok r => match ops' with
                           | [] => Ok r
                           | _ => if truthy r then eval_chain cv ops' cs' else Ok r
                           end
                 end
      end
  | _, _ => Ok (VBool true)
  end.

Fixpoint eval_inlist (lv : value) (rs : list (res value)) (acc : bool) : res value :=
  match rs with
  | [] => Ok (VBool acc)
  | a :: r => match a with Err x => Err x | Ok v => eval_inlist lv r (acc || veq lv v) end
  end.

Lemma type_of_bool : forall b es, type_of (PBoolOp b es) = bool_ty (map type_of es).
Proof.
  intros b es. cbn [type_of]. induction es as [|a r IH]; [reflexivity|]. cbn [map bool_ty].
  destruct (type_of a); [|reflexivity]. destruct r as [|a2 r2]; [reflexivity|]. rewrite IH. reflexivity.
Qed.

Lemma type_of_cmp : forall l ops cs,
  type_of (PCompare l ops cs) = match type_of l with Some tl => chain_ty tl ops (map type_of cs) | None => None end.
Proof.
  intros l ops cs. cbn [type_of]. destruct (type_of l) as [tl|]; [|reflexivity]. revert tl ops.
  induction cs as [|c r IH]; intros tl ops; [destruct ops; reflexivity|]. destruct ops as [|o ops']; [reflexivity|].
  cbn [map chain_ty]. destruct (type_of c) as [tc|]; [|reflexivity]. destruct (is_ordering o && negb (ord_ok tl tc)); [reflexivity|].
  apply IH.
Qed.

Lemma py_eval_bool : forall env b es, py_eval env (PBoolOp b es) = eval_bool b (map (py_eval env) es).
Proof.
  intros env b es. cbn [py_eval]. induction es as [|a r IH]; [reflexivity|]. cbn [map eval_bool].
  destruct (py_eval env a) as [v|x]; [|reflexivity]. destruct r as [|a2 r2]; [reflexivity|]. rewrite IH. reflexivity.
Qed.

Lemma py_eval_cmp : forall env l ops cs,
  py_eval env (PCompare l ops cs) =
  match py_eval env l with Ok lv => eval_chain lv ops (map (py_eval env) cs) | Err x => Err x end.
Proof.
  intros env l ops cs. cbn [py_eval]. destruct (py_eval env l) as [lv|x]; [|reflexivity]. revert lv ops.
  induction cs as [|c r IH]; intros lv ops; [destruct ops; reflexivity|]. destruct ops as [|o ops']; [reflexivity|].
  cbn [map eval_chain]. destruct (py_eval env c) as [cv|x]; [|reflexivity]. destruct (cmp_apply o lv cv) as [rr|x]; [|reflexivity].
  destruct ops' as [|o2 ops2]; [reflexivity|]. destruct (truthy rr); [apply IH|reflexivity].
Qed.

Lemma py_eval_inlist : forall env l es,
  py_eval env (PInList l es) =
  match py_eval env l with Ok lv => eval_inlist lv (map (py_eval env) es) false | Err x => Err x end.
Proof.
  intros env l es. cbn [py_eval]. destruct (py_eval env l) as [lv|x]; [|reflexivity]. generalize false as acc.
  induction es as [|e r IH]; intros acc; [reflexivity|]. cbn [map eval_inlist]. destruct (py_eval env e); [apply IH|reflexivity].
Qed.

Lemma sound_res_err : forall (x : err) t t', sound_res (Err x) t -> sound_res (Err x) t'.
Proof. intros x t t' H. destruct x; assumption. Qed.

Definition sound_pair (r : res value) (ot : option ty) : Prop := forall t, ot = Some t -> sound_res r t.

Lemma bool_sound : forall b rs ts, Forall2 sound_pair rs ts -> forall t, bool_ty ts = Some t -> sound_res (eval_bool b rs) t.
Proof.
  intros b rs ts HF. induction HF as [|r ot rs ts Hr HF IH]; intros t Ht.
  - injection Ht as <-. exact I.
  - cbn [bool_ty] in Ht. destruct ot as [ta|]; [|discriminate]. specialize (Hr ta eq_refl). cbn [eval_bool].
    destruct r as [v|x]; [|eapply sound_res_err; exact Hr].
    destruct ts as [|ot2 ts2].
    + inversion HF; subst. injection Ht as <-. exact Hr.
    + destruct (bool_ty (ot2 :: ts2)) as [t'|] eqn:Hg; [|discriminate]. injection Ht as <-. specialize (IH t' eq_refl).
      destruct rs as [|r2 rs2]; [inversion HF|].
      destruct (match b with BAnd => negb (truthy v) | BOr => truthy v end); [apply has_ty_join_l; exact Hr|].
      destruct (eval_bool b (r2 :: rs2)) as [w|x]; [apply has_ty_join_r; exact IH|eapply sound_res_err; exact IH].
Qed.

Lemma chain_ty_knum : forall cs tl ops t, chain_ty tl ops cs = Some t -> t = KNum.
Proof.
  induction cs as [|c r IH]; intros tl ops t H; [destruct ops; injection H as <-; reflexivity|].
  destruct ops as [|o ops']; [injection H as <-; reflexivity|]. cbn [chain_ty] in H. destruct c as [tc|]; [|discriminate].
  destruct (is_ordering o && negb (ord_ok tl tc)); [discriminate|]. eapply IH. exact H.
Qed.

Lemma chain_sound : forall rs ts, Forall2 sound_pair rs ts ->
  forall tl lv ops t, has_ty lv tl -> chain_ty tl ops ts = Some t -> sound_res (eval_chain lv ops rs) t.
Proof.
  intros rs ts HF. induction HF as [|r ot rs ts Hr HF IH]; intros tl lv ops t Hlv Ht.
  - destruct ops; injection Ht as <-; exact I.
  - destruct ops as [|o ops']; [injection Ht as <-; exact I|]. cbn [chain_ty] in Ht. destruct ot as [tc|]; [|discriminate].
    specialize (Hr tc eq_refl). destruct (is_ordering o && negb (ord_ok tl tc)) eqn:Hord; [discriminate|].
    cbn [eval_chain]. destruct r as [cv|x]; [|eapply sound_res_err; exact Hr]. cbn [sound_res] in Hr.
    destruct (cmp_ok o lv cv tl tc Hlv Hr) as [bb Hcmp].
    { intros Ho. rewrite Ho in Hord. cbn in Hord. apply negb_false_iff in Hord. assumption. }
    rewrite Hcmp. pose proof (chain_ty_knum _ _ _ _ Ht) as ->. destruct ops' as [|o2 ops2]; [exact I|].
    cbn [truthy]. destruct bb; [|exact I]. apply (IH tc cv (o2 :: ops2) KNum Hr Ht).
Qed.

Lemma inlist_sound : forall lv rs ts, Forall2 sound_pair rs ts ->
  forallb (fun ot => match ot with Some _ => true | None => false end) ts = true ->
  forall acc, sound_res (eval_inlist lv rs acc) KNum.
Proof.
  intros lv rs ts HF. induction HF as [|r ot rs ts Hr HF IH]; intros Hall acc; [exact I|].
  cbn [forallb] in Hall. apply andb_true_iff in Hall. destruct Hall as [Ho Hall]. destruct ot as [te|]; [|discriminate].
  specialize (Hr te eq_refl). cbn [eval_inlist]. destruct r as [v|x]; [apply IH; assumption|eapply sound_res_err; exact Hr].
Qed.

Theorem type_of_sound : forall env, (forall f, has_ty (env f) (field_ty f)) ->
  forall p t, type_of p = Some t -> sound_res (py_eval env p) t.
Proof.
  intros env Henv. induction p as [id|v|f|a IHa|b es IHes|l ops cs IHl IHcs|l es IHl IHes|a b IHa IHb] using pyexpr_ind';
    intros t Ht.
  - discriminate.
  - cbn in *. injection Ht as <-. apply value_has_ty.
  - cbn in *. injection Ht as <-. apply Henv.
  - cbn [type_of] in Ht. destruct (type_of a) as [ta|] eqn:Ha; [|discriminate]. injection Ht as <-.
    specialize (IHa ta eq_refl). cbn [py_eval]. destruct (py_eval env a) as [v|[]]; [exact I|contradiction|exact I].
  - rewrite type_of_bool in Ht. rewrite py_eval_bool. apply (bool_sound b _ (map type_of es)); [|assumption].
    clear Ht. induction IHes; constructor; assumption.
  - rewrite type_of_cmp in Ht. rewrite py_eval_cmp. destruct (type_of l) as [tl|] eqn:Htl; [|discriminate].
    specialize (IHl tl eq_refl). destruct (py_eval env l) as [lv|x]; [|eapply sound_res_err; exact IHl].
    apply (chain_sound _ (map type_of cs)) with (tl := tl); [|exact IHl|assumption].
    clear Ht. induction IHcs; constructor; assumption.
  - rewrite py_eval_inlist. cbn [type_of] in Ht. destruct (type_of l) as [tl|] eqn:Htl; [|discriminate].
    specialize (IHl tl eq_refl). destruct (forallb _ es) eqn:Hall; [|discriminate]. injection Ht as <-.
    destruct (py_eval env l) as [lv|x]; [|eapply sound_res_err; exact IHl].
    apply (inlist_sound lv _ (map type_of es)); [clear Hall; induction IHes; constructor; assumption|].
    rewrite forallb_forall in *. intros ot Hot. apply in_map_iff in Hot. destruct Hot as [e [<- He]]. apply Hall. assumption.
  - cbn [type_of py_eval] in *. destruct (type_of a) as [[]|] eqn:Hta; try discriminate.
    destruct (type_of b) as [[]|] eqn:Htb; try discriminate. injection Ht as <-.
    specialize (IHa KStr eq_refl). specialize (IHb KStr eq_refl).
    destruct (py_eval env a) as [va|x]; [|eapply sound_res_err; exact IHa].
    destruct (py_eval env b) as [vb|x]; [|eapply sound_res_err; exact IHb].
    destruct va; try contradiction. destruct vb; try contradiction. destruct (re_match s s0); exact I.
Qed.

(* ------------------------------------------------------------------ whole selections *)
Lemma attr_typed : forall cfg a f, has_ty (attr cfg a f) (field_ty f).
Proof.
  intros cfg a f. destruct f; cbn [attr field_ty has_ty]; try exact I.
  unfold res_code. destruct (assoc (a_resname a) (amino_codes cfg)) as [[c|]|]; exact I.
Qed.

(* a predicate that passes the static check never raises TypeError, on any atom of any topology *)
Theorem well_typed_no_type_error : forall cfg p atoms, well_typed p = true ->
  select_py (attr cfg) p atoms <> Err TypeErr.
Proof.
  intros cfg p atoms Hwt Herr. unfold well_typed in Hwt. destruct (type_of p) as [t|] eqn:Ht; [|discriminate].
  apply select_py_err in Herr. destruct Herr as [pre [a [post [_ [Ha _]]]]].
  pose proof (type_of_sound (attr cfg a) (attr_typed cfg a) p t Ht) as Hs. rewrite Ha in Hs. exact Hs.
Qed.

Theorem well_typed_outcome : forall cfg atoms op, match op with Some p => well_typed p = true | None => True end ->
  run_compiled cfg atoms op <> EvalErr TypeErr.
Proof.
  intros cfg atoms [p|] Hwt; [|discriminate]. unfold run_compiled.
  destruct (select_py (attr cfg) p atoms) as [l|x] eqn:Hs; [discriminate|]. intros H. injection H as ->.
  exact (well_typed_no_type_error cfg p atoms Hwt Hs).
Qed.
