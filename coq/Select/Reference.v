(* C12 - hand-kept copy of the grammar tables AS FOUND in mdtraj/core/selection.py (pinned commit), with a reduced
   residue table.  Used for the statements about today's operator order; the run compares it with the
   regenerated Gen/SelectTables.v and reports whether they still coincide (informational). *)
From Coq Require Import List String ZArith.
Require Import MD.Select.Syntax.
Import ListNotations.
Local Open Scope string_scope.

Definition ref_sel_kws : list (string * field) :=
  [("all", FTrue); ("everything", FTrue); ("none", FFalse); ("nothing", FFalse);
   ("backbone", FIsBackbone); ("is_backbone", FIsBackbone); ("sidechain", FIsSidechain); ("is_sidechain", FIsSidechain);
   ("protein", FResIsProtein); ("is_protein", FResIsProtein);
   ("code", FResCode); ("rescode", FResCode); ("resc", FResCode);
   ("water", FResIsWater); ("waters", FResIsWater); ("is_water", FResIsWater);
   ("name", FName); ("index", FIndex); ("n_bonds", FNBonds);
   ("residue", FResSeq); ("resSeq", FResSeq); ("resname", FResName); ("resn", FResName);
   ("resid", FResIndex); ("resi", FResIndex); ("segment_id", FSegmentId); ("segname", FSegmentId);
   ("chainid", FChainIndex); ("type", FElemSymbol); ("element", FElemSymbol); ("symbol", FElemSymbol);
   ("mass", FElemMass)].

Definition lvl (k : kind) (o : string) : level := {| lv_kind := k; lv_ops := [o] |}.

(* infix(UnaryInfixOperand) + infix(BinaryInfixOperand) + infix(RegexInfixOperand), each sorted(keys) *)
Definition ref_levels : list level :=
  [lvl KUnary "!"; lvl KUnary "not ";
   lvl KBinary "!="; lvl KBinary "&&"; lvl KBinary "<"; lvl KBinary "<="; lvl KBinary "=="; lvl KBinary ">";
   lvl KBinary ">="; lvl KBinary "and"; lvl KBinary "eq"; lvl KBinary "ge"; lvl KBinary "gt"; lvl KBinary "le";
   lvl KBinary "lt"; lvl KBinary "ne"; lvl KBinary "or"; lvl KBinary "||";
   lvl KRegex "=~"].

Definition ref_bin_sem : list (string * binsem) :=
  [("and", SBool BAnd); ("&&", SBool BAnd); ("or", SBool BOr); ("||", SBool BOr);
   ("<", SCmp CLt); ("lt", SCmp CLt); ("==", SCmp CEq); ("eq", SCmp CEq); ("<=", SCmp CLe); ("le", SCmp CLe);
   ("!=", SCmp CNe); ("ne", SCmp CNe); (">=", SCmp CGe); ("ge", SCmp CGe); (">", SCmp CGt); ("gt", SCmp CGt)].

Definition ref_py_kwlist : list string :=
  ["False"; "None"; "True"; "and"; "as"; "assert"; "async"; "await"; "break"; "class"; "continue"; "def"; "del";
   "elif"; "else"; "except"; "finally"; "for"; "from"; "global"; "if"; "import"; "in"; "is"; "lambda"; "nonlocal";
   "not"; "or"; "pass"; "raise"; "return"; "try"; "while"; "with"; "yield"].

Definition ref_cfg : config :=
  {| sel_kws := ref_sel_kws; levels := ref_levels; bin_sem := ref_bin_sem; py_kwlist := ref_py_kwlist;
     amino_codes := [("ACE", None); ("NME", None); ("ALA", Some "A"); ("GLY", Some "G"); ("SER", Some "S")];
     water_names := ["HOH"; "SOL"; "WAT"] |}.
