(* C12 - a small regular-expression model (definitions only).
   Subset of Python's `re` syntax: literal characters, `.`, `[set]`, `[a-b]`, `[^...]`, `*`, `+`, `?`, `|`, `( )`,
   counted repetition `{m}` `{m,}` `{m,n}` `{,n}`, the classes \d \D \w \W \s \S, escaped punctuation, `^` at the
   start and `$` at the end of a top-level alternative.  Everything else (other escapes, anchors elsewhere, lazy or
   stacked quantifiers, empty branches, empty groups) is answered [None] by [rx_parse]: outside the model.
   `re.match(p, s) is not None`  <->  some prefix of s is in the language of p: [rx_match_prefix]. *)
From Coq Require Import List String Ascii Arith Bool.
Import ListNotations.

Inductive rx :=
| RNone                                   (* empty language *)
| REps
| RChr (c : ascii)
| RAny                                    (* `.` : any character but newline *)
| RSet (neg : bool) (items : list (ascii * ascii))
| RSeq (a b : rx)
| RAlt (a b : rx)
| RStar (a : rx).

Definition code (c : ascii) : nat := nat_of_ascii c.
Definition in_item (c : ascii) (it : ascii * ascii) : bool :=
  Nat.leb (code (fst it)) (code c) && Nat.leb (code c) (code (snd it)).
Definition newline : ascii := ascii_of_nat 10.
(* end-of-string sentinel: the subject is matched with this character appended, `$` is the one-character
   pattern for it, and no other class accepts it *)
Definition eos : ascii := ascii_of_nat 0.

Definition chr_matches (r : rx) (c : ascii) : bool :=
  match r with
  | RChr d => Ascii.eqb c d
  | RAny => negb (Ascii.eqb c newline) && negb (Ascii.eqb c eos)
  | RSet neg items => negb (Ascii.eqb c eos) && xorb neg (existsb (in_item c) items)
  | _ => false
  end.

Fixpoint nullable (r : rx) : bool :=
  match r with
  | RNone => false | REps => true | RChr _ => false | RAny => false | RSet _ _ => false
  | RSeq a b => nullable a && nullable b
  | RAlt a b => nullable a || nullable b
  | RStar _ => true
  end.

Fixpoint deriv (c : ascii) (r : rx) : rx :=
  match r with
  | RNone => RNone | REps => RNone
  | RChr _ | RAny | RSet _ _ => if chr_matches r c then REps else RNone
  | RSeq a b => if nullable a then RAlt (RSeq (deriv c a) b) (deriv c b) else RSeq (deriv c a) b
  | RAlt a b => RAlt (deriv c a) (deriv c b)
  | RStar a => RSeq (deriv c a) (RStar a)
  end.

(* light normalisation to keep derivatives small; language-preserving *)
Definition mk_seq (a b : rx) : rx :=
  match a, b with
  | RNone, _ => RNone | _, RNone => RNone
  | REps, b' => b' | a', REps => a'
  | a', b' => RSeq a' b'
  end.
Definition mk_alt (a b : rx) : rx :=
  match a, b with
  | RNone, b' => b' | a', RNone => a'
  | a', b' => RAlt a' b'
  end.
Fixpoint simp (r : rx) : rx :=
  match r with
  | RSeq a b => mk_seq (simp a) (simp b)
  | RAlt a b => mk_alt (simp a) (simp b)
  | RStar a => RStar (simp a)
  | _ => r
  end.

(* does some prefix of s belong to the language of r *)
Fixpoint rx_match_prefix (r : rx) (s : list ascii) : bool :=
  nullable r || match s with
                | [] => false
                | c :: s' => rx_match_prefix (simp (deriv c r)) s'
                end.

(* ---- pattern syntax ---- *)
Definition is_special (c : ascii) : bool :=
  existsb (Ascii.eqb c) (list_ascii_of_string ".^$*+?{}[]\|()").
Definition is_quant (c : ascii) : bool := existsb (Ascii.eqb c) (list_ascii_of_string "*+?").
Definition is_alnum (c : ascii) : bool :=
  let n := code c in
  (Nat.leb 48 n && Nat.leb n 57) || (Nat.leb 65 n && Nat.leb n 90) || (Nat.leb 97 n && Nat.leb n 122).
Definition printable (c : ascii) : bool := Nat.leb 32 (code c) && Nat.leb (code c) 126.

(* set items after '[' (and optional '^'): alphanumeric characters and ranges, closed by ']' *)
Fixpoint parse_set (fuel : nat) (cs : list ascii) (acc : list (ascii * ascii))
  : option (list (ascii * ascii) * list ascii) :=
  match fuel with
  | 0 => None
  | S f =>
    match cs with
    | "]"%char :: r => match acc with [] => None | _ => Some (rev acc, r) end
    | a :: "-"%char :: b :: r =>
        if is_alnum a && is_alnum b && Nat.leb (code a) (code b) then parse_set f r ((a, b) :: acc) else None
    | a :: r => if is_alnum a then parse_set f r ((a, a) :: acc) else None
    | [] => None
    end
  end.

Definition apply_quant (q : ascii) (r : rx) : rx :=
  if Ascii.eqb q "*"%char then RStar r
  else if Ascii.eqb q "+"%char then RSeq r (RStar r)
  else RAlt r REps.

(* r{m}, r{m,}, r{m,n} *)
Fixpoint rx_pow (r : rx) (n : nat) : rx := match n with 0 => REps | S n' => RSeq r (rx_pow r n') end.
Fixpoint rx_upto (r : rx) (n : nat) : rx := match n with 0 => REps | S n' => RAlt (RSeq r (rx_upto r n')) REps end.
Definition rx_rep (r : rx) (m : nat) (n : option nat) : option rx :=
  match n with
  | None => Some (RSeq (rx_pow r m) (RStar r))
  | Some n => if Nat.leb m n then Some (RSeq (rx_pow r m) (rx_upto r (n - m))) else None
  end.

Definition is_digit_c (c : ascii) : bool := Nat.leb 48 (code c) && Nat.leb (code c) 57.
Fixpoint take_digits (cs : list ascii) : list ascii * list ascii :=
  match cs with
  | c :: r => if is_digit_c c then let '(d, r') := take_digits r in (c :: d, r') else ([], cs)
  | [] => ([], [])
  end.
Definition digits_nat (ds : list ascii) : nat := fold_left (fun acc c => acc * 10 + (code c - 48)) ds 0.

(* after '{': m } | m , } | m , n } | , n }   with at most two digits each *)
Definition parse_count (cs : list ascii) : option (nat * option nat * list ascii) :=
  let '(d1, r1) := take_digits cs in
  if Nat.ltb 2 (List.length d1) then None else
  match r1 with
  | "}"%char :: r => match d1 with [] => None | _ => Some (digits_nat d1, Some (digits_nat d1), r) end
  | ","%char :: r2 =>
      let '(d2, r3) := take_digits r2 in
      if Nat.ltb 2 (List.length d2) then None else
      match r3 with
      | "}"%char :: r =>
          match d1, d2 with
          | [], [] => None
          | _, [] => Some (digits_nat d1, None, r)
          | _, _ => Some (digits_nat d1, Some (digits_nat d2), r)
          end
      | _ => None
      end
  | _ => None
  end.

(* backslash escapes: the classes \d \w \s and their complements, and escaped punctuation *)
Definition c_ (s : string) : ascii := match s with String c _ => c | EmptyString => eos end.
Definition class_items (c : ascii) : option (bool * list (ascii * ascii)) :=
  let digits := [(c_ "0", c_ "9")] in
  let words := [(c_ "a", c_ "z"); (c_ "A", c_ "Z"); (c_ "0", c_ "9"); (c_ "_", c_ "_")] in
  let spaces := [(c_ " ", c_ " "); (ascii_of_nat 9, ascii_of_nat 13)] in
  if Ascii.eqb c (c_ "d") then Some (false, digits) else if Ascii.eqb c (c_ "D") then Some (true, digits)
  else if Ascii.eqb c (c_ "w") then Some (false, words) else if Ascii.eqb c (c_ "W") then Some (true, words)
  else if Ascii.eqb c (c_ "s") then Some (false, spaces) else if Ascii.eqb c (c_ "S") then Some (true, spaces)
  else None.
Definition is_backslash_c (c : ascii) : bool := Nat.eqb (code c) 92.

(* alt := seq ('|' seq)* ; seq := piece+ ; piece := atom (quant | {count})? ;
   atom := chr | . | [set] | ( alt ) | \class | \punct ;
   at top level a sequence may start with ^ and end with $ *)
Fixpoint parse_alt (fuel : nat) (top : bool) (cs : list ascii) : option (rx * list ascii) :=
  match fuel with
  | 0 => None
  | S f =>
    let parse_atom (cs : list ascii) : option (rx * list ascii) :=
      match cs with
      | "."%char :: r => Some (RAny, r)
      | "["%char :: "^"%char :: r =>
          match parse_set (S (List.length r)) r [] with Some (items, r') => Some (RSet true items, r') | None => None end
      | "["%char :: r =>
          match parse_set (S (List.length r)) r [] with Some (items, r') => Some (RSet false items, r') | None => None end
      | "("%char :: r =>
          match parse_alt f false r with
          | Some (a, ")"%char :: r') => Some (a, r')
          | _ => None
          end
      | c :: r =>
          if is_backslash_c c then
            match r with
            | d :: r' =>
                match class_items d with
                | Some (neg, items) => Some (RSet neg items, r')
                | None => if printable d && negb (is_alnum d) then Some (RChr d, r') else None
                end
            | [] => None
            end
          else if is_special c || negb (printable c) then None else Some (RChr c, r)
      | [] => None
      end in
    let parse_piece (cs : list ascii) : option (rx * list ascii) :=
      match parse_atom cs with
      | None => None
      | Some (a, q :: r) =>
          if is_quant q then
            match r with
            | q2 :: _ => if is_quant q2 then None else Some (apply_quant q a, r)
            | [] => Some (apply_quant q a, r)
            end
          else if Ascii.eqb q "{"%char then
            match parse_count r with
            | Some (m, n, r') =>
                match rx_rep a m n, r' with
                | Some a', q2 :: _ => if is_quant q2 then None else Some (a', r')
                | Some a', [] => Some (a', r')
                | None, _ => None
                end
            | None => None
            end
          else Some (a, q :: r)
      | Some (a, []) => Some (a, [])
      end in
    let fix parse_seq (n : nat) (cs : list ascii) (acc : option rx) : option (rx * list ascii) :=
      match n with
      | 0 => None
      | S n' =>
        match cs with
        | [] | "|"%char :: _ | ")"%char :: _ =>
            match acc with Some a => Some (a, cs) | None => None end
        | "^"%char :: r =>
            match acc with
            | None => if top then parse_seq n' r (Some REps) else None
            | Some _ => None
            end
        | "$"%char :: r =>
            if top && match r with [] => true | "|"%char :: _ => true | _ => false end
            then Some (match acc with Some a => RSeq a (RChr eos) | None => RChr eos end, r)
            else None
        | _ =>
            match parse_piece cs with
            | None => None
            | Some (p, r) => parse_seq n' r (Some (match acc with Some a => RSeq a p | None => p end))
            end
        end
      end in
    let fix parse_alts (n : nat) (cs : list ascii) (acc : rx) : option (rx * list ascii) :=
      match n with
      | 0 => None
      | S n' =>
        match cs with
        | "|"%char :: r =>
            match parse_seq (S (List.length r)) r None with
            | Some (s, r') => parse_alts n' r' (RAlt acc s)
            | None => None
            end
        | _ => Some (acc, cs)
        end
      end in
    match parse_seq (S (List.length cs)) cs None with
    | Some (s, r) => parse_alts (S (List.length r)) r s
    | None => None
    end
  end.

Definition rx_parse (p : string) : option rx :=
  let cs := list_ascii_of_string p in
  match cs with
  | [] => Some REps                       (* the empty pattern matches the empty prefix *)
  | _ => match parse_alt (S (List.length cs)) true cs with
         | Some (r, []) => Some r
         | _ => None
         end
  end.

(* re.match(p, s) is not None, for patterns of the subset; the subject is followed by the sentinel *)
Definition re_match (p s : string) : option bool :=
  match rx_parse p with
  | Some r => Some (rx_match_prefix r (list_ascii_of_string s ++ [eos]))
  | None => None
  end.
