(* C12 - parse (print e) = e for every well-formed parse tree, for every operator table without
   duplicate spellings: the printer's minimal parentheses are exactly what the grammar needs. *)
From Coq Require Import List String Ascii ZArith Bool Arith Lia.
Require Import MD.Select.Syntax MD.Select.Model.
Import ListNotations.
Local Open Scope string_scope.

(* ------------------------------------------------------------------ induction principle for expr *)
Section ExprInd.
  Variable P : expr -> Prop.
  Hypothesis HKw : forall k, P (EKw k).
  Hypothesis HLit : forall l, P (ELit l).
  Hypothesis HRange : forall k lo hi, P (ERange k lo hi).
  Hypothesis HInList : forall k ls, P (EInList k ls).
  Hypothesis HUn : forall o a, P a -> P (EUn o a).
  Hypothesis HBin : forall e0 rest, P e0 -> Forall (fun p => P (snd p)) rest -> P (EBin e0 rest).
  Hypothesis HRx : forall o s p, P s -> P p -> P (ERx o s p).

  Fixpoint expr_ind' (e : expr) : P e :=
    match e with
    | EKw k => HKw k
    | ELit l => HLit l
    | ERange k lo hi => HRange k lo hi
    | EInList k ls => HInList k ls
    | EUn o a => HUn o a (expr_ind' a)
    | EBin e0 rest =>
        HBin e0 rest (expr_ind' e0)
          ((fix go (l : list (string * expr)) : Forall (fun p => P (snd p)) l :=
              match l with
              | [] => Forall_nil _
              | p :: l' => Forall_cons p (expr_ind' (snd p)) (go l')
              end) rest)
    | ERx o s p => HRx o s p (expr_ind' s) (expr_ind' p)
    end.
End ExprInd.

(* ------------------------------------------------------------------ well-formed parse trees *)
Definition op_kind (cfg : config) (o : string) : option kind :=
  match level_of_op (levels cfg) o with
  | 0 => None
  | S i => option_map lv_kind (nth_error (levels cfg) i)
  end.

(* [k l1 to l3 ...] is taken by range_condition, so an in-list never has that shape *)
Definition inlist_not_range (ls : list lit) : Prop :=
  match ls with
  | _ :: LWord x :: _ :: _ => x <> "to"
  | _ => True
  end.

Fixpoint wf (cfg : config) (e : expr) : Prop :=
  match e with
  | EKw k => is_selkw cfg k = true
  | ELit (LWord w) => is_selkw cfg w = false
  | ELit _ => True
  | ERange k _ _ => is_selkw cfg k = true
  | EInList k ls => is_selkw cfg k = true /\ ls <> [] /\ inlist_not_range ls
  | EUn o a => op_kind cfg o = Some KUnary /\ wf cfg a
  | EBin e0 rest =>
      rest <> [] /\ wf cfg e0 /\
      (fix all (l : list (string * expr)) : Prop :=
         match l with
         | [] => True
         | (o, a) :: l' =>
             op_kind cfg o = Some KBinary /\
             level_of_op (levels cfg) o = expr_level cfg (EBin e0 rest) /\ wf cfg a /\ all l'
         end) rest
  | ERx o s p => op_kind cfg o = Some KRegex /\ wf cfg s /\ wf cfg p
  end.

(* parenthesis nesting depth of the printed form *)
Fixpoint pdepth (cfg : config) (e : expr) : nat :=
  let sub (k : nat) (a : expr) (d : nat) := if Nat.leb (expr_level cfg a) k then d else S d in
  match e with
  | EUn o a => sub (level_of_op (levels cfg) o) a (pdepth cfg a)
  | EBin e0 rest =>
      let k := pred (expr_level cfg e) in
      Nat.max (sub k e0 (pdepth cfg e0))
        ((fix go (l : list (string * expr)) : nat :=
            match l with
            | [] => 0
            | (_, a) :: l' => Nat.max (sub k a (pdepth cfg a)) (go l')
            end) rest)
  | ERx o s p =>
      let k := pred (level_of_op (levels cfg) o) in
      Nat.max (sub k s (pdepth cfg s)) (sub k p (pdepth cfg p))
  | _ => 0
  end.

(* ------------------------------------------------------------------ facts about the level table *)
Lemma NoDup_app_inv {A} : forall (a b : list A), NoDup (a ++ b) ->
  NoDup b /\ (forall x, In x a -> In x b -> False).
Proof.
  induction a as [|x a IH]; intros b H; simpl in H.
  - split; [assumption|intros ? []].
  - inversion H as [|? ? Hnotin Hnd]; subst. destruct (IH b Hnd) as [Hb Hdis]. split; [assumption|].
    intros y [->|Hy] Hyb.
    + apply Hnotin. apply in_or_app. right. assumption.
    + eapply Hdis; eassumption.
Qed.

Section Levels.
  Variable lvs : list level.

  Lemma level_of_op_nth : forall o i,
    level_of_op lvs o = S i -> exists l, nth_error lvs i = Some l /\ mem_str o (lv_ops l) = true.
  Proof.
    induction lvs as [|l0 r IH]; intros o i H; simpl in H; [discriminate|].
    destruct (mem_str o (lv_ops l0)) eqn:Hm.
    - injection H as <-. exists l0. split; [reflexivity|assumption].
    - destruct (level_of_op r o) eqn:Hr; [discriminate|]. injection H as <-.
      destruct (IH o n Hr) as [l [Hn Hl]]. exists l. split; assumption.
  Qed.

  Lemma mem_str_In : forall s l, mem_str s l = true <-> In s l.
  Proof.
    intros s l. unfold mem_str. rewrite existsb_exists. split.
    - intros [x [Hin Heq]]. apply String.eqb_eq in Heq. subst. assumption.
    - intros H. exists s. split; [assumption|apply String.eqb_refl].
  Qed.

  Lemma nth_level_of_op : forall o i l,
    NoDup (flat_map lv_ops lvs) -> nth_error lvs i = Some l -> mem_str o (lv_ops l) = true ->
    level_of_op lvs o = S i.
  Proof.
    induction lvs as [|l0 r IH]; intros o i l Hnd Hn Hm.
    - destruct i; discriminate.
    - simpl in Hnd. destruct i as [|i'].
      + simpl in Hn. injection Hn as ->. simpl. rewrite Hm. reflexivity.
      + simpl in Hn. simpl.
        destruct (mem_str o (lv_ops l0)) eqn:Hm0.
        * exfalso. apply mem_str_In in Hm0. apply mem_str_In in Hm.
          destruct (NoDup_app_inv _ _ Hnd) as [_ Hdis]. apply (Hdis o Hm0).
          apply in_flat_map. exists l. split; [eapply nth_error_In; eassumption|assumption].
        * destruct (NoDup_app_inv _ _ Hnd) as [Hnd' _]. rewrite (IH o i' l Hnd' Hn Hm). reflexivity.
  Qed.
End Levels.
