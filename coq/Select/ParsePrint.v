(* C12 - parse (print e) = e for every well-formed parse tree, for every operator table without
   duplicate spellings: the printer's minimal parentheses are exactly what the grammar needs. *)
From Coq Require Import List String Ascii ZArith Bool Arith Lia.
Require Import MD.Select.Syntax MD.Select.Model.
Import ListNotations.
Local Open Scope list_scope.

(* ------------------------------------------------------------------ induction principle for expr *)
Section ExprInd.
  Variable P : expr -> Prop.
  Hypothesis HKw : forall k, P (EKw k).
  Hypothesis HLit : forall l, P (ELit l).
  Hypothesis HRange : forall k lo hi, P (ERange k lo hi).
  Hypothesis HInList : forall k ls, P (EInList k ls).
  Hypothesis HUn : forall o a, P a -> P (EUn o a).
  Hypothesis HBin : forall e0 rest, P e0 -> Forall (fun p => P (snd p)) rest -> P (EBin e0 rest).
  Hypothesis HRx : forall o s p, P s -> P p -> P (ERx o s p).

  Fixpoint expr_ind' (e : expr) : P e :=
    match e with
    | EKw k => HKw k
    | ELit l => HLit l
    | ERange k lo hi => HRange k lo hi
    | EInList k ls => HInList k ls
    | EUn o a => HUn o a (expr_ind' a)
    | EBin e0 rest =>
        HBin e0 rest (expr_ind' e0)
          ((fix go (l : list (string * expr)) : Forall (fun p => P (snd p)) l :=
              match l with
              | [] => Forall_nil _
              | p :: l' => Forall_cons p (expr_ind' (snd p)) (go l')
              end) rest)
    | ERx o s p => HRx o s p (expr_ind' s) (expr_ind' p)
    end.
End ExprInd.

(* ------------------------------------------------------------------ well-formed parse trees *)
Definition op_kind (cfg : config) (o : string) : option kind :=
  match level_of_op (levels cfg) o with
  | 0 => None
  | S i => option_map lv_kind (nth_error (levels cfg) i)
  end.

(* [k l1 to l3 ...] is taken by range_condition, so an in-list never has that shape *)
Definition inlist_not_range (ls : list lit) : Prop :=
  match ls with
  | _ :: LWord x :: _ :: _ => x <> "to"%string
  | _ => True
  end.

Fixpoint wf (cfg : config) (e : expr) : Prop :=
  match e with
  | EKw k => is_selkw cfg k = true
  | ELit (LWord w) => is_selkw cfg w = false
  | ELit _ => True
  | ERange k _ _ => is_selkw cfg k = true
  | EInList k ls => is_selkw cfg k = true /\ ls <> [] /\ inlist_not_range ls
  | EUn o a => op_kind cfg o = Some KUnary /\ wf cfg a
  | EBin e0 rest =>
      rest <> [] /\ wf cfg e0 /\
      (fix all (l : list (string * expr)) : Prop :=
         match l with
         | [] => True
         | (o, a) :: l' =>
             op_kind cfg o = Some KBinary /\
             level_of_op (levels cfg) o = expr_level cfg (EBin e0 rest) /\ wf cfg a /\ all l'
         end) rest
  | ERx o s p => op_kind cfg o = Some KRegex /\ wf cfg s /\ wf cfg p
  end.

(* parenthesis nesting depth of the printed form *)
Fixpoint pdepth (cfg : config) (e : expr) : nat :=
  let sub (k : nat) (a : expr) (d : nat) := if Nat.leb (expr_level cfg a) k then d else S d in
  match e with
  | EUn o a => sub (level_of_op (levels cfg) o) a (pdepth cfg a)
  | EBin e0 rest =>
      let k := pred (expr_level cfg e) in
      Nat.max (sub k e0 (pdepth cfg e0))
        ((fix go (l : list (string * expr)) : nat :=
            match l with
            | [] => 0
            | (_, a) :: l' => Nat.max (sub k a (pdepth cfg a)) (go l')
            end) rest)
  | ERx o s p =>
      let k := pred (level_of_op (levels cfg) o) in
      Nat.max (sub k s (pdepth cfg s)) (sub k p (pdepth cfg p))
  | _ => 0
  end.

(* ------------------------------------------------------------------ facts about the level table *)
Lemma NoDup_app_inv {A} : forall (a b : list A), NoDup (a ++ b) ->
  NoDup b /\ (forall x, In x a -> In x b -> False).
Proof.
  induction a as [|x a IH]; intros b H; simpl in H.
  - split; [assumption|intros ? []].
  - inversion H as [|? ? Hnotin Hnd]; subst. destruct (IH b Hnd) as [Hb Hdis]. split; [assumption|].
    intros y [->|Hy] Hyb.
    + apply Hnotin. apply in_or_app. right. assumption.
    + eapply Hdis; eassumption.
Qed.

Section Levels.
  Variable lvs : list level.

  Lemma level_of_op_nth : forall o i,
    level_of_op lvs o = S i -> exists l, nth_error lvs i = Some l /\ mem_str o (lv_ops l) = true.
  Proof.
    induction lvs as [|l0 r IH]; intros o i H; simpl in H; [discriminate|].
    destruct (mem_str o (lv_ops l0)) eqn:Hm.
    - injection H as <-. exists l0. split; [reflexivity|assumption].
    - destruct (level_of_op r o) eqn:Hr; [discriminate|]. injection H as <-.
      destruct (IH o n Hr) as [l [Hn Hl]]. exists l. split; assumption.
  Qed.

  Lemma mem_str_In : forall s l, mem_str s l = true <-> In s l.
  Proof.
    intros s l. unfold mem_str. rewrite existsb_exists. split.
    - intros [x [Hin Heq]]. apply String.eqb_eq in Heq. subst. assumption.
    - intros H. exists s. split; [assumption|apply String.eqb_refl].
  Qed.

  Lemma nth_level_of_op : forall o i l,
    NoDup (flat_map lv_ops lvs) -> nth_error lvs i = Some l -> mem_str o (lv_ops l) = true ->
    level_of_op lvs o = S i.
  Proof.
    induction lvs as [|l0 r IH]; intros o i l Hnd Hn Hm.
    - destruct i; discriminate.
    - simpl in Hnd. destruct i as [|i'].
      + simpl in Hn. injection Hn as ->. simpl. rewrite Hm. reflexivity.
      + simpl in Hn. simpl.
        destruct (mem_str o (lv_ops l0)) eqn:Hm0.
        * exfalso. apply mem_str_In in Hm0. apply mem_str_In in Hm.
          destruct (NoDup_app_inv _ _ Hnd) as [_ Hdis]. apply (Hdis o Hm0).
          apply in_flat_map. exists l. split; [eapply nth_error_In; eassumption|assumption].
        * destruct (NoDup_app_inv _ _ Hnd) as [Hnd' _]. rewrite (IH o i' l Hnd' Hn Hm). reflexivity.
  Qed.
End Levels.

(* ------------------------------------------------------------------ combinator equations *)
Lemma p_unary_cons : forall ops lower o ts,
  p_unary ops lower (TOp o :: ts) =
  if mem_str o ops then
    match p_unary ops lower ts with
    | Some (e, r) => Some (EUn o e, r)
    | None => lower (TOp o :: ts)
    end
  else lower (TOp o :: ts).
Proof. reflexivity. Qed.

Lemma p_unary_other : forall ops lower ts,
  (forall o ts', ts = TOp o :: ts' -> mem_str o ops = false) ->
  p_unary ops lower ts = lower ts.
Proof.
  intros ops lower ts H. destruct ts as [|t ts']; [reflexivity|].
  destruct t; try reflexivity. rewrite p_unary_cons. rewrite (H s ts' eq_refl). reflexivity.
Qed.

Lemma p_levels_snoc : forall pre l atom, p_levels (pre ++ [l]) atom = p_level l (p_levels pre atom).
Proof. intros. unfold p_levels. rewrite fold_left_app. reflexivity. Qed.

Lemma firstn_snoc {A} : forall (l : list A) i x, nth_error l i = Some x -> firstn (S i) l = firstn i l ++ [x].
Proof.
  induction l as [|y l IH]; intros i x H.
  - destruct i; discriminate.
  - destruct i as [|i'].
    + simpl in H. injection H as ->. reflexivity.
    + simpl in H. change (firstn (S (S i')) (y :: l)) with (y :: firstn (S i') l).
      rewrite (IH i' x H). reflexivity.
Qed.

Lemma bin_loop_stop : forall ops lower n r,
  (forall o r', r = TOp o :: r' -> mem_str o ops = false) ->
  bin_loop ops lower n r = ([], r).
Proof.
  intros ops lower n r H. destruct n; [reflexivity|]. simpl.
  destruct r as [|t r']; [reflexivity|]. destruct t; try reflexivity.
  rewrite (H s r' eq_refl). reflexivity.
Qed.

Section Main.
  Variable cfg : config.
  Hypothesis Hnd : NoDup (all_ops cfg).
  Let lvs := levels cfg.
  Let n := List.length lvs.

  Definition cont_ok (k : nat) (r : list token) : Prop :=
    match r with
    | [] => True
    | t :: _ => tok_lit t = None /\ (forall o, t = TOp o -> k < level_of_op lvs o)
    end.

  Definition head_ok (j : nat) (ts : list token) : Prop :=
    forall o ts', ts = TOp o :: ts' -> level_of_op lvs o <= j.

  Lemma cont_ok_mono : forall k k' r, k' <= k -> cont_ok k r -> cont_ok k' r.
  Proof.
    intros k k' r Hle H. destruct r as [|t r']; [exact I|]. destruct H as [H1 H2]. split; [assumption|].
    intros o Ho. specialize (H2 o Ho). lia.
  Qed.

  Lemma level_mem : forall i l o, nth_error lvs i = Some l ->
    (mem_str o (lv_ops l) = true <-> level_of_op lvs o = S i).
  Proof.
    intros i l o Hn. split.
    - intros Hm. eapply nth_level_of_op; eauto.
    - intros Hl. destruct (level_of_op_nth lvs o i Hl) as [l' [Hn' Hm]]. congruence.
  Qed.

  Definition atomf (f : nat) : parser := p_atom cfg (parse cfg f).
  Definition P (k f : nat) : parser := p_levels (firstn k lvs) (atomf f).

  Lemma parse_S : forall f, parse cfg (S f) = P n f.
  Proof. intros f. unfold P, n. rewrite firstn_all. reflexivity. Qed.

  Lemma P_S : forall i f l, nth_error lvs i = Some l -> P (S i) f = p_level l (P i f).
  Proof. intros i f l H. unfold P. rewrite (firstn_snoc lvs i l H). apply p_levels_snoc. Qed.

  (* a result obtained at level j is the result at every looser level k, if neither the first token nor
     the continuation starts an operator of the levels in between *)
  Lemma lift : forall f ts e r j k, j <= k -> k <= n ->
    P j f ts = Some (e, r) -> head_ok j ts -> cont_ok k r -> P k f ts = Some (e, r).
  Proof.
    intros f ts e r j k Hjk. induction Hjk as [|k Hjk IH]; intros Hkn HP Hhead Hcont; [assumption|].
    assert (Hk : k < List.length lvs) by (unfold n in Hkn; lia).
    destruct (nth_error lvs k) as [l|] eqn:Hnth; [|apply nth_error_None in Hnth; lia].
    rewrite (P_S k f l Hnth).
    assert (IH' : P k f ts = Some (e, r)).
    { apply IH; [lia|assumption|assumption|eapply cont_ok_mono; [|eassumption]; lia]. }
    assert (Hstop : forall o r', r = TOp o :: r' -> mem_str o (lv_ops l) = false).
    { intros o r' ->. destruct (mem_str o (lv_ops l)) eqn:Hm; [|reflexivity].
      apply (level_mem k l o Hnth) in Hm. destruct Hcont as [_ Hc]. specialize (Hc o eq_refl). lia. }
    unfold p_level. destruct (lv_kind l).
    - rewrite p_unary_other; [assumption|].
      intros o ts' ->. destruct (mem_str o (lv_ops l)) eqn:Hm; [|reflexivity].
      apply (level_mem k l o Hnth) in Hm. specialize (Hhead o ts' eq_refl). lia.
    - unfold p_binary. rewrite IH'. rewrite (bin_loop_stop _ _ _ _ Hstop). reflexivity.
    - unfold p_regex. rewrite IH'. rewrite (bin_loop_stop _ _ _ _ Hstop). reflexivity.
  Qed.

  (* ---------------- the printer in equational form *)
  Definition wrap (k : nat) (a : expr) : list token :=
    if Nat.leb (expr_level cfg a) k then print cfg a else paren (print cfg a).
  Fixpoint print_rest (k : nat) (l : list (string * expr)) : list token :=
    match l with
    | [] => []
    | (o, a) :: l' => TOp o :: wrap k a ++ print_rest k l'
    end.
  Definition wdepth (k : nat) (a : expr) : nat :=
    if Nat.leb (expr_level cfg a) k then pdepth cfg a else S (pdepth cfg a).
  Fixpoint rest_depth (k : nat) (l : list (string * expr)) : nat :=
    match l with
    | [] => 0
    | (_, a) :: l' => Nat.max (wdepth k a) (rest_depth k l')
    end.

  Lemma print_bin : forall e0 rest,
    print cfg (EBin e0 rest) =
    wrap (pred (expr_level cfg (EBin e0 rest))) e0 ++ print_rest (pred (expr_level cfg (EBin e0 rest))) rest.
  Proof.
    intros e0 rest. cbn [print]. f_equal. generalize (pred (expr_level cfg (EBin e0 rest))) as k. intros k.
    induction rest as [|[o a] l IH]; [reflexivity|]. cbn [print_rest]. rewrite <- IH. reflexivity.
  Qed.

  Lemma pdepth_bin : forall e0 rest,
    pdepth cfg (EBin e0 rest) =
    Nat.max (wdepth (pred (expr_level cfg (EBin e0 rest))) e0)
            (rest_depth (pred (expr_level cfg (EBin e0 rest))) rest).
  Proof.
    intros e0 rest. cbn [pdepth]. f_equal. generalize (pred (expr_level cfg (EBin e0 rest))) as k. intros k.
    induction rest as [|[o a] l IH]; [reflexivity|]. cbn [rest_depth]. rewrite <- IH. reflexivity.
  Qed.

  Lemma print_un : forall o a, print cfg (EUn o a) = TOp o :: wrap (level_of_op lvs o) a.
  Proof. reflexivity. Qed.
  Lemma print_rx : forall o s p,
    print cfg (ERx o s p) = wrap (pred (level_of_op lvs o)) s ++ TOp o :: wrap (pred (level_of_op lvs o)) p.
  Proof. reflexivity. Qed.

  Lemma op_kind_level : forall o K, op_kind cfg o = Some K ->
    exists i l, level_of_op lvs o = S i /\ nth_error lvs i = Some l /\ lv_kind l = K /\ S i <= n.
  Proof.
    intros o K H. unfold op_kind in H. fold lvs in H. destruct (level_of_op lvs o) as [|i] eqn:Hl; [discriminate|].
    destruct (nth_error lvs i) as [l|] eqn:Hn; [|discriminate]. simpl in H. injection H as H.
    exists i, l. repeat split; try assumption.
    assert (i < List.length lvs) by (apply nth_error_Some; congruence). unfold n. lia.
  Qed.

  (* the first token of a printed tree is no operator of a level looser than the tree's own *)
  Lemma print_head : forall e, wf cfg e ->
    exists t ts, print cfg e = t :: ts /\ (forall o, t = TOp o -> level_of_op lvs o <= expr_level cfg e).
  Proof.
    induction e as [k|l|k lo hi|k ls|o a IHa|e0 rest IHe0 IHrest|o s p IHs IHp] using expr_ind'; intros Hwf.
    - exists (TWord k), []. split; [reflexivity|]. intros o Ho; discriminate.
    - exists (lit_tok l), []. split; [reflexivity|]. intros o Ho. destruct l; discriminate.
    - eexists _, _. split; [reflexivity|]. intros o Ho; discriminate.
    - eexists _, _. split; [reflexivity|]. intros o Ho; discriminate.
    - eexists _, _. split; [reflexivity|]. intros o' Ho. injection Ho as ->. cbn [expr_level]. fold lvs. lia.
    - destruct Hwf as [Hne [Hw0 Hall]]. rewrite print_bin.
      set (k := pred (expr_level cfg (EBin e0 rest))). unfold wrap.
      destruct (Nat.leb (expr_level cfg e0) k) eqn:Hle.
      + destruct (IHe0 Hw0) as [t [ts [Hp Ht]]]. rewrite Hp. eexists _, _. split; [reflexivity|].
        intros o Ho. specialize (Ht o Ho). apply Nat.leb_le in Hle. unfold k in Hle. lia.
      + eexists _, _. split; [reflexivity|]. intros o Ho; discriminate.
    - destruct Hwf as [Hk [Hws Hwp]]. rewrite print_rx. unfold wrap.
      destruct (Nat.leb (expr_level cfg s) (pred (level_of_op lvs o))) eqn:Hle.
      + destruct (IHs Hws) as [t [ts [Hp Ht]]]. rewrite Hp. eexists _, _. split; [reflexivity|].
        intros o' Ho. specialize (Ht o' Ho). apply Nat.leb_le in Hle. cbn [expr_level]. fold lvs. lia.
      + eexists _, _. split; [reflexivity|]. intros o' Ho; discriminate.
  Qed.

  (* ---------------- atoms *)
  Definition p_kw (w : string) (r : list token) : option (expr * list token) :=
    match r with
    | t1 :: TWord x :: t2 :: r' =>
        match tok_lit t1, tok_lit t2 with
        | Some l1, Some l2 => if String.eqb x "to" then Some (ERange w l1 l2, r') else p_inlist w r
        | _, _ => p_inlist w r
        end
    | _ => p_inlist w r
    end.

  Lemma p_atom_selkw : forall nested w r, is_selkw cfg w = true ->
    p_atom cfg nested (TWord w :: r) = p_kw w r.
  Proof. intros nested w r H. unfold p_atom. rewrite H. reflexivity. Qed.

  Lemma tok_lit_lit_tok : forall l, tok_lit (lit_tok l) = Some l.
  Proof. destruct l; reflexivity. Qed.

  Lemma take_lits_app : forall ls r, cont_ok 0 r -> take_lits (map lit_tok ls ++ r) = (ls, r).
  Proof.
    induction ls as [|l ls IH]; intros r Hc.
    - simpl. destruct r as [|t r']; [reflexivity|]. destruct Hc as [Hc _]. simpl. rewrite Hc. reflexivity.
    - simpl. rewrite tok_lit_lit_tok. rewrite (IH r Hc). reflexivity.
  Qed.

  Lemma p_kw_bare : forall w r, cont_ok 0 r -> p_kw w r = Some (EKw w, r).
  Proof.
    intros w r Hc. assert (Hin : p_inlist w r = Some (EKw w, r)).
    { unfold p_inlist. change r with (map lit_tok [] ++ r). rewrite (take_lits_app [] r Hc). reflexivity. }
    unfold p_kw. destruct r as [|t1 r1]; [assumption|]. destruct Hc as [Hc _].
    destruct r1 as [|t2 r2]; [assumption|]. destruct t2; try assumption.
    destruct r2 as [|t3 r3]; [assumption|]. rewrite Hc. assumption.
  Qed.

  Lemma p_kw_range : forall w lo hi r,
    p_kw w (lit_tok lo :: TWord "to" :: lit_tok hi :: r) = Some (ERange w lo hi, r).
  Proof. intros. unfold p_kw. rewrite !tok_lit_lit_tok. reflexivity. Qed.

  Lemma p_kw_inlist : forall w ls r, ls <> [] -> inlist_not_range ls -> cont_ok 0 r ->
    p_kw w (map lit_tok ls ++ r) = Some (EInList w ls, r).
  Proof.
    intros w ls r Hne Hnr Hc.
    assert (Hin : p_inlist w (map lit_tok ls ++ r) = Some (EInList w ls, r)).
    { unfold p_inlist. rewrite (take_lits_app ls r Hc). destruct ls; [contradiction|reflexivity]. }
    unfold p_kw. destruct ls as [|l1 ls1]; [contradiction|].
    cbn [map app]. destruct ls1 as [|l2 ls2].
    - (* one literal: the second token is the continuation's head *)
      cbn [map app]. destruct r as [|t r']; [exact Hin|]. destruct Hc as [Hc _].
      destruct t; try exact Hin; discriminate.
    - cbn [map app]. destruct l2 as [x|x|x]; cbn [lit_tok]; try exact Hin.
      destruct ls2 as [|l3 ls3].
      + cbn [map app]. destruct r as [|t r']; [exact Hin|]. destruct Hc as [Hc _].
        rewrite tok_lit_lit_tok, Hc. exact Hin.
      + cbn [map app]. rewrite !tok_lit_lit_tok. simpl in Hnr.
        destruct (String.eqb x "to") eqn:Hx; [apply String.eqb_eq in Hx; contradiction|exact Hin].
  Qed.

  (* ---------------- well-formedness in equational form *)
  Fixpoint wf_rest (lv : nat) (l : list (string * expr)) : Prop :=
    match l with
    | [] => True
    | (o, a) :: l' =>
        op_kind cfg o = Some KBinary /\ level_of_op lvs o = lv /\ wf cfg a /\ wf_rest lv l'
    end.

  Lemma wf_bin : forall e0 rest,
    wf cfg (EBin e0 rest) <-> rest <> [] /\ wf cfg e0 /\ wf_rest (expr_level cfg (EBin e0 rest)) rest.
  Proof.
    intros e0 rest. cbn [wf]. fold lvs. generalize (expr_level cfg (EBin e0 rest)) as lv. intros lv.
    assert (H : forall l,
      (fix all (l : list (string * expr)) : Prop :=
         match l with
         | [] => True
         | (o, a) :: l' => op_kind cfg o = Some KBinary /\ level_of_op lvs o = lv /\ wf cfg a /\ all l'
         end) l <-> wf_rest lv l).
    { induction l as [|[o a] l IH]; [reflexivity|]. cbn [wf_rest]. rewrite IH. reflexivity. }
    rewrite H. reflexivity.
  Qed.

  Lemma level_le_n : forall o, level_of_op lvs o <= n.
  Proof.
    intros o. destruct (level_of_op lvs o) as [|i] eqn:H; [lia|].
    destruct (level_of_op_nth lvs o i H) as [l [Hn _]].
    assert (i < List.length lvs) by (apply nth_error_Some; congruence). unfold n. lia.
  Qed.

  Lemma expr_level_le_n : forall e, expr_level cfg e <= n.
  Proof.
    intros e. destruct e; cbn [expr_level]; try lia; try apply level_le_n.
    destruct rest as [|[o a] rest']; [lia|apply level_le_n].
  Qed.

  (* ---------------- the main induction *)
  Definition good (a : expr) : Prop :=
    forall f k r, expr_level cfg a <= k -> k <= n -> pdepth cfg a <= f -> cont_ok k r ->
      P k f (print cfg a ++ r) = Some (a, r).

  Lemma P_0 : forall f, P 0 f = atomf f.
  Proof. reflexivity. Qed.

  Lemma head_ok_wrap : forall a b r, wf cfg a -> head_ok b (wrap b a ++ r).
  Proof.
    intros a b r Hwf o ts' H. unfold wrap in H. destruct (Nat.leb (expr_level cfg a) b) eqn:Hle.
    - destruct (print_head a Hwf) as [t [ts [Hp Ht]]]. rewrite Hp in H. injection H as -> _.
      specialize (Ht o eq_refl). apply Nat.leb_le in Hle. lia.
    - discriminate.
  Qed.

  Lemma operand : forall a, wf cfg a -> good a -> forall b f r, b <= n -> wdepth b a <= f -> cont_ok b r ->
    P b f (wrap b a ++ r) = Some (a, r).
  Proof.
    intros a Hwf Hg b f r Hb Hd Hc. pose proof (head_ok_wrap a b r Hwf) as Hh.
    unfold wrap, wdepth in *. destruct (Nat.leb (expr_level cfg a) b) eqn:Hle.
    - apply Nat.leb_le in Hle. apply Hg; assumption.
    - destruct f as [|f']; [lia|].
      assert (H0 : P 0 (S f') (paren (print cfg a) ++ r) = Some (a, r)).
      { rewrite P_0. unfold atomf, paren. cbn [app p_atom]. rewrite parse_S. rewrite <- app_assoc. cbn [app].
        rewrite (Hg f' n (TRP :: r)); [reflexivity|apply expr_level_le_n|lia|lia|].
        split; [reflexivity|intros o Ho; discriminate]. }
      apply (lift (S f') _ a r 0 b); [lia|assumption|exact H0| |assumption].
      intros o ts' H. unfold paren in H. cbn [app] in H. discriminate.
  Qed.

  Lemma print_rest_length : forall k rest, List.length rest <= List.length (print_rest k rest).
  Proof.
    induction rest as [|[o a] l IH]; [simpl; lia|]. cbn [print_rest List.length]. rewrite app_length. lia.
  Qed.

  Lemma bin_loop_rest : forall i l f, nth_error lvs i = Some l -> i <= n ->
    forall rest m r,
      Forall (fun p => wf cfg (snd p) /\ good (snd p) /\ mem_str (fst p) (lv_ops l) = true) rest ->
      List.length rest <= m -> rest_depth i rest <= f -> cont_ok (S i) r ->
      bin_loop (lv_ops l) (P i f) m (print_rest i rest ++ r) = (rest, r).
  Proof.
    intros i l f Hn Hi. induction rest as [|[o a] rest IH]; intros m r HF Hm Hd Hc.
    - cbn [print_rest app]. apply bin_loop_stop. intros o r' ->.
      destruct (mem_str o (lv_ops l)) eqn:Hmem; [|reflexivity].
      apply (level_mem i l o Hn) in Hmem. destruct Hc as [_ Hc]. specialize (Hc o eq_refl). lia.
    - inversion HF as [|? ? [Hwa [Hga Hmem]] HF']; subst. cbn [fst snd] in *.
      destruct m as [|m']; [simpl in Hm; lia|].
      cbn [print_rest app bin_loop]. rewrite Hmem. cbn [rest_depth] in Hd.
      rewrite <- app_assoc.
      rewrite (operand a Hwa Hga i f (print_rest i rest ++ r)); [| assumption | lia | ].
      + rewrite (IH m' r HF'); [reflexivity|simpl in Hm; lia|lia|assumption].
      + destruct rest as [|[o' a'] rest'].
        * cbn [print_rest app]. eapply cont_ok_mono; [|eassumption]. lia.
        * cbn [print_rest app]. split; [reflexivity|]. intros o'' Ho. injection Ho as <-.
          inversion HF' as [|? ? [_ [_ Hmem']] _]; subst. cbn [fst] in Hmem'.
          apply (level_mem i l o' Hn) in Hmem'. lia.
  Qed.

  Lemma wf_rest_Forall : forall lv i l rest, lv = S i -> nth_error lvs i = Some l ->
    wf_rest lv rest -> Forall (fun p => good (snd p)) rest ->
    Forall (fun p => wf cfg (snd p) /\ good (snd p) /\ mem_str (fst p) (lv_ops l) = true) rest.
  Proof.
    intros lv i l rest Hlv Hn. induction rest as [|[o a] rest IH]; intros Hw Hg; [constructor|].
    destruct Hw as [Hk [Hl [Hwa Hw']]]. inversion Hg as [|? ? Hga Hg']; subst. constructor.
    - cbn [fst snd] in *. repeat split; try assumption. apply (level_mem i l o Hn). assumption.
    - apply IH; assumption.
  Qed.

  Lemma goods : forall lv rest, wf_rest lv rest ->
    Forall (fun p => wf cfg (snd p) -> good (snd p)) rest -> Forall (fun p => good (snd p)) rest.
  Proof.
    intros lv rest. induction rest as [|[o a] rest IH]; intros Hw HF; [constructor|].
    destruct Hw as [_ [_ [Hwa Hw']]]. inversion HF as [|? ? Hx Hxs]; subst.
    constructor; [apply Hx; assumption|apply IH; assumption].
  Qed.

  Theorem print_parse_levels : forall e, wf cfg e -> good e.
  Proof.
    induction e as [k|l|k lo hi|k ls|o a IHa|e0 rest IHe0 IHrest|o s p IHs IHp] using expr_ind';
      intros Hwf f kk r Hlev Hkn Hdep Hc.
    - (* keyword *)
      cbn [wf] in Hwf. apply (lift f _ (EKw k) r 0 kk); [lia|assumption| | |assumption].
      + rewrite P_0. unfold atomf. cbn [print app]. rewrite (p_atom_selkw _ k r Hwf).
        apply p_kw_bare. eapply cont_ok_mono; [|eassumption]. lia.
      + intros o ts' H. discriminate.
    - (* literal *)
      apply (lift f _ (ELit l) r 0 kk); [lia|assumption| | |assumption].
      + rewrite P_0. unfold atomf. cbn [print app]. destruct l as [w|w|w]; cbn [lit_tok p_atom]; try reflexivity.
        cbn [wf] in Hwf. rewrite Hwf. reflexivity.
      + intros o ts' H. destruct l; discriminate.
    - (* range *)
      cbn [wf] in Hwf. apply (lift f _ (ERange k lo hi) r 0 kk); [lia|assumption| | |assumption].
      + rewrite P_0. unfold atomf. cbn [print app]. rewrite (p_atom_selkw _ k _ Hwf). apply p_kw_range.
      + intros o ts' H. discriminate.
    - (* in-list *)
      cbn [wf] in Hwf. destruct Hwf as [Hk [Hne Hnr]].
      apply (lift f _ (EInList k ls) r 0 kk); [lia|assumption| | |assumption].
      + rewrite P_0. unfold atomf. cbn [print app]. rewrite (p_atom_selkw _ k _ Hk).
        apply p_kw_inlist; try assumption. eapply cont_ok_mono; [|eassumption]. lia.
      + intros o ts' H. discriminate.
    - (* unary *)
      cbn [wf] in Hwf. destruct Hwf as [Hk Hwa].
      destruct (op_kind_level o KUnary Hk) as [i [l [Hl [Hn [Hkind Hin]]]]].
      cbn [expr_level] in Hlev. fold lvs in Hlev. rewrite Hl in Hlev.
      apply (lift f _ (EUn o a) r (S i) kk); [assumption|assumption| | |assumption].
      + rewrite print_un, Hl. cbn [app].
        assert (Hrec : P (S i) f (wrap (S i) a ++ r) = Some (a, r)).
        { apply operand; [assumption|apply IHa; assumption|assumption| |eapply cont_ok_mono; [|eassumption]; assumption].
          cbn [pdepth] in Hdep. fold lvs in Hdep. rewrite Hl in Hdep. exact Hdep. }
        rewrite (P_S i f l Hn) in *. unfold p_level in *. rewrite Hkind in *.
        rewrite p_unary_cons. assert (Hm : mem_str o (lv_ops l) = true) by (apply (level_mem i l o Hn); assumption).
        rewrite Hm, Hrec. reflexivity.
      + intros o' ts' H. rewrite print_un in H. cbn [app] in H. injection H as <- _. lia.
    - (* binary chain *)
      apply wf_bin in Hwf. destruct Hwf as [Hne [Hw0 Hwr]].
      destruct rest as [|[o1 a1] rest']; [contradiction|].
      pose proof Hwr as Hwr0. destruct Hwr0 as [Hk1 [Hl1 _]].
      destruct (op_kind_level o1 KBinary Hk1) as [i [l [Hl [Hn [Hkind Hin]]]]].
      assert (Hlv : expr_level cfg (EBin e0 ((o1, a1) :: rest')) = S i) by (cbn [expr_level]; fold lvs; assumption).
      rewrite Hlv in Hlev.
      apply (lift f _ (EBin e0 ((o1, a1) :: rest')) r (S i) kk); [assumption|assumption| | |assumption].
      + rewrite print_bin. rewrite pdepth_bin in Hdep. rewrite Hlv in *. cbn [pred] in *.
        set (rest := (o1, a1) :: rest') in *.
        rewrite (P_S i f l Hn). unfold p_level. rewrite Hkind. unfold p_binary.
        rewrite <- app_assoc.
        rewrite (operand e0 Hw0 (IHe0 Hw0) i f (print_rest i rest ++ r)); [|lia|lia|].
        * rewrite (bin_loop_rest i l f Hn ltac:(lia) rest _ r); [reflexivity| | | |].
          -- eapply wf_rest_Forall; [reflexivity|eassumption|eassumption|].
             eapply goods; eassumption.
          -- rewrite app_length. pose proof (print_rest_length i rest). lia.
          -- lia.
          -- eapply cont_ok_mono; [|eassumption]. assumption.
        * unfold rest. cbn [print_rest app]. split; [reflexivity|]. intros o' Ho. injection Ho as <-. lia.
      + rewrite print_bin. rewrite Hlv. cbn [pred]. intros o' ts' H.
        rewrite <- app_assoc in H.
        pose proof (head_ok_wrap e0 i (print_rest i ((o1, a1) :: rest') ++ r) Hw0 o' ts' H). lia.
    - (* regex *)
      cbn [wf] in Hwf. destruct Hwf as [Hk [Hws Hwp]].
      destruct (op_kind_level o KRegex Hk) as [i [l [Hl [Hn [Hkind Hin]]]]].
      cbn [expr_level] in Hlev. fold lvs in Hlev. rewrite Hl in Hlev.
      apply (lift f _ (ERx o s p) r (S i) kk); [assumption|assumption| | |assumption].
      + rewrite print_rx, Hl. cbn [pred]. cbn [pdepth] in Hdep. fold lvs in Hdep. rewrite Hl in Hdep. cbn [pred] in Hdep.
        fold (wdepth i s) in Hdep. fold (wdepth i p) in Hdep.
        rewrite (P_S i f l Hn). unfold p_level. rewrite Hkind. unfold p_regex.
        rewrite <- app_assoc. change ((TOp o :: wrap i p) ++ r) with (TOp o :: wrap i p ++ r).
        rewrite (operand s Hws (IHs Hws) i f (TOp o :: wrap i p ++ r)); [|lia|lia|].
        * assert (Hm : mem_str o (lv_ops l) = true) by (apply (level_mem i l o Hn); assumption).
          assert (Hb : forall m, 1 <= m -> bin_loop (lv_ops l) (P i f) m (TOp o :: wrap i p ++ r) = ([(o, p)], r)).
          { intros m Hm1. pose proof (bin_loop_rest i l f Hn ltac:(lia) [(o, p)] m r) as Hb.
            cbn [print_rest] in Hb. rewrite app_nil_r in Hb. cbn [app] in Hb. apply Hb.
            - constructor; [|constructor]. cbn [fst snd]. repeat split; [assumption|apply IHp; assumption|assumption].
            - cbn [List.length]. lia.
            - cbn [rest_depth]. lia.
            - eapply cont_ok_mono; [|eassumption]. assumption. }
          rewrite Hb; [reflexivity|]. cbn [List.length]. lia.
        * cbn [app]. split; [reflexivity|]. intros o' Ho. injection Ho as <-. lia.
      + rewrite print_rx, Hl. cbn [pred]. intros o' ts' H.
        rewrite <- app_assoc in H.
        pose proof (head_ok_wrap s i ((TOp o :: wrap i p) ++ r) Hws o' ts' H). lia.
  Qed.

  Lemma wdepth_le : forall k a, pdepth cfg a <= List.length (print cfg a) -> wdepth k a <= List.length (wrap k a).
  Proof.
    intros k a H. unfold wdepth, wrap. destruct (Nat.leb (expr_level cfg a) k); [assumption|].
    unfold paren. cbn [List.length]. rewrite app_length. cbn [List.length]. lia.
  Qed.

  Lemma pdepth_le_length : forall e, pdepth cfg e <= List.length (print cfg e).
  Proof.
    induction e as [k|l|k lo hi|k ls|o a IHa|e0 rest IHe0 IHrest|o s p IHs IHp] using expr_ind';
      try (cbn [pdepth]; lia).
    - change (pdepth cfg (EUn o a)) with (wdepth (level_of_op lvs o) a). rewrite print_un. cbn [List.length].
      pose proof (wdepth_le (level_of_op lvs o) a IHa). lia.
    - rewrite pdepth_bin, print_bin, app_length.
      generalize (pred (expr_level cfg (EBin e0 rest))) as k. intros k.
      pose proof (wdepth_le k e0 IHe0).
      assert (rest_depth k rest <= List.length (print_rest k rest)).
      { induction IHrest as [|[o a] rs Hx Hxs IH]; [simpl; lia|]. cbn [rest_depth print_rest List.length].
        rewrite app_length. pose proof (wdepth_le k a Hx). lia. }
      lia.
    - change (pdepth cfg (ERx o s p)) with (Nat.max (wdepth (pred (level_of_op lvs o)) s) (wdepth (pred (level_of_op lvs o)) p)).
      rewrite print_rx, app_length. cbn [List.length].
      pose proof (wdepth_le (pred (level_of_op lvs o)) s IHs). pose proof (wdepth_le (pred (level_of_op lvs o)) p IHp). lia.
  Qed.

  (* parse (print e) = e : the tokens printed with minimal parentheses parse back to the same tree *)
  Theorem parse_print_tokens : forall e, wf cfg e -> parse_all cfg (print cfg e) = Some e.
  Proof.
    intros e Hwf. unfold parse_all. rewrite parse_S.
    pose proof (print_parse_levels e Hwf (List.length (print cfg e)) n [] (expr_level_le_n e) (le_n _)
                  (pdepth_le_length e) I) as H.
    rewrite app_nil_r in H. rewrite H. reflexivity.
  Qed.
End Main.
