(* C12 - rejections: whatever the operator table, every token sequence the grammar accepts is bracketed,
   free of unconsumable characters, starts with an operand starter and ends with an operand ender;
   plus the constructor-time and compile-time rejections. *)
From Coq Require Import List String Ascii ZArith Bool Arith Lia.
Require Import MD.Select.Syntax MD.Select.Model MD.Select.ParsePrint.
Import ListNotations.
Local Open Scope list_scope.

Definition is_lp (t : token) : bool := match t with TLP => true | _ => false end.
Definition is_rp (t : token) : bool := match t with TRP => true | _ => false end.
Definition n_lp (ts : list token) : nat := List.length (filter is_lp ts).
Definition n_rp (ts : list token) : nat := List.length (filter is_rp ts).

(* a token that can end an operand *)
Definition ender (t : token) : bool :=
  match t with TRP | TWord _ | TNum _ | TStr _ => true | _ => false end.

Definition unary_ops (cfg : config) : list string :=
  flat_map (fun l => match lv_kind l with KUnary => lv_ops l | _ => [] end) (levels cfg).

(* a token that can start an operand *)
Definition starter (cfg : config) (t : token) : bool :=
  match t with
  | TLP | TWord _ | TNum _ | TStr _ => true
  | TOp o => mem_str o (unary_ops cfg)
  | _ => false
  end.

Definition is_bad (t : token) : bool := match t with TBad => true | _ => false end.

(* properties of a consumed, possibly empty, stretch of tokens *)
Record QS (pre : list token) : Prop := {
  qs_bal : n_lp pre = n_rp pre;
  qs_nobad : existsb is_bad pre = false;
  qs_end : pre = [] \/ exists a t, pre = a ++ [t] /\ ender t = true }.

(* ... of a complete operand *)
Record Q (cfg : config) (pre : list token) : Prop := {
  q_qs : QS pre;
  q_start : exists t a, pre = t :: a /\ starter cfg t = true }.

Lemma n_lp_app : forall a b, n_lp (a ++ b) = n_lp a + n_lp b.
Proof. intros. unfold n_lp. rewrite filter_app, app_length. reflexivity. Qed.
Lemma n_rp_app : forall a b, n_rp (a ++ b) = n_rp a + n_rp b.
Proof. intros. unfold n_rp. rewrite filter_app, app_length. reflexivity. Qed.

Lemma QS_nil : QS [].
Proof. constructor; [reflexivity|reflexivity|left; reflexivity]. Qed.

Lemma QS_app : forall a b, QS a -> QS b -> QS (a ++ b).
Proof.
  intros a b [Ha1 Ha2 Ha3] [Hb1 Hb2 Hb3]. constructor.
  - rewrite n_lp_app, n_rp_app. lia.
  - rewrite existsb_app, Ha2, Hb2. reflexivity.
  - destruct Hb3 as [->|[b' [t [-> Ht]]]].
    + rewrite app_nil_r. assumption.
    + right. exists (a ++ b'), t. split; [rewrite app_assoc; reflexivity|assumption].
Qed.

Lemma QS_op_cons : forall o a, QS a -> a <> [] -> QS (TOp o :: a).
Proof.
  intros o a [H1 H2 H3] Hne. constructor.
  - unfold n_lp, n_rp in *. cbn [filter is_lp is_rp]. assumption.
  - cbn [existsb is_bad orb]. assumption.
  - destruct H3 as [->|[a' [t [-> Ht]]]]; [contradiction|]. right. exists (TOp o :: a'), t. split; [reflexivity|assumption].
Qed.

Lemma Q_nonempty : forall cfg a, Q cfg a -> a <> [].
Proof. intros cfg a [_ [t [a' [-> _]]]]. discriminate. Qed.

Lemma Q_single : forall cfg t, starter cfg t = true -> ender t = true -> is_bad t = false -> is_lp t = false -> is_rp t = false -> Q cfg [t].
Proof.
  intros cfg t Hs He Hb Hl Hr. constructor.
  - constructor.
    + unfold n_lp, n_rp. cbn [filter]. rewrite Hl, Hr. reflexivity.
    + cbn [existsb]. rewrite Hb. reflexivity.
    + right. exists [], t. split; [reflexivity|assumption].
  - exists t, []. split; [reflexivity|assumption].
Qed.

(* literal tokens *)
Lemma QS_lit_tok : forall t l, tok_lit t = Some l -> QS [t].
Proof.
  intros t l H. destruct t; try discriminate.
  - constructor; [reflexivity|reflexivity|right; exists [], (TWord s); split; reflexivity].
  - constructor; [reflexivity|reflexivity|right; exists [], (TNum s); split; reflexivity].
  - constructor; [reflexivity|reflexivity|right; exists [], (TStr s); split; reflexivity].
Qed.

Lemma QS_lits : forall ts ls r, take_lits ts = (ls, r) ->
  exists pre, ts = pre ++ r /\ QS pre /\ (ls = [] -> pre = []) /\ (ls <> [] -> pre <> []).
Proof.
  induction ts as [|t ts IH]; intros ls r H.
  - cbn in H. injection H as <- <-. exists []. split; [reflexivity|]. split; [apply QS_nil|].
    split; [reflexivity|intros Hn; contradiction].
  - cbn [take_lits] in H. destruct (tok_lit t) as [l|] eqn:Hl.
    + destruct (take_lits ts) as [ls' r'] eqn:Ht. injection H as <- <-.
      destruct (IH ls' r' eq_refl) as [pre [-> [Hqs _]]]. exists (t :: pre). split; [reflexivity|]. split.
      * change (t :: pre) with ([t] ++ pre). apply QS_app; [eapply QS_lit_tok; eassumption|assumption].
      * split; discriminate.
    + injection H as <- <-. exists []. split; [reflexivity|]. split; [apply QS_nil|].
      split; [reflexivity|intros Hn; contradiction].
Qed.

Definition sound (cfg : config) (p : parser) : Prop :=
  forall ts e r, p ts = Some (e, r) -> exists pre, ts = pre ++ r /\ Q cfg pre.

Lemma Q_word_lits : forall cfg w pre, QS pre -> Q cfg (TWord w :: pre).
Proof.
  intros cfg w pre Hqs. constructor.
  - change (TWord w :: pre) with ([TWord w] ++ pre). apply QS_app; [|assumption].
    constructor; [reflexivity|reflexivity|right; exists [], (TWord w); split; reflexivity].
  - exists (TWord w), pre. split; reflexivity.
Qed.

Lemma sound_inlist : forall cfg w r e r', p_inlist w r = Some (e, r') ->
  exists pre, TWord w :: r = pre ++ r' /\ Q cfg pre.
Proof.
  intros cfg w r e r' H. unfold p_inlist in H. destruct (take_lits r) as [ls rr] eqn:Ht.
  destruct (QS_lits r ls rr Ht) as [pre [-> [Hqs [Hnil _]]]].
  destruct ls as [|l ls'].
  - injection H as <- <-. rewrite (Hnil eq_refl). exists [TWord w]. split; [reflexivity|]. apply (Q_word_lits cfg w []). apply QS_nil.
  - injection H as <- <-. exists (TWord w :: pre). split; [reflexivity|]. apply Q_word_lits. assumption.
Qed.

Lemma sound_atom : forall cfg nested, sound cfg nested -> sound cfg (p_atom cfg nested).
Proof.
  intros cfg nested Hn ts e r H. destruct ts as [|t ts]; [discriminate|]. destruct t; cbn [p_atom] in H; try discriminate.
  - (* parenthesis *)
    destruct (nested ts) as [[e' r']|] eqn:Hnest; [|discriminate]. destruct r' as [|t' r'']; [discriminate|].
    destruct t'; try discriminate. injection H as -> ->. destruct (Hn ts e (TRP :: r) Hnest) as [pre [-> [[Hb Hnb He] Hs]]].
    exists (TLP :: pre ++ [TRP]). split; [cbn [app]; rewrite <- app_assoc; reflexivity|]. constructor.
    + constructor.
      * change (TLP :: pre ++ [TRP]) with ([TLP] ++ pre ++ [TRP]). rewrite !n_lp_app, !n_rp_app. unfold n_lp, n_rp in *. cbn. lia.
      * cbn [existsb is_bad orb]. rewrite existsb_app, Hnb. reflexivity.
      * right. exists (TLP :: pre), TRP. split; reflexivity.
    + exists TLP, (pre ++ [TRP]). split; reflexivity.
  - (* word *)
    destruct (is_selkw cfg s) eqn:Hk.
    + assert (Hcases : p_inlist s ts = Some (e, r) \/
                       exists t1 x t2 l1 l2, ts = t1 :: TWord x :: t2 :: r /\ tok_lit t1 = Some l1 /\ tok_lit t2 = Some l2 /\ e = ERange s l1 l2).
      { destruct ts as [|t1 ts1]; [left; assumption|]. destruct ts1 as [|t2 ts2]; [left; assumption|].
        destruct t2; try (left; assumption). destruct ts2 as [|t3 ts3]; [left; assumption|].
        destruct (tok_lit t1) as [l1|] eqn:H1; [|left; assumption]. destruct (tok_lit t3) as [l3|] eqn:H3; [|left; assumption].
        destruct (String.eqb s0 "to"); [|left; assumption]. injection H as <- <-. right. exists t1, s0, t3, l1, l3. repeat split; assumption. }
      destruct Hcases as [Hin|[t1 [x [t2 [l1 [l2 [-> [H1 [H2 ->]]]]]]]]].
      * eapply sound_inlist; eassumption.
      * exists [TWord s; t1; TWord x; t2]. split; [reflexivity|]. apply Q_word_lits.
        pose proof QS_lit_tok as Hl.
        change [t1; TWord x; t2] with ([t1] ++ [TWord x] ++ [t2]). apply QS_app; [eapply Hl; eassumption|].
        apply QS_app; [eapply (Hl (TWord x)); reflexivity|eapply Hl; eassumption].
    + injection H as <- <-. exists [TWord s]. split; [reflexivity|]. apply (Q_word_lits cfg s []). apply QS_nil.
  - injection H as <- <-. exists [TNum s]. split; [reflexivity|]. apply Q_single; reflexivity.
  - injection H as <- <-. exists [TStr s]. split; [reflexivity|]. apply Q_single; reflexivity.
Qed.

Lemma Q_unary : forall cfg o pre, mem_str o (unary_ops cfg) = true -> Q cfg pre -> Q cfg (TOp o :: pre).
Proof.
  intros cfg o pre Hm HQ. pose proof (Q_nonempty cfg pre HQ) as Hne. destruct HQ as [Hqs _]. constructor.
  - apply QS_op_cons; assumption.
  - exists (TOp o), pre. split; [reflexivity|assumption].
Qed.

Lemma sound_unary : forall cfg ops lower,
  (forall o, mem_str o ops = true -> mem_str o (unary_ops cfg) = true) ->
  sound cfg lower -> sound cfg (p_unary ops lower).
Proof.
  intros cfg ops lower Hops Hl. intros ts. induction ts as [|t ts IH]; intros e r H.
  - apply Hl in H. assumption.
  - destruct t; try (apply Hl in H; assumption).
    rewrite p_unary_cons in H. destruct (mem_str s ops) eqn:Hm; [|apply Hl in H; assumption].
    destruct (p_unary ops lower ts) as [[e' r']|] eqn:Hu; [|apply Hl in H; assumption].
    injection H as <- <-. destruct (IH e' r' eq_refl) as [pre [-> HQ]].
    exists (TOp s :: pre). split; [reflexivity|]. apply Q_unary; [apply Hops; assumption|assumption].
Qed.

Lemma sound_bin_loop : forall cfg ops lower, sound cfg lower ->
  forall n r prs rf, bin_loop ops lower n r = (prs, rf) ->
  exists pre, r = pre ++ rf /\ QS pre /\ (prs = [] -> pre = []).
Proof.
  intros cfg ops lower Hl. induction n as [|n IH]; intros r prs rf H.
  - cbn in H. injection H as <- <-. exists []. split; [reflexivity|]. split; [apply QS_nil|reflexivity].
  - cbn [bin_loop] in H.
    assert (Hstop : (prs, rf) = ([], r) -> exists pre, r = pre ++ rf /\ QS pre /\ (prs = [] -> pre = [])).
    { intros Heq. injection Heq as -> ->. exists []. split; [reflexivity|]. split; [apply QS_nil|reflexivity]. }
    destruct r as [|t r']; [apply Hstop; symmetry; assumption|].
    destruct t; try (apply Hstop; symmetry; assumption).
    destruct (mem_str s ops); [|apply Hstop; symmetry; assumption].
    destruct (lower r') as [[e r'']|] eqn:Hlow; [|apply Hstop; symmetry; assumption].
    destruct (bin_loop ops lower n r'') as [prs' rf'] eqn:Hb. injection H as <- <-.
    destruct (Hl r' e r'' Hlow) as [pre1 [-> HQ1]]. destruct (IH r'' prs' rf' Hb) as [pre2 [-> [HQ2 _]]].
    exists (TOp s :: pre1 ++ pre2). split; [cbn [app]; rewrite <- app_assoc; reflexivity|]. split; [|discriminate].
    apply QS_op_cons.
    + apply QS_app; [destruct HQ1; assumption|assumption].
    + pose proof (Q_nonempty cfg pre1 HQ1). destruct pre1; [contradiction|discriminate].
Qed.

Lemma Q_app_QS : forall cfg a b, Q cfg a -> QS b -> Q cfg (a ++ b).
Proof.
  intros cfg a b [Ha [t [a' [-> Hs]]]] Hb. constructor.
  - apply QS_app; assumption.
  - exists t, (a' ++ b). split; [reflexivity|assumption].
Qed.

Lemma sound_binary : forall cfg ops lower, sound cfg lower -> sound cfg (p_binary ops lower).
Proof.
  intros cfg ops lower Hl ts e r H. unfold p_binary in H.
  destruct (lower ts) as [[e1 r1]|] eqn:Hlow; [|discriminate].
  destruct (bin_loop ops lower (List.length r1) r1) as [prs rf] eqn:Hb.
  destruct (Hl ts e1 r1 Hlow) as [pre1 [-> HQ1]].
  destruct (sound_bin_loop cfg ops lower Hl _ _ _ _ Hb) as [pre2 [-> [HQ2 Hnil]]].
  destruct prs as [|pr prs'].
  - injection H as <- <-. rewrite (Hnil eq_refl). exists pre1. split; [reflexivity|assumption].
  - injection H as <- <-. exists (pre1 ++ pre2). split; [rewrite app_assoc; reflexivity|apply Q_app_QS; assumption].
Qed.

Lemma sound_regex : forall cfg ops lower, sound cfg lower -> sound cfg (p_regex ops lower).
Proof.
  intros cfg ops lower Hl ts e r H. unfold p_regex in H.
  destruct (lower ts) as [[e1 r1]|] eqn:Hlow; [|discriminate].
  destruct (bin_loop ops lower (List.length r1) r1) as [prs rf] eqn:Hb.
  destruct (Hl ts e1 r1 Hlow) as [pre1 [Heq HQ1]].
  destruct (sound_bin_loop cfg ops lower Hl _ _ _ _ Hb) as [pre2 [Heq2 [HQ2 Hnil]]].
  assert (Hfall : Some (e1, r1) = Some (e, r) -> exists pre, ts = pre ++ r /\ Q cfg pre).
  { intros Hx. injection Hx as <- <-. exists pre1. split; assumption. }
  destruct prs as [|[o e2] prs']; [apply Hfall; assumption|].
  destruct prs' as [|pr prs'']; [|apply Hfall; assumption].
  injection H as <- <-. subst. exists (pre1 ++ pre2). split; [rewrite app_assoc; reflexivity|apply Q_app_QS; assumption].
Qed.

Lemma unary_ops_level : forall cfg l, In l (levels cfg) -> lv_kind l = KUnary ->
  forall o, mem_str o (lv_ops l) = true -> mem_str o (unary_ops cfg) = true.
Proof.
  intros cfg l Hin Hk o Hm. apply mem_str_In. apply mem_str_In in Hm. unfold unary_ops. apply in_flat_map.
  exists l. split; [assumption|]. rewrite Hk. assumption.
Qed.

Lemma sound_levels : forall cfg lvs atom, (forall l, In l lvs -> In l (levels cfg)) ->
  sound cfg atom -> sound cfg (p_levels lvs atom).
Proof.
  intros cfg lvs. induction lvs as [|l lvs IH] using rev_ind; intros atom Hsub Ha; [assumption|].
  rewrite p_levels_snoc. assert (Hlow : sound cfg (p_levels lvs atom)).
  { apply IH; [|assumption]. intros l' Hl'. apply Hsub. apply in_or_app. left. assumption. }
  unfold p_level. destruct (lv_kind l) eqn:Hk.
  - apply sound_unary; [|assumption]. apply (unary_ops_level cfg l); [|assumption]. apply Hsub. apply in_or_app. right. left. reflexivity.
  - apply sound_binary. assumption.
  - apply sound_regex. assumption.
Qed.

Lemma sound_parse : forall cfg fuel, sound cfg (parse cfg fuel).
Proof.
  intros cfg. induction fuel as [|f IH].
  - intros ts e r H. discriminate.
  - cbn [parse]. apply sound_levels; [intros l Hl; assumption|]. apply sound_atom. assumption.
Qed.

(* ------------------------------------------------------------------ the token-level rejections *)
Theorem accepted_tokens_shape : forall cfg ts e, parse_all cfg ts = Some e ->
  n_lp ts = n_rp ts /\ existsb is_bad ts = false /\
  (exists t a, ts = t :: a /\ starter cfg t = true) /\ (exists a t, ts = a ++ [t] /\ ender t = true).
Proof.
  intros cfg ts e H. unfold parse_all in H.
  destruct (parse cfg (S (List.length ts)) ts) as [[e' r]|] eqn:Hp; [|discriminate].
  destruct r; [|discriminate]. destruct (sound_parse cfg _ ts e' [] Hp) as [pre [Heq [[Hb Hn He] Hs]]].
  rewrite app_nil_r in Heq. subst pre. repeat split; try assumption.
  destruct He as [->|He]; [|assumption]. destruct Hs as [t [a [Hx _]]]. discriminate.
Qed.

Definition rejected (cfg : config) (strict : bool) (ts : list token) : Prop :=
  forall atoms, select_tokens cfg strict atoms ts = Rejected.

Lemma parse_none_rejected : forall cfg strict ts, parse_all cfg ts = None -> rejected cfg strict ts.
Proof. intros cfg strict ts H atoms. unfold select_tokens, run_compiled, compile_tokens, compile_parsed. rewrite H. reflexivity. Qed.

(* empty input; unbalanced parentheses; a character no grammar element consumes; an operator (or an opening
   parenthesis) at the end; a non-unary operator or a closing parenthesis at the start *)
Theorem malformed_tokens_rejected : forall cfg strict ts,
  ts = [] \/ n_lp ts <> n_rp ts \/ In TBad ts \/
  (exists a t, ts = a ++ [t] /\ ender t = false) \/
  (exists t a, ts = t :: a /\ starter cfg t = false) ->
  rejected cfg strict ts.
Proof.
  intros cfg strict ts H. apply parse_none_rejected. destruct (parse_all cfg ts) as [e|] eqn:Hp; [|reflexivity].
  exfalso. destruct (accepted_tokens_shape cfg ts e Hp) as [Hb [Hn [[t [a [Hs Hst]]] [a' [t' [He Het]]]]]].
  destruct H as [->|[H|[H|[[a2 [t2 [-> Ht2]]]|[t2 [a2 [-> Ht2]]]]]]].
  - discriminate.
  - contradiction.
  - assert (existsb is_bad ts = true) by (apply existsb_exists; exists TBad; split; [assumption|reflexivity]). congruence.
  - apply app_inj_tail in He. destruct He as [_ <-]. congruence.
  - injection Hs as <- _. congruence.
Qed.

(* ------------------------------------------------------------------ rejections decided on the parse tree *)
Inductive sub : expr -> expr -> Prop :=
| sub_refl : forall e, sub e e
| sub_un : forall e' o a, sub e' a -> sub e' (EUn o a)
| sub_bin0 : forall e' e0 rest, sub e' e0 -> sub e' (EBin e0 rest)
| sub_binr : forall e' e0 rest o a, In (o, a) rest -> sub e' a -> sub e' (EBin e0 rest)
| sub_rxs : forall e' o s p, sub e' s -> sub e' (ERx o s p)
| sub_rxp : forall e' o s p, sub e' p -> sub e' (ERx o s p).

Lemma ctor_ok_rest : forall cfg rest,
  (fix all_ok (l : list (string * expr)) : bool :=
     match l with [] => true | (_, a) :: l' => ctor_ok cfg a && all_ok l' end) rest = true ->
  forall o a, In (o, a) rest -> ctor_ok cfg a = true.
Proof.
  intros cfg. induction rest as [|[o' a'] rest IH]; intros H o a Hin; [contradiction|].
  apply andb_true_iff in H. destruct H as [H1 H2]. destruct Hin as [Heq|Hin].
  - injection Heq as <- <-. assumption.
  - eapply IH; eassumption.
Qed.

Lemma ctor_ok_sub : forall cfg e' e, sub e' e -> ctor_ok cfg e = true -> ctor_ok cfg e' = true.
Proof.
  intros cfg e' e Hs. induction Hs as [e|e' o a Hs IH|e' e0 rest Hs IH|e' e0 rest o a Hin Hs IH|e' o s p Hs IH|e' o s p Hs IH];
    intros H; [assumption| | | | |]; cbn [ctor_ok] in H.
  - apply andb_true_iff in H. apply IH. tauto.
  - apply andb_true_iff in H. destruct H as [H _]. apply andb_true_iff in H. apply IH. tauto.
  - apply andb_true_iff in H. destruct H as [H _]. apply andb_true_iff in H. destruct H as [_ H].
    apply IH. eapply ctor_ok_rest; eassumption.
  - apply andb_true_iff in H. destruct H as [H _]. apply andb_true_iff in H. apply IH. tauto.
  - apply andb_true_iff in H. apply IH. tauto.
Qed.

(* the shapes the constructors refuse *)
Definition refused_node (cfg : config) (e : expr) : Prop :=
  match e with
  | EUn _ (ELit _) => True                                    (* not LITERAL *)
  | ERx _ (ELit _) _ => True                                  (* LITERAL =~ ... *)
  | EBin e0 rest =>
      match chain_sem cfg rest with
      | Some (SBool _) => existsb is_lit_expr (e0 :: map snd rest) = true   (* a literal under and / or *)
      | Some (SCmp _) => forallb is_lit_expr (e0 :: map snd rest) = true    (* only literals compared *)
      | None => True
      end
  | _ => False
  end.

Lemma refused_node_ctor : forall cfg e, refused_node cfg e -> ctor_ok cfg e = false.
Proof.
  intros cfg e H. destruct e; try contradiction; cbn [refused_node] in H; cbn [ctor_ok].
  - destruct e; try contradiction. reflexivity.
  - destruct (chain_sem cfg rest) as [[b|c]|]; [rewrite H|rewrite H|]; cbn [negb]; apply andb_false_r.
  - destruct e1; try contradiction. reflexivity.
Qed.

Theorem malformed_tree_rejected : forall cfg strict ts e e',
  parse_all cfg ts = Some e -> sub e' e -> refused_node cfg e' -> rejected cfg strict ts.
Proof.
  intros cfg strict ts e e' Hp Hs Hr atoms. unfold select_tokens, run_compiled, compile_tokens, compile_parsed. rewrite Hp.
  destruct (ctor_ok cfg e) eqn:Hc; [|reflexivity].
  pose proof (ctor_ok_sub cfg e' e Hs Hc) as Hc'. rewrite (refused_node_ctor cfg e' Hr) in Hc'. discriminate.
Qed.

(* a single literal: with the repaired test every literal but None/True/False is refused; with the test as
   found the numbers equal to 0 or 1 slip through *)
Theorem single_literal_rejected_fix : forall cfg ts l,
  parse_all cfg ts = Some (ELit l) ->
  (forall w, l = LWord w -> mem_str w safe_names = false) ->
  rejected cfg true ts.
Proof.
  intros cfg ts l Hp Hw atoms. unfold select_tokens, run_compiled, compile_tokens, compile_parsed. rewrite Hp. cbn [ctor_ok negb to_py].
  destruct l as [w|s|s]; cbn [lit_py].
  - rewrite (Hw w eq_refl). destruct (mem_str w (py_kwlist cfg)); [reflexivity|]. cbn [rewrite_names].
    assert (Hn : forall x, mem_str w safe_names = false -> In x safe_names -> String.eqb w x = false).
    { intros x Hm Hin. destruct (String.eqb w x) eqn:Hx; [|reflexivity]. apply String.eqb_eq in Hx. subst x.
      apply (proj2 (mem_str_In w safe_names)) in Hin. congruence. }
    rewrite (Hn "None"%string (Hw w eq_refl)) by (left; reflexivity).
    rewrite (Hn "True"%string (Hw w eq_refl)) by (right; left; reflexivity).
    rewrite (Hn "False"%string (Hw w eq_refl)) by (right; right; left; reflexivity). reflexivity.
  - destruct (num_value s) as [[m e]|]; reflexivity.
  - reflexivity.
Qed.

Theorem single_literal_rejected_cur : forall cfg ts l,
  parse_all cfg ts = Some (ELit l) ->
  (forall w, l = LWord w -> mem_str w safe_names = false) ->
  (forall s m e, l = LNum s -> num_value s = Some (m, e) -> m <> 0%Z /\ m <> pow10 e) ->
  rejected cfg false ts.
Proof.
  intros cfg ts l Hp Hw Hnum atoms. unfold select_tokens, run_compiled, compile_tokens, compile_parsed. rewrite Hp. cbn [ctor_ok negb to_py].
  destruct l as [w|s|s]; cbn [lit_py].
  - rewrite (Hw w eq_refl). destruct (mem_str w (py_kwlist cfg)); [reflexivity|]. cbn [rewrite_names].
    assert (Hn : forall x, In x safe_names -> String.eqb w x = false).
    { intros x Hin. destruct (String.eqb w x) eqn:Hx; [|reflexivity]. apply String.eqb_eq in Hx. subst x.
      apply (proj2 (mem_str_In w safe_names)) in Hin. rewrite (Hw w eq_refl) in Hin. discriminate. }
    rewrite (Hn "None"%string) by (left; reflexivity). rewrite (Hn "True"%string) by (right; left; reflexivity).
    rewrite (Hn "False"%string) by (right; right; left; reflexivity). reflexivity.
  - destruct (num_value s) as [[m e]|] eqn:Hv; [|reflexivity]. destruct (Hnum s m e eq_refl Hv) as [H0 H1].
    cbn [rewrite_names]. unfold in_safe_set, veq. cbn [as_num]. unfold num_compare. cbn [fst snd].
    replace (pow10 0) with 1%Z by reflexivity. rewrite !Z.mul_1_r, Z.mul_1_l, Z.mul_0_l.
    destruct (Z.compare m (pow10 e)) eqn:C1; [apply Z.compare_eq in C1; contradiction| |];
      (destruct (Z.compare m 0) eqn:C0; [apply Z.compare_eq in C0; contradiction|reflexivity|reflexivity]).
  - reflexivity.
Qed.

Fixpoint to_py_rest (cfg : config) (l : list (string * expr)) : option (list pyexpr) :=
  match l with
  | [] => Some []
  | (_, a) :: l' => match to_py cfg a, to_py_rest cfg l' with Some p, Some ps => Some (p :: ps) | _, _ => None end
  end.

Lemma to_py_bin : forall cfg e0 rest,
  to_py cfg (EBin e0 rest) =
  match to_py cfg e0, to_py_rest cfg rest, chain_sem cfg rest with
  | Some p0, Some ps, Some (SBool b) => Some (PBoolOp b (p0 :: ps))
  | Some p0, Some ps, Some (SCmp c) => Some (PCompare p0 [c] ps)
  | _, _, _ => None
  end.
Proof.
  intros cfg e0 rest. cbn [to_py].
  assert (H : forall l,
    (fix go (l : list (string * expr)) : option (list pyexpr) :=
       match l with
       | [] => Some []
       | (_, a) :: l' => match to_py cfg a, go l' with Some p, Some ps => Some (p :: ps) | _, _ => None end
       end) l = to_py_rest cfg l).
  { induction l as [|[o a] l IH]; [reflexivity|]. cbn [to_py_rest]. rewrite IH. reflexivity. }
  rewrite H. reflexivity.
Qed.

Lemma to_py_rest_length : forall cfg rest ps, to_py_rest cfg rest = Some ps -> List.length ps = List.length rest.
Proof.
  intros cfg. induction rest as [|[o a] rest IH]; intros ps H; cbn [to_py_rest] in H.
  - injection H as <-. reflexivity.
  - destruct (to_py cfg a); [|discriminate]. destruct (to_py_rest cfg rest) as [ps'|]; [|discriminate].
    injection H as <-. cbn [List.length]. rewrite (IH ps' eq_refl). reflexivity.
Qed.

(* a chain of three or more operands under one comparison operator compiles to a Compare node with one
   operator and several comparators, which compile() refuses *)
Theorem compare_chain_rejected : forall cfg strict ts e0 p1 p2 rest c,
  parse_all cfg ts = Some (EBin e0 (p1 :: p2 :: rest)) ->
  chain_sem cfg (p1 :: p2 :: rest) = Some (SCmp c) ->
  rejected cfg strict ts.
Proof.
  intros cfg strict ts e0 p1 p2 rest c Hp Hc atoms. unfold select_tokens, run_compiled, compile_tokens, compile_parsed. rewrite Hp.
  destruct (negb (ctor_ok cfg _)); [reflexivity|]. rewrite to_py_bin, Hc.
  destruct (to_py cfg e0) as [q0|]; [|reflexivity].
  destruct (to_py_rest cfg (p1 :: p2 :: rest)) as [qs|] eqn:Hq; [|reflexivity].
  apply to_py_rest_length in Hq. cbn [List.length] in Hq.
  destruct qs as [|x1 [|x2 qs']]; try discriminate.
  cbn [rewrite_names map compile_ok List.length Nat.eqb]. rewrite !andb_false_r. reflexivity.
Qed.
