(* C12 - proofs about the order of the result (coq/Select/Order.v). *)
From Coq Require Import List String ZArith Bool Lia Sorted Permutation.
Require Import MD.Select.Syntax MD.Select.Model MD.Select.Proofs MD.Select.Reference MD.Select.Order.
Import ListNotations.
Local Open Scope list_scope.

Lemma insert_z_perm : forall x l, Permutation (x :: l) (insert_z x l).
Proof.
  intros x. induction l as [|y r IH]; cbn [insert_z]; [apply Permutation_refl|].
  destruct (Z.leb x y); [apply Permutation_refl|].
  eapply Permutation_trans; [apply perm_swap|]. apply perm_skip. exact IH.
Qed.

Lemma isort_perm : forall l, Permutation l (isort l).
Proof.
  induction l as [|x r IH]; cbn [isort]; [apply Permutation_refl|].
  eapply Permutation_trans; [apply perm_skip; exact IH|]. apply insert_z_perm.
Qed.

Lemma insert_z_sorted : forall x l,
  StronglySorted Z.lt l -> ~ In x l -> StronglySorted Z.lt (insert_z x l).
Proof.
  intros x. induction l as [|y r IH]; intros Hs Hnin; cbn [insert_z].
  - constructor; [constructor|constructor].
  - inversion Hs as [|? ? Hr Hall]; subst. destruct (Z.leb x y) eqn:Hxy.
    + apply Z.leb_le in Hxy. assert (Hlt : (x < y)%Z).
      { assert (x <> y) by (intros ->; apply Hnin; left; reflexivity). lia. }
      constructor; [assumption|]. constructor; [assumption|].
      rewrite Forall_forall in *. intros z Hz. specialize (Hall z Hz). lia.
    + apply Z.leb_gt in Hxy. constructor.
      * apply IH; [assumption|]. intros Hin. apply Hnin. right. assumption.
      * rewrite Forall_forall in *. intros z Hz.
        apply (Permutation_in z (Permutation_sym (insert_z_perm x r))) in Hz.
        destruct Hz as [<-|Hz]; [assumption|apply Hall; assumption].
Qed.

Lemma isort_sorted : forall l, NoDup l -> StronglySorted Z.lt (isort l).
Proof.
  induction l as [|x r IH]; intros Hnd; cbn [isort]; [constructor|].
  inversion Hnd as [|? ? Hnin Hr]; subst. apply insert_z_sorted; [apply IH; assumption|].
  intros Hin. apply Hnin. apply (Permutation_in x (Permutation_sym (isort_perm r))). assumption.
Qed.

Lemma nodup_map_filter : forall (f : atom -> bool) atoms,
  NoDup (map a_index atoms) -> NoDup (map a_index (filter f atoms)).
Proof.
  intros f. induction atoms as [|a r IH]; intros H; [constructor|].
  cbn [map] in H. inversion H as [|? ? Hnin Hr]; subst. cbn [filter]. destruct (f a).
  - cbn [map]. constructor; [|apply IH; assumption].
    intros Hin. apply Hnin. apply in_map_iff in Hin. destruct Hin as [b [Hb Hinb]].
    rewrite <- Hb. apply in_map. apply filter_In in Hinb. tauto.
  - apply IH; assumption.
Qed.

(* the as-found result: the indices of the selected atoms in the order of the atom list, whatever that order is *)
Lemma select_str_sel_comprehension : forall cfg strict atoms s l,
  select_str cfg strict atoms s = Sel l ->
  exists p, l = comprehension (attr cfg) p atoms.
Proof.
  intros cfg strict atoms s l H. unfold select_str in H. destruct (lex cfg s) as [ts|]; [|discriminate].
  unfold select_tokens, run_compiled in H. destruct (compile_tokens cfg strict ts) as [p|]; [|discriminate].
  destruct (select_py (attr cfg) p atoms) as [l'|x] eqn:Hsel; [|discriminate]. injection H as <-.
  apply select_py_ok in Hsel. destruct Hsel as [_ ->]. exists p. reflexivity.
Qed.

(* repaired variant, full strength: for EVERY order of the atom list (distinct indices), the result is strictly
   increasing and is a rearrangement of the as-found result; errors and rejections are unchanged *)
Theorem select_sorted_fix : forall cfg strict atoms s,
  NoDup (map a_index atoms) ->
  match select_str cfg strict atoms s with
  | Sel l0 => exists l, select_str_sorted cfg strict atoms s = Sel l /\ StronglySorted Z.lt l /\ Permutation l0 l
                        /\ incl l (map a_index atoms)
  | o => select_str_sorted cfg strict atoms s = o
  end.
Proof.
  intros cfg strict atoms s Hnd. unfold select_str_sorted.
  destruct (select_str cfg strict atoms s) as [l0| | |] eqn:Hsel; try reflexivity.
  exists (isort l0). cbn [sort_outcome]. split; [reflexivity|].
  destruct (select_str_sel_comprehension _ _ _ _ _ Hsel) as [p ->]. unfold comprehension.
  split; [apply isort_sorted; apply nodup_map_filter; assumption|]. split; [apply isort_perm|].
  intros z Hz. apply (Permutation_in z (Permutation_sym (isort_perm _))) in Hz.
  apply in_map_iff in Hz. destruct Hz as [a [<- Ha]]. apply in_map. apply filter_In in Ha. tauto.
Qed.

(* where the atom list is in index order, the repair changes nothing *)
Lemma isort_id : forall l, StronglySorted Z.lt l -> isort l = l.
Proof.
  induction l as [|x r IH]; intros Hs; [reflexivity|]. inversion Hs as [|? ? Hr Hall]; subst.
  cbn [isort]. rewrite (IH Hr). destruct r as [|y r']; [reflexivity|]. cbn [insert_z].
  inversion Hall as [|? ? Hxy _]; subst. destruct (Z.leb x y) eqn:E; [reflexivity|]. apply Z.leb_gt in E. lia.
Qed.

Theorem select_sorted_fix_conservative : forall cfg strict atoms s,
  StronglySorted Z.lt (map a_index atoms) ->
  select_str_sorted cfg strict atoms s = select_str cfg strict atoms s.
Proof.
  intros cfg strict atoms s Hs. unfold select_str_sorted.
  destruct (select_str cfg strict atoms s) as [l0| | |] eqn:Hsel; try reflexivity.
  cbn [sort_outcome]. f_equal. apply isort_id.
  exact (proj1 (select_sorted_nodup cfg strict atoms s l0 Hs Hsel)).
Qed.

(* as found: on the patched topology the result is not increasing *)
Lemma not_sorted_354 : ~ StronglySorted Z.lt [3%Z; 5%Z; 4%Z].
Proof.
  intros H. inversion H as [|? ? Hr _]; subst. inversion Hr as [|? ? _ Hall]; subst.
  inversion Hall as [|? ? Hlt _]; subst. lia.
Qed.

Theorem select_sorted_cur_refuted :
  NoDup (map a_index patched_atoms) /\
  exists l, select_str ref_cfg false patched_atoms "element O"%string = Sel l /\ ~ StronglySorted Z.lt l /\
            select_str_sorted ref_cfg false patched_atoms "element O"%string = Sel [3%Z; 4%Z; 5%Z].
Proof.
  split.
  - cbn. repeat constructor; cbn; intuition discriminate.
  - exists [3%Z; 5%Z; 4%Z]. split; [vm_compute; reflexivity|]. split; [exact not_sorted_354|vm_compute; reflexivity].
Qed.
