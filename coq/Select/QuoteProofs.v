(* C12 - the general scanner of quoted literals (Model.scan_quoted: escaped quotes, the other quote kind inside) agrees
   with the simple form on bodies without backslash and delimiter, and decodes the two escapes of the delimiter. *)
From Coq Require Import List String Ascii Bool Arith.
Require Import MD.Select.Syntax MD.Select.Model.
Import ListNotations.

(* conservative: a body without backslashes that does not contain the delimiter is returned as it is *)
Lemma scan_quoted_plain : forall delim body rest,
  forallb (fun x => negb (is_backslash x) && negb (Ascii.eqb x delim)) body = true ->
  scan_quoted delim (body ++ delim :: rest) = Some (body, rest).
Proof.
  intros delim. induction body as [|c r IH]; intros rest H.
  - cbn [app scan_quoted]. rewrite Ascii.eqb_refl. reflexivity.
  - cbn [forallb] in H. apply andb_true_iff in H. destruct H as [Hc Hr].
    apply andb_true_iff in Hc. destruct Hc as [Hb Hd]. apply negb_true_iff in Hb, Hd.
    cbn [app scan_quoted]. rewrite Hd, Hb, (IH rest Hr). reflexivity.
Qed.

(* an escaped quote (either kind) or an escaped backslash stands for the character itself, and does not end the literal *)
Lemma scan_quoted_escape : forall delim d cs l rest,
  Ascii.eqb (ascii_of_nat 92) delim = false ->
  (is_backslash d || is_quote d) = true ->
  scan_quoted delim cs = Some (l, rest) ->
  scan_quoted delim (ascii_of_nat 92 :: d :: cs) = Some (d :: l, rest).
Proof.
  intros delim d cs l rest Hbs Hd H. cbn [scan_quoted]. rewrite Hbs.
  change (is_backslash (ascii_of_nat 92)) with true. cbn match. rewrite H, Hd. reflexivity.
Qed.

(* the rest starts right after a delimiter of the input: the literal is closed by one *)
Lemma scan_quoted_consumes_n : forall delim n cs l rest,
  List.length cs <= n -> scan_quoted delim cs = Some (l, rest) -> exists pre, cs = pre ++ delim :: rest.
Proof.
  intros delim. induction n as [|n IH]; intros cs l rest Hn H.
  - destruct cs; [discriminate|cbn in Hn; inversion Hn].
  - destruct cs as [|c r]; [discriminate|]. cbn [List.length] in Hn. apply le_S_n in Hn.
    cbn [scan_quoted] in H. destruct (Ascii.eqb c delim) eqn:Hc.
    + injection H as <- <-. apply Ascii.eqb_eq in Hc. subst c. exists []. reflexivity.
    + destruct (is_backslash c).
      * destruct r as [|d r']; [discriminate|].
        destruct (scan_quoted delim r') as [[l' rest']|] eqn:Hs; [|discriminate].
        assert (Hlen : List.length r' <= n) by (cbn [List.length] in Hn; apply le_S_n; apply le_S; exact Hn).
        destruct (IH r' l' rest' Hlen Hs) as [pre Hpre].
        assert (rest = rest').
        { destruct (is_backslash d || is_quote d); [injection H as _ <-; reflexivity|].
          destruct (keeps_backslash d); [injection H as _ <-; reflexivity|discriminate]. }
        subst rest'. exists (c :: d :: pre). rewrite Hpre. reflexivity.
      * destruct (scan_quoted delim r) as [[l' rest']|] eqn:Hs; [|discriminate]. injection H as _ <-.
        destruct (IH r l' rest' Hn Hs) as [pre Hpre]. exists (c :: pre). rewrite Hpre. reflexivity.
Qed.

Lemma scan_quoted_consumes : forall delim cs l rest,
  scan_quoted delim cs = Some (l, rest) -> exists pre, cs = pre ++ delim :: rest.
Proof. intros delim cs l rest. apply (scan_quoted_consumes_n delim (List.length cs)). apply le_n. Qed.

Example scan_quoted_prime :
  scan_quoted "'"%char (list_ascii_of_string "O5\'' CA") = Some (list_ascii_of_string "O5'", list_ascii_of_string " CA").
Proof. vm_compute. reflexivity. Qed.
