(* C12 - writing a token list as a string with a chosen spacing (definitions only), and the boolean predicates
   that delimit the lexer's domain: which tables the lexer can work with ([lexcfg_ok]), which tokens can be
   written ([tok_ok]) and where a blank may be dropped ([follows_ok] / [layout_ok]). *)
From Coq Require Import List String Ascii Arith Bool.
Require Import MD.Select.Syntax MD.Select.Regex MD.Select.Model.
Import ListNotations.
Local Open Scope list_scope.

Definition chars (s : string) : list ascii := list_ascii_of_string s.

Definition is_alnum_c (c : ascii) : bool := is_alpha c || is_digit c.
Definition squote : ascii := "'"%char.

(* a character that sends the lexer into its last branch (symbolic operators) *)
Definition sym_start (c : ascii) : bool :=
  printable c && negb (Ascii.eqb c blank) && negb (Ascii.eqb c "("%char) && negb (Ascii.eqb c ")"%char)
  && negb (is_quote c) && negb (is_nums c) && negb (is_alpha c).

Definition is_word_chars (w : list ascii) : bool :=
  match w with
  | c :: _ => is_alpha c && forallb is_alnum_c w
  | [] => false
  end.

(* the three shapes of operator spellings: a word ("and"), a word with one trailing blank ("not "; the bare
   word must not be an operator itself), a symbolic spelling ("<=") *)
Definition is_word_op (o : string) : bool := is_word_chars (chars o).
Definition is_blank_op (cfg : config) (o : string) : bool :=
  match rev (chars o) with
  | b :: rw => Ascii.eqb b blank && is_word_chars (rev rw)
               && negb (mem_str (string_of_list_ascii (rev rw)) (all_ops cfg))
  | [] => false
  end.
Definition is_sym_op (o : string) : bool :=
  match chars o with c :: _ => sym_start c | [] => false end.

(* characters occurring in symbolic operators: after a symbolic operator none of them may follow directly *)
Definition sym_chars (cfg : config) : list ascii := flat_map chars (sym_ops cfg).

(* tables the lexer can work with: every spelling has one of the three shapes, no symbolic spelling contains a blank *)
Definition lexcfg_ok (cfg : config) : bool :=
  forallb (fun o => is_word_op o || is_blank_op cfg o || is_sym_op o) (all_ops cfg)
  && negb (existsb (Ascii.eqb blank) (sym_chars cfg)).

(* the text written for a token; a blank-terminated operator is written without its blank and must be followed
   by at least one blank *)
Definition tok_text (cfg : config) (t : token) : list ascii :=
  match t with
  | TLP => ["("%char]
  | TRP => [")"%char]
  | TOp o => if is_blank_op cfg o then removelast (chars o) else chars o
  | TWord w => chars w
  | TNum s => chars s
  | TStr s => squote :: chars s ++ [squote]
  | TBad => []
  end.

(* tokens of the lexer's domain *)
Definition tok_ok (cfg : config) (t : token) : bool :=
  match t with
  | TLP | TRP => true
  | TOp o => mem_str o (all_ops cfg)
  | TWord w =>
      let cs := chars w in
      match cs with
      | c :: _ => is_alpha c
      | [] => false
      end
      && forallb is_wordc cs
      && (if existsb (Ascii.eqb "_"%char) cs then is_selkw cfg w
          else negb (mem_str w (word_ops cfg)) && negb (mem_str (w ++ " ") (word_ops cfg)) && negb (has_op_prefix cfg cs))
  | TNum s =>
      match chars s with [] => false | _ => true end && forallb is_nums (chars s) && negb (String.eqb s "...")
  | TStr s => forallb (fun x => printable x && negb (is_backslash x) && negb (is_quote x)) (chars s)
  | TBad => false
  end.

(* may character c follow the text of token t directly? *)
Definition follows_ok (cfg : config) (t : token) (c : ascii) : bool :=
  match t with
  | TLP | TRP => true
  | TOp o =>
      if is_blank_op cfg o then Ascii.eqb c blank
      else if is_word_op o then negb (is_wordc c)
      else negb (existsb (Ascii.eqb c) (sym_chars cfg))
  | TWord _ => negb (is_wordc c)
  | TNum _ => negb (is_nums c) && negb (is_alpha c)
  | TStr _ => negb (Ascii.eqb c squote)
  | TBad => false
  end.

(* may the string end right after token t?  (a blank-terminated operator needs its blank) *)
Definition ends_ok (cfg : config) (t : token) : bool :=
  match t with TOp o => negb (is_blank_op cfg o) | _ => true end.

(* a layout: every token with the number of blanks written before it *)
Definition layout := list (nat * token).

Fixpoint render_layout (cfg : config) (l : layout) (trailing : nat) : list ascii :=
  match l with
  | [] => repeat blank trailing
  | (n, t) :: l' => repeat blank n ++ tok_text cfg t ++ render_layout cfg l' trailing
  end.

(* first character written after a token: a blank when some are requested, else the next token's first one *)
Definition next_char (cfg : config) (l : layout) (trailing : nat) : option ascii :=
  match render_layout cfg l trailing with c :: _ => Some c | [] => None end.

Fixpoint layout_ok (cfg : config) (l : layout) (trailing : nat) : bool :=
  match l with
  | [] => true
  | (_, t) :: l' =>
      tok_ok cfg t
      && match next_char cfg l' trailing with Some c => follows_ok cfg t c | None => ends_ok cfg t end
      && layout_ok cfg l' trailing
  end.

(* two standard layouts: one blank everywhere; blanks only where needed *)
Definition loose (ts : list token) : layout := map (fun t => (1, t)) ts.

Fixpoint tight_after (cfg : config) (prev : token) (ts : list token) : layout :=
  match ts with
  | [] => []
  | t :: r =>
      (match tok_text cfg t with
       | c :: _ => if follows_ok cfg prev c then 0 else 1
       | [] => 1
       end, t) :: tight_after cfg t r
  end.
Definition tight (cfg : config) (ts : list token) : layout :=
  match ts with
  | [] => []
  | t :: r => (0, t) :: tight_after cfg t r
  end.

Definition render_string (cfg : config) (l : layout) : string := string_of_list_ascii (render_layout cfg l 0).

(* string-level entry points *)
Definition parse_string (cfg : config) (s : string) : option expr :=
  match lex cfg s with Some ts => parse_all cfg ts | None => None end.
Definition print_loose (cfg : config) (e : expr) : string := render_string cfg (loose (print cfg e)).
Definition print_tight (cfg : config) (e : expr) : string := render_string cfg (tight cfg (print cfg e)).
