(* Kabsch-Sander model (C14): what the pair loop computes, donor by donor.
   For every donor d the two slots are the result of store_energies applied, in increasing acceptor
   order, to the acceptors a that are eligible for d. *)
From Coq Require Import List ZArith Bool Arith Lia.
Import ListNotations.
Require Import MD.Gen.HbondTables MD.Hbond.Model MD.Hbond.KsModel MD.Hbond.KsProofs MD.Hbond.Proofs.

Lemma set_nth_length : forall A i (v : A) l, length (set_nth i v l) = length l.
Proof.
  intros A i v l. unfold set_nth. rewrite app_length, firstn_length.
  destruct (skipn i l) as [|x r] eqn:E.
  - cbn. assert (length (skipn i l) = 0) by now rewrite E. rewrite skipn_length in H. lia.
  - cbn. assert (length (skipn i l) = S (length r)) by now rewrite E. rewrite skipn_length in H. lia.
Qed.

Lemma set_nth_same : forall A i (v d : A) l, i < length l -> nth i (set_nth i v l) d = v.
Proof.
  intros A i v d l H. unfold set_nth. rewrite app_nth2; rewrite firstn_length; [|lia].
  replace (i - Nat.min i (length l)) with 0 by lia.
  destruct (skipn i l) eqn:E; [|reflexivity].
  assert (length (skipn i l) = 0) by now rewrite E. rewrite skipn_length in H0. lia.
Qed.

Lemma set_nth_other : forall A i j (v d : A) l, i <> j -> nth j (set_nth i v l) d = nth j l d.
Proof.
  intros A i j v d l H. unfold set_nth.
  rewrite <- (firstn_skipn i l) at 3.
  destruct (Nat.lt_ge_cases j i) as [Hlt | Hge].
  - destruct (Nat.lt_ge_cases j (length l)) as [Hl | Hl].
    + rewrite !app_nth1 by (rewrite firstn_length; lia). reflexivity.
    + rewrite !nth_overflow; try reflexivity.
      * rewrite app_length, firstn_length, skipn_length. lia.
      * rewrite app_length, firstn_length. destruct (skipn i l) eqn:E; cbn; [lia|].
        assert (length (skipn i l) = S (length l0)) by now rewrite E. rewrite skipn_length in H0. lia.
  - destruct (Nat.lt_ge_cases i (length l)) as [Hl | Hl].
    + rewrite !app_nth2 by (rewrite firstn_length; lia). rewrite firstn_length.
      replace (Nat.min i (length l)) with i by lia.
      destruct (skipn i l) as [|x r] eqn:E.
      * assert (length (skipn i l) = 0) by now rewrite E. rewrite skipn_length in H0. lia.
      * destruct (j - i) as [|k] eqn:Ek; [lia | reflexivity].
    + rewrite skipn_all2 by assumption. rewrite firstn_all2 by assumption. reflexivity.
Qed.

Lemma filter_flat_map : forall A B (f : B -> bool) (g : A -> list B) l,
  filter f (flat_map g l) = flat_map (fun x => filter f (g x)) l.
Proof. induction l as [|x l IH]; cbn; [reflexivity|]. now rewrite filter_app, IH. Qed.

Lemma flat_map_flat_map : forall A B C (g : B -> list C) (h : A -> list B) l,
  flat_map g (flat_map h l) = flat_map (fun x => flat_map g (h x)) l.
Proof. induction l as [|x l IH]; cbn; [reflexivity|]. now rewrite flat_map_app, IH. Qed.

Lemma flat_map_map : forall A B C (g : B -> list C) (h : A -> B) l,
  flat_map g (map h l) = flat_map (fun x => g (h x)) l.
Proof. induction l as [|x l IH]; cbn; [reflexivity|]. now rewrite IH. Qed.

Lemma flat_map_all_nil : forall A B (g : A -> list B) l, (forall x, In x l -> g x = []) -> flat_map g l = [].
Proof. induction l as [|x l IH]; intros H; cbn; [reflexivity|]. rewrite (H x) by now left. apply IH. intros; apply H; now right. Qed.

Lemma flat_map_single : forall B (g : nat -> list B) k a d, a <= d < a + k ->
  (forall j, j <> d -> g j = []) -> flat_map g (seq a k) = g d.
Proof.
  induction k as [|k IH]; intros a d Hd H; [lia|]. cbn [seq flat_map].
  destruct (Nat.eq_dec a d) as [->|Hne].
  - rewrite flat_map_all_nil; [apply app_nil_r|]. intros x Hx. apply in_seq in Hx. apply H. lia.
  - rewrite (H a Hne). cbn. apply IH; [lia | assumption].
Qed.

Lemma flat_map_ext_In : forall A B (f g : A -> list B) l,
  (forall x, In x l -> f x = g x) -> flat_map f l = flat_map g l.
Proof.
  induction l as [|x l IH]; intros H; cbn; [reflexivity|]. rewrite (H x) by now left.
  f_equal. apply IH. intros; apply H; now right.
Qed.

Lemma seq_split_at : forall n d, d < n -> seq 0 n = seq 0 d ++ d :: seq (S d) (n - S d).
Proof. intros n d H. assert (E : n = d + S (n - S d)) by lia. rewrite E at 1. now rewrite seq_app. Qed.

Lemma nth_repeat_lt : forall A (a d : A) n k, k < n -> nth k (repeat a n) d = a.
Proof. induction n as [|n IH]; intros k H; [lia|]. destruct k; cbn; [reflexivity|]. apply IH. lia. Qed.

Lemma nth_map_seq : forall B (f : nat -> B) n k d, k < n -> nth k (map f (seq 0 n)) d = f k.
Proof.
  intros B f n k d H. rewrite (nth_indep _ d (f 0)) by now rewrite map_length, seq_length.
  rewrite map_nth, seq_nth by assumption. reflexivity.
Qed.

Lemma flat_map_if_map : forall A B (q : A -> bool) (f : A -> B) l,
  flat_map (fun x => if q x then [f x] else []) l = map f (filter q l).
Proof. induction l as [|x l IH]; cbn; [reflexivity|]. destruct (q x); cbn; now rewrite IH. Qed.

Section Loop.
  Variables (p : ks_params) (xyz : list vec) (rs : list residue) (E : nat -> nat -> Z).
  Notation en := (fun d a => Some (E d a)).
  Notation res i := (nth i rs dres).

  (* one store_energies call: (donor, acceptor, energy) *)
  Definition scall := (nat * nat * Z)%type.

  Definition half (donor acceptor : nat) : list scall :=
    if (E donor acceptor <? ks_ethr p)%Z && negb (r_pro (res donor)) then [(donor, acceptor, E donor acceptor)] else [].

  Definition calls_of_pair (ij : nat * nat) : list scall :=
    let (ri, rj) := ij in
    if r_skip (res ri) || r_skip (res rj) then []
    else if ca_close p xyz (res ri) (res rj) then half ri rj ++ (if Nat.eqb rj (S ri) then [] else half rj ri)
    else [].

  Definition apply_call (st : list slots) (c : scall) : list slots :=
    match c with (d, a, e) => set_nth d (store (nth d st empty_nan) a e) st end.

  Lemma try_store_half : forall st d a,
    try_store p en rs (Some st) d a = Some (fold_left apply_call (half d a) st).
  Proof.
    intros st d a. unfold try_store, half. fold dres.
    destruct ((E d a <? ks_ethr p)%Z && negb (r_pro (res d))); reflexivity.
  Qed.

  Lemma pair_step_calls : forall st ij,
    pair_step p xyz en rs (Some st) ij = Some (fold_left apply_call (calls_of_pair ij) st).
  Proof.
    intros st (ri, rj). unfold pair_step, calls_of_pair. fold dres.
    destruct (r_skip (res ri) || r_skip (res rj)); [reflexivity|].
    destruct (ca_close p xyz (res ri) (res rj)); [|reflexivity].
    rewrite try_store_half, fold_left_app. destruct (Nat.eqb rj (S ri)); [reflexivity|].
    now rewrite try_store_half.
  Qed.

  Lemma loop_calls : forall pairs st,
    fold_left (pair_step p xyz en rs) pairs (Some st) =
    Some (fold_left apply_call (flat_map calls_of_pair pairs) st).
  Proof.
    induction pairs as [|ij l IH]; intros st; cbn [fold_left flat_map]; [reflexivity|].
    rewrite pair_step_calls, IH, fold_left_app. reflexivity.
  Qed.

  Definition donor_of (c : scall) : nat := fst (fst c).

  Lemma apply_call_length : forall st c, length (apply_call st c) = length st.
  Proof. intros st ((d, a), e). apply set_nth_length. Qed.

  (* the calls only ever touch the two slots of their own donor *)
  Lemma calls_per_donor : forall cs st d, d < length st ->
    nth d (fold_left apply_call cs st) empty_nan =
    fold_left (fun s c => store s (snd (fst c)) (snd c)) (filter (fun c => Nat.eqb (donor_of c) d) cs)
              (nth d st empty_nan).
  Proof.
    induction cs as [|c cs IH]; intros st d Hd; cbn [fold_left filter]; [reflexivity|].
    rewrite IH by now rewrite apply_call_length.
    destruct c as ((d', a), e). unfold donor_of. cbn [fst snd apply_call].
    destruct (Nat.eqb_spec d' d) as [->|Hne]; cbn [fold_left fst snd].
    - now rewrite set_nth_same.
    - now rewrite set_nth_other.
  Qed.

  Lemma calls_length : forall cs st, length (fold_left apply_call cs st) = length st.
  Proof. induction cs as [|c cs IH]; intros st; cbn; [reflexivity|]. now rewrite IH, apply_call_length. Qed.

  Lemma ca_close_sym : forall a b, ca_close p xyz a b = ca_close p xyz b a.
  Proof.
    intros a b. unfold ca_close. destruct (r_ca a) as [i|], (r_ca b) as [j|]; try reflexivity.
    destruct (nth i xyz (0, 0, 0)%Z) as ((x1, y1), z1), (nth j xyz (0, 0, 0)%Z) as ((x2, y2), z2).
    cbn [vsub norm2]. f_equal. f_equal. ring.
  Qed.

  (* acceptor a can be offered to donor d, is close enough, bonds below the threshold; d is no proline *)
  Definition eligible (d a : nat) : bool :=
    negb (r_skip (res d)) && negb (r_skip (res a)) && negb (Nat.eqb a d) && negb (Nat.eqb (S a) d) &&
    ca_close p xyz (res d) (res a) && (E d a <? ks_ethr p)%Z && negb (r_pro (res d)).

  Notation F d := (filter (fun c : scall => Nat.eqb (donor_of c) d)).

  Lemma F_half : forall d x y, F d (half x y) = if Nat.eqb x d then half x y else [].
  Proof.
    intros d x y. unfold half. destruct (_ && _); cbn [filter]; [|now destruct (Nat.eqb x d)].
    unfold donor_of. cbn [fst]. now destruct (Nat.eqb x d).
  Qed.

  Lemma row_above : forall n d i, d < i ->
    flat_map (fun j => F d (calls_of_pair (i, j))) (seq (S i) (n - S i)) = [].
  Proof.
    intros n d i Hi. apply flat_map_all_nil. intros j Hj. apply in_seq in Hj.
    unfold calls_of_pair. destruct (_ || _); [reflexivity|]. destruct (ca_close _ _ _ _); [|reflexivity].
    rewrite filter_app, F_half. replace (Nat.eqb i d) with false by (symmetry; apply Nat.eqb_neq; lia).
    destruct (Nat.eqb j (S i)); [reflexivity|]. rewrite F_half.
    replace (Nat.eqb j d) with false by (symmetry; apply Nat.eqb_neq; lia). reflexivity.
  Qed.

  Lemma row_below : forall n d i, i < d -> d < n ->
    flat_map (fun j => F d (calls_of_pair (i, j))) (seq (S i) (n - S i)) =
    if eligible d i then [(d, i, E d i)] else [].
  Proof.
    intros n d i Hi Hd.
    assert (Hnil : forall j, j <> d -> F d (calls_of_pair (i, j)) = []).
    { intros j Hj. unfold calls_of_pair. destruct (_ || _); [reflexivity|].
      destruct (ca_close _ _ _ _); [|reflexivity]. rewrite filter_app, !F_half.
      replace (Nat.eqb i d) with false by (symmetry; apply Nat.eqb_neq; lia).
      destruct (Nat.eqb j (S i)); [reflexivity|]. rewrite F_half.
      replace (Nat.eqb j d) with false by (symmetry; apply Nat.eqb_neq; lia). reflexivity. }
    rewrite (flat_map_single _ (fun j => F d (calls_of_pair (i, j))) (n - S i) (S i) d) by (lia || exact Hnil).
    unfold calls_of_pair, eligible. rewrite (ca_close_sym (res d) (res i)).
    replace (Nat.eqb i d) with false by (symmetry; apply Nat.eqb_neq; lia).
    rewrite (Nat.eqb_sym (S i) d).
    destruct (r_skip (res i)), (r_skip (res d)); cbn [orb negb andb]; try reflexivity.
    destruct (ca_close p xyz (res i) (res d)); cbn [andb]; [|now rewrite andb_false_r].
    rewrite filter_app, F_half. replace (Nat.eqb i d) with false by (symmetry; apply Nat.eqb_neq; lia).
    cbn [app]. destruct (Nat.eqb d (S i)); cbn [negb andb]; [reflexivity|].
    rewrite F_half, Nat.eqb_refl. unfold half. now destruct (_ && _).
  Qed.

  Lemma row_self : forall n d,
    flat_map (fun j => F d (calls_of_pair (d, j))) (seq (S d) (n - S d)) =
    map (fun a => (d, a, E d a)) (filter (eligible d) (seq (S d) (n - S d))).
  Proof.
    intros n d. rewrite <- flat_map_if_map. apply flat_map_ext_In. intros j Hj. apply in_seq in Hj.
    unfold calls_of_pair, eligible.
    replace (Nat.eqb j d) with false by (symmetry; apply Nat.eqb_neq; lia).
    replace (Nat.eqb (S j) d) with false by (symmetry; apply Nat.eqb_neq; lia).
    destruct (r_skip (res d)), (r_skip (res j)); cbn [orb negb andb]; try reflexivity.
    destruct (ca_close p xyz (res d) (res j)); cbn [andb]; [|reflexivity].
    rewrite filter_app, F_half, Nat.eqb_refl.
    assert (T : F d (if Nat.eqb j (S d) then [] else half j d) = []).
    { destruct (Nat.eqb j (S d)); [reflexivity|]. rewrite F_half.
      now replace (Nat.eqb j d) with false by (symmetry; apply Nat.eqb_neq; lia). }
    rewrite T, app_nil_r. unfold half. now destruct (_ && _).
  Qed.

  Lemma eligible_self : forall d, eligible d d = false.
  Proof. intros d. unfold eligible. rewrite Nat.eqb_refl. cbn. now rewrite !andb_false_r. Qed.

  (* the calls made for donor d, in program order, are the eligible acceptors in increasing order *)
  Lemma calls_for_donor : forall n d, d < n ->
    F d (flat_map calls_of_pair (ks_pairs n)) =
    map (fun a => (d, a, E d a)) (filter (eligible d) (seq 0 n)).
  Proof.
    intros n d Hd. unfold ks_pairs. rewrite filter_flat_map, flat_map_flat_map.
    rewrite (flat_map_ext_In _ _ _ (fun i => flat_map (fun j => F d (calls_of_pair (i, j))) (seq (S i) (n - S i))))
      by (intros i _; now rewrite flat_map_map).
    rewrite (seq_split_at n d Hd).
    rewrite flat_map_app, filter_app, map_app. cbn [flat_map filter]. rewrite eligible_self.
    rewrite row_self.
    rewrite (flat_map_all_nil _ _ _ (seq (S d) (n - S d))), app_nil_r
      by (intros i Hi; apply in_seq in Hi; apply row_above; lia).
    f_equal. rewrite <- flat_map_if_map. apply flat_map_ext_In. intros i Hi. apply in_seq in Hi.
    apply row_below; lia.
  Qed.

  (* kabsch_sander for one frame, donor by donor *)
  Theorem ks_loop_spec : forall init,
    ks_loop p init rs xyz en =
    Some (map (fun d => fold_left (fun s a => store s a (E d a)) (filter (eligible d) (seq 0 (length rs))) init)
              (seq 0 (length rs))).
  Proof.
    intros init. unfold ks_loop. rewrite loop_calls. f_equal.
    apply (nth_ext _ _ empty_nan empty_nan).
    - now rewrite calls_length, repeat_length, map_length, seq_length.
    - intros d Hd. rewrite calls_length, repeat_length in Hd.
      rewrite calls_per_donor by now rewrite repeat_length. rewrite calls_for_donor by assumption.
      rewrite nth_repeat_lt by assumption.
      rewrite nth_map_seq by assumption.
      generalize (filter (eligible d) (seq 0 (length rs))). intros l. revert init.
      induction l as [|a l IH]; intros init; cbn [map fold_left fst snd]; [reflexivity|]. apply IH.
  Qed.

  (* ... hence, with NaN-initialised slots: the two lowest-energy eligible acceptors, in order *)
  Corollary ks_spec : 
    ks_loop p empty_nan rs xyz en =
    Some (map (fun d => slots_of (firstn 2 (ranked (map (fun a => (a, E d a))
                                                      (filter (eligible d) (seq 0 (length rs)))))))
              (seq 0 (length rs))).
  Proof.
    rewrite ks_loop_spec. f_equal. apply map_ext. intros d. rewrite <- best_two.
    generalize (filter (eligible d) (seq 0 (length rs))). intros l. generalize empty_nan.
    induction l as [|a l IH]; intros s0; cbn [map fold_left fst snd]; [reflexivity|]. apply IH.
  Qed.
End Loop.

(* ------------------------------------------------------------------ with the model's own energy *)
(* the energy the model computes for (donor d, acceptor a) in this frame (0 where the geometry is
   degenerate: coinciding atoms) *)
Definition frame_energy (p : ks_params) (rs : list residue) (xyz : list vec) (oob : vec) (d a : nat) : Z :=
  match ks_energy_h (ks_K p) (ks_G p) xyz oob (hydrogens (ks_K p) (ks_G p) xyz oob (ks_hv p) rs) rs d a with
  | Some e => e
  | None => 0%Z
  end.

(* no two of the atoms entering an energy coincide, no null C=O vector *)
Definition nondegenerate (p : ks_params) (rs : list residue) (xyz : list vec) (oob : vec) : Prop :=
  forall d a, r_skip (nth d rs dres) = false -> r_skip (nth a rs dres) = false ->
    ks_energy_h (ks_K p) (ks_G p) xyz oob (hydrogens (ks_K p) (ks_G p) xyz oob (ks_hv p) rs) rs d a <> None.

Theorem ks_spec_concrete : forall p rs xyz oob, nondegenerate p rs xyz oob ->
  kabsch_sander_frame p empty_nan rs xyz oob =
  Some (map (fun d => slots_of (firstn 2 (ranked (map (fun a => (a, frame_energy p rs xyz oob d a))
              (filter (eligible p xyz rs (frame_energy p rs xyz oob) d) (seq 0 (length rs)))))))
            (seq 0 (length rs))).
Proof.
  intros p rs xyz oob ND. unfold kabsch_sander_frame.
  rewrite (ks_loop_ext p empty_nan rs xyz _ (fun d a => Some (frame_energy p rs xyz oob d a))).
  - apply ks_spec.
  - intros d a Sd Sa. unfold frame_energy. specialize (ND d a Sd Sa).
    destruct (ks_energy_h _ _ xyz oob _ rs d a); [reflexivity | contradiction].
Qed.
