(* The rational enclosure of cos(deg degrees) (Hbond/Angle.v) proved against the real numbers, and the two
   one-sided angle tests built on it (C14 baker_hubbard angle cutoff, C15 bend angle).
   Real numbers: standard-library axioms only. *)
From Coq Require Import ZArith QArith Qreals Reals Lra Lia Bool.
Require Import MD.Hbond.Model MD.Hbond.Angle MD.Hbond.WnR MD.Hbond.CosR.
Local Open Scope R_scope.

Lemma Q2R_const : forall z : Z, Q2R (z # 1) = IZR z.
Proof. intros z. unfold Q2R. cbn. field. Qed.

Lemma Q2R_scaled : forall d p : Q, Q2R (d * p / 180) = Q2R d * Q2R p / 180.
Proof.
  intros d p. rewrite Q2R_div, Q2R_mult, Q2R_const; [reflexivity|].
  intros E. unfold Qeq in E. cbn in E. lia.
Qed.

Lemma cos_PI_minus : forall x, cos (PI - x) = - cos x.
Proof. intros x. rewrite cos_minus, cos_PI, sin_PI. ring. Qed.

(* 0 <= d <= 90 degrees: both ends of the enclosure *)
Lemma cos_small_enclosure : forall d : Q, 0 <= Q2R d <= 90 ->
  Q2R (qcos_lo (d * pi_hi / 180)) <= cos (Q2R d * PI / 180) <= Q2R (qcos_up (d * pi_lo / 180)).
Proof.
  intros d (H0 & H90). destruct pi_enclosure as (Pl & Ph).
  assert (Hlo : Q2R pi_lo = 3141592653 / 1000000000) by (unfold pi_lo; rewrite Q2R_make; reflexivity).
  assert (Hhi : Q2R pi_hi = 3141592654 / 1000000000) by (unfold pi_hi; rewrite Q2R_make; reflexivity).
  pose proof PI_RGT_0 as HPI.
  set (th := Q2R d * PI / 180).
  assert (Ea : Q2R (d * pi_hi / 180) = Q2R d * Q2R pi_hi / 180) by apply Q2R_scaled.
  assert (Eb : Q2R (d * pi_lo / 180) = Q2R d * Q2R pi_lo / 180) by apply Q2R_scaled.
  set (ah := Q2R d * Q2R pi_hi / 180) in *. set (al := Q2R d * Q2R pi_lo / 180) in *.
  assert (T0 : 0 <= th) by (unfold th; nra).
  assert (L0 : 0 <= al) by (unfold al; nra).
  assert (Lth : al <= th) by (unfold al, th; nra).
  assert (Hth : th <= ah) by (unfold al, th, ah; nra).
  assert (H2 : ah <= 2) by (unfold ah; nra).
  assert (HP : ah <= PI) by (unfold ah; nra).
  split.
  - apply Rle_trans with (cos ah).
    + rewrite <- Ea. apply cos_enclosure. rewrite Ea. fold ah. lra.
    + apply cos_decr_1; lra.
  - apply Rle_trans with (cos al).
    + apply cos_decr_1; lra.
    + rewrite <- Eb. apply cos_enclosure. rewrite Eb. fold al. lra.
Qed.

Theorem cosdeg_enclosure : forall deg : Q, 0 <= Q2R deg <= 180 ->
  Q2R (qcosdeg_lo deg) <= cos (Q2R deg * PI / 180) <= Q2R (qcosdeg_hi deg).
Proof.
  intros deg (H0 & H180). unfold qcosdeg_lo, qcosdeg_hi.
  destruct (qle deg 90) eqn:E.
  - apply qle_spec in E. apply Qle_Rle in E. rewrite Q2R_const in E.
    destruct (cos_small_enclosure deg (conj H0 E)) as (A & B). split.
    + eapply Rle_trans; [apply qdown_le | exact A].
    + eapply Rle_trans; [exact B | left; apply qup_gt].
  - assert (G : 90 < Q2R deg).
    { destruct (Rlt_dec 90 (Q2R deg)) as [G | G]; [assumption|]. exfalso.
      assert (L : (deg <= 90)%Q).
      { apply Rle_Qle. rewrite Q2R_const. lra. }
      apply qle_spec in L. congruence. }
    assert (Ed : Q2R (180 - deg) = 180 - Q2R deg) by (rewrite Q2R_minus, Q2R_const; reflexivity).
    assert (Hd : 0 <= Q2R (180 - deg) <= 90) by (rewrite Ed; lra).
    destruct (cos_small_enclosure (180 - deg) Hd) as (A & B).
    pose proof PI_RGT_0 as HPI.
    assert (Ec : cos (Q2R deg * PI / 180) = - cos (Q2R (180 - deg) * PI / 180)).
    { rewrite <- cos_PI_minus. f_equal. rewrite Ed. field. }
    rewrite Ec, !Q2R_opp. split.
    + apply Ropp_le_contravar. eapply Rle_trans; [exact B | left; apply qup_gt].
    + apply Ropp_le_contravar. eapply Rle_trans; [apply qdown_le | exact A].
Qed.

(* ------------------------------------------------------------------ the angle mdtraj computes *)
Definition angle_real (N A B : Z) : R := acos (clipR (IZR N / (2 * sqrt (IZR A * IZR B)))).

Lemma clip_lt : forall c t, -1 < t <= 1 -> (clipR c < t <-> c < t).
Proof.
  intros c t Ht. unfold clipR, Rmax, Rmin. destruct (Rle_dec 1 c); destruct (Rle_dec (-1) _); lra.
Qed.

(* for 0 <= theta < pi:  acos(clip c) > theta  <=>  c < cos theta *)
Lemma angle_gt_iff : forall c theta, 0 <= theta < PI -> (theta < acos (clipR c) <-> c < cos theta).
Proof.
  intros c theta (H0 & HP).
  set (delta := acos (clipR c)).
  pose proof (acos_bound (clipR c)) as (Hd0 & HdPI). fold delta in Hd0, HdPI.
  assert (E5 : cos delta = clipR c) by (unfold delta; apply cos_acos, clipR_range).
  pose proof PI_RGT_0 as HPI.
  assert (Hm : -1 < cos theta) by (rewrite <- cos_PI; apply cos_decreasing_1; lra).
  pose proof (COS_bound theta) as (_ & Hc1).
  assert (E4 : theta < delta <-> cos delta < cos theta).
  { split; intros H.
    - apply cos_decreasing_1; lra.
    - destruct (Rlt_dec theta delta) as [G | G]; [assumption|]. exfalso.
      assert (cos theta <= cos delta) by (apply cos_decr_1; lra). lra. }
  rewrite E4, E5. apply clip_lt. lra.
Qed.

Lemma Q2R_pair : forall x : Q, IZR (Qnum x) / IZR (Zpos (Qden x)) = Q2R x.
Proof. reflexivity. Qed.

Theorem angle_gt_sure_sound : forall deg N A B, (0 < A)%Z -> (0 < B)%Z -> 0 <= Q2R deg < 180 ->
  angle_gt_sure deg N A B = true -> Q2R deg * PI / 180 < angle_real N A B.
Proof.
  intros deg N A B HA HB (H0 & H180) H. unfold angle_gt_sure in H.
  apply cos_lt_correct in H; [|assumption|assumption|reflexivity]. rewrite Q2R_pair in H.
  destruct (cosdeg_enclosure deg) as (L & _); [lra|].
  pose proof PI_RGT_0 as HPI.
  unfold angle_real. apply angle_gt_iff; [split; nra | lra].
Qed.

Theorem angle_gt_maybe_complete : forall deg N A B, (0 < A)%Z -> (0 < B)%Z -> 0 <= Q2R deg < 180 ->
  Q2R deg * PI / 180 < angle_real N A B -> angle_gt_maybe deg N A B = true.
Proof.
  intros deg N A B HA HB (H0 & H180) H. unfold angle_gt_maybe.
  apply cos_lt_correct; [assumption|assumption|reflexivity|]. rewrite Q2R_pair.
  destruct (cosdeg_enclosure deg) as (_ & U); [lra|].
  pose proof PI_RGT_0 as HPI.
  unfold angle_real in H. apply angle_gt_iff in H; [lra | split; nra].
Qed.

(* the sure side implies the maybe side (the enclosure is not empty) *)
Lemma angle_sure_maybe : forall deg N A B, (0 < A)%Z -> (0 < B)%Z -> 0 <= Q2R deg < 180 ->
  angle_gt_sure deg N A B = true -> angle_gt_maybe deg N A B = true.
Proof.
  intros deg N A B HA HB Hd H. apply angle_gt_maybe_complete; try assumption.
  now apply angle_gt_sure_sound.
Qed.

(* ------------------------------------------------------------------ baker_hubbard's angle factor *)
(* with bh_cos p = bh_cos_sure deg a triplet passing bh_wide has a D-H...A angle, as mdtraj defines it
   (law of cosines on the three - periodic - distances, clipped, arccos), above deg degrees; with
   bh_cos p = bh_cos_maybe deg every triplet whose angle is above deg degrees passes *)
Definition bh_angle_real (p : bh_params) (f : frame) (t : triplet) : R :=
  match t with (d, h, a) =>
    let a2 := dist2 (bh_periodic p) f d h in
    let b2 := dist2 (bh_periodic p) f h a in
    let c2 := dist2 (bh_periodic p) f a d in
    angle_real (a2 + b2 - c2) a2 b2
  end.

Theorem bh_wide_sure_sound : forall p f d h a deg,
  bh_cos p = bh_cos_sure deg -> 0 <= Q2R (q_of_pair deg) < 180 ->
  (0 < dist2 (bh_periodic p) f d h)%Z -> (0 < dist2 (bh_periodic p) f h a)%Z ->
  bh_wide p f (d, h, a) = true -> Q2R (q_of_pair deg) * PI / 180 < bh_angle_real p f (d, h, a).
Proof.
  intros p f d h a deg E Hd H1 H2 H. unfold bh_wide in H. rewrite E in H. cbn [bh_cos_sure pair_of_q fst snd] in H.
  unfold bh_angle_real. apply angle_gt_sure_sound; assumption.
Qed.

Theorem bh_wide_maybe_complete : forall p f d h a deg,
  bh_cos p = bh_cos_maybe deg -> 0 <= Q2R (q_of_pair deg) < 180 ->
  (0 < dist2 (bh_periodic p) f d h)%Z -> (0 < dist2 (bh_periodic p) f h a)%Z ->
  Q2R (q_of_pair deg) * PI / 180 < bh_angle_real p f (d, h, a) -> bh_wide p f (d, h, a) = true.
Proof.
  intros p f d h a deg E Hd H1 H2 H. unfold bh_wide. rewrite E. cbn [bh_cos_maybe pair_of_q fst snd].
  unfold bh_angle_real in H. apply angle_gt_maybe_complete; assumption.
Qed.
