(* Executable model of mdtraj's hydrogen-bond identification (C14).  No proofs in this file.

   mdtraj/geometry/hbond.py      _get_bond_triplets, _compute_bounded_geometry (prefilter, law of cosines),
                                 baker_hubbard, wernet_nilsson
   mdtraj/geometry/src/geometry.cpp  kabsch_sander, ks_assign_hydrogens, ks_donor_acceptor, store_energies

   Geometry.  Coordinates and box lengths are integers in a grid unit (G units per nm; every float32
   is such a number for a suitable G).  Squared distances are exact integers.
     - distance d < cutoff c = cn/cd         is decided as   d^2 * cd^2 < cn^2             (exact)
     - angle(D,H,A) > theta                  is decided as   cos < cos(theta), the cosine from the law of
       cosines on the three squared distances, compared with a rational kn/kd after squaring    (exact)
     - cos(theta) from theta in degrees, the Wernet-Nilsson cone and the Kabsch-Sander energy need cos,
       sqrt and 1/sqrt: evaluated in 2^-44 fixed point (Z.sqrt, Taylor series).  These are numerical
       evaluations with error far below the guard band of the property (1e-5); nothing is proved about
       their accuracy (validated by the correspondence only). *)
From Coq Require Import List ZArith QArith Bool Arith.
Import ListNotations.
Require Import MD.Gen.HbondTables MD.Gen.HbondFormulas.
Local Open Scope Z_scope.

(* ================================================================= constants *)
(* the numeric constants of the three criteria: the model is evaluated with the ones regenerated from
   today's source (gen_consts); doc_consts are the documented values, used as the oracle by the search
   when the two differ *)
Record consts := mkConsts {
  c_bh_cut : Z * Z; c_bh_ang : Z * Z; c_wn_cut : Z * Z; c_wn_const : Z * Z;
  c_ks_ecut : Z * Z; c_ks_ca2 : Z * Z;
  c_ks_terms : list ((Z * Z) * (ks_site * ks_site));   (* energy = sum coefficient / distance(site, site) *)
  c_ks_nh : Z * Z; c_ks_clamp_test : Z * Z; c_ks_clamp_value : Z * Z }.
(* the energy terms and the clamp come from the translation of ks_donor_acceptor (Gen/HbondFormulas.v) *)
Definition gen_consts : consts :=
  mkConsts bh_distance_cutoff bh_angle_cutoff wn_distance_cutoff wn_angle_const ks_energy_cutoff
           ks_minimal_ca_distance2 (combine ks_coupling_packed ks_packed) ks_nh_length ks_clamp_test ks_clamp_value.
(* documented: E = 0.42 * 0.2 * 33.2 kcal nm / mol * (1/r_ON + 1/r_CH - 1/r_OH - 1/r_CN), floor -9.9 *)
Definition doc_consts : consts :=
  mkConsts (25, 100) (120, 1) (33, 100) (44, 1000000) (-5, 10) (81, 100)
           [((27888, 10000), (KS_N, KS_O)); ((27888, 10000), (KS_H, KS_C));
            ((-27888, 10000), (KS_H, KS_O)); ((-27888, 10000), (KS_N, KS_C))]
           (1, 10) (-99, 10) (-99, 10).

(* ================================================================= topology: _get_bond_triplets *)
Inductive elem := EN | EO | EH | EC | EX.
Definition elem_eqb (a b : elem) : bool :=
  match a, b with EN, EN | EO, EO | EH, EH | EC, EC | EX, EX => true | _, _ => false end.

Record atom := mkAtom { a_elem : elem; a_water : bool; a_sidechain : bool }.
Record topo := mkTopo { t_atoms : list atom; t_bonds : list (nat * nat) }.

Definition atom_at (t : topo) (i : nat) : atom := nth i (t_atoms t) (mkAtom EX false false).

(* can_participate(atom) *)
Definition can_participate (exclude_water sidechain_only : bool) (a : atom) : bool :=
  negb (exclude_water && a_water a) && negb (sidechain_only && negb (a_sidechain a)).

(* get_donors(e0, e1): bonds whose two element symbols are {e0, e1}, both ends participating,
   reported as (index of the e0 atom, index of the e1 atom), in the order of topology.bonds *)
Definition get_donors (ew sc : bool) (t : topo) (e0 e1 : elem) : list (nat * nat) :=
  flat_map (fun b : nat * nat => let (one, two) := b in
    let s1 := a_elem (atom_at t one) in let s2 := a_elem (atom_at t two) in
    if ((elem_eqb s1 e0 && elem_eqb s2 e1) || (elem_eqb s1 e1 && elem_eqb s2 e0)) &&
       can_participate ew sc (atom_at t one) && can_participate ew sc (atom_at t two)
    then [if elem_eqb s1 e1 then (two, one) else (one, two)] else [])
  (t_bonds t).

Definition is_acceptor_elem (e : elem) : bool := elem_eqb e EO || elem_eqb e EN.

Definition acceptors (ew sc : bool) (t : topo) : list nat :=
  filter (fun i => is_acceptor_elem (a_elem (atom_at t i)) && can_participate ew sc (atom_at t i))
         (seq 0 (length (t_atoms t))).

Definition triplet := (nat * nat * nat)%type.

Inductive result (A : Type) := Ok (x : A) | ErrNoBonds.
Arguments Ok {A} x.
Arguments ErrNoBonds {A}.

(* donors-major cartesian product with the acceptors, self-bonds (donor = acceptor) removed *)
Definition bond_triplets (ew sc : bool) (t : topo) : result (list triplet) :=
  match t_bonds t with
  | [] => ErrNoBonds
  | _ =>
    let xh := get_donors ew sc t EN EH ++ get_donors ew sc t EO EH in
    match xh with
    | [] => Ok []
    | _ => Ok (flat_map (fun dh : nat * nat => let (d, h) := dh in
                 flat_map (fun a => if Nat.eqb d a then [] else [(d, h, a)]) (acceptors ew sc t)) xh)
    end
  end.

(* ================================================================= exact geometry *)
Definition vec := (Z * Z * Z)%type.
Record frame := mkFrame { f_xyz : list vec; f_box : option vec }.

Definition pos (f : frame) (i : nat) : vec := nth i (f_xyz f) (0, 0, 0).

(* r - L * round(r / L) *)
Definition mic1 (L d : Z) : Z := d - L * ((2 * d + L) / (2 * L)).

Definition sq (x : Z) : Z := x * x.

(* squared distance; minimum image for an orthorhombic box when periodic and the frame has a box *)
Definition dist2 (periodic : bool) (f : frame) (i j : nat) : Z :=
  match pos f i, pos f j with
  | (x1, y1, z1), (x2, y2, z2) =>
    match (if periodic then f_box f else None) with
    | Some (lx, ly, lz) => sq (mic1 lx (x2 - x1)) + sq (mic1 ly (y2 - y1)) + sq (mic1 lz (z2 - z1))
    | None => sq (x2 - x1) + sq (y2 - y1) + sq (z2 - z1)
    end
  end.

(* d < cn/cd  with d = sqrt(d2) >= 0, cd > 0 *)
Definition dist_lt (d2 cn cd : Z) : bool := (0 <? cn) && (d2 * sq cd <? sq cn).

(* N / (2 sqrt(A B)) < kn / kd   (kd > 0, A B > 0); false for a degenerate triangle (nan in numpy) *)
Definition cos_lt (N A B kn kd : Z) : bool :=
  if A * B <=? 0 then false
  else let L := N * kd in
       if 0 <=? kn then (L <? 0) || (sq L <? 4 * sq kn * (A * B))
       else (L <? 0) && (4 * sq kn * (A * B) <? sq L).

(* ================================================================= fixed-point helpers (numerical) *)
Definition SCBITS : Z := 44.
Definition SC : Z := 2 ^ SCBITS.
Definition fx_of_q (n d : Z) : Z := n * SC / d.
Definition fx_mul (a b : Z) : Z := Z.shiftr (a * b) SCBITS.    (* floor (a*b / SC) *)
Definition fx_div (a b : Z) : Z := a * SC / b.
Definition fx_sqrt (a : Z) : Z := Z.sqrt (a * SC).
Definition PI_fx : Z := 57952155664616982739 * SC / 2 ^ 64.   (* pi, from round(pi * 2^64) *)

(* cos x = sum (-1)^k x^(2k)/(2k)!, 16 terms (truncation error below 1e-13 for |x| <= pi), Horner form
   with the coefficients (-1)^k SC/(2k)! tabulated once *)
Fixpoint fact (n : nat) : Z := match n with O => 1 | S m => Z.of_nat n * fact m end.
Definition CBITS : Z := 100.                 (* the series is summed at 2^-100 *)
Definition cos_coeffs : list Z :=
  Eval vm_compute in
    (map (fun k => (if Nat.even k then 1 else -1) * (2 ^ CBITS / fact (2 * k))) (seq 0 16)).
Definition fx_cos_n (terms : nat) (x : Z) : Z :=
  let x2 := fx_mul x x in
  Z.shiftr (fold_right (fun c acc => c + Z.shiftr (acc * x2) SCBITS) 0 (firstn terms cos_coeffs)) (CBITS - SCBITS).
Definition fx_cos (x : Z) : Z := fx_cos_n 16 x.
(* 11 terms: truncation error below 1e-16 for |x| <= 1.6 (the cone half-angle bound is below 1.52 rad) *)
Definition fx_cos_small (x : Z) : Z := fx_cos_n 11 x.

Definition deg_to_rad_fx (deg_n deg_d : Z) : Z := fx_mul (fx_of_q deg_n deg_d) (PI_fx / 180).

(* ================================================================= baker_hubbard *)
Record bh_params := mkBH {
  bh_ew : bool; bh_sc : bool; bh_periodic : bool;
  bh_freq : Z * Z;            (* freq as a rational, denominator > 0 *)
  bh_cut : Z * Z;             (* distance cutoff in grid units, rational *)
  bh_cos : Z * Z              (* cos(angle_cutoff) as a rational, denominator > 0 *)
}.

(* distances < distance_cutoff  for the H...A pair *)
Definition bh_close (p : bh_params) (f : frame) (t : triplet) : bool :=
  match t with (d, h, a) => dist_lt (dist2 (bh_periodic p) f h a) (fst (bh_cut p)) (snd (bh_cut p)) end.

(* angles > angle_cutoff with the law of cosines: a = |DH|, b = |HA|, c = |AD| *)
Definition bh_wide (p : bh_params) (f : frame) (t : triplet) : bool :=
  match t with (d, h, a) =>
    let a2 := dist2 (bh_periodic p) f d h in
    let b2 := dist2 (bh_periodic p) f h a in
    let c2 := dist2 (bh_periodic p) f a d in
    cos_lt (a2 + b2 - c2) a2 b2 (fst (bh_cos p)) (snd (bh_cos p))
  end.

(* np.logical_and(distances < distance_cutoff, angles > angle_cutoff); written with if so that the
   evaluation inside coqc does not compute the angle of far-apart atoms *)
Definition bh_presence (p : bh_params) (f : frame) (t : triplet) : bool :=
  if bh_close p f t then bh_wide p f t else false.

Definition count (q : frame -> bool) (fs : list frame) : Z := Z.of_nat (length (filter q fs)).

(* np.mean(booleans, axis=0) > freq    <=>   count / F > fn / fd *)
Definition often (p : bh_params) (fs : list frame) (q : frame -> bool) : bool :=
  (fst (bh_freq p) * Z.of_nat (length fs) <? snd (bh_freq p) * count q fs) && negb (Nat.eqb (length fs) 0).

(* two stages as in the code: mask from the distance alone, then mask[mask] = mean(presence) > freq *)
Definition baker_hubbard (p : bh_params) (t : topo) (fs : list frame) : result (list triplet) :=
  match bond_triplets (bh_ew p) (bh_sc p) t with
  | ErrNoBonds => ErrNoBonds
  | Ok trip =>
    let stage1 := filter (fun tr => often p fs (fun f => bh_close p f tr)) trip in
    Ok (filter (fun tr => often p fs (fun f => bh_presence p f tr)) stage1)
  end.

(* cos(np.radians(angle_cutoff)) as a rational with denominator SC (numerical) *)
Definition bh_cos_of_degrees (deg_n deg_d : Z) : Z * Z := (fx_cos (deg_to_rad_fx deg_n deg_d), SC).

(* ================================================================= wernet_nilsson *)
Record wn_params := mkWN {
  wn_ew : bool; wn_sc : bool; wn_periodic : bool;
  wn_G : Z;                   (* grid units per nm *)
  wn_cut : Z * Z;             (* 0.33 nm (+- guard), rational in nm *)
  wn_const : Z * Z            (* 0.000044 nm / degree^2 *)
}.

(* delta = angle(H, D, A) at the donor, law of cosines with a = |DA| (the array of the stage-one mask is
   reused by the code for this side), b = |DH|, c = |HA|.
   r_DA < cut - const * delta_deg^2   <=>   cut - r > 0  and  delta_deg < sqrt((cut - r)/const)
                                      <=>   ...        and  cos(delta) > cos(phi), phi = that bound in radians
   (delta in [0, pi], cos decreasing; phi < pi because cut/const < 180^2).  Fixed point, numerical. *)
Definition wn_presence (p : wn_params) (f : frame) (t : triplet) : bool :=
  match t with (d, h, a) =>
    let a2 := dist2 (wn_periodic p) f d a in
    (* r >= cut decided exactly first (also keeps the evaluation inside coqc cheap: let is eager) *)
    if negb (dist_lt a2 (fst (wn_cut p) * wn_G p) (snd (wn_cut p))) then false
    else
    let b2 := dist2 (wn_periodic p) f d h in
    let c2 := dist2 (wn_periodic p) f h a in
    let r_fx := fx_sqrt (a2 * SC) / wn_G p in                      (* |AD| in nm *)
    let slack := fx_of_q (fst (wn_cut p)) (snd (wn_cut p)) - r_fx in
    if slack <=? 0 then false
    else if a2 * b2 <=? 0 then false
    else
      let x := fx_div slack (fx_of_q (fst (wn_const p)) (snd (wn_const p))) in   (* degrees^2 *)
      let phi := fx_mul (fx_sqrt x) (PI_fx / 180) in
      if PI_fx <=? phi then true
      else
        let cosd := (a2 + b2 - c2) * SC * SC / (2 * Z.sqrt (a2 * b2 * SC * SC)) in
        (if 7 * SC <? 4 * phi then fx_cos phi else fx_cos_small phi) <? cosd
  end.

(* ----------------------------------------------------------------- the cone with rigorous enclosures *)
(* Everything that is not exact integer arithmetic is replaced by a pair of rational bounds (proved in
   Hbond/WnR.v against the real-valued criterion):
     sqrt          Z.sqrt of a scaled integer, rounded down / up           (qsqrt_lo, qsqrt_hi)
     pi            3141592653/10^9 < pi < 3141592654/10^9
     cos           partial sums of the alternating series, exact in Q        (qcos_lo: 8 terms, qcos_up: 9 terms)
   wn_sure  = true  implies the real criterion  r < cut - const * delta_deg^2
   wn_maybe = false implies its negation. *)
Local Open Scope Q_scope.
Definition TT : Z := (2 ^ 24)%Z.
Definition TTp : positive := Z.to_pos TT.
Definition qsqrt_z (q : Q) : Z := Z.sqrt (Qnum q * TT * TT / Zpos (Qden q))%Z.
Definition qsqrt_lo (q : Q) : Q := qsqrt_z q # TTp.
Definition qsqrt_hi (q : Q) : Q := (qsqrt_z q + 1)%Z # TTp.
(* rounding a rational down / up to a multiple of 1/TT (keeps the numbers small) *)
Definition qdown (t : positive) (q : Q) : Q := (Qnum q * Zpos t / Zpos (Qden q))%Z # t.
Definition qup (t : positive) (q : Q) : Q := (Qnum q * Zpos t / Zpos (Qden q) + 1)%Z # t.
Definition pi_lo : Q := 3141592653 # 1000000000.
Definition pi_hi : Q := 3141592654 # 1000000000.

(* sum_{i<=m} (-1)^i a^(2i)/(2i)!  in Horner form; m = 7: below cos a, m = 8: above cos a, for |a| <= 2 *)
Definition qcos_poly (m : nat) (a : Q) : Q :=
  let x := a * a in
  fold_right (fun i acc => 1 - x * acc / (inject_Z (Z.of_nat ((2 * i + 1) * (2 * i + 2))))) 1 (seq 0 m).
Definition qcos_lo (a : Q) : Q := qcos_poly 7 a.
Definition qcos_up (a : Q) : Q := qcos_poly 8 a.

Definition q_of_pair (c : Z * Z) : Q := fst c # Z.to_pos (snd c).

Section ConeBounds.
  Variables (G : Z) (cut k : Q) (a2 b2 c2 : Z).   (* a2 = |DA|^2, b2 = |DH|^2, c2 = |HA|^2, grid units *)

  Definition r_lo : Q := qsqrt_lo (inject_Z a2) / inject_Z G.
  Definition r_hi : Q := qsqrt_hi (inject_Z a2) / inject_Z G.
  (* half-angle bound phi = sqrt((cut - r)/k) * pi/180, from below (uses r_hi) and from above (uses r_lo) *)
  Definition phi_lo (t : positive) : Q := qdown t (qsqrt_lo ((cut - r_hi) / k) * pi_lo / 180).
  Definition phi_hi (t : positive) : Q := qup t (qsqrt_hi ((cut - r_lo) / k) * pi_hi / 180).
  (* cos(delta) = N / (2 sqrt(a2 b2)) *)
  Definition nn : Z := (a2 + b2 - c2)%Z.
  Definition cosd_lo : Q :=
    inject_Z nn / (2 * (if (0 <=? nn)%Z then qsqrt_hi (inject_Z (a2 * b2)) else qsqrt_lo (inject_Z (a2 * b2)))).
  Definition cosd_hi : Q :=
    inject_Z nn / (2 * (if (0 <=? nn)%Z then qsqrt_lo (inject_Z (a2 * b2)) else qsqrt_hi (inject_Z (a2 * b2)))).

  Definition qlt (x y : Q) : bool := (Qnum x * Zpos (Qden y) <? Qnum y * Zpos (Qden x))%Z.
  Definition qle (x y : Q) : bool := (Qnum x * Zpos (Qden y) <=? Qnum y * Zpos (Qden x))%Z.

  (* t = resolution to which the half-angle bound is rounded (outwards) before the series is summed *)
  Definition cone_sure_at (t : positive) : bool :=
    (0 <? a2 * b2)%Z && qlt 0 (cut - r_hi) && qle (phi_hi t) 2 && qlt (qcos_up (phi_lo t)) cosd_lo.
  Definition cone_maybe_at (t : positive) : bool :=
    (0 <? a2 * b2)%Z && qlt 0 (cut - r_lo) && (negb (qle (phi_hi t) 2) || qlt (qcos_lo (phi_hi t)) cosd_hi).
  (* The decision procedures: coarse resolution first (cheap, decides almost every triplet), the fine one
     only when the coarse enclosure is inconclusive; shared sub-results are computed once.
     cone_sure_spec / cone_maybe_spec (Hbond/WnR.v) show they are  sure_at 2^10 || sure_at 2^24  and
     maybe_at 2^10 && maybe_at 2^24. *)
  Definition cone_sure : bool :=
    if negb (0 <? a2 * b2)%Z then false else
    let zr := qsqrt_z (inject_Z a2) in
    let sl := cut - ((zr + 1)%Z # TTp) / inject_Z G in
    if negb (qlt 0 sl) then false else
    let pl := qsqrt_lo (sl / k) * pi_lo / 180 in
    let ph := qsqrt_hi ((cut - (zr # TTp) / inject_Z G) / k) * pi_hi / 180 in
    let cl := cosd_lo in
    if qle (qup 1024 ph) 2 && qlt (qcos_up (qdown 1024 pl)) cl then true
    else qle (qup 16777216 ph) 2 && qlt (qcos_up (qdown 16777216 pl)) cl.
  Definition cone_maybe : bool :=
    if negb (0 <? a2 * b2)%Z then false else
    let sh := cut - r_lo in
    if negb (qlt 0 sh) then false else
    let ph := qsqrt_hi (sh / k) * pi_hi / 180 in
    let ch := cosd_hi in
    if negb (qle (qup 1024 ph) 2) || qlt (qcos_lo (qup 1024 ph)) ch
    then negb (qle (qup 16777216 ph) 2) || qlt (qcos_lo (qup 16777216 ph)) ch
    else false.
End ConeBounds.

Local Close Scope Q_scope.

Definition wn_sure (p : wn_params) (f : frame) (t : triplet) : bool :=
  match t with (d, h, a) =>
    let a2 := dist2 (wn_periodic p) f d a in
    if negb (dist_lt a2 (fst (wn_cut p) * wn_G p) (snd (wn_cut p))) then false
    else cone_sure (wn_G p) (q_of_pair (wn_cut p)) (q_of_pair (wn_const p)) a2
                   (dist2 (wn_periodic p) f d h) (dist2 (wn_periodic p) f h a)
  end.
Definition wn_maybe (p : wn_params) (f : frame) (t : triplet) : bool :=
  match t with (d, h, a) =>
    let a2 := dist2 (wn_periodic p) f d a in
    if negb (dist_lt a2 (fst (wn_cut p) * wn_G p) (snd (wn_cut p))) then false
    else cone_maybe (wn_G p) (q_of_pair (wn_cut p)) (q_of_pair (wn_const p)) a2
                    (dist2 (wn_periodic p) f d h) (dist2 (wn_periodic p) f h a)
  end.

(* distances(D,A) < 0.33 for the stage-one mask (freq = 0.0: in at least one frame) *)
Definition wn_close (p : wn_params) (f : frame) (t : triplet) : bool :=
  match t with (d, h, a) =>
    dist_lt (dist2 (wn_periodic p) f d a) (fst (wn_cut p) * wn_G p) (snd (wn_cut p)) end.

(* mask from the distance alone (mean(d < 0.33) > 0.0), then per frame the cone on the masked triplets.
   The last factor of the code, "angles < angle_cutoff" with angle_cutoff = 45 and angles in RADIANS,
   is always true (angles <= pi < 45) and is therefore not modelled. *)
Definition wernet_nilsson_with (pres : wn_params -> frame -> triplet -> bool)
           (p : wn_params) (t : topo) (fs : list frame) : result (list (list triplet)) :=
  match bond_triplets (wn_ew p) (wn_sc p) t with
  | ErrNoBonds => ErrNoBonds
  | Ok trip =>
    let stage1 := filter (fun tr => existsb (fun f => wn_close p f tr) fs) trip in
    Ok (map (fun f => filter (fun tr => pres p f tr) stage1) fs)
  end.
(* nominal (fixed-point) evaluation; the correspondence uses wn_sure / wn_maybe *)
Definition wernet_nilsson := wernet_nilsson_with wn_presence.
