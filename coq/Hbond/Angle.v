(* "angle > deg degrees" decided on exact integers with a RIGOROUS rational enclosure of cos(deg degrees)
   (C14: baker_hubbard's angle_cutoff; C15: the kappa > 70 degrees bend test of dssp.cpp).
   Definitions only; the enclosure is proved against the real numbers in Hbond/AngleR.v.

   The angle is the one mdtraj computes: acos(clip(c, -1, 1)) with c = N / (2 sqrt(A B)), where A and B are
   the squared lengths of the two sides meeting at the apex and N = A + B - C (law of cosines) = twice
   their dot product.  For 0 <= deg < 180:
        angle > deg degrees   <=>   c < cos(deg * pi / 180)
   and cos(deg * pi/180) is enclosed by   qcosdeg_lo deg <= cos(..) <= qcosdeg_hi deg :
        deg <= 90 :  partial sums 7 / 8 of the alternating cosine series at deg * pi_hi/180 resp. deg * pi_lo/180
        deg  > 90 :  cos(deg) = - cos(180 - deg), the same for 180 - deg
   rounded outwards to a multiple of 2^-60 (keeps the numbers handed to cos_lt small).
   The enclosure is about 4e-10 wide (from 3141592653e-9 < pi < 3141592654e-9). *)
From Coq Require Import ZArith QArith Bool.
Require Import MD.Hbond.Model.
Local Open Scope Q_scope.

Definition ARES : positive := 1152921504606846976.     (* 2^60 *)

Definition qcosdeg_lo (deg : Q) : Q :=
  if qle deg 90 then qdown ARES (qcos_lo (deg * pi_hi / 180))
  else - qup ARES (qcos_up ((180 - deg) * pi_lo / 180)).

Definition qcosdeg_hi (deg : Q) : Q :=
  if qle deg 90 then qup ARES (qcos_up (deg * pi_lo / 180))
  else - qdown ARES (qcos_lo ((180 - deg) * pi_hi / 180)).

(* a rational as the (numerator, denominator) pair that cos_lt takes *)
Definition pair_of_q (x : Q) : Z * Z := (Qnum x, Zpos (Qden x)).

(* certainly  angle > deg degrees *)
Definition angle_gt_sure (deg : Q) (N A B : Z) : bool :=
  cos_lt N A B (Qnum (qcosdeg_lo deg)) (Zpos (Qden (qcosdeg_lo deg))).
(* possibly  angle > deg degrees  (false: certainly not) *)
Definition angle_gt_maybe (deg : Q) (N A B : Z) : bool :=
  cos_lt N A B (Qnum (qcosdeg_hi deg)) (Zpos (Qden (qcosdeg_hi deg))).

(* baker_hubbard's  angles > np.radians(angle_cutoff)  as cos < cos(angle_cutoff), both sides of the enclosure *)
Definition bh_cos_sure (deg : Z * Z) : Z * Z := pair_of_q (qcosdeg_lo (q_of_pair deg)).
Definition bh_cos_maybe (deg : Z * Z) : Z * Z := pair_of_q (qcosdeg_hi (q_of_pair deg)).
