(* The angle test of the Baker-Hubbard model, related to real numbers (C14).
   cos_lt decides  N / (2 sqrt(A B)) < kn / kd  exactly, by sign analysis and squaring.
   (Reals: the theorems here depend on the standard-library axioms of the real numbers.) *)
From Coq Require Import ZArith Reals Lra Lia Bool.
Require Import MD.Hbond.Model.
Local Open Scope R_scope.

Lemma cmp_nonneg : forall l k s : R, 0 < s -> 0 <= k ->
  (l < 2 * k * s <-> l < 0 \/ l * l < 4 * k * k * (s * s)).
Proof.
  intros l k s Hs Hk. split.
  - intros H. destruct (Rlt_dec l 0) as [Hl | Hl]; [now left | right].
    assert (0 <= l) by lra. nra.
  - intros [H | H]; [nra|]. destruct (Rlt_dec l (2 * k * s)) as [G | G]; [assumption|].
    exfalso. assert (2 * k * s <= l) by lra. assert (0 <= 2 * k * s) by nra. nra.
Qed.

Lemma cmp_neg : forall l k s : R, 0 < s -> k < 0 ->
  (l < 2 * k * s <-> l < 0 /\ 4 * k * k * (s * s) < l * l).
Proof.
  intros l k s Hs Hk. assert (Hn : 2 * k * s < 0) by nra. split.
  - intros H. split; [lra|]. nra.
  - intros (Hl & H). destruct (Rlt_dec l (2 * k * s)) as [G | G]; [assumption|].
    exfalso. assert (2 * k * s <= l) by lra. nra.
Qed.

Theorem cos_lt_correct : forall N A B kn kd : Z, (0 < A)%Z -> (0 < B)%Z -> (0 < kd)%Z ->
  (cos_lt N A B kn kd = true <-> IZR N / (2 * sqrt (IZR A * IZR B)) < IZR kn / IZR kd).
Proof.
  intros N A B kn kd HA HB Hkd.
  assert (HAB : (0 < A * B)%Z) by nia.
  set (s := sqrt (IZR A * IZR B)).
  assert (Hab : 0 < IZR A * IZR B) by (apply Rmult_lt_0_compat; now apply IZR_lt).
  assert (Hs : 0 < s) by (now apply sqrt_lt_R0).
  assert (Hss : s * s = IZR (A * B)) by (unfold s; rewrite sqrt_sqrt by lra; now rewrite mult_IZR).
  assert (Hk : 0 < IZR kd) by now apply IZR_lt.
  (* clear the denominators *)
  assert (E : IZR N / (2 * s) < IZR kn / IZR kd <-> IZR (N * kd) < 2 * IZR kn * s).
  { rewrite mult_IZR. split; intros H.
    - apply (Rmult_lt_compat_r (2 * s * IZR kd)) in H; [|nra].
      replace (IZR N / (2 * s) * (2 * s * IZR kd)) with (IZR N * IZR kd) in H by (field; lra).
      replace (IZR kn / IZR kd * (2 * s * IZR kd)) with (2 * IZR kn * s) in H by (field; lra). exact H.
    - apply (Rmult_lt_reg_r (2 * s * IZR kd)); [nra|].
      replace (IZR N / (2 * s) * (2 * s * IZR kd)) with (IZR N * IZR kd) by (field; lra).
      replace (IZR kn / IZR kd * (2 * s * IZR kd)) with (2 * IZR kn * s) by (field; lra). exact H. }
  rewrite E. unfold cos_lt, sq.
  replace (A * B <=? 0)%Z with false by (symmetry; apply Z.leb_gt; lia).
  set (L := (N * kd)%Z).
  destruct (0 <=? kn)%Z eqn:Ek.
  - apply Z.leb_le in Ek. rewrite (cmp_nonneg (IZR L) (IZR kn) s Hs (IZR_le _ _ Ek)).
    rewrite orb_true_iff, !Z.ltb_lt, Hss. split.
    + intros [H | H]; [left; now apply (IZR_lt _ 0) | right].
      apply IZR_lt in H. rewrite !mult_IZR in H. rewrite mult_IZR. lra.
    + intros [H | H]; [left; now apply lt_IZR | right].
      apply lt_IZR. rewrite !mult_IZR. rewrite mult_IZR in H. lra.
  - apply Z.leb_gt in Ek. rewrite (cmp_neg (IZR L) (IZR kn) s Hs (IZR_lt _ _ Ek)).
    rewrite andb_true_iff, !Z.ltb_lt, Hss. split.
    + intros (H1 & H2). split; [now apply (IZR_lt _ 0)|].
      apply IZR_lt in H2. rewrite !mult_IZR in H2. rewrite mult_IZR. lra.
    + intros (H1 & H2). split; [now apply lt_IZR|].
      apply lt_IZR. rewrite !mult_IZR. rewrite mult_IZR in H2. lra.
Qed.
