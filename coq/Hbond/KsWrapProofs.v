(* Proofs about the Python layer around the Kabsch-Sander kernel (Hbond/KsWrap.v).  All closed. *)
From Coq Require Import List ZArith Bool Arith String Lia.
Import ListNotations.
Require Import MD.Gen.HbondTables MD.Gen.HbondFormulas MD.Hbond.Model MD.Hbond.KsModel MD.Hbond.KsWrap
               MD.Hbond.Proofs MD.Hbond.KsSpec.
Local Open Scope nat_scope.

(* ------------------------------------------------------------------ first atom with a given name *)
Lemma first_named_some : forall nm atoms i,
  first_named nm atoms = Some i <->
  exists l1 l2, atoms = l1 ++ (i, nm) :: l2 /\ forall j s, In (j, s) l1 -> s <> nm.
Proof.
  intros nm atoms. induction atoms as [|[k s] r IH]; intros i; cbn [first_named].
  - split; [discriminate|]. intros (l1 & l2 & E & _). destruct l1; discriminate.
  - destruct (String.eqb s nm) eqn:Es.
    + apply String.eqb_eq in Es. subst s. split.
      * intros H. injection H as <-. exists [], r. split; [reflexivity|]. intros j s [].
      * intros (l1 & l2 & E & Hn). destruct l1 as [|[k' s'] l1].
        -- cbn in E. injection E as -> _. reflexivity.
        -- cbn in E. injection E as <- <- _. exfalso. apply (Hn k nm); [now left | reflexivity].
    + apply String.eqb_neq in Es. rewrite IH. split.
      * intros (l1 & l2 & E & Hn). exists ((k, s) :: l1), l2. split; [now rewrite E|].
        intros j s' [H | H]; [injection H as <- <-; exact Es | now apply (Hn j)].
      * intros (l1 & l2 & E & Hn). destruct l1 as [|[k' s'] l1].
        -- cbn in E. injection E as _ ->. now elim Es.
        -- cbn in E. injection E as _ _ E. exists l1, l2. split; [exact E|].
           intros j s'' H. apply (Hn j). now right.
Qed.

Lemma first_named_none : forall nm atoms,
  first_named nm atoms = None <-> forall j s, In (j, s) atoms -> s <> nm.
Proof.
  intros nm atoms. induction atoms as [|[k s] r IH]; cbn [first_named].
  - split; [intros _ j s [] | reflexivity].
  - destruct (String.eqb s nm) eqn:Es.
    + apply String.eqb_eq in Es. subst s. split; [discriminate|]. intros H. exfalso. apply (H k nm); [now left | reflexivity].
    + apply String.eqb_neq in Es. rewrite IH. split.
      * intros H j s' [G | G]; [injection G as <- <-; exact Es | now apply (H j)].
      * intros H j s' G. apply (H j). now right.
Qed.

Definition has_atom (nm : string) (r : res_desc) : Prop := exists j, In (j, nm) (snd r).

Lemma first_named_is_some : forall nm atoms, (exists j, In (j, nm) atoms) <-> first_named nm atoms <> None.
Proof.
  intros nm atoms. rewrite first_named_none. split.
  - intros (j & Hj) H. now apply (H j nm).
  - intros H. destruct (first_named nm atoms) as [i|] eqn:E.
    + apply first_named_some in E. destruct E as (l1 & l2 & -> & _). exists i. apply in_or_app. right. now left.
    + exfalso. apply H. now apply first_named_none.
Qed.

(* a residue takes part (is_protein, not skipped by the kernel) iff it has atoms named N, CA, C and O *)
Theorem prep_complete_iff : forall r,
  r_skip (prep_residue r) = false <-> has_atom "N" r /\ has_atom "CA" r /\ has_atom "C" r /\ has_atom "O" r.
Proof.
  intros r. unfold has_atom. rewrite !first_named_is_some. unfold prep_residue, r_skip. cbn [r_n r_ca r_c r_o].
  destruct (first_named "N" (snd r)), (first_named "CA" (snd r)), (first_named "C" (snd r)), (first_named "O" (snd r));
    split; try discriminate; try (intros _; repeat split; discriminate); intros (A & B & C & D); congruence.
Qed.

Theorem prep_proline_iff : forall r, r_pro (prep_residue r) = true <-> fst r = "PRO"%string.
Proof. intros r. unfold prep_residue. cbn [r_pro]. apply String.eqb_eq. Qed.

Lemma prep_length : forall rs, List.length (prep rs) = List.length rs.
Proof. intros. apply map_length. Qed.

(* ------------------------------------------------------------------ CSR arrays *)
Lemma cumsum_from_length : forall l acc, List.length (cumsum_from acc l) = List.length l.
Proof. induction l as [|x r IH]; intros acc; cbn; [reflexivity | now rewrite IH]. Qed.

Lemma csr_indptr_length : forall l, List.length (csr_indptr l) = S (List.length l).
Proof. intros l. unfold csr_indptr. cbn. now rewrite cumsum_from_length, map_length. Qed.

(* decoding with an offset: the generalisation that goes through the induction *)
Definition rows_from (off : nat) (ptr : list nat) (indices : list nat) (data : list (option Z)) (k : nat)
  : list (list (nat * option Z)) :=
  map (fun d => combine (slice (nth d ptr 0) (nth (S d) ptr 0) indices) (slice (nth d ptr 0) (nth (S d) ptr 0) data))
      (seq off k).

Lemma slice_app_front : forall {A} (pre mid post : list A),
  slice (List.length pre) (List.length pre + List.length mid) (pre ++ mid ++ post) = mid.
Proof.
  intros A pre mid post. unfold slice.
  replace (List.length pre + List.length mid - List.length pre) with (List.length mid) by lia.
  rewrite skipn_app, skipn_all, Nat.sub_diag. cbn [skipn app].
  rewrite firstn_app, firstn_all, Nat.sub_diag. cbn [firstn]. now rewrite app_nil_r.
Qed.

Lemma combine_map_fst_snd : forall {A B} (l : list (A * B)), combine (map fst l) (map snd l) = l.
Proof. induction l as [|[a b] r IH]; cbn; [reflexivity | now rewrite IH]. Qed.

(* the pointer array laid out explicitly: position d holds the number of entries before row d *)
Lemma nth_cumsum : forall l acc d, d < List.length l ->
  nth d (cumsum_from acc l) 0 = acc + list_sum (firstn (S d) l).
Proof.
  induction l as [|x r IH]; intros acc d Hd; [cbn in Hd; lia|].
  destruct d as [|d]; cbn [cumsum_from nth].
  - unfold list_sum. cbn [firstn fold_right]. lia.
  - rewrite IH by (cbn in Hd; lia). unfold list_sum. cbn [firstn fold_right]. lia.
Qed.

Lemma nth_indptr : forall l d, d <= List.length l ->
  nth d (csr_indptr l) 0 = list_sum (firstn d (map (fun s => List.length (csr_row s)) l)).
Proof.
  intros l d Hd. unfold csr_indptr. destruct d as [|d]; [reflexivity|].
  cbn [nth]. rewrite nth_cumsum by (rewrite map_length; lia). reflexivity.
Qed.

Lemma flat_map_length_sum : forall {A B} (f : A -> list B) (l : list A),
  List.length (flat_map f l) = list_sum (map (fun x => List.length (f x)) l).
Proof. induction l as [|x r IH]; cbn; [reflexivity | now rewrite app_length, IH]. Qed.

Lemma firstn_map' : forall {A B} (f : A -> B) n l, firstn n (map f l) = map f (firstn n l).
Proof. intros. apply firstn_map. Qed.

Lemma split_at : forall {A} (l : list A) d dflt, d < List.length l ->
  l = firstn d l ++ nth d l dflt :: skipn (S d) l.
Proof.
  induction l as [|x r IH]; intros d dflt Hd; [cbn in Hd; lia|].
  destruct d as [|d]; [reflexivity|]. cbn [firstn nth skipn app]. f_equal. apply IH. cbn in Hd. lia.
Qed.

Theorem csr_decode_roundtrip : forall l,
  csr_decode (csr_indptr l) (csr_indices l) (csr_data l) = map csr_row l.
Proof.
  intros l. unfold csr_decode. rewrite csr_indptr_length. cbn [Nat.sub]. rewrite Nat.sub_0_r.
  set (f := fun d : nat => combine _ _).
  apply nth_ext with (d := f 0) (d' := csr_row empty_nan).
  - now rewrite !map_length, seq_length.
  - intros d Hd. rewrite map_length, seq_length in Hd.
    rewrite !map_nth. rewrite seq_nth by exact Hd. cbn [Nat.add]. unfold f. clear f.
    rewrite !nth_indptr by lia.
    (* split l around position d *)
    assert (Hs : l = firstn d l ++ nth d l empty_nan :: skipn (S d) l).
    { apply split_at. exact Hd. }
    set (pre := firstn d l) in *. set (x := nth d l empty_nan) in *. set (post := skipn (S d) l) in *.
    assert (Hpre : List.length pre = d) by (unfold pre; rewrite firstn_length; lia).
    assert (F1 : firstn d (map (fun s => List.length (csr_row s)) l) = map (fun s => List.length (csr_row s)) pre).
    { rewrite firstn_map'. reflexivity. }
    assert (F2 : firstn (S d) (map (fun s => List.length (csr_row s)) l) = map (fun s => List.length (csr_row s)) pre ++ [List.length (csr_row x)]).
    { rewrite firstn_map'. rewrite Hs at 1.
      replace (S d) with (List.length pre + 1) by lia. rewrite firstn_app_2. cbn [firstn]. rewrite map_app. reflexivity. }
    rewrite F1, F2.
    assert (S1 : list_sum (map (fun s => List.length (csr_row s)) pre ++ [List.length (csr_row x)]) =
                 list_sum (map (fun s => List.length (csr_row s)) pre) + List.length (csr_row x)).
    { rewrite list_sum_app. cbn. lia. }
    rewrite S1.
    assert (Ei : csr_indices l = flat_map (fun s => map fst (csr_row s)) pre ++ map fst (csr_row x) ++
                                 flat_map (fun s => map fst (csr_row s)) post).
    { unfold csr_indices. rewrite Hs at 1. rewrite flat_map_app. reflexivity. }
    assert (Ed : csr_data l = flat_map (fun s => map snd (csr_row s)) pre ++ map snd (csr_row x) ++
                              flat_map (fun s => map snd (csr_row s)) post).
    { unfold csr_data. rewrite Hs at 1. rewrite flat_map_app. reflexivity. }
    assert (L1 : list_sum (map (fun s => List.length (csr_row s)) pre) = List.length (flat_map (fun s => map fst (csr_row s)) pre)).
    { rewrite flat_map_length_sum. f_equal. apply map_ext. intros s. now rewrite map_length. }
    assert (L2 : list_sum (map (fun s => List.length (csr_row s)) pre) = List.length (flat_map (fun s => map snd (csr_row s)) pre)).
    { rewrite flat_map_length_sum. f_equal. apply map_ext. intros s. now rewrite map_length. }
    rewrite Ei at 1. rewrite L1 at 1 2. rewrite <- (map_length fst (csr_row x)) at 1. rewrite slice_app_front.
    rewrite Ed. rewrite L2 at 1 2. rewrite <- (map_length snd (csr_row x)). rewrite slice_app_front.
    apply combine_map_fst_snd.
Qed.

(* the transposed matrix holds (acceptor, donor, energy) exactly for the filled slots of the donor *)
Theorem matrix_entries_spec : forall l a d e,
  In (a, d, e) (matrix_entries l) <-> d < List.length l /\ In (a, e) (csr_row (nth d l empty_nan)).
Proof.
  intros l a d e. unfold matrix_entries. rewrite csr_decode_roundtrip, in_flat_map. split.
  - intros ((d' & row) & Hin & Hm). cbn [fst snd] in Hm. apply in_map_iff in Hm. destruct Hm as ((a' & e') & E & Hr).
    cbn [fst snd] in E. injection E as -> -> ->.
    apply (In_nth _ _ (0, [])) in Hin. destruct Hin as (k & Hk & Ek).
    rewrite combine_length, seq_length, map_length, Nat.min_id in Hk.
    rewrite combine_nth in Ek by now rewrite seq_length, map_length.
    rewrite seq_nth in Ek by exact Hk. cbn [Nat.add] in Ek. injection Ek as <- Er.
    rewrite (nth_indep _ [] (csr_row empty_nan)) in Er by (rewrite map_length; exact Hk). rewrite map_nth in Er.
    split; [exact Hk | now rewrite Er].
  - intros (Hd & Hr). exists (d, csr_row (nth d l empty_nan)). split.
    + replace (d, csr_row (nth d l empty_nan)) with (nth d (combine (seq 0 (List.length l)) (map csr_row l)) (0, [])).
      * apply nth_In. now rewrite combine_length, seq_length, map_length, Nat.min_id.
      * rewrite combine_nth by now rewrite seq_length, map_length. rewrite seq_nth by exact Hd.
        rewrite (nth_indep _ [] (csr_row empty_nan)) by (rewrite map_length; exact Hd). now rewrite map_nth.
    + cbn [fst snd]. apply in_map_iff. exists (a, e). split; [reflexivity | exact Hr].
Qed.

(* ------------------------------------------------------------------ composition with the kernel's specification *)
Lemma csr_row_slots_of : forall l : list call,
  csr_row (slots_of (firstn 2 l)) = map (fun c => (fst c, Some (snd c))) (firstn 2 l).
Proof. intros [|x [|y r]]; reflexivity. Qed.

(* md.kabsch_sander, one non-degenerate frame, from the topology's names: the matrix has an entry
   (row a, column d) = e exactly when a is one of the two lowest-energy eligible acceptors of donor d
   (ks_spec) and e is that energy *)
Theorem ks_matrix_spec : forall p rs xyz oob, nondegenerate p (prep rs) xyz oob ->
  exists M, kabsch_sander_py p rs xyz oob = Some M /\
  forall a d e, In (a, d, e) M <->
    d < List.length rs /\
    exists c, In c (firstn 2 (ranked (map (fun a' => (a', frame_energy p (prep rs) xyz oob d a'))
                (filter (eligible p xyz (prep rs) (frame_energy p (prep rs) xyz oob) d) (seq 0 (List.length rs)))))) /\
              a = fst c /\ e = Some (snd c).
Proof.
  intros p rs xyz oob Hn. unfold kabsch_sander_py. rewrite (ks_spec_concrete p (prep rs) xyz oob Hn).
  eexists. split; [reflexivity|]. intros a d e. rewrite matrix_entries_spec, map_length, seq_length, prep_length.
  split.
  - intros (Hd & Hr). split; [exact Hd|].
    set (g := fun d0 => slots_of _) in Hr.
    rewrite (nth_indep _ empty_nan (g 0)) in Hr by (rewrite map_length, seq_length; exact Hd).
    rewrite map_nth, seq_nth in Hr by exact Hd. cbn [Nat.add] in Hr. unfold g in Hr.
    rewrite csr_row_slots_of in Hr. apply in_map_iff in Hr. destruct Hr as (c & E & Hc).
    injection E as <- <-. exists c. auto.
  - intros (Hd & c & Hc & -> & ->). split; [exact Hd|].
    set (g := fun d0 => slots_of _).
    rewrite (nth_indep _ empty_nan (g 0)) by (rewrite map_length, seq_length; exact Hd).
    rewrite map_nth, seq_nth by exact Hd. cbn [Nat.add]. unfold g.
    rewrite csr_row_slots_of. apply in_map_iff. exists c. split; [reflexivity | exact Hc].
Qed.
