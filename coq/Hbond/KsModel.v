(* Executable model of mdtraj's Kabsch-Sander backbone hydrogen bonds (C14), geometry.cpp:
   kabsch_sander, ks_assign_hydrogens, ks_donor_acceptor, store_energies.  No proofs in this file.

   Discrete part (exact): skip mask, pair loop and its order, CA prefilter as a squared-distance
   comparison, proline rule, the adjacent-residue exception, best-two bookkeeping.
   Numerical part (2^-44 fixed point, see Hbond/Model.v): hydrogen position N + 0.1 nm * (C-O)/|C-O|,
   energy coupling*(1/d_HC + 1/d_NO - 1/d_HO - 1/d_NC), floor at -9.9.

   Two variants of ks_assign_hydrogens (two-variant rule):
     h_cur  today's code: takes C and O of residue ri-1 by their indices even when one of them is -1;
            index -1 addresses the three floats BEFORE the frame (the last atom of the previous frame, or
            memory outside the array for the first frame): modelled as the explicit input [oob]
     h_fix  minimal repair: a residue whose predecessor lacks C or O gets H = N (like residue 0) *)
From Coq Require Import List ZArith Bool Arith.
Import ListNotations.
Require Import MD.Gen.HbondTables MD.Gen.HbondFormulas MD.Hbond.Model.
Local Open Scope Z_scope.

(* backbone atom indices of one residue: None = -1 (atom absent) *)
Record residue := mkRes { r_n : option nat; r_ca : option nat; r_c : option nat; r_o : option nat; r_pro : bool }.

Definition r_skip (r : residue) : bool :=
  match r_n r, r_ca r, r_c r, r_o r with Some _, Some _, Some _, Some _ => false | _, _, _, _ => true end.

Inductive hvariant := h_cur | h_fix.

Section Frame.
  Variable K : consts.            (* numeric constants *)
  Variable G : Z.                 (* grid units per nm *)
  Variable xyz : list vec.        (* atom coordinates of this frame, grid units *)
  Variable oob : vec.             (* what xyz[3*(-1) ..] reads *)

  Definition at_idx (i : option nat) : vec :=
    match i with Some k => nth k xyz (0, 0, 0) | None => oob end.

  Definition to_fx (v : vec) : vec := match v with (x, y, z) => (x * SC, y * SC, z * SC) end.
  Definition vsub (a b : vec) : vec :=
    match a, b with (x1, y1, z1), (x2, y2, z2) => (x1 - x2, y1 - y2, z1 - z2) end.
  Definition norm2 (a : vec) : Z := match a with (x, y, z) => x * x + y * y + z * z end.

  (* hydrogen of residue ri (fixed point), None when the residue is skipped or the C=O vector is null *)
  Definition hydrogen (hv : hvariant) (rs : list residue) (ri : nat) : option vec :=
    let r := nth ri rs (mkRes None None None None false) in
    match ri with
    | O => match hv with
           | h_cur => Some (to_fx (at_idx (r_n r)))          (* stored even when residue 0 has no N (index -1) *)
           | h_fix => if r_skip r then None else Some (to_fx (at_idx (r_n r)))
           end
    | S pi =>
      if r_skip r then None
      else
        let pr := nth pi rs (mkRes None None None None false) in
        let plain := Some (to_fx (at_idx (r_n r))) in
        let bent :=
          let co := vsub (at_idx (r_c pr)) (at_idx (r_o pr)) in
          let l := Z.sqrt (norm2 co * SC * SC) in                       (* |C-O| in fixed point *)
          if l =? 0 then None
          else
            let s := fst (c_ks_nh K) * G * SC * SC / (snd (c_ks_nh K) * l) in   (* 0.1 nm / |C-O| *)
            match to_fx (at_idx (r_n r)), co with
            | (nx, ny, nz), (cx, cy, cz) => Some (nx + cx * s, ny + cy * s, nz + cz * s)
            end in
        match hv, r_c pr, r_o pr with
        | h_fix, None, _ | h_fix, _, None => plain
        | _, _, _ => bent
        end
    end.

  (* 1/d in 1/nm, fixed point, for a fixed-point squared separation vector *)
  Definition inv_dist (a b : vec) : option Z :=
    let d := Z.sqrt (norm2 (vsub a b)) in            (* distance * SC, grid units *)
    if d =? 0 then None else Some (G * SC * SC / d).

  Definition hydrogens (hv : hvariant) (rs : list residue) : list (option vec) :=
    map (hydrogen hv rs) (seq 0 (length rs)).

  (* one term of the energy: coefficient / distance(site, site), fixed point *)
  Definition ks_term (site : ks_site -> vec) (t : (Z * Z) * (ks_site * ks_site)) : option Z :=
    match inv_dist (site (fst (snd t))) (site (snd (snd t))) with
    | Some v => Some (fst (fst t) * v / snd (fst t))
    | None => None
    end.

  Fixpoint sum_terms (l : list (option Z)) : option Z :=
    match l with
    | [] => Some 0
    | Some v :: r => match sum_terms r with Some s => Some (v + s) | None => None end
    | None :: _ => None
    end.

  (* return (energy < T ? V : energy) *)
  Definition ks_clamp (e : Z) : Z :=
    if e <? fst (c_ks_clamp_test K) * SC / snd (c_ks_clamp_test K)
    then fst (c_ks_clamp_value K) * SC / snd (c_ks_clamp_value K) else e.

  (* ks_donor_acceptor: energy in kcal/mol, fixed point; hs = the hcoords array.  The terms (which pairs
     of positions, which coefficients) are the ones translated from the source. *)
  Definition ks_energy_h (hs : list (option vec)) (rs : list residue) (donor acceptor : nat) : option Z :=
    let rd := nth donor rs (mkRes None None None None false) in
    let ra := nth acceptor rs (mkRes None None None None false) in
    match nth donor hs None with
    | None => None
    | Some h =>
      let site := fun s => match s with
                           | KS_N => to_fx (at_idx (r_n rd)) | KS_H => h
                           | KS_C => to_fx (at_idx (r_c ra)) | KS_O => to_fx (at_idx (r_o ra))
                           end in
      match sum_terms (map (ks_term site) (c_ks_terms K)) with
      | Some e => Some (ks_clamp e)
      | None => None
      end
    end.

  Definition ks_energy (hv : hvariant) (rs : list residue) (donor acceptor : nat) : option Z :=
    ks_energy_h (hydrogens hv rs) rs donor acceptor.
End Frame.

(* ----------------------------------------------------------------- store_energies *)
(* the two slots of one donor: (acceptor, energy); energy None = NaN, acceptor None = -1 *)
Definition slot := (option nat * option Z)%type.
Definition slots := (slot * slot)%type.

Definition nan_or_lt (e : Z) (x : option Z) : bool := match x with None => true | Some y => e <? y end.

Definition store (s : slots) (acceptor : nat) (e : Z) : slots :=
  match s with
  | ((a0, e0), (a1, e1)) =>
    if nan_or_lt e e0 then ((Some acceptor, Some e), (a0, e0))
    else if nan_or_lt e e1 then ((a0, e0), (Some acceptor, Some e))
    else s
  end.

Definition empty_nan : slots := ((None, None), (None, None)).       (* md.kabsch_sander: -1 / NaN *)
Definition empty_zero : slots := ((None, Some 0), (None, Some 0)).   (* dssp(): -1 / 0.0 *)

(* ----------------------------------------------------------------- the pair loop *)
Definition set_nth {A} (i : nat) (v : A) (l : list A) : list A :=
  firstn i l ++ match skipn i l with [] => [] | _ :: r => v :: r end.

Record ks_params := mkKS {
  ks_K : consts;
  ks_G : Z;
  ks_hv : hvariant;
  ks_ethr : Z;        (* energy threshold, fixed point (-0.5 +- guard) *)
  ks_ca2 : Z * Z      (* CA distance^2 threshold in nm^2, rational (0.81 +- guard) *)
}.

Definition ca_close (p : ks_params) (xyz : list vec) (ra rb : residue) : bool :=
  match r_ca ra, r_ca rb with
  | Some i, Some j =>
    norm2 (vsub (nth i xyz (0, 0, 0)) (nth j xyz (0, 0, 0))) * snd (ks_ca2 p) <? fst (ks_ca2 p) * ks_G p * ks_G p
  | _, _ => false
  end.

(* one call site "e = ks_donor_acceptor(donor, acceptor); if (e < cutoff && !is_proline[donor]) store" ;
   a degenerate geometry (coinciding atoms) makes the whole frame undefined: None *)
Definition try_store (p : ks_params) (en : nat -> nat -> option Z) (rs : list residue)
           (st : option (list slots)) (donor acceptor : nat) : option (list slots) :=
  match st with
  | None => None
  | Some l =>
    match en donor acceptor with
    | None => None
    | Some e =>
      if (e <? ks_ethr p) && negb (r_pro (nth donor rs (mkRes None None None None false)))
      then Some (set_nth donor (store (nth donor l empty_nan) acceptor e) l)
      else Some l
    end
  end.

Definition pair_step (p : ks_params) (xyz : list vec) (en : nat -> nat -> option Z) (rs : list residue)
           (st : option (list slots)) (ij : nat * nat) : option (list slots) :=
  let (ri, rj) := ij in
  let a := nth ri rs (mkRes None None None None false) in
  let b := nth rj rs (mkRes None None None None false) in
  if r_skip a || r_skip b then st
  else if ca_close p xyz a b then
    let st1 := try_store p en rs st ri rj in
    if Nat.eqb rj (S ri) then st1 else try_store p en rs st1 rj ri
  else st.

(* for (ri = 0; ri < n; ri++) for (rj = ri+1; rj < n; rj++) *)
Definition ks_pairs (n : nat) : list (nat * nat) :=
  flat_map (fun i => map (pair i) (seq (S i) (n - S i))) (seq 0 n).

(* the loop with an arbitrary energy function (the correspondence tabulates the energies once) *)
Definition ks_loop (p : ks_params) (init : slots) (rs : list residue) (xyz : list vec)
           (en : nat -> nat -> option Z) : option (list slots) :=
  fold_left (pair_step p xyz en rs) (ks_pairs (length rs)) (Some (repeat init (length rs))).

(* ks_assign_hydrogens once per frame, then the loop *)
Definition kabsch_sander_frame (p : ks_params) (init : slots) (rs : list residue)
           (xyz : list vec) (oob : vec) : option (list slots) :=
  ks_loop p init rs xyz (ks_energy_h (ks_K p) (ks_G p) xyz oob (hydrogens (ks_K p) (ks_G p) xyz oob (ks_hv p) rs) rs).

(* ----------------------------------------------------------------- observations for the correspondence *)
(* per donor the list of (acceptor, energy) actually held, slot order *)
Definition slot_list (s : slots) : list (nat * Z) :=
  match s with
  | ((a0, e0), (a1, e1)) =>
    (match a0, e0 with Some a, Some e => [(a, e)] | _, _ => [] end) ++
    (match a1, e1 with Some a, Some e => [(a, e)] | _, _ => [] end)
  end.
