(* Proofs about the hydrogen-bond models (C14): candidate triplets, harmlessness of the distance
   prefilters, the Baker-Hubbard rule, best-two bookkeeping of store_energies. *)
From Coq Require Import List ZArith Bool Arith Lia Sorting.Sorted Sorting.Permutation.
Import ListNotations.
Require Import MD.Gen.HbondTables MD.Hbond.Model MD.Hbond.KsModel.
Local Open Scope Z_scope.

(* ================================================================= candidate triplets *)
Lemma elem_eqb_eq : forall a b, elem_eqb a b = true <-> a = b.
Proof. intros a b; split; [destruct a, b; cbn; congruence | intros ->; destruct b; reflexivity]. Qed.

Section Triplets.
  Variables (ew sc : bool) (t : topo).
  Notation part i := (can_participate ew sc (atom_at t i) = true).
  Notation el i := (a_elem (atom_at t i)).

  (* d-h is a bond of the topology (either orientation) between a heavy atom of element e0 and a
     hydrogen, both allowed to participate *)
  Definition donor_pair (e0 : elem) (d h : nat) : Prop :=
    (In (d, h) (t_bonds t) \/ In (h, d) (t_bonds t)) /\ el d = e0 /\ el h = EH /\ part d /\ part h.

  Lemma get_donors_spec : forall e0 d h, e0 <> EH ->
    (In (d, h) (get_donors ew sc t e0 EH) <-> donor_pair e0 d h).
  Proof.
    intros e0 d h Hne. unfold get_donors, donor_pair. rewrite in_flat_map. split.
    - intros ((one, two) & Hb & Hin).
      destruct (elem_eqb (el one) e0 && elem_eqb (el two) EH) eqn:C1.
      + apply andb_true_iff in C1 as (E1 & E2). apply elem_eqb_eq in E1, E2.
        cbn [orb andb] in Hin.
        destruct (can_participate ew sc (atom_at t one)) eqn:P1; cbn [andb] in Hin; [|destruct Hin].
        destruct (can_participate ew sc (atom_at t two)) eqn:P2; [|destruct Hin].
        assert (E3 : elem_eqb (el one) EH = false).
        { destruct (elem_eqb (el one) EH) eqn:E; [|reflexivity]. apply elem_eqb_eq in E. congruence. }
        rewrite E3 in Hin. destruct Hin as [[= <- <-] | []]. tauto.
      + destruct (elem_eqb (el one) EH && elem_eqb (el two) e0) eqn:C2; cbn [orb andb] in Hin; [|destruct Hin].
        apply andb_true_iff in C2 as (E1 & E2). pose proof E1 as E1'. apply elem_eqb_eq in E1, E2.
        destruct (can_participate ew sc (atom_at t one)) eqn:P1; cbn [andb] in Hin; [|destruct Hin].
        destruct (can_participate ew sc (atom_at t two)) eqn:P2; [|destruct Hin].
        rewrite E1' in Hin. destruct Hin as [[= <- <-] | []]. tauto.
    - intros ([Hb | Hb] & Ed & Eh & Pd & Ph).
      + exists (d, h). split; [assumption|].
        rewrite Ed, Eh, Pd, Ph. replace (elem_eqb e0 e0) with true by (symmetry; now apply elem_eqb_eq).
        cbn. assert (E3 : elem_eqb e0 EH = false).
        { destruct (elem_eqb e0 EH) eqn:E; [|reflexivity]. apply elem_eqb_eq in E. congruence. }
        rewrite E3. now left.
      + exists (h, d). split; [assumption|].
        rewrite Ed, Eh, Pd, Ph. replace (elem_eqb e0 e0) with true by (symmetry; now apply elem_eqb_eq).
        cbn. assert (E3 : elem_eqb e0 EH = false).
        { destruct (elem_eqb e0 EH) eqn:E; [|reflexivity]. apply elem_eqb_eq in E. congruence. }
        rewrite orb_true_r. cbn. now left.
  Qed.

  Definition acceptor_atom (a : nat) : Prop :=
    (a < length (t_atoms t))%nat /\ (el a = EO \/ el a = EN) /\ part a.

  Lemma acceptors_spec : forall a, In a (acceptors ew sc t) <-> acceptor_atom a.
  Proof.
    intros a. unfold acceptors, acceptor_atom, is_acceptor_elem. rewrite filter_In, in_seq, andb_true_iff, orb_true_iff.
    rewrite !elem_eqb_eq. intuition lia.
  Qed.

  (* the returned triplets are exactly: donor heavy atom N or O bonded to a hydrogen, acceptor N or O,
     all three allowed to participate, donor different from acceptor *)
  Lemma triplets_spec : forall l d h a, bond_triplets ew sc t = Ok l ->
    (In (d, h, a) l <-> (donor_pair EN d h \/ donor_pair EO d h) /\ acceptor_atom a /\ d <> a).
  Proof.
    intros l d h a H. unfold bond_triplets in H. destruct (t_bonds t) as [|b0 bs] eqn:Eb; [discriminate|].
    set (xh := get_donors ew sc t EN EH ++ get_donors ew sc t EO EH) in *.
    assert (Hx : forall x y, In (x, y) xh <-> donor_pair EN x y \/ donor_pair EO x y).
    { intros x y. unfold xh. rewrite in_app_iff, !get_donors_spec by discriminate. tauto. }
    assert (Hl : In (d, h, a) (flat_map (fun dh : nat * nat => let (d0, h0) := dh in
                 flat_map (fun a0 => if Nat.eqb d0 a0 then [] else [(d0, h0, a0)]) (acceptors ew sc t)) xh)
                 <-> (donor_pair EN d h \/ donor_pair EO d h) /\ acceptor_atom a /\ d <> a).
    { rewrite in_flat_map. split.
      - intros ((d0, h0) & Hin & Hf). apply in_flat_map in Hf as (a0 & Ha & Hf).
        destruct (Nat.eqb_spec d0 a0) as [|Hne]; [destruct Hf|]. destruct Hf as [[= <- <- <-] | []].
        split; [now apply Hx|]. split; [now apply acceptors_spec | assumption].
      - intros (Hd & Ha & Hne). exists (d, h). split; [now apply Hx|]. apply in_flat_map. exists a.
        split; [now apply acceptors_spec|]. destruct (Nat.eqb_spec d a); [contradiction | now left]. }
    destruct xh as [|x0 xs] eqn:Ex.
    - injection H as <-. split; [intros []|]. intros (Hd & _). apply Hx in Hd. destruct Hd.
    - injection H as <-. exact Hl.
  Qed.

  Lemma triplets_error : bond_triplets ew sc t = ErrNoBonds <-> t_bonds t = [].
  Proof.
    unfold bond_triplets. destruct (t_bonds t); [tauto|]. split; [|discriminate].
    destruct (_ ++ _); discriminate.
  Qed.

  (* a donor heavy atom is itself an acceptor candidate: the code path "donors but no acceptors" is dead *)
  Lemma donors_imply_acceptors : forall e0 d h, (e0 = EN \/ e0 = EO) -> (d < length (t_atoms t))%nat ->
    donor_pair e0 d h -> acceptor_atom d.
  Proof. intros e0 d h He Hd (_ & Ed & _ & Pd & _). unfold acceptor_atom. rewrite Ed. intuition. Qed.
End Triplets.

(* ================================================================= prefilters *)
Lemma filter_filter_implied : forall A (P Q : A -> bool) l,
  (forall x, P x = true -> Q x = true) -> filter P (filter Q l) = filter P l.
Proof.
  intros A P Q l H. induction l as [|x l IH]; cbn; [reflexivity|].
  destruct (Q x) eqn:EQ; cbn.
  - now rewrite IH.
  - destruct (P x) eqn:EP; [apply H in EP; congruence | exact IH].
Qed.

Lemma count_mono : forall (q1 q2 : frame -> bool) fs,
  (forall f, q1 f = true -> q2 f = true) -> count q1 fs <= count q2 fs.
Proof.
  intros q1 q2 fs H. unfold count. apply inj_le. induction fs as [|f fs IH]; cbn; [lia|].
  destruct (q1 f) eqn:E1.
  - rewrite (H f E1). cbn. lia.
  - destruct (q2 f); cbn; lia.
Qed.

Lemma often_mono : forall p fs (q1 q2 : frame -> bool), 0 <= snd (bh_freq p) ->
  (forall f, q1 f = true -> q2 f = true) -> often p fs q1 = true -> often p fs q2 = true.
Proof.
  intros p fs q1 q2 Hd H. unfold often. rewrite !andb_true_iff, !Z.ltb_lt. intros (Hlt & Hn). split; [|assumption].
  pose proof (count_mono q1 q2 fs H). nia.
Qed.

Lemma bh_presence_close : forall p f tr, bh_presence p f tr = true -> bh_close p f tr = true.
Proof. intros p f tr. unfold bh_presence. destruct (bh_close p f tr); [reflexivity | discriminate]. Qed.

(* the distance prefilter of _compute_bounded_geometry never removes a triplet the final test keeps *)
Lemma bh_prefilter_harmless : forall p t fs, 0 <= snd (bh_freq p) ->
  baker_hubbard p t fs =
  match bond_triplets (bh_ew p) (bh_sc p) t with
  | ErrNoBonds => ErrNoBonds
  | Ok trip => Ok (filter (fun tr => often p fs (fun f => bh_presence p f tr)) trip)
  end.
Proof.
  intros p t fs Hd. unfold baker_hubbard. destruct (bond_triplets _ _ t) as [trip|]; [|reflexivity].
  f_equal. apply filter_filter_implied. intros tr. apply often_mono; [assumption|].
  intros f. apply bh_presence_close.
Qed.

Lemma wn_presence_close : forall p f tr, wn_presence p f tr = true -> wn_close p f tr = true.
Proof.
  intros p f ((d, h), a). unfold wn_presence, wn_close.
  destruct (dist_lt _ _ _); [reflexivity | discriminate].
Qed.

Lemma wn_with_prefilter_harmless : forall (pres : wn_params -> frame -> triplet -> bool) p t fs,
  (forall f tr, pres p f tr = true -> wn_close p f tr = true) ->
  wernet_nilsson_with pres p t fs =
  match bond_triplets (wn_ew p) (wn_sc p) t with
  | ErrNoBonds => ErrNoBonds
  | Ok trip => Ok (map (fun f => filter (fun tr => pres p f tr) trip) fs)
  end.
Proof.
  intros pres p t fs Hc. unfold wernet_nilsson_with. destruct (bond_triplets _ _ t) as [trip|]; [|reflexivity].
  f_equal. apply map_ext_in. intros f Hf. apply filter_filter_implied. intros tr Hp.
  apply existsb_exists. exists f. split; [assumption | now apply Hc].
Qed.

Lemma wn_prefilter_harmless : forall p t fs,
  wernet_nilsson p t fs =
  match bond_triplets (wn_ew p) (wn_sc p) t with
  | ErrNoBonds => ErrNoBonds
  | Ok trip => Ok (map (fun f => filter (fun tr => wn_presence p f tr) trip) fs)
  end.
Proof. intros. apply wn_with_prefilter_harmless. intros f tr. apply wn_presence_close. Qed.

Lemma wn_sure_close : forall p f tr, wn_sure p f tr = true -> wn_close p f tr = true.
Proof.
  intros p f ((d, h), a). unfold wn_sure, wn_close. destruct (dist_lt _ _ _); [reflexivity | discriminate].
Qed.

Lemma wn_maybe_close : forall p f tr, wn_maybe p f tr = true -> wn_close p f tr = true.
Proof.
  intros p f ((d, h), a). unfold wn_maybe, wn_close. destruct (dist_lt _ _ _); [reflexivity | discriminate].
Qed.

(* ================================================================= Baker-Hubbard rule *)
(* every comparison is strict:  d^2 cd^2 < cn^2 ,  cos < kn/kd ,  fn * F < fd * count *)
Lemma bh_spec : forall p t fs l tr, 0 <= snd (bh_freq p) -> baker_hubbard p t fs = Ok l ->
  (In tr l <->
   exists trip, bond_triplets (bh_ew p) (bh_sc p) t = Ok trip /\ In tr trip /\
     fs <> [] /\
     fst (bh_freq p) * Z.of_nat (length fs) <
     snd (bh_freq p) * count (fun f => bh_close p f tr && bh_wide p f tr) fs).
Proof.
  intros p t fs l tr Hd H. rewrite bh_prefilter_harmless in H by assumption.
  destruct (bond_triplets (bh_ew p) (bh_sc p) t) as [trip|]; [|discriminate]. injection H as <-.
  rewrite filter_In. unfold often. rewrite andb_true_iff, Z.ltb_lt, negb_true_iff, Nat.eqb_neq.
  assert (E : count (fun f => bh_presence p f tr) fs = count (fun f => bh_close p f tr && bh_wide p f tr) fs).
  { unfold count. rewrite (filter_ext (fun f => bh_presence p f tr) (fun f => bh_close p f tr && bh_wide p f tr)); [reflexivity|].
    intros f. unfold bh_presence. now destruct (bh_close p f tr). }
  rewrite E. split.
  - intros (Hin & Hlt & Hn). exists trip. repeat split; auto. intros ->. now apply Hn.
  - intros (trip' & [= <-] & Hin & Hn & Hlt). repeat split; auto. destruct fs; [contradiction | discriminate].
Qed.

Lemma dist_lt_spec : forall d2 cn cd, dist_lt d2 cn cd = true <-> 0 < cn /\ d2 * (cd * cd) < cn * cn.
Proof. intros. unfold dist_lt, sq. now rewrite andb_true_iff, !Z.ltb_lt. Qed.

(* law of cosines: the numerator a^2 + b^2 - c^2 used by _compute_bounded_geometry is twice the dot
   product of the two sides meeting at the vertex (non-periodic frames) *)
Lemma law_of_cosines_numerator : forall px py pz ux uy uz vx vy vz : Z,
  (sq (ux - px) + sq (uy - py) + sq (uz - pz)) + (sq (vx - px) + sq (vy - py) + sq (vz - pz))
  - (sq (vx - ux) + sq (vy - uy) + sq (vz - uz))
  = 2 * ((ux - px) * (vx - px) + (uy - py) * (vy - py) + (uz - pz) * (vz - pz)).
Proof. intros. unfold sq. ring. Qed.

(* ================================================================= store_energies: best two *)
Definition call := (nat * Z)%type.

(* stable insertion by energy: a new call goes behind every call with an energy <= its own *)
Fixpoint ins (x : call) (l : list call) : list call :=
  match l with
  | [] => [x]
  | y :: r => if snd x <? snd y then x :: l else y :: ins x r
  end.
Definition ranked (calls : list call) : list call := fold_left (fun acc x => ins x acc) calls [].

Definition slots_of (l : list call) : slots :=
  match l with
  | [] => empty_nan
  | [x] => ((Some (fst x), Some (snd x)), (None, None))
  | x :: y :: _ => ((Some (fst x), Some (snd x)), (Some (fst y), Some (snd y)))
  end.

Lemma store_ins : forall l a e, store (slots_of (firstn 2 l)) a e = slots_of (firstn 2 (ins (a, e) l)).
Proof.
  intros l a e. destruct l as [|y [|z r]]; cbn [firstn slots_of ins store nan_or_lt fst snd].
  - reflexivity.
  - destruct (e <? snd y); reflexivity.
  - destruct (e <? snd y); [reflexivity|]. cbn [ins]. cbn [snd]. destruct (e <? snd z); reflexivity.
Qed.

(* after any sequence of store_energies calls on NaN-initialised slots, the slots hold the first two
   entries of the calls ranked by energy (earlier call first among equal energies) *)
Lemma best_two : forall calls,
  fold_left (fun s c => store s (fst c) (snd c)) calls empty_nan = slots_of (firstn 2 (ranked calls)).
Proof.
  intros calls. unfold ranked.
  assert (G : forall calls acc,
    fold_left (fun s c => store s (fst c) (snd c)) calls (slots_of (firstn 2 acc)) =
    slots_of (firstn 2 (fold_left (fun acc x => ins x acc) calls acc))).
  { induction calls0 as [|c cs IH]; intros acc; cbn [fold_left]; [reflexivity|].
    destruct c as (a, e). cbn [fst snd]. rewrite store_ins. apply IH. }
  exact (G calls []).
Qed.

Lemma ins_perm : forall x l, Permutation (x :: l) (ins x l).
Proof.
  induction l as [|y r IH]; cbn; [reflexivity|]. destruct (snd x <? snd y); [reflexivity|].
  rewrite perm_swap. now constructor.
Qed.

Lemma ranked_perm : forall calls, Permutation calls (ranked calls).
Proof.
  intros calls. unfold ranked.
  assert (G : forall calls acc, Permutation (calls ++ acc) (fold_left (fun acc x => ins x acc) calls acc)).
  { induction calls0 as [|c cs IH]; intros acc; cbn; [reflexivity|].
    rewrite <- IH. rewrite <- ins_perm. apply Permutation_middle. }
  specialize (G calls []). now rewrite app_nil_r in G.
Qed.

Definition le_energy (x y : call) : Prop := snd x <= snd y.

Lemma ins_sorted : forall x l, StronglySorted le_energy l -> StronglySorted le_energy (ins x l).
Proof.
  induction l as [|y r IH]; intros H; cbn; [repeat constructor|].
  apply StronglySorted_inv in H as (Hr & Hy). destruct (snd x <? snd y) eqn:E.
  - apply Z.ltb_lt in E. constructor; [now constructor|]. constructor; [unfold le_energy; lia|].
    rewrite Forall_forall in *. intros z Hz. specialize (Hy z Hz). unfold le_energy in *. lia.
  - apply Z.ltb_ge in E. constructor; [now apply IH|].
    rewrite Forall_forall in *. intros z Hz. apply (Permutation_in _ (Permutation_sym (ins_perm x r))) in Hz.
    destruct Hz as [<- | Hz]; [exact E | now apply Hy].
Qed.

Lemma ranked_sorted : forall calls, StronglySorted le_energy (ranked calls).
Proof.
  intros calls. unfold ranked.
  assert (G : forall calls acc, StronglySorted le_energy acc ->
              StronglySorted le_energy (fold_left (fun acc x => ins x acc) calls acc)).
  { induction calls0 as [|c cs IH]; intros acc H; cbn; [assumption|]. apply IH. now apply ins_sorted. }
  apply G. constructor.
Qed.

(* ... which are the two lowest energies, in order: every other call has an energy >= the second slot *)
Lemma best_two_lowest : forall calls x y rest, ranked calls = x :: y :: rest ->
  snd x <= snd y /\ (forall z, In z rest -> snd y <= snd z) /\ Permutation calls (x :: y :: rest).
Proof.
  intros calls x y rest E. pose proof (ranked_sorted calls) as S. pose proof (ranked_perm calls) as P.
  rewrite E in *. apply StronglySorted_inv in S as (S & Fx). apply StronglySorted_inv in S as (_ & Fy).
  rewrite Forall_forall in *. repeat split; [apply Fx; now left | exact Fy | exact P].
Qed.

(* dssp() initialises the energies with 0.0 instead of NaN: same bonds as long as only negative
   energies are stored (the caller stores e < -0.5 only) *)
Definition slot_rel (a b : slot) : Prop := a = b \/ (a = (None, Some 0) /\ b = (None, None)).

Lemma store_zero_nan : forall s0 s1 t0 t1 a e, e < 0 ->
  slot_rel s0 t0 -> slot_rel s1 t1 ->
  slot_rel (fst (store (s0, s1) a e)) (fst (store (t0, t1) a e)) /\
  slot_rel (snd (store (s0, s1) a e)) (snd (store (t0, t1) a e)).
Proof.
  intros (a0, e0) (a1, e1) (b0, f0) (b1, f1) a e He R0 R1. unfold store.
  assert (N0 : nan_or_lt e e0 = nan_or_lt e f0).
  { destruct R0 as [[= <- <-] | ([= -> ->] & [= -> ->])]; [reflexivity|]. cbn. apply Z.ltb_lt. lia. }
  assert (N1 : nan_or_lt e e1 = nan_or_lt e f1).
  { destruct R1 as [[= <- <-] | ([= -> ->] & [= -> ->])]; [reflexivity|]. cbn. apply Z.ltb_lt. lia. }
  rewrite N0, N1. destruct (nan_or_lt e f0); cbn [fst snd].
  - split; [now left | exact R0].
  - destruct (nan_or_lt e f1); cbn [fst snd]; split; auto. now left.
Qed.

Lemma slot_list_rel : forall s0 s1 t0 t1, slot_rel s0 t0 -> slot_rel s1 t1 ->
  slot_list (s0, s1) = slot_list (t0, t1).
Proof.
  intros s0 s1 t0 t1 R0 R1. unfold slot_list.
  destruct R0 as [E0 | (E0 & F0)], R1 as [E1 | (E1 & F1)]; subst;
    repeat match goal with x : slot |- _ => destruct x end; reflexivity.
Qed.

Lemma init_zero_equiv : forall calls : list call, (forall c, In c calls -> snd c < 0) ->
  slot_list (fold_left (fun s c => store s (fst c) (snd c)) calls empty_zero) =
  slot_list (fold_left (fun s c => store s (fst c) (snd c)) calls empty_nan).
Proof.
  intros calls H.
  assert (G : forall calls s0 s1 t0 t1, (forall c, In c calls -> snd c < 0) ->
     slot_rel s0 t0 -> slot_rel s1 t1 ->
     slot_list (fold_left (fun s c => store s (fst c) (snd c)) calls (s0, s1)) =
     slot_list (fold_left (fun s c => store s (fst c) (snd c)) calls (t0, t1))).
  { induction calls0 as [|c cs IH]; intros s0 s1 t0 t1 Hc R0 R1; cbn [fold_left].
    - now apply slot_list_rel.
    - destruct (store_zero_nan s0 s1 t0 t1 (fst c) (snd c)) as (Q0 & Q1); auto.
      { apply Hc. now left. }
      destruct (store (s0, s1) (fst c) (snd c)) as (u0, u1), (store (t0, t1) (fst c) (snd c)) as (v0, v1).
      apply IH; auto. intros; apply Hc; now right. }
  apply G; [assumption | right | right]; split; reflexivity.
Qed.

(* ================================================================= Wernet-Nilsson: the decision spelled out *)
(* r_DA < cut - const * delta^2, as evaluated by the model: every comparison strict; r = |DA| is first
   compared exactly with the apex distance; the angle part is the fixed-point evaluation of
   delta < sqrt((cut - r)/const) degrees, i.e. cos(delta) > cos(that bound) *)
Definition wn_slack (p : wn_params) (a2 : Z) : Z :=
  fx_of_q (fst (wn_cut p)) (snd (wn_cut p)) - fx_sqrt (a2 * SC) / wn_G p.
Definition wn_phi (p : wn_params) (a2 : Z) : Z :=
  fx_mul (fx_sqrt (fx_div (wn_slack p a2) (fx_of_q (fst (wn_const p)) (snd (wn_const p))))) (PI_fx / 180).
Definition wn_cosd (a2 b2 c2 : Z) : Z := (a2 + b2 - c2) * SC * SC / (2 * Z.sqrt (a2 * b2 * SC * SC)).
Definition wn_cosphi (phi : Z) : Z := if 7 * SC <? 4 * phi then fx_cos phi else fx_cos_small phi.

Lemma wn_spec : forall p f d h a,
  let a2 := dist2 (wn_periodic p) f d a in
  let b2 := dist2 (wn_periodic p) f d h in
  let c2 := dist2 (wn_periodic p) f h a in
  wn_presence p f (d, h, a) = true <->
  dist_lt a2 (fst (wn_cut p) * wn_G p) (snd (wn_cut p)) = true /\
  0 < wn_slack p a2 /\ 0 < a2 * b2 /\
  (PI_fx <= wn_phi p a2 \/ wn_cosphi (wn_phi p a2) < wn_cosd a2 b2 c2).
Proof.
  intros p f d h a a2 b2 c2. unfold wn_presence. fold a2 b2 c2.
  destruct (dist_lt a2 (fst (wn_cut p) * wn_G p) (snd (wn_cut p))) eqn:D; cbn [negb].
  2:{ split; [discriminate | intros (H & _); discriminate]. }
  fold (wn_slack p a2).
  destruct (wn_slack p a2 <=? 0) eqn:S; [apply Z.leb_le in S | apply Z.leb_gt in S].
  { split; [discriminate | intros (_ & H & _); lia]. }
  destruct (a2 * b2 <=? 0) eqn:AB; [apply Z.leb_le in AB | apply Z.leb_gt in AB].
  { split; [discriminate | intros (_ & _ & H & _); lia]. }
  fold (wn_phi p a2). fold (wn_cosd a2 b2 c2). fold (wn_cosphi (wn_phi p a2)).
  destruct (PI_fx <=? wn_phi p a2) eqn:P; [apply Z.leb_le in P | apply Z.leb_gt in P].
  - split; [intros _; repeat split; auto | reflexivity].
  - rewrite Z.ltb_lt. split; [intros H; repeat split; auto | intros (_ & _ & _ & [H | H]); [lia | assumption]].
Qed.
