(* Wernet-Nilsson cone (C14): the rational enclosures computed by the model (Hbond/Model.v, section
   ConeBounds) are proved against the real-valued criterion
        r_DA < cut - const * (delta * 180/pi)^2 ,   delta = acos(clip(N / (2 sqrt(a2 b2)))) .
   Real numbers: standard-library axioms only (ClassicalDedekindReals, functional extensionality, classic). *)
From Coq Require Import ZArith QArith Qreals Reals Lra Lia Bool List Machin.
Require Import MD.Hbond.Model.
Local Open Scope R_scope.

(* ------------------------------------------------------------------ Q and R *)
Lemma qlt_spec : forall x y : Q, qlt x y = true <-> (x < y)%Q.
Proof. intros x y. unfold qlt, Qlt. apply Z.ltb_lt. Qed.
Lemma qle_spec : forall x y : Q, qle x y = true <-> (x <= y)%Q.
Proof. intros x y. unfold qle, Qle. apply Z.leb_le. Qed.

Lemma Q2R_inject_Z : forall z, Q2R (inject_Z z) = IZR z.
Proof. intros z. unfold Q2R, inject_Z. cbn. field. Qed.

Lemma Q2R_make : forall n p, Q2R (n # p) = IZR n / IZR (Zpos p).
Proof. reflexivity. Qed.

Lemma TTp_TT : Zpos TTp = TT.
Proof. reflexivity. Qed.

Lemma TT_pos : 0 < IZR TT.
Proof. apply IZR_lt. reflexivity. Qed.

(* ------------------------------------------------------------------ square roots *)
Lemma qsqrt_z_spec : forall q : Q, (0 <= Qnum q)%Z ->
  let z := qsqrt_z q in
  (0 <= z)%Z /\ (z * z * Zpos (Qden q) <= Qnum q * TT * TT)%Z /\ (Qnum q * TT * TT < (z + 1) * (z + 1) * Zpos (Qden q))%Z.
Proof.
  intros q Hn z. unfold z, qsqrt_z.
  set (n := Qnum q) in *. set (d := Zpos (Qden q)).
  assert (Hd : (0 < d)%Z) by reflexivity.
  assert (Hm : (0 <= n * TT * TT / d)%Z) by (apply Z.div_pos; [unfold TT; nia | assumption]).
  pose proof (Z.sqrt_spec _ Hm) as (S1 & S2). pose proof (Z.sqrt_nonneg (n * TT * TT / d)) as S0.
  pose proof (Z.mul_div_le (n * TT * TT) d Hd) as D1.
  pose proof (Z.mul_succ_div_gt (n * TT * TT) d Hd) as D2.
  set (m := (n * TT * TT / d)%Z) in *. set (s := Z.sqrt m) in *.
  split; [assumption|]. split; nia.
Qed.

Lemma sqrt_enclosure : forall q : Q, (0 <= Qnum q)%Z ->
  Q2R (qsqrt_lo q) <= sqrt (Q2R q) < Q2R (qsqrt_hi q).
Proof.
  intros q Hn. destruct (qsqrt_z_spec q Hn) as (Z0 & Z1 & Z2).
  unfold qsqrt_lo, qsqrt_hi. rewrite !Q2R_make, TTp_TT.
  set (z := qsqrt_z q) in *. set (n := Qnum q) in *. set (d := Zpos (Qden q)) in *.
  assert (Hd : 0 < IZR d) by (apply IZR_lt; reflexivity).
  pose proof TT_pos as HT.
  assert (Eq : Q2R q = IZR n / IZR d) by reflexivity. rewrite Eq.
  assert (Hz : 0 <= IZR z) by now apply IZR_le.
  assert (HdT : 0 < IZR d * (IZR TT * IZR TT)) by (apply Rmult_lt_0_compat; [lra | apply Rmult_lt_0_compat; lra]).
  apply IZR_le in Z1. apply IZR_lt in Z2. rewrite !mult_IZR in Z1, Z2. rewrite plus_IZR in Z2.
  split.
  - rewrite <- (sqrt_square (IZR z / IZR TT)) by (apply Rmult_le_pos; [assumption | left; now apply Rinv_0_lt_compat]).
    apply sqrt_le_1_alt.
    apply (Rmult_le_reg_r (IZR d * (IZR TT * IZR TT))); [exact HdT|].
    replace (IZR z / IZR TT * (IZR z / IZR TT) * (IZR d * (IZR TT * IZR TT))) with (IZR z * IZR z * IZR d) by (field; lra).
    replace (IZR n / IZR d * (IZR d * (IZR TT * IZR TT))) with (IZR n * IZR TT * IZR TT) by (field; lra).
    exact Z1.
  - rewrite plus_IZR.
    assert (Hp : 0 <= (IZR z + 1) / IZR TT) by (apply Rmult_le_pos; [lra | left; now apply Rinv_0_lt_compat]).
    rewrite <- (sqrt_square ((IZR z + 1) / IZR TT)) by assumption.
    apply sqrt_lt_1_alt. split.
    + apply Rmult_le_pos; [now apply IZR_le | left; now apply Rinv_0_lt_compat].
    + apply (Rmult_lt_reg_r (IZR d * (IZR TT * IZR TT))); [exact HdT|].
      replace ((IZR z + 1) / IZR TT * ((IZR z + 1) / IZR TT) * (IZR d * (IZR TT * IZR TT))) with ((IZR z + 1) * (IZR z + 1) * IZR d) by (field; lra).
      replace (IZR n / IZR d * (IZR d * (IZR TT * IZR TT))) with (IZR n * IZR TT * IZR TT) by (field; lra).
      exact Z2.
Qed.

(* ------------------------------------------------------------------ rounding to a grid *)
Lemma qdown_le : forall t q, Q2R (qdown t q) <= Q2R q.
Proof.
  intros t q. unfold qdown. rewrite Q2R_make. change (Q2R q) with (IZR (Qnum q) / IZR (Zpos (Qden q))).
  set (n := Qnum q). set (d := Zpos (Qden q)). set (T := Zpos t).
  assert (Hd : (0 < d)%Z) by reflexivity. assert (HT : (0 < T)%Z) by reflexivity.
  pose proof (Z.mul_div_le (n * T) d Hd) as D1. apply IZR_le in D1. rewrite !mult_IZR in D1.
  apply IZR_lt in Hd, HT.
  apply (Rmult_le_reg_r (IZR T * IZR d)); [apply Rmult_lt_0_compat; lra|].
  replace (IZR (n * T / d) / IZR T * (IZR T * IZR d)) with (IZR d * IZR (n * T / d)) by (field; lra).
  replace (IZR n / IZR d * (IZR T * IZR d)) with (IZR n * IZR T) by (field; lra). exact D1.
Qed.

Lemma qup_gt : forall t q, Q2R q < Q2R (qup t q).
Proof.
  intros t q. unfold qup. rewrite Q2R_make. change (Q2R q) with (IZR (Qnum q) / IZR (Zpos (Qden q))).
  set (n := Qnum q). set (d := Zpos (Qden q)). set (T := Zpos t).
  assert (Hd : (0 < d)%Z) by reflexivity. assert (HT : (0 < T)%Z) by reflexivity.
  pose proof (Z.mul_succ_div_gt (n * T) d Hd) as D2. apply IZR_lt in D2.
  unfold Z.succ in D2. rewrite !mult_IZR, plus_IZR in D2. rewrite plus_IZR.
  apply IZR_lt in Hd, HT.
  apply (Rmult_lt_reg_r (IZR T * IZR d)); [apply Rmult_lt_0_compat; lra|].
  replace ((IZR (n * T / d) + 1) / IZR T * (IZR T * IZR d)) with (IZR d * (IZR (n * T / d) + 1)) by (field; lra).
  replace (IZR n / IZR d * (IZR T * IZR d)) with (IZR n * IZR T) by (field; lra). exact D2.
Qed.

(* ------------------------------------------------------------------ pi *)
Lemma pi_enclosure : Q2R pi_lo < PI < Q2R pi_hi.
Proof.
  unfold pi_lo, pi_hi. rewrite !Q2R_make.
  pose proof (PI_2_3_7_ineq 5) as [Hl Hu].
  unfold sum_f_R0, tg_alt, PI_2_3_7_tg, Ratan_seq in Hl, Hu.
  cbn [Nat.mul Nat.add pow INR] in Hl, Hu.
  split; lra.
Qed.

(* ------------------------------------------------------------------ cosine *)
Definition hornerR (m : nat) (x : R) : R :=
  fold_right (fun i acc => 1 - x * acc / INR ((2 * i + 1) * (2 * i + 2))) 1 (seq 0 m).

Lemma cos_approx_horner7 : forall a, cos_approx a 7 = hornerR 7 (a * a).
Proof.
  intros a. unfold cos_approx, sum_f_R0, cos_term, hornerR.
  cbn [seq fold_right Nat.mul Nat.add].
  rewrite !fact_simpl. rewrite !mult_INR. change (Factorial.fact 0) with 1%nat. cbn [INR pow]. field.
Qed.

Lemma cos_approx_horner8 : forall a, cos_approx a 8 = hornerR 8 (a * a).
Proof.
  intros a. unfold cos_approx, sum_f_R0, cos_term, hornerR.
  cbn [seq fold_right Nat.mul Nat.add].
  rewrite !fact_simpl. rewrite !mult_INR. change (Factorial.fact 0) with 1%nat. cbn [INR pow]. field.
Qed.

Lemma Q2R_horner : forall (l : list nat) (x : Q),
  Q2R (fold_right (fun i acc => (1 - x * acc / inject_Z (Z.of_nat ((2 * i + 1) * (2 * i + 2))))%Q) 1%Q l) =
  fold_right (fun i acc => 1 - Q2R x * acc / INR ((2 * i + 1) * (2 * i + 2))) 1 l.
Proof.
  induction l as [|i l IH]; intros x; cbn [fold_right].
  - unfold Q2R. cbn. field.
  - assert (Hc : (0 < Z.of_nat ((2 * i + 1) * (2 * i + 2)))%Z) by lia.
    rewrite Q2R_minus, Q2R_div, Q2R_mult, IH, Q2R_inject_Z, <- INR_IZR_INZ.
    + replace (Q2R 1) with 1 by (unfold Q2R; cbn; field). reflexivity.
    + intros E. unfold Qeq, inject_Z in E. cbn [Qnum Qden] in E. lia.
Qed.

Lemma qcos_poly_R : forall m a, Q2R (qcos_poly m a) = hornerR m (Q2R a * Q2R a).
Proof. intros m a. unfold qcos_poly, hornerR. rewrite Q2R_horner, Q2R_mult. reflexivity. Qed.

Lemma cos_enclosure : forall a : Q, 0 <= Q2R a <= 2 ->
  Q2R (qcos_lo a) <= cos (Q2R a) <= Q2R (qcos_up a).
Proof.
  intros a (H0 & H2). unfold qcos_lo, qcos_up. rewrite !qcos_poly_R, <- cos_approx_horner7, <- cos_approx_horner8.
  assert (Hl : -2 <= Q2R a) by lra.
  exact (pre_cos_bound (Q2R a) 3 Hl H2).
Qed.

(* ------------------------------------------------------------------ the criterion over R *)
Definition clipR (c : R) : R := Rmax (-1) (Rmin 1 c).

(* r_DA < cut - const * delta_deg^2 with delta = arccos(clip(cos)) as computed by _compute_bounded_geometry *)
Definition cone_real (r cut k c : R) : Prop :=
  r < cut - k * ((acos (clipR c) * 180 / PI) * (acos (clipR c) * 180 / PI)).

Lemma clipR_range : forall c, -1 <= clipR c <= 1.
Proof.
  intros c. unfold clipR, Rmax, Rmin. destruct (Rle_dec 1 c); destruct (Rle_dec (-1) _); lra.
Qed.

Lemma clip_gt : forall c t, -1 <= t < 1 -> (t < clipR c <-> t < c).
Proof.
  intros c t Ht. unfold clipR, Rmax, Rmin. destruct (Rle_dec 1 c); destruct (Rle_dec (-1) _); lra.
Qed.

(* with phi = sqrt((cut - r)/k) * pi/180 <= pi the criterion is  cos(phi) < cos(delta) *)
Lemma cone_equiv : forall r cut k c, 0 < k -> 0 < cut - r ->
  let phi := sqrt ((cut - r) / k) * PI / 180 in
  phi <= PI -> (cone_real r cut k c <-> cos phi < c).
Proof.
  intros r cut k c Hk Hs phi Hphi. unfold cone_real.
  set (delta := acos (clipR c)). set (D := delta * 180 / PI). set (x := (cut - r) / k).
  pose proof PI_RGT_0 as HPI. pose proof (acos_bound (clipR c)) as (Hd0 & HdPI). fold delta in Hd0, HdPI.
  assert (Hx : 0 < x) by (unfold x; apply Rdiv_lt_0_compat; assumption).
  assert (HD : 0 <= D) by (unfold D; apply Rmult_le_pos; [nra | left; now apply Rinv_0_lt_compat]).
  assert (Hsx : 0 < sqrt x) by now apply sqrt_lt_R0.
  assert (Hphi0 : 0 < phi) by (unfold phi; fold x; apply Rdiv_lt_0_compat; [nra | lra]).
  (* r < cut - k D^2  <->  D^2 < x *)
  assert (E1 : r < cut - k * (D * D) <-> D * D < x).
  { unfold x. split; intros H.
    - apply (Rmult_lt_reg_r k); [assumption|]. replace ((cut - r) / k * k) with (cut - r) by (field; lra). nra.
    - apply (Rmult_lt_compat_r k) in H; [|assumption]. replace ((cut - r) / k * k) with (cut - r) in H by (field; lra). nra. }
  (* D^2 < x <-> D < sqrt x *)
  assert (E2 : D * D < x <-> D < sqrt x).
  { split; intros H.
    - rewrite <- (sqrt_square D) by assumption. apply sqrt_lt_1_alt. split; [nra | assumption].
    - rewrite <- (sqrt_sqrt x) by lra. nra. }
  (* D < sqrt x <-> delta < phi *)
  assert (E3 : D < sqrt x <-> delta < phi).
  { unfold D, phi. fold x. split; intros H.
    - apply (Rmult_lt_compat_r (PI / 180)) in H; [|lra].
      replace (delta * 180 / PI * (PI / 180)) with delta in H by (field; lra). lra.
    - apply (Rmult_lt_reg_r (PI / 180)); [lra|].
      replace (delta * 180 / PI * (PI / 180)) with delta by (field; lra). lra. }
  (* delta < phi <-> cos phi < cos delta *)
  assert (E4 : delta < phi <-> cos phi < cos delta).
  { split; intros H.
    - apply cos_decreasing_1; lra.
    - destruct (Rlt_dec delta phi) as [G | G]; [assumption|]. exfalso.
      assert (cos delta <= cos phi) by (apply cos_decr_1; lra). lra. }
  assert (E5 : cos delta = clipR c) by (unfold delta; apply cos_acos, clipR_range).
  assert (Hc1 : cos phi < 1).
  { rewrite <- cos_0. apply cos_decreasing_1; lra. }
  pose proof (COS_bound phi) as (Hcm & _).
  rewrite E1, E2, E3, E4, E5. apply clip_gt. lra.
Qed.

(* ------------------------------------------------------------------ assembling the enclosures *)
Lemma Q2R_neq0 : forall y : Q, Q2R y <> 0 -> ~ (y == 0)%Q.
Proof. intros y H E. apply Qeq_eqR in E. rewrite E in H. apply H. unfold Q2R. cbn. field. Qed.

Lemma Q2R_0 : Q2R 0 = 0.
Proof. unfold Q2R. cbn. field. Qed.

Lemma qsqrt_lo_ge1 : forall n : Z, (1 <= n)%Z -> 1 <= Q2R (qsqrt_lo (inject_Z n)).
Proof.
  intros n Hn. unfold qsqrt_lo, qsqrt_z. cbn [inject_Z Qnum Qden]. rewrite Z.div_1_r, Q2R_make, TTp_TT.
  assert (HT : (0 <= TT)%Z) by (unfold TT; lia).
  assert (H : (TT <= Z.sqrt (n * TT * TT))%Z).
  { rewrite <- (Z.sqrt_square TT) at 1 by assumption. apply Z.sqrt_le_mono. nia. }
  apply IZR_le in H. pose proof TT_pos.
  apply (Rmult_le_reg_r (IZR TT)); [assumption|].
  replace (IZR (Z.sqrt (n * TT * TT)) / IZR TT * IZR TT) with (IZR (Z.sqrt (n * TT * TT))) by (field; lra). lra.
Qed.

Section Assembly.
  Variables (G : Z) (cut k : Q) (a2 b2 c2 : Z).
  Hypotheses (HG : (0 < G)%Z) (Hk : (0 < k)%Q) (Ha : (0 < a2)%Z) (Hb : (0 < b2)%Z).

  (* the real quantities: donor-acceptor distance in nm, cosine of the H-D-A angle *)
  Definition rR : R := sqrt (IZR a2) / IZR G.
  Definition cR : R := IZR (a2 + b2 - c2) / (2 * sqrt (IZR a2 * IZR b2)).
  (* the criterion of wernet_nilsson for this triplet in this frame *)
  Definition wn_real : Prop := cone_real rR (Q2R cut) (Q2R k) cR.

  Let HGr : 0 < IZR G. Proof. now apply IZR_lt. Qed.
  Let Hkr : 0 < Q2R k. Proof. rewrite <- Q2R_0. now apply Qlt_Rlt. Qed.

  Lemma injG_neq0 : ~ (inject_Z G == 0)%Q.
  Proof. apply Q2R_neq0. rewrite Q2R_inject_Z. lra. Qed.

  Lemma r_enclosure : Q2R (r_lo G a2) <= rR < Q2R (r_hi G a2).
  Proof.
    unfold r_lo, r_hi, rR. rewrite !Q2R_div by apply injG_neq0. rewrite Q2R_inject_Z.
    destruct (sqrt_enclosure (inject_Z a2)) as (L & U); [cbn; lia|]. rewrite Q2R_inject_Z in L, U.
    split.
    - apply Rmult_le_compat_r; [left; now apply Rinv_0_lt_compat | exact L].
    - apply Rmult_lt_compat_r; [now apply Rinv_0_lt_compat | exact U].
  Qed.

  Lemma cosd_enclosure : Q2R (cosd_lo a2 b2 c2) <= cR <= Q2R (cosd_hi a2 b2 c2).
  Proof.
    unfold cosd_lo, cosd_hi, cR, nn.
    assert (Hab : (1 <= a2 * b2)%Z) by nia.
    destruct (sqrt_enclosure (inject_Z (a2 * b2))) as (L & U); [cbn; lia|].
    rewrite Q2R_inject_Z, mult_IZR in L, U.
    pose proof (qsqrt_lo_ge1 (a2 * b2) Hab) as L1.
    set (s := sqrt (IZR a2 * IZR b2)) in *. set (sl := Q2R (qsqrt_lo (inject_Z (a2 * b2)))) in *.
    set (sh := Q2R (qsqrt_hi (inject_Z (a2 * b2)))) in *. set (N := (a2 + b2 - c2)%Z).
    assert (Hs : 0 < s) by lra. assert (Hsh : 0 < sh) by lra.
    assert (Nl : ~ (2 * qsqrt_lo (inject_Z (a2 * b2)) == 0)%Q).
    { apply Q2R_neq0. rewrite Q2R_mult. fold sl. replace (Q2R 2) with 2 by (unfold Q2R; cbn; field). lra. }
    assert (Nh : ~ (2 * qsqrt_hi (inject_Z (a2 * b2)) == 0)%Q).
    { apply Q2R_neq0. rewrite Q2R_mult. fold sh. replace (Q2R 2) with 2 by (unfold Q2R; cbn; field). lra. }
    assert (E2 : Q2R 2 = 2) by (unfold Q2R; cbn; field).
    destruct (0 <=? N)%Z eqn:EN; [apply Z.leb_le in EN | apply Z.leb_gt in EN];
      rewrite !Q2R_div by assumption; rewrite !Q2R_mult, Q2R_inject_Z, E2; fold sl sh;
      [apply IZR_le in EN | apply IZR_lt in EN]; unfold Rdiv.
    - (* N >= 0 *)
      assert (I1 : / (2 * sh) <= / (2 * s)) by (apply Rinv_le_contravar; lra).
      assert (I2 : / (2 * s) <= / (2 * sl)) by (apply Rinv_le_contravar; lra).
      split; apply Rmult_le_compat_l; assumption.
    - assert (I1 : / (2 * sh) <= / (2 * s)) by (apply Rinv_le_contravar; lra).
      assert (I2 : / (2 * s) <= / (2 * sl)) by (apply Rinv_le_contravar; lra).
      assert (P1 : 0 < / (2 * sh)) by (apply Rinv_0_lt_compat; lra).
      split; nra.
  Qed.

  (* phi for the true distance *)
  Definition phiR : R := sqrt ((Q2R cut - rR) / Q2R k) * PI / 180.

  Lemma qnum_pos : forall q : Q, 0 < Q2R q -> (0 <= Qnum q)%Z.
  Proof.
    intros q H. rewrite <- Q2R_0 in H. apply Rlt_Qlt in H. unfold Qlt in H. cbn in H. lia.
  Qed.

  Lemma phi_lower : forall t, 0 < Q2R (cut - r_hi G a2) ->
    0 <= Q2R (phi_lo G cut k a2 t) <= phiR.
  Proof.
    intros t Hs. unfold phi_lo, phiR.
    destruct r_enclosure as (RL & RU). destruct pi_enclosure as (PL & PU).
    set (y := ((cut - r_hi G a2) / k)%Q).
    assert (Nk : ~ (k == 0)%Q) by (apply Q2R_neq0; lra).
    assert (Hy : Q2R y = Q2R (cut - r_hi G a2) / Q2R k) by (unfold y; now rewrite Q2R_div).
    assert (Hy0 : 0 < Q2R y) by (rewrite Hy; now apply Rdiv_lt_0_compat).
    destruct (sqrt_enclosure y (qnum_pos y Hy0)) as (SL & _).
    assert (Hyle : Q2R y <= (Q2R cut - rR) / Q2R k).
    { rewrite Hy, Q2R_minus. apply Rmult_le_compat_r; [left; now apply Rinv_0_lt_compat | lra]. }
    assert (Hsq : sqrt (Q2R y) <= sqrt ((Q2R cut - rR) / Q2R k)) by now apply sqrt_le_1_alt.
    assert (Hz : 0 <= Q2R (qsqrt_lo y)).
    { unfold qsqrt_lo. rewrite Q2R_make, TTp_TT. apply Rmult_le_pos; [|left; apply Rinv_0_lt_compat, TT_pos].
      apply IZR_le. apply (qsqrt_z_spec y (qnum_pos y Hy0)). }
    set (w := (qsqrt_lo y * pi_lo / 180)%Q).
    assert (Hw : Q2R w = Q2R (qsqrt_lo y) * Q2R pi_lo / 180).
    { unfold w. rewrite Q2R_div, Q2R_mult.
      - replace (Q2R 180) with 180 by (unfold Q2R; cbn; field). reflexivity.
      - apply Q2R_neq0. unfold Q2R. cbn. lra. }
    assert (Hpl : 0 < Q2R pi_lo) by (unfold pi_lo; rewrite Q2R_make; lra).
    assert (Hw0 : 0 <= Q2R w) by (rewrite Hw; apply Rmult_le_pos; [apply Rmult_le_pos; lra | lra]).
    split.
    - (* rounding down keeps it non-negative *)
      unfold qdown. rewrite Q2R_make. apply Rmult_le_pos; [|left; apply Rinv_0_lt_compat, IZR_lt; reflexivity].
      apply IZR_le. apply Z.div_pos; [|reflexivity].
      assert (0 <= Qnum w)%Z.
      { destruct (Rle_lt_or_eq_dec _ _ Hw0) as [H | H]; [now apply qnum_pos|].
        unfold Q2R in H. symmetry in H. apply Rmult_integral in H as [H | H].
        - apply eq_IZR in H. lia.
        - exfalso. revert H. apply Rinv_neq_0_compat. apply IZR_neq. discriminate. }
      nia.
    - apply Rle_trans with (Q2R w); [apply qdown_le|]. rewrite Hw.
      apply Rle_trans with (sqrt ((Q2R cut - rR) / Q2R k) * Q2R pi_lo / 180).
      + apply Rmult_le_compat_r; [lra|]. apply Rmult_le_compat_r; lra.
      + assert (0 <= sqrt ((Q2R cut - rR) / Q2R k)) by apply sqrt_pos.
        apply Rmult_le_compat_r; [lra|]. apply Rmult_le_compat_l; lra.
  Qed.

  Lemma phi_upper : forall t, 0 < Q2R cut - rR -> phiR < Q2R (phi_hi G cut k a2 t).
  Proof.
    intros t Hs. unfold phi_hi, phiR.
    destruct r_enclosure as (RL & RU). destruct pi_enclosure as (PL & PU).
    set (y := ((cut - r_lo G a2) / k)%Q).
    assert (Nk : ~ (k == 0)%Q) by (apply Q2R_neq0; lra).
    assert (Hy : Q2R y = (Q2R cut - Q2R (r_lo G a2)) / Q2R k) by (unfold y; now rewrite Q2R_div, Q2R_minus).
    assert (Hyge : (Q2R cut - rR) / Q2R k <= Q2R y).
    { rewrite Hy. apply Rmult_le_compat_r; [left; now apply Rinv_0_lt_compat | lra]. }
    assert (Hx0 : 0 < (Q2R cut - rR) / Q2R k) by now apply Rdiv_lt_0_compat.
    assert (Hy0 : 0 < Q2R y) by lra.
    destruct (sqrt_enclosure y (qnum_pos y Hy0)) as (_ & SU).
    assert (Hsq : sqrt ((Q2R cut - rR) / Q2R k) <= sqrt (Q2R y)) by now apply sqrt_le_1_alt.
    set (w := (qsqrt_hi y * pi_hi / 180)%Q).
    assert (Hw : Q2R w = Q2R (qsqrt_hi y) * Q2R pi_hi / 180).
    { unfold w. rewrite Q2R_div, Q2R_mult.
      - replace (Q2R 180) with 180 by (unfold Q2R; cbn; field). reflexivity.
      - apply Q2R_neq0. unfold Q2R. cbn. lra. }
    apply Rle_lt_trans with (Q2R w); [|apply qup_gt]. rewrite Hw.
    assert (H0 : 0 <= sqrt ((Q2R cut - rR) / Q2R k)) by apply sqrt_pos.
    assert (H1 : sqrt ((Q2R cut - rR) / Q2R k) <= Q2R (qsqrt_hi y)) by lra.
    apply Rle_trans with (Q2R (qsqrt_hi y) * PI / 180).
    - apply Rmult_le_compat_r; [lra|]. apply Rmult_le_compat_r; [left; apply PI_RGT_0 | assumption].
    - apply Rmult_le_compat_r; [lra|]. apply Rmult_le_compat_l; lra.
  Qed.
End Assembly.

(* ------------------------------------------------------------------ soundness / completeness *)
Section Decide.
  Variables (G : Z) (cut k : Q) (a2 b2 c2 : Z).
  Hypotheses (HG : (0 < G)%Z) (Hk : (0 < k)%Q) (Ha : (0 < a2)%Z) (Hb : (0 < b2)%Z).

  Let Hkr : 0 < Q2R k. Proof. rewrite <- Q2R_0. now apply Qlt_Rlt. Qed.
  Let E2 : Q2R 2 = 2. Proof. unfold Q2R; cbn; field. Qed.

  (* "sure" is sound: it only answers true when the real criterion holds *)
  Lemma cone_sure_at_sound : forall t, cone_sure_at G cut k a2 b2 c2 t = true -> wn_real G cut k a2 b2 c2.
  Proof.
    intros t H. unfold cone_sure_at in H.
    apply andb_true_iff in H as (H & H4). apply andb_true_iff in H as (H & H3). apply andb_true_iff in H as (_ & H2).
    apply qlt_spec, Qlt_Rlt in H2. rewrite Q2R_0 in H2.
    apply qle_spec, Qle_Rle in H3. rewrite E2 in H3.
    apply qlt_spec, Qlt_Rlt in H4.
    destruct (r_enclosure G a2 HG Ha) as (RL & RU).
    assert (Hs : 0 < Q2R cut - rR G a2) by (rewrite Q2R_minus in H2; lra).
    destruct (phi_lower G cut k a2 HG Hk Ha t H2) as (P0 & PL).
    pose proof (phi_upper G cut k a2 HG Hk Ha t Hs) as PU. fold (phiR G cut k a2) in *.
    pose proof PI_RGT_0 as HPI. destruct pi_enclosure as (PIl & _).
    assert (HPI3 : 3 < PI) by (unfold pi_lo in PIl; rewrite Q2R_make in PIl; lra).
    unfold wn_real. apply (cone_equiv _ _ _ _ Hkr Hs); [fold (phiR G cut k a2); lra|]. fold (phiR G cut k a2).
    destruct (cosd_enclosure G a2 b2 c2 HG Ha Hb) as (CL & _). fold (cR a2 b2 c2) in CL.
    destruct (cos_enclosure (phi_lo G cut k a2 t)) as (_ & CU); [lra|].
    assert (cos (phiR G cut k a2) <= cos (Q2R (phi_lo G cut k a2 t))) by (apply cos_decr_1; lra).
    fold (cR a2 b2 c2). lra.
  Qed.

  (* "maybe" is complete: whenever the real criterion holds it answers true *)
  Lemma cone_maybe_at_complete : forall t, wn_real G cut k a2 b2 c2 -> cone_maybe_at G cut k a2 b2 c2 t = true.
  Proof.
    intros t W. unfold cone_maybe_at.
    assert (P : (0 <? a2 * b2)%Z = true) by (apply Z.ltb_lt; nia). rewrite P. cbn [andb].
    destruct (r_enclosure G a2 HG Ha) as (RL & RU).
    (* the slack is positive *)
    assert (Hs : 0 < Q2R cut - rR G a2).
    { unfold wn_real, cone_real in W.
      set (D := acos (clipR (cR a2 b2 c2)) * 180 / PI) in W. assert (0 <= Q2R k * (D * D)) by nra. lra. }
    assert (S1 : qlt 0 (cut - r_lo G a2) = true).
    { apply qlt_spec, Rlt_Qlt. rewrite Q2R_0, Q2R_minus. lra. }
    rewrite S1. cbn [andb].
    destruct (qle (phi_hi G cut k a2 t) 2) eqn:Q; [cbn [negb orb] | reflexivity].
    apply qle_spec, Qle_Rle in Q. rewrite E2 in Q.
    pose proof (phi_upper G cut k a2 HG Hk Ha t Hs) as PU. fold (phiR G cut k a2) in PU.
    pose proof PI_RGT_0 as HPI. destruct pi_enclosure as (PIl & _).
    assert (HPI3 : 3 < PI) by (unfold pi_lo in PIl; rewrite Q2R_make in PIl; lra).
    assert (Hphi0 : 0 <= phiR G cut k a2).
    { unfold phiR. apply Rmult_le_pos; [apply Rmult_le_pos; [apply sqrt_pos | lra] | lra]. }
    apply (cone_equiv _ _ _ _ Hkr Hs) in W; [|fold (phiR G cut k a2); lra]. fold (phiR G cut k a2) in W.
    destruct (cosd_enclosure G a2 b2 c2 HG Ha Hb) as (_ & CH). fold (cR a2 b2 c2) in CH.
    destruct (cos_enclosure (phi_hi G cut k a2 t)) as (CL & _); [lra|].
    assert (cos (Q2R (phi_hi G cut k a2 t)) <= cos (phiR G cut k a2)) by (apply cos_decr_1; lra).
    apply qlt_spec, Rlt_Qlt. fold (cR a2 b2 c2) in W. lra.
  Qed.

  (* the decision procedures with shared sub-results are the two-level combinations *)
  Lemma cone_sure_spec :
    cone_sure G cut k a2 b2 c2 = cone_sure_at G cut k a2 b2 c2 1024 || cone_sure_at G cut k a2 b2 c2 16777216.
  Proof.
    unfold cone_sure, cone_sure_at, phi_lo, phi_hi, r_hi, r_lo, qsqrt_hi, qsqrt_lo.
    destruct (0 <? a2 * b2)%Z; cbn [negb andb orb]; [|reflexivity].
    destruct (qlt 0 (cut - (qsqrt_z (inject_Z a2) + 1 # TTp) / inject_Z G)); cbn [negb andb orb]; [|reflexivity].
    destruct (qle _ 2 && qlt _ _); reflexivity.
  Qed.

  Lemma cone_maybe_spec :
    cone_maybe G cut k a2 b2 c2 = cone_maybe_at G cut k a2 b2 c2 1024 && cone_maybe_at G cut k a2 b2 c2 16777216.
  Proof.
    unfold cone_maybe, cone_maybe_at, phi_hi.
    destruct (0 <? a2 * b2)%Z; cbn [negb andb orb]; [|reflexivity].
    destruct (qlt 0 (cut - r_lo G a2)); cbn [negb andb orb]; [|reflexivity].
    destruct (negb (qle _ 2) || qlt _ _); reflexivity.
  Qed.

  Theorem cone_sure_sound : cone_sure G cut k a2 b2 c2 = true -> wn_real G cut k a2 b2 c2.
  Proof.
    rewrite cone_sure_spec. intros H. apply orb_true_iff in H as [H | H]; eapply cone_sure_at_sound; eassumption.
  Qed.

  Theorem cone_maybe_complete : wn_real G cut k a2 b2 c2 -> cone_maybe G cut k a2 b2 c2 = true.
  Proof.
    intros W. rewrite cone_maybe_spec. now rewrite !cone_maybe_at_complete.
  Qed.
End Decide.

(* ------------------------------------------------------------------ for a triplet in a frame *)
Lemma sq_nonneg : forall x : Z, (0 <= sq x)%Z.
Proof. intros x. unfold sq. nia. Qed.

Lemma dist2_nonneg : forall per f i j, (0 <= dist2 per f i j)%Z.
Proof.
  intros per f i j. unfold dist2. destruct (pos f i) as ((x1, y1), z1), (pos f j) as ((x2, y2), z2).
  destruct (if per then f_box f else None) as [((lx, ly), lz)|].
  - pose proof (sq_nonneg (mic1 lx (x2 - x1))). pose proof (sq_nonneg (mic1 ly (y2 - y1))).
    pose proof (sq_nonneg (mic1 lz (z2 - z1))). lia.
  - pose proof (sq_nonneg (x2 - x1)). pose proof (sq_nonneg (y2 - y1)). pose proof (sq_nonneg (z2 - z1)). lia.
Qed.

(* well-formed parameters: positive grid, positive rational apex distance and angle constant *)
Definition wn_wf (p : wn_params) : Prop :=
  (0 < wn_G p)%Z /\ (0 < snd (wn_cut p))%Z /\ (0 < fst (wn_const p))%Z /\ (0 < snd (wn_const p))%Z.

Lemma q_of_pair_pos : forall c : Z * Z, (0 < fst c)%Z -> (0 < snd c)%Z -> (0 < q_of_pair c)%Q.
Proof. intros (n, d) Hn Hd. unfold q_of_pair, Qlt. cbn in *. lia. Qed.

(* the real-valued criterion of wernet_nilsson for triplet (d, h, a) in frame f *)
Definition wn_real_triplet (p : wn_params) (f : frame) (t : triplet) : Prop :=
  match t with (d, h, a) =>
    wn_real (wn_G p) (q_of_pair (wn_cut p)) (q_of_pair (wn_const p))
            (dist2 (wn_periodic p) f d a) (dist2 (wn_periodic p) f d h) (dist2 (wn_periodic p) f h a)
  end.

Theorem wn_sure_sound : forall p f t, wn_wf p -> wn_sure p f t = true -> wn_real_triplet p f t.
Proof.
  intros p f ((d, h), a) (HG & Hcd & Hkn & Hkd) H. unfold wn_sure in H. unfold wn_real_triplet.
  destruct (dist_lt _ _ _); cbn [negb] in H; [|discriminate].
  set (a2 := dist2 (wn_periodic p) f d a) in *. set (b2 := dist2 (wn_periodic p) f d h) in *.
  set (c2 := dist2 (wn_periodic p) f h a) in *.
  assert (P : (0 < a2 * b2)%Z).
  { rewrite cone_sure_spec in H. unfold cone_sure_at in H.
    destruct (0 <? a2 * b2)%Z eqn:E; [now apply Z.ltb_lt in E | cbn in H; discriminate]. }
  assert (A0 : (0 <= a2)%Z) by apply dist2_nonneg. assert (B0 : (0 <= b2)%Z) by apply dist2_nonneg.
  apply cone_sure_sound; try assumption; try nia. now apply q_of_pair_pos.
Qed.

Lemma apex_test_exact : forall G cn cd a2, (0 < G)%Z -> (0 < cd)%Z -> (0 <= a2)%Z ->
  sqrt (IZR a2) / IZR G < Q2R (q_of_pair (cn, cd)) -> dist_lt a2 (cn * G) cd = true.
Proof.
  intros G cn cd a2 HG Hcd Ha H. unfold q_of_pair in H. cbn [fst snd] in H. rewrite Q2R_make in H.
  rewrite Z2Pos.id in H by assumption.
  apply IZR_lt in HG, Hcd. apply IZR_le in Ha.
  assert (Hs : 0 <= sqrt (IZR a2)) by apply sqrt_pos.
  assert (H1 : sqrt (IZR a2) * IZR cd < IZR cn * IZR G).
  { apply (Rmult_lt_compat_r (IZR G * IZR cd)) in H; [|apply Rmult_lt_0_compat; lra].
    replace (sqrt (IZR a2) / IZR G * (IZR G * IZR cd)) with (sqrt (IZR a2) * IZR cd) in H by (field; lra).
    replace (IZR cn / IZR cd * (IZR G * IZR cd)) with (IZR cn * IZR G) in H by (field; lra). exact H. }
  assert (Hcd0 : 0 <= sqrt (IZR a2) * IZR cd) by (apply Rmult_le_pos; lra).
  assert (Hcn : 0 < IZR cn * IZR G) by lra.
  assert (H2 : IZR a2 * (IZR cd * IZR cd) < (IZR cn * IZR G) * (IZR cn * IZR G)).
  { rewrite <- (sqrt_sqrt (IZR a2)) at 1 by assumption. nra. }
  unfold dist_lt, sq. apply andb_true_iff. split; apply Z.ltb_lt.
  - rewrite <- mult_IZR in Hcn. now apply (lt_IZR 0) in Hcn.
  - rewrite <- !mult_IZR in H2. now apply lt_IZR in H2.
Qed.

Theorem wn_maybe_complete : forall p f d h a, wn_wf p ->
  (0 < dist2 (wn_periodic p) f d a)%Z -> (0 < dist2 (wn_periodic p) f d h)%Z ->
  wn_real_triplet p f (d, h, a) -> wn_maybe p f (d, h, a) = true.
Proof.
  intros p f d h a (HG & Hcd & Hkn & Hkd) Ha Hb W. unfold wn_maybe. unfold wn_real_triplet in W.
  set (a2 := dist2 (wn_periodic p) f d a) in *. set (b2 := dist2 (wn_periodic p) f d h) in *.
  set (c2 := dist2 (wn_periodic p) f h a) in *.
  assert (Hk : (0 < q_of_pair (wn_const p))%Q) by now apply q_of_pair_pos.
  assert (Hr : rR (wn_G p) a2 < Q2R (q_of_pair (wn_cut p))).
  { unfold wn_real, cone_real in W.
    set (D := acos (clipR (cR a2 b2 c2)) * 180 / PI) in W.
    assert (0 < Q2R (q_of_pair (wn_const p))) by (rewrite <- Q2R_0; now apply Qlt_Rlt).
    assert (0 <= Q2R (q_of_pair (wn_const p)) * (D * D)) by nra. lra. }
  assert (E : dist_lt a2 (fst (wn_cut p) * wn_G p) (snd (wn_cut p)) = true).
  { destruct (wn_cut p) as (cn, cd) eqn:Ec. cbn [fst snd] in *. apply apex_test_exact; try assumption; try lia. }
  rewrite E. cbn [negb]. now apply cone_maybe_complete.
Qed.
