(* Kabsch-Sander model (C14): the as-found hydrogen placement depends on data outside the frame
   (refuted), the repaired one does not. *)
From Coq Require Import List ZArith Bool Arith Lia.
Import ListNotations.
Require Import MD.Gen.HbondTables MD.Hbond.Model MD.Hbond.KsModel.
Local Open Scope Z_scope.

Definition dres : residue := mkRes None None None None false.

Lemma skip_false_some : forall r, r_skip r = false ->
  exists n ca c o, r_n r = Some n /\ r_ca r = Some ca /\ r_c r = Some c /\ r_o r = Some o.
Proof.
  intros r H. unfold r_skip in H. destruct (r_n r), (r_ca r), (r_c r), (r_o r); try discriminate. eauto 8.
Qed.

(* ------------------------------------------------------------------ repaired variant: independent of oob *)
Lemma hydrogen_fix_indep : forall K G xyz oob1 oob2 rs ri,
  hydrogen K G xyz oob1 h_fix rs ri = hydrogen K G xyz oob2 h_fix rs ri.
Proof.
  intros K G xyz oob1 oob2 rs ri. unfold hydrogen. fold dres. destruct ri as [|pi].
  - destruct (r_skip (nth 0 rs dres)) eqn:S; [reflexivity|].
    apply skip_false_some in S as (n & ca & c & o & En & _). now rewrite En.
  - destruct (r_skip (nth (S pi) rs dres)) eqn:S; [reflexivity|].
    apply skip_false_some in S as (n & ca & c & o & En & _). rewrite En.
    destruct (r_c (nth pi rs dres)) as [pc|], (r_o (nth pi rs dres)) as [po|]; reflexivity.
Qed.

Lemma hydrogens_fix_indep : forall K G xyz oob1 oob2 rs,
  hydrogens K G xyz oob1 h_fix rs = hydrogens K G xyz oob2 h_fix rs.
Proof. intros. unfold hydrogens. apply map_ext. intros. apply hydrogen_fix_indep. Qed.

Lemma energy_indep : forall K G xyz oob1 oob2 hs rs d a,
  r_skip (nth d rs dres) = false -> r_skip (nth a rs dres) = false ->
  ks_energy_h K G xyz oob1 hs rs d a = ks_energy_h K G xyz oob2 hs rs d a.
Proof.
  intros K G xyz oob1 oob2 hs rs d a Sd Sa. unfold ks_energy_h. fold dres.
  apply skip_false_some in Sd as (n & ca & c & o & En & _).
  apply skip_false_some in Sa as (n' & ca' & c' & o' & _ & _ & Ec & Eo).
  rewrite En, Ec, Eo. reflexivity.
Qed.

Lemma pair_step_ext : forall p xyz en1 en2 rs st ij,
  (forall d a, r_skip (nth d rs dres) = false -> r_skip (nth a rs dres) = false -> en1 d a = en2 d a) ->
  pair_step p xyz en1 rs st ij = pair_step p xyz en2 rs st ij.
Proof.
  intros p xyz en1 en2 rs st (ri, rj) H. unfold pair_step. fold dres.
  destruct (r_skip (nth ri rs dres)) eqn:Si; cbn [orb]; [reflexivity|].
  destruct (r_skip (nth rj rs dres)) eqn:Sj; [reflexivity|].
  destruct (ca_close p xyz _ _); [|reflexivity].
  unfold try_store. rewrite (H ri rj Si Sj), (H rj ri Sj Si). reflexivity.
Qed.

Lemma ks_loop_ext : forall p init rs xyz en1 en2,
  (forall d a, r_skip (nth d rs dres) = false -> r_skip (nth a rs dres) = false -> en1 d a = en2 d a) ->
  ks_loop p init rs xyz en1 = ks_loop p init rs xyz en2.
Proof.
  intros p init rs xyz en1 en2 H. unfold ks_loop. generalize (Some (repeat init (length rs))).
  induction (ks_pairs (length rs)) as [|ij l IH]; intros st; cbn [fold_left]; [reflexivity|].
  rewrite (pair_step_ext p xyz en1 en2 rs st ij H). apply IH.
Qed.

(* with the repaired hydrogen placement the result of a frame is a function of that frame alone *)
Lemma ks_fix_frame_local : forall K G thr ca2 init rs xyz oob1 oob2,
  kabsch_sander_frame (mkKS K G h_fix thr ca2) init rs xyz oob1 =
  kabsch_sander_frame (mkKS K G h_fix thr ca2) init rs xyz oob2.
Proof.
  intros. unfold kabsch_sander_frame. cbn [ks_K ks_G ks_hv].
  rewrite (hydrogens_fix_indep K G xyz oob1 oob2 rs). apply ks_loop_ext.
  intros d a Sd Sa. now apply energy_indep.
Qed.

(* ------------------------------------------------------------------ as-found variant: refuted *)
(* three residues, residue 0 without O, residue 1 complete: whether 1 -> 2 is reported depends on oob *)
Definition w_rs : list residue :=
  [mkRes (Some 0%nat) (Some 1%nat) (Some 2%nat) None false;
   mkRes (Some 3%nat) (Some 4%nat) (Some 5%nat) (Some 6%nat) false;
   mkRes (Some 7%nat) (Some 8%nat) (Some 9%nat) (Some 10%nat) false].
Definition w_xyz : list vec :=
  [(-300, 100, 0); (-200, 100, 0); (-100, 50, 0);
   (0, 0, 0); (50, 120, 0); (150, 200, 0); (150, 320, 0);
   (600, 0, 100); (500, 100, 0); (430, 0, 0); (307, 0, 0)].
Definition nominal (hv : hvariant) : ks_params :=
  mkKS gen_consts 1024 hv (fst ks_energy_cutoff * SC / snd ks_energy_cutoff) ks_minimal_ca_distance2.

Definition bonds_of (r : option (list slots)) : list (list nat) :=
  match r with Some l => map (fun s => map fst (slot_list s)) l | None => [] end.

Lemma ks_cur_depends_on_oob :
  bonds_of (kabsch_sander_frame (nominal h_cur) empty_nan w_rs w_xyz (-200, 50, 0)) = [[]; [2%nat]; []] /\
  bonds_of (kabsch_sander_frame (nominal h_cur) empty_nan w_rs w_xyz (0, 50, 0)) = [[]; []; []].
Proof. split; vm_compute; reflexivity. Qed.

Lemma ks_h_position_refuted : exists p init rs xyz oob1 oob2,
  ks_hv p = h_cur /\
  kabsch_sander_frame p init rs xyz oob1 <> kabsch_sander_frame p init rs xyz oob2.
Proof.
  exists (nominal h_cur), empty_nan, w_rs, w_xyz, (-200, 50, 0), (0, 50, 0). split; [reflexivity|].
  intros H. pose proof ks_cur_depends_on_oob as (A & B). rewrite H in A. rewrite A in B. discriminate.
Qed.
