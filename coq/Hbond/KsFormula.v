(* Kabsch-Sander energy (C14): the expression translated from ks_donor_acceptor() is the documented
   formula; the clamp does not interfere with the bond threshold; the model evaluates exactly these terms. *)
From Coq Require Import List ZArith QArith Bool Lia.
Import ListNotations.
Require Import MD.Gen.HbondTables MD.Gen.HbondFormulas MD.Hbond.Model MD.Hbond.KsModel.

(* ------------------------------------------------------------------ the formula *)
(* documented (docstring of md.kabsch_sander, Kabsch & Sander 1983):
     E = 0.42 * 0.2 * 33.2 kcal/(mol nm) * (1/r_ON + 1/r_CH - 1/r_OH - 1/r_CN)
   with the four inverse distances as free variables *)
Definition ks_documented (inv : ks_site -> ks_site -> Q) : Q :=
  (42 # 100) * (2 # 10) * (332 # 10) * (inv KS_N KS_O + inv KS_H KS_C - inv KS_H KS_O - inv KS_N KS_C).

Lemma ks_formula_documented : forall inv, ks_energy_expr inv == ks_documented inv.
Proof. intros inv. unfold ks_energy_expr, ks_documented. ring. Qed.

(* the term list handed to the model is that expression *)
Definition q_of (c : Z * Z) : Q := Qmake (fst c) (Z.to_pos (snd c)).
Definition terms_value (inv : ks_site -> ks_site -> Q) (ts : list ((Z * Z) * (ks_site * ks_site))) : Q :=
  fold_right (fun t acc => q_of (fst t) * inv (fst (snd t)) (snd (snd t)) + acc) 0 ts.

Lemma ks_terms_are_the_expression : forall inv, terms_value inv (c_ks_terms gen_consts) == ks_energy_expr inv.
Proof. intros inv. unfold terms_value, ks_energy_expr. cbn. unfold q_of. cbn. ring. Qed.

Lemma ks_doc_terms_are_documented : forall inv, terms_value inv (c_ks_terms doc_consts) == ks_documented inv.
Proof. intros inv. unfold terms_value, ks_documented. cbn. unfold q_of. cbn. ring. Qed.

(* which positions: N and H of the donor residue, C and O of the acceptor residue *)
Lemma ks_sites_documented :
  ks_site_source KS_N = (true, 0%nat) /\ ks_site_source KS_H = (true, 3%nat) /\
  ks_site_source KS_C = (false, 1%nat) /\ ks_site_source KS_O = (false, 2%nat).
Proof. repeat split. Qed.

(* ------------------------------------------------------------------ clamp and threshold *)
Definition clampQ (t v e : Q) : Q := if Qlt_le_dec e t then v else e.

(* the floor at -9.9 never decides whether a bond exists: for any threshold above the floor value *)
Lemma clamp_keeps_threshold : forall t v thr e, v <= t -> t <= thr -> v < thr ->
  (clampQ t v e < thr <-> e < thr).
Proof.
  intros t v thr e Hvt Htt Hv. unfold clampQ. destruct (Qlt_le_dec e t) as [H | H].
  - split; intros _; [apply (Qlt_le_trans _ t); assumption | assumption].
  - reflexivity.
Qed.

Lemma ks_clamp_documented :
  q_of ks_clamp_test == -99 # 10 /\ q_of ks_clamp_value == -99 # 10 /\ q_of ks_energy_cutoff == -1 # 2.
Proof. repeat split; reflexivity. Qed.

Lemma ks_threshold_test_documented : forall e,
  (clampQ (q_of ks_clamp_test) (q_of ks_clamp_value) e < q_of ks_energy_cutoff <-> e < -1 # 2).
Proof.
  intros e. destruct ks_clamp_documented as (T & V & C).
  rewrite (clamp_keeps_threshold (q_of ks_clamp_test) (q_of ks_clamp_value) (q_of ks_energy_cutoff) e).
  - now rewrite C.
  - rewrite T, V. apply Qle_refl.
  - rewrite T, C. discriminate.
  - rewrite V, C. reflexivity.
Qed.

(* the same fact for the fixed-point clamp of the model *)
Local Open Scope Z_scope.
Lemma ks_clamp_Z_keeps_threshold : forall K e thr,
  fst (c_ks_clamp_value K) * SC / snd (c_ks_clamp_value K) <= fst (c_ks_clamp_test K) * SC / snd (c_ks_clamp_test K) ->
  fst (c_ks_clamp_test K) * SC / snd (c_ks_clamp_test K) <= thr ->
  fst (c_ks_clamp_value K) * SC / snd (c_ks_clamp_value K) < thr ->
  (ks_clamp K e <? thr) = (e <? thr).
Proof.
  intros K e thr H1 H2 H3. unfold ks_clamp.
  destruct (e <? fst (c_ks_clamp_test K) * SC / snd (c_ks_clamp_test K)) eqn:E.
  - apply Z.ltb_lt in E. transitivity true; [apply Z.ltb_lt; lia | symmetry; apply Z.ltb_lt; lia].
  - reflexivity.
Qed.

(* ------------------------------------------------------------------ the model evaluates these terms *)
(* ks_energy_h = clamp (sum over the translated terms of coefficient * (1/distance)), each inverse
   distance and each product rounded down in 2^-44 fixed point *)
Lemma ks_energy_h_terms : forall K G xyz oob hs rs d a h,
  nth d hs None = Some h ->
  ks_energy_h K G xyz oob hs rs d a =
  let rd := nth d rs (mkRes None None None None false) in
  let ra := nth a rs (mkRes None None None None false) in
  let site := fun s => match s with
                       | KS_N => to_fx (at_idx xyz oob (r_n rd)) | KS_H => h
                       | KS_C => to_fx (at_idx xyz oob (r_c ra)) | KS_O => to_fx (at_idx xyz oob (r_o ra))
                       end in
  option_map (ks_clamp K) (sum_terms (map (ks_term G site) (c_ks_terms K))).
Proof.
  intros K G xyz oob hs rs d a h H. unfold ks_energy_h. rewrite H. cbn zeta.
  destruct (sum_terms _); reflexivity.
Qed.
