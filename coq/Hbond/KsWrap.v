(* The Python layer around the Kabsch-Sander kernel (C14; shared by compute_dssp, C15), hbond.py:
     _prep_kabsch_sander_arrays   per residue the index of the FIRST atom named N / CA / C / O (-1 when absent),
                                  is_proline = (residue.name == "PRO"), is_protein = all four present
     kabsch_sander                hbonds filled with -1, henergies with NaN, one CSR matrix per frame assembled
                                  from the (n_residues, 2) output arrays:
                                     mask    = hbonds != -1
                                     indptr  = [0] ++ cumsum(mask.sum(axis=1))
                                     indices = hbonds[mask], data = henergies[mask]        (row-major, slot order)
                                  and transposed: entry (row = acceptor, column = donor) = energy
   Definitions only; proofs in Hbond/KsWrapProofs.v. *)
From Coq Require Import List ZArith Bool Arith String.
Import ListNotations.
Require Import MD.Gen.HbondTables MD.Gen.HbondFormulas MD.Hbond.Model MD.Hbond.KsModel.
Local Open Scope nat_scope.

(* ---------------------------------------------------------------- _prep_kabsch_sander_arrays *)
(* a residue as the topology presents it: its name and its atoms (global atom index, atom name) in order *)
Definition res_desc := (string * list (nat * string))%type.

(* [a.index for a in residue.atoms if a.name == nm][0], IndexError -> -1 *)
Fixpoint first_named (nm : string) (atoms : list (nat * string)) : option nat :=
  match atoms with
  | [] => None
  | (i, s) :: r => if String.eqb s nm then Some i else first_named nm r
  end.

Definition prep_residue (r : res_desc) : residue :=
  mkRes (first_named "N" (snd r)) (first_named "CA" (snd r)) (first_named "C" (snd r)) (first_named "O" (snd r))
        (String.eqb (fst r) "PRO").

Definition prep (rs : list res_desc) : list residue := map prep_residue rs.

(* is_protein: ca != -1 and n != -1 and c != -1 and o != -1 *)
Definition is_protein (r : residue) : bool := negb (r_skip r).

(* ---------------------------------------------------------------- the CSR assembly *)
(* hbonds != -1 for one slot *)
Definition slot_filled (s : slot) : bool := match fst s with Some _ => true | None => false end.

(* hbonds_frame[mask] / henergies_frame[mask] restricted to one donor row, slot order; an energy None is NaN *)
Definition csr_row (s : slots) : list (nat * option Z) :=
  (match fst (fst s) with Some a => [(a, snd (fst s))] | None => [] end) ++
  (match fst (snd s) with Some a => [(a, snd (snd s))] | None => [] end).

(* indptr[0] = 0, indptr[1:] = cumsum(mask.sum(axis=1)) *)
Fixpoint cumsum_from (acc : nat) (l : list nat) : list nat :=
  match l with [] => [] | x :: r => (acc + x) :: cumsum_from (acc + x) r end.
Definition csr_indptr (l : list slots) : list nat := 0 :: cumsum_from 0 (map (fun s => List.length (csr_row s)) l).
Definition csr_indices (l : list slots) : list nat := flat_map (fun s => map fst (csr_row s)) l.
Definition csr_data (l : list slots) : list (option Z) := flat_map (fun s => map snd (csr_row s)) l.

(* what the three arrays mean as a CSR matrix: row d holds the columns indices[indptr[d] : indptr[d+1]] with
   the values data[indptr[d] : indptr[d+1]] *)
Definition slice {A} (lo hi : nat) (l : list A) : list A := firstn (hi - lo) (skipn lo l).
Definition csr_decode (indptr indices : list nat) (data : list (option Z)) : list (list (nat * option Z)) :=
  map (fun d => combine (slice (nth d indptr 0) (nth (S d) indptr 0) indices)
                        (slice (nth d indptr 0) (nth (S d) indptr 0) data))
      (seq 0 (List.length indptr - 1)).

(* the transposed matrix as (row = acceptor residue, column = donor residue, value) triples *)
Definition matrix_entries (l : list slots) : list (nat * nat * option Z) :=
  flat_map (fun dr : nat * list (nat * option Z) => map (fun ae => (fst ae, fst dr, snd ae)) (snd dr))
           (combine (seq 0 (List.length l)) (csr_decode (csr_indptr l) (csr_indices l) (csr_data l))).

(* ---------------------------------------------------------------- md.kabsch_sander, one frame, from names *)
Definition kabsch_sander_py (p : ks_params) (rs : list res_desc) (xyz : list vec) (oob : vec)
  : option (list (nat * nat * option Z)) :=
  option_map matrix_entries (kabsch_sander_frame p empty_nan (prep rs) xyz oob).
