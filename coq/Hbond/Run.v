(* Executable glue for the C14 correspondence: runs the models at the guard-band shifted thresholds and
   compares with what mdtraj returned.  Definitions only.

   Guard bands.  mdtraj computes in float32; a triplet whose geometry is within the guard of a threshold may
   legitimately fall on either side.  For baker_hubbard / wernet_nilsson the model is evaluated twice, with the
   thresholds shifted against (strict) and in favour of (lenient) a bond; presence is monotone in the
   thresholds, so  strict <= mdtraj <= lenient  must hold as ordered sub-sequences.  Triplets in
   lenient \ strict are the ones "within 1e-5 of a threshold" that the property excludes. *)
From Coq Require Import List ZArith Bool Arith.
Import ListNotations.
Require Import MD.Gen.HbondTables MD.Hbond.Model MD.Hbond.Angle MD.Hbond.KsModel.
Local Open Scope Z_scope.

Definition q := (Z * Z)%type.                       (* rational n/d, d > 0 *)
Definition q_sub (a b : q) : q := (fst a * snd b - fst b * snd a, snd a * snd b).
Definition q_add (a b : q) : q := (fst a * snd b + fst b * snd a, snd a * snd b).
Definition q_scale (k : Z) (a : q) : q := (k * fst a, snd a).

Definition triplet_eqb (a b : triplet) : bool :=
  match a, b with (d1, h1, a1), (d2, h2, a2) => Nat.eqb d1 d2 && Nat.eqb h1 h2 && Nat.eqb a1 a2 end.

(* a is a sub-sequence of b *)
Fixpoint subseq (a b : list triplet) : bool :=
  match a, b with
  | [], _ => true
  | _ :: _, [] => false
  | x :: a', y :: b' => if triplet_eqb x y then subseq a' b' else subseq a b'
  end.

Definition sandwich (strict lenient impl : list triplet) : bool := subseq strict impl && subseq impl lenient.

(* ------------------------------------------------------------------ baker_hubbard *)
(* (exclude_water, sidechain_only, periodic, freq, distance_cutoff nm | default, angle_cutoff deg | default,
    guard nm, guard deg, G) *)
Definition bh_case :=
  (bool * bool * bool * q * option q * option q * q * q * Z * topo * list frame)%type.

(* the angle threshold enters as a rational bound on cos(angle_cutoff): sure = lower end of the proved
   enclosure of cos (a passing triplet certainly has angle > angle_cutoff, Hbond/AngleR.v bh_wide_sure_sound),
   maybe = upper end (every triplet with angle > angle_cutoff passes, bh_wide_maybe_complete) *)
Definition bh_params_of (sure : bool) (ew sc per : bool) (freq cut_nm ang_deg : q) (G : Z) : bh_params :=
  mkBH ew sc per freq (q_scale G cut_nm) (if sure then bh_cos_sure ang_deg else bh_cos_maybe ang_deg).

Definition run_bh_k (K : consts) (c : bh_case) : result (list triplet * list triplet) :=
  match c with
  | (ew, sc, per, freq, cut, ang, gd, ga, G, t, fs) =>
    let cut0 := match cut with Some x => x | None => c_bh_cut K end in
    let ang0 := match ang with Some x => x | None => c_bh_ang K end in
    let ps := bh_params_of true ew sc per freq (q_sub cut0 gd) (q_add ang0 ga) G in
    let pl := bh_params_of false ew sc per freq (q_add cut0 gd) (q_sub ang0 ga) G in
    match baker_hubbard ps t fs, baker_hubbard pl t fs with
    | Ok s, Ok l => Ok (s, l)
    | _, _ => ErrNoBonds
    end
  end.

Definition run_bh := run_bh_k gen_consts.
Definition run_bh_spec := run_bh_k doc_consts.

Definition check_bh (o : result (list triplet * list triplet)) (e : result (list triplet)) : bool :=
  match o, e with
  | Ok (s, l), Ok i => sandwich s l i
  | ErrNoBonds, ErrNoBonds => true
  | _, _ => false
  end.

(* how many triplets fall in the guard band (evidence only) *)
Definition bh_uncertain (c : bh_case) : nat :=
  match run_bh c with Ok (s, l) => (length l - length s)%nat | ErrNoBonds => 0%nat end.

(* ------------------------------------------------------------------ wernet_nilsson *)
Definition wn_case := (bool * bool * bool * q * Z * topo * list frame)%type.   (* ew sc periodic guard_nm G *)

Definition run_wn_k (K : consts) (c : wn_case) : result (list (list triplet) * list (list triplet)) :=
  match c with
  | (ew, sc, per, gd, G, t, fs) =>
    let ps := mkWN ew sc per G (q_sub (c_wn_cut K) gd) (c_wn_const K) in
    let pl := mkWN ew sc per G (q_add (c_wn_cut K) gd) (c_wn_const K) in
    (* strict: certainly inside the cone with the apex pulled in by the guard; lenient: possibly inside the
       cone with the apex pushed out (rigorous enclosures, Hbond/WnR.v) *)
    match wernet_nilsson_with wn_sure ps t fs, wernet_nilsson_with wn_maybe pl t fs with
    | Ok s, Ok l => Ok (s, l)
    | _, _ => ErrNoBonds
    end
  end.

Definition run_wn := run_wn_k gen_consts.
Definition run_wn_spec := run_wn_k doc_consts.

Fixpoint sandwich_all (s l i : list (list triplet)) : bool :=
  match s, l, i with
  | [], [], [] => true
  | a :: s', b :: l', c :: i' => sandwich a b c && sandwich_all s' l' i'
  | _, _, _ => false
  end.

Definition check_wn (o : result (list (list triplet) * list (list triplet))) (e : result (list (list triplet))) : bool :=
  match o, e with
  | Ok (s, l), Ok i => sandwich_all s l i
  | ErrNoBonds, ErrNoBonds => true
  | _, _ => false
  end.

(* ------------------------------------------------------------------ kabsch_sander *)
(* One frame.  Donors whose outcome could depend on float32 rounding are flagged ambiguous and skipped:
   a candidate acceptor whose CA distance^2 is within gca of the threshold, whose energy is within ge of the
   threshold, or a gap of at most ge between the 2nd and 3rd best energies. *)
Definition res_at (rs : list residue) (i : nat) : residue := nth i rs (mkRes None None None None false).

(* acceptors that the loop can ever offer to donor d: complete, not d itself, not d-1 *)
Definition offered (rs : list residue) (d a : nat) : bool :=
  negb (r_skip (res_at rs a)) && negb (Nat.eqb a d) && negb (Nat.eqb (S a) d).

Fixpoint insert_z (x : Z) (l : list Z) : list Z :=
  match l with [] => [x] | y :: r => if x <=? y then x :: l else y :: insert_z x r end.
Definition sort_z (l : list Z) : list Z := fold_right insert_z [] l.

(* energies of all pairs the loop can ask for, computed once *)
Definition energy_table (K : consts) (G : Z) (hv : hvariant) (gca : q) (rs : list residue) (xyz : list vec) (oob : vec)
  : list (list (option (option Z))) :=
  let n := length rs in
  let thr := fst (c_ks_ecut K) * SC / snd (c_ks_ecut K) in
  let phi := mkKS K G hv thr (q_add (c_ks_ca2 K) gca) in
  let hs := hydrogens K G xyz oob hv rs in
  map (fun d => map (fun a =>
         if negb (r_skip (res_at rs d)) && offered rs d a && ca_close phi xyz (res_at rs d) (res_at rs a)
         then Some (ks_energy_h K G xyz oob hs rs d a) else None) (seq 0 n)) (seq 0 n).

Definition table_energy (K : consts) (G : Z) (hv : hvariant) (rs : list residue) (xyz : list vec) (oob : vec)
           (tab : list (list (option (option Z)))) (d a : nat) : option Z :=
  match nth a (nth d tab []) None with
  | Some e => e
  | None => ks_energy K G xyz oob hv rs d a      (* not tabulated: compute (never needed in practice) *)
  end.

Definition ks_ambiguous (K : consts) (G : Z) (hv : hvariant) (ge : Z) (gca : q) (rs : list residue) (xyz : list vec)
           (tab : list (list (option (option Z)))) (d : nat) : bool :=
  let n := length rs in
  let thr := fst (c_ks_ecut K) * SC / snd (c_ks_ecut K) in
  let plo := mkKS K G hv thr (q_sub (c_ks_ca2 K) gca) in
  let cands := filter (fun a => match nth a (nth d tab []) None with Some _ => true | None => false end) (seq 0 n) in
  let border_ca := existsb (fun a => negb (ca_close plo xyz (res_at rs d) (res_at rs a))) cands in
  let es := flat_map (fun a => match nth a (nth d tab []) None with Some (Some e) => [e] | _ => [] end) cands in
  let border_e := existsb (fun e => (thr - ge <=? e) && (e <=? thr + ge)) es in
  let low := sort_z (filter (fun e => e <? thr + ge) es) in
  let gap := match low with _ :: e2 :: e3 :: _ => e3 - e2 <=? ge | _ => false end in
  border_ca || border_e || gap.

(* expected: per donor the (acceptor, energy * 2^32) pairs mdtraj reported, sorted by acceptor *)
Definition ks_expected := list (list (nat * Z)).

Fixpoint insert_a (x : nat * Z) (l : list (nat * Z)) : list (nat * Z) :=
  match l with [] => [x] | y :: r => if Nat.leb (fst x) (fst y) then x :: l else y :: insert_a x r end.
Definition sort_a (l : list (nat * Z)) : list (nat * Z) := fold_right insert_a [] l.

(* |model energy - reported energy| <= tol, both in SC fixed point;
   e32 = reported energy * 2^32 *)
Definition energy_close (tol : Z) (m : Z) (e32 : Z) : bool := Z.abs (m * 2 ^ 32 - e32 * SC) <=? tol * 2 ^ 32.

Fixpoint bonds_match (tol : Z) (m e : list (nat * Z)) : bool :=
  match m, e with
  | [], [] => true
  | (a1, e1) :: m', (a2, e2) :: e' => Nat.eqb a1 a2 && energy_close tol e1 e2 && bonds_match tol m' e'
  | _, _ => false
  end.

(* (G, variant, guard energy, guard ca, tolerance, residues, xyz, oob) *)
Definition ks_case := (Z * hvariant * Z * q * Z * list residue * list vec * vec)%type.

(* Some (per donor: ambiguous?, bonds sorted by acceptor); None = degenerate geometry *)
Definition run_ks_k (K : consts) (c : ks_case) : option (list (bool * list (nat * Z))) :=
  match c with
  | (G, hv, ge, gca, tol, rs, xyz, oob) =>
    let thr := fst (c_ks_ecut K) * SC / snd (c_ks_ecut K) in
    let p := mkKS K G hv thr (c_ks_ca2 K) in
    let tab := energy_table K G hv gca rs xyz oob in
    match ks_loop p empty_nan rs xyz (table_energy K G hv rs xyz oob tab) with
    | None => None
    | Some sl =>
      Some (map (fun ds : nat * slots => let (d, s) := ds in
                   (ks_ambiguous K G hv ge gca rs xyz tab d, sort_a (slot_list s)))
                (combine (seq 0 (length rs)) sl))
    end
  end.

Definition run_ks := run_ks_k gen_consts.

Fixpoint ks_rows_match (tol : Z) (m : list (bool * list (nat * Z))) (e : ks_expected) : bool :=
  match m, e with
  | [], [] => true
  | (amb, bm) :: m', be :: e' => (amb || bonds_match tol bm be) && ks_rows_match tol m' e'
  | _, _ => false
  end.

Definition check_ks (c : ks_case) (e : ks_expected) : bool :=
  match c with
  | (_, _, _, _, tol, _, _, _) =>
    match run_ks c with
    | None => true                       (* degenerate: generator avoids it, counted by ks_degenerate *)
    | Some m => ks_rows_match tol m e
    end
  end.

Definition ks_degenerate (c : ks_case) : bool := match run_ks c with None => true | Some _ => false end.
Definition ks_n_ambiguous (c : ks_case) : nat :=
  match run_ks c with None => 0%nat | Some m => length (filter fst m) end.

(* ------------------------------------------------------------------ store_energies sequences *)
(* energies as integers (the harness uses small integers, exactly representable as float) *)
Definition run_store (init_nan : bool) (calls : list (nat * Z)) : slots :=
  fold_left (fun s c => store s (fst c) (snd c)) calls (if init_nan then empty_nan else empty_zero).

Definition opt_nat_eqb (a b : option nat) : bool :=
  match a, b with Some x, Some y => Nat.eqb x y | None, None => true | _, _ => false end.
Definition opt_z_eqb (a b : option Z) : bool :=
  match a, b with Some x, Some y => x =? y | None, None => true | _, _ => false end.
Definition slots_eqb (a b : slots) : bool :=
  match a, b with
  | ((a0, e0), (a1, e1)), ((b0, f0), (b1, f1)) =>
    opt_nat_eqb a0 b0 && opt_z_eqb e0 f0 && opt_nat_eqb a1 b1 && opt_z_eqb e1 f1
  end.

(* ------------------------------------------------------------------ result-sharing variants for the harness *)
Definition bh_unc (r : result (list triplet * list triplet)) : nat :=
  match r with Ok (s, l) => (length l - length s)%nat | ErrNoBonds => 0%nat end.
Definition wn_unc (r : result (list (list triplet) * list (list triplet))) : nat :=
  match r with
  | Ok (s, l) => fold_left (fun acc sl => (acc + (length (snd sl) - length (fst sl)))%nat) (combine s l) 0%nat
  | ErrNoBonds => 0%nat
  end.
Definition run_ks_t_k (K : consts) (c : ks_case) : Z * option (list (bool * list (nat * Z))) :=
  match c with (_, _, _, _, tol, _, _, _) => (tol, run_ks_k K c) end.
Definition run_ks_t := run_ks_t_k gen_consts.
Definition run_ks_t_spec := run_ks_t_k doc_consts.
Definition check_ks_t (r : Z * option (list (bool * list (nat * Z)))) (e : ks_expected) : bool :=
  match snd r with None => true | Some m => ks_rows_match (fst r) m e end.
Definition ks_unc (r : Z * option (list (bool * list (nat * Z)))) : nat :=
  match snd r with None => 0%nat | Some m => length (filter fst m) end.
