(* Reflection for the regenerated data-flow terms (C03): a term that passes the checker denotes exactly the model's
   operation (repaired variant).  MD.Gen.TrajFlow proves check_* = true for the extracted terms on every run. *)
From Coq Require Import List Arith ZArith Bool.
Import ListNotations.
Require Import MD.Traj.Model MD.Traj.Flow.

Lemma src_eqb_eq a b : src_eqb a b = true -> a = b.
Proof. destruct a, b; cbn; congruence. Qed.
Lemma operand_eqb_eq a b : operand_eqb a b = true -> a = b.
Proof. destruct a, b; cbn; congruence. Qed.
Lemma access_eqb_eq a b : access_eqb a b = true -> a = b.
Proof. destruct a, b; cbn; congruence. Qed.
Lemma fresh_eqb_eq a b : fresh_eqb a b = true -> a = b.
Proof. destruct a, b; cbn; congruence. Qed.
Lemma fate_eqb_eq a b : fate_eqb a b = true -> a = b.
Proof. destruct a, b; cbn; congruence. Qed.

Lemma dsrc_eqb_eq a b : dsrc_eqb a b = true -> a = b.
Proof.
  destruct a, b; cbn; intros H; try discriminate; try reflexivity.
  - apply andb_true_iff in H. destruct H as [H H3]. apply andb_true_iff in H. destruct H as [H1 H2].
    apply operand_eqb_eq in H1. apply src_eqb_eq in H2. apply access_eqb_eq in H3. congruence.
  - apply src_eqb_eq in H. congruence.
Qed.

Lemma desc_eqb_eq a b : desc_eqb a b = true -> a = b.
Proof.
  destruct a as [s f st], b as [s' f' st']. unfold desc_eqb. cbn. intros H.
  apply andb_true_iff in H. destruct H as [H H3]. apply andb_true_iff in H. destruct H as [H1 H2].
  apply dsrc_eqb_eq in H1. apply fresh_eqb_eq in H2. apply eqb_prop in H3. congruence.
Qed.

Lemma is_desc_eq o d : is_desc o d = true -> o = Some d.
Proof. destruct o as [x|]; cbn; [|discriminate]. intros H. apply desc_eqb_eq in H. congruence. Qed.

Ltac split_and H :=
  repeat match type of H with _ && _ = true => let H1 := fresh "C" in apply andb_true_iff in H; destruct H as [H H1] end.

(* ------------------------------------------------------------------ slice *)
Lemma slice_with_ref v w r k copy :
  slice_indexes_traces v = true ->
  slice_with (dF SXyz AKey FrIfCopy) (dF STime AKey FrIfCopy) (dF SLen AKey FrIfCopy) (dF SAng AKey FrIfCopy)
             (dF STop AWhole FrIfCopy) (dF STraces AKey FrFresh) w r k copy = do_slice v w r k copy.
Proof.
  intros Hs. unfold slice_with, do_slice, slice_cell, slice_oarr, index_field, dF.
  cbn [d_src d_fresh kpos eff_copy cell_of]. rewrite Hs.
  destruct (nth_error (trajs w) r) as [t|]; [|reflexivity].
  destruct (key_positions (nframes t) k) as [e|[xi xs]]; [reflexivity|].
  destruct (key_positions (length (a_val (tm t))) k) as [e|[ti ts]]; [reflexivity|].
  destruct (ua t) as [ca|].
  - destruct (key_positions (length (a_val ca)) k) as [e|[ia sa]]; [reflexivity|].
    destruct (slice_arr (CSrc 0 0) w ca ia sa copy true false) as [w1 ua'].
    destruct (ul t) as [cl|].
    + destruct (key_positions (length (a_val cl)) k) as [e|[il sl]]; [reflexivity|].
      destruct (slice_arr (CSrc 0 0) w1 cl il sl copy true false) as [w2 ul']. reflexivity.
    + reflexivity.
  - destruct (ul t) as [cl|].
    + destruct (key_positions (length (a_val cl)) k) as [e|[il sl]]; [reflexivity|].
      destruct (slice_arr (CSrc 0 0) w cl il sl copy true false) as [w2 ul']. reflexivity.
    + reflexivity.
Qed.

Theorem check_slice_sound f :
  check_slice f = true ->
  exists g, slice_sem f = Some g /\
            forall v w r k copy, slice_indexes_traces v = true -> g w r k copy = do_slice v w r k copy.
Proof.
  unfold check_slice. intros H. split_and H.
  apply is_desc_eq in H. apply is_desc_eq in C. apply is_desc_eq in C0. apply is_desc_eq in C1.
  apply is_desc_eq in C2. apply is_desc_eq in C3.
  unfold slice_sem. rewrite H, C, C0, C1, C2, C3. eexists. split; [reflexivity|].
  intros v w r k copy Hs. apply slice_with_ref. exact Hs.
Qed.

(* ------------------------------------------------------------------ join *)
Lemma join_with_ref w t others ct dis :
  join_with (mkDesc (DConcat SLen) FrFresh false) (mkDesc (DConcat SAng) FrFresh false) (dF STop AWhole FrFresh) w t others ct dis
  = join_trajs w t others ct dis.
Proof. unfold join_with, join_trajs, dF. cbn [d_src d_fresh eff_copy cat_cell]. reflexivity. Qed.

Theorem check_join_sound f :
  check_join f = true ->
  exists g, join_sem f = Some g /\ forall w t others ct dis, g w t others ct dis = join_trajs w t others ct dis.
Proof.
  unfold check_join. intros H. split_and H.
  apply is_desc_eq in H. apply is_desc_eq in C. apply is_desc_eq in C0. apply is_desc_eq in C1.
  apply is_desc_eq in C2. apply is_desc_eq in C3.
  unfold join_sem. rewrite H, C, C0, C1, C2, C3. eexists. split; [reflexivity|].
  intros. apply join_with_ref.
Qed.

(* ------------------------------------------------------------------ stack *)
Lemma stack_with_ref w r r' :
  stack_with (dF STime AWhole FrSame) (dF SLen AWhole FrSame) (dF SAng AWhole FrSame) w r r' = do_stack w r r'.
Proof.
  unfold stack_with, do_stack, dF, pass_oarr. cbn [d_src d_fresh eff_copy cell_of pick].
  destruct (nth_error (trajs w) r) as [t|]; [|reflexivity].
  destruct (nth_error (trajs w) r') as [o|]; [|reflexivity].
  destruct (negb (Nat.eqb (nframes t) (nframes o))); [reflexivity|].
  destruct (alloc_x w (zip_stk (frames w t) (frames w o))) as [w1 b].
  destruct (fresh_top w1) as [w2 tl]. destruct (ensure_oarr w2 (ul t)) as [w3 ul'].
  destruct (ensure_oarr w3 (ua t)) as [w4 ua']. reflexivity.
Qed.

Theorem check_stack_sound f :
  check_stack f = true ->
  exists g, stack_sem f = Some g /\ forall w r r', g w r r' = do_stack w r r'.
Proof.
  unfold check_stack. intros H. split_and H.
  apply is_desc_eq in H. apply is_desc_eq in C. apply is_desc_eq in C0. apply is_desc_eq in C1.
  apply is_desc_eq in C2. apply is_desc_eq in C3.
  unfold stack_sem. rewrite H, C, C0, C1, C2, C3. eexists. split; [reflexivity|].
  intros. apply stack_with_ref.
Qed.

(* ------------------------------------------------------------------ atom_slice *)
Lemma atom_slice_with_ref v w r idx :
  atom_slice_with (dF STime AWhole FrFresh) (dF SLen AWhole FrFresh) (dF SAng AWhole FrFresh) w r idx
  = do_atom_slice v w r idx false.
Proof.
  unfold atom_slice_with, do_atom_slice, dF. cbn [d_src d_fresh eff_copy cell_of].
  destruct (nth_error (trajs w) r) as [t|]; [|reflexivity].
  destruct (norm_indices (na t) idx) as [ni|]; [|reflexivity].
  destruct (alloc_x w (map (Sub ni) (frames w t))) as [w1 b]. destruct (fresh_top w1) as [w2 tl]. reflexivity.
Qed.

Theorem check_atom_slice_sound f :
  check_atom_slice f = true ->
  exists g, atom_slice_sem f = Some g /\ forall v w r idx, g w r idx = do_atom_slice v w r idx false.
Proof.
  unfold check_atom_slice. intros H. split_and H.
  apply is_desc_eq in H. apply is_desc_eq in C. apply is_desc_eq in C0. apply is_desc_eq in C1.
  apply is_desc_eq in C2. apply is_desc_eq in C3.
  unfold atom_slice_sem. rewrite H, C, C0, C1, C2, C3. eexists. split; [reflexivity|].
  intros. apply atom_slice_with_ref.
Qed.

(* ------------------------------------------------------------------ in-place methods *)
Lemma atom_slice_inplace_with_ref v w r idx :
  atom_slice_inplace_with (if aslice_inplace_resets v then CReset else CKeep) w r idx = do_atom_slice v w r idx true.
Proof.
  unfold atom_slice_inplace_with, do_atom_slice.
  destruct (nth_error (trajs w) r) as [t|]; [|reflexivity].
  destruct (norm_indices (na t) idx) as [ni|]; [|reflexivity].
  destruct (alloc_x w (map (Sub ni) (frames w t))) as [w1 b]. destruct (fresh_top w1) as [w2 tl].
  destruct (aslice_inplace_resets v); reflexivity.
Qed.

Lemma set_xyz_new_with_ref w r m natoms : set_xyz_new_with CReset w r m natoms = do_set_xyz_new w r m natoms.
Proof. reflexivity. Qed.

Lemma center_with_ref w r mw : center_with CFromCentring CReset w r mw = do_center w r mw.
Proof. reflexivity. Qed.

Lemma superpose_with_ref w r ref frame : superpose_with CReset w r ref frame = do_superpose w r ref frame.
Proof. reflexivity. Qed.

Theorem check_effects_sound e :
  check_effects e = true ->
  exists ops, effects_sem e = Some ops /\
    (forall w r m natoms, op_set_xyz_new ops w r m natoms = do_set_xyz_new w r m natoms) /\
    (forall v w r idx, aslice_inplace_resets v = true -> op_atom_slice_inplace ops w r idx = do_atom_slice v w r idx true) /\
    (forall w r mw, op_center ops w r mw = do_center w r mw) /\
    (forall w r ref frame, op_superpose ops w r ref frame = do_superpose w r ref frame).
Proof.
  unfold check_effects, effects_sem. intros H. apply andb_true_iff in H. destruct H as [H1 H2]. rewrite H1.
  destruct (fates e) as [[[[[sf a] c] m] s]|]; [|discriminate].
  split_and H2. apply fate_eqb_eq in H2. apply fate_eqb_eq in C. apply fate_eqb_eq in C0. apply fate_eqb_eq in C1.
  apply fate_eqb_eq in C2. subst.
  eexists. split; [reflexivity|]. cbn [op_set_xyz_new op_atom_slice_inplace op_center op_superpose].
  split; [|split; [|split]].
  - intros. apply set_xyz_new_with_ref.
  - intros v w r idx Hv. rewrite <- atom_slice_inplace_with_ref. rewrite Hv. reflexivity.
  - intros. apply center_with_ref.
  - intros. apply superpose_with_ref.
Qed.

(* ------------------------------------------------------------------ what the interpreter says about wrong terms *)
(* the semantics is not only defined on the right terms: a slice whose time is not copied shares its time array
   with the source (so no_shared_mutable fails for it), lengths fed from angles swap the cell fields, an
   atom_slice(inplace=True) that keeps the cache leaves it stale.  Evaluated on a concrete world: *)
Definition w_demo := fst (run v_fix (init_world [(3, [[1; 2; 3]], true, true)]) [OCenter 0 false]).

Definition dropped_copy_shares_stmt : Prop :=
  let '(w', _) := slice_with (dF SXyz AKey FrIfCopy) (dF STime AKey FrSame) (dF SLen AKey FrIfCopy) (dF SAng AKey FrIfCopy)
                             (dF STop AWhole FrIfCopy) (dF STraces AKey FrFresh) w_demo 0 (KSlice (Some 1%Z) None None) true in
  match nth_error (trajs w') 0, nth_error (trajs w') 1 with
  | Some t, Some t' => Nat.eqb (a_buf (tm t)) (a_buf (tm t'))
  | _, _ => false
  end = true.
Example dropped_copy_shares : dropped_copy_shares_stmt.
Proof. vm_compute. reflexivity. Qed.

Example swapped_cell_fields :
  let '(w', _) := slice_with (dF SXyz AKey FrIfCopy) (dF STime AKey FrIfCopy) (dF SAng AKey FrIfCopy) (dF SLen AKey FrIfCopy)
                             (dF STop AWhole FrIfCopy) (dF STraces AKey FrFresh) w_demo 0 (KSlice (Some 1%Z) None None) true in
  match nth_error (trajs w') 0, nth_error (trajs w') 1 with
  | Some t, Some t' => match ul t', ua t with
                       | Some l', Some a => list_eqb (fun x y => match x, y with CSrc s f, CSrc s' f' => Nat.eqb s s' && Nat.eqb f f' | _, _ => false end)
                                                     (a_val l') (tl (a_val a))
                       | _, _ => false
                       end
  | _, _ => false
  end = true.
Proof. vm_compute. reflexivity. Qed.

Definition missing_reset_is_stale_stmt : Prop :=
  let '(w', _) := atom_slice_inplace_with CKeep w_demo 0 [0%Z; 2%Z] in
  match nth_error (trajs w') 0 with Some t => cache_ok w' t | None => true end = false.
Example missing_reset_is_stale : missing_reset_is_stale_stmt.
Proof. vm_compute. reflexivity. Qed.
