(* Lemmas about the trajectory model (C03): allocation discipline, well-formedness of views,
   per-operation specifications. *)
From Coq Require Import List Arith ZArith Bool Lia.
Import ListNotations.
Require Import MD.Traj.Model MD.Traj.Lists.

Ltac splits := repeat lazymatch goal with |- _ /\ _ => split end.

(* ------------------------------------------------------------------ invariants of a world *)
(* the xyz view of a register points into an existing buffer, at pairwise distinct existing positions *)
Definition traj_wf (w : world) (t : traj) : Prop :=
  xb t < length (hx w) /\ NoDup (xp t) /\ Forall (fun p => p < length (buf_of w (xb t))) (xp t).

(* every identity a register mentions has been handed out already *)
Definition oarr_below {A} (n : nat) (o : option (arr A)) : Prop :=
  match o with None => True | Some c => a_buf c < n end.
Definition ids_below (w : world) (t : traj) : Prop :=
  a_buf (tm t) < nbuf w /\ oarr_below (nbuf w) (ul t) /\ oarr_below (nbuf w) (ua t) /\
  oarr_below (nbuf w) (tr t) /\ tloc t < ntop w.

Definition reg_ok (w : world) (t : traj) : Prop := traj_wf w t /\ ids_below w t.
Definition wf (w : world) : Prop := Forall (reg_ok w) (trajs w).

(* heap extension: old buffers untouched, counters only grow *)
Definition hext (w w1 : world) : Prop :=
  (exists extra, hx w1 = hx w ++ extra) /\ nbuf w <= nbuf w1 /\ ntop w <= ntop w1.
(* w1 is w after some allocations: additionally the same registers *)
Definition ext (w w1 : world) : Prop := hext w w1 /\ trajs w1 = trajs w.

Lemma hext_refl w : hext w w.
Proof. repeat split; auto. exists []. now rewrite app_nil_r. Qed.
Lemma ext_refl w : ext w w.
Proof. split; [apply hext_refl|reflexivity]. Qed.

Lemma hext_trans w w1 w2 : hext w w1 -> hext w1 w2 -> hext w w2.
Proof.
  intros [[e1 H1] [B1 P1]] [[e2 H2] [B2 P2]]. repeat split; try lia.
  exists (e1 ++ e2). rewrite H2, H1, app_assoc. reflexivity.
Qed.
Lemma ext_trans w w1 w2 : ext w w1 -> ext w1 w2 -> ext w w2.
Proof. intros [H1 T1] [H2 T2]. split; [eapply hext_trans; eauto|congruence]. Qed.

Lemma hext_buf w w1 b : hext w w1 -> b < length (hx w) -> buf_of w1 b = buf_of w b.
Proof. intros [[e H] _] Hb. unfold buf_of. rewrite H. apply app_nth1. exact Hb. Qed.

Lemma hext_hx_len w w1 : hext w w1 -> length (hx w) <= length (hx w1).
Proof. intros [[e H] _]. rewrite H, app_length. lia. Qed.

Lemma hext_frames w w1 t : hext w w1 -> xb t < length (hx w) -> frames w1 t = frames w t.
Proof. intros He Hb. unfold frames. now rewrite (hext_buf _ _ _ He Hb). Qed.

Lemma hext_reg_ok w w1 t : hext w w1 -> reg_ok w t -> reg_ok w1 t.
Proof.
  intros He [[Hb [Hnd Hp]] [I1 [I2 [I3 [I4 I5]]]]].
  pose proof (hext_hx_len _ _ He). pose proof He as [Hh [Hn Ht]].
  split.
  - repeat split; auto; [lia|]. now rewrite (hext_buf _ _ _ He Hb).
  - unfold ids_below, oarr_below in *. repeat split; try lia.
    + destruct (ul t); auto; lia.
    + destruct (ua t); auto; lia.
    + destruct (tr t); auto; lia.
Qed.

Lemma hext_push w t : hext w (push w t).
Proof. repeat split; cbn; auto. exists []. now rewrite app_nil_r. Qed.
Lemma hext_put w r t : hext w (put w r t).
Proof. repeat split; cbn; auto. exists []. now rewrite app_nil_r. Qed.

Lemma ext_hext w w1 : ext w w1 -> hext w w1.  Proof. intros [H _]; exact H. Qed.
Lemma ext_trajs w w1 : ext w w1 -> trajs w1 = trajs w.  Proof. intros [_ H]; exact H. Qed.
Lemma ext_nbuf w w1 : ext w w1 -> nbuf w <= nbuf w1.  Proof. intros [[_ [H _]] _]; exact H. Qed.
Lemma ext_ntop w w1 : ext w w1 -> ntop w <= ntop w1.  Proof. intros [[_ [_ H]] _]; exact H. Qed.
Lemma ext_hx w w1 : ext w w1 -> exists extra, hx w1 = hx w ++ extra.  Proof. intros [[H _] _]; exact H. Qed.

(* --- the allocation primitives are extensions *)
Ltac ext_easy := split; [repeat split; cbn; auto; try lia; try (exists []; now rewrite app_nil_r)|reflexivity].

Lemma alloc_x_spec w fs w1 b : alloc_x w fs = (w1, b) ->
  ext w w1 /\ b = length (hx w) /\ buf_of w1 b = fs /\ b < length (hx w1) /\ nbuf w1 = nbuf w /\ ntop w1 = ntop w /\ nsrc w1 = nsrc w.
Proof.
  unfold alloc_x. intros H. inversion H; subst; clear H. split; [|cbn; repeat split; auto].
  - split; [|reflexivity]. repeat split; cbn; auto. exists [fs]. reflexivity.
  - unfold buf_of. cbn. rewrite app_nth2 by lia. now rewrite Nat.sub_diag.
  - rewrite app_length. cbn. lia.
Qed.

Lemma fresh_buf_spec w w1 b : fresh_buf w = (w1, b) -> ext w w1 /\ b = nbuf w /\ nbuf w1 = S (nbuf w) /\ hx w1 = hx w /\ ntop w1 = ntop w.
Proof. unfold fresh_buf. intros H; inversion H; subst. split; [ext_easy|cbn; auto]. Qed.

Lemma fresh_top_spec w w1 l : fresh_top w = (w1, l) -> ext w w1 /\ l = ntop w /\ ntop w1 = S (ntop w) /\ hx w1 = hx w /\ nbuf w1 = nbuf w.
Proof. unfold fresh_top. intros H; inversion H; subst. split; [ext_easy|cbn; auto]. Qed.

Lemma fresh_src_spec w w1 s : fresh_src w = (w1, s) -> ext w w1 /\ hx w1 = hx w /\ nbuf w1 = nbuf w /\ ntop w1 = ntop w.
Proof. unfold fresh_src. intros H; inversion H; subst. split; [ext_easy|cbn; auto]. Qed.

Lemma new_arr_spec {A} w (vals : list A) w1 a : new_arr w vals = (w1, a) ->
  ext w w1 /\ a_buf a = nbuf w /\ nbuf w1 = S (nbuf w) /\ a_val a = vals /\ a_pos a = seq 0 (length vals) /\ hx w1 = hx w /\ ntop w1 = ntop w.
Proof.
  unfold new_arr, fresh_buf. intros H; inversion H; subst. split; [ext_easy|cbn; repeat split; auto].
Qed.

Lemma copy_arr_spec {A} w (c : arr A) w1 a : copy_arr w c = (w1, a) ->
  ext w w1 /\ a_buf a = nbuf w /\ nbuf w1 = S (nbuf w) /\ a_val a = a_val c /\ hx w1 = hx w /\ ntop w1 = ntop w.
Proof. unfold copy_arr. intros H. apply new_arr_spec in H. tauto. Qed.

Lemma copy_oarr_spec {A} w (o : option (arr A)) w1 o' : copy_oarr w o = (w1, o') ->
  ext w w1 /\ hx w1 = hx w /\ ntop w1 = ntop w /\ nbuf w <= nbuf w1 /\
  match o, o' with
  | None, None => True
  | Some c, Some a => nbuf w <= a_buf a < nbuf w1 /\ a_val a = a_val c
  | _, _ => False
  end.
Proof.
  unfold copy_oarr. destruct o as [c|].
  - destruct (copy_arr w c) as [wa a] eqn:E. intros H; inversion H; subst.
    apply copy_arr_spec in E. destruct E as [E1 [E2 [E3 [E4 [E5 E6]]]]].
    split; [exact E1|]. repeat split; auto; lia.
  - intros H; inversion H; subst. split; [apply ext_refl|]. repeat split; auto.
Qed.

(* --- committing a register *)
Lemma push_trajs w t : trajs (push w t) = trajs w ++ [t].
Proof. reflexivity. Qed.

Lemma wf_push w w1 t : wf w -> ext w w1 -> reg_ok w1 t -> wf (push w1 t).
Proof.
  intros Hw [He Htr] Ht. unfold wf. rewrite push_trajs. apply Forall_app. split.
  - rewrite Htr. eapply Forall_impl; [|exact Hw].
    intros t0 H0. apply (hext_reg_ok w); [|exact H0]. eapply hext_trans; [exact He|apply hext_push].
  - constructor; [|constructor]. apply (hext_reg_ok w1); [apply hext_push|exact Ht].
Qed.

Lemma wf_put w w1 r t : wf w -> ext w w1 -> reg_ok w1 t -> wf (put w1 r t).
Proof.
  intros Hw [He Htr] Ht. unfold wf. cbn [trajs put]. rewrite Forall_forall. intros t0 Hin.
  apply In_set_nth in Hin. destruct Hin as [->|Hin].
  - apply (hext_reg_ok w1); [apply hext_put|exact Ht].
  - rewrite Htr in Hin. unfold wf in Hw. rewrite Forall_forall in Hw.
    apply (hext_reg_ok w); [|apply Hw; exact Hin]. eapply hext_trans; [exact He|apply hext_put].
Qed.

Lemma wf_ext w w1 : wf w -> ext w w1 -> wf w1.
Proof.
  intros Hw [He Htr]. unfold wf. rewrite Htr. eapply Forall_impl; [|exact Hw].
  intros t Ht. apply (hext_reg_ok w w1); assumption.
Qed.

Lemma seq_wf_view n : NoDup (seq 0 n) /\ Forall (fun p => p < n) (seq 0 n).
Proof. split; [apply seq_NoDup|]. rewrite Forall_forall. intros p Hp. apply in_seq in Hp. lia. Qed.

(* a freshly allocated buffer viewed whole *)
Lemma fresh_view_wf w1 b fs na tm l a tl chs tr td :
  b < length (hx w1) -> buf_of w1 b = fs ->
  traj_wf w1 (mkTraj b (seq 0 (length fs)) na tm l a tl chs tr td).
Proof.
  intros Hb Hf. unfold traj_wf. cbn. rewrite Hf. destruct (seq_wf_view (length fs)). auto.
Qed.

Lemma frames_fresh_view w1 b fs na tm l a tl chs tr td :
  buf_of w1 b = fs -> frames w1 (mkTraj b (seq 0 (length fs)) na tm l a tl chs tr td) = fs.
Proof. intros Hf. unfold frames. cbn. rewrite Hf. apply sel_seq_id. Qed.

(* ------------------------------------------------------------------ Trajectory.__init__ *)
Lemma construct_ok w b ps natoms tl chs time l a w' :
  construct w b ps natoms tl chs time l a = (w', ROk) ->
  w' = push w (mkTraj b ps natoms time l a tl chs None false) /\
  length (concat chs) = natoms /\ lengths_ok (mkTraj b ps natoms time l a tl chs None false) = true.
Proof.
  unfold construct. intros H.
  destruct (Nat.eqb (length (concat chs)) natoms) eqn:E1; cbn [negb] in H; [|inversion H].
  destruct ((match l with None => true | Some c => Nat.eqb (length (a_val c)) (length ps) end) &&
            (match a with None => true | Some c => Nat.eqb (length (a_val c)) (length ps) end)) eqn:E2;
    cbn [negb] in H; [|inversion H].
  destruct (Nat.eqb (length (a_val time)) (length ps)) eqn:E3; cbn [negb] in H; [|inversion H].
  inversion H; subst. apply Nat.eqb_eq in E1. splits; auto.
  unfold lengths_ok, nframes. cbn. apply andb_true_iff in E2. destruct E2 as [E2 E4].
  rewrite E3, E2, E4. reflexivity.
Qed.

Lemma construct_err w b ps natoms tl chs time l a w' e :
  construct w b ps natoms tl chs time l a = (w', RErr e) -> w' = w.
Proof.
  unfold construct. intros H.
  repeat match type of H with (if ?c then _ else _) = _ => destruct c end; inversion H; auto.
Qed.

(* ------------------------------------------------------------------ slice *)
Definition arr_above {A} (n : nat) (a : arr A) : Prop := n <= a_buf a.
Definition oarr_above {A} (n : nat) (o : option (arr A)) : Prop :=
  match o with None => True | Some c => n <= a_buf c end.

(* no identity of t' existed in w *)
Definition fresh_reg (w : world) (t' : traj) : Prop :=
  length (hx w) <= xb t' /\ nbuf w <= a_buf (tm t') /\ oarr_above (nbuf w) (ul t') /\ oarr_above (nbuf w) (ua t') /\
  oarr_above (nbuf w) (tr t') /\ ntop w <= tloc t'.

Lemma slice_arr_spec {A} (d : A) w a idx shp copy thru ist w1 a' :
  slice_arr d w a idx shp copy thru ist = (w1, a') ->
  ext w w1 /\ hx w1 = hx w /\ ntop w1 = ntop w /\ a_val a' = sel d (a_val a) idx /\
  (a_buf a < nbuf w -> a_buf a' < nbuf w1) /\ (copy = true -> nbuf w <= a_buf a').
Proof.
  unfold slice_arr. intros H.
  assert (Hfresh : forall w1 a', new_arr w (sel d (a_val a) idx) = (w1, a') ->
     ext w w1 /\ hx w1 = hx w /\ ntop w1 = ntop w /\ a_val a' = sel d (a_val a) idx /\
     (a_buf a < nbuf w -> a_buf a' < nbuf w1) /\ (copy = true -> nbuf w <= a_buf a')).
  { intros w2 a2 E. apply new_arr_spec in E. destruct E as [E1 [E2 [E3 [E4 [E5 [E6 E7]]]]]].
    splits; auto; try lia. }
  assert (Hview : (w, view_arr d a idx) = (w1, a') -> copy = false ->
     ext w w1 /\ hx w1 = hx w /\ ntop w1 = ntop w /\ a_val a' = sel d (a_val a) idx /\
     (a_buf a < nbuf w -> a_buf a' < nbuf w1) /\ (copy = true -> nbuf w <= a_buf a')).
  { intros E Hc. inversion E; subst. split; [apply ext_refl|]. splits; auto. discriminate. }
  destruct copy; [apply Hfresh; exact H|].
  destruct shp as [|contig|]; [destruct ist| destruct (thru && negb contig) |]; auto.
Qed.

Definition cell_sliced (k : key) (o o' : option (arr cval)) : Prop :=
  match o, o' with
  | None, None => True
  | Some a, Some a' => exists idx s, key_positions (length (a_val a)) k = inr (idx, s) /\
                                     a_val a' = sel (CSrc 0 0) (a_val a) idx
  | _, _ => False
  end.

Lemma slice_oarr_spec w k o copy w1 o' :
  slice_oarr w k o copy = inr (w1, o') ->
  ext w w1 /\ hx w1 = hx w /\ ntop w1 = ntop w /\ cell_sliced k o o' /\
  (oarr_below (nbuf w) o -> oarr_below (nbuf w1) o') /\ (copy = true -> oarr_above (nbuf w) o').
Proof.
  unfold slice_oarr, index_field. destruct o as [a|].
  - destruct (key_positions (length (a_val a)) k) as [e|[idx shp]] eqn:K; [discriminate|].
    destruct (slice_arr (CSrc 0 0) w a idx shp copy true false) as [wa a'] eqn:S.
    intros H; inversion H; subst. apply slice_arr_spec in S.
    destruct S as [S1 [S2 [S3 [S4 [S5 S6]]]]]. splits; auto.
    cbn. exists idx, shp. auto.
  - intros H; inversion H; subst. split; [apply ext_refl|]. splits; cbn; auto.
Qed.

Lemma nth_error_app_last {A} (l : list A) x : nth_error (l ++ [x]) (length l) = Some x.
Proof. rewrite nth_error_app2 by lia. now rewrite Nat.sub_diag. Qed.

Lemma set_nth_app_last {A} (l : list A) x y : set_nth (length l) y (l ++ [x]) = l ++ [y].
Proof. induction l as [|z r IH]; cbn; [reflexivity|]. now rewrite IH. Qed.

Definition traces_sliced (v : variant) (k : key) (w : world) (o o' : option (arr fr)) : Prop :=
  match o with
  | None => o' = None
  | Some c =>
    if slice_indexes_traces v then
      match key_positions (length (a_val c)) k with
      | inl _ => o' = None
      | inr (ci, _) => exists c', o' = Some c' /\ a_val c' = sel dfr (a_val c) ci /\ nbuf w <= a_buf c'
      end
    else exists c', o' = Some c' /\ a_val c' = a_val c
  end.

Lemma slice_ok v w r k copy w' t :
  wf w -> nth_error (trajs w) r = Some t -> do_slice v w r k copy = (w', ROk) ->
  exists t' xi xs,
    key_positions (nframes t) k = inr (xi, xs) /\
    trajs w' = trajs w ++ [t'] /\ hext w w' /\
    frames w' t' = sel dfr (frames w t) xi /\
    (exists ti s, key_positions (length (a_val (tm t))) k = inr (ti, s) /\ a_val (tm t') = sel (TAr 0) (a_val (tm t)) ti) /\
    cell_sliced k (ul t) (ul t') /\ cell_sliced k (ua t) (ua t') /\
    na t' = na t /\ chains t' = chains t /\ lengths_ok t' = true /\
    reg_ok w' t' /\ traces_sliced v k w (tr t) (tr t') /\
    (copy = true -> fresh_reg w t').
Proof.
  unfold do_slice. intros Hwf Hr H. rewrite Hr in H.
  assert (Hreg : reg_ok w t).
  { unfold wf in Hwf. rewrite Forall_forall in Hwf. apply Hwf. eapply nth_error_In; eauto. }
  destruct Hreg as [[Hxb [Hnd Hpos]] [Ib1 [Ib2 [Ib3 [Ib4 Ib5]]]]].
  destruct (key_positions (nframes t) k) as [e|[xi xs]] eqn:Kx; [inversion H|].
  unfold index_field in H.
  destruct (key_positions (length (a_val (tm t))) k) as [e|[ti ts]] eqn:Kt; [inversion H|].
  destruct (slice_oarr w k (ua t) copy) as [e|[w1 ua']] eqn:Sa; [inversion H|].
  destruct (slice_oarr w1 k (ul t) copy) as [e|[w2 ul']] eqn:Sl; [inversion H|].
  apply slice_oarr_spec in Sa. destruct Sa as [Ea [Ha [Ta [Ca [Ba Fa]]]]].
  apply slice_oarr_spec in Sl. destruct Sl as [El [Hl [Tl [Cl [Bl Fl]]]]].
  pose proof (key_positions_lt _ _ _ _ Kx) as Hxi. unfold nframes in Hxi.
  remember (negb copy && match xs with KsFancy => false | KsRow => true | KsView c => c end) as shx eqn:Eshx.
  remember (sel dfr (frames w t) xi) as fs eqn:Efs.
  destruct (if shx then (w2, xb t, sel 0 (xp t) xi)
            else let '(wa, b) := alloc_x w2 fs in (wa, b, seq 0 (length fs))) as [[w3 b'] p'] eqn:X.
  destruct (slice_arr (TAr 0) w3 (tm t) ti ts copy false true) as [w4 tm'] eqn:St.
  destruct (if copy then fresh_top w4 else (w4, tloc t)) as [w5 tl'] eqn:Tp.
  match type of H with (let '(w6, tr') := ?e in _) = _ => destruct e as [w6 tr'] eqn:Tr end.
  destruct (construct w6 b' p' (na t) tl' (chains t) tm' ul' ua') as [w7 [|e]] eqn:C; [|inversion H].
  apply construct_ok in C. destruct C as [-> [Hc1 Hc2]].
  (* the extension chain *)
  assert (E3 : ext w2 w3 /\ nbuf w3 = nbuf w2 /\ ntop w3 = ntop w2 /\
               traj_wf w3 (mkTraj b' p' (na t) tm' ul' ua' tl' (chains t) None false) /\
               frames w3 (mkTraj b' p' (na t) tm' ul' ua' tl' (chains t) None false) = fs /\
               (copy = true -> length (hx w) <= b')).
  { destruct shx.
    - inversion X; subst w3 b' p'. split; [apply ext_refl|]. split; [reflexivity|]. split; [reflexivity|].
      symmetry in Eshx. apply andb_true_iff in Eshx. destruct Eshx as [Ecp Exs].
      assert (Hh2 : hx w2 = hx w) by congruence.
      assert (Hb2 : buf_of w2 (xb t) = buf_of w (xb t)) by (unfold buf_of; now rewrite Hh2).
      split; [|split].
      + unfold traj_wf. cbn. rewrite Hh2, Hb2. split; [exact Hxb|]. split.
        * apply NoDup_sel; auto. eapply key_positions_view_NoDup; eauto. intro; subst; discriminate.
        * apply Forall_sel_lt with (n := 0); auto.
      + unfold frames. cbn. rewrite Hb2. subst fs. unfold frames. symmetry. apply sel_sel. exact Hxi.
      + intro; subst copy; discriminate.
    - destruct (alloc_x w2 fs) as [wa b] eqn:A. inversion X; subst w3 b' p'.
      apply alloc_x_spec in A. destruct A as [A1 [A2 [A3 [A4 [A5 [A6 A7]]]]]].
      split; [exact A1|]. split; [exact A5|]. split; [exact A6|]. split; [|split].
      + apply fresh_view_wf; auto.
      + apply frames_fresh_view; auto.
      + intros _. rewrite A2. rewrite Hl, Ha. lia. }
  destruct E3 as [E3 [N3 [T3 [W3 [F3 X3]]]]].
  apply slice_arr_spec in St. destruct St as [E4 [H4 [T4 [V4 [B4 F4]]]]].
  assert (E5 : ext w4 w5 /\ hx w5 = hx w4 /\ nbuf w5 = nbuf w4 /\ tl' < ntop w5 /\ ntop w4 <= ntop w5 /\
               (copy = true -> ntop w4 <= tl')).
  { destruct copy.
    - apply fresh_top_spec in Tp. destruct Tp as [P1 [P2 [P3 [P4 P5]]]]. splits; auto; lia.
    - inversion Tp; subst. split; [apply ext_refl|]. splits; auto.
      + pose proof (ext_ntop _ _ Ea). pose proof (ext_ntop _ _ El). pose proof (ext_ntop _ _ E3).
        pose proof (ext_ntop _ _ E4). lia.
      + discriminate. }
  destruct E5 as [E5 [H5 [N5 [L5 [T5 F5]]]]].
  assert (E6 : ext w5 w6 /\ hx w6 = hx w5 /\ ntop w6 = ntop w5 /\ traces_sliced v k w5 (tr t) tr' /\
               (oarr_below (nbuf w5) (tr t) -> oarr_below (nbuf w6) tr') /\
               (copy = true \/ slice_indexes_traces v = true -> oarr_above (nbuf w5) tr')).
  { unfold traces_sliced. destruct (tr t) as [c|].
    - destruct (slice_indexes_traces v).
      + destruct (key_positions (length (a_val c)) k) as [e|[ci cs]] eqn:Kc.
        * inversion Tr; subst. split; [apply ext_refl|]. splits; cbn; auto.
        * destruct (new_arr w5 (sel dfr (a_val c) ci)) as [wa c'] eqn:Nc. inversion Tr; subst.
          apply new_arr_spec in Nc. destruct Nc as [Q1 [Q2 [Q3 [Q4 [Q5 [Q6 Q7]]]]]].
          split; [exact Q1|]. splits; cbn; auto; try lia. exists c'. splits; auto. lia.
      + destruct copy.
        * destruct (copy_arr w5 c) as [wa c'] eqn:Nc. inversion Tr; subst.
          apply copy_arr_spec in Nc. destruct Nc as [Q1 [Q2 [Q3 [Q4 [Q5 Q6]]]]].
          split; [exact Q1|]. splits; cbn; auto; try lia. exists c'. auto.
        * inversion Tr; subst. split; [apply ext_refl|]. splits; cbn; auto.
          -- exists c. auto.
          -- intros [Hd|Hd]; discriminate.
    - inversion Tr; subst. split; [apply ext_refl|]. splits; cbn; auto. }
  destruct E6 as [E6 [H6 [T6 [S6 [B6 F6]]]]].
  assert (E36 : ext w3 w6).
  { eapply ext_trans; [exact E4|]. eapply ext_trans; [exact E5|exact E6]. }
  assert (Eall : ext w w6).
  { eapply ext_trans; [exact Ea|]. eapply ext_trans; [exact El|]. eapply ext_trans; [exact E3|exact E36]. }
  assert (Htr6 : trajs w6 = trajs w) by (apply ext_trajs; exact Eall).
  cbn [trajs push] in H. rewrite Htr6, nth_error_app_last in H. cbn [xb xp na tm ul ua tloc chains tdef] in H.
  inversion H; subst w'; clear H.
  eexists. exists xi, xs. split; [reflexivity|].
  split. { cbn [trajs put push]. rewrite Htr6. apply set_nth_app_last. }
  assert (Hh : hext w (put (push w6 (mkTraj b' p' (na t) tm' ul' ua' tl' (chains t) None false)) (length (trajs w))
                         (mkTraj b' p' (na t) tm' ul' ua' tl' (chains t) tr' false))).
  { eapply hext_trans; [apply ext_hext; exact Eall|]. eapply hext_trans; [apply hext_push|apply hext_put]. }
  split; [exact Hh|].
  assert (Hbuf : forall b, b < length (hx w3) -> buf_of (put (push w6 (mkTraj b' p' (na t) tm' ul' ua' tl' (chains t) None false)) (length (trajs w))
                         (mkTraj b' p' (na t) tm' ul' ua' tl' (chains t) tr' false)) b = buf_of w3 b).
  { intros b Hb. unfold buf_of. cbn [hx put push]. destruct (ext_hx _ _ E36) as [ex Hex]. rewrite Hex. apply app_nth1. exact Hb. }
  destruct W3 as [W3a [W3b W3c]]. cbn [xb xp] in W3a, W3b, W3c.
  split. { rewrite <- Efs, <- F3. unfold frames. cbn [xb xp]. now rewrite Hbuf by exact W3a. }
  split. { exists ti, ts. split; [reflexivity|]. cbn [tm]. exact V4. }
  cbn [ul ua na chains tr].
  split; [exact Cl|]. split; [exact Ca|]. split; [reflexivity|]. split; [reflexivity|].
  split. { unfold lengths_ok, nframes in *. cbn [xp tm ul ua] in *. exact Hc2. }
  (* counters *)
  assert (Nb : nbuf w <= nbuf w1 /\ nbuf w1 <= nbuf w2 /\ nbuf w3 <= nbuf w4 /\ nbuf w5 <= nbuf w6).
  { pose proof (ext_nbuf _ _ Ea). pose proof (ext_nbuf _ _ El). pose proof (ext_nbuf _ _ E4). pose proof (ext_nbuf _ _ E6). lia. }
  assert (Nt : ntop w <= ntop w4).
  { pose proof (ext_ntop _ _ Ea). pose proof (ext_ntop _ _ El). pose proof (ext_ntop _ _ E3). pose proof (ext_ntop _ _ E4). lia. }
  split.
  { split.
    - unfold traj_wf. cbn [xb xp]. split; [|split; [exact W3b|]].
      + cbn [hx put push]. pose proof (hext_hx_len w3 w6 (ext_hext _ _ E36)). lia.
      + rewrite Hbuf by exact W3a. exact W3c.
    - unfold ids_below. cbn [tm ul ua tr tloc nbuf ntop put push].
      split; [assert (a_buf tm' < nbuf w4) by (apply B4; lia); lia|]. split; [|split; [|split]].
      + assert (Hq : oarr_below (nbuf w2) ul') by (apply Bl; unfold oarr_below in *; destruct (ul t); auto; lia).
        unfold oarr_below in *. destruct ul'; auto. lia.
      + apply Ba in Ib3. unfold oarr_below in *. destruct ua'; auto. lia.
      + apply B6. unfold oarr_below in *. destruct (tr t); auto. lia.
      + lia. }
  split.
  { unfold traces_sliced in *. destruct (tr t) as [c|]; auto. destruct (slice_indexes_traces v); auto.
    destruct (key_positions (length (a_val c)) k) as [e|[ci cs]]; auto.
    destruct S6 as [c' [S61 [S62 S63]]]. exists c'. splits; auto. lia. }
  intros Hcp. unfold fresh_reg. cbn [xb tm ul ua tr tloc].
  split; [apply X3; exact Hcp|]. split; [specialize (F4 Hcp); lia|].
  split; [specialize (Fl Hcp); unfold oarr_above in *; destruct ul'; auto; lia|].
  split; [specialize (Fa Hcp); unfold oarr_above in *; destruct ua'; auto; lia|].
  split; [specialize (F6 (or_introl Hcp)); unfold oarr_above in *; destruct tr'; auto; lia|].
  specialize (F5 Hcp). lia.
Qed.

(* ------------------------------------------------------------------ generic consequences of a step's shape *)
Lemma wf_of_new w w' t' : wf w -> trajs w' = trajs w ++ [t'] -> hext w w' -> reg_ok w' t' -> wf w'.
Proof.
  intros Hw Ht He Hr. unfold wf. rewrite Ht. apply Forall_app. split.
  - eapply Forall_impl; [|exact Hw]. intros t0 H0. eapply hext_reg_ok; eauto.
  - constructor; [exact Hr|constructor].
Qed.

Lemma wf_of_upd w w' r t' : wf w -> trajs w' = set_nth r t' (trajs w) -> hext w w' -> reg_ok w' t' -> wf w'.
Proof.
  intros Hw Ht He Hr. unfold wf. rewrite Ht. rewrite Forall_forall. intros t0 Hin.
  apply In_set_nth in Hin. destruct Hin as [->|Hin]; [exact Hr|].
  unfold wf in Hw. rewrite Forall_forall in Hw. eapply hext_reg_ok; eauto.
Qed.

Lemma wf_lookup w r t : wf w -> nth_error (trajs w) r = Some t -> reg_ok w t.
Proof. intros Hw Hr. unfold wf in Hw. rewrite Forall_forall in Hw. apply Hw. eapply nth_error_In; eauto. Qed.

(* ------------------------------------------------------------------ join *)
Lemma join_trajs_ok w t others ct w' :
  wf w -> join_trajs w t others ct = (w', ROk) ->
  exists t',
    trajs w' = trajs w ++ [t'] /\ hext w w' /\
    frames w' t' = flat_map (frames w) (t :: others) /\
    a_val (tm t') = flat_map (fun o => a_val (tm o)) (t :: others) /\
    (if have_cell t then
       exists l a, ul t' = Some l /\ ua t' = Some a /\ a_val l = ocat (map ul (t :: others)) /\ a_val a = ocat (map ua (t :: others))
     else ul t' = None /\ ua t' = None) /\
    na t' = na t /\ chains t' = chains t /\ tr t' = None /\ lengths_ok t' = true /\
    reg_ok w' t' /\ fresh_reg w t' /\
    forallb (fun o => Nat.eqb (na t) (na o)) others = true /\
    forallb (fun o => Bool.eqb (have_cell t) (have_cell o)) others = true.
Proof.
  unfold join_trajs. intros Hwf H.
  destruct (forallb (fun o => Nat.eqb (na t) (na o)) others) eqn:G1; cbn [negb] in H; [|inversion H].
  destruct (ct && negb (forallb (fun o => list_eqb (list_eqb Nat.eqb) (chains t) (chains o)) others)) eqn:G2; [inversion H|].
  destruct (forallb (fun o => Bool.eqb (have_cell t) (have_cell o)) others) eqn:G3; cbn [negb] in H; [|inversion H].
  remember (flat_map (frames w) (t :: others)) as fs eqn:Efs.
  destruct (alloc_x w fs) as [w1 b] eqn:A.
  destruct (new_arr w1 (flat_map (fun o => a_val (tm o)) (t :: others))) as [w2 tm'] eqn:N2.
  match type of H with (let '(w3, ua') := ?e in _) = _ => destruct e as [w3 ua'] eqn:N3 end.
  match type of H with (let '(w4, ul') := ?e in _) = _ => destruct e as [w4 ul'] eqn:N4 end.
  destruct (fresh_top w4) as [w5 tl] eqn:T5.
  destruct (construct w5 b (seq 0 (length fs)) (na t) tl (chains t) tm' ul' ua') as [w6 [|e]] eqn:C; inversion H; subst w6; clear H.
  apply construct_ok in C. destruct C as [-> [Hc1 Hc2]].
  apply alloc_x_spec in A. destruct A as [A1 [A2 [A3 [A4 [A5 [A6 A7]]]]]].
  apply new_arr_spec in N2. destruct N2 as [B1 [B2 [B3 [B4 [B5 [B6 B7]]]]]].
  assert (E3 : ext w2 w3 /\ hx w3 = hx w2 /\ ntop w3 = ntop w2 /\ nbuf w2 <= nbuf w3 /\
               (if have_cell t then exists a, ua' = Some a /\ a_val a = ocat (map ua (t :: others)) /\ nbuf w2 <= a_buf a < nbuf w3
                else ua' = None)).
  { destruct (have_cell t).
    - destruct (new_arr w2 (ocat (map ua (t :: others)))) as [wa a] eqn:Na. inversion N3; subst.
      apply new_arr_spec in Na. destruct Na as [Q1 [Q2 [Q3 [Q4 [Q5 [Q6 Q7]]]]]]. splits; auto; try lia.
      exists a. splits; auto; lia.
    - inversion N3; subst. splits; auto. apply ext_refl. }
  destruct E3 as [E3 [H3 [T3 [N3' C3]]]].
  assert (E4 : ext w3 w4 /\ hx w4 = hx w3 /\ ntop w4 = ntop w3 /\ nbuf w3 <= nbuf w4 /\
               (if have_cell t then exists a, ul' = Some a /\ a_val a = ocat (map ul (t :: others)) /\ nbuf w3 <= a_buf a < nbuf w4
                else ul' = None)).
  { destruct (have_cell t).
    - destruct (new_arr w3 (ocat (map ul (t :: others)))) as [wa a] eqn:Na. inversion N4; subst.
      apply new_arr_spec in Na. destruct Na as [Q1 [Q2 [Q3 [Q4 [Q5 [Q6 Q7]]]]]]. splits; auto; try lia.
      exists a. splits; auto; lia.
    - inversion N4; subst. splits; auto. apply ext_refl. }
  destruct E4 as [E4 [H4 [T4 [N4' C4]]]].
  apply fresh_top_spec in T5. destruct T5 as [P1 [P2 [P3 [P4 P5]]]].
  assert (E15 : ext w1 w5).
  { eapply ext_trans; [exact B1|]. eapply ext_trans; [exact E3|]. eapply ext_trans; [exact E4|exact P1]. }
  assert (Eall : ext w w5) by (eapply ext_trans; [exact A1|exact E15]).
  eexists. split. { cbn [trajs push]. rewrite (ext_trajs _ _ Eall). reflexivity. }
  assert (Hh : hext w (push w5 (mkTraj b (seq 0 (length fs)) (na t) tm' ul' ua' tl (chains t) None false))).
  { eapply hext_trans; [apply ext_hext; exact Eall|apply hext_push]. }
  split; [exact Hh|].
  assert (Hbuf : buf_of (push w5 (mkTraj b (seq 0 (length fs)) (na t) tm' ul' ua' tl (chains t) None false)) b = fs).
  { unfold buf_of. cbn [hx push]. destruct (ext_hx _ _ E15) as [ex Hex]. rewrite Hex.
    rewrite app_nth1 by exact A4. exact A3. }
  split. { apply frames_fresh_view. exact Hbuf. }
  cbn [tm ul ua na chains tr].
  split; [exact B4|].
  split. { destruct (have_cell t).
           - destruct C3 as [a [-> [Va _]]]. destruct C4 as [l [-> [Vl _]]]. exists l, a. auto.
           - destruct C3, C4. auto. }
  split; [reflexivity|]. split; [reflexivity|]. split; [reflexivity|]. split; [exact Hc2|].
  split.
  { split.
    - apply fresh_view_wf; [|exact Hbuf]. cbn [hx push]. pose proof (hext_hx_len _ _ (ext_hext _ _ E15)). lia.
    - unfold ids_below. cbn [tm ul ua tr tloc nbuf ntop push]. splits; try lia.
      + unfold oarr_below. destruct (have_cell t); [destruct C4 as [a [-> [_ ?]]]; lia|rewrite C4; auto].
      + unfold oarr_below. destruct (have_cell t); [destruct C3 as [a [-> [_ ?]]]; lia|rewrite C3; auto].
      + cbn. auto. }
  split.
  { unfold fresh_reg. cbn [xb tm ul ua tr tloc]. splits; try lia.
    - unfold oarr_above. destruct (have_cell t); [destruct C4 as [a [-> [_ ?]]]; lia|rewrite C4; auto].
    - unfold oarr_above. destruct (have_cell t); [destruct C3 as [a [-> [_ ?]]]; lia|rewrite C3; auto].
    - cbn. auto. }
  split; reflexivity.
Qed.
