(* Lemmas about the trajectory model (C03): allocation discipline, well-formedness of views,
   per-operation specifications. *)
From Coq Require Import List Arith ZArith Bool Lia.
Import ListNotations.
Require Import MD.Traj.Model MD.Traj.Lists.

Ltac splits := repeat lazymatch goal with |- _ /\ _ => split end.

(* ------------------------------------------------------------------ invariants of a world *)
(* the xyz view of a register points into an existing buffer, at pairwise distinct existing positions *)
Definition traj_wf (w : world) (t : traj) : Prop :=
  xb t < length (hx w) /\ NoDup (xp t) /\ Forall (fun p => p < length (buf_of w (xb t))) (xp t).

(* every identity a register mentions has been handed out already *)
Definition oarr_below {A} (n : nat) (o : option (arr A)) : Prop :=
  match o with None => True | Some c => a_buf c < n end.
Definition ids_below (w : world) (t : traj) : Prop :=
  a_buf (tm t) < nbuf w /\ oarr_below (nbuf w) (ul t) /\ oarr_below (nbuf w) (ua t) /\
  oarr_below (nbuf w) (tr t) /\ tloc t < ntop w.

Definition reg_ok (w : world) (t : traj) : Prop := traj_wf w t /\ ids_below w t.
Definition wf (w : world) : Prop := Forall (reg_ok w) (trajs w).

(* heap extension: old buffers untouched, counters only grow *)
Definition hext (w w1 : world) : Prop :=
  (exists extra, hx w1 = hx w ++ extra) /\ nbuf w <= nbuf w1 /\ ntop w <= ntop w1.
(* w1 is w after some allocations: additionally the same registers *)
Definition ext (w w1 : world) : Prop := hext w w1 /\ trajs w1 = trajs w.

Lemma hext_refl w : hext w w.
Proof. repeat split; auto. exists []. now rewrite app_nil_r. Qed.
Lemma ext_refl w : ext w w.
Proof. split; [apply hext_refl|reflexivity]. Qed.

Lemma hext_trans w w1 w2 : hext w w1 -> hext w1 w2 -> hext w w2.
Proof.
  intros [[e1 H1] [B1 P1]] [[e2 H2] [B2 P2]]. repeat split; try lia.
  exists (e1 ++ e2). rewrite H2, H1, app_assoc. reflexivity.
Qed.
Lemma ext_trans w w1 w2 : ext w w1 -> ext w1 w2 -> ext w w2.
Proof. intros [H1 T1] [H2 T2]. split; [eapply hext_trans; eauto|congruence]. Qed.

Lemma hext_buf w w1 b : hext w w1 -> b < length (hx w) -> buf_of w1 b = buf_of w b.
Proof. intros [[e H] _] Hb. unfold buf_of. rewrite H. apply app_nth1. exact Hb. Qed.

Lemma hext_hx_len w w1 : hext w w1 -> length (hx w) <= length (hx w1).
Proof. intros [[e H] _]. rewrite H, app_length. lia. Qed.

Lemma hext_frames w w1 t : hext w w1 -> xb t < length (hx w) -> frames w1 t = frames w t.
Proof. intros He Hb. unfold frames. now rewrite (hext_buf _ _ _ He Hb). Qed.

Lemma hext_reg_ok w w1 t : hext w w1 -> reg_ok w t -> reg_ok w1 t.
Proof.
  intros He [[Hb [Hnd Hp]] [I1 [I2 [I3 [I4 I5]]]]].
  pose proof (hext_hx_len _ _ He). pose proof He as [Hh [Hn Ht]].
  split.
  - repeat split; auto; [lia|]. now rewrite (hext_buf _ _ _ He Hb).
  - unfold ids_below, oarr_below in *. repeat split; try lia.
    + destruct (ul t); auto; lia.
    + destruct (ua t); auto; lia.
    + destruct (tr t); auto; lia.
Qed.

Lemma hext_push w t : hext w (push w t).
Proof. repeat split; cbn; auto. exists []. now rewrite app_nil_r. Qed.
Lemma hext_put w r t : hext w (put w r t).
Proof. repeat split; cbn; auto. exists []. now rewrite app_nil_r. Qed.

Lemma ext_hext w w1 : ext w w1 -> hext w w1.  Proof. intros [H _]; exact H. Qed.
Lemma ext_trajs w w1 : ext w w1 -> trajs w1 = trajs w.  Proof. intros [_ H]; exact H. Qed.
Lemma ext_nbuf w w1 : ext w w1 -> nbuf w <= nbuf w1.  Proof. intros [[_ [H _]] _]; exact H. Qed.
Lemma ext_ntop w w1 : ext w w1 -> ntop w <= ntop w1.  Proof. intros [[_ [_ H]] _]; exact H. Qed.
Lemma ext_hx w w1 : ext w w1 -> exists extra, hx w1 = hx w ++ extra.  Proof. intros [[H _] _]; exact H. Qed.

(* --- the allocation primitives are extensions *)
Ltac ext_easy := split; [repeat split; cbn; auto; try lia; try (exists []; now rewrite app_nil_r)|reflexivity].

Lemma alloc_x_spec w fs w1 b : alloc_x w fs = (w1, b) ->
  ext w w1 /\ b = length (hx w) /\ buf_of w1 b = fs /\ b < length (hx w1) /\ nbuf w1 = nbuf w /\ ntop w1 = ntop w /\ nsrc w1 = nsrc w.
Proof.
  unfold alloc_x. intros H. inversion H; subst; clear H. split; [|cbn; repeat split; auto].
  - split; [|reflexivity]. repeat split; cbn; auto. exists [fs]. reflexivity.
  - unfold buf_of. cbn. rewrite app_nth2 by lia. now rewrite Nat.sub_diag.
  - rewrite app_length. cbn. lia.
Qed.

Lemma fresh_buf_spec w w1 b : fresh_buf w = (w1, b) -> ext w w1 /\ b = nbuf w /\ nbuf w1 = S (nbuf w) /\ hx w1 = hx w /\ ntop w1 = ntop w.
Proof. unfold fresh_buf. intros H; inversion H; subst. split; [ext_easy|cbn; auto]. Qed.

Lemma fresh_top_spec w w1 l : fresh_top w = (w1, l) -> ext w w1 /\ l = ntop w /\ ntop w1 = S (ntop w) /\ hx w1 = hx w /\ nbuf w1 = nbuf w.
Proof. unfold fresh_top. intros H; inversion H; subst. split; [ext_easy|cbn; auto]. Qed.

Lemma fresh_src_spec w w1 s : fresh_src w = (w1, s) -> ext w w1 /\ hx w1 = hx w /\ nbuf w1 = nbuf w /\ ntop w1 = ntop w.
Proof. unfold fresh_src. intros H; inversion H; subst. split; [ext_easy|cbn; auto]. Qed.

Lemma new_arr_spec {A} w (vals : list A) w1 a : new_arr w vals = (w1, a) ->
  ext w w1 /\ a_buf a = nbuf w /\ nbuf w1 = S (nbuf w) /\ a_val a = vals /\ a_pos a = seq 0 (length vals) /\ hx w1 = hx w /\ ntop w1 = ntop w.
Proof.
  unfold new_arr, fresh_buf. intros H; inversion H; subst. split; [ext_easy|cbn; repeat split; auto].
Qed.

Lemma copy_arr_spec {A} w (c : arr A) w1 a : copy_arr w c = (w1, a) ->
  ext w w1 /\ a_buf a = nbuf w /\ nbuf w1 = S (nbuf w) /\ a_val a = a_val c /\ hx w1 = hx w /\ ntop w1 = ntop w.
Proof. unfold copy_arr. intros H. apply new_arr_spec in H. tauto. Qed.

Lemma copy_oarr_spec {A} w (o : option (arr A)) w1 o' : copy_oarr w o = (w1, o') ->
  ext w w1 /\ hx w1 = hx w /\ ntop w1 = ntop w /\ nbuf w <= nbuf w1 /\
  match o, o' with
  | None, None => True
  | Some c, Some a => nbuf w <= a_buf a < nbuf w1 /\ a_val a = a_val c
  | _, _ => False
  end.
Proof.
  unfold copy_oarr. destruct o as [c|].
  - destruct (copy_arr w c) as [wa a] eqn:E. intros H; inversion H; subst.
    apply copy_arr_spec in E. destruct E as [E1 [E2 [E3 [E4 [E5 E6]]]]].
    split; [exact E1|]. repeat split; auto; lia.
  - intros H; inversion H; subst. split; [apply ext_refl|]. repeat split; auto.
Qed.

(* --- committing a register *)
Lemma push_trajs w t : trajs (push w t) = trajs w ++ [t].
Proof. reflexivity. Qed.

Lemma wf_push w w1 t : wf w -> ext w w1 -> reg_ok w1 t -> wf (push w1 t).
Proof.
  intros Hw [He Htr] Ht. unfold wf. rewrite push_trajs. apply Forall_app. split.
  - rewrite Htr. eapply Forall_impl; [|exact Hw].
    intros t0 H0. apply (hext_reg_ok w); [|exact H0]. eapply hext_trans; [exact He|apply hext_push].
  - constructor; [|constructor]. apply (hext_reg_ok w1); [apply hext_push|exact Ht].
Qed.

Lemma wf_put w w1 r t : wf w -> ext w w1 -> reg_ok w1 t -> wf (put w1 r t).
Proof.
  intros Hw [He Htr] Ht. unfold wf. cbn [trajs put]. rewrite Forall_forall. intros t0 Hin.
  apply In_set_nth in Hin. destruct Hin as [->|Hin].
  - apply (hext_reg_ok w1); [apply hext_put|exact Ht].
  - rewrite Htr in Hin. unfold wf in Hw. rewrite Forall_forall in Hw.
    apply (hext_reg_ok w); [|apply Hw; exact Hin]. eapply hext_trans; [exact He|apply hext_put].
Qed.

Lemma wf_ext w w1 : wf w -> ext w w1 -> wf w1.
Proof.
  intros Hw [He Htr]. unfold wf. rewrite Htr. eapply Forall_impl; [|exact Hw].
  intros t Ht. apply (hext_reg_ok w w1); assumption.
Qed.

Lemma seq_wf_view n : NoDup (seq 0 n) /\ Forall (fun p => p < n) (seq 0 n).
Proof. split; [apply seq_NoDup|]. rewrite Forall_forall. intros p Hp. apply in_seq in Hp. lia. Qed.

(* a freshly allocated buffer viewed whole *)
Lemma fresh_view_wf w1 b fs na tm l a tl chs tr td :
  b < length (hx w1) -> buf_of w1 b = fs ->
  traj_wf w1 (mkTraj b (seq 0 (length fs)) na tm l a tl chs tr td).
Proof.
  intros Hb Hf. unfold traj_wf. cbn. rewrite Hf. destruct (seq_wf_view (length fs)). auto.
Qed.

Lemma frames_fresh_view w1 b fs na tm l a tl chs tr td :
  buf_of w1 b = fs -> frames w1 (mkTraj b (seq 0 (length fs)) na tm l a tl chs tr td) = fs.
Proof. intros Hf. unfold frames. cbn. rewrite Hf. apply sel_seq_id. Qed.

(* ------------------------------------------------------------------ Trajectory.__init__ *)
Lemma construct_ok w b ps natoms tl chs time l a w' :
  construct w b ps natoms tl chs time l a = (w', ROk) ->
  w' = push w (mkTraj b ps natoms time l a tl chs None false) /\
  length (concat chs) = natoms /\ lengths_ok (mkTraj b ps natoms time l a tl chs None false) = true.
Proof.
  unfold construct. intros H.
  destruct (Nat.eqb (length (concat chs)) natoms) eqn:E1; cbn [negb] in H; [|inversion H].
  destruct ((match l with None => true | Some c => Nat.eqb (length (a_val c)) (length ps) end) &&
            (match a with None => true | Some c => Nat.eqb (length (a_val c)) (length ps) end)) eqn:E2;
    cbn [negb] in H; [|inversion H].
  destruct (Nat.eqb (length (a_val time)) (length ps)) eqn:E3; cbn [negb] in H; [|inversion H].
  inversion H; subst. apply Nat.eqb_eq in E1. splits; auto.
  unfold lengths_ok, nframes. cbn. apply andb_true_iff in E2. destruct E2 as [E2 E4].
  rewrite E3, E2, E4. reflexivity.
Qed.

Lemma construct_err w b ps natoms tl chs time l a w' e :
  construct w b ps natoms tl chs time l a = (w', RErr e) -> w' = w.
Proof.
  unfold construct. intros H.
  repeat match type of H with (if ?c then _ else _) = _ => destruct c end; inversion H; auto.
Qed.

(* ------------------------------------------------------------------ slice *)
Definition arr_above {A} (n : nat) (a : arr A) : Prop := n <= a_buf a.
Definition oarr_above {A} (n : nat) (o : option (arr A)) : Prop :=
  match o with None => True | Some c => n <= a_buf c end.

(* no identity of t' existed in w *)
Definition fresh_reg (w : world) (t' : traj) : Prop :=
  length (hx w) <= xb t' /\ nbuf w <= a_buf (tm t') /\ oarr_above (nbuf w) (ul t') /\ oarr_above (nbuf w) (ua t') /\
  oarr_above (nbuf w) (tr t') /\ ntop w <= tloc t'.

Lemma slice_arr_spec {A} (d : A) w a idx shp copy thru ist w1 a' :
  slice_arr d w a idx shp copy thru ist = (w1, a') ->
  ext w w1 /\ hx w1 = hx w /\ ntop w1 = ntop w /\ a_val a' = sel d (a_val a) idx /\
  (a_buf a < nbuf w -> a_buf a' < nbuf w1) /\ (copy = true -> nbuf w <= a_buf a').
Proof.
  unfold slice_arr. intros H.
  assert (Hfresh : forall w1 a', new_arr w (sel d (a_val a) idx) = (w1, a') ->
     ext w w1 /\ hx w1 = hx w /\ ntop w1 = ntop w /\ a_val a' = sel d (a_val a) idx /\
     (a_buf a < nbuf w -> a_buf a' < nbuf w1) /\ (copy = true -> nbuf w <= a_buf a')).
  { intros w2 a2 E. apply new_arr_spec in E. destruct E as [E1 [E2 [E3 [E4 [E5 [E6 E7]]]]]].
    splits; auto; try lia. }
  assert (Hview : (w, view_arr d a idx) = (w1, a') -> copy = false ->
     ext w w1 /\ hx w1 = hx w /\ ntop w1 = ntop w /\ a_val a' = sel d (a_val a) idx /\
     (a_buf a < nbuf w -> a_buf a' < nbuf w1) /\ (copy = true -> nbuf w <= a_buf a')).
  { intros E Hc. inversion E; subst. split; [apply ext_refl|]. splits; auto. discriminate. }
  destruct copy; [apply Hfresh; exact H|].
  destruct (thru && a_f a); [apply Hfresh; exact H|].
  destruct shp as [|contig|]; [destruct ist| destruct (thru && negb contig) |]; auto.
Qed.

Definition cell_sliced (k : key) (o o' : option (arr cval)) : Prop :=
  match o, o' with
  | None, None => True
  | Some a, Some a' => exists idx s, key_positions (length (a_val a)) k = inr (idx, s) /\
                                     a_val a' = sel (CSrc 0 0) (a_val a) idx
  | _, _ => False
  end.

Lemma slice_oarr_spec w k o copy w1 o' :
  slice_oarr w k o copy = inr (w1, o') ->
  ext w w1 /\ hx w1 = hx w /\ ntop w1 = ntop w /\ cell_sliced k o o' /\
  (oarr_below (nbuf w) o -> oarr_below (nbuf w1) o') /\ (copy = true -> oarr_above (nbuf w) o').
Proof.
  unfold slice_oarr, index_field. destruct o as [a|].
  - destruct (key_positions (length (a_val a)) k) as [e|[idx shp]] eqn:K; [discriminate|].
    destruct (slice_arr (CSrc 0 0) w a idx shp copy true false) as [wa a'] eqn:S.
    intros H; inversion H; subst. apply slice_arr_spec in S.
    destruct S as [S1 [S2 [S3 [S4 [S5 S6]]]]]. splits; auto.
    cbn. exists idx, shp. auto.
  - intros H; inversion H; subst. split; [apply ext_refl|]. splits; cbn; auto.
Qed.

Lemma nth_error_app_last {A} (l : list A) x : nth_error (l ++ [x]) (length l) = Some x.
Proof. rewrite nth_error_app2 by lia. now rewrite Nat.sub_diag. Qed.

Lemma set_nth_app_last {A} (l : list A) x y : set_nth (length l) y (l ++ [x]) = l ++ [y].
Proof. induction l as [|z r IH]; cbn; [reflexivity|]. now rewrite IH. Qed.

Definition traces_sliced (v : variant) (k : key) (w : world) (o o' : option (arr fr)) : Prop :=
  match o with
  | None => o' = None
  | Some c =>
    if slice_indexes_traces v then
      match key_positions (length (a_val c)) k with
      | inl _ => o' = None
      | inr (ci, _) => exists c', o' = Some c' /\ a_val c' = sel dfr (a_val c) ci /\ nbuf w <= a_buf c'
      end
    else exists c', o' = Some c' /\ a_val c' = a_val c
  end.

Lemma slice_ok v w r k copy w' t :
  wf w -> nth_error (trajs w) r = Some t -> do_slice v w r k copy = (w', ROk) ->
  exists t' xi xs,
    key_positions (nframes t) k = inr (xi, xs) /\
    trajs w' = trajs w ++ [t'] /\ hext w w' /\
    frames w' t' = sel dfr (frames w t) xi /\
    (exists ti s, key_positions (length (a_val (tm t))) k = inr (ti, s) /\ a_val (tm t') = sel (TAr 0) (a_val (tm t)) ti) /\
    cell_sliced k (ul t) (ul t') /\ cell_sliced k (ua t) (ua t') /\
    na t' = na t /\ chains t' = chains t /\ lengths_ok t' = true /\
    reg_ok w' t' /\ traces_sliced v k w (tr t) (tr t') /\
    (copy = true -> fresh_reg w t').
Proof.
  unfold do_slice. intros Hwf Hr H. rewrite Hr in H.
  assert (Hreg : reg_ok w t).
  { unfold wf in Hwf. rewrite Forall_forall in Hwf. apply Hwf. eapply nth_error_In; eauto. }
  destruct Hreg as [[Hxb [Hnd Hpos]] [Ib1 [Ib2 [Ib3 [Ib4 Ib5]]]]].
  destruct (key_positions (nframes t) k) as [e|[xi xs]] eqn:Kx; [inversion H|].
  unfold index_field in H.
  destruct (key_positions (length (a_val (tm t))) k) as [e|[ti ts]] eqn:Kt; [inversion H|].
  destruct (slice_oarr w k (ua t) copy) as [e|[w1 ua']] eqn:Sa; [inversion H|].
  destruct (slice_oarr w1 k (ul t) copy) as [e|[w2 ul']] eqn:Sl; [inversion H|].
  apply slice_oarr_spec in Sa. destruct Sa as [Ea [Ha [Ta [Ca [Ba Fa]]]]].
  apply slice_oarr_spec in Sl. destruct Sl as [El [Hl [Tl [Cl [Bl Fl]]]]].
  pose proof (key_positions_lt _ _ _ _ Kx) as Hxi. unfold nframes in Hxi.
  remember (negb copy && match xs with KsFancy => false | KsRow => true | KsView c => c end) as shx eqn:Eshx.
  remember (sel dfr (frames w t) xi) as fs eqn:Efs.
  destruct (if shx then (w2, xb t, sel 0 (xp t) xi)
            else let '(wa, b) := alloc_x w2 fs in (wa, b, seq 0 (length fs))) as [[w3 b'] p'] eqn:X.
  destruct (slice_arr (TAr 0) w3 (tm t) ti ts copy false true) as [w4 tm'] eqn:St.
  destruct (if copy then fresh_top w4 else (w4, tloc t)) as [w5 tl'] eqn:Tp.
  match type of H with (let '(w6, tr') := ?e in _) = _ => destruct e as [w6 tr'] eqn:Tr end.
  destruct (construct w6 b' p' (na t) tl' (chains t) tm' ul' ua') as [w7 [|e]] eqn:C; [|inversion H].
  apply construct_ok in C. destruct C as [-> [Hc1 Hc2]].
  (* the extension chain *)
  assert (E3 : ext w2 w3 /\ nbuf w3 = nbuf w2 /\ ntop w3 = ntop w2 /\
               traj_wf w3 (mkTraj b' p' (na t) tm' ul' ua' tl' (chains t) None false) /\
               frames w3 (mkTraj b' p' (na t) tm' ul' ua' tl' (chains t) None false) = fs /\
               (copy = true -> length (hx w) <= b')).
  { destruct shx.
    - inversion X; subst w3 b' p'. split; [apply ext_refl|]. split; [reflexivity|]. split; [reflexivity|].
      symmetry in Eshx. apply andb_true_iff in Eshx. destruct Eshx as [Ecp Exs].
      assert (Hh2 : hx w2 = hx w) by congruence.
      assert (Hb2 : buf_of w2 (xb t) = buf_of w (xb t)) by (unfold buf_of; now rewrite Hh2).
      split; [|split].
      + unfold traj_wf. cbn. rewrite Hh2, Hb2. split; [exact Hxb|]. split.
        * apply NoDup_sel; auto. eapply key_positions_view_NoDup; eauto. intro; subst; discriminate.
        * apply Forall_sel_lt with (n := 0); auto.
      + unfold frames. cbn. rewrite Hb2. subst fs. unfold frames. symmetry. apply sel_sel. exact Hxi.
      + intro; subst copy; discriminate.
    - destruct (alloc_x w2 fs) as [wa b] eqn:A. inversion X; subst w3 b' p'.
      apply alloc_x_spec in A. destruct A as [A1 [A2 [A3 [A4 [A5 [A6 A7]]]]]].
      split; [exact A1|]. split; [exact A5|]. split; [exact A6|]. split; [|split].
      + apply fresh_view_wf; auto.
      + apply frames_fresh_view; auto.
      + intros _. rewrite A2. rewrite Hl, Ha. lia. }
  destruct E3 as [E3 [N3 [T3 [W3 [F3 X3]]]]].
  apply slice_arr_spec in St. destruct St as [E4 [H4 [T4 [V4 [B4 F4]]]]].
  assert (E5 : ext w4 w5 /\ hx w5 = hx w4 /\ nbuf w5 = nbuf w4 /\ tl' < ntop w5 /\ ntop w4 <= ntop w5 /\
               (copy = true -> ntop w4 <= tl')).
  { destruct copy.
    - apply fresh_top_spec in Tp. destruct Tp as [P1 [P2 [P3 [P4 P5]]]]. splits; auto; lia.
    - inversion Tp; subst. split; [apply ext_refl|]. splits; auto.
      + pose proof (ext_ntop _ _ Ea). pose proof (ext_ntop _ _ El). pose proof (ext_ntop _ _ E3).
        pose proof (ext_ntop _ _ E4). lia.
      + discriminate. }
  destruct E5 as [E5 [H5 [N5 [L5 [T5 F5]]]]].
  assert (E6 : ext w5 w6 /\ hx w6 = hx w5 /\ ntop w6 = ntop w5 /\ traces_sliced v k w5 (tr t) tr' /\
               (oarr_below (nbuf w5) (tr t) -> oarr_below (nbuf w6) tr') /\
               (copy = true \/ slice_indexes_traces v = true -> oarr_above (nbuf w5) tr')).
  { unfold traces_sliced. destruct (tr t) as [c|].
    - destruct (slice_indexes_traces v).
      + destruct (key_positions (length (a_val c)) k) as [e|[ci cs]] eqn:Kc.
        * inversion Tr; subst. split; [apply ext_refl|]. splits; cbn; auto.
        * destruct (new_arr w5 (sel dfr (a_val c) ci)) as [wa c'] eqn:Nc. inversion Tr; subst.
          apply new_arr_spec in Nc. destruct Nc as [Q1 [Q2 [Q3 [Q4 [Q5 [Q6 Q7]]]]]].
          split; [exact Q1|]. splits; cbn; auto; try lia. exists c'. splits; auto. lia.
      + destruct copy.
        * destruct (copy_arr w5 c) as [wa c'] eqn:Nc. inversion Tr; subst.
          apply copy_arr_spec in Nc. destruct Nc as [Q1 [Q2 [Q3 [Q4 [Q5 Q6]]]]].
          split; [exact Q1|]. splits; cbn; auto; try lia. exists c'. auto.
        * inversion Tr; subst. split; [apply ext_refl|]. splits; cbn; auto.
          -- exists c. auto.
          -- intros [Hd|Hd]; discriminate.
    - inversion Tr; subst. split; [apply ext_refl|]. splits; cbn; auto. }
  destruct E6 as [E6 [H6 [T6 [S6 [B6 F6]]]]].
  assert (E36 : ext w3 w6).
  { eapply ext_trans; [exact E4|]. eapply ext_trans; [exact E5|exact E6]. }
  assert (Eall : ext w w6).
  { eapply ext_trans; [exact Ea|]. eapply ext_trans; [exact El|]. eapply ext_trans; [exact E3|exact E36]. }
  assert (Htr6 : trajs w6 = trajs w) by (apply ext_trajs; exact Eall).
  cbn [trajs push] in H. rewrite Htr6, nth_error_app_last in H. cbn [xb xp na tm ul ua tloc chains tdef] in H.
  inversion H; subst w'; clear H.
  eexists. exists xi, xs. split; [reflexivity|].
  split. { cbn [trajs put push]. rewrite Htr6. apply set_nth_app_last. }
  assert (Hh : hext w (put (push w6 (mkTraj b' p' (na t) tm' ul' ua' tl' (chains t) None false)) (length (trajs w))
                         (mkTraj b' p' (na t) tm' ul' ua' tl' (chains t) tr' false))).
  { eapply hext_trans; [apply ext_hext; exact Eall|]. eapply hext_trans; [apply hext_push|apply hext_put]. }
  split; [exact Hh|].
  assert (Hbuf : forall b, b < length (hx w3) -> buf_of (put (push w6 (mkTraj b' p' (na t) tm' ul' ua' tl' (chains t) None false)) (length (trajs w))
                         (mkTraj b' p' (na t) tm' ul' ua' tl' (chains t) tr' false)) b = buf_of w3 b).
  { intros b Hb. unfold buf_of. cbn [hx put push]. destruct (ext_hx _ _ E36) as [ex Hex]. rewrite Hex. apply app_nth1. exact Hb. }
  destruct W3 as [W3a [W3b W3c]]. cbn [xb xp] in W3a, W3b, W3c.
  split. { rewrite <- Efs, <- F3. unfold frames. cbn [xb xp]. now rewrite Hbuf by exact W3a. }
  split. { exists ti, ts. split; [reflexivity|]. cbn [tm]. exact V4. }
  cbn [ul ua na chains tr].
  split; [exact Cl|]. split; [exact Ca|]. split; [reflexivity|]. split; [reflexivity|].
  split. { unfold lengths_ok, nframes in *. cbn [xp tm ul ua] in *. exact Hc2. }
  (* counters *)
  assert (Nb : nbuf w <= nbuf w1 /\ nbuf w1 <= nbuf w2 /\ nbuf w3 <= nbuf w4 /\ nbuf w5 <= nbuf w6).
  { pose proof (ext_nbuf _ _ Ea). pose proof (ext_nbuf _ _ El). pose proof (ext_nbuf _ _ E4). pose proof (ext_nbuf _ _ E6). lia. }
  assert (Nt : ntop w <= ntop w4).
  { pose proof (ext_ntop _ _ Ea). pose proof (ext_ntop _ _ El). pose proof (ext_ntop _ _ E3). pose proof (ext_ntop _ _ E4). lia. }
  split.
  { split.
    - unfold traj_wf. cbn [xb xp]. split; [|split; [exact W3b|]].
      + cbn [hx put push]. pose proof (hext_hx_len w3 w6 (ext_hext _ _ E36)). lia.
      + rewrite Hbuf by exact W3a. exact W3c.
    - unfold ids_below. cbn [tm ul ua tr tloc nbuf ntop put push].
      split; [assert (a_buf tm' < nbuf w4) by (apply B4; lia); lia|]. split; [|split; [|split]].
      + assert (Hq : oarr_below (nbuf w2) ul') by (apply Bl; unfold oarr_below in *; destruct (ul t); auto; lia).
        unfold oarr_below in *. destruct ul'; auto. lia.
      + apply Ba in Ib3. unfold oarr_below in *. destruct ua'; auto. lia.
      + apply B6. unfold oarr_below in *. destruct (tr t); auto. lia.
      + lia. }
  split.
  { unfold traces_sliced in *. destruct (tr t) as [c|]; auto. destruct (slice_indexes_traces v); auto.
    destruct (key_positions (length (a_val c)) k) as [e|[ci cs]]; auto.
    destruct S6 as [c' [S61 [S62 S63]]]. exists c'. splits; auto. lia. }
  intros Hcp. unfold fresh_reg. cbn [xb tm ul ua tr tloc].
  split; [apply X3; exact Hcp|]. split; [specialize (F4 Hcp); lia|].
  split; [specialize (Fl Hcp); unfold oarr_above in *; destruct ul'; auto; lia|].
  split; [specialize (Fa Hcp); unfold oarr_above in *; destruct ua'; auto; lia|].
  split; [specialize (F6 (or_introl Hcp)); unfold oarr_above in *; destruct tr'; auto; lia|].
  specialize (F5 Hcp). lia.
Qed.

(* ------------------------------------------------------------------ generic consequences of a step's shape *)
Lemma wf_of_new w w' t' : wf w -> trajs w' = trajs w ++ [t'] -> hext w w' -> reg_ok w' t' -> wf w'.
Proof.
  intros Hw Ht He Hr. unfold wf. rewrite Ht. apply Forall_app. split.
  - eapply Forall_impl; [|exact Hw]. intros t0 H0. eapply hext_reg_ok; eauto.
  - constructor; [exact Hr|constructor].
Qed.

Lemma wf_of_upd w w' r t' : wf w -> trajs w' = set_nth r t' (trajs w) -> hext w w' -> reg_ok w' t' -> wf w'.
Proof.
  intros Hw Ht He Hr. unfold wf. rewrite Ht. rewrite Forall_forall. intros t0 Hin.
  apply In_set_nth in Hin. destruct Hin as [->|Hin]; [exact Hr|].
  unfold wf in Hw. rewrite Forall_forall in Hw. eapply hext_reg_ok; eauto.
Qed.

Lemma wf_lookup w r t : wf w -> nth_error (trajs w) r = Some t -> reg_ok w t.
Proof. intros Hw Hr. unfold wf in Hw. rewrite Forall_forall in Hw. apply Hw. eapply nth_error_In; eauto. Qed.

(* ------------------------------------------------------------------ join *)
Definition join_facts (v : variant) (w : world) (t : traj) (others : list traj) (dis : bool) (w' : world) (t' : traj)
    (plan : list bool) : Prop :=
  let all := t :: others in
  join_plan dis (map (frames w) all) = Some plan /\
  trajs w' = trajs w ++ [t'] /\ hext w w' /\
  frames w' t' = jparts plan (map (frames w) all) /\
  a_val (tm t') = jparts plan (map (fun o => a_val (tm o)) all) /\
  (if have_cell t then
     exists l a, ul t' = Some l /\ ua t' = Some a /\ a_val l = jparts plan (map (fun o => oval (ul o)) all) /\
                 a_val a = jparts plan (map (fun o => oval (ua o)) all)
   else ul t' = None /\ ua t' = None) /\
  na t' = na t /\ chains t' = chains t /\
  match join_traces v w t others dis with
  | None => tr t' = None
  | Some vals => exists c, tr t' = Some c /\ a_val c = vals
  end /\
  lengths_ok t' = true /\ reg_ok w' t' /\ fresh_reg w t' /\
  forallb (fun o => Nat.eqb (na t) (na o)) others = true /\
  forallb (fun o => Bool.eqb (have_cell t) (have_cell o)) others = true.

(* the bare join: the result has no cache *)
Lemma join_trajs_ok w t others ct dis w' :
  join_trajs w t others ct dis = (w', ROk) ->
  exists t' plan, join_facts v_fix w t others dis w' t' plan /\ tr t' = None /\ length (trajs w') = S (length (trajs w)).
Proof.
  unfold join_trajs. intros H.
  destruct (forallb (fun o => Nat.eqb (na t) (na o)) others) eqn:G1; cbn [negb] in H; [|inversion H].
  destruct (ct && negb (forallb (fun o => list_eqb (list_eqb Nat.eqb) (chains t) (chains o)) others)) eqn:G2; [inversion H|].
  destruct (forallb (fun o => Bool.eqb (have_cell t) (have_cell o)) others) eqn:G3; cbn [negb] in H; [|inversion H].
  destruct (join_plan dis (map (frames w) (t :: others))) as [plan|] eqn:Pl; [|inversion H].
  remember (jparts plan (map (frames w) (t :: others))) as fs eqn:Efs.
  destruct (alloc_x w fs) as [w1 b] eqn:A.
  destruct (new_arr w1 (jparts plan (map (fun o => a_val (tm o)) (t :: others)))) as [w2 tm'] eqn:N2.
  match type of H with (let '(w3, ua') := ?e in _) = _ => destruct e as [w3 ua'] eqn:N3 end.
  match type of H with (let '(w4, ul') := ?e in _) = _ => destruct e as [w4 ul'] eqn:N4 end.
  destruct (fresh_top w4) as [w5 tl] eqn:T5.
  destruct (construct w5 b (seq 0 (length fs)) (na t) tl (chains t) tm' ul' ua') as [w6 [|e]] eqn:C; inversion H; subst w6; clear H.
  apply construct_ok in C. destruct C as [-> [Hc1 Hc2]].
  apply alloc_x_spec in A. destruct A as [A1 [A2 [A3 [A4 [A5 [A6 A7]]]]]].
  apply new_arr_spec in N2. destruct N2 as [B1 [B2 [B3 [B4 [B5 [B6 B7]]]]]].
  assert (E3 : ext w2 w3 /\ hx w3 = hx w2 /\ ntop w3 = ntop w2 /\ nbuf w2 <= nbuf w3 /\
               (if have_cell t then exists a, ua' = Some a /\ a_val a = jparts plan (map (fun o => oval (ua o)) (t :: others)) /\ nbuf w2 <= a_buf a < nbuf w3
                else ua' = None)).
  { destruct (have_cell t).
    - destruct (new_arr w2 _) as [wa a] eqn:Na. inversion N3; subst.
      apply new_arr_spec in Na. destruct Na as [Q1 [Q2 [Q3 [Q4 [Q5 [Q6 Q7]]]]]]. splits; auto; try lia.
      exists a. splits; auto; lia.
    - inversion N3; subst. splits; auto. apply ext_refl. }
  destruct E3 as [E3 [H3 [T3 [N3' C3]]]].
  assert (E4 : ext w3 w4 /\ hx w4 = hx w3 /\ ntop w4 = ntop w3 /\ nbuf w3 <= nbuf w4 /\
               (if have_cell t then exists a, ul' = Some a /\ a_val a = jparts plan (map (fun o => oval (ul o)) (t :: others)) /\ nbuf w3 <= a_buf a < nbuf w4
                else ul' = None)).
  { destruct (have_cell t).
    - destruct (new_arr w3 _) as [wa a] eqn:Na. inversion N4; subst.
      apply new_arr_spec in Na. destruct Na as [Q1 [Q2 [Q3 [Q4 [Q5 [Q6 Q7]]]]]]. splits; auto; try lia.
      exists a. splits; auto; lia.
    - inversion N4; subst. splits; auto. apply ext_refl. }
  destruct E4 as [E4 [H4 [T4 [N4' C4]]]].
  apply fresh_top_spec in T5. destruct T5 as [P1 [P2 [P3 [P4 P5]]]].
  assert (E15 : ext w1 w5).
  { eapply ext_trans; [exact B1|]. eapply ext_trans; [exact E3|]. eapply ext_trans; [exact E4|exact P1]. }
  assert (Eall : ext w w5) by (eapply ext_trans; [exact A1|exact E15]).
  exists (mkTraj b (seq 0 (length fs)) (na t) tm' ul' ua' tl (chains t) None false), plan.
  split; [|split; [reflexivity|cbn [trajs push]; rewrite (ext_trajs _ _ Eall), app_length; cbn; lia]].
  unfold join_facts. cbn zeta.
  split; [exact Pl|].
  split. { cbn [trajs push]. rewrite (ext_trajs _ _ Eall). reflexivity. }
  assert (Hh : hext w (push w5 (mkTraj b (seq 0 (length fs)) (na t) tm' ul' ua' tl (chains t) None false))).
  { eapply hext_trans; [apply ext_hext; exact Eall|apply hext_push]. }
  split; [exact Hh|].
  assert (Hbuf : buf_of (push w5 (mkTraj b (seq 0 (length fs)) (na t) tm' ul' ua' tl (chains t) None false)) b = fs).
  { unfold buf_of. cbn [hx push]. destruct (ext_hx _ _ E15) as [ex Hex]. rewrite Hex.
    rewrite app_nth1 by exact A4. exact A3. }
  split. { rewrite <- Efs. apply frames_fresh_view. exact Hbuf. }
  cbn [tm ul ua na chains tr].
  split; [exact B4|].
  split. { destruct (have_cell t).
           - destruct C3 as [a [-> [Va _]]]. destruct C4 as [l [-> [Vl _]]]. exists l, a. auto.
           - destruct C3, C4. auto. }
  split; [reflexivity|]. split; [reflexivity|].
  split. { unfold join_traces. cbn [join_keeps_traces v_fix andb]. reflexivity. }
  split; [exact Hc2|].
  split.
  { split.
    - apply fresh_view_wf; [|exact Hbuf]. cbn [hx push]. pose proof (hext_hx_len _ _ (ext_hext _ _ E15)). lia.
    - unfold ids_below. cbn [tm ul ua tr tloc nbuf ntop push]. splits; try lia.
      + unfold oarr_below. destruct (have_cell t); [destruct C4 as [a [-> [_ ?]]]; lia|rewrite C4; auto].
      + unfold oarr_below. destruct (have_cell t); [destruct C3 as [a [-> [_ ?]]]; lia|rewrite C3; auto].
      + cbn. auto. }
  split.
  { unfold fresh_reg. cbn [xb tm ul ua tr tloc]. splits; try lia.
    - unfold oarr_above. destruct (have_cell t); [destruct C4 as [a [-> [_ ?]]]; lia|rewrite C4; auto].
    - unfold oarr_above. destruct (have_cell t); [destruct C3 as [a [-> [_ ?]]]; lia|rewrite C3; auto].
    - cbn. auto. }
  split; assumption.
Qed.

(* join with the cache of the chosen variant attached *)
Lemma join_attached_ok v w t others ct dis w' x :
  attach_traces w (join_trajs w t others ct dis) (join_traces v w t others dis) = (w', x) ->
  match x with
  | ROk => exists t' plan, join_facts v w t others dis w' t' plan
  | RErr _ => True
  end.
Proof.
  destruct (join_trajs w t others ct dis) as [w1 [|e]] eqn:J; [|unfold attach_traces; intros H; inversion H; subst; exact I].
  destruct (join_trajs_ok _ _ _ _ _ _ J) as [t1 [plan [F [Htr Hlen]]]].
  destruct F as [F1 [F2 [F3 [F4 [F5 [F6 [F7 [F8 [_ [F10 [F11 [F12 [F13 F14]]]]]]]]]]]]].
  unfold attach_traces. destruct (join_traces v w t others dis) as [vals|] eqn:Jt.
  - rewrite F2, nth_error_app_last.
    destruct (new_arr w1 vals) as [w2 c] eqn:N. intros H; inversion H; subst w' x; clear H.
    apply new_arr_spec in N. destruct N as [N1 [N2 [N3 [N4 [N5 [N6 N7]]]]]].
    eexists. exists plan. unfold join_facts. cbn zeta. rewrite Jt.
    split; [exact F1|].
    split. { cbn [trajs put]. rewrite (ext_trajs _ _ N1), F2. apply set_nth_app_last. }
    assert (Hh : hext w1 (put w2 (length (trajs w)) (mkTraj (xb t1) (xp t1) (na t1) (tm t1) (ul t1) (ua t1) (tloc t1) (chains t1) (Some c) (tdef t1)))).
    { eapply hext_trans; [apply ext_hext; exact N1|apply hext_put]. }
    split; [eapply hext_trans; eauto|].
    split. { rewrite <- F4. unfold frames, buf_of. cbn [hx put xb xp]. now rewrite N6. }
    cbn [tm ul ua na chains tr].
    split; [exact F5|]. split; [exact F6|]. split; [exact F7|]. split; [exact F8|].
    split; [exists c; auto|].
    split; [exact F10|].
    split.
    { destruct (hext_reg_ok _ _ _ Hh F11) as [W1 I1]. split; [exact W1|].
      destruct F11 as [_ [J1 [J2 [J3 [J4 J5]]]]].
      unfold ids_below, oarr_below in *. cbn [tm ul ua tr tloc nbuf ntop put] in *. splits; try lia.
      - destruct (ul t1); auto; lia.
      - destruct (ua t1); auto; lia. }
    split.
    { destruct F12 as [K1 [K2 [K3 [K4 [K5 K6]]]]]. unfold fresh_reg. cbn [xb tm ul ua tr tloc]. splits; auto.
      unfold oarr_above. pose proof (hext_hx_len _ _ F3). destruct F3 as [_ [Hn _]]. lia. }
    split; assumption.
  - intros H; inversion H; subst w' x; clear H.
    exists t1, plan. unfold join_facts. cbn zeta. rewrite Jt. splits; auto.
Qed.

Ltac ids_tac :=
  unfold ids_below, oarr_below, oarr_above in *; cbn [tm ul ua tr tloc nbuf ntop push put] in *; splits; try lia;
  repeat match goal with |- context [if ?c then _ else _] => destruct c end;
  repeat match goal with |- match ?x with _ => _ end => destruct x end; cbn; auto; try lia.

(* ------------------------------------------------------------------ stack *)
(* an array handed to the constructor: the same object, or (Fortran-ordered input) a fresh copy of the same values *)
Definition cell_passed (w : world) (o o' : option (arr cval)) : Prop :=
  match o, o' with
  | None, None => True
  | Some a, Some a' => a_val a' = a_val a /\ (a' = a \/ nbuf w <= a_buf a')
  | _, _ => False
  end.

Lemma ensure_oarr_spec w (o : option (arr cval)) w1 o' : ensure_oarr w o = (w1, o') ->
  ext w w1 /\ hx w1 = hx w /\ ntop w1 = ntop w /\ cell_passed w o o' /\
  (oarr_below (nbuf w) o -> oarr_below (nbuf w1) o').
Proof.
  unfold ensure_oarr. destruct o as [a|].
  - destruct (a_f a).
    + intros H. apply copy_oarr_spec in H. destruct H as [H1 [H2 [H3 [H4 H5]]]].
      destruct o' as [a'|]; [|contradiction]. destruct H5 as [H5 H6]. splits; auto.
      * cbn. split; [exact H6|right; lia].
      * intros _. cbn. lia.
    + intros H; inversion H; subst. split; [apply ext_refl|]. splits; cbn; auto.
  - intros H; inversion H; subst. split; [apply ext_refl|]. splits; cbn; auto.
Qed.

Lemma cell_passed_is_some w o o' : cell_passed w o o' -> match o, o' with Some _, Some _ | None, None => True | _, _ => False end.
Proof. unfold cell_passed. destruct o, o'; tauto. Qed.

Lemma stack_ok w r r' t o w' :
  wf w -> nth_error (trajs w) r = Some t -> nth_error (trajs w) r' = Some o -> do_stack w r r' = (w', ROk) ->
  exists t',
    trajs w' = trajs w ++ [t'] /\ hext w w' /\
    frames w' t' = zip_stk (frames w t) (frames w o) /\
    tm t' = tm t /\ cell_passed w (ul t) (ul t') /\ cell_passed w (ua t) (ua t') /\
    na t' = na t + na o /\ chains t' = chains t ++ chains o /\
    tr t' = None /\ lengths_ok t' = true /\ reg_ok w' t' /\
    length (hx w) <= xb t' /\ ntop w <= tloc t' /\ nframes t = nframes o.
Proof.
  unfold do_stack. intros Hwf Hr Hr' H. rewrite Hr, Hr' in H.
  destruct (Nat.eqb (nframes t) (nframes o)) eqn:G; cbn [negb] in H; [|inversion H]. apply Nat.eqb_eq in G.
  remember (zip_stk (frames w t) (frames w o)) as fs eqn:Efs.
  destruct (alloc_x w fs) as [w1 b] eqn:A. destruct (fresh_top w1) as [w2 tl] eqn:T.
  destruct (ensure_oarr w2 (ul t)) as [w3 ul'] eqn:E3. destruct (ensure_oarr w3 (ua t)) as [w4 ua'] eqn:E4.
  destruct (construct w4 b (seq 0 (length fs)) (na t + na o) tl (chains t ++ chains o) (tm t) ul' ua') as [w5 [|e]] eqn:C;
    inversion H; subst w5; clear H.
  apply construct_ok in C. destruct C as [-> [Hc1 Hc2]].
  apply alloc_x_spec in A. destruct A as [A1 [A2 [A3 [A4 [A5 [A6 A7]]]]]].
  apply fresh_top_spec in T. destruct T as [P1 [P2 [P3 [P4 P5]]]].
  apply ensure_oarr_spec in E3. destruct E3 as [X1 [X2 [X3 [X4 X5]]]].
  apply ensure_oarr_spec in E4. destruct E4 as [Y1 [Y2 [Y3 [Y4 Y5]]]].
  assert (E14 : ext w1 w4) by (eapply ext_trans; [exact P1|eapply ext_trans; eauto]).
  assert (Eall : ext w w4) by (eapply ext_trans; eauto).
  destruct (wf_lookup _ _ _ Hwf Hr) as [_ [I1 [I2 [I3 [I4 I5]]]]].
  pose proof (ext_nbuf _ _ X1) as Nx. pose proof (ext_nbuf _ _ Y1) as Ny.
  eexists. split. { cbn [trajs push]. rewrite (ext_trajs _ _ Eall). reflexivity. }
  split. { eapply hext_trans; [apply ext_hext; exact Eall|apply hext_push]. }
  assert (Hbuf : buf_of (push w4 (mkTraj b (seq 0 (length fs)) (na t + na o) (tm t) ul' ua' tl (chains t ++ chains o) None false)) b = fs).
  { unfold buf_of. cbn [hx push]. rewrite Y2, X2, P4. exact A3. }
  split. { apply frames_fresh_view. exact Hbuf. }
  cbn [tm ul ua na chains tr xb tloc].
  split; [reflexivity|].
  pose proof (ext_nbuf _ _ A1) as Na. pose proof (ext_nbuf _ _ P1) as Np.
  split. { unfold cell_passed in *. destruct (ul t), ul'; auto. destruct X4 as [X4 [X6|X6]]; split; auto. right. lia. }
  split. { unfold cell_passed in *. destruct (ua t), ua'; auto. destruct Y4 as [Y4 [Y6|Y6]]; split; auto. right. lia. }
  splits; auto; try lia.
  split.
  - apply fresh_view_wf; [|exact Hbuf]. cbn [hx push]. rewrite Y2, X2, P4. exact A4.
  - assert (B1 : oarr_below (nbuf w4) ul').
    { assert (Q : oarr_below (nbuf w3) ul') by (apply X5; unfold oarr_below in *; destruct (ul t); auto; lia).
      unfold oarr_below in *. destruct ul'; auto. lia. }
    assert (B2 : oarr_below (nbuf w4) ua').
    { apply Y5. unfold oarr_below in *. destruct (ua t); auto. lia. }
    unfold ids_below. cbn [tm ul ua tr tloc nbuf ntop push]. splits; auto; try lia. cbn. auto.
Qed.

(* ------------------------------------------------------------------ atom_slice *)
Definition cell_copied (w : world) (t t' : traj) : Prop :=
  if have_cell t then
    exists l a l' a', ul t = Some l /\ ua t = Some a /\ ul t' = Some l' /\ ua t' = Some a' /\
                      a_val l' = a_val l /\ a_val a' = a_val a /\ nbuf w <= a_buf l' /\ nbuf w <= a_buf a'
  else ul t' = None /\ ua t' = None.

Lemma atom_slice_new_ok v w r idx t w' :
  wf w -> nth_error (trajs w) r = Some t -> do_atom_slice v w r idx false = (w', ROk) ->
  exists t' ni,
    norm_indices (na t) idx = Some ni /\
    trajs w' = trajs w ++ [t'] /\ hext w w' /\
    frames w' t' = map (Sub ni) (frames w t) /\
    a_val (tm t') = a_val (tm t) /\ cell_copied w t t' /\
    na t' = length ni /\ chains t' = subset_chains 0 (chains t) idx /\
    tr t' = None /\ lengths_ok t' = true /\ reg_ok w' t' /\ fresh_reg w t'.
Proof.
  unfold do_atom_slice. intros Hwf Hr H. rewrite Hr in H.
  destruct (norm_indices (na t) idx) as [ni|] eqn:Ni; [|inversion H].
  remember (map (Sub ni) (frames w t)) as fs eqn:Efs.
  destruct (alloc_x w fs) as [w1 b] eqn:A. destruct (fresh_top w1) as [w2 tl] eqn:T.
  destruct (if have_cell t then _ else _) as [[w3 ul'] ua'] eqn:Cc.
  destruct (copy_arr w3 (tm t)) as [w4 tm'] eqn:Ct.
  destruct (construct w4 b (seq 0 (length fs)) (length ni) tl (subset_chains 0 (chains t) idx) tm' ul' ua') as [w5 [|e]] eqn:C;
    inversion H; subst w5; clear H.
  apply construct_ok in C. destruct C as [-> [Hc1 Hc2]].
  apply alloc_x_spec in A. destruct A as [A1 [A2 [A3 [A4 [A5 [A6 A7]]]]]].
  apply fresh_top_spec in T. destruct T as [P1 [P2 [P3 [P4 P5]]]].
  apply copy_arr_spec in Ct. destruct Ct as [Q1 [Q2 [Q3 [Q4 [Q5 Q6]]]]].
  assert (E3 : ext w2 w3 /\ hx w3 = hx w2 /\ ntop w3 = ntop w2 /\ nbuf w2 <= nbuf w3 /\
               oarr_below (nbuf w3) ul' /\ oarr_below (nbuf w3) ua' /\
               (if have_cell t then
                  exists l a l' a', ul t = Some l /\ ua t = Some a /\ ul' = Some l' /\ ua' = Some a' /\
                      a_val l' = a_val l /\ a_val a' = a_val a /\ nbuf w2 <= a_buf l' /\ nbuf w2 <= a_buf a'
                else ul' = None /\ ua' = None)).
  { unfold have_cell in *. destruct (ul t) as [l|] eqn:Ul; destruct (ua t) as [a|] eqn:Ua;
      try (injection Cc as Hw3 Hul Hua; subst w3 ul' ua'; splits; cbn; auto; apply ext_refl).
    destruct (copy_oarr w2 (Some l)) as [wa l'] eqn:C1. destruct (copy_oarr wa (Some a)) as [wb a'] eqn:C2.
    injection Cc as Hw3 Hul Hua. subst w3 ul' ua'. apply copy_oarr_spec in C1. apply copy_oarr_spec in C2.
    destruct C1 as [X1 [X2 [X3 [X4 X5]]]]. destruct C2 as [Y1 [Y2 [Y3 [Y4 Y5]]]].
    destruct l' as [l'|]; [|contradiction]. destruct a' as [a'|]; [|contradiction].
    splits; try congruence; try lia; [eapply ext_trans; eauto|cbn; lia|cbn; lia|].
    exists l, a, l', a'. splits; auto; try tauto; lia. }
  destruct E3 as [E3 [H3 [T3 [N3 [B3l [B3a C3]]]]]].
  assert (E14 : ext w1 w4).
  { eapply ext_trans; [exact P1|]. eapply ext_trans; [exact E3|exact Q1]. }
  assert (Eall : ext w w4) by (eapply ext_trans; eauto).
  eexists. exists ni. split; [reflexivity|].
  split. { cbn [trajs push]. rewrite (ext_trajs _ _ Eall). reflexivity. }
  split. { eapply hext_trans; [apply ext_hext; exact Eall|apply hext_push]. }
  assert (Hbuf : buf_of (push w4 (mkTraj b (seq 0 (length fs)) (length ni) tm' ul' ua' tl (subset_chains 0 (chains t) idx) None false)) b = fs).
  { unfold buf_of. cbn [hx push]. rewrite Q5, H3, P4. exact A3. }
  split. { try rewrite <- Efs. apply frames_fresh_view. exact Hbuf. }
  cbn [tm ul ua na chains tr xb tloc].
  split; [exact Q4|].
  split. { unfold cell_copied. cbn [ul ua]. destruct (have_cell t); auto.
           destruct C3 as [l [a [l' [a' C3]]]]. exists l, a, l', a'. splits; try tauto; lia. }
  splits; auto.
  - split.
    + apply fresh_view_wf; [|exact Hbuf]. cbn [hx push]. rewrite Q5, H3, P4. exact A4.
    + ids_tac.
  - unfold fresh_reg. cbn [xb tm ul ua tr tloc]. splits; try lia.
    + unfold oarr_above. destruct (have_cell t).
      * destruct C3 as [l [a [l' [a' [_ [_ [-> [_ [_ [_ [? _]]]]]]]]]]]. lia.
      * destruct C3 as [-> _]. auto.
    + unfold oarr_above. destruct (have_cell t).
      * destruct C3 as [l [a [l' [a' [_ [_ [_ [-> [_ [_ [_ ?]]]]]]]]]]]. lia.
      * destruct C3 as [_ ->]. auto.
    + cbn; auto.
Qed.

Lemma atom_slice_inplace_ok v w r idx t w' :
  wf w -> nth_error (trajs w) r = Some t -> do_atom_slice v w r idx true = (w', ROk) ->
  exists t' ni,
    norm_indices (na t) idx = Some ni /\
    trajs w' = set_nth r t' (trajs w) /\ hext w w' /\
    frames w' t' = map (Sub ni) (frames w t) /\
    tm t' = tm t /\ ul t' = ul t /\ ua t' = ua t /\
    na t' = length ni /\ chains t' = subset_chains 0 (chains t) idx /\
    tr t' = (if aslice_inplace_resets v then None else tr t) /\
    nframes t' = nframes t /\ reg_ok w' t' /\ length (hx w) <= xb t'.
Proof.
  unfold do_atom_slice. intros Hwf Hr H. rewrite Hr in H.
  destruct (norm_indices (na t) idx) as [ni|] eqn:Ni; [|inversion H].
  remember (map (Sub ni) (frames w t)) as fs eqn:Efs.
  destruct (alloc_x w fs) as [w1 b] eqn:A. destruct (fresh_top w1) as [w2 tl] eqn:T.
  inversion H; subst w'; clear H.
  apply alloc_x_spec in A. destruct A as [A1 [A2 [A3 [A4 [A5 [A6 A7]]]]]].
  apply fresh_top_spec in T. destruct T as [P1 [P2 [P3 [P4 P5]]]].
  assert (Eall : ext w w2) by (eapply ext_trans; eauto).
  destruct (wf_lookup _ _ _ Hwf Hr) as [[Hxb [Hnd Hpos]] [I1 [I2 [I3 [I4 I5]]]]].
  eexists. exists ni. split; [reflexivity|].
  split. { cbn [trajs put]. rewrite (ext_trajs _ _ Eall). reflexivity. }
  split. { eapply hext_trans; [apply ext_hext; exact Eall|apply hext_put]. }
  match goal with |- frames ?W ?T = _ /\ _ => assert (Hbuf : buf_of W b = fs) end.
  { unfold buf_of. cbn [hx put]. rewrite P4. exact A3. }
  split. { try rewrite <- Efs. apply frames_fresh_view. exact Hbuf. }
  cbn [tm ul ua na chains tr xb tloc]. splits; auto; try lia.
  - unfold nframes. cbn [xp]. rewrite seq_length. subst fs. rewrite map_length. unfold frames. apply length_sel.
  - split.
    + apply fresh_view_wf; [|exact Hbuf]. cbn [hx put]. rewrite P4. exact A4.
    + ids_tac.
Qed.

(* ------------------------------------------------------------------ in-place writes *)
Lemma write_x_hx_len w b ps vs : length (hx (write_x w b ps vs)) = length (hx w).
Proof. unfold write_x. cbn. apply length_set_nth. Qed.

Lemma write_x_buf_other w b ps vs b' : b' <> b -> buf_of (write_x w b ps vs) b' = buf_of w b'.
Proof. intros H. unfold buf_of, write_x. cbn. apply nth_set_nth_other. auto. Qed.

Lemma write_x_buf_same w b ps vs : b < length (hx w) ->
  buf_of (write_x w b ps vs) b = write_pos (buf_of w b) ps vs.
Proof. intros H. unfold buf_of at 1, write_x. cbn. apply nth_set_nth_same. exact H. Qed.

Lemma write_x_buf_len w b ps vs b' : length (buf_of (write_x w b ps vs) b') = length (buf_of w b').
Proof.
  destruct (Nat.eq_dec b' b) as [->|Hne].
  - destruct (Nat.lt_ge_cases b (length (hx w))) as [Hlt|Hge].
    + rewrite write_x_buf_same by exact Hlt. apply length_write_pos.
    + unfold buf_of, write_x. cbn. rewrite !nth_overflow; auto. rewrite length_set_nth. exact Hge.
  - now rewrite write_x_buf_other.
Qed.

Lemma reg_ok_write w b ps vs t : reg_ok w t -> reg_ok (write_x w b ps vs) t.
Proof.
  intros [[H1 [H2 H3]] H4]. split.
  - unfold traj_wf. rewrite write_x_hx_len. splits; auto.
    eapply Forall_impl; [|exact H3]. intros p Hp. now rewrite write_x_buf_len.
  - exact H4.
Qed.

Lemma wf_write w b ps vs : wf w -> wf (write_x w b ps vs).
Proof. intros H. unfold wf in *. cbn [trajs write_x]. eapply Forall_impl; [|exact H]. intros t. apply reg_ok_write. Qed.

Lemma overlap_false b1 p1 b2 p2 :
  overlap b1 p1 b2 p2 = false -> b1 <> b2 \/ (forall p, In p p1 -> ~ In p p2).
Proof.
  unfold overlap. intros H. apply andb_false_iff in H. destruct H as [H|H].
  - left. apply Nat.eqb_neq. exact H.
  - right. intros p Hp Hq.
    assert (existsb (fun p => existsb (Nat.eqb p) p2) p1 = true).
    { apply existsb_exists. exists p. split; auto. apply existsb_exists. exists p. split; auto. apply Nat.eqb_refl. }
    congruence.
Qed.

Lemma frames_write_disjoint w b ps vs t :
  overlap b ps (xb t) (xp t) = false -> frames (write_x w b ps vs) t = frames w t.
Proof.
  intros H. apply overlap_false in H. unfold frames. destruct H as [H|H].
  - rewrite write_x_buf_other by auto. reflexivity.
  - destruct (Nat.eq_dec (xb t) b) as [E|E]; [|now rewrite write_x_buf_other].
    rewrite E. destruct (Nat.lt_ge_cases b (length (hx w))) as [Hlt|Hge].
    + rewrite write_x_buf_same by exact Hlt. apply sel_write_pos_disjoint. intros q Hq Hin. apply (H q); auto.
    + unfold buf_of, write_x. cbn. rewrite !nth_overflow; auto. rewrite length_set_nth. exact Hge.
Qed.

Lemma frames_write_same w t vs :
  traj_wf w t -> length vs = length (xp t) -> frames (write_x w (xb t) (xp t) vs) t = vs.
Proof.
  intros [H1 [H2 H3]] Hl. unfold frames. rewrite write_x_buf_same by exact H1.
  apply sel_write_pos_same; auto.
Qed.

Lemma length_frames w t : length (frames w t) = nframes t.
Proof. unfold frames, nframes. apply length_sel. Qed.

(* ------------------------------------------------------------------ cache bookkeeping *)
Lemma cache_ok_ext w w' t : frames w' t = frames w t -> cache_ok w' t = cache_ok w t.
Proof. intros H. unfold cache_ok. now rewrite H. Qed.

Lemma cache_ok_none w t : tr t = None -> cache_ok w t = true.
Proof. intros H. unfold cache_ok. now rewrite H. Qed.

Lemma cache_ok_self w t c fs :
  tr t = Some c -> a_val c = fs -> frames w t = fs -> Forall (fun x => is_cen x = true) fs -> cache_ok w t = true.
Proof.
  intros H1 H2 H3 H4. unfold cache_ok. rewrite H1, H2, H3. apply cache_match_iff. auto.
Qed.

Lemma Forall_is_cen_map_cen fs : Forall (fun x => is_cen x = true) (map cen fs).
Proof. rewrite Forall_forall. intros x Hx. apply in_map_iff in Hx. destruct Hx as [y [<- _]]. apply is_cen_cen. Qed.

(* ------------------------------------------------------------------ refused operations change nothing *)
Ltac err_tac H :=
  repeat match type of H with
         | context [match ?x with _ => _ end] => destruct x eqn:?
         end;
  try (inversion H; subst; reflexivity); try discriminate.

Lemma slice_err v w r k copy w' e : do_slice v w r k copy = (w', RErr e) -> w' = w.
Proof. unfold do_slice. intros H. err_tac H. Qed.

Lemma join_trajs_err w t os ct dis w' e : join_trajs w t os ct dis = (w', RErr e) -> w' = w.
Proof. unfold join_trajs. intros H. err_tac H. Qed.

Lemma attach_err w wr tv w' e : attach_traces w wr tv = (w', RErr e) -> wr = (w', RErr e).
Proof.
  unfold attach_traces. destruct wr as [w1 [|e1]]; [|auto]. destruct tv as [vals|]; [|auto].
  destruct (nth_error (trajs w1) (length (trajs w))); [|auto]. destruct (new_arr w1 vals). discriminate.
Qed.

Lemma join_err v w r os ct dis w' e : do_join v w r os ct dis = (w', RErr e) -> w' = w.
Proof.
  unfold do_join. intros H. destruct (nth_error (trajs w) r); [|inversion H; auto].
  destruct (get_all w os); [|inversion H; auto]. apply attach_err in H. eapply join_trajs_err; eauto.
Qed.

Lemma mdjoin_reduce_err v w0 : forall rest w acc dis w' e,
  mdjoin_reduce v w0 w acc rest dis = (w', RErr e) -> w' = w0.
Proof.
  induction rest as [|o rest IH]; intros w acc dis w' e H; cbn [mdjoin_reduce] in H; [discriminate|].
  destruct (join_pair v w acc o dis) as [w1 [|e1]]; [|inversion H; auto].
  destruct (nth_error (trajs w1) (length (trajs w))) as [nt|]; [|inversion H; auto]. eapply IH; eauto.
Qed.

Lemma mdjoin_err v w rs dis w' e : do_mdjoin v w rs dis = (w', RErr e) -> w' = w.
Proof.
  unfold do_mdjoin. intros H. destruct (get_all w rs) as [[|t [|o rest]]|]; try (inversion H; auto; fail).
  eapply mdjoin_reduce_err; eauto.
Qed.

Lemma join_step_full v w r others ct dis w' :
  step v w (OJoin r others ct dis) = (w', ROk) ->
  exists t os t' plan, nth_error (trajs w) r = Some t /\ get_all w others = Some os /\ join_facts v w t os dis w' t' plan.
Proof.
  cbn [step]. unfold do_join. intros H.
  destruct (nth_error (trajs w) r) as [t|] eqn:Hr; [|discriminate].
  destruct (get_all w others) as [os|] eqn:Ho; [|discriminate].
  destruct (join_attached_ok _ _ _ _ _ _ _ _ H) as [t' [plan F]]. exists t, os, t', plan. auto.
Qed.

Lemma get_all_In w rs ts : get_all w rs = Some ts -> forall t, In t ts -> In t (trajs w).
Proof.
  revert ts; induction rs as [|r rest IH]; intros ts H t Hin; cbn in H.
  - inversion H; subst. destruct Hin.
  - destruct (nth_error (trajs w) r) eqn:E; [|discriminate]. destruct (get_all w rest) eqn:G; [|discriminate].
    inversion H; subst. destruct Hin as [<-|Hin]; [eapply nth_error_In; eauto|eapply IH; eauto].
Qed.

(* what md.join (the pairwise reduction) guarantees about its result, relative to the first operand t *)
Definition cell_shape (t t' : traj) : Prop :=
  if have_cell t then exists l a, ul t' = Some l /\ ua t' = Some a else ul t' = None /\ ua t' = None.

Definition mdjoin_facts (w : world) (t : traj) (w' : world) (t' : traj) : Prop :=
  trajs w' = trajs w ++ [t'] /\ hext w w' /\ cell_shape t t' /\ na t' = na t /\ chains t' = chains t /\
  lengths_ok t' = true /\ reg_ok w' t' /\ fresh_reg w t'.

Lemma reg_ok_same_heap w w' t : hx w' = hx w -> nbuf w' = nbuf w -> ntop w' = ntop w -> reg_ok w t -> reg_ok w' t.
Proof.
  intros H1 H2 H3 [[A [B C]] I]. split.
  - unfold traj_wf, buf_of in *. rewrite H1. auto.
  - unfold ids_below in *. rewrite H2, H3. exact I.
Qed.

Lemma fresh_reg_mono w0 w t : hext w0 w -> fresh_reg w t -> fresh_reg w0 t.
Proof.
  intros He [F1 [F2 [F3 [F4 [F5 F6]]]]]. pose proof (hext_hx_len _ _ He). destruct He as [_ [Hn Ht]].
  unfold fresh_reg, oarr_above in *. splits; try lia.
  - destruct (ul t); auto; lia.
  - destruct (ua t); auto; lia.
  - destruct (tr t); auto; lia.
Qed.

Lemma have_cell_of_shape t t' : cell_shape t t' -> have_cell t' = have_cell t.
Proof.
  unfold cell_shape. destruct (have_cell t) eqn:E.
  - intros [l [a [H1 H2]]]. unfold have_cell. now rewrite H1, H2.
  - intros [H1 H2]. unfold have_cell. now rewrite H1.
Qed.

(* one pairwise step of the reduction *)
Lemma join_pair_ok v w acc o dis w1 :
  join_pair v w acc o dis = (w1, ROk) -> exists nt plan, join_facts v w acc [o] dis w1 nt plan.
Proof. unfold join_pair. intros H. exact (join_attached_ok _ _ _ _ _ _ _ _ H). Qed.

Lemma mdjoin_reduce_ok v w0 t0 : forall rest w acc dis w',
  hext w0 w -> reg_ok w acc -> fresh_reg w0 acc -> lengths_ok acc = true ->
  na acc = na t0 -> chains acc = chains t0 -> cell_shape t0 acc ->
  mdjoin_reduce v w0 w acc rest dis = (w', ROk) ->
  exists t', mdjoin_facts w0 t0 w' t' /\ hext w w'.
Proof.
  induction rest as [|o rest IH]; intros w acc dis w' He Hreg Hfr Hlen Hna Hch Hcs H; cbn [mdjoin_reduce] in H.
  - inversion H; subst w'; clear H. exists acc. split.
    + unfold mdjoin_facts. splits; auto.
      all: try (apply (reg_ok_same_heap w); auto; fail).
      all: destruct He as [Hx [Hn Ht]]; unfold hext; splits; cbn; auto.
    + unfold hext. splits; cbn; auto. exists []. now rewrite app_nil_r.
  - destruct (join_pair v w acc o dis) as [w1 [|e1]] eqn:J; [|discriminate].
    destruct (join_pair_ok _ _ _ _ _ _ J) as [nt [plan JF]].
    pose proof JF as [F1 [F2 [F3 [F4 [F5 [F6 [F7 [F8 [Ftr [F10 [F11 [F12 _]]]]]]]]]]]].
    rewrite F2, nth_error_app_last in H.
    assert (He1 : hext w0 w1) by (eapply hext_trans; eauto).
    assert (Hcs1 : cell_shape t0 nt).
    { unfold cell_shape in *. rewrite (have_cell_of_shape _ _ Hcs) in F6.
      destruct (have_cell t0); [destruct F6 as [l [a [U1 [U2 _]]]]; eauto|exact F6]. }
    destruct (IH w1 nt dis w' He1 F11 (fresh_reg_mono _ _ _ He F12) F10 (eq_trans F7 Hna) (eq_trans F8 Hch) Hcs1 H)
      as [t' [MF He']].
    exists t'. split; [exact MF|]. eapply hext_trans; eauto.
Qed.

Lemma mdjoin_step_full v w rs dis w' :
  step v w (OMdJoin rs dis) = (w', ROk) ->
  exists t o rest t', get_all w rs = Some (t :: o :: rest) /\ mdjoin_facts w t w' t'.
Proof.
  cbn [step]. unfold do_mdjoin. intros H.
  destruct (get_all w rs) as [[|t [|o rest]]|] eqn:Ho; try discriminate.
  exists t, o, rest. cbn [mdjoin_reduce] in H.
  destruct (join_pair v w t o dis) as [w1 [|e1]] eqn:J; [|discriminate].
  destruct (join_pair_ok _ _ _ _ _ _ J) as [nt [plan JF]].
  pose proof JF as [F1 [F2 [F3 [F4 [F5 [F6 [F7 [F8 [Ftr [F10 [F11 [F12 _]]]]]]]]]]]].
  rewrite F2, nth_error_app_last in H.
  assert (Hcs1 : cell_shape t nt).
  { unfold cell_shape. destruct (have_cell t); [destruct F6 as [l [a [U1 [U2 _]]]]; eauto|exact F6]. }
  destruct (mdjoin_reduce_ok v w t rest w1 nt dis w' F3 F11 F12 F10 F7 F8 Hcs1 H) as [t' [MF He']].
  exists t'. split; [reflexivity|exact MF].
Qed.

Ltac join_facts_tac H :=
  first [ destruct (join_step_full _ _ _ _ _ _ _ H)
            as [?t [?os [t' [?plan [_ [_ [_ [Ht [He [_ [_ [_ [_ [_ [Htr [Hlen [Hreg [Hfresh _]]]]]]]]]]]]]]]]]]
        | destruct (mdjoin_step_full _ _ _ _ _ H)
            as [?t [?o [?rest [t' [_ [Ht [He [_ [_ [_ [Hlen [Hreg Hfresh]]]]]]]]]]]] ].

Lemma stack_err w r r' w' e : do_stack w r r' = (w', RErr e) -> w' = w.
Proof. unfold do_stack. intros H. err_tac H. Qed.

Lemma atom_slice_err v w r idx ip w' e : do_atom_slice v w r idx ip = (w', RErr e) -> w' = w.
Proof. unfold do_atom_slice. intros H. err_tac H. Qed.

Lemma remove_solvent_err v w r ip w' e : do_remove_solvent v w r ip = (w', RErr e) -> w' = w.
Proof. unfold do_remove_solvent. intros H. destruct (nth_error (trajs w) r); [eapply atom_slice_err; eauto|inversion H; auto]. Qed.

Lemma center_err w r mw w' e : do_center w r mw = (w', RErr e) -> w' = w.
Proof. unfold do_center. intros H. err_tac H. Qed.

Lemma setters_err w o w' e :
  match o with
  | OSetXyzNew _ _ _ | OSetXyzShare _ _ | OSetTimeNew _ _ | OSetTimeShare _ _ | OSetLengths _ _ | OSetAngles _ _
  | OSetVectors _ _ _ => True
  | _ => False
  end -> forall v, step v w o = (w', RErr e) -> w' = w.
Proof.
  destruct o; intros G v H; try contradiction; cbn [step] in H;
    unfold do_set_xyz_new, do_set_xyz_share, do_set_time_new, do_set_time_share, do_set_cell_part, do_set_vectors in H;
    err_tac H.
Qed.

(* ------------------------------------------------------------------ every step keeps the world well-formed *)
Lemma reg_ok_set_tr w t c : reg_ok w t -> oarr_below (nbuf w) c -> reg_ok w (set_tr t c).
Proof. intros [H1 H2] Hc. split; [exact H1|]. unfold set_tr. ids_tac. Qed.

Lemma step_wf v w o w' r : wf w -> step v w o = (w', r) -> wf w'.
Proof.
  intros Hwf H. destruct o; cbn [step] in H.
  - (* slice *) destruct r as [|e]; [|apply slice_err in H; subst; auto].
    destruct (nth_error (trajs w) r0) as [t|] eqn:Hr; [|unfold do_slice in H; rewrite Hr in H; discriminate].
    destruct (slice_ok _ _ _ _ _ _ _ Hwf Hr H) as [t' [xi [xs [_ [Ht [He [_ [_ [_ [_ [_ [_ [_ [Hreg _]]]]]]]]]]]]]].
    eapply wf_of_new; eauto.
  - (* join *) destruct r as [|e]; [|apply join_err in H; subst; auto].
    join_facts_tac H.
    eapply wf_of_new; eauto.
  - (* md.join *) destruct r as [|e]; [|apply mdjoin_err in H; subst; auto].
    join_facts_tac H.
    eapply wf_of_new; eauto.
  - (* stack *) destruct r as [|e]; [|apply stack_err in H; subst; auto].
    destruct (nth_error (trajs w) r0) as [t|] eqn:Hr; [|unfold do_stack in H; rewrite Hr in H; discriminate].
    destruct (nth_error (trajs w) r') as [o|] eqn:Hr'; [|unfold do_stack in H; rewrite Hr, Hr' in H; discriminate].
    destruct (stack_ok _ _ _ _ _ _ Hwf Hr Hr' H) as [t' [Ht [He [_ [_ [_ [_ [_ [_ [_ [_ [Hreg _]]]]]]]]]]]].
    eapply wf_of_new; eauto.
  - (* atom_slice *) destruct r as [|e]; [|apply atom_slice_err in H; subst; auto].
    destruct (nth_error (trajs w) r0) as [t|] eqn:Hr; [|unfold do_atom_slice in H; rewrite Hr in H; discriminate].
    destruct inplace.
    + destruct (atom_slice_inplace_ok _ _ _ _ _ _ Hwf Hr H) as [t' [ni [_ [Ht [He [_ [_ [_ [_ [_ [_ [_ [_ [Hreg _]]]]]]]]]]]]]].
      eapply wf_of_upd; eauto.
    + destruct (atom_slice_new_ok _ _ _ _ _ _ Hwf Hr H) as [t' [ni [_ [Ht [He [_ [_ [_ [_ [_ [_ [_ [Hreg _]]]]]]]]]]]]].
      eapply wf_of_new; eauto.
  - (* remove_solvent *) destruct r as [|e]; [|apply remove_solvent_err in H; subst; auto].
    unfold do_remove_solvent in H.
    destruct (nth_error (trajs w) r0) as [t|] eqn:Hr; [|discriminate].
    destruct inplace.
    + destruct (atom_slice_inplace_ok _ _ _ _ _ _ Hwf Hr H) as [t' [ni [_ [Ht [He [_ [_ [_ [_ [_ [_ [_ [_ [Hreg _]]]]]]]]]]]]]].
      eapply wf_of_upd; eauto.
    + destruct (atom_slice_new_ok _ _ _ _ _ _ Hwf Hr H) as [t' [ni [_ [Ht [He [_ [_ [_ [_ [_ [_ [_ [Hreg _]]]]]]]]]]]]].
      eapply wf_of_new; eauto.
  - (* center *) destruct r as [|e]; [|apply center_err in H; subst; auto].
    unfold do_center in H. destruct (nth_error (trajs w) r0) as [t|] eqn:Hr; [|discriminate].
    pose proof (wf_lookup _ _ _ Hwf Hr) as Hreg.
    destruct mass_weighted.
    + destruct (Nat.eqb (length (kinds t)) (na t)); cbn [negb] in H; [|discriminate]. inversion H; subst.
      apply (wf_put (write_x w (xb t) (xp t) (map (CenM (kinds t)) (frames w t)))); [apply wf_write; auto|apply ext_refl|].
      apply reg_ok_set_tr; [apply reg_ok_write; auto|cbn; auto].
    + destruct (Nat.eqb (nframes t) 0); [discriminate|].
      destruct (new_arr (write_x w (xb t) (xp t) (map cen (frames w t))) (map cen (frames w t))) as [w2 c] eqn:N.
      inversion H; subst. apply new_arr_spec in N. destruct N as [N1 [N2 [N3 _]]].
      apply (wf_put (write_x w (xb t) (xp t) (map cen (frames w t)))); [apply wf_write; auto|exact N1|].
      apply reg_ok_set_tr; [eapply hext_reg_ok; [apply ext_hext; exact N1|apply reg_ok_write; auto]|cbn; lia].
  - (* superpose *) unfold do_superpose in H.
    destruct (nth_error (trajs w) r0) as [t|] eqn:Hr; [|inversion H; subst; auto].
    destruct (nth_error (trajs w) ref) as [q|] eqn:Hq; [|inversion H; subst; auto].
    destruct (norm_index (nframes q) frame); [|inversion H; subst; auto].
    pose proof (wf_lookup _ _ _ Hwf Hr) as Hreg.
    destruct (Nat.eqb (na t) (na q)); cbn [negb] in H; [|inversion H; subst; apply wf_write; auto].
    destruct (Nat.eqb (length (kinds t)) (na t)); cbn [negb] in H; [|inversion H; subst; apply wf_write; auto].
    inversion H; subst.
    match goal with |- wf (put ?W _ _) => apply (wf_put W); [apply wf_write; auto|apply ext_refl|] end.
    apply reg_ok_set_tr; [apply reg_ok_write; auto|cbn; auto].
  - (* xyz = new array *) unfold do_set_xyz_new in H.
    destruct (nth_error (trajs w) r0) as [t|] eqn:Hr; [|inversion H; subst; auto].
    destruct (Nat.eqb (length (kinds t)) natoms); cbn [negb] in H; [|inversion H; subst; auto].
    destruct (fresh_src w) as [w1 s] eqn:S. destruct (alloc_x w1 _) as [w2 b] eqn:A. inversion H; subst.
    apply fresh_src_spec in S. destruct S as [S1 [S2 [S3 S4]]].
    apply alloc_x_spec in A. destruct A as [A1 [A2 [A3 [A4 [A5 [A6 A7]]]]]].
    apply (wf_put w); [auto|eapply ext_trans; eauto|].
    destruct (wf_lookup _ _ _ Hwf Hr) as [_ Hids]. split.
    + unfold set_x, traj_wf. cbn [xb xp]. rewrite A3, map_length, seq_length.
      destruct (seq_wf_view m). splits; auto.
    + unfold set_x. ids_tac.
  - (* xyz = other's array *) unfold do_set_xyz_share in H.
    destruct (nth_error (trajs w) r0) as [t|] eqn:Hr; [|inversion H; subst; auto].
    destruct (nth_error (trajs w) r') as [o|] eqn:Hr'; [|inversion H; subst; auto].
    destruct (Nat.eqb (length (kinds t)) (na o)); cbn [negb] in H; inversion H; subst; auto.
    apply (wf_put w); [auto|apply ext_refl|].
    destruct (wf_lookup _ _ _ Hwf Hr) as [_ Hids]. destruct (wf_lookup _ _ _ Hwf Hr') as [Hwo _]. split.
    + exact Hwo.
    + unfold set_x. ids_tac.
  - (* time = new array *) unfold do_set_time_new in H.
    destruct (nth_error (trajs w) r0) as [t|] eqn:Hr; [|inversion H; subst; auto].
    destruct (Nat.eqb m (nframes t)); cbn [negb] in H; [|inversion H; subst; auto].
    destruct (fresh_src w) as [w1 s] eqn:S. destruct (new_arr w1 _) as [w2 a] eqn:A. inversion H; subst.
    apply fresh_src_spec in S. destruct S as [S1 [S2 [S3 S4]]].
    apply new_arr_spec in A. destruct A as [A1 [A2 [A3 [A4 [A5 [A6 A7]]]]]].
    apply (wf_put w); [auto|eapply ext_trans; eauto|].
    destruct (wf_lookup _ _ _ Hwf Hr) as [[T1 [T2 T3]] Hids]. split.
    + unfold set_tm, traj_wf, buf_of in *. cbn [xb xp]. rewrite A6, S2. auto.
    + unfold set_tm. ids_tac.
  - (* time = other's array *) unfold do_set_time_share in H.
    destruct (nth_error (trajs w) r0) as [t|] eqn:Hr; [|inversion H; subst; auto].
    destruct (nth_error (trajs w) r') as [o|] eqn:Hr'; [|inversion H; subst; auto].
    destruct (Nat.eqb (length (a_val (tm o))) (nframes t)); cbn [negb] in H; inversion H; subst; auto.
    apply (wf_put w); [auto|apply ext_refl|].
    destruct (wf_lookup _ _ _ Hwf Hr) as [Hwt Hids]. destruct (wf_lookup _ _ _ Hwf Hr') as [_ Hio]. split.
    + exact Hwt.
    + unfold set_tm. ids_tac.
  - (* unitcell_lengths = *) unfold do_set_cell_part in H.
    destruct (nth_error (trajs w) r0) as [t|] eqn:Hr; [|inversion H; subst; auto].
    destruct (wf_lookup _ _ _ Hwf Hr) as [[T1 [T2 T3]] Hids].
    destruct m as [m|].
    + destruct (Nat.eqb m (nframes t)); cbn [negb] in H; [|inversion H; subst; auto].
      destruct (fresh_src w) as [w1 s] eqn:S. destruct (new_arr w1 _) as [w2 a] eqn:A. inversion H; subst.
      apply fresh_src_spec in S. destruct S as [S1 [S2 [S3 S4]]].
      apply new_arr_spec in A. destruct A as [A1 [A2 [A3 [A4 [A5 [A6 A7]]]]]].
      apply (wf_put w); [auto|eapply ext_trans; eauto|]. split.
      * unfold set_cell, traj_wf, buf_of in *. cbn [xb xp]. rewrite A6, S2. auto.
      * unfold set_cell. ids_tac.
    + inversion H; subst. apply (wf_put w); [auto|apply ext_refl|]. split; [exact (conj T1 (conj T2 T3))|unfold set_cell; ids_tac].
  - (* unitcell_angles = *) unfold do_set_cell_part in H.
    destruct (nth_error (trajs w) r0) as [t|] eqn:Hr; [|inversion H; subst; auto].
    destruct (wf_lookup _ _ _ Hwf Hr) as [[T1 [T2 T3]] Hids].
    destruct m as [m|].
    + destruct (Nat.eqb m (nframes t)); cbn [negb] in H; [|inversion H; subst; auto].
      destruct (fresh_src w) as [w1 s] eqn:S. destruct (new_arr w1 _) as [w2 a] eqn:A. inversion H; subst.
      apply fresh_src_spec in S. destruct S as [S1 [S2 [S3 S4]]].
      apply new_arr_spec in A. destruct A as [A1 [A2 [A3 [A4 [A5 [A6 A7]]]]]].
      apply (wf_put w); [auto|eapply ext_trans; eauto|]. split.
      * unfold set_cell, traj_wf, buf_of in *. cbn [xb xp]. rewrite A6, S2. auto.
      * unfold set_cell. ids_tac.
    + inversion H; subst. apply (wf_put w); [auto|apply ext_refl|]. split; [exact (conj T1 (conj T2 T3))|unfold set_cell; ids_tac].
  - (* unitcell_vectors = *) unfold do_set_vectors in H.
    destruct (nth_error (trajs w) r0) as [t|] eqn:Hr; [|inversion H; subst; auto].
    destruct (wf_lookup _ _ _ Hwf Hr) as [[T1 [T2 T3]] Hids].
    assert (Hdrop : wf (put w r0 (set_cell t None None))).
    { apply (wf_put w); [auto|apply ext_refl|]. split; [exact (conj T1 (conj T2 T3))|unfold set_cell; ids_tac]. }
    destruct m as [m|]; [|inversion H; subst; exact Hdrop].
    destruct (allzero || Nat.eqb m 0); [inversion H; subst; exact Hdrop|].
    destruct (Nat.eqb m (nframes t)); cbn [negb] in H; [|inversion H; subst; auto].
    destruct (fresh_src w) as [w1 s] eqn:S. destruct (new_arr w1 _) as [w2 l] eqn:A.
    destruct (new_arr w2 _) as [w3 a] eqn:B. inversion H; subst.
    apply fresh_src_spec in S. destruct S as [S1 [S2 [S3 S4]]].
    apply new_arr_spec in A. destruct A as [A1 [A2 [A3 [A4 [A5 [A6 A7]]]]]].
    apply new_arr_spec in B. destruct B as [B1 [B2 [B3 [B4 [B5 [B6 B7]]]]]].
    apply (wf_put w); [auto|eapply ext_trans; [exact S1|eapply ext_trans; eauto]|]. split.
    + unfold set_cell, traj_wf, buf_of in *. cbn [xb xp]. rewrite B6, A6, S2. auto.
    + unfold set_cell. ids_tac.
  - (* reading the cell *) destruct (nth_error (trajs w) r0); inversion H; subst; auto.
Qed.

(* ------------------------------------------------------------------ histories: well-formedness *)
Lemma run_wf v ops : forall w, wf w -> wf (fst (run v w ops)).
Proof.
  induction ops as [|o rest IH]; intros w Hw; cbn [run]; [exact Hw|].
  destruct (step v w o) as [w1 x] eqn:S. specialize (IH w1 (step_wf _ _ _ _ _ Hw S)).
  destruct (run v w1 rest) as [w2 xs]. exact IH.
Qed.

Lemma load_wf w sp : wf w -> wf (load w sp).
Proof.
  intros Hw. destruct sp as [[[n chs] cell] etime]. unfold load.
  destruct (fresh_src w) as [w1 s] eqn:S. destruct (alloc_x w1 _) as [w2 b] eqn:A.
  destruct (fresh_top w2) as [w3 tl] eqn:T. destruct (new_arr w3 _) as [w4 tm'] eqn:N4.
  lazymatch goal with |- wf (let '(_, _) := ?e in _) => destruct e as [w5 l] eqn:N5 end.
  lazymatch goal with |- wf (let '(_, _) := ?e in _) => destruct e as [w6 a] eqn:N6 end.
  apply fresh_src_spec in S. destruct S as [S1 [S2 [S3 S4]]].
  apply alloc_x_spec in A. destruct A as [A1 [A2 [A3 [A4 [A5 [A6 A7]]]]]].
  apply fresh_top_spec in T. destruct T as [P1 [P2 [P3 [P4 P5]]]].
  apply new_arr_spec in N4. destruct N4 as [B1 [B2 [B3 [B4 [B5 [B6 B7]]]]]].
  assert (E5 : ext w4 w5 /\ hx w5 = hx w4 /\ ntop w5 = ntop w4 /\ nbuf w4 <= nbuf w5 /\ oarr_below (nbuf w5) l).
  { destruct cell.
    - destruct (new_arr w4 _) as [wa c] eqn:Nc. inversion N5; subst. apply new_arr_spec in Nc.
      destruct Nc as [Q1 [Q2 [Q3 [Q4 [Q5 [Q6 Q7]]]]]]. splits; auto; cbn; lia.
    - inversion N5; subst. splits; cbn; auto. apply ext_refl. }
  destruct E5 as [E5 [H5 [T5 [N5' O5]]]].
  assert (E6 : ext w5 w6 /\ hx w6 = hx w5 /\ ntop w6 = ntop w5 /\ nbuf w5 <= nbuf w6 /\ oarr_below (nbuf w6) a).
  { destruct cell.
    - destruct (new_arr w5 _) as [wa c] eqn:Nc. inversion N6; subst. apply new_arr_spec in Nc.
      destruct Nc as [Q1 [Q2 [Q3 [Q4 [Q5 [Q6 Q7]]]]]]. splits; auto; cbn; lia.
    - inversion N6; subst. splits; cbn; auto. apply ext_refl. }
  destruct E6 as [E6 [H6 [T6 [N6' O6]]]].
  assert (Eall : ext w w6).
  { eapply ext_trans; [exact S1|]. eapply ext_trans; [exact A1|]. eapply ext_trans; [exact P1|].
    eapply ext_trans; [exact B1|]. eapply ext_trans; eauto. }
  apply (wf_push w); [exact Hw|exact Eall|]. split.
  - unfold traj_wf, buf_of. cbn [xb xp]. rewrite H6, H5, B6, P4. fold (buf_of w2 b). rewrite A3, map_length, seq_length.
    destruct (seq_wf_view n). splits; auto.
  - ids_tac.
Qed.

Lemma init_wf sps : wf (init_world sps).
Proof.
  unfold init_world. assert (H : wf empty_world) by constructor.
  revert H. generalize empty_world. induction sps as [|sp rest IH]; intros w Hw; cbn; auto.
  apply IH. apply load_wf. exact Hw.
Qed.

(* ------------------------------------------------------------------ the cache invariant *)
Definition cinv (w : world) : Prop := Forall (fun t => cache_ok w t = true) (trajs w).

Lemma cinv_of_new w w' t' :
  wf w -> cinv w -> trajs w' = trajs w ++ [t'] -> hext w w' -> cache_ok w' t' = true -> cinv w'.
Proof.
  intros Hw Hc Ht He Hn. unfold cinv. rewrite Ht. apply Forall_app. split; [|constructor; auto].
  unfold cinv, wf in *. rewrite Forall_forall in *. intros t0 Hin.
  rewrite (cache_ok_ext w w'); [apply Hc; auto|]. apply hext_frames; auto. destruct (Hw t0 Hin) as [[? _] _]. auto.
Qed.

Lemma cinv_of_upd w w' r t' :
  wf w -> cinv w -> trajs w' = set_nth r t' (trajs w) -> hext w w' -> cache_ok w' t' = true -> cinv w'.
Proof.
  intros Hw Hc Ht He Hn. unfold cinv. rewrite Ht. rewrite Forall_forall. intros t0 Hin.
  apply In_set_nth in Hin. destruct Hin as [->|Hin]; [exact Hn|].
  unfold cinv, wf in *. rewrite Forall_forall in *.
  rewrite (cache_ok_ext w w'); [apply Hc; auto|]. apply hext_frames; auto. destruct (Hw t0 Hin) as [[? _] _]. auto.
Qed.

Lemma cinv_lookup w r t : cinv w -> nth_error (trajs w) r = Some t -> cache_ok w t = true.
Proof. intros Hc Hr. unfold cinv in Hc. rewrite Forall_forall in Hc. apply Hc. eapply nth_error_In; eauto. Qed.

Lemma cache_ok_inv w t c : tr t = Some c -> cache_ok w t = true ->
  a_val c = frames w t /\ Forall (fun x => is_cen x = true) (frames w t).
Proof. intros H1 H2. unfold cache_ok in H2. rewrite H1 in H2. apply cache_match_iff in H2. exact H2. Qed.

Lemma Forall_sel {A} (P : A -> Prop) d l idx :
  Forall P l -> Forall (fun i => i < length l) idx -> Forall P (sel d l idx).
Proof.
  intros Hl Hi. unfold sel. rewrite Forall_forall in *. intros x Hx. apply in_map_iff in Hx.
  destruct Hx as [i [<- Hin]]. apply Hl. apply nth_In. auto.
Qed.

(* positions enumerated by combine (seq 0 n) l *)
Lemma In_combine_seq {A} (l : list A) k i x :
  In (i, x) (combine (seq k (length l)) l) <-> (k <= i /\ nth_error l (i - k) = Some x).
Proof.
  revert k; induction l as [|y r IH]; intros k; cbn.
  - split; [tauto|]. intros [_ H]. destruct (i - k); discriminate.
  - split.
    + intros [H|H].
      * inversion H; subst. split; [lia|]. now rewrite Nat.sub_diag.
      * apply IH in H. destruct H as [H1 H2]. split; [lia|].
        replace (i - k) with (S (i - S k)) by lia. exact H2.
    + intros [H1 H2]. destruct (Nat.eq_dec i k) as [->|Hne].
      * rewrite Nat.sub_diag in H2. cbn in H2. inversion H2; subst. left; reflexivity.
      * right. apply IH. split; [lia|]. replace (i - k) with (S (i - S k)) in H2 by lia. exact H2.
Qed.

Lemma inplace_safe_spec w r t :
  nth_error (trajs w) r = Some t -> inplace_safe w r = true ->
  forall i o, nth_error (trajs w) i = Some o -> i = r \/ overlap (xb t) (xp t) (xb o) (xp o) = false \/ tr o = None.
Proof.
  intros Hr H i o Hi. unfold inplace_safe in H. rewrite Hr in H. rewrite forallb_forall in H.
  specialize (H (i, o)). cbn beta iota in H.
  assert (Hin : In (i, o) (combine (seq 0 (length (trajs w))) (trajs w))).
  { apply In_combine_seq. split; [lia|]. now rewrite Nat.sub_0_r. }
  specialize (H Hin). apply orb_true_iff in H. destruct H as [H|H].
  - apply orb_true_iff in H. destruct H as [H|H].
    + left. apply Nat.eqb_eq. exact H.
    + right; left. destruct (overlap _ _ _ _); auto; discriminate.
  - right; right. destruct (tr o); auto; discriminate.
Qed.

(* an in-place write through register r, followed by re-binding r, keeps every other cache valid
   when the guard holds *)
Lemma cinv_inplace w r t vs w2 t'' :
  wf w -> cinv w -> nth_error (trajs w) r = Some t -> inplace_safe w r = true ->
  hx w2 = hx (write_x w (xb t) (xp t) vs) -> trajs w2 = set_nth r t'' (trajs w) ->
  cache_ok w2 t'' = true -> cinv w2.
Proof.
  intros Hw Hc Hr Hs Hh Ht Hn. unfold cinv. rewrite Forall_forall. intros t0 Hin.
  apply In_nth_error in Hin. destruct Hin as [i Hi]. rewrite Ht in Hi.
  destruct (Nat.eq_dec r i) as [->|Hne].
  - rewrite nth_error_set_nth_same in Hi by (apply nth_error_Some; congruence). inversion Hi; subst. exact Hn.
  - rewrite nth_error_set_nth_other in Hi by exact Hne.
    destruct (inplace_safe_spec _ _ _ Hr Hs i t0 Hi) as [E|[E|E]]; [congruence| |apply cache_ok_none; exact E].
    assert (F : frames w2 t0 = frames w t0).
    { transitivity (frames (write_x w (xb t) (xp t) vs) t0).
      - unfold frames, buf_of. now rewrite Hh.
      - apply frames_write_disjoint. exact E. }
    rewrite (cache_ok_ext w w2 t0 F). eapply cinv_lookup; eauto.
Qed.

(* The guard of the cache theorem.  An in-place coordinate change (center_coordinates, superpose) must not be
   visible through another register that holds a cache; and superpose is only considered on a register whose
   topology and coordinates agree on the number of atoms (otherwise the xyz setter raises AFTER the in-place
   write and the register keeps its cache; such registers only arise from atom_slice(inplace=True) with
   repeated or negative indices). *)
Definition top_consistent (w : world) (r : nat) : bool :=
  match nth_error (trajs w) r with Some t => Nat.eqb (length (kinds t)) (na t) | None => true end.
Definition inplace_guard (w : world) (o : op) : bool :=
  match o with
  | OCenter r _ => inplace_safe w r
  | OSuperpose r _ _ => inplace_safe w r && top_consistent w r
  | _ => true
  end.

Lemma slice_cache_fix (v : variant) (w w' : world) (k : key) t t' xi xs :
  cache_ok w t = true ->
  key_positions (nframes t) k = inr (xi, xs) ->
  frames w' t' = sel dfr (frames w t) xi ->
  slice_indexes_traces v = true -> traces_sliced v k w (tr t) (tr t') ->
  cache_ok w' t' = true.
Proof.
  intros Hc Kx Hf Hs Ht. unfold traces_sliced in Ht. destruct (tr t) as [c|] eqn:Etr.
  - rewrite Hs in Ht.
    destruct (cache_ok_inv _ _ _ Etr Hc) as [Hv Hcen].
    assert (Hl : length (a_val c) = nframes t) by (rewrite Hv; apply length_frames).
    rewrite Hl, Kx in Ht. destruct Ht as [c' [E1 [E2 _]]].
    apply (cache_ok_self w' t' c' (sel dfr (frames w t) xi) E1).
    + rewrite E2, Hv. reflexivity.
    + exact Hf.
    + apply Forall_sel; auto. pose proof (key_positions_lt _ _ _ _ Kx) as Hlt.
      rewrite length_frames. exact Hlt.
  - apply cache_ok_none. exact Ht.
Qed.

Ltac upd_tac :=
  match goal with
  | Hwf : wf ?w, Hc : cinv ?w |- cinv (put _ ?r ?t2) => apply (cinv_of_upd w _ r t2 Hwf Hc)
  end.

Lemma Forall_removelast {A} (P : A -> Prop) l : Forall P l -> Forall P (removelast l).
Proof.
  induction l as [|x r IH]; intros H; cbn; [constructor|]. inversion H; subst.
  destruct r; [constructor|]. constructor; auto.
Qed.

Lemma Forall_jparts {A} (P : A -> Prop) plan (ls : list (list A)) :
  (forall l, In l ls -> Forall P l) -> Forall P (jparts plan ls).
Proof.
  unfold jparts. revert ls; induction plan as [|d pr IH]; intros [|l lr] H; cbn; try constructor.
  apply Forall_app. split.
  - destruct d; cbn; [apply Forall_removelast|]; apply H; left; reflexivity.
  - apply IH. intros l0 Hin. apply H. right. exact Hin.
Qed.

(* a joined trajectory that inherits the operands' caches (after the trimming) has a consistent cache *)
Lemma join_cache_ok v w t others dis w' t' plan :
  slice_indexes_traces v = true -> (forall o, In o (t :: others) -> cache_ok w o = true) ->
  join_facts v w t others dis w' t' plan -> cache_ok w' t' = true.
Proof.
  intros Hs Hall [F1 [_ [_ [F4 [_ [_ [_ [_ [Htr _]]]]]]]]].
  unfold join_traces in Htr.
  destruct (join_keeps_traces v && forallb (fun o => match tr o with Some _ => true | None => false end) (t :: others)) eqn:E;
    [|apply cache_ok_none; exact Htr].
  rewrite F1 in Htr. destruct Htr as [c [Hc Hv]].
  apply andb_true_iff in E. destruct E as [_ Ehas]. rewrite forallb_forall in Ehas.
  assert (Hp : map (fun d => d && slice_indexes_traces v) plan = plan).
  { rewrite Hs. rewrite <- (map_id plan) at 2. apply map_ext. intros d. apply andb_true_r. }
  assert (Hm : map (fun o => oval (tr o)) (t :: others) = map (frames w) (t :: others)).
  { apply map_ext_in. intros o Hin. specialize (Ehas o Hin). specialize (Hall o Hin).
    destruct (tr o) as [co|] eqn:Eo; [|discriminate]. cbn [oval]. exact (proj1 (cache_ok_inv _ _ _ Eo Hall)). }
  rewrite Hp, Hm in Hv.
  apply (cache_ok_self w' t' c (jparts plan (map (frames w) (t :: others))) Hc Hv F4).
  apply Forall_jparts. intros l Hin. apply in_map_iff in Hin. destruct Hin as [o [<- Hin]].
  specialize (Ehas o Hin). specialize (Hall o Hin).
  destruct (tr o) as [co|] eqn:Eo; [|discriminate]. exact (proj2 (cache_ok_inv _ _ _ Eo Hall)).
Qed.

(* the pairwise reduction of md.join keeps the cache invariant at every intermediate step *)
Lemma mdjoin_reduce_cache v w0 : forall rest w acc dis w',
  slice_indexes_traces v = true -> hext w0 w -> cache_ok w acc = true ->
  (forall o, In o rest -> cache_ok w0 o = true /\ xb o < length (hx w0)) ->
  mdjoin_reduce v w0 w acc rest dis = (w', ROk) ->
  exists t', trajs w' = trajs w0 ++ [t'] /\ cache_ok w' t' = true.
Proof.
  induction rest as [|o rest IH]; intros w acc dis w' Hs He Hc Hall H; cbn [mdjoin_reduce] in H.
  - inversion H; subst w'; clear H. exists acc. split; [reflexivity|]. unfold cache_ok, frames, buf_of in *. exact Hc.
  - destruct (join_pair v w acc o dis) as [w1 [|e1]] eqn:J; [|discriminate].
    destruct (join_pair_ok _ _ _ _ _ _ J) as [nt [plan JF]].
    pose proof JF as [F1 [F2 [F3 _]]].
    rewrite F2, nth_error_app_last in H.
    apply (IH w1 nt dis w' Hs (hext_trans _ _ _ He F3)); auto.
    + eapply (join_cache_ok v w acc [o] dis w1 nt plan); eauto.
      intros o0 [<-|[<-|[]]]; [exact Hc|].
      destruct (Hall o (or_introl eq_refl)) as [Hco Hxo].
      rewrite (cache_ok_ext w0 w o); [exact Hco|]. apply hext_frames; auto.
    + intros o0 Hin. apply Hall. right. exact Hin.
Qed.

Lemma step_cinv v w o w' r :
  slice_indexes_traces v = true -> aslice_inplace_resets v = true ->
  wf w -> cinv w -> inplace_guard w o = true -> step v w o = (w', r) -> cinv w'.
Proof.
  intros Hs1 Hs2 Hwf Hc Hg H. destruct o; cbn [step] in H.
  - (* slice *) destruct r as [|e]; [|apply slice_err in H; subst; auto].
    destruct (nth_error (trajs w) r0) as [t|] eqn:Hr; [|unfold do_slice in H; rewrite Hr in H; discriminate].
    destruct (slice_ok _ _ _ _ _ _ _ Hwf Hr H) as [t' [xi [xs [Kx [Ht [He [Hf [_ [_ [_ [_ [_ [_ [_ [Htr _]]]]]]]]]]]]]]].
    eapply cinv_of_new; eauto. eapply slice_cache_fix; eauto. eapply cinv_lookup; eauto.
  - (* join *) destruct r as [|e]; [|apply join_err in H; subst; auto].
    fold (step v w (OJoin r0 others check_top dis)) in H.
    destruct (join_step_full _ _ _ _ _ _ _ H) as [t [os [t' [plan [Hr [Ho JF]]]]]].
    pose proof JF as [_ [Ht [He _]]].
    eapply cinv_of_new; eauto. eapply join_cache_ok; eauto.
    intros o Hin. unfold cinv in Hc. rewrite Forall_forall in Hc. apply Hc.
    destruct Hin as [<-|Hin]; [eapply nth_error_In; eauto|eapply get_all_In; eauto].
  - (* md.join *) destruct r as [|e]; [|apply mdjoin_err in H; subst; auto].
    pose proof H as H0. fold (step v w (OMdJoin rs dis)) in H0.
    destruct (mdjoin_step_full _ _ _ _ _ H0) as [t [o [rest [t' [Ho [Ht [He _]]]]]]].
    unfold do_mdjoin in H. rewrite Ho in H.
    assert (Hin : forall x, In x (t :: o :: rest) -> cache_ok w x = true /\ xb x < length (hx w)).
    { intros x Hx. pose proof (get_all_In _ _ _ Ho x Hx) as Hxin. split.
      - unfold cinv in Hc. rewrite Forall_forall in Hc. auto.
      - unfold wf in Hwf. rewrite Forall_forall in Hwf. destruct (Hwf x Hxin) as [[? _] _]. auto. }
    destruct (mdjoin_reduce_cache v w (o :: rest) w t dis w' Hs1 (hext_refl w) (proj1 (Hin t (or_introl eq_refl)))) as [t2 [Ht2 Hc2]]; auto.
    { intros x Hx. apply Hin. right. exact Hx. }
    rewrite Ht in Ht2. apply app_inj_tail in Ht2. destruct Ht2 as [_ <-].
    eapply cinv_of_new; eauto.
  - (* stack *) destruct r as [|e]; [|apply stack_err in H; subst; auto].
    destruct (nth_error (trajs w) r0) as [t|] eqn:Hr; [|unfold do_stack in H; rewrite Hr in H; discriminate].
    destruct (nth_error (trajs w) r') as [o|] eqn:Hr'; [|unfold do_stack in H; rewrite Hr, Hr' in H; discriminate].
    destruct (stack_ok _ _ _ _ _ _ Hwf Hr Hr' H) as [t' [Ht [He [_ [_ [_ [_ [_ [_ [Htr _]]]]]]]]]].
    eapply cinv_of_new; eauto. apply cache_ok_none; auto.
  - (* atom_slice *) destruct r as [|e]; [|apply atom_slice_err in H; subst; auto].
    destruct (nth_error (trajs w) r0) as [t|] eqn:Hr; [|unfold do_atom_slice in H; rewrite Hr in H; discriminate].
    destruct inplace.
    + destruct (atom_slice_inplace_ok _ _ _ _ _ _ Hwf Hr H) as [t' [ni [_ [Ht [He [_ [_ [_ [_ [_ [_ [Htr _]]]]]]]]]]]].
      rewrite Hs2 in Htr. eapply cinv_of_upd; eauto. apply cache_ok_none; auto.
    + destruct (atom_slice_new_ok _ _ _ _ _ _ Hwf Hr H) as [t' [ni [_ [Ht [He [_ [_ [_ [_ [_ [Htr _]]]]]]]]]]].
      eapply cinv_of_new; eauto. apply cache_ok_none; auto.
  - (* remove_solvent *) destruct r as [|e]; [|apply remove_solvent_err in H; subst; auto].
    unfold do_remove_solvent in H.
    destruct (nth_error (trajs w) r0) as [t|] eqn:Hr; [|discriminate].
    destruct inplace.
    + destruct (atom_slice_inplace_ok _ _ _ _ _ _ Hwf Hr H) as [t' [ni [_ [Ht [He [_ [_ [_ [_ [_ [_ [Htr _]]]]]]]]]]]].
      rewrite Hs2 in Htr. eapply cinv_of_upd; eauto. apply cache_ok_none; auto.
    + destruct (atom_slice_new_ok _ _ _ _ _ _ Hwf Hr H) as [t' [ni [_ [Ht [He [_ [_ [_ [_ [_ [Htr _]]]]]]]]]]].
      eapply cinv_of_new; eauto. apply cache_ok_none; auto.
  - (* center *) destruct r as [|e]; [|apply center_err in H; subst; auto].
    cbn [inplace_guard] in Hg.
    unfold do_center in H. destruct (nth_error (trajs w) r0) as [t|] eqn:Hr; [|discriminate].
    destruct (wf_lookup _ _ _ Hwf Hr) as [Hwt _].
    destruct mass_weighted.
    + destruct (Nat.eqb (length (kinds t)) (na t)); cbn [negb] in H; [|discriminate]. inversion H; subst.
      apply (cinv_inplace w r0 t (map (CenM (kinds t)) (frames w t)) _ (set_tr t None) Hwf Hc Hr Hg);
        [reflexivity|reflexivity|apply cache_ok_none; reflexivity].
    + destruct (Nat.eqb (nframes t) 0); [discriminate|].
      destruct (new_arr (write_x w (xb t) (xp t) (map cen (frames w t))) (map cen (frames w t))) as [w2 c] eqn:N.
      inversion H; subst. apply new_arr_spec in N. destruct N as [N1 [N2 [N3 [N4 [N5 [N6 N7]]]]]].
      apply (cinv_inplace w r0 t (map cen (frames w t)) _ (set_tr t (Some c)) Hwf Hc Hr Hg);
        [cbn [hx put]; exact N6|cbn [trajs put]; rewrite (ext_trajs _ _ N1); reflexivity|].
      eapply cache_ok_self; [reflexivity|exact N4| |apply Forall_is_cen_map_cen].
      unfold frames, buf_of. cbn [hx put xb xp set_tr]. rewrite N6.
      apply (frames_write_same w t); auto. rewrite map_length. apply length_frames.
  - (* superpose *) cbn [inplace_guard] in Hg. apply andb_true_iff in Hg. destruct Hg as [Hg Hcons].
    unfold do_superpose in H.
    destruct (nth_error (trajs w) r0) as [t|] eqn:Hr; [|inversion H; subst; auto].
    destruct (nth_error (trajs w) ref) as [q|] eqn:Hq; [|inversion H; subst; auto].
    destruct (norm_index (nframes q) frame); [|inversion H; subst; auto].
    destruct (wf_lookup _ _ _ Hwf Hr) as [Hwt _].
    unfold top_consistent in Hcons. rewrite Hr in Hcons.
    assert (Hself : cinv (write_x w (xb t) (xp t) (map cen (frames w t)))).
    { (* register r keeps its record; its cache stays valid because centred frames are rewritten unchanged *)
      unfold cinv. rewrite Forall_forall. intros t0 Hin. cbn [trajs write_x] in Hin.
      apply In_nth_error in Hin. destruct Hin as [i Hi].
      destruct (inplace_safe_spec _ _ _ Hr Hg i t0 Hi) as [E|[E|E]].
      - subst i. rewrite Hr in Hi. inversion Hi; subst t0.
        pose proof (cinv_lookup _ _ _ Hc Hr) as Hct. unfold cache_ok in *. destruct (tr t) as [c|] eqn:Etr; auto.
        rewrite (frames_write_same w t (map cen (frames w t)) Hwt) by (rewrite map_length; apply length_frames).
        apply cache_match_iff in Hct. destruct Hct as [Hv Hcen].
        assert (Hm : map cen (frames w t) = frames w t).
        { clear -Hcen. induction Hcen as [|x l Hx Hl IH]; cbn; [reflexivity|]. now rewrite IH, (cen_fix x Hx). }
        rewrite Hm. apply cache_match_iff. auto.
      - rewrite (cache_ok_ext w _ t0); [eapply cinv_lookup; eauto|]. apply frames_write_disjoint. exact E.
      - apply cache_ok_none. exact E. }
    destruct (Nat.eqb (na t) (na q)); cbn [negb] in H.
    + rewrite Hcons in H. cbn [negb] in H. inversion H; subst.
      match goal with |- cinv (put (write_x _ _ _ ?vs) _ ?t2) =>
        apply (cinv_inplace w r0 t vs _ t2 Hwf Hc Hr Hg); [reflexivity|reflexivity|apply cache_ok_none; reflexivity] end.
    + inversion H; subst. exact Hself.
  - (* xyz = new array *) unfold do_set_xyz_new in H.
    destruct (nth_error (trajs w) r0) as [t|] eqn:Hr; [|inversion H; subst; auto].
    destruct (Nat.eqb (length (kinds t)) natoms); cbn [negb] in H; [|inversion H; subst; auto].
    destruct (fresh_src w) as [w1 s] eqn:S. destruct (alloc_x w1 _) as [w2 b] eqn:A. inversion H; subst.
    apply fresh_src_spec in S. destruct S as [S1 _]. apply alloc_x_spec in A. destruct A as [A1 _].
    assert (E : ext w w2) by (eapply ext_trans; eauto).
    upd_tac.
    + cbn [trajs put]. rewrite (ext_trajs _ _ E). reflexivity.
    + eapply hext_trans; [apply ext_hext; exact E|apply hext_put].
    + apply cache_ok_none. reflexivity.
  - (* xyz = other's array *) unfold do_set_xyz_share in H.
    destruct (nth_error (trajs w) r0) as [t|] eqn:Hr; [|inversion H; subst; auto].
    destruct (nth_error (trajs w) r') as [o|] eqn:Hr'; [|inversion H; subst; auto].
    destruct (Nat.eqb (length (kinds t)) (na o)); cbn [negb] in H; inversion H; subst; auto.
    upd_tac; [reflexivity|apply hext_put|apply cache_ok_none; reflexivity].
  - (* time = new array *) unfold do_set_time_new in H.
    destruct (nth_error (trajs w) r0) as [t|] eqn:Hr; [|inversion H; subst; auto].
    destruct (Nat.eqb m (nframes t)); cbn [negb] in H; [|inversion H; subst; auto].
    destruct (fresh_src w) as [w1 s] eqn:S. destruct (new_arr w1 _) as [w2 a] eqn:A. inversion H; subst.
    apply fresh_src_spec in S. destruct S as [S1 [S2 _]]. apply new_arr_spec in A. destruct A as [A1 [_ [_ [_ [_ [A6 _]]]]]].
    assert (E : ext w w2) by (eapply ext_trans; eauto).
    upd_tac.
    + cbn [trajs put]. rewrite (ext_trajs _ _ E). reflexivity.
    + eapply hext_trans; [apply ext_hext; exact E|apply hext_put].
    + pose proof (cinv_lookup _ _ _ Hc Hr) as Hct. unfold cache_ok, frames, buf_of in *. cbn [hx put set_tm xb xp tr].
      rewrite A6, S2. exact Hct.
  - (* time = other's array *) unfold do_set_time_share in H.
    destruct (nth_error (trajs w) r0) as [t|] eqn:Hr; [|inversion H; subst; auto].
    destruct (nth_error (trajs w) r') as [o|] eqn:Hr'; [|inversion H; subst; auto].
    destruct (Nat.eqb (length (a_val (tm o))) (nframes t)); cbn [negb] in H; inversion H; subst; auto.
    upd_tac; [reflexivity|apply hext_put|].
    pose proof (cinv_lookup _ _ _ Hc Hr) as Hct. exact Hct.
  - (* unitcell_lengths = *) unfold do_set_cell_part in H.
    destruct (nth_error (trajs w) r0) as [t|] eqn:Hr; [|inversion H; subst; auto].
    pose proof (cinv_lookup _ _ _ Hc Hr) as Hct.
    destruct m as [m|].
    + destruct (Nat.eqb m (nframes t)); cbn [negb] in H; [|inversion H; subst; auto].
      destruct (fresh_src w) as [w1 s] eqn:S. destruct (new_arr w1 _) as [w2 a] eqn:A. inversion H; subst.
      apply fresh_src_spec in S. destruct S as [S1 [S2 _]]. apply new_arr_spec in A. destruct A as [A1 [_ [_ [_ [_ [A6 _]]]]]].
      assert (E : ext w w2) by (eapply ext_trans; eauto).
      upd_tac.
      * cbn [trajs put]. rewrite (ext_trajs _ _ E). reflexivity.
      * eapply hext_trans; [apply ext_hext; exact E|apply hext_put].
      * unfold cache_ok, frames, buf_of in *. cbn [hx put set_cell xb xp tr]. rewrite A6, S2. exact Hct.
    + inversion H; subst. upd_tac; [reflexivity|apply hext_put|exact Hct].
  - (* unitcell_angles = *) unfold do_set_cell_part in H.
    destruct (nth_error (trajs w) r0) as [t|] eqn:Hr; [|inversion H; subst; auto].
    pose proof (cinv_lookup _ _ _ Hc Hr) as Hct.
    destruct m as [m|].
    + destruct (Nat.eqb m (nframes t)); cbn [negb] in H; [|inversion H; subst; auto].
      destruct (fresh_src w) as [w1 s] eqn:S. destruct (new_arr w1 _) as [w2 a] eqn:A. inversion H; subst.
      apply fresh_src_spec in S. destruct S as [S1 [S2 _]]. apply new_arr_spec in A. destruct A as [A1 [_ [_ [_ [_ [A6 _]]]]]].
      assert (E : ext w w2) by (eapply ext_trans; eauto).
      upd_tac.
      * cbn [trajs put]. rewrite (ext_trajs _ _ E). reflexivity.
      * eapply hext_trans; [apply ext_hext; exact E|apply hext_put].
      * unfold cache_ok, frames, buf_of in *. cbn [hx put set_cell xb xp tr]. rewrite A6, S2. exact Hct.
    + inversion H; subst. upd_tac; [reflexivity|apply hext_put|exact Hct].
  - (* unitcell_vectors = *) unfold do_set_vectors in H.
    destruct (nth_error (trajs w) r0) as [t|] eqn:Hr; [|inversion H; subst; auto].
    pose proof (cinv_lookup _ _ _ Hc Hr) as Hct.
    assert (Hdrop : cinv (put w r0 (set_cell t None None))).
    { upd_tac; [reflexivity|apply hext_put|exact Hct]. }
    destruct m as [m|]; [|inversion H; subst; exact Hdrop].
    destruct (allzero || Nat.eqb m 0); [inversion H; subst; exact Hdrop|].
    destruct (Nat.eqb m (nframes t)); cbn [negb] in H; [|inversion H; subst; auto].
    destruct (fresh_src w) as [w1 s] eqn:S. destruct (new_arr w1 _) as [w2 l] eqn:A.
    destruct (new_arr w2 _) as [w3 a] eqn:B. inversion H; subst.
    apply fresh_src_spec in S. destruct S as [S1 [S2 _]]. apply new_arr_spec in A. destruct A as [A1 [_ [_ [_ [_ [A6 _]]]]]].
    apply new_arr_spec in B. destruct B as [B1 [_ [_ [_ [_ [B6 _]]]]]].
    assert (E : ext w w3) by (eapply ext_trans; [exact S1|eapply ext_trans; eauto]).
    upd_tac.
    + cbn [trajs put]. rewrite (ext_trajs _ _ E). reflexivity.
    + eapply hext_trans; [apply ext_hext; exact E|apply hext_put].
    + unfold cache_ok, frames, buf_of in *. cbn [hx put set_cell xb xp tr]. rewrite B6, A6, S2. exact Hct.
  - (* reading the cell *) destruct (nth_error (trajs w) r0); inversion H; subst; auto.
Qed.

Lemma init_cinv sps : cinv (init_world sps).
Proof.
  unfold init_world. assert (H : wf empty_world /\ cinv empty_world) by (split; constructor).
  revert H. generalize empty_world. induction sps as [|sp rest IH]; intros w [Hw Hc]; cbn; auto.
  apply IH. split; [apply load_wf; exact Hw|].
  destruct sp as [[[n chs] cell] etime]. unfold load.
  destruct (fresh_src w) as [w1 s] eqn:S. destruct (alloc_x w1 _) as [w2 b] eqn:A.
  destruct (fresh_top w2) as [w3 tl] eqn:T. destruct (new_arr w3 _) as [w4 tm'] eqn:N4.
  lazymatch goal with |- cinv (let '(_, _) := ?e in _) => destruct e as [w5 l] eqn:N5 end.
  lazymatch goal with |- cinv (let '(_, _) := ?e in _) => destruct e as [w6 a] eqn:N6 end.
  assert (E : hext w w6 /\ trajs w6 = trajs w).
  { apply fresh_src_spec in S. destruct S as [S1 _]. apply alloc_x_spec in A. destruct A as [A1 _].
    apply fresh_top_spec in T. destruct T as [P1 _]. apply new_arr_spec in N4. destruct N4 as [B1 _].
    assert (E5 : ext w4 w5).
    { destruct cell; [destruct (new_arr w4 _) as [wa c] eqn:Nc; inversion N5; subst; apply new_arr_spec in Nc; tauto|
                      inversion N5; subst; apply ext_refl]. }
    assert (E6 : ext w5 w6).
    { destruct cell; [destruct (new_arr w5 _) as [wa c] eqn:Nc; inversion N6; subst; apply new_arr_spec in Nc; tauto|
                      inversion N6; subst; apply ext_refl]. }
    assert (Eall : ext w w6).
    { eapply ext_trans; [exact S1|]. eapply ext_trans; [exact A1|]. eapply ext_trans; [exact P1|].
      eapply ext_trans; [exact B1|]. eapply ext_trans; eauto. }
    split; [apply ext_hext; exact Eall|apply ext_trajs; exact Eall]. }
  destruct E as [E1 E2].
  match goal with |- cinv (push ?w6 ?t') => apply (cinv_of_new w (push w6 t') t' Hw Hc) end.
  - cbn [trajs push]. rewrite E2. reflexivity.
  - eapply hext_trans; [exact E1|apply hext_push].
  - apply cache_ok_none. reflexivity.
Qed.

(* guarded runs: the guard is evaluated in the state each operation meets *)
Fixpoint guarded (g : world -> op -> bool) (v : variant) (w : world) (ops : list op) : bool :=
  match ops with
  | [] => true
  | o :: rest => g w o && guarded g v (fst (step v w o)) rest
  end.

Lemma run_cinv_gen v ops : slice_indexes_traces v = true -> aslice_inplace_resets v = true ->
  forall w, wf w -> cinv w -> guarded inplace_guard v w ops = true -> cinv (fst (run v w ops)).
Proof.
  intros Hs1 Hs2.
  induction ops as [|o rest IH]; intros w Hw Hc Hg; cbn [run]; [exact Hc|].
  cbn [guarded] in Hg. apply andb_true_iff in Hg. destruct Hg as [G1 G2].
  destruct (step v w o) as [w1 x] eqn:S. cbn [fst] in G2.
  specialize (IH w1 (step_wf _ _ _ _ _ Hw S) (step_cinv _ _ _ _ _ Hs1 Hs2 Hw Hc G1 S) G2).
  destruct (run v w1 rest) as [w2 xs]. exact IH.
Qed.

Lemma run_cinv ops : forall w, wf w -> cinv w -> guarded inplace_guard v_fix w ops = true ->
  cinv (fst (run v_fix w ops)).
Proof. exact (run_cinv_gen v_fix ops eq_refl eq_refl). Qed.

(* ------------------------------------------------------------------ equal lengths of all per-frame fields *)
Definition lens (w : world) : Prop := Forall (fun t => lengths_ok t = true) (trajs w).

(* assigning xyz is the one operation of the alphabet that does not check the number of frames:
   the length theorem is about histories whose xyz assignments keep it *)
Definition xyz_guard (w : world) (o : op) : bool :=
  match o with
  | OSetXyzNew r m _ => match nth_error (trajs w) r with Some t => Nat.eqb m (nframes t) | None => true end
  | OSetXyzShare r r' => match nth_error (trajs w) r, nth_error (trajs w) r' with
                         | Some t, Some o => Nat.eqb (nframes o) (nframes t) | _, _ => true end
  | _ => true
  end.

Lemma lens_of_new w w' t' : lens w -> trajs w' = trajs w ++ [t'] -> lengths_ok t' = true -> lens w'.
Proof. intros Hl Ht Hn. unfold lens. rewrite Ht. apply Forall_app. split; [exact Hl|constructor; auto]. Qed.

Lemma lens_of_upd w w' r t' : lens w -> trajs w' = set_nth r t' (trajs w) -> lengths_ok t' = true -> lens w'.
Proof.
  intros Hl Ht Hn. unfold lens in *. rewrite Ht. rewrite Forall_forall in *. intros t0 Hin.
  apply In_set_nth in Hin. destruct Hin as [->|Hin]; auto.
Qed.

Lemma lens_lookup w r t : lens w -> nth_error (trajs w) r = Some t -> lengths_ok t = true.
Proof. intros Hc Hr. unfold lens in Hc. rewrite Forall_forall in Hc. apply Hc. eapply nth_error_In; eauto. Qed.

Lemma lengths_ok_same t t' :
  nframes t' = nframes t -> tm t' = tm t -> ul t' = ul t -> ua t' = ua t -> lengths_ok t' = lengths_ok t.
Proof. intros H1 H2 H3 H4. unfold lengths_ok. now rewrite H1, H2, H3, H4. Qed.

Lemma step_lens v w o w' r :
  wf w -> lens w -> xyz_guard w o = true -> step v w o = (w', r) -> lens w'.
Proof.
  intros Hwf Hl Hg H. destruct o; cbn [step] in H.
  - destruct r as [|e]; [|apply slice_err in H; subst; auto].
    destruct (nth_error (trajs w) r0) as [t|] eqn:Hr; [|unfold do_slice in H; rewrite Hr in H; discriminate].
    destruct (slice_ok _ _ _ _ _ _ _ Hwf Hr H) as [t' [xi [xs [_ [Ht [_ [_ [_ [_ [_ [_ [_ [Hlen _]]]]]]]]]]]]].
    eapply lens_of_new; eauto.
  - destruct r as [|e]; [|apply join_err in H; subst; auto].
    join_facts_tac H.
    eapply lens_of_new; eauto.
  - destruct r as [|e]; [|apply mdjoin_err in H; subst; auto].
    join_facts_tac H.
    eapply lens_of_new; eauto.
  - destruct r as [|e]; [|apply stack_err in H; subst; auto].
    destruct (nth_error (trajs w) r0) as [t|] eqn:Hr; [|unfold do_stack in H; rewrite Hr in H; discriminate].
    destruct (nth_error (trajs w) r') as [o|] eqn:Hr'; [|unfold do_stack in H; rewrite Hr, Hr' in H; discriminate].
    destruct (stack_ok _ _ _ _ _ _ Hwf Hr Hr' H) as [t' [Ht [_ [_ [_ [_ [_ [_ [_ [_ [Hlen _]]]]]]]]]]].
    eapply lens_of_new; eauto.
  - destruct r as [|e]; [|apply atom_slice_err in H; subst; auto].
    destruct (nth_error (trajs w) r0) as [t|] eqn:Hr; [|unfold do_atom_slice in H; rewrite Hr in H; discriminate].
    destruct inplace.
    + destruct (atom_slice_inplace_ok _ _ _ _ _ _ Hwf Hr H) as [t' [ni [_ [Ht [_ [_ [E1 [E2 [E3 [_ [_ [_ [E4 _]]]]]]]]]]]]].
      eapply lens_of_upd; eauto. rewrite (lengths_ok_same t t'); auto. eapply lens_lookup; eauto.
    + destruct (atom_slice_new_ok _ _ _ _ _ _ Hwf Hr H) as [t' [ni [_ [Ht [_ [_ [_ [_ [_ [_ [_ [Hlen _]]]]]]]]]]]].
      eapply lens_of_new; eauto.
  - destruct r as [|e]; [|apply remove_solvent_err in H; subst; auto].
    unfold do_remove_solvent in H.
    destruct (nth_error (trajs w) r0) as [t|] eqn:Hr; [|discriminate].
    destruct inplace.
    + destruct (atom_slice_inplace_ok _ _ _ _ _ _ Hwf Hr H) as [t' [ni [_ [Ht [_ [_ [E1 [E2 [E3 [_ [_ [_ [E4 _]]]]]]]]]]]]].
      eapply lens_of_upd; eauto. rewrite (lengths_ok_same t t'); auto. eapply lens_lookup; eauto.
    + destruct (atom_slice_new_ok _ _ _ _ _ _ Hwf Hr H) as [t' [ni [_ [Ht [_ [_ [_ [_ [_ [_ [_ [Hlen _]]]]]]]]]]]].
      eapply lens_of_new; eauto.
  - destruct r as [|e]; [|apply center_err in H; subst; auto].
    unfold do_center in H. destruct (nth_error (trajs w) r0) as [t|] eqn:Hr; [|discriminate].
    pose proof (lens_lookup _ _ _ Hl Hr) as Hlt.
    destruct mass_weighted.
    + destruct (Nat.eqb (length (kinds t)) (na t)); cbn [negb] in H; [|discriminate]. inversion H; subst.
      apply (lens_of_upd w _ r0 (set_tr t None)); auto.
    + destruct (Nat.eqb (nframes t) 0); [discriminate|].
      destruct (new_arr _ _) as [w2 c] eqn:N. inversion H; subst. apply new_arr_spec in N. destruct N as [N1 _].
      apply (lens_of_upd w _ r0 (set_tr t (Some c))); auto. cbn [trajs put]. rewrite (ext_trajs _ _ N1). reflexivity.
  - unfold do_superpose in H.
    destruct (nth_error (trajs w) r0) as [t|] eqn:Hr; [|inversion H; subst; auto].
    destruct (nth_error (trajs w) ref) as [q|] eqn:Hq; [|inversion H; subst; auto].
    destruct (norm_index (nframes q) frame); [|inversion H; subst; auto].
    pose proof (lens_lookup _ _ _ Hl Hr) as Hlt.
    destruct (Nat.eqb (na t) (na q)); cbn [negb] in H; [|inversion H; subst; exact Hl].
    destruct (Nat.eqb (length (kinds t)) (na t)); cbn [negb] in H; [|inversion H; subst; exact Hl].
    inversion H; subst. apply (lens_of_upd w _ r0 (set_tr t None)); auto.
  - cbn [xyz_guard] in Hg. unfold do_set_xyz_new in H.
    destruct (nth_error (trajs w) r0) as [t|] eqn:Hr; [|inversion H; subst; auto].
    destruct (Nat.eqb (length (kinds t)) natoms); cbn [negb] in H; [|inversion H; subst; auto].
    destruct (fresh_src w) as [w1 s] eqn:S. destruct (alloc_x w1 _) as [w2 b] eqn:A. inversion H; subst.
    apply fresh_src_spec in S. destruct S as [S1 _]. apply alloc_x_spec in A. destruct A as [A1 _].
    apply (lens_of_upd w _ r0 (set_x t b (seq 0 m) natoms)); auto.
    + cbn [trajs put]. rewrite (ext_trajs _ _ (ext_trans _ _ _ S1 A1)). reflexivity.
    + apply Nat.eqb_eq in Hg. rewrite (lengths_ok_same t); auto; [eapply lens_lookup; eauto|].
      unfold nframes, set_x. cbn [xp]. rewrite seq_length. exact Hg.
  - cbn [xyz_guard] in Hg. unfold do_set_xyz_share in H.
    destruct (nth_error (trajs w) r0) as [t|] eqn:Hr; [|inversion H; subst; auto].
    destruct (nth_error (trajs w) r') as [o|] eqn:Hr'; [|inversion H; subst; auto].
    destruct (Nat.eqb (length (kinds t)) (na o)); cbn [negb] in H; inversion H; subst; auto.
    apply (lens_of_upd w _ r0 (set_x t (xb o) (xp o) (na o))); auto.
    apply Nat.eqb_eq in Hg. rewrite (lengths_ok_same t); auto. eapply lens_lookup; eauto.
  - unfold do_set_time_new in H.
    destruct (nth_error (trajs w) r0) as [t|] eqn:Hr; [|inversion H; subst; auto].
    destruct (Nat.eqb m (nframes t)) eqn:Em; cbn [negb] in H; [|inversion H; subst; auto].
    destruct (fresh_src w) as [w1 s] eqn:S. destruct (new_arr w1 _) as [w2 a] eqn:A. inversion H; subst.
    apply fresh_src_spec in S. destruct S as [S1 _]. apply new_arr_spec in A. destruct A as [A1 [_ [_ [A4 _]]]].
    apply (lens_of_upd w _ r0 (set_tm t a)); auto.
    + cbn [trajs put]. rewrite (ext_trajs _ _ (ext_trans _ _ _ S1 A1)). reflexivity.
    + pose proof (lens_lookup _ _ _ Hl Hr) as Hlt. unfold lengths_ok, set_tm, nframes in *. cbn [tm ul ua xp].
      rewrite A4, map_length, seq_length. apply Nat.eqb_eq in Em. rewrite Em, Nat.eqb_refl.
      apply andb_true_iff in Hlt. destruct Hlt as [Hlt H3]. apply andb_true_iff in Hlt. destruct Hlt as [_ H2].
      rewrite H2, H3. reflexivity.
  - unfold do_set_time_share in H.
    destruct (nth_error (trajs w) r0) as [t|] eqn:Hr; [|inversion H; subst; auto].
    destruct (nth_error (trajs w) r') as [o|] eqn:Hr'; [|inversion H; subst; auto].
    destruct (Nat.eqb (length (a_val (tm o))) (nframes t)) eqn:Em; cbn [negb] in H; inversion H; subst; auto.
    apply (lens_of_upd w _ r0 (set_tm t (tm o))); auto.
    pose proof (lens_lookup _ _ _ Hl Hr) as Hlt. unfold lengths_ok, set_tm, nframes in *. cbn [tm ul ua xp].
    rewrite Em. apply andb_true_iff in Hlt. destruct Hlt as [Hlt H3]. apply andb_true_iff in Hlt. destruct Hlt as [_ H2].
    rewrite H2, H3. reflexivity.
  - unfold do_set_cell_part in H.
    destruct (nth_error (trajs w) r0) as [t|] eqn:Hr; [|inversion H; subst; auto].
    pose proof (lens_lookup _ _ _ Hl Hr) as Hlt.
    apply andb_true_iff in Hlt. destruct Hlt as [Hlt H3]. apply andb_true_iff in Hlt. destruct Hlt as [H1 H2].
    destruct m as [m|].
    + destruct (Nat.eqb m (nframes t)) eqn:Em; cbn [negb] in H; [|inversion H; subst; auto].
      destruct (fresh_src w) as [w1 s] eqn:S. destruct (new_arr w1 _) as [w2 a] eqn:A. inversion H; subst.
      apply fresh_src_spec in S. destruct S as [S1 _]. apply new_arr_spec in A. destruct A as [A1 [_ [_ [A4 _]]]].
      apply (lens_of_upd w _ r0 (set_cell t (Some a) (ua t))); auto.
      * cbn [trajs put]. rewrite (ext_trajs _ _ (ext_trans _ _ _ S1 A1)). reflexivity.
      * unfold lengths_ok, set_cell, nframes in *. cbn [tm ul ua xp]. rewrite A4, map_length, seq_length.
        apply Nat.eqb_eq in Em. rewrite Em, Nat.eqb_refl, H1, H3. reflexivity.
    + inversion H; subst. apply (lens_of_upd w _ r0 (set_cell t None (ua t))); auto.
      unfold lengths_ok, set_cell, nframes in *. cbn [tm ul ua xp]. rewrite H1, H3. reflexivity.
  - unfold do_set_cell_part in H.
    destruct (nth_error (trajs w) r0) as [t|] eqn:Hr; [|inversion H; subst; auto].
    pose proof (lens_lookup _ _ _ Hl Hr) as Hlt.
    apply andb_true_iff in Hlt. destruct Hlt as [Hlt H3]. apply andb_true_iff in Hlt. destruct Hlt as [H1 H2].
    destruct m as [m|].
    + destruct (Nat.eqb m (nframes t)) eqn:Em; cbn [negb] in H; [|inversion H; subst; auto].
      destruct (fresh_src w) as [w1 s] eqn:S. destruct (new_arr w1 _) as [w2 a] eqn:A. inversion H; subst.
      apply fresh_src_spec in S. destruct S as [S1 _]. apply new_arr_spec in A. destruct A as [A1 [_ [_ [A4 _]]]].
      apply (lens_of_upd w _ r0 (set_cell t (ul t) (Some a))); auto.
      * cbn [trajs put]. rewrite (ext_trajs _ _ (ext_trans _ _ _ S1 A1)). reflexivity.
      * unfold lengths_ok, set_cell, nframes in *. cbn [tm ul ua xp]. rewrite A4, map_length, seq_length.
        apply Nat.eqb_eq in Em. rewrite Em, Nat.eqb_refl, H1, H2. reflexivity.
    + inversion H; subst. apply (lens_of_upd w _ r0 (set_cell t (ul t) None)); auto.
      unfold lengths_ok, set_cell, nframes in *. cbn [tm ul ua xp]. rewrite H1, H2. reflexivity.
  - unfold do_set_vectors in H.
    destruct (nth_error (trajs w) r0) as [t|] eqn:Hr; [|inversion H; subst; auto].
    pose proof (lens_lookup _ _ _ Hl Hr) as Hlt.
    apply andb_true_iff in Hlt. destruct Hlt as [Hlt H3]. apply andb_true_iff in Hlt. destruct Hlt as [H1 H2].
    assert (Hdrop : lens (put w r0 (set_cell t None None))).
    { apply (lens_of_upd w _ r0 (set_cell t None None)); auto.
      unfold lengths_ok, set_cell, nframes in *. cbn [tm ul ua xp]. rewrite H1. reflexivity. }
    destruct m as [m|]; [|inversion H; subst; exact Hdrop].
    destruct (allzero || Nat.eqb m 0); [inversion H; subst; exact Hdrop|].
    destruct (Nat.eqb m (nframes t)) eqn:Em; cbn [negb] in H; [|inversion H; subst; auto].
    destruct (fresh_src w) as [w1 s] eqn:S. destruct (new_arr w1 _) as [w2 l] eqn:A.
    destruct (new_arr w2 _) as [w3 a] eqn:B. inversion H; subst.
    apply fresh_src_spec in S. destruct S as [S1 _]. apply new_arr_spec in A. destruct A as [A1 [_ [_ [A4 _]]]].
    apply new_arr_spec in B. destruct B as [B1 [_ [_ [B4 _]]]].
    match goal with |- lens (put _ _ ?t2) => apply (lens_of_upd w _ r0 t2); auto end.
    + cbn [trajs put]. rewrite (ext_trajs _ _ (ext_trans _ _ _ S1 (ext_trans _ _ _ A1 B1))). reflexivity.
    + unfold lengths_ok, set_cell, nframes in *. cbn [tm ul ua xp a_val]. rewrite A4, B4, !map_length, !seq_length.
      apply Nat.eqb_eq in Em. rewrite Em, Nat.eqb_refl, H1. reflexivity.
  - (* reading the cell *) destruct (nth_error (trajs w) r0); inversion H; subst; auto.
Qed.

Lemma run_lens v ops : forall w, wf w -> lens w -> guarded xyz_guard v w ops = true -> lens (fst (run v w ops)).
Proof.
  induction ops as [|o rest IH]; intros w Hw Hc Hg; cbn [run]; [exact Hc|].
  cbn [guarded] in Hg. apply andb_true_iff in Hg. destruct Hg as [G1 G2].
  destruct (step v w o) as [w1 x] eqn:S. cbn [fst] in G2.
  specialize (IH w1 (step_wf _ _ _ _ _ Hw S) (step_lens _ _ _ _ _ Hw Hc G1 S) G2).
  destruct (run v w1 rest) as [w2 xs]. exact IH.
Qed.

Lemma init_lens sps : lens (init_world sps).
Proof.
  unfold init_world. assert (H : lens empty_world) by constructor.
  revert H. generalize empty_world. induction sps as [|sp rest IH]; intros w Hl; cbn; auto.
  apply IH. destruct sp as [[[n chs] cell] etime]. unfold load.
  destruct (fresh_src w) as [w1 s] eqn:S. destruct (alloc_x w1 _) as [w2 b] eqn:A.
  destruct (fresh_top w2) as [w3 tl] eqn:T. destruct (new_arr w3 _) as [w4 tm'] eqn:N4.
  lazymatch goal with |- lens (let '(_, _) := ?e in _) => destruct e as [w5 l] eqn:N5 end.
  lazymatch goal with |- lens (let '(_, _) := ?e in _) => destruct e as [w6 a] eqn:N6 end.
  assert (Ht : trajs w6 = trajs w).
  { unfold fresh_src in S. unfold alloc_x in A. unfold fresh_top in T. unfold new_arr, fresh_buf in *.
    inversion S; subst; clear S. inversion A; subst; clear A. inversion T; subst; clear T. inversion N4; subst; clear N4.
    destruct cell; inversion N5; subst; clear N5; inversion N6; subst; clear N6; reflexivity. }
  assert (Hv : length (a_val tm') = n /\ (match l with None => True | Some c => length (a_val c) = n end)
               /\ (match a with None => True | Some c => length (a_val c) = n end)).
  { unfold new_arr, fresh_buf in *. inversion N4; subst; clear N4. cbn [a_val].
    destruct cell; inversion N5; subst; clear N5; inversion N6; subst; clear N6; cbn [a_val];
      destruct etime; rewrite ?map_length, ?seq_length; auto. }
  destruct Hv as [V1 [V2 V3]].
  unfold lens. cbn [trajs push]. rewrite Ht. apply Forall_app. split; [exact Hl|]. constructor; [|constructor].
  unfold lengths_ok, nframes. cbn [xp tm ul ua]. rewrite seq_length, V1, Nat.eqb_refl.
  destruct l; destruct a; rewrite ?V2, ?V3, ?Nat.eqb_refl; reflexivity.
Qed.

(* ------------------------------------------------------------------ freshness: no memory shared with an input *)
Definition obuf {A} (o : option (arr A)) : list nat := match o with None => [] | Some c => [a_buf c] end.
Definition bufs (t : traj) : list nat := a_buf (tm t) :: obuf (ul t) ++ obuf (ua t) ++ obuf (tr t).

(* two registers have no array buffer and no topology object in common *)
Definition independent (t t' : traj) : Prop :=
  xb t <> xb t' /\ (forall b, In b (bufs t) -> ~ In b (bufs t')) /\ tloc t <> tloc t'.

Lemma bufs_below w t : ids_below w t -> forall b, In b (bufs t) -> b < nbuf w.
Proof.
  intros [H1 [H2 [H3 [H4 _]]]] b Hb. unfold bufs, obuf, oarr_below in *. cbn in Hb.
  destruct Hb as [<-|Hb]; [exact H1|].
  repeat (apply in_app_or in Hb; destruct Hb as [Hb|Hb]);
    [destruct (ul t)|destruct (ua t)|destruct (tr t)]; cbn in Hb; try tauto; destruct Hb as [<-|[]]; auto.
Qed.

Lemma bufs_above w t : fresh_reg w t -> forall b, In b (bufs t) -> nbuf w <= b.
Proof.
  intros [_ [H1 [H2 [H3 [H4 _]]]]] b Hb. unfold bufs, obuf, oarr_above in *. cbn in Hb.
  destruct Hb as [<-|Hb]; [exact H1|].
  repeat (apply in_app_or in Hb; destruct Hb as [Hb|Hb]);
    [destruct (ul t)|destruct (ua t)|destruct (tr t)]; cbn in Hb; try tauto; destruct Hb as [<-|[]]; auto.
Qed.

Lemma fresh_independent w t t' : reg_ok w t -> fresh_reg w t' -> independent t t'.
Proof.
  intros [[Hx _] Hi] Hf. pose proof (bufs_below _ _ Hi) as Hb. pose proof (bufs_above _ _ Hf) as Ha.
  destruct Hf as [F1 [_ [_ [_ [_ F6]]]]]. destruct Hi as [_ [_ [_ [_ I5]]]].
  split; [lia|]. split; [|lia]. intros b H1 H2. specialize (Hb b H1). specialize (Ha b H2). lia.
Qed.

Definition makes_independent (o : op) : bool :=
  match o with
  | OSlice _ _ copy => copy
  | OJoin _ _ _ _ | OMdJoin _ _ => true
  | OAtomSlice _ _ inplace | ORemoveSolvent _ inplace => negb inplace
  | _ => false
  end.

Definition makes_new_xyz (o : op) : bool :=
  match o with
  | OSlice _ _ copy => copy
  | OJoin _ _ _ _ | OMdJoin _ _ | OStack _ _ => true
  | OAtomSlice _ _ inplace | ORemoveSolvent _ inplace => negb inplace
  | _ => false
  end.

Lemma step_independent v w o w' :
  wf w -> makes_independent o = true -> step v w o = (w', ROk) ->
  exists t', trajs w' = trajs w ++ [t'] /\ forall t, In t (trajs w) -> independent t t'.
Proof.
  intros Hwf Hm H.
  assert (G : forall t', fresh_reg w t' -> forall t, In t (trajs w) -> independent t t').
  { intros t' Hf t Hin. eapply fresh_independent; eauto. unfold wf in Hwf. rewrite Forall_forall in Hwf. auto. }
  destruct o; cbn [makes_independent] in Hm; try discriminate; cbn [step] in H.
  - subst copy.
    destruct (nth_error (trajs w) r) as [t|] eqn:Hr; [|unfold do_slice in H; rewrite Hr in H; discriminate].
    destruct (slice_ok _ _ _ _ _ _ _ Hwf Hr H) as [t' [xi [xs [_ [Ht [_ [_ [_ [_ [_ [_ [_ [_ [_ [_ Hf]]]]]]]]]]]]]]].
    exists t'. split; auto.
  - fold (step v w (OJoin r others check_top dis)) in H. join_facts_tac H. exists t'. split; auto.
  - fold (step v w (OMdJoin rs dis)) in H. join_facts_tac H. exists t'. split; auto.
  - destruct inplace; [discriminate|].
    destruct (nth_error (trajs w) r) as [t|] eqn:Hr; [|unfold do_atom_slice in H; rewrite Hr in H; discriminate].
    destruct (atom_slice_new_ok _ _ _ _ _ _ Hwf Hr H) as [t' [ni [_ [Ht [_ [_ [_ [_ [_ [_ [_ [_ [_ Hf]]]]]]]]]]]]].
    exists t'. split; auto.
  - destruct inplace; [discriminate|]. unfold do_remove_solvent in H.
    destruct (nth_error (trajs w) r) as [t|] eqn:Hr; [|discriminate].
    destruct (atom_slice_new_ok _ _ _ _ _ _ Hwf Hr H) as [t' [ni [_ [Ht [_ [_ [_ [_ [_ [_ [_ [_ [_ Hf]]]]]]]]]]]]].
    exists t'. split; auto.
Qed.

Lemma step_fresh_xyz v w o w' :
  wf w -> makes_new_xyz o = true -> step v w o = (w', ROk) ->
  exists t', trajs w' = trajs w ++ [t'] /\
             forall t, In t (trajs w) -> xb t <> xb t' /\ overlap (xb t') (xp t') (xb t) (xp t) = false.
Proof.
  intros Hwf Hm H.
  assert (G : forall t', length (hx w) <= xb t' ->
                forall t, In t (trajs w) -> xb t <> xb t' /\ overlap (xb t') (xp t') (xb t) (xp t) = false).
  { intros t' Hf t Hin. unfold wf in Hwf. rewrite Forall_forall in Hwf. destruct (Hwf t Hin) as [[Hx _] _].
    split; [lia|]. unfold overlap. replace (Nat.eqb (xb t') (xb t)) with false; [reflexivity|].
    symmetry. apply Nat.eqb_neq. lia. }
  destruct (makes_independent o) eqn:Hi.
  - destruct (step_independent _ _ _ _ Hwf Hi H) as [t' [Ht Hind]]. exists t'. split; auto.
    intros t Hin. apply G; auto.
    (* fresh_reg gives the bound directly; recover it from the per-op lemmas *)
    destruct o; cbn [makes_independent] in Hi; try discriminate; cbn [step] in H.
    + subst copy. destruct (nth_error (trajs w) r) as [t0|] eqn:Hr; [|unfold do_slice in H; rewrite Hr in H; discriminate].
      destruct (slice_ok _ _ _ _ _ _ _ Hwf Hr H) as [t2 [xi [xs [_ [Ht2 [_ [_ [_ [_ [_ [_ [_ [_ [_ [_ Hf]]]]]]]]]]]]]]].
      rewrite Ht in Ht2. apply app_inj_tail in Ht2. destruct Ht2 as [_ <-]. destruct (Hf eq_refl) as [? _]. auto.
    + fold (step v w (OJoin r others check_top dis)) in H.
      destruct (join_step_full _ _ _ _ _ _ _ H) as [t0 [os [t2 [plan [_ [_ JF]]]]]].
      destruct JF as [_ [Ht2 [_ [_ [_ [_ [_ [_ [_ [_ [_ [Hf _]]]]]]]]]]]].
      rewrite Ht in Ht2. apply app_inj_tail in Ht2. destruct Ht2 as [_ <-]. destruct Hf as [? _]. auto.
    + fold (step v w (OMdJoin rs dis)) in H.
      destruct (mdjoin_step_full _ _ _ _ _ H) as [t0 [o [rest [t2 [_ [Ht2 [_ [_ [_ [_ [_ [_ Hf]]]]]]]]]]]].
      rewrite Ht in Ht2. apply app_inj_tail in Ht2. destruct Ht2 as [_ <-]. destruct Hf as [? _]. auto.
    + destruct inplace; [discriminate|].
      destruct (nth_error (trajs w) r) as [t0|] eqn:Hr; [|unfold do_atom_slice in H; rewrite Hr in H; discriminate].
      destruct (atom_slice_new_ok _ _ _ _ _ _ Hwf Hr H) as [t2 [ni [_ [Ht2 [_ [_ [_ [_ [_ [_ [_ [_ [_ Hf]]]]]]]]]]]]].
      rewrite Ht in Ht2. apply app_inj_tail in Ht2. destruct Ht2 as [_ <-]. destruct Hf as [? _]. auto.
    + destruct inplace; [discriminate|]. unfold do_remove_solvent in H.
      destruct (nth_error (trajs w) r) as [t0|] eqn:Hr; [|discriminate].
      destruct (atom_slice_new_ok _ _ _ _ _ _ Hwf Hr H) as [t2 [ni [_ [Ht2 [_ [_ [_ [_ [_ [_ [_ [_ [_ Hf]]]]]]]]]]]]].
      rewrite Ht in Ht2. apply app_inj_tail in Ht2. destruct Ht2 as [_ <-]. destruct Hf as [? _]. auto.
  - destruct o; cbn [makes_new_xyz makes_independent] in Hm, Hi; try discriminate; try congruence; cbn [step] in H.
    destruct (nth_error (trajs w) r) as [t|] eqn:Hr; [|unfold do_stack in H; rewrite Hr in H; discriminate].
    destruct (nth_error (trajs w) r') as [o|] eqn:Hr'; [|unfold do_stack in H; rewrite Hr, Hr' in H; discriminate].
    destruct (stack_ok _ _ _ _ _ _ Hwf Hr Hr' H) as [t' [Ht [_ [_ [_ [_ [_ [_ [_ [_ [_ [_ [Hf _]]]]]]]]]]]]].
    exists t'. split; auto.
Qed.

(* ------------------------------------------------------------------ what the precentred shortcut reads *)
(* rmsd(target, reference, frame, precentered=True) uses target._rmsd_traces[i] as the trace of frame i and the
   coordinates as they are; from scratch it centres frame i and computes the trace of the centred frame.
   With a consistent cache the two coincide: entry i IS the (already centred) frame. *)
Lemma precentered_reads_scratch w t c :
  tr t = Some c -> cache_ok w t = true ->
  length (a_val c) = nframes t /\
  forall i x, nth_error (frames w t) i = Some x -> nth_error (a_val c) i = Some (cen x) /\ cen x = x.
Proof.
  intros H1 H2. destruct (cache_ok_inv _ _ _ H1 H2) as [Hv Hc]. split.
  - rewrite Hv. apply length_frames.
  - intros i x Hx. rewrite Forall_forall in Hc.
    assert (E : cen x = x) by (apply cen_fix; apply Hc; eapply nth_error_In; eauto).
    rewrite E, Hv. auto.
Qed.

(* ------------------------------------------------------------------ witnesses against the code as found *)
Definition specs1 : list spec := [(4, [[1; 2; 3]], false, true)].

(* D1: center_coordinates(); t[1:] *)
Definition ops_d1 : list op := [OCenter 0 false; OSlice 0 (KSlice (Some 1%Z) None None) true].
(* D2: center_coordinates(); atom_slice([0, 2], inplace=True) *)
Definition ops_d2 : list op := [OCenter 0 false; OAtomSlice 0 [0%Z; 2%Z] true].
(* shared buffer: center_coordinates(); v = t.slice(slice(1, 3), copy=False); v.superpose(t2, 0) *)
Definition specs2 : list spec := [(4, [[1; 2; 3]], false, true); (2, [[1; 2; 3]], false, true)].
Definition ops_alias : list op := [OCenter 0 false; OSlice 0 (KSlice (Some 1%Z) (Some 3%Z) None) false; OSuperpose 2 1 0%Z].

Definition cinvb (w : world) : bool := forallb (cache_ok w) (trajs w).
Lemma cinvb_iff w : cinvb w = true <-> cinv w.
Proof. unfold cinvb, cinv. rewrite forallb_forall, Forall_forall. tauto. Qed.

Lemma d1_refuted :
  guarded inplace_guard (mkVar false true false) (init_world specs1) ops_d1 = true /\
  cinvb (fst (run (mkVar false true false) (init_world specs1) ops_d1)) = false.
Proof. split; vm_compute; reflexivity. Qed.

Lemma d2_refuted :
  guarded inplace_guard (mkVar true false false) (init_world specs1) ops_d2 = true /\
  cinvb (fst (run (mkVar true false false) (init_world specs1) ops_d2)) = false.
Proof. split; vm_compute; reflexivity. Qed.

Lemma alias_refuted :
  guarded inplace_guard v_fix (init_world specs2) ops_alias = false /\
  cinvb (fst (run v_fix (init_world specs2) ops_alias)) = false.
Proof. split; vm_compute; reflexivity. Qed.

(* the length guard is needed: t.xyz = (array with one more frame) is accepted *)
Definition lensb (w : world) : bool := forallb lengths_ok (trajs w).
Lemma xyz_assignment_unchecked :
  lensb (fst (run v_fix (init_world specs1) [OSetXyzNew 0 5 3])) = false /\
  snd (run v_fix (init_world specs1) [OSetXyzNew 0 5 3]) = [ROk].
Proof. split; vm_compute; reflexivity. Qed.

(* non-vacuity: a history exercising every guard positively *)
Definition ops_demo : list op :=
  [OSlice 0 (KSlice (Some 1%Z) (Some 3%Z) None) false; OCenter 1 false; OSlice 1 (KSlice None None (Some (-1)%Z)) true;
   OSlice 0 (KList [3%Z; 0%Z; 0%Z]) true; OJoin 2 [2] true false; OStack 2 2; OAtomSlice 2 [0%Z; 2%Z] true;
   OSuperpose 3 0 (-1)%Z; OSetXyzNew 3 3 3; OCenter 3 true; OMdJoin [3; 3] true].
Lemma demo_guards :
  guarded inplace_guard v_fix (init_world specs1) ops_demo = true /\
  guarded xyz_guard v_fix (init_world specs1) ops_demo = true /\
  snd (run v_fix (init_world specs1) ops_demo) = [ROk; ROk; ROk; ROk; ROk; ROk; ROk; ROk; ROk; ROk; ROk].
Proof. splits; vm_compute; reflexivity. Qed.

(* ------------------------------------------------------------------ statements in terms of [step] *)
(* without overlap trimming the parts are the whole operand fields *)
Lemma jparts_all_false {A} (ls : list (list A)) : jparts (map (fun _ => false) ls) ls = concat ls.
Proof.
  unfold jparts. induction ls as [|l r IH]; cbn; [reflexivity|]. now rewrite IH.
Qed.

Lemma run_cinv_init sps ops :
  guarded inplace_guard v_fix (init_world sps) ops = true -> cinv (fst (run v_fix (init_world sps) ops)).
Proof. intros H. apply run_cinv; auto using init_wf, init_cinv. Qed.

Lemma run_lens_init v sps ops :
  guarded xyz_guard v (init_world sps) ops = true -> lens (fst (run v (init_world sps) ops)).
Proof. intros H. apply run_lens; auto using init_wf, init_lens. Qed.

(* ------------------------------------------------------------------ joins that trim overlapping frames *)
Definition v_keep := mkVar true true true.

Lemma run_cinv_keep_init sps ops :
  guarded inplace_guard v_keep (init_world sps) ops = true -> cinv (fst (run v_keep (init_world sps) ops)).
Proof. intros H. apply (run_cinv_gen v_keep ops eq_refl eq_refl); auto using init_wf, init_cinv. Qed.

(* consecutive chunks of one centred run sharing a frame: t[0:3] and t[2:4]; join(discard_overlapping_frames=True)
   drops the duplicated frame: 4 frames, and (cache-keeping variant) a 4-entry consistent cache *)
Definition ops_overlap : list op :=
  [OCenter 0 false; OSlice 0 (KSlice (Some 0%Z) (Some 3%Z) None) true; OSlice 0 (KSlice (Some 2%Z) (Some 4%Z) None) true;
   OJoin 1 [2] true true; OJoin 1 [2] true false; OMdJoin [1; 2; 0] true].
Definition reg_frames_cache (w : world) (r : nat) : option (nat * option nat) :=
  match nth_error (trajs w) r with
  | Some t => Some (nframes t, match tr t with Some c => Some (length (a_val c)) | None => None end)
  | None => None
  end.
Lemma overlap_demo :
  guarded inplace_guard v_keep (init_world specs1) ops_overlap = true /\
  snd (run v_keep (init_world specs1) ops_overlap) = [ROk; ROk; ROk; ROk; ROk; ROk] /\
  (let w := fst (run v_keep (init_world specs1) ops_overlap) in
   reg_frames_cache w 3 = Some (4, Some 4) /\ reg_frames_cache w 4 = Some (5, Some 5) /\
   reg_frames_cache w 5 = Some (8, Some 8) /\ cinvb w = true) /\
  (let w := fst (run v_fix (init_world specs1) ops_overlap) in
   reg_frames_cache w 3 = Some (4, None) /\ reg_frames_cache w 4 = Some (5, None) /\ cinvb w = true).
Proof. vm_compute. repeat split; reflexivity. Qed.

(* ------------------------------------------------------------------ md.join: the values, as the reduction computes them *)
Definition pair_parts {A} (dis : bool) (fa fb : list fr) (xa xb : list A) : option (list A) :=
  match join_plan dis [fa; fb] with Some plan => Some (jparts plan [xa; xb]) | None => None end.

(* left fold of the two-operand join over (frames, field) pairs *)
Fixpoint red_parts {A} (dis : bool) (fa : list fr) (xa : list A) (rest : list (list fr * list A)) : option (list fr * list A) :=
  match rest with
  | [] => Some (fa, xa)
  | (fb, xb) :: r =>
    match pair_parts dis fa fb fa fb, pair_parts dis fa fb xa xb with
    | Some f', Some x' => red_parts dis f' x' r
    | _, _ => None
    end
  end.

Lemma mdjoin_reduce_values v w0 : forall rest w acc dis w',
  hext w0 w -> (forall o, In o rest -> xb o < length (hx w0)) ->
  mdjoin_reduce v w0 w acc rest dis = (w', ROk) ->
  exists t', trajs w' = trajs w0 ++ [t'] /\
    red_parts dis (frames w acc) (a_val (tm acc)) (map (fun o => (frames w0 o, a_val (tm o))) rest)
    = Some (frames w' t', a_val (tm t')).
Proof.
  induction rest as [|o rest IH]; intros w acc dis w' He Hall H; cbn [mdjoin_reduce] in H.
  - inversion H; subst w'; clear H. exists acc. split; reflexivity.
  - destruct (join_pair v w acc o dis) as [w1 [|e1]] eqn:J; [|discriminate].
    destruct (join_pair_ok _ _ _ _ _ _ J) as [nt [plan JF]].
    pose proof JF as [F1 [F2 [F3 [F4 [F5 _]]]]].
    rewrite F2, nth_error_app_last in H.
    destruct (IH w1 nt dis w' (hext_trans _ _ _ He F3) (fun x Hx => Hall x (or_intror Hx)) H) as [t' [Ht Hv]].
    exists t'. split; [exact Ht|].
    cbn [map red_parts]. unfold pair_parts.
    assert (Hfo : frames w o = frames w0 o) by (apply hext_frames; auto; apply Hall; left; reflexivity).
    cbn [map] in F1, F4, F5. rewrite Hfo in F1, F4. rewrite F1, <- F4, <- F5. exact Hv.
Qed.

Lemma mdjoin_values v w rs dis w' t o rest :
  wf w -> get_all w rs = Some (t :: o :: rest) -> step v w (OMdJoin rs dis) = (w', ROk) ->
  exists t', trajs w' = trajs w ++ [t'] /\
    red_parts dis (frames w t) (a_val (tm t)) (map (fun x => (frames w x, a_val (tm x))) (o :: rest))
    = Some (frames w' t', a_val (tm t')).
Proof.
  intros Hwf Ho H. cbn [step] in H. unfold do_mdjoin in H. rewrite Ho in H.
  apply (mdjoin_reduce_values v w (o :: rest) w t dis w' (hext_refl w)); auto.
  intros x Hx. unfold wf in Hwf. rewrite Forall_forall in Hwf.
  destruct (Hwf x (get_all_In _ _ _ Ho x (or_intror Hx))) as [[? _] _]. auto.
Qed.

(* ------------------------------------------------------------------ stacking more than two: t.stack(o).stack(o2) *)
Lemma stack_chain w r r' r'' t o o2 w1 w2 :
  wf w -> nth_error (trajs w) r = Some t -> nth_error (trajs w) r' = Some o -> nth_error (trajs w) r'' = Some o2 ->
  do_stack w r r' = (w1, ROk) -> do_stack w1 (length (trajs w)) r'' = (w2, ROk) ->
  exists t2, trajs w2 = trajs w1 ++ [t2] /\
    frames w2 t2 = zip_stk (zip_stk (frames w t) (frames w o)) (frames w o2) /\
    na t2 = na t + na o + na o2 /\ chains t2 = (chains t ++ chains o) ++ chains o2 /\
    tm t2 = tm t /\ tr t2 = None /\ lengths_ok t2 = true /\ (forall x, In x (trajs w) -> xb x <> xb t2).
Proof.
  intros Hwf Hr Hr' Hr'' H1 H2.
  destruct (stack_ok _ _ _ _ _ _ Hwf Hr Hr' H1) as [t1 [Ht1 [He1 [Hf1 [Htm1 [_ [_ [Hna1 [Hch1 [_ [_ [Hreg1 _]]]]]]]]]]]].
  assert (Hwf1 : wf w1) by (eapply wf_of_new; eauto).
  assert (Hn1 : nth_error (trajs w1) (length (trajs w)) = Some t1) by (rewrite Ht1; apply nth_error_app_last).
  assert (Hn2 : nth_error (trajs w1) r'' = Some o2).
  { rewrite Ht1. rewrite nth_error_app1; [exact Hr''|]. apply nth_error_Some. congruence. }
  destruct (stack_ok _ _ _ _ _ _ Hwf1 Hn1 Hn2 H2) as [t2 [Ht2 [He2 [Hf2 [Htm2 [_ [_ [Hna2 [Hch2 [Htr2 [Hl2 [_ [Hx2 _]]]]]]]]]]]]].
  exists t2. split; [exact Ht2|].
  assert (Ho2 : frames w1 o2 = frames w o2).
  { apply hext_frames; auto. destruct (wf_lookup _ _ _ Hwf Hr'') as [[? _] _]. auto. }
  rewrite Hf2, Hf1, Ho2. splits; auto; try congruence; try lia.
  intros x Hx. unfold wf in Hwf. rewrite Forall_forall in Hwf. destruct (Hwf x Hx) as [[Hb _] _].
  pose proof (hext_hx_len _ _ He1). lia.
Qed.
