(* Second layer of the C03 trajectory model: the methods of mdtraj/core/trajectory.py that are built on top of the
   operations of MD.Traj.Model and that the last clause of the property speaks about.

     restrict_atoms(idx, inplace)            return self.atom_slice(atom_indices, inplace=inplace)
     make_molecules_whole(inplace)           result = self | self[:] ; _geometry.whole_molecules(result.xyz, box, bonds)
     image_molecules(inplace)                result = self | self[:] ; _geometry.image_molecules(result.xyz, box, ...)
     smooth(width, order, inplace)           xyz = self.xyz.copy(); filter; self.xyz = xyz | Trajectory(xyz, self.topology, self.time, cell)
     analysis / save calls (observers)       md.compute_*, Trajectory.save_*, getters: read, never write

   Executable definitions only (no proofs here).

   What the kernels compute (minimum-image shifts, a Butterworth filter) is outside this model: a kernel leaves
   coordinates the model does not interpret, written as frames of a FRESH data source (Raw s f natoms), exactly as an
   assignment of new data would.  The harness records the array the kernel left behind as that source, so the
   tie checks all the bookkeeping (which buffer was written, through which views it shows, what became of the
   cache, of time / cell / topology identities) and none of the arithmetic (that is C05 / C20).

   As found (xv_cur): the two imaging methods write result.xyz in place and leave _rmsd_traces as it was: the input
   (inplace=True) or the returned copy (inplace=False; self[:] hands the sliced cache on) then claims to be centred
   with traces of coordinates it no longer has.  Repair (xv_fix): result._rmsd_traces = None after the kernel. *)
From Coq Require Import List Arith ZArith Bool.
Import ListNotations.
Require Import MD.Traj.Model.

Record xvariant := mkXVar { imaging_resets : bool }.   (* false = as found *)
Definition xv_cur := mkXVar false.
Definition xv_fix := mkXVar true.

Definition opaque_frames (s n natoms : nat) : list fr := map (fun f => Raw s f natoms) (seq 0 n).

(* a kernel writes register r's coordinate array in place (every view of the same memory sees it) *)
Definition do_kernel_inplace (xv : xvariant) (w : world) (r : nat) : world * res :=
  match nth_error (trajs w) r with
  | None => (w, RErr EOther)
  | Some t =>
    let '(w1, s) := fresh_src w in
    let w2 := write_x w1 (xb t) (xp t) (opaque_frames s (nframes t) (na t)) in
    (put w2 r (set_tr t (if imaging_resets xv then None else tr t)), ROk)
  end.

Definition top_matches (t : traj) : bool := Nat.eqb (length (kinds t)) (na t).

(* make_molecules_whole / image_molecules.  Modelled domain: per-frame fields of equal length, topology and
   coordinates agreeing on the atom count, at least one atom (otherwise the C kernel indexes out of bounds or the
   anchor heuristics raise): outside it the model answers EOther and the harness does not call the method *)
Definition do_image (v : variant) (xv : xvariant) (w : world) (r : nat) (inplace : bool) : world * res :=
  match nth_error (trajs w) r with
  | None => (w, RErr EOther)
  | Some t =>
    if negb (have_cell t) then (w, RErr EValue)          (* unitcell_vectors is None -> ValueError, first statement *)
    else if negb (lengths_ok t && top_matches t && (1 <=? na t)) then (w, RErr EOther)
    else if inplace then do_kernel_inplace xv w r
    else match do_slice v w r (KSlice None None None) true with      (* result = self[:] *)
         | (w1, ROk) => match do_kernel_inplace xv w1 (length (trajs w)) with
                        | (w2, ROk) => (w2, ROk)
                        | (_, RErr e) => (w, RErr e)
                        end
         | (_, RErr e) => (w, RErr e)
         end
  end.

(* smooth(3, order=1, inplace).  scipy refuses signals that are too short: with these arguments the padded signal has
   n + 4 samples and filtfilt wants more than 6; padded[0] of an empty signal is an IndexError; without atoms no
   signal is ever looked at.  inplace=True goes through the xyz setter (fresh array, cache dropped); inplace=False
   builds Trajectory(xyz, self.topology, self.time, self.unitcell_lengths, self.unitcell_angles): the SAME topology
   object and time array, cell arrays through ensure_type, as stack does. *)
Definition do_smooth (w : world) (r : nat) (inplace : bool) : world * res :=
  match nth_error (trajs w) r with
  | None => (w, RErr EOther)
  | Some t =>
    let n := nframes t in
    if negb (Nat.eqb (na t) 0) && Nat.eqb n 0 then (w, RErr EIndex)
    else if negb (Nat.eqb (na t) 0) && (n <? 3) then (w, RErr EValue)
    else if inplace then do_set_xyz_new w r n (na t)
    else
      let '(w1, s) := fresh_src w in
      let fs := opaque_frames s n (na t) in
      let '(w2, b) := alloc_x w1 fs in
      let '(w3, ul') := ensure_oarr w2 (ul t) in
      let '(w4, ua') := ensure_oarr w3 (ua t) in
      match construct w4 b (seq 0 (length fs)) (na t) (tloc t) (chains t) (tm t) ul' ua' with
      | (_, RErr e) => (w, RErr e)
      | ok => ok
      end
  end.

Inductive xop :=
| XBase (o : op)
| XRestrictAtoms (r : nat) (idx : list Z) (inplace : bool)
| XImage (r : nat) (inplace : bool)          (* make_molecules_whole and image_molecules alike *)
| XSmooth (r : nat) (inplace : bool)
| XObserve (r : nat).                        (* an analysis or save call on register r *)

Definition xstep (v : variant) (xv : xvariant) (w : world) (o : xop) : world * res :=
  match o with
  | XBase o => step v w o
  | XRestrictAtoms r idx ip => do_atom_slice v w r idx ip
  | XImage r ip => do_image v xv w r ip
  | XSmooth r ip => do_smooth w r ip
  | XObserve r => match nth_error (trajs w) r with Some _ => (w, ROk) | None => (w, RErr EOther) end
  end.

Fixpoint xrun (v : variant) (xv : xvariant) (w : world) (ops : list xop) : world * list res :=
  match ops with
  | [] => (w, [])
  | o :: rest => let '(w1, x) := xstep v xv w o in let '(w2, xs) := xrun v xv w1 rest in (w2, x :: xs)
  end.

Definition is_observer (o : xop) : bool := match o with XObserve _ | XBase (OReadCell _) => true | _ => false end.
Definition has_image (ops : list xop) : bool := existsb (fun o => match o with XImage _ _ => true | _ => false end) ops.

(* ------------------------------------------------------------------ what the translator reads in trajectory.py *)
(* harness/props/C03.py:translate re-reads, on every run, the facts about the source text that the definitions above
   rest on, and writes them into coq/Gen/TrajFlow.v, where [check_layer2] must evaluate to true:
   restrict_atoms returns self.atom_slice(atom_indices, inplace=inplace) and does nothing else; both imaging methods bind
   result to self or to self[:], pass result.xyz to the kernel and assign no other attribute (except, when repaired,
   result._rmsd_traces = None after the kernel: [l2_imaging_resets] selects the variant); smooth filters a copy of
   self.xyz, assigns it through the xyz property when in place, and otherwise passes self.topology, self.time and the
   two cell getters to the constructor *)
Record layer2_reading := mkL2 {
  l2_restrict_delegates : bool;
  l2_imaging_on_self_or_full_copy : bool;
  l2_imaging_resets : bool;
  l2_smooth_inplace_via_setter : bool;
  l2_smooth_copy_passes_own_fields : bool }.
Definition check_layer2 (r : layer2_reading) : bool :=
  l2_restrict_delegates r && l2_imaging_on_self_or_full_copy r && l2_smooth_inplace_via_setter r &&
  l2_smooth_copy_passes_own_fields r.
Definition xvariant_of (r : layer2_reading) : xvariant := mkXVar (l2_imaging_resets r).
