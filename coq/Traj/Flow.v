(* Field data-flow of the Trajectory methods as a small term language WITH A SEMANTICS (DESIGN.md 3.5, 4.1-T3).
   harness/props/C03.py:translate re-extracts, with Python's ast, which source expression feeds every output
   field of slice / join / stack / atom_slice and which attributes the in-place methods (xyz, time and unitcell
   setters, center_coordinates, superpose, atom_slice(inplace=True), remove_solvent) assign, and writes the terms
   to coq/Gen/TrajFlow.v.  Here the terms get a meaning: [norm] brings a term to a descriptor (which operand,
   which field, how indexed, how fresh), and [slice_with], [join_with], [stack_with], [atom_slice_with],
   [inplace_with] interpret descriptors as operations on the worlds of MD.Traj.Model -- for EVERY descriptor in
   their domain, not only the right ones: a dropped .copy() is a slice that shares, lengths fed from angles is a
   trajectory with swapped cell fields, a missing cache reset is a stale cache.  MD.Traj.FlowProofs proves
   [check_* t = true -> sem t = the model's operation]; each run re-proves [check_* = true] for the extracted terms.
   Executable definitions only. *)
From Coq Require Import List Arith ZArith Bool.
Import ListNotations.
Require Import MD.Traj.Model.

(* ------------------------------------------------------------------ terms *)
Inductive src := SXyz | STime | SLen | SAng | STraces | STop.
Inductive operand := OSelf | OOther.

Inductive fexp :=
| FField (o : operand) (s : src)   (* self.<field> / other.<field> *)
| FIdx (e : fexp)           (* e[key] *)
| FAtoms (e : fexp)         (* e[:, atom_indices] *)
| FCopy (e : fexp)          (* e.copy() / np.array(e, order="C") *)
| FCopyIf (e : fexp)        (* e.copy() (deepcopy for the topology) when copy=True, e itself otherwise *)
| FDeep (e : fexp)          (* deepcopy(e) *)
| FArr1 (e : fexp)          (* np.array(e, ndmin=1, copy=True) *)
| FConcat (s : src)         (* np.concatenate([t.<field> for t in [self] + others]) *)
| FHstack                   (* np.hstack((self.xyz, other.xyz)) *)
| FSubset                   (* self._topology.subset(atom_indices) *)
| FTopJoin                  (* self.topology.join(other.topology) *)
| FNone                     (* None / not passed on *)
| FKeep                     (* attribute not assigned: keeps its value *)
| FArg                      (* the value handed to a setter *)
| FEnsure (e : fexp)        (* ensure_type(e, ...): e itself when C-contiguous float32, a copy otherwise *)
| FCentred                  (* the traces returned by _rmsd._center_inplace_atom_major(self._xyz) *)
| FSetter (e : fexp).       (* assignment through the xyz property (runs the xyz setter) *)

Record flow := mkFlow { f_xyz : fexp; f_time : fexp; f_len : fexp; f_ang : fexp; f_top : fexp; f_traces : fexp }.

(* ------------------------------------------------------------------ descriptors (normal forms) *)
Inductive fresh := FrSame | FrIfCopy | FrFresh.
Inductive access := AWhole | AKey | AAtoms.
Inductive dsrc :=
| DF (o : operand) (s : src) (a : access)
| DConcat (s : src) | DHstack | DSubset | DTopJoin | DNone | DKeep | DArg | DCentred.
Record desc := mkDesc { d_src : dsrc; d_fresh : fresh; d_setter : bool }.

Definition src_eqb (a b : src) : bool :=
  match a, b with
  | SXyz, SXyz | STime, STime | SLen, SLen | SAng, SAng | STraces, STraces | STop, STop => true
  | _, _ => false
  end.
Definition operand_eqb (a b : operand) : bool := match a, b with OSelf, OSelf | OOther, OOther => true | _, _ => false end.
Definition access_eqb (a b : access) : bool :=
  match a, b with AWhole, AWhole | AKey, AKey | AAtoms, AAtoms => true | _, _ => false end.
Definition fresh_eqb (a b : fresh) : bool :=
  match a, b with FrSame, FrSame | FrIfCopy, FrIfCopy | FrFresh, FrFresh => true | _, _ => false end.
Definition dsrc_eqb (a b : dsrc) : bool :=
  match a, b with
  | DF o s x, DF o' s' x' => operand_eqb o o' && src_eqb s s' && access_eqb x x'
  | DConcat s, DConcat s' => src_eqb s s'
  | DHstack, DHstack | DSubset, DSubset | DTopJoin, DTopJoin | DNone, DNone | DKeep, DKeep | DArg, DArg
  | DCentred, DCentred => true
  | _, _ => false
  end.
Definition desc_eqb (a b : desc) : bool :=
  dsrc_eqb (d_src a) (d_src b) && fresh_eqb (d_fresh a) (d_fresh b) && Bool.eqb (d_setter a) (d_setter b).

(* copies compose: a copy of anything is fresh; "copy if asked" of something fresh is fresh.
   Indexing is only understood directly on a field (as the code writes it). *)
Fixpoint norm (e : fexp) : option desc :=
  match e with
  | FField o s => Some (mkDesc (DF o s AWhole) FrSame false)
  | FIdx x => match norm x with
              | Some (mkDesc (DF o s AWhole) FrSame false) => Some (mkDesc (DF o s AKey) FrSame false)
              | _ => None
              end
  | FAtoms x => match norm x with
                | Some (mkDesc (DF o s AWhole) FrSame false) => Some (mkDesc (DF o s AAtoms) FrFresh false)   (* fancy indexing copies *)
                | _ => None
                end
  | FCopy x | FDeep x | FArr1 x =>
      match norm x with Some d => Some (mkDesc (d_src d) FrFresh (d_setter d)) | None => None end
  | FCopyIf x =>
      match norm x with
      | Some d => Some (mkDesc (d_src d) (match d_fresh d with FrFresh => FrFresh | _ => FrIfCopy end) (d_setter d))
      | None => None
      end
  | FConcat s => Some (mkDesc (DConcat s) FrFresh false)
  | FHstack => Some (mkDesc DHstack FrFresh false)
  | FSubset => Some (mkDesc DSubset FrFresh false)
  | FTopJoin => Some (mkDesc DTopJoin FrFresh false)
  | FNone => Some (mkDesc DNone FrSame false)
  | FKeep => Some (mkDesc DKeep FrSame false)
  | FArg => Some (mkDesc DArg FrSame false)
  | FEnsure x => norm x                         (* ensure_type keeps a conforming array as it is (the harness hands such arrays) *)
  | FCentred => Some (mkDesc DCentred FrFresh false)
  | FSetter x => match norm x with Some d => Some (mkDesc (d_src d) (d_fresh d) true) | None => None end
  end.

Definition eff_copy (f : fresh) (copy : bool) : bool :=
  match f with FrSame => false | FrIfCopy => copy | FrFresh => true end.
Definition kpos (a : access) (n : nat) (k : key) : err + (list nat * kshape) :=
  match a with AKey => key_positions n k | _ => inr (seq 0 n, KsView true) end.

(* the unit-cell array of a register that a (SLen | SAng) source denotes *)
Definition cell_of (s : src) (t : traj) : option (option (arr cval)) :=
  match s with SLen => Some (ul t) | SAng => Some (ua t) | _ => None end.

(* ------------------------------------------------------------------ slice(key, copy) from descriptors *)
Definition slice_cell (w : world) (k : key) (d : desc) (t : traj) (copy : bool)
    : option (err + (world * option (arr cval))) :=
  match d_src d with
  | DF OSelf s a =>
    match cell_of s t with
    | Some o =>
      Some (match o with
            | None => inr (w, None)
            | Some c => match kpos a (length (a_val c)) k with
                        | inl e => inl e
                        | inr (idx, shp) =>
                          let '(w1, a') := slice_arr (CSrc 0 0) w c idx shp (eff_copy (d_fresh d) copy) true false in
                          inr (w1, Some a')
                        end
            end)
    | None => None
    end
  | DNone => Some (inr (w, None))
  | _ => None
  end.

Definition slice_with (dx dt dl da dtop dtr : desc) (w : world) (r : nat) (k : key) (copy : bool) : world * res :=
  match nth_error (trajs w) r with
  | None => (w, RErr EOther)
  | Some t =>
    match d_src dx, d_src dt, d_src dtop with
    | DF OSelf SXyz ax, DF OSelf STime at_, DF OSelf STop AWhole =>
      match kpos ax (nframes t) k with
      | inl e => (w, RErr e)
      | inr (xi, xs) =>
        match kpos at_ (length (a_val (tm t))) k with
        | inl e => (w, RErr e)
        | inr (ti, ts) =>
          match slice_cell w k da t copy with
          | None => (w, RErr EOther)
          | Some (inl e) => (w, RErr e)
          | Some (inr (w1, ua')) =>
            match slice_cell w1 k dl t copy with
            | None => (w, RErr EOther)
            | Some (inl e) => (w, RErr e)
            | Some (inr (w2, ul')) =>
              let fs := sel dfr (frames w t) xi in
              let shares_x := negb (eff_copy (d_fresh dx) copy) &&
                              match xs with KsFancy => false | KsRow => true | KsView c => c end in
              let '(w3, b', p') := if shares_x then (w2, xb t, sel 0 (xp t) xi)
                                   else let '(wa, b) := alloc_x w2 fs in (wa, b, seq 0 (length fs)) in
              let '(w4, tm') := slice_arr (TAr 0) w3 (tm t) ti ts (eff_copy (d_fresh dt) copy) false true in
              let '(w5, tl') := if eff_copy (d_fresh dtop) copy then fresh_top w4 else (w4, tloc t) in
              let '(w6, tr') :=
                match tr t with
                | None => (w5, None)
                | Some c =>
                  match d_src dtr with
                  | DF OSelf STraces a =>
                    match kpos a (length (a_val c)) k with
                    | inl _ => (w5, None)
                    | inr (ci, _) =>
                      if eff_copy (d_fresh dtr) copy then let '(wa, c') := new_arr w5 (sel dfr (a_val c) ci) in (wa, Some c')
                      else (w5, Some (view_arr dfr c ci))
                    end
                  | _ => (w5, None)
                  end
                end in
              match construct w6 b' p' (na t) tl' (chains t) tm' ul' ua' with
              | (_, RErr e) => (w, RErr e)
              | (w7, ROk) =>
                let i := length (trajs w) in
                match nth_error (trajs w7) i with
                | None => (w, RErr EOther)
                | Some nt => (put w7 i (mkTraj (xb nt) (xp nt) (na nt) (tm nt) (ul nt) (ua nt) (tloc nt) (chains nt) tr' (tdef nt)), ROk)
                end
              end
            end
          end
        end
      end
    | _, _, _ => (w, RErr EOther)       (* outside the interpreter: the checker rejects it *)
    end
  end.

Definition slice_sem (f : flow) : option (world -> nat -> key -> bool -> world * res) :=
  match norm (f_xyz f), norm (f_time f), norm (f_len f), norm (f_ang f), norm (f_top f), norm (f_traces f) with
  | Some dx, Some dt, Some dl, Some da, Some dtop, Some dtr => Some (slice_with dx dt dl da dtop dtr)
  | _, _, _, _, _, _ => None
  end.

(* ------------------------------------------------------------------ join from descriptors *)
(* which per-frame list of an operand a concatenation source denotes *)
Definition cat_cell (s : src) (o : traj) : option (list cval) :=
  match s with SLen => Some (oval (ul o)) | SAng => Some (oval (ua o)) | _ => None end.

Definition join_with (dl da dtop : desc) (w : world) (t : traj) (others : list traj) (check_top dis : bool) : world * res :=
  match d_src dl, d_src da, d_src dtop with
  | DConcat sl, DConcat sa, DF OSelf STop AWhole =>
    match cat_cell sl t, cat_cell sa t with
    | Some _, Some _ =>
      if negb (forallb (fun o => Nat.eqb (na t) (na o)) others) then (w, RErr EValue)
      else if check_top && negb (forallb (fun o => list_eqb (list_eqb Nat.eqb) (chains t) (chains o)) others) then (w, RErr EValue)
      else if negb (forallb (fun o => Bool.eqb (have_cell t) (have_cell o)) others) then (w, RErr EValue)
      else
        let all := t :: others in
        match join_plan dis (map (frames w) all) with
        | None => (w, RErr EIndex)
        | Some plan =>
          let fs := jparts plan (map (frames w) all) in
          let '(w1, b) := alloc_x w fs in
          let '(w2, tm') := new_arr w1 (jparts plan (map (fun o => a_val (tm o)) all)) in
          let cat s := jparts plan (map (fun o => match cat_cell s o with Some l => l | None => [] end) all) in
          let '(w3, ua') := if have_cell t then let '(wa, a) := new_arr w2 (cat sa) in (wa, Some a) else (w2, None) in
          let '(w4, ul') := if have_cell t then let '(wa, a) := new_arr w3 (cat sl) in (wa, Some a) else (w3, None) in
          let '(w5, tl) := if eff_copy (d_fresh dtop) true then fresh_top w4 else (w4, tloc t) in
          match construct w5 b (seq 0 (length fs)) (na t) tl (chains t) tm' ul' ua' with
          | (_, RErr e) => (w, RErr e)
          | ok => ok
          end
        end
    | _, _ => (w, RErr EOther)
    end
  | _, _, _ => (w, RErr EOther)
  end.

Definition join_sem (f : flow) : option (world -> traj -> list traj -> bool -> bool -> world * res) :=
  match norm (f_xyz f), norm (f_time f), norm (f_len f), norm (f_ang f), norm (f_top f), norm (f_traces f) with
  | Some (mkDesc (DConcat SXyz) FrFresh false), Some (mkDesc (DConcat STime) FrFresh false), Some dl, Some da, Some dtop,
    Some (mkDesc DNone _ _) => Some (join_with dl da dtop)
  | _, _, _, _, _, _ => None
  end.

(* ------------------------------------------------------------------ stack from descriptors *)
Definition pick (o : operand) (t other : traj) : traj := match o with OSelf => t | OOther => other end.

(* an array handed to the constructor: as it is (through ensure_type) or a fresh copy *)
Definition pass_oarr (w : world) (f : fresh) (o : option (arr cval)) : world * option (arr cval) :=
  if eff_copy f true then copy_oarr w o else ensure_oarr w o.

Definition stack_with (dt dl da : desc) (w : world) (r r' : nat) : world * res :=
  match nth_error (trajs w) r, nth_error (trajs w) r' with
  | Some t, Some o =>
    match d_src dt, d_src dl, d_src da with
    | DF ot STime AWhole, DF ol sl AWhole, DF oa sa AWhole =>
      match cell_of sl (pick ol t o), cell_of sa (pick oa t o) with
      | Some lsrc, Some asrc =>
        if negb (Nat.eqb (nframes t) (nframes o)) then (w, RErr EValue) else
        let fs := zip_stk (frames w t) (frames w o) in
        let '(w1, b) := alloc_x w fs in
        let '(w2, tl) := fresh_top w1 in
        let '(w3, ul') := pass_oarr w2 (d_fresh dl) lsrc in
        let '(w4, ua') := pass_oarr w3 (d_fresh da) asrc in
        let '(w5, tm') := if eff_copy (d_fresh dt) true then copy_arr w4 (tm (pick ot t o)) else (w4, tm (pick ot t o)) in
        match construct w5 b (seq 0 (length fs)) (na t + na o) tl (chains t ++ chains o) tm' ul' ua' with
        | (_, RErr e) => (w, RErr e)
        | ok => ok
        end
      | _, _ => (w, RErr EOther)
      end
    | _, _, _ => (w, RErr EOther)
    end
  | _, _ => (w, RErr EOther)
  end.

Definition stack_sem (f : flow) : option (world -> nat -> nat -> world * res) :=
  match norm (f_xyz f), norm (f_time f), norm (f_len f), norm (f_ang f), norm (f_top f), norm (f_traces f) with
  | Some (mkDesc DHstack FrFresh false), Some dt, Some dl, Some da, Some (mkDesc DTopJoin FrFresh false), Some (mkDesc DNone _ _) =>
    Some (stack_with dt dl da)
  | _, _, _, _, _, _ => None
  end.

(* ------------------------------------------------------------------ atom_slice(inplace=False) from descriptors *)
Definition atom_slice_with (dt dl da : desc) (w : world) (r : nat) (idx : list Z) : world * res :=
  match nth_error (trajs w) r with
  | None => (w, RErr EOther)
  | Some t =>
    match d_src dt, d_src dl, d_src da with
    | DF OSelf STime AWhole, DF OSelf sl AWhole, DF OSelf sa AWhole =>
      match cell_of sl t, cell_of sa t with
      | Some lsrc, Some asrc =>
        match norm_indices (na t) idx with
        | None => (w, RErr EIndex)
        | Some ni =>
          let fs := map (Sub ni) (frames w t) in
          let '(w1, b) := alloc_x w fs in
          let '(w2, tl) := fresh_top w1 in
          let ks := subset_chains 0 (chains t) idx in
          let '(w3, ul', ua') :=
            if have_cell t then
              let '(wa, l') := if eff_copy (d_fresh dl) true then copy_oarr w2 lsrc else (w2, lsrc) in
              let '(wb, a') := if eff_copy (d_fresh da) true then copy_oarr wa asrc else (wa, asrc) in (wb, l', a')
            else (w2, None, None) in
          let '(w4, tm') := if eff_copy (d_fresh dt) true then copy_arr w3 (tm t) else (w3, tm t) in
          match construct w4 b (seq 0 (length fs)) (length ni) tl ks tm' ul' ua' with
          | (_, RErr e) => (w, RErr e)
          | ok => ok
          end
        end
      | _, _ => (w, RErr EOther)
      end
    | _, _, _ => (w, RErr EOther)
    end
  end.

Definition atom_slice_sem (f : flow) : option (world -> nat -> list Z -> world * res) :=
  match norm (f_xyz f), norm (f_time f), norm (f_len f), norm (f_ang f), norm (f_top f), norm (f_traces f) with
  | Some (mkDesc (DF OSelf SXyz AAtoms) FrFresh false), Some dt, Some dl, Some da, Some (mkDesc DSubset FrFresh false),
    Some (mkDesc DNone _ _) => Some (atom_slice_with dt dl da)
  | _, _, _, _, _, _ => None
  end.

(* ------------------------------------------------------------------ in-place methods: what happens to the cache *)
(* The in-place methods differ from one another in the coordinates they write (modelled in MD.Traj.Model); what the
   source text decides, and what the property depends on, is the fate of _rmsd_traces.  An effect summary says how
   _xyz is (re)bound -- directly, or through the xyz property, whose setter's own summary is then applied -- and what
   is assigned to _rmsd_traces. *)
Inductive cache_fate := CReset | CKeep | CFromCentring.

Definition fate_of (xyz_setter_fate : cache_fate) (e_xyz e_traces : fexp) : option cache_fate :=
  match norm e_traces with
  | Some (mkDesc DNone _ _) => Some CReset
  | Some (mkDesc DCentred _ _) => Some CFromCentring
  | Some (mkDesc DKeep _ _) =>
      (* not assigned directly: reset only if _xyz went through the property setter *)
      match norm e_xyz with
      | Some d => Some (if d_setter d then xyz_setter_fate else CKeep)
      | None => None
      end
  | _ => None
  end.

Definition apply_fate (f : cache_fate) (old centred : option (arr fr)) : option (arr fr) :=
  match f with CReset => None | CKeep => old | CFromCentring => centred end.

(* atom_slice(inplace=True) / remove_solvent(inplace=True) with a given fate of the cache *)
Definition atom_slice_inplace_with (f : cache_fate) (w : world) (r : nat) (idx : list Z) : world * res :=
  match nth_error (trajs w) r with
  | None => (w, RErr EOther)
  | Some t =>
    match norm_indices (na t) idx with
    | None => (w, RErr EIndex)
    | Some ni =>
      let fs := map (Sub ni) (frames w t) in
      let '(w1, b) := alloc_x w fs in
      let '(w2, tl) := fresh_top w1 in
      let ks := subset_chains 0 (chains t) idx in
      (put w2 r (mkTraj b (seq 0 (length fs)) (length ni) (tm t) (ul t) (ua t) tl ks (apply_fate f (tr t) None) (tdef t)), ROk)
    end
  end.

(* t.xyz = <fresh array>  with a given fate *)
Definition set_xyz_new_with (f : cache_fate) (w : world) (r m natoms : nat) : world * res :=
  match nth_error (trajs w) r with
  | None => (w, RErr EOther)
  | Some t =>
    if negb (Nat.eqb (length (kinds t)) natoms) then (w, RErr EValue) else
    let '(w1, s) := fresh_src w in
    let fs := map (fun f => Raw s f natoms) (seq 0 m) in
    let '(w2, b) := alloc_x w1 fs in
    (put w2 r (mkTraj b (seq 0 m) natoms (tm t) (ul t) (ua t) (tloc t) (chains t) (apply_fate f (tr t) None) (tdef t)), ROk)
  end.

(* superpose with a given fate of the cache on its successful path *)
Definition superpose_with (f : cache_fate) (w : world) (r ref : nat) (frame : Z) : world * res :=
  match nth_error (trajs w) r, nth_error (trajs w) ref with
  | Some t, Some q =>
    match norm_index (nframes q) frame with
    | None => (w, RErr EIndex)
    | Some fi =>
      if negb (Nat.eqb (na t) (na q)) then
        (write_x w (xb t) (xp t) (map cen (frames w t)), RErr EValue)
      else
        let rf := nth fi (frames w q) dfr in
        let w1 := write_x w (xb t) (xp t) (map (fun x => Sup x rf) (frames w t)) in
        if negb (Nat.eqb (length (kinds t)) (na t)) then (w1, RErr EValue)
        else (put w1 r (set_tr t (apply_fate f (tr t) None)), ROk)
    end
  | _, _ => (w, RErr EOther)
  end.

(* center_coordinates(mass_weighted) with the two fates of its two branches *)
Definition center_with (f_plain f_mw : cache_fate) (w : world) (r : nat) (mass_weighted : bool) : world * res :=
  match nth_error (trajs w) r with
  | None => (w, RErr EOther)
  | Some t =>
    if mass_weighted then
      if negb (Nat.eqb (length (kinds t)) (na t)) then (w, RErr EValue) else
      let w1 := write_x w (xb t) (xp t) (map (CenM (kinds t)) (frames w t)) in
      (put w1 r (set_tr t (apply_fate f_mw (tr t) None)), ROk)
    else
      if Nat.eqb (nframes t) 0 then (w, RErr EIndex) else
      let fs := map cen (frames w t) in
      let w1 := write_x w (xb t) (xp t) fs in
      let '(w2, c) := new_arr w1 fs in
      (put w2 r (set_tr t (apply_fate f_plain (tr t) (Some c))), ROk)
  end.

(* ------------------------------------------------------------------ the extracted summaries of the in-place methods *)
Record effects := mkEffects {
  e_setter_xyz : fexp; e_setter_traces : fexp;           (* xyz.setter: self._xyz = ..., self._rmsd_traces = ... *)
  e_aslice_xyz : fexp; e_aslice_traces : fexp;           (* atom_slice, `if inplace:` branch *)
  e_center_traces : fexp;                                (* center_coordinates, plain branch: self._rmsd_traces = ... *)
  e_center_mw_xyz : fexp;                                (* center_coordinates, mass-weighted branch: self.xyz -= ... *)
  e_superpose_xyz : fexp;                                (* superpose: how the result is bound *)
  e_remove_solvent_delegates : bool;                     (* return self.atom_slice(atom_indices, inplace=inplace) *)
  e_time_touches_cache : bool; e_cell_touches_cache : bool }.   (* time / unitcell_* setters assign _rmsd_traces or _xyz *)

Definition setter_fate (e : effects) : option cache_fate := fate_of CKeep (e_setter_xyz e) (e_setter_traces e).

(* ------------------------------------------------------------------ checkers (for the repaired model) *)
Definition is_desc (o : option desc) (d : desc) : bool := match o with Some x => desc_eqb x d | None => false end.
Definition dF (s : src) (a : access) (f : fresh) : desc := mkDesc (DF OSelf s a) f false.

Definition check_slice (f : flow) : bool :=
  is_desc (norm (f_xyz f)) (dF SXyz AKey FrIfCopy) && is_desc (norm (f_time f)) (dF STime AKey FrIfCopy) &&
  is_desc (norm (f_len f)) (dF SLen AKey FrIfCopy) && is_desc (norm (f_ang f)) (dF SAng AKey FrIfCopy) &&
  is_desc (norm (f_top f)) (dF STop AWhole FrIfCopy) && is_desc (norm (f_traces f)) (dF STraces AKey FrFresh).

Definition check_join (f : flow) : bool :=
  is_desc (norm (f_xyz f)) (mkDesc (DConcat SXyz) FrFresh false) && is_desc (norm (f_time f)) (mkDesc (DConcat STime) FrFresh false) &&
  is_desc (norm (f_len f)) (mkDesc (DConcat SLen) FrFresh false) && is_desc (norm (f_ang f)) (mkDesc (DConcat SAng) FrFresh false) &&
  is_desc (norm (f_top f)) (dF STop AWhole FrFresh) && is_desc (norm (f_traces f)) (mkDesc DNone FrSame false).

Definition check_stack (f : flow) : bool :=
  is_desc (norm (f_xyz f)) (mkDesc DHstack FrFresh false) && is_desc (norm (f_time f)) (dF STime AWhole FrSame) &&
  is_desc (norm (f_len f)) (dF SLen AWhole FrSame) && is_desc (norm (f_ang f)) (dF SAng AWhole FrSame) &&
  is_desc (norm (f_top f)) (mkDesc DTopJoin FrFresh false) && is_desc (norm (f_traces f)) (mkDesc DNone FrSame false).

Definition check_atom_slice (f : flow) : bool :=
  is_desc (norm (f_xyz f)) (dF SXyz AAtoms FrFresh) && is_desc (norm (f_time f)) (dF STime AWhole FrFresh) &&
  is_desc (norm (f_len f)) (dF SLen AWhole FrFresh) && is_desc (norm (f_ang f)) (dF SAng AWhole FrFresh) &&
  is_desc (norm (f_top f)) (mkDesc DSubset FrFresh false) && is_desc (norm (f_traces f)) (mkDesc DNone FrSame false).

Definition fate_eqb (a b : cache_fate) : bool :=
  match a, b with CReset, CReset | CKeep, CKeep | CFromCentring, CFromCentring => true | _, _ => false end.

(* the fates the source text gives the cache: (xyz setter, atom_slice in place, plain centring, mass-weighted centring,
   superpose); a method that binds _xyz through the property inherits the setter's fate *)
Definition fates (e : effects) : option (cache_fate * cache_fate * cache_fate * cache_fate * cache_fate) :=
  match setter_fate e with
  | Some sf =>
    match fate_of sf (e_aslice_xyz e) (e_aslice_traces e), fate_of sf FKeep (e_center_traces e),
          fate_of sf (e_center_mw_xyz e) FKeep, fate_of sf (e_superpose_xyz e) FKeep with
    | Some a, Some c, Some m, Some s => Some (sf, a, c, m, s)
    | _, _, _, _ => None
    end
  | None => None
  end.

Record inplace_ops := mkInplace {
  op_set_xyz_new : world -> nat -> nat -> nat -> world * res;
  op_atom_slice_inplace : world -> nat -> list Z -> world * res;
  op_center : world -> nat -> bool -> world * res;
  op_superpose : world -> nat -> nat -> Z -> world * res }.

Definition effects_sem (e : effects) : option inplace_ops :=
  if e_remove_solvent_delegates e && negb (e_time_touches_cache e) && negb (e_cell_touches_cache e) then
    match fates e with
    | Some (sf, a, c, m, s) =>
      Some (mkInplace (set_xyz_new_with sf) (atom_slice_inplace_with a) (center_with c m) (superpose_with s))
    | None => None
    end
  else None.

Definition check_effects (e : effects) : bool :=
  e_remove_solvent_delegates e && negb (e_time_touches_cache e) && negb (e_cell_touches_cache e) &&
  match fates e with
  | Some (sf, a, c, m, s) =>
    fate_eqb sf CReset && fate_eqb a CReset && fate_eqb c CFromCentring && fate_eqb m CReset && fate_eqb s CReset
  | None => false
  end.
