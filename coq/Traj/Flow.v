(* Field data-flow of Trajectory.slice / join / stack / atom_slice as a small term language (DESIGN.md 4.1-T3).
   harness/props/C03.py:translate re-extracts these terms from mdtraj/core/trajectory.py on every run and writes
   them to coq/Gen/TrajFlow.v, where they must be recognised ([flows_known]) as the flows that MD.Traj.Model
   implements: one reference flow per method, two for the two places where a defect and its repair differ.
   Executable definitions and their (decidable) recognisers only. *)
From Coq Require Import List Bool.
Import ListNotations.
Require Import MD.Traj.Model.

Inductive src := SXyz | STime | SLen | SAng | STraces | STop.

Inductive fexp :=
| FField (s : src)          (* self.<field> *)
| FIdx (e : fexp)           (* e[key] *)
| FAtoms (e : fexp)         (* e[:, atom_indices] *)
| FCopy (e : fexp)          (* e.copy() / np.array(e, order="C") *)
| FCopyIf (e : fexp)        (* e.copy() (deepcopy for the topology) when copy=True, e itself otherwise *)
| FDeep (e : fexp)          (* deepcopy(e) *)
| FArr1 (e : fexp)          (* np.array(e, ndmin=1, copy=True) *)
| FConcat (s : src)         (* np.concatenate([t.<field> for t in [self] + others]) *)
| FHstack                   (* np.hstack((self.xyz, other.xyz)) *)
| FSubset                   (* self._topology.subset(atom_indices) *)
| FTopJoin                  (* self.topology.join(other.topology) *)
| FNone                     (* None / not passed on *)
| FKeep.                    (* attribute not assigned: keeps its value (in-place branch) *)

Record flow := mkFlow { f_xyz : fexp; f_time : fexp; f_len : fexp; f_ang : fexp; f_top : fexp; f_traces : fexp }.

Definition src_eqb (a b : src) : bool :=
  match a, b with
  | SXyz, SXyz | STime, STime | SLen, SLen | SAng, SAng | STraces, STraces | STop, STop => true
  | _, _ => false
  end.

Fixpoint fexp_eqb (a b : fexp) : bool :=
  match a, b with
  | FField s, FField s' => src_eqb s s'
  | FIdx x, FIdx y | FAtoms x, FAtoms y | FCopy x, FCopy y | FCopyIf x, FCopyIf y | FDeep x, FDeep y
  | FArr1 x, FArr1 y => fexp_eqb x y
  | FConcat s, FConcat s' => src_eqb s s'
  | FHstack, FHstack | FSubset, FSubset | FTopJoin, FTopJoin | FNone, FNone | FKeep, FKeep => true
  | _, _ => false
  end.

Definition flow_eqb (a b : flow) : bool :=
  fexp_eqb (f_xyz a) (f_xyz b) && fexp_eqb (f_time a) (f_time b) && fexp_eqb (f_len a) (f_len b) &&
  fexp_eqb (f_ang a) (f_ang b) && fexp_eqb (f_top a) (f_top b) && fexp_eqb (f_traces a) (f_traces b).

(* ---- reference flows: what MD.Traj.Model.do_slice / join_trajs / do_stack / do_atom_slice implement *)
Definition slice_common (traces : fexp) : flow :=
  mkFlow (FCopyIf (FIdx (FField SXyz))) (FCopyIf (FIdx (FField STime))) (FCopyIf (FIdx (FField SLen)))
         (FCopyIf (FIdx (FField SAng))) (FCopyIf (FField STop)) traces.
Definition slice_flow_as_found := slice_common (FCopyIf (FField STraces)).       (* the whole cache, unindexed *)
Definition slice_flow_repaired := slice_common (FArr1 (FIdx (FField STraces))).  (* the cache indexed like the rest *)
(* the same with the (then redundant) second .copy() under `if copy:` left in place *)
Definition slice_flow_repaired' := slice_common (FCopyIf (FArr1 (FIdx (FField STraces)))).

Definition join_flow_ref : flow :=
  mkFlow (FConcat SXyz) (FConcat STime) (FConcat SLen) (FConcat SAng) (FDeep (FField STop)) FNone.
Definition stack_flow_ref : flow :=
  mkFlow FHstack (FField STime) (FField SLen) (FField SAng) FTopJoin FNone.
Definition atom_slice_flow_ref : flow :=
  mkFlow (FCopy (FAtoms (FField SXyz))) (FCopy (FField STime)) (FCopy (FField SLen)) (FCopy (FField SAng)) FSubset FNone.
(* in-place branch of atom_slice: which attributes of self are assigned *)
Definition aslice_inplace_common (traces : fexp) : flow :=
  mkFlow (FCopy (FAtoms (FField SXyz))) FKeep FKeep FKeep FSubset traces.
Definition aslice_inplace_as_found := aslice_inplace_common FKeep.
Definition aslice_inplace_repaired := aslice_inplace_common FNone.

(* the variant of the model that a pair of extracted flows denotes *)
Definition variant_of_flows (sl ip : flow) : option variant :=
  let a := if flow_eqb sl slice_flow_repaired || flow_eqb sl slice_flow_repaired' then Some true
           else if flow_eqb sl slice_flow_as_found then Some false else None in
  let b := if flow_eqb ip aslice_inplace_repaired then Some true
           else if flow_eqb ip aslice_inplace_as_found then Some false else None in
  match a, b with Some x, Some y => Some (mkVar x y false) | _, _ => None end.

Definition flows_known (sl ip jn st asl : flow) (v : variant) : bool :=
  match variant_of_flows sl ip with
  | Some v' => Bool.eqb (slice_indexes_traces v) (slice_indexes_traces v') &&
               Bool.eqb (aslice_inplace_resets v) (aslice_inplace_resets v')
  | None => false
  end && flow_eqb jn join_flow_ref && flow_eqb st stack_flow_ref && flow_eqb asl atom_slice_flow_ref.
