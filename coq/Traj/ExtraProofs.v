(* Proofs about the second layer of the C03 model (MD.Traj.Extra): restrict_atoms, make_molecules_whole /
   image_molecules, smooth, observers.  The invariants of MD.Traj.Proofs (wf, cinv) are carried over to histories that
   mix the base operations with these methods. *)
From Coq Require Import List Arith ZArith Bool Lia.
Import ListNotations.
Require Import MD.Traj.Model MD.Traj.Lists MD.Traj.Proofs MD.Traj.Extra.

(* ------------------------------------------------------------------ the guard, extended *)
(* an imaging kernel writes in place like center_coordinates does; with inplace=False it writes into the arrays of the
   fresh copy, which nothing else can see: no condition *)
Definition xinplace_guard (w : world) (o : xop) : bool :=
  match o with
  | XBase o => inplace_guard w o
  | XImage r true => inplace_safe w r
  | _ => true
  end.

Fixpoint xguarded (v : variant) (xv : xvariant) (w : world) (ops : list xop) : bool :=
  match ops with
  | [] => true
  | o :: rest => xinplace_guard w o && xguarded v xv (fst (xstep v xv w o)) rest
  end.

(* ------------------------------------------------------------------ the in-place kernel *)
Lemma kernel_shape xv w r w' x :
  do_kernel_inplace xv w r = (w', x) ->
  match nth_error (trajs w) r with
  | None => w' = w /\ x = RErr EOther
  | Some t =>
    x = ROk /\
    hx w' = hx (write_x w (xb t) (xp t) (opaque_frames (nsrc w) (nframes t) (na t))) /\
    trajs w' = set_nth r (set_tr t (if imaging_resets xv then None else tr t)) (trajs w) /\
    nbuf w' = nbuf w /\ ntop w' = ntop w
  end.
Proof.
  unfold do_kernel_inplace, fresh_src. intros H. destruct (nth_error (trajs w) r) as [t|].
  - inversion H; subst; clear H. cbn. repeat split; reflexivity.
  - inversion H; subst. split; reflexivity.
Qed.

Lemma kernel_err xv w r w' e : do_kernel_inplace xv w r = (w', RErr e) -> w' = w.
Proof.
  intros H. apply kernel_shape in H. destruct (nth_error (trajs w) r); [destruct H as [H _]; discriminate|tauto].
Qed.

Lemma hext_of_same_counters w w' :
  length (hx w') = length (hx w) -> nbuf w' = nbuf w -> ntop w' = ntop w ->
  (forall b, b < length (hx w) -> length (buf_of w' b) = length (buf_of w b)) -> True.
Proof. auto. Qed.

Lemma kernel_wf xv w r w' x : wf w -> do_kernel_inplace xv w r = (w', x) -> wf w'.
Proof.
  intros Hwf H. unfold do_kernel_inplace, fresh_src in H.
  destruct (nth_error (trajs w) r) as [t|] eqn:Hr; [|inversion H; subst; exact Hwf].
  inversion H; subst; clear H.
  set (w1 := mkWorld (hx w) (trajs w) (nbuf w) (ntop w) (S (nsrc w))).
  assert (E1 : ext w w1) by (unfold w1; ext_easy).
  assert (Hwf1 : wf w1) by (eapply wf_ext; eauto).
  assert (Hr1 : nth_error (trajs w1) r = Some t) by exact Hr.
  pose proof (wf_lookup _ _ _ Hwf1 Hr1) as Hreg.
  apply (wf_put (write_x w1 (xb t) (xp t) (opaque_frames (nsrc w) (nframes t) (na t)))); [apply wf_write; auto|apply ext_refl|].
  apply reg_ok_set_tr; [apply reg_ok_write; auto|].
  destruct (imaging_resets xv); [cbn; auto|]. destruct Hreg as [_ [_ [_ [_ [I4 _]]]]]. exact I4.
Qed.

(* cinv_inplace with the guard as a proposition *)
Lemma cinv_inplace_prop w r t vs w2 t'' :
  wf w -> cinv w -> nth_error (trajs w) r = Some t ->
  (forall i o, nth_error (trajs w) i = Some o -> i = r \/ overlap (xb t) (xp t) (xb o) (xp o) = false \/ tr o = None) ->
  hx w2 = hx (write_x w (xb t) (xp t) vs) -> trajs w2 = set_nth r t'' (trajs w) ->
  cache_ok w2 t'' = true -> cinv w2.
Proof.
  intros Hw Hc Hr Hs Hh Ht Hn. unfold cinv. rewrite Forall_forall. intros t0 Hin.
  apply In_nth_error in Hin. destruct Hin as [i Hi]. rewrite Ht in Hi.
  destruct (Nat.eq_dec r i) as [->|Hne].
  - rewrite nth_error_set_nth_same in Hi by (apply nth_error_Some; congruence). inversion Hi; subst. exact Hn.
  - rewrite nth_error_set_nth_other in Hi by exact Hne.
    destruct (Hs i t0 Hi) as [E|[E|E]]; [congruence| |apply cache_ok_none; exact E].
    assert (F : frames w2 t0 = frames w t0).
    { transitivity (frames (write_x w (xb t) (xp t) vs) t0).
      - unfold frames, buf_of. now rewrite Hh.
      - apply frames_write_disjoint. exact E. }
    rewrite (cache_ok_ext w w2 t0 F). eapply cinv_lookup; eauto.
Qed.

Lemma kernel_cinv w r w' x :
  wf w -> cinv w ->
  (forall t, nth_error (trajs w) r = Some t ->
     forall i o, nth_error (trajs w) i = Some o -> i = r \/ overlap (xb t) (xp t) (xb o) (xp o) = false \/ tr o = None) ->
  do_kernel_inplace xv_fix w r = (w', x) -> cinv w'.
Proof.
  intros Hwf Hc Hs H. apply kernel_shape in H.
  destruct (nth_error (trajs w) r) as [t|] eqn:Hr; [|destruct H as [-> _]; exact Hc].
  destruct H as [_ [H1 [H2 _]]]. cbn [imaging_resets xv_fix] in H2.
  eapply (cinv_inplace_prop w r t _ w' (set_tr t None) Hwf Hc Hr (Hs t eq_refl) H1 H2).
  apply cache_ok_none. reflexivity.
Qed.

Lemma overlap_other_buffer b1 p1 b2 p2 : b1 <> b2 -> overlap b1 p1 b2 p2 = false.
Proof. intros H. unfold overlap. apply Nat.eqb_neq in H. rewrite H. reflexivity. Qed.

(* ------------------------------------------------------------------ make_molecules_whole / image_molecules *)
Lemma image_err v xv w r ip w' e : do_image v xv w r ip = (w', RErr e) -> w' = w.
Proof.
  unfold do_image. intros H. destruct (nth_error (trajs w) r) as [t|]; [|inversion H; auto].
  destruct (negb (have_cell t)); [inversion H; auto|].
  destruct (negb (lengths_ok t && top_matches t && (1 <=? na t))); [inversion H; auto|].
  destruct ip; [eapply kernel_err; eauto|].
  destruct (do_slice v w r (KSlice None None None) true) as [w1 [|e1]] eqn:S; [|inversion H; auto].
  destruct (do_kernel_inplace xv w1 (length (trajs w))) as [w2 [|e2]]; inversion H; auto.
Qed.

(* what the copying form returns: the slice self[:] (all arrays and the topology fresh), then the kernel on it *)
Lemma image_copy_ok v xv w r w' :
  wf w -> do_image v xv w r false = (w', ROk) ->
  exists t t' w1,
    nth_error (trajs w) r = Some t /\ have_cell t = true /\
    do_slice v w r (KSlice None None None) true = (w1, ROk) /\
    trajs w1 = trajs w ++ [t'] /\ fresh_reg w t' /\ wf w1 /\
    do_kernel_inplace xv w1 (length (trajs w)) = (w', ROk) /\
    trajs w' = trajs w ++ [set_tr t' (if imaging_resets xv then None else tr t')].
Proof.
  unfold do_image. intros Hwf H. destruct (nth_error (trajs w) r) as [t|] eqn:Hr; [|discriminate].
  destruct (have_cell t) eqn:Hc; cbn [negb] in H; [|discriminate].
  destruct (negb (lengths_ok t && top_matches t && (1 <=? na t))); [discriminate|].
  destruct (do_slice v w r (KSlice None None None) true) as [w1 [|e1]] eqn:S; [|discriminate].
  destruct (slice_ok _ _ _ _ _ _ _ Hwf Hr S) as [t' [xi [xs [_ [Ht [_ [_ [_ [_ [_ [_ [_ [_ [_ [_ Hf]]]]]]]]]]]]]]].
  destruct (do_kernel_inplace xv w1 (length (trajs w))) as [w2 [|e2]] eqn:K; inversion H; subst w2; clear H.
  rename K into H.
  exists t, t', w1. splits; auto.
  - exact (step_wf v w (OSlice r (KSlice None None None) true) w1 ROk Hwf S).
  - pose proof H as K. apply kernel_shape in K. rewrite Ht in K. rewrite nth_error_app_last in K.
    destruct K as [_ [_ [K _]]]. rewrite K. apply set_nth_app_last.
Qed.

Lemma image_wf v xv w r ip w' x : wf w -> do_image v xv w r ip = (w', x) -> wf w'.
Proof.
  intros Hwf H. destruct x as [|e]; [|apply image_err in H; subst; exact Hwf].
  destruct ip.
  - unfold do_image in H. destruct (nth_error (trajs w) r) as [t|]; [|discriminate].
    destruct (negb (have_cell t)); [discriminate|].
    destruct (negb (lengths_ok t && top_matches t && (1 <=? na t))); [discriminate|].
    eapply kernel_wf; eauto.
  - destruct (image_copy_ok _ _ _ _ _ Hwf H) as [t [t' [w1 [_ [_ [_ [_ [_ [Hw1 [K _]]]]]]]]]].
    eapply kernel_wf; eauto.
Qed.

Lemma image_cinv v w r ip w' x :
  slice_indexes_traces v = true -> aslice_inplace_resets v = true ->
  wf w -> cinv w -> xinplace_guard w (XImage r ip) = true ->
  do_image v xv_fix w r ip = (w', x) -> cinv w'.
Proof.
  intros Hs1 Hs2 Hwf Hc Hg H. destruct x as [|e]; [|apply image_err in H; subst; exact Hc].
  destruct ip.
  - cbn [xinplace_guard] in Hg. unfold do_image in H. destruct (nth_error (trajs w) r) as [t|] eqn:Hr; [|discriminate].
    destruct (negb (have_cell t)); [discriminate|].
    destruct (negb (lengths_ok t && top_matches t && (1 <=? na t))); [discriminate|].
    eapply kernel_cinv; eauto. intros t0 Ht0. rewrite Hr in Ht0. inversion Ht0; subst t0.
    apply inplace_safe_spec; auto.
  - destruct (image_copy_ok _ _ _ _ _ Hwf H) as [t [t' [w1 [Hr [_ [S [Ht [Hf [Hw1 [K _]]]]]]]]]].
    assert (Hc1 : cinv w1).
    { exact (step_cinv v w (OSlice r (KSlice None None None) true) w1 ROk Hs1 Hs2 Hwf Hc eq_refl S). }
    eapply kernel_cinv; eauto.
    intros t0 Ht0 i o Hi. rewrite Ht in Ht0, Hi. rewrite nth_error_app_last in Ht0. inversion Ht0; subst t0.
    destruct (Nat.eq_dec i (length (trajs w))) as [->|Hne]; [left; reflexivity|right; left].
    assert (Hlt : i < length (trajs w)).
    { assert (i < length (trajs w ++ [t'])) by (apply nth_error_Some; congruence).
      rewrite app_length in H0. cbn in H0. lia. }
    rewrite nth_error_app1 in Hi by exact Hlt.
    destruct (wf_lookup _ _ _ Hwf Hi) as [[Hx _] _]. destruct Hf as [F1 _].
    apply overlap_other_buffer. lia.
Qed.

(* the copying form returns a trajectory that shares nothing with any existing one *)
Lemma image_copy_independent v xv w r w' :
  wf w -> do_image v xv w r false = (w', ROk) ->
  exists t', trajs w' = trajs w ++ [t'] /\ forall t, In t (trajs w) -> independent t t'.
Proof.
  intros Hwf H. destruct (image_copy_ok _ _ _ _ _ Hwf H) as [t [t' [w1 [_ [_ [_ [_ [Hf [_ [_ Ht]]]]]]]]]].
  eexists. split; [exact Ht|]. intros t0 Hin.
  assert (Hreg : reg_ok w t0) by (unfold wf in Hwf; rewrite Forall_forall in Hwf; auto).
  apply (fresh_independent w); [exact Hreg|].
  destruct Hf as [F1 [F2 [F3 [F4 [F5 F6]]]]]. unfold fresh_reg. cbn [set_tr xb tm ul ua tr tloc]. splits; auto.
  destruct (imaging_resets xv); [cbn; auto|exact F5].
Qed.

(* ------------------------------------------------------------------ smooth *)
Lemma smooth_err w r ip w' e : do_smooth w r ip = (w', RErr e) -> w' = w.
Proof.
  unfold do_smooth. intros H. destruct (nth_error (trajs w) r) as [t|]; [|inversion H; auto].
  destruct (negb (Nat.eqb (na t) 0) && Nat.eqb (nframes t) 0); [inversion H; auto|].
  destruct (negb (Nat.eqb (na t) 0) && (nframes t <? 3)); [inversion H; auto|].
  destruct ip.
  - exact (setters_err w (OSetXyzNew r (nframes t) (na t)) w' e I v_fix H).
  - unfold fresh_src in H.
    destruct (alloc_x _ _) as [w2 b]. destruct (ensure_oarr w2 (ul t)) as [w3 ul']. destruct (ensure_oarr w3 (ua t)) as [w4 ua'].
    destruct (construct _ _ _ _ _ _ _ _ _) as [w5 [|e1]] eqn:C; inversion H; auto.
Qed.

(* smooth(inplace=False): new coordinates in a fresh array, but the time array and the topology object are the
   source's own, and the cell arrays too unless ensure_type had to copy them *)
Lemma smooth_copy_ok w r t w' :
  wf w -> nth_error (trajs w) r = Some t -> do_smooth w r false = (w', ROk) ->
  exists t',
    trajs w' = trajs w ++ [t'] /\ hext w w' /\
    frames w' t' = opaque_frames (nsrc w) (nframes t) (na t) /\
    tm t' = tm t /\ tloc t' = tloc t /\ cell_passed w (ul t) (ul t') /\ cell_passed w (ua t) (ua t') /\
    na t' = na t /\ chains t' = chains t /\ tr t' = None /\ lengths_ok t' = true /\ reg_ok w' t' /\
    length (hx w) <= xb t'.
Proof.
  unfold do_smooth. intros Hwf Hr H. rewrite Hr in H.
  destruct (negb (Nat.eqb (na t) 0) && Nat.eqb (nframes t) 0); [discriminate|].
  destruct (negb (Nat.eqb (na t) 0) && (nframes t <? 3)); [discriminate|].
  unfold fresh_src in H.
  set (w0 := mkWorld (hx w) (trajs w) (nbuf w) (ntop w) (S (nsrc w))) in *.
  remember (opaque_frames (nsrc w) (nframes t) (na t)) as fs eqn:Efs.
  destruct (alloc_x w0 fs) as [w1 b] eqn:A.
  destruct (ensure_oarr w1 (ul t)) as [w3 ul'] eqn:E3. destruct (ensure_oarr w3 (ua t)) as [w4 ua'] eqn:E4.
  destruct (construct w4 b (seq 0 (length fs)) (na t) (tloc t) (chains t) (tm t) ul' ua') as [w5 [|e]] eqn:C;
    inversion H; subst w5; clear H.
  apply construct_ok in C. destruct C as [-> [Hc1 Hc2]].
  assert (E0 : ext w w0) by (unfold w0; ext_easy).
  apply alloc_x_spec in A. destruct A as [A1 [A2 [A3 [A4 [A5 [A6 A7]]]]]].
  apply ensure_oarr_spec in E3. destruct E3 as [X1 [X2 [X3 [X4 X5]]]].
  apply ensure_oarr_spec in E4. destruct E4 as [Y1 [Y2 [Y3 [Y4 Y5]]]].
  assert (E14 : ext w1 w4) by (eapply ext_trans; eauto).
  assert (Eall : ext w w4) by (eapply ext_trans; [exact E0|eapply ext_trans; [exact A1|exact E14]]).
  destruct (wf_lookup _ _ _ Hwf Hr) as [_ [I1 [I2 [I3 [I4 I5]]]]].
  pose proof (ext_nbuf _ _ X1) as Nx. pose proof (ext_nbuf _ _ Y1) as Ny.
  pose proof (ext_ntop _ _ Eall) as Nt.
  assert (N0 : nbuf w0 = nbuf w) by reflexivity. assert (H0 : hx w0 = hx w) by reflexivity.
  eexists. split. { cbn [trajs push]. rewrite (ext_trajs _ _ Eall). reflexivity. }
  split. { eapply hext_trans; [apply ext_hext; exact Eall|apply hext_push]. }
  assert (Hbuf : buf_of (push w4 (mkTraj b (seq 0 (length fs)) (na t) (tm t) ul' ua' (tloc t) (chains t) None false)) b = fs).
  { unfold buf_of. cbn [hx push]. rewrite Y2, X2. exact A3. }
  split. { apply frames_fresh_view. exact Hbuf. }
  cbn [tm ul ua na chains tr xb tloc].
  split; [reflexivity|]. split; [reflexivity|].
  split. { unfold cell_passed in *. destruct (ul t), ul'; auto. destruct X4 as [X4 [X6|X6]]; split; auto. right. lia. }
  split. { unfold cell_passed in *. destruct (ua t), ua'; auto. destruct Y4 as [Y4 [Y6|Y6]]; split; auto. right. lia. }
  splits; auto; try (rewrite A2, H0; lia).
  split.
  - apply fresh_view_wf; [|exact Hbuf]. cbn [hx push]. rewrite Y2, X2. exact A4.
  - assert (B1 : oarr_below (nbuf w4) ul').
    { assert (Q : oarr_below (nbuf w3) ul') by (apply X5; unfold oarr_below in *; destruct (ul t); auto; lia).
      unfold oarr_below in *. destruct ul'; auto. lia. }
    assert (B2 : oarr_below (nbuf w4) ua').
    { apply Y5. unfold oarr_below in *. destruct (ua t); auto. lia. }
    unfold ids_below. cbn [tm ul ua tr tloc nbuf ntop push]. splits; auto; try lia. cbn. auto.
Qed.

Lemma smooth_wf w r ip w' x : wf w -> do_smooth w r ip = (w', x) -> wf w'.
Proof.
  intros Hwf H. destruct x as [|e]; [|apply smooth_err in H; subst; exact Hwf].
  destruct (nth_error (trajs w) r) as [t|] eqn:Hr; [|unfold do_smooth in H; rewrite Hr in H; discriminate].
  destruct ip.
  - unfold do_smooth in H. rewrite Hr in H.
    destruct (negb (Nat.eqb (na t) 0) && Nat.eqb (nframes t) 0); [discriminate|].
    destruct (negb (Nat.eqb (na t) 0) && (nframes t <? 3)); [discriminate|].
    exact (step_wf v_fix w (OSetXyzNew r (nframes t) (na t)) w' ROk Hwf H).
  - destruct (smooth_copy_ok _ _ _ _ Hwf Hr H) as [t' [Ht [He [_ [_ [_ [_ [_ [_ [_ [_ [_ [Hreg _]]]]]]]]]]]]].
    eapply wf_of_new; eauto.
Qed.

Lemma smooth_cinv w r ip w' x : wf w -> cinv w -> do_smooth w r ip = (w', x) -> cinv w'.
Proof.
  intros Hwf Hc H. destruct x as [|e]; [|apply smooth_err in H; subst; exact Hc].
  destruct (nth_error (trajs w) r) as [t|] eqn:Hr; [|unfold do_smooth in H; rewrite Hr in H; discriminate].
  destruct ip.
  - unfold do_smooth in H. rewrite Hr in H.
    destruct (negb (Nat.eqb (na t) 0) && Nat.eqb (nframes t) 0); [discriminate|].
    destruct (negb (Nat.eqb (na t) 0) && (nframes t <? 3)); [discriminate|].
    exact (step_cinv v_fix w (OSetXyzNew r (nframes t) (na t)) w' ROk eq_refl eq_refl Hwf Hc eq_refl H).
  - destruct (smooth_copy_ok _ _ _ _ Hwf Hr H) as [t' [Ht [He [_ [_ [_ [_ [_ [_ [_ [Htr _]]]]]]]]]]].
    eapply cinv_of_new; eauto. apply cache_ok_none; exact Htr.
Qed.

(* ------------------------------------------------------------------ every extended step keeps the invariants *)
Lemma xstep_wf v xv w o w' x : wf w -> xstep v xv w o = (w', x) -> wf w'.
Proof.
  intros Hwf H. destruct o; cbn [xstep] in H.
  - eapply step_wf; eauto.
  - exact (step_wf v w (OAtomSlice r idx inplace) w' x Hwf H).
  - eapply image_wf; eauto.
  - eapply smooth_wf; eauto.
  - destruct (nth_error (trajs w) r); inversion H; subst; exact Hwf.
Qed.

Lemma xstep_cinv v w o w' x :
  slice_indexes_traces v = true -> aslice_inplace_resets v = true ->
  wf w -> cinv w -> xinplace_guard w o = true -> xstep v xv_fix w o = (w', x) -> cinv w'.
Proof.
  intros Hs1 Hs2 Hwf Hc Hg H. destruct o; cbn [xstep] in H.
  - eapply step_cinv; eauto.
  - exact (step_cinv v w (OAtomSlice r idx inplace) w' x Hs1 Hs2 Hwf Hc eq_refl H).
  - eapply image_cinv; eauto.
  - eapply smooth_cinv; eauto.
  - destruct (nth_error (trajs w) r); inversion H; subst; exact Hc.
Qed.

Lemma xrun_wf v xv ops : forall w, wf w -> wf (fst (xrun v xv w ops)).
Proof.
  induction ops as [|o rest IH]; intros w Hw; cbn [xrun]; [exact Hw|].
  destruct (xstep v xv w o) as [w1 x] eqn:S.
  specialize (IH w1 (xstep_wf _ _ _ _ _ _ Hw S)). destruct (xrun v xv w1 rest) as [w2 xs]. exact IH.
Qed.

Lemma xrun_cinv ops : forall w, wf w -> cinv w -> xguarded v_fix xv_fix w ops = true ->
  cinv (fst (xrun v_fix xv_fix w ops)).
Proof.
  induction ops as [|o rest IH]; intros w Hw Hc Hg; cbn [xrun]; [exact Hc|].
  cbn [xguarded] in Hg. apply andb_true_iff in Hg. destruct Hg as [G1 G2].
  destruct (xstep v_fix xv_fix w o) as [w1 x] eqn:S. cbn [fst] in G2.
  specialize (IH w1 (xstep_wf _ _ _ _ _ _ Hw S) (xstep_cinv v_fix _ _ _ _ eq_refl eq_refl Hw Hc G1 S) G2).
  destruct (xrun v_fix xv_fix w1 rest) as [w2 xs]. exact IH.
Qed.

Lemma xrun_wf_init v xv sps ops : wf (fst (xrun v xv (init_world sps) ops)).
Proof. apply xrun_wf. apply init_wf. Qed.

Lemma xrun_cinv_init sps ops :
  xguarded v_fix xv_fix (init_world sps) ops = true -> cinv (fst (xrun v_fix xv_fix (init_world sps) ops)).
Proof. apply xrun_cinv; [apply init_wf|apply init_cinv]. Qed.

(* the extended run restricted to base operations is the run of MD.Traj.Model *)
Lemma xrun_base v xv ops : forall w, xrun v xv w (map XBase ops) = run v w ops.
Proof.
  induction ops as [|o rest IH]; intros w; cbn [map xrun run]; [reflexivity|].
  cbn [xstep]. destruct (step v w o) as [w1 x]. rewrite IH. reflexivity.
Qed.

(* ------------------------------------------------------------------ observers; restrict_atoms *)
Lemma observers_change_nothing v xv w o : is_observer o = true -> fst (xstep v xv w o) = w.
Proof.
  destruct o as [o| | | |r]; cbn [is_observer]; try discriminate.
  - destruct o; try discriminate. intros _. cbn [xstep step]. destruct (nth_error (trajs w) r); reflexivity.
  - intros _. cbn [xstep]. destruct (nth_error (trajs w) r); reflexivity.
Qed.

Lemma restrict_atoms_is_atom_slice v xv w r idx ip :
  xstep v xv w (XRestrictAtoms r idx ip) = xstep v xv w (XBase (OAtomSlice r idx ip)).
Proof. reflexivity. Qed.

(* a refused call changes nothing *)
Lemma xstep_refused_changes_nothing w o w' e :
  match o with XBase (OSuperpose _ _ _) => False | _ => True end ->
  xstep v_fix xv_fix w o = (w', RErr e) -> w' = w.
Proof.
  intros G H. destruct o; cbn [xstep] in H.
  - destruct o; try contradiction; cbn [step] in H.
    + eapply slice_err; eauto.
    + eapply join_err; eauto.
    + eapply mdjoin_err; eauto.
    + eapply stack_err; eauto.
    + eapply atom_slice_err; eauto.
    + eapply remove_solvent_err; eauto.
    + eapply center_err; eauto.
    + exact (setters_err w (OSetXyzNew r m natoms) w' e I v_fix H).
    + exact (setters_err w (OSetXyzShare r r') w' e I v_fix H).
    + exact (setters_err w (OSetTimeNew r m) w' e I v_fix H).
    + exact (setters_err w (OSetTimeShare r r') w' e I v_fix H).
    + exact (setters_err w (OSetLengths r m) w' e I v_fix H).
    + exact (setters_err w (OSetAngles r m) w' e I v_fix H).
    + exact (setters_err w (OSetVectors r m allzero) w' e I v_fix H).
    + destruct (nth_error (trajs w) r); inversion H; auto.
  - eapply atom_slice_err; eauto.
  - eapply image_err; eauto.
  - eapply smooth_err; eauto.
  - destruct (nth_error (trajs w) r); inversion H; auto.
Qed.

(* ------------------------------------------------------------------ the code as found *)
Definition specs_img : list spec := [(3, [[1; 2; 3]], true, true)].
Definition xcinvb (w : world) : bool := forallb (cache_ok w) (trajs w).

(* center_coordinates(); make_molecules_whole(inplace=True) / image_molecules(inplace=True): the input keeps traces
   of coordinates it no longer has *)
Lemma imaging_inplace_as_found_refuted :
  xguarded v_fix xv_cur (init_world specs_img) [XBase (OCenter 0 false); XImage 0 true] = true /\
  xcinvb (fst (xrun v_fix xv_cur (init_world specs_img) [XBase (OCenter 0 false); XImage 0 true])) = false.
Proof. split; vm_compute; reflexivity. Qed.

(* center_coordinates(); u = t.image_molecules() : the returned copy carries the sliced cache and new coordinates *)
Lemma imaging_copy_as_found_refuted :
  xguarded v_fix xv_cur (init_world specs_img) [XBase (OCenter 0 false); XImage 0 false] = true /\
  let w := fst (xrun v_fix xv_cur (init_world specs_img) [XBase (OCenter 0 false); XImage 0 false]) in
  map (cache_ok w) (trajs w) = [true; false].
Proof. split; vm_compute; reflexivity. Qed.

(* non-vacuity: a guarded history that uses every new method and succeeds at every step *)
Definition xops_demo : list xop :=
  [XBase (OCenter 0 false); XImage 0 false; XImage 0 true; XSmooth 1 false; XSmooth 0 true; XRestrictAtoms 2 [0%Z; 2%Z] false;
   XObserve 3; XBase (OSlice 0 (KSlice None None None) false); XBase (OCenter 0 false)].
Lemma xdemo_guards :
  xguarded v_fix xv_fix (init_world specs_img) xops_demo = true /\
  snd (xrun v_fix xv_fix (init_world specs_img) xops_demo) = map (fun _ => ROk) xops_demo.
Proof. split; vm_compute; reflexivity. Qed.
